(** C17/ParseProofs.v — the doc-type grammar parses the tokens [ptoks t] of a [small] type to [tree_of t]. *)
From EV Require Import C17.Model C17.Spec C17.LexProofs.
From Coq Require Import String Lia.
Local Open Scope nat_scope.

(* ------------------------------------------------------------------------------------------ *)
(** * Follow tokens *)

(** what follows a complete type in a rendering *)
Definition closer (t : token) : bool :=
  match t with TkEof | TkRParen | TkComma | TkGt | TkRBrace | TkRBracket => true | _ => false end.

(** the suffix loop stops on it *)
Definition nosuffix (t : token) : bool :=
  negb (is_barrier t) && negb (is_lbracket t) && negb (is_lt t).

(** what follows a union member *)
Definition mfollow (t : token) : bool :=
  match t with TkOr | TkRParen => true | _ => false end.

Definition nullable_union (t : ty) : bool :=
  match t with TUnion _ ms => existsb is_nil ms | _ => false end.

Definition neg_int (t : ty) : bool := match t with TInt (Zneg _) => true | _ => false end.

Definition simple_shape (t : ty) : bool := negb (nullable_union t) && negb (neg_int t).

(** fuel consumed between [parse_simple_type] and the point where the suffix loop reaches the rest *)
Fixpoint soff (t : ty) : nat :=
  match t with
  | TArray b => if array_base_needs_parens b then 2 else S (soff b)
  | TTableGeneric _ => 2
  | _ => 1
  end.

Definition oa_of (t : ty) : bool := match t with TArray _ => true | _ => false end.

(** fuel that certainly suffices *)
Fixpoint cost (t : ty) : nat :=
  match t with
  | TArray b => cost b + 6
  | TTableGeneric ps => 6 + fold_right (fun p acc => cost p + 4 + acc) 0 ps
  | TObject fs => 8 + fold_right (fun f acc => cost (snd f) + 12 + acc) 0 fs
  | TFun ps => 8 + fold_right (fun p acc => match snd p with Some pt => cost pt | None => 0 end + 8 + acc) 0 ps
  | TUnion _ ms => 10 + fold_right (fun m acc => if is_nil m then acc else cost m + 4 + acc) 0 ms
  | _ => 6
  end.

(* ------------------------------------------------------------------------------------------ *)
(** * The loops stop on follow tokens *)

Lemma closer_facts : forall t, closer t = true ->
  is_barrier t = false /\ is_question t = false /\ is_kw_extends t = false /\ is_lbracket t = false
  /\ is_lt t = false /\ to_parse_binary_operator (opkind_of t) = BNone.
Proof. intros t H. destruct t; try discriminate H; repeat split; reflexivity. Qed.

Lemma closer_nosuffix : forall t, closer t = true -> nosuffix t = true.
Proof. intros t H. destruct t; try discriminate H; reflexivity. Qed.

Lemma mfollow_nosuffix : forall t, mfollow t = true -> nosuffix t = true.
Proof. intros t H. destruct t; try discriminate H; reflexivity. Qed.

Lemma suffix_stop : forall f cm oa rest, nosuffix (hd_tk rest) = true ->
  suffix_loop (S f) cm oa rest = Some (cm, rest).
Proof.
  intros f cm oa rest H. unfold nosuffix in H.
  apply andb_true_iff in H as [H H3]. apply andb_true_iff in H as [H1 H2].
  apply negb_true_iff in H1, H2, H3. cbn [suffix_loop]. cbv zeta. rewrite H1, H2, H3. reflexivity.
Qed.

Lemma binary_stop_closer : forall f cm lim rest, closer (hd_tk rest) = true ->
  binary_loop (S f) cm lim rest = Some (cm, rest).
Proof.
  intros f cm lim rest H. apply closer_facts in H as (H1 & _ & _ & _ & _ & H6).
  cbn [binary_loop]. cbv zeta. rewrite H1, H6. reflexivity.
Qed.

Lemma type_stop_closer : forall f cm rest, closer (hd_tk rest) = true ->
  type_loop (S f) cm rest = Some (cm, rest).
Proof.
  intros f cm rest H. apply closer_facts in H as (H1 & H2 & H3 & _).
  cbn [type_loop]. cbv zeta. rewrite H1, H2, H3. reflexivity.
Qed.

(** after a unary minus: every binary operator binds weaker than [UNARY_TYPE_PRIORITY] *)
Lemma binary_stop_unary : forall f cm rest, is_barrier (hd_tk rest) = false ->
  binary_loop (S f) cm UNARY_TYPE_PRIORITY rest = Some (cm, rest).
Proof.
  intros f cm rest H. cbn [binary_loop]. cbv zeta. rewrite H.
  destruct (to_parse_binary_operator (opkind_of (hd_tk rest))); reflexivity.
Qed.

(** a union member inside a group is followed by [|] or [)]: the loop at the right-hand priority stops *)
Lemma binary_stop_member : forall f cm rest, mfollow (hd_tk rest) = true ->
  binary_loop (S f) cm (prio_right BUnion) rest = Some (cm, rest).
Proof.
  intros f cm rest H. cbn [binary_loop]. cbv zeta.
  destruct (hd_tk rest); try discriminate H; reflexivity.
Qed.

Lemma nosuffix_not_barrier : forall t, nosuffix t = true -> is_barrier t = false.
Proof.
  intros t H. unfold nosuffix in H. apply andb_true_iff in H as [H _]. apply andb_true_iff in H as [H _].
  apply negb_true_iff in H. exact H.
Qed.

(* ------------------------------------------------------------------------------------------ *)
(** * Statements *)

Definition PS (t : ty) : Prop := forall g rest,
  cost t <= g -> simple_shape t = true -> is_colon (hd_tk rest) = false ->
  parse_simple_type g (ptoks t ++ rest) = suffix_loop (g - soff t) (tree_of t) (oa_of t) rest.

Definition PU (t : ty) : Prop := forall g lim rest,
  cost t + 1 <= g -> nullable_union t = false ->
  nosuffix (hd_tk rest) = true -> is_colon (hd_tk rest) = false ->
  parse_sub_type g lim (ptoks t ++ rest) = binary_loop (g - 1) (tree_of t) lim rest.

Definition PT (t : ty) : Prop := forall g rest,
  cost t + 2 <= g -> closer (hd_tk rest) = true ->
  parse_type g (ptoks t ++ rest) = Some (tree_of t, rest).

Definition smallx (t : ty) : Prop := exists lvl d, small lvl d t = true.

Lemma soff_lt_cost : forall t, soff t + 2 <= cost t.
Proof.
  induction t using ty_ind'; cbn [soff cost]; try lia.
  destruct (array_base_needs_parens t); lia.
Qed.

(** the first token of a rendering that is not an optional: a type starts here *)
Definition first_ok (ts : list token) : bool :=
  let t := hd_tk ts in
  negb (is_eof t) && negb (is_barrier t) && negb (is_question t)
  && match to_type_unary_operator (opkind_of t) with UNone => true | _ => false end.

Lemma plain_name_opkind : forall n, is_plain_name n = true -> opkind_of (TkName n) = KOther.
Proof. intros n H. unfold is_plain_name in H. cbn [opkind_of]. destruct (kw n); try discriminate; reflexivity. Qed.

Lemma ref_plain : forall n, ref_name_ok n = true -> is_plain_name n = true /\ mem_text n fun_words = false.
Proof.
  intros n H. unfold ref_name_ok in H. apply andb_true_iff in H as [H H2]. apply andb_true_iff in H as [H H1].
  apply negb_true_iff in H2. split; assumption.
Qed.

Lemma first_ok_simple : forall t rest, smallx t -> simple_shape t = true -> first_ok (ptoks t ++ rest) = true.
Proof.
  induction t using ty_ind'; intros rest [lvl [d Hs]] Hsh; rewrite small_eq in Hs;
    apply andb_true_iff in Hs as [_ Hs]; cbv zeta in Hs.
  - destruct p; reflexivity.
  - reflexivity.
  - destruct z; try reflexivity. discriminate Hsh.
  - destruct b; reflexivity.
  - apply ref_plain in Hs as [Hp _]. cbn [ptoks app]. unfold first_ok. cbn [hd_tk is_eof is_barrier is_question negb andb].
    rewrite (plain_name_opkind _ Hp). reflexivity.
  - discriminate.
  - cbn [ptoks]. destruct (array_base_needs_parens t) eqn:E; [reflexivity|].
    rewrite <- app_assoc. apply IHt; [exists (next_level lvl), (S d); exact Hs|].
    unfold simple_shape, nullable_union, neg_int. destruct t; try reflexivity.
    + destruct z; try reflexivity. discriminate E.
    + cbn [array_base_needs_parens] in E. rewrite E. reflexivity.
  - reflexivity.
  - reflexivity.
  - reflexivity.
  - unfold simple_shape in Hsh. cbn [nullable_union neg_int negb] in Hsh. rewrite andb_true_r in Hsh.
    apply negb_true_iff in Hsh. rewrite ptoks_union. rewrite Hsh.
    apply andb_true_iff in Hs as [Hs _]. apply andb_true_iff in Hs as [Hs _]. apply andb_true_iff in Hs as [Hs _].
    apply andb_true_iff in Hs as [Hs _]. apply andb_true_iff in Hs as [H2 _].
    assert (Hl : (2 <= List.length (non_nil ms))%nat).
    { apply Nat.leb_le in H2. unfold non_nil. clear -H2 Hsh.
      assert (E : filter (fun m => negb (is_nil m)) ms = ms).
      { clear H2. induction ms as [|m r IH]; [reflexivity|]. cbn [existsb] in Hsh. apply orb_false_iff in Hsh as [Hm Hr].
        cbn [filter]. rewrite Hm. cbn [negb]. f_equal. apply IH. exact Hr. }
      rewrite E. exact H2. }
    unfold union_parens. destruct (1 <? List.length (non_nil ms))%nat eqn:E1; [reflexivity|].
    apply Nat.ltb_ge in E1. lia.
Qed.

(* ------------------------------------------------------------------------------------------ *)
(** * From the simple level to the type level *)

Lemma first_ok_parts : forall ts, first_ok ts = true ->
  is_eof (hd_tk ts) = false /\ is_barrier (hd_tk ts) = false /\ is_question (hd_tk ts) = false
  /\ to_type_unary_operator (opkind_of (hd_tk ts)) = UNone.
Proof.
  intros ts H. unfold first_ok in H. cbv zeta in H.
  apply andb_true_iff in H as [H H4]. apply andb_true_iff in H as [H H3]. apply andb_true_iff in H as [H1 H2].
  apply negb_true_iff in H1, H2, H3.
  destruct (to_type_unary_operator (opkind_of (hd_tk ts))); try discriminate. auto.
Qed.

Lemma PS_PU : forall t, smallx t -> PS t -> simple_shape t = true -> PU t.
Proof.
  intros t Hsm HS Hsh g lim rest Hg _ Hns Hcol.
  destruct g as [|g1]; [lia|].
  pose proof (first_ok_parts _ (first_ok_simple t rest Hsm Hsh)) as (H1 & H2 & _ & H4).
  cbn [parse_sub_type]. cbv zeta. rewrite H1, H2, H4. cbn [orb].
  rewrite HS by (try assumption; lia).
  pose proof (soff_lt_cost t).
  destruct (g1 - soff t) as [|k] eqn:E; [lia|].
  rewrite suffix_stop by assumption.
  replace (S g1 - 1) with g1 by lia. reflexivity.
Qed.

Lemma PU_PT : forall t, PU t -> nullable_union t = false -> PT t.
Proof.
  intros t HU Hn g rest Hg Hcl.
  destruct g as [|g1]; [lia|]. cbn [parse_type].
  pose proof (closer_facts _ Hcl) as (_ & _ & _ & _ & _ & _).
  assert (Hcol : is_colon (hd_tk rest) = false) by (destruct (hd_tk rest); try discriminate Hcl; reflexivity).
  rewrite HU by (try assumption; try lia; apply closer_nosuffix; assumption).
  destruct (g1 - 1) as [|k] eqn:E; [pose proof (soff_lt_cost t); lia|].
  rewrite binary_stop_closer by assumption.
  destruct g1 as [|g2]; [lia|]. apply type_stop_closer. assumption.
Qed.

(** a single-token type *)
Lemma leaf_PS : forall t tok d,
  ptoks t = [tok] -> tree_of t = d -> soff t = 1 -> oa_of t = false -> cost t = 6 ->
  (forall f r, parse_primary_type (S f) (tok :: r) = Some (d, r)) ->
  PS t.
Proof.
  intros t tok d Hp Ht Hso Hoa Hc Hprim g rest Hg _ _.
  rewrite Hp, Ht, Hso, Hoa. rewrite Hc in Hg.
  destruct g as [|g1]; [lia|]. destruct g1 as [|g2]; [lia|].
  cbn [parse_simple_type app]. rewrite Hprim. replace (S (S g2) - 1) with (S g2) by lia. reflexivity.
Qed.

Lemma primary_name : forall f n rest,
  is_plain_name n = true -> mem_text n fun_words = false ->
  parse_primary_type (S f) (TkName n :: rest) = Some (DName n, rest).
Proof.
  intros f n rest Hp Hf. cbn [parse_primary_type hd_tk tl_tk]. cbv zeta.
  unfold is_plain_name in Hp. destruct (kw n); try discriminate.
  unfold mem_text, fun_words in Hf. cbn [existsb] in Hf.
  apply orb_false_iff in Hf as [Hf1 Hf]. apply orb_false_iff in Hf as [Hf2 Hf]. apply orb_false_iff in Hf as [Hf3 _].
  rewrite Hf1, Hf2, Hf3. reflexivity.
Qed.

Lemma P_prim : forall p, PS (TPrim p) /\ PU (TPrim p) /\ PT (TPrim p).
Proof.
  intros p.
  assert (Hsm : smallx (TPrim p)) by (exists Documentation, 0; reflexivity).
  assert (HS : PS (TPrim p)).
  { apply (leaf_PS _ (TkName (prim_name p)) (DName (prim_name p))); try reflexivity.
    intros f r. destruct p; reflexivity. }
  assert (HU : PU (TPrim p)) by (apply PS_PU; [assumption|assumption|reflexivity]).
  split; [assumption|]. split; [assumption|]. apply PU_PT; [assumption|reflexivity].
Qed.

Lemma P_str : forall s, PS (TStr s) /\ PU (TStr s) /\ PT (TStr s).
Proof.
  intros s.
  assert (Hsm : smallx (TStr s)) by (exists Documentation, 0; reflexivity).
  assert (HS : PS (TStr s)).
  { apply (leaf_PS _ (TkString (quoted s)) (DLitStr (quoted s))); try reflexivity. }
  assert (HU : PU (TStr s)) by (apply PS_PU; [assumption|assumption|reflexivity]).
  split; [assumption|]. split; [assumption|]. apply PU_PT; [assumption|reflexivity].
Qed.

Lemma P_bool : forall b, PS (TBool b) /\ PU (TBool b) /\ PT (TBool b).
Proof.
  intros b.
  assert (Hsm : smallx (TBool b)) by (exists Documentation, 0; reflexivity).
  assert (HS : PS (TBool b)).
  { apply (leaf_PS _ (TkName (if b then T"true" else T"false")) (DLitBool b)); try reflexivity.
    intros f r. destruct b; reflexivity. }
  assert (HU : PU (TBool b)) by (apply PS_PU; [assumption|assumption|reflexivity]).
  split; [assumption|]. split; [assumption|]. apply PU_PT; [assumption|reflexivity].
Qed.

Lemma P_ref : forall n, ref_name_ok n = true -> PS (TRef n) /\ PU (TRef n) /\ PT (TRef n).
Proof.
  intros n Hn.
  assert (Hsm : smallx (TRef n)) by (exists Documentation, 0; rewrite small_eq; exact Hn).
  destruct (ref_plain _ Hn) as [Hp Hf].
  assert (HS : PS (TRef n)).
  { apply (leaf_PS _ (TkName n) (DName n)); try reflexivity.
    intros f r. apply primary_name; assumption. }
  assert (HU : PU (TRef n)) by (apply PS_PU; [assumption|assumption|reflexivity]).
  split; [assumption|]. split; [assumption|]. apply PU_PT; [assumption|reflexivity].
Qed.

Lemma P_int : forall z, int_ok z = true -> PS (TInt z) /\ PU (TInt z) /\ PT (TInt z).
Proof.
  intros z Hz.
  assert (Hsm : smallx (TInt z)) by (exists Documentation, 0; rewrite small_eq; exact Hz).
  destruct z as [|p|p].
  - assert (HS : PS (TInt 0)) by (apply (leaf_PS _ (TkInt (show_Z 0)) (DLitInt (show_Z 0))); reflexivity).
    assert (HU : PU (TInt 0)) by (apply PS_PU; [assumption|assumption|reflexivity]).
    split; [assumption|]. split; [assumption|]. apply PU_PT; [assumption|reflexivity].
  - assert (HS : PS (TInt (Zpos p)))
      by (apply (leaf_PS _ (TkInt (show_Z (Zpos p))) (DLitInt (show_Z (Zpos p)))); reflexivity).
    assert (HU : PU (TInt (Zpos p))) by (apply PS_PU; [assumption|assumption|reflexivity]).
    split; [assumption|]. split; [assumption|]. apply PU_PT; [assumption|reflexivity].
  - assert (HS : PS (TInt (Zneg p))) by (intros g rest _ Hsh; discriminate Hsh).
    assert (HU : PU (TInt (Zneg p))).
    { intros g lim rest Hg _ Hns Hcol. cbn [cost] in Hg. cbn [ptoks tree_of app].
      destruct g as [|g1]; [lia|]. destruct g1 as [|g2]; [lia|]. destruct g2 as [|g3]; [lia|].
      destruct g3 as [|g4]; [lia|]. destruct g4 as [|g5]; [lia|].
      cbn [parse_sub_type hd_tk tl_tk is_eof is_barrier orb opkind_of to_type_unary_operator]. cbv zeta.
      cbn [parse_sub_type hd_tk tl_tk is_eof is_barrier orb opkind_of to_type_unary_operator]. cbv zeta.
      cbn [parse_simple_type parse_primary_type hd_tk tl_tk]. cbv zeta.
      rewrite suffix_stop by assumption.
      rewrite binary_stop_unary by (apply nosuffix_not_barrier; assumption).
      replace (S (S (S (S (S g5)))) - 1) with (S (S (S (S g5)))) by lia. reflexivity. }
    split; [assumption|]. split; [assumption|]. apply PU_PT; [assumption|reflexivity].
Qed.

(* ------------------------------------------------------------------------------------------ *)
(** * Comma-separated lists *)

Lemma sep_by_cons2 : forall (A : Type) (s : list A) x y r, sep_by s (x :: y :: r) = x ++ s ++ sep_by s (y :: r).
Proof. reflexivity. Qed.

Definition lcost (ps : list ty) : nat := fold_right (fun p acc => cost p + 4 + acc) 0 ps.

Lemma type_list_ok : forall ps, ps <> [] -> Forall PT ps -> forall g rest,
  lcost ps <= g ->
  parse_type_list g (sep_by [TkComma] (map ptoks ps) ++ TkGt :: rest) = Some (map tree_of ps, TkGt :: rest).
Proof.
  induction ps as [|p r IH]; intros Hne HF g rest Hg; [contradiction|].
  inversion HF as [|? ? Hp Hr]; subst. unfold lcost in Hg. cbn [fold_right] in Hg. fold (lcost r) in Hg.
  destruct g as [|g']; [lia|]. cbn [parse_type_list].
  destruct r as [|q r'].
  - cbn [map sep_by]. rewrite Hp by (try reflexivity; lia). reflexivity.
  - cbn [map]. rewrite sep_by_cons2. rewrite <- !app_assoc. cbn [app].
    rewrite Hp by (try reflexivity; lia). cbn [hd_tk tl_tk is_comma].
    change (map ptoks (q :: r')) with (map ptoks (q :: r')) in *.
    rewrite (IH ltac:(discriminate) Hr) by lia. reflexivity.
Qed.

(** record fields *)
Definition after_key_fn (f : nat) (k : text + dt) (r : list token)
  : pres (list ((text + dt) * bool * option dt)) :=
  let q := is_question (hd_tk r) in
  let r1 := if q then tl_tk r else r in
  let cont (fld : (text + dt) * bool * option dt) (r2 : list token) :=
    if is_barrier (hd_tk r2) then None
    else if is_comma (hd_tk r2) then
      (if is_rbrace (hd_tk (tl_tk r2)) then Some ([fld], tl_tk r2)
       else match parse_fields f false (tl_tk r2) with
            | Some (fs, r4) => Some (fld :: fs, r4)
            | None => None
            end)
    else Some ([fld], r2) in
  if is_barrier (hd_tk r1) then None
  else if is_colon (hd_tk r1) then
    match parse_type f (tl_tk r1) with
    | Some (d, r3) => cont (k, q, Some d) r3
    | None => None
    end
  else cont (k, q, None) r1.

Lemma parse_fields_eq : forall f first ts,
  parse_fields (S f) first ts =
  match hd_tk ts with
  | TkName n => if first || is_plain_name n then after_key_fn f (inl n) (tl_tk ts) else None
  | TkLBracket =>
      match parse_type f (tl_tk ts) with
      | Some (d, r2) => if is_rbracket (hd_tk r2) then after_key_fn f (inr d) (tl_tk r2) else None
      | None => None
      end
  | _ => None
  end.
Proof. reflexivity. Qed.

Lemma after_key_last : forall f k v rest, PT v -> cost v + 2 <= f ->
  after_key_fn f k (TkColon :: ptoks v ++ TkRBrace :: rest)
  = Some ([(k, false, Some (tree_of v))], TkRBrace :: rest).
Proof.
  intros f k v rest Hv Hf. unfold after_key_fn. cbn [hd_tk tl_tk is_question is_barrier is_colon].
  rewrite Hv by (try reflexivity; lia). reflexivity.
Qed.

Lemma after_key_more : forall f k v Y fs' r4, PT v -> cost v + 2 <= f ->
  is_rbrace (hd_tk Y) = false -> parse_fields f false Y = Some (fs', r4) ->
  after_key_fn f k (TkColon :: ptoks v ++ TkComma :: Y)
  = Some ((k, false, Some (tree_of v)) :: fs', r4).
Proof.
  intros f k v Y fs' r4 Hv Hf HY Hrec. unfold after_key_fn. cbn [hd_tk tl_tk is_question is_barrier is_colon].
  rewrite Hv by (try reflexivity; lia). cbn [hd_tk tl_tk is_barrier is_comma]. rewrite HY, Hrec. reflexivity.
Qed.

Definition ftoks (f : key * ty) : list token := key_toks (fst f) ++ TkColon :: ptoks (snd f).
Definition ftree (f : key * ty) : (text + dt) * bool * option dt := (key_tree (fst f), false, Some (tree_of (snd f))).
Definition fcost (fs : list (key * ty)) : nat := fold_right (fun f acc => cost (snd f) + 12 + acc) 0 fs.

Lemma plain_field_facts : forall s, is_plain_field_name s = true ->
  is_plain_name s = true /\ text_eqb s T"readonly" = false.
Proof.
  intros s H. unfold is_plain_field_name in H. destruct s as [|c r]; [discriminate|].
  apply andb_true_iff in H as [_ H]. apply negb_true_iff in H.
  unfold mem_text, doc_keywords in H. cbn [existsb] in H.
  repeat (apply orb_false_iff in H as [? H]).
  unfold is_plain_name, kw.
  repeat match goal with E : text_eqb _ _ = false |- _ => rewrite E; clear E end.
  split; reflexivity.
Qed.

(** the first token of a field is never [}] *)
Lemma ftoks_head : forall f X, is_rbrace (hd_tk (ftoks f ++ X)) = false.
Proof.
  intros [[z|s] v] X; unfold ftoks, key_toks; cbn [fst snd]; [reflexivity|].
  destruct (is_plain_field_name s); reflexivity.
Qed.

Lemma key_int_toks : forall z, (0 <= z)%Z -> ptoks (TInt z) = [TkInt (show_Z z)] /\ tree_of (TInt z) = DLitInt (show_Z z).
Proof. intros z Hz. destruct z; try lia; split; reflexivity. Qed.

Lemma fields_ok : forall fs, fs <> [] -> Forall (fun f => PT (snd f)) fs ->
  forallb key_ok (map fst fs) = true ->
  forall first g rest, fcost fs <= g ->
  parse_fields g first (sep_by [TkComma] (map ftoks fs) ++ TkRBrace :: rest)
  = Some (map ftree fs, TkRBrace :: rest).
Proof.
  induction fs as [|[k v] r IH]; intros Hne HF Hk first g rest Hg; [contradiction|].
  inversion HF as [|? ? Hv Hr]; subst. cbn [snd] in Hv.
  cbn [map forallb fst] in Hk. apply andb_true_iff in Hk as [Hk Hkr].
  unfold fcost in Hg. cbn [fold_right snd] in Hg. fold (fcost r) in Hg.
  destruct g as [|g']; [lia|].
  (* what the rest of the list gives *)
  assert (Htail : forall keyd,
            after_key_fn g' keyd (TkColon :: ptoks v ++
               match r with [] => TkRBrace :: rest
                          | _ => TkComma :: sep_by [TkComma] (map ftoks r) ++ TkRBrace :: rest end)
            = Some ((keyd, false, Some (tree_of v)) :: map ftree r, TkRBrace :: rest)).
  { intros keyd. destruct r as [|f2 r'].
    - apply after_key_last; [assumption|lia].
    - apply after_key_more; [assumption|lia| |].
      + destruct r' as [|f3 r'']; cbn [map]; [cbn [sep_by]|rewrite sep_by_cons2; rewrite <- app_assoc]; apply ftoks_head.
      + apply IH; [discriminate|assumption|assumption|lia]. }
  assert (Hshape : sep_by [TkComma] (map ftoks ((k, v) :: r)) ++ TkRBrace :: rest
                   = key_toks k ++ TkColon :: ptoks v ++
                     match r with [] => TkRBrace :: rest
                                | _ => TkComma :: sep_by [TkComma] (map ftoks r) ++ TkRBrace :: rest end).
  { destruct r as [|f2 r'].
    - cbn [map sep_by]. unfold ftoks. cbn [fst snd]. rewrite <- app_assoc. reflexivity.
    - cbn [map]. rewrite sep_by_cons2. unfold ftoks at 1. cbn [fst snd]. rewrite <- !app_assoc. reflexivity. }
  rewrite Hshape. rewrite parse_fields_eq.
  change (map ftree ((k, v) :: r)) with ((key_tree k, false, Some (tree_of v)) :: map ftree r).
  destruct k as [z|s]; unfold key_toks; cbn [key_tree].
  - cbn [key_ok] in Hk. apply andb_true_iff in Hk as [Hz Hz2]. apply Z.leb_le in Hz.
    assert (Hi : int_ok z = true).
    { unfold int_ok. apply Z.leb_le in Hz2. apply andb_true_iff. split; apply Z.leb_le; unfold I64_MAX in *; lia. }
    destruct (P_int z Hi) as (_ & _ & HTz). destruct (key_int_toks z Hz) as [E1 E2].
    cbn [app hd_tk tl_tk].
    change (TkInt (show_Z z) :: TkRBracket :: TkColon :: ptoks v ++
              match r with [] => TkRBrace :: rest
                         | _ :: _ => TkComma :: sep_by [TkComma] (map ftoks r) ++ TkRBrace :: rest end)
      with ([TkInt (show_Z z)] ++ TkRBracket :: TkColon :: ptoks v ++
              match r with [] => TkRBrace :: rest
                         | _ :: _ => TkComma :: sep_by [TkComma] (map ftoks r) ++ TkRBrace :: rest end).
    rewrite <- E1. rewrite HTz by (try reflexivity; cbn [cost]; lia). rewrite E2.
    cbn [hd_tk tl_tk is_rbracket]. apply Htail.
  - destruct (is_plain_field_name s) eqn:E.
    + destruct (plain_field_facts _ E) as [Hp _]. cbn [app hd_tk tl_tk]. rewrite Hp, orb_true_r. apply Htail.
    + destruct (P_str s) as (_ & _ & HTs). cbn [app hd_tk tl_tk].
      change (TkString (quoted s) :: TkRBracket :: TkColon :: ptoks v ++
                match r with [] => TkRBrace :: rest
                           | _ :: _ => TkComma :: sep_by [TkComma] (map ftoks r) ++ TkRBrace :: rest end)
        with (ptoks (TStr s) ++ TkRBracket :: TkColon :: ptoks v ++
                match r with [] => TkRBrace :: rest
                           | _ :: _ => TkComma :: sep_by [TkComma] (map ftoks r) ++ TkRBrace :: rest end).
      rewrite HTs by (try reflexivity; cbn [cost]; lia).
      cbn [hd_tk tl_tk is_rbracket tree_of]. apply Htail.
Qed.

(** function parameters *)
Definition param_cont_fn (f : nat) (p : text * bool * option dt) (r2 : list token)
  : pres (list (text * bool * option dt)) :=
  if is_barrier (hd_tk r2) then None
  else if is_comma (hd_tk r2) then
    match parse_params f (tl_tk r2) with
    | Some (ps, r4) => Some (p :: ps, r4)
    | None => None
    end
  else Some ([p], r2).

Lemma parse_params_eq : forall f ts,
  parse_params (S f) ts =
  match hd_tk ts with
  | TkName n =>
      if is_plain_name n then
        let r := tl_tk ts in
        let q := is_question (hd_tk r) in
        let r1 := if q then tl_tk r else r in
        if is_barrier (hd_tk r1) then None
        else if is_colon (hd_tk r1) then
          match parse_type f (tl_tk r1) with
          | Some (d, r3) => param_cont_fn f (n, q, Some d) r3
          | None => None
          end
        else param_cont_fn f (n, q, None) r1
      else None
  | _ => None
  end.
Proof. reflexivity. Qed.

Definition ptoks_param (p : text * option ty) : list token :=
  TkName (fst p) :: match snd p with Some pt => TkColon :: ptoks pt | None => [] end.
Definition ptree_param (p : text * option ty) : text * bool * option dt :=
  (fst p, false, option_map tree_of (snd p)).
Definition pcost (ps : list (text * option ty)) : nat :=
  fold_right (fun p acc => match snd p with Some pt => cost pt | None => 0 end + 8 + acc) 0 ps.

Lemma params_ok : forall ps, ps <> [] ->
  Forall (fun p => match snd p with Some t => PT t | None => True end) ps ->
  forallb (fun p : text * option ty => param_name_ok (fst p)) ps = true ->
  forall g rest, pcost ps <= g ->
  parse_params g (sep_by [TkComma] (map ptoks_param ps) ++ TkRParen :: rest)
  = Some (map ptree_param ps, TkRParen :: rest).
Proof.
  induction ps as [|[n ot] r IH]; intros Hne HF Hn g rest Hg; [contradiction|].
  inversion HF as [|? ? Hp Hr]; subst. cbn [snd] in Hp.
  cbn [forallb fst] in Hn. apply andb_true_iff in Hn as [Hn Hnr].
  unfold param_name_ok in Hn. apply andb_true_iff in Hn as [_ Hplain].
  unfold pcost in Hg. cbn [fold_right snd] in Hg. fold (pcost r) in Hg.
  destruct g as [|g']; [lia|].
  assert (Hcont : forall pd,
            param_cont_fn g' pd
              match r with [] => TkRParen :: rest
                         | _ => TkComma :: sep_by [TkComma] (map ptoks_param r) ++ TkRParen :: rest end
            = Some (pd :: map ptree_param r, TkRParen :: rest)).
  { intros pd. destruct r as [|p2 r'].
    - reflexivity.
    - unfold param_cont_fn. cbn [hd_tk tl_tk is_barrier is_comma].
      rewrite IH by (try assumption; try discriminate; lia). reflexivity. }
  assert (Hshape : sep_by [TkComma] (map ptoks_param ((n, ot) :: r)) ++ TkRParen :: rest
                   = TkName n :: match ot with Some pt => TkColon :: ptoks pt | None => [] end ++
                     match r with [] => TkRParen :: rest
                                | _ => TkComma :: sep_by [TkComma] (map ptoks_param r) ++ TkRParen :: rest end).
  { destruct r as [|p2 r'].
    - cbn [map sep_by]. unfold ptoks_param. cbn [fst snd app]. reflexivity.
    - cbn [map]. rewrite sep_by_cons2. unfold ptoks_param at 1. cbn [fst snd]. rewrite <- !app_assoc. reflexivity. }
  rewrite Hshape. rewrite parse_params_eq. cbn [hd_tk tl_tk]. rewrite Hplain. cbv zeta.
  change (map ptree_param ((n, ot) :: r)) with ((n, false, option_map tree_of ot) :: map ptree_param r).
  destruct ot as [pt|].
  - cbn [app hd_tk tl_tk is_question is_barrier is_colon option_map].
    rewrite Hp by (try lia; destruct r; reflexivity).
    apply Hcont.
  - cbn [app option_map].
    assert (Hh : forall X, X = match r with [] => TkRParen :: rest
                                 | _ => TkComma :: sep_by [TkComma] (map ptoks_param r) ++ TkRParen :: rest end ->
                 is_question (hd_tk X) = false /\ is_barrier (hd_tk X) = false /\ is_colon (hd_tk X) = false).
    { intros X ->. destruct r; repeat split; reflexivity. }
    destruct (Hh _ eq_refl) as (H1 & H2 & H3). rewrite H1, H2, H3. apply Hcont.
Qed.

(** union members inside a parenthesised group *)
Definition gcost (ms : list ty) : nat := fold_right (fun m acc => cost m + 4 + acc) 0 ms.

Lemma head_not_question : forall m X, smallx m -> nullable_union m = false ->
  is_question (hd_tk (ptoks m ++ X)) = false.
Proof.
  intros m X Hsm Hn. destruct (neg_int m) eqn:E.
  - destruct m; try discriminate E. destruct z; try discriminate E. reflexivity.
  - assert (Hsh : simple_shape m = true) by (unfold simple_shape; rewrite Hn, E; reflexivity).
    apply (first_ok_parts _ (first_ok_simple m X Hsm Hsh)).
Qed.

Lemma members_ok : forall ms,
  Forall (fun m => PU m /\ smallx m /\ nullable_union m = false) ms ->
  forall acc g rest, gcost ms + 1 <= g ->
  binary_loop g acc 0 (flat_map (fun m => TkOr :: ptoks m) ms ++ TkRParen :: rest)
  = Some (fold_left (fun a x => DBinary BUnion a x) (map tree_of ms) acc, TkRParen :: rest).
Proof.
  induction ms as [|m r IH]; intros HF acc g rest Hg.
  - cbn [flat_map app map fold_left]. destruct g as [|g']; [lia|]. apply binary_stop_closer. reflexivity.
  - inversion HF as [|? ? [HU [Hsm Hn]] Hr]; subst.
    unfold gcost in Hg. cbn [fold_right] in Hg. fold (gcost r) in Hg.
    destruct g as [|g']; [lia|].
    cbn [flat_map map fold_left]. rewrite <- !app_assoc. cbn [app].
    cbn [binary_loop hd_tk tl_tk is_barrier opkind_of to_parse_binary_operator]. cbv zeta.
    change (0 <? prio_left BUnion) with true. cbv iota.
    rewrite head_not_question by assumption.
    assert (Hmf : mfollow (hd_tk (flat_map (fun m0 => TkOr :: ptoks m0) r ++ TkRParen :: rest)) = true)
      by (destruct r; reflexivity).
    rewrite HU; [|lia|assumption|apply mfollow_nosuffix; exact Hmf|
                 destruct (hd_tk (flat_map (fun m0 => TkOr :: ptoks m0) r ++ TkRParen :: rest)); try discriminate Hmf; reflexivity].
    destruct (g' - 1) as [|k] eqn:Ek; [lia|].
    rewrite binary_stop_member by exact Hmf.
    apply IH; [assumption|lia].
Qed.

Lemma sep_by_or_flat : forall (m : ty) r,
  sep_by [TkOr] (map ptoks (m :: r)) = ptoks m ++ flat_map (fun x => TkOr :: ptoks x) r.
Proof.
  intros m r. revert m. induction r as [|q r IH]; intros m.
  - cbn [map sep_by flat_map]. rewrite app_nil_r. reflexivity.
  - cbn [map]. rewrite sep_by_cons2. cbn [map] in IH. rewrite IH. reflexivity.
Qed.

(** a parenthesised group: the inside of [( a | b | c )] *)
Lemma group_ok : forall nn, nn <> [] ->
  Forall (fun m => PU m /\ smallx m /\ nullable_union m = false) nn ->
  forall g rest, gcost nn + 3 <= g ->
  parse_type g (sep_by [TkOr] (map ptoks nn) ++ TkRParen :: rest)
  = Some (union_chain (map tree_of nn), TkRParen :: rest).
Proof.
  intros [|m r] Hne HF g rest Hg; [contradiction|].
  inversion HF as [|? ? [HU [Hsm Hn]] Hr]; subst.
  unfold gcost in Hg. cbn [fold_right] in Hg. fold (gcost r) in Hg.
  rewrite sep_by_or_flat. rewrite <- app_assoc.
  destruct g as [|g1]; [lia|]. cbn [parse_type].
  assert (Hmf : mfollow (hd_tk (flat_map (fun x => TkOr :: ptoks x) r ++ TkRParen :: rest)) = true)
    by (destruct r; reflexivity).
  rewrite HU; [|lia|assumption|apply mfollow_nosuffix; exact Hmf|
               destruct (hd_tk (flat_map (fun x => TkOr :: ptoks x) r ++ TkRParen :: rest)); try discriminate Hmf; reflexivity].
  rewrite members_ok by (try assumption; lia).
  destruct g1 as [|g2]; [lia|]. rewrite type_stop_closer by reflexivity. reflexivity.
Qed.

(* ------------------------------------------------------------------------------------------ *)
(** * Helpers for the compound cases *)

Lemma no_parens_simple : forall b, array_base_needs_parens b = false -> simple_shape b = true.
Proof.
  intros b E. unfold simple_shape, nullable_union, neg_int. destruct b; try reflexivity.
  - destruct z; try reflexivity. discriminate E.
  - cbn [array_base_needs_parens] in E. rewrite E. reflexivity.
Qed.

Lemma go_trees_eq : forall l,
  (fix go (l : list ty) : list dt :=
     match l with [] => [] | m :: r => if is_nil m then go r else tree_of m :: go r end) l
  = map tree_of (non_nil l).
Proof.
  intros l. unfold non_nil. induction l as [|m r IH]; [reflexivity|].
  cbn [filter]. destruct (is_nil m); cbn [negb map]; rewrite IH; reflexivity.
Qed.

Lemma tree_union : forall k ms,
  tree_of (TUnion k ms) =
  if existsb is_nil ms then DNullable (union_chain (map tree_of (non_nil ms)))
  else union_chain (map tree_of (non_nil ms)).
Proof. intros. cbn [tree_of]. rewrite go_trees_eq. reflexivity. Qed.

Lemma ucost_eq : forall ms,
  fold_right (fun m acc => if is_nil m then acc else cost m + 4 + acc) 0 ms = gcost (non_nil ms).
Proof.
  induction ms as [|m r IH]; [reflexivity|]. unfold non_nil, gcost in *. cbn [filter fold_right].
  destruct (is_nil m); cbn [negb fold_right]; rewrite IH; reflexivity.
Qed.

Lemma gcost_non_nil : forall ms, gcost (non_nil ms) <= gcost ms.
Proof.
  induction ms as [|m r IH]; [apply le_n|]. unfold non_nil, gcost in *. cbn [filter fold_right].
  destruct (negb (is_nil m)); cbn [fold_right]; lia.
Qed.

Lemma non_union_not_nullable : forall m, is_union m = false -> nullable_union m = false.
Proof. intros m H. destruct m; try reflexivity. discriminate H. Qed.

Lemma object_head : forall fs rest, fs <> [] ->
  let ts := sep_by [TkComma] (map ftoks fs) ++ TkRBrace :: rest in
  is_rbrace (hd_tk ts) = false /\ is_barrier (hd_tk ts) || is_plus_minus (hd_tk ts) = false
  /\ match hd_tk ts with
     | TkName s => text_eqb s T"readonly" = false
     | TkLBracket => mapped_scan (tl_tk ts) = Some false
     | _ => False
     end.
Proof.
  intros [|[k v] r] rest Hne; [contradiction|]. cbv zeta.
  assert (E : exists X, sep_by [TkComma] (map ftoks ((k, v) :: r)) ++ TkRBrace :: rest = key_toks k ++ X).
  { destruct r as [|f2 r'].
    - cbn [map sep_by]. unfold ftoks. cbn [fst snd]. rewrite <- app_assoc. eauto.
    - cbn [map]. rewrite sep_by_cons2. unfold ftoks at 1. cbn [fst snd]. rewrite <- !app_assoc. eauto. }
  destruct E as [X E]. rewrite E. destruct k as [z|s]; unfold key_toks.
  - repeat split; reflexivity.
  - destruct (is_plain_field_name s) eqn:Es.
    + destruct (plain_field_facts _ Es) as [_ Hr]. repeat split; try reflexivity. exact Hr.
    + repeat split; reflexivity.
Qed.

Lemma params_head : forall ps rest, ps <> [] ->
  is_rparen (hd_tk (sep_by [TkComma] (map ptoks_param ps) ++ TkRParen :: rest)) = false.
Proof.
  intros [|p r] rest Hne; [contradiction|]. destruct r as [|q r'].
  - reflexivity.
  - cbn [map]. rewrite sep_by_cons2. reflexivity.
Qed.

Lemma suffix_barrier : forall f cm oa rest, is_barrier (hd_tk rest) = true -> suffix_loop f cm oa rest = None.
Proof. intros [|f] cm oa rest H; [reflexivity|]. cbn [suffix_loop]. cbv zeta. rewrite H. reflexivity. Qed.

(* ------------------------------------------------------------------------------------------ *)
(** * Every [small] type *)

Ltac napp := repeat (first [rewrite <- app_assoc | progress cbn [app]]).

Ltac finish_P Hsm HS Hsh :=
  let HU := fresh "HU" in
  assert (HU : PU _) by (apply PS_PU; [exact Hsm|exact HS|exact Hsh]);
  split; [exact HS|]; split; [exact HU|]; apply PU_PT; [exact HU|reflexivity].

Lemma binary_q : forall f cm lim rest,
  binary_loop (S f) cm lim (TkQuestion :: rest) = Some (cm, TkQuestion :: rest).
Proof. reflexivity. Qed.

Lemma type_loop_q : forall f cm rest,
  type_loop (S f) cm (TkQuestion :: rest) = type_loop f (DNullable cm) rest.
Proof. reflexivity. Qed.

Theorem parse_small : forall t lvl d, small lvl d t = true -> PS t /\ PU t /\ PT t.
Proof.
  induction t using ty_ind'; intros lvl d Hs0;
    assert (Hsm : smallx _) by (exists lvl, d; exact Hs0);
    pose proof Hs0 as Hs; rewrite small_eq in Hs; apply andb_true_iff in Hs as [_ Hs]; cbv zeta in Hs.
  - apply P_prim.
  - apply P_str.
  - apply P_int. exact Hs.
  - apply P_bool.
  - apply P_ref. exact Hs.
  - discriminate.
  - (* TArray *)
    destruct (IHt _ _ Hs) as (HSb & HUb & HTb).
    assert (HS : PS (TArray t)).
    { intros g rest Hg _ Hcol. cbn [cost] in Hg. cbn [ptoks soff tree_of oa_of].
      destruct (array_base_needs_parens t) eqn:E.
      - destruct g as [|g1]; [lia|]. destruct g1 as [|g2]; [lia|].
        napp.
        cbn [parse_simple_type parse_primary_type hd_tk tl_tk].
        rewrite HTb by (try reflexivity; lia).
        cbn [hd_tk tl_tk is_rparen]. cbn [suffix_loop hd_tk tl_tk is_barrier is_lbracket is_rbracket]. cbv zeta.
        replace (S (S g2) - 2) with g2 by lia. reflexivity.
      - rewrite <- !app_assoc. rewrite HSb by (try lia; try reflexivity; apply no_parens_simple; exact E).
        pose proof (soff_lt_cost t).
        destruct (g - soff t) as [|k] eqn:Ek; [lia|].
        cbn [app suffix_loop hd_tk tl_tk is_barrier is_lbracket is_rbracket]. cbv zeta.
        replace (g - S (soff t)) with k by lia. reflexivity. }
    finish_P Hsm HS (eq_refl : simple_shape (TArray t) = true).
  - (* TTableGeneric *)
    apply andb_true_iff in Hs as [Hs Hall]. apply andb_true_iff in Hs as [Hs _].
    apply andb_true_iff in Hs as [_ Hne]. apply Nat.leb_le in Hne.
    assert (HF : Forall PT ps).
    { rewrite Forall_forall in H |- *. intros p Hp.
      apply (H p Hp (next_level lvl) (S d)). apply (forallb_Forall_in _ _ _ Hall p Hp). }
    assert (HS : PS (TTableGeneric ps)).
    { intros g rest Hg _ Hcol. cbn [cost] in Hg. fold (lcost ps) in Hg. cbn [ptoks soff tree_of oa_of].
      destruct g as [|g1]; [lia|]. destruct g1 as [|g2]; [lia|].
      napp.
      cbn [parse_simple_type]. rewrite primary_name by reflexivity.
      cbn [suffix_loop hd_tk tl_tk is_barrier is_lbracket is_lt]. cbv zeta.
      rewrite type_list_ok; [|destruct ps; [cbn in Hne; lia|discriminate]|exact HF|lia].
      cbn [hd_tk tl_tk is_gt]. replace (S (S g2) - 2) with g2 by lia. reflexivity. }
    finish_P Hsm HS (eq_refl : simple_shape (TTableGeneric ps) = true).
  - (* TObject *)
    apply andb_true_iff in Hs as [Hs Hall]. apply andb_true_iff in Hs as [Hs _].
    apply andb_true_iff in Hs as [_ Hkeys].
    assert (HF : Forall (fun f => PT (snd f)) fs).
    { rewrite Forall_forall in H |- *. intros f Hf.
      apply (H f Hf (next_level lvl) (S d)). apply (forallb_Forall_in _ _ _ Hall f Hf). }
    assert (HS : PS (TObject fs)).
    { intros g rest Hg _ Hcol. cbn [cost] in Hg. fold (fcost fs) in Hg. cbn [ptoks soff tree_of oa_of].
      change (map (fun f : key * ty => key_toks (fst f) ++ TkColon :: ptoks (snd f)) fs) with (map ftoks fs).
      change (map (fun f : key * ty => (key_tree (fst f), false, Some (tree_of (snd f)))) fs) with (map ftree fs).
      destruct g as [|g1]; [lia|]. destruct g1 as [|g2]; [lia|]. destruct g2 as [|g3]; [lia|].
      napp.
      cbn [parse_simple_type parse_primary_type hd_tk tl_tk].
      replace (S (S (S g3)) - 1) with (S (S g3)) by lia.
      destruct fs as [|f0 fr].
      - reflexivity.
      - destruct (object_head (f0 :: fr) rest ltac:(discriminate)) as (H1 & H2 & H3).
        cbn [parse_object]. cbv zeta.
        rewrite fields_ok by (try assumption; try discriminate; lia).
        rewrite H1, H2. cbn [hd_tk tl_tk is_rbrace].
        destruct (hd_tk (sep_by [TkComma] (map ftoks (f0 :: fr)) ++ TkRBrace :: rest)); try contradiction.
        + rewrite H3. reflexivity.
        + rewrite H3. reflexivity. }
    finish_P Hsm HS (eq_refl : simple_shape (TObject fs) = true).
  - (* TFun *)
    apply andb_true_iff in Hs as [_ Hall].
    assert (HF : Forall (fun p => match snd p with Some t => PT t | None => True end) ps).
    { rewrite Forall_forall in H |- *. intros [n [pt|]] Hp; cbn [snd]; [|exact I].
      pose proof (forallb_Forall_in _ _ _ Hall _ Hp) as Hq. cbn [fst snd] in Hq.
      apply andb_true_iff in Hq as [_ Hq]. apply (H _ Hp (next_level lvl) (S d) Hq). }
    assert (Hnames : forallb (fun p : text * option ty => param_name_ok (fst p)) ps = true).
    { apply forallb_forall. intros p Hp. pose proof (forallb_Forall_in _ _ _ Hall _ Hp) as Hq.
      apply andb_true_iff in Hq as [Hq _]. exact Hq. }
    assert (HS : PS (TFun ps)).
    { intros g rest Hg _ Hcol. cbn [cost] in Hg. fold (pcost ps) in Hg. cbn [ptoks soff tree_of oa_of].
      change (map (fun p : text * option ty =>
                     TkName (fst p) :: match snd p with Some pt => TkColon :: ptoks pt | None => [] end) ps)
        with (map ptoks_param ps).
      change (map (fun p : text * option ty => (fst p, false, option_map tree_of (snd p))) ps)
        with (map ptree_param ps).
      destruct g as [|g1]; [lia|]. destruct g1 as [|g2]; [lia|]. destruct g2 as [|g3]; [lia|].
      napp.
      replace (S (S (S g3)) - 1) with (S (S g3)) by lia.
      cbn [parse_simple_type].
      change (parse_primary_type (S (S g3)) (TkName T"fun" :: TkLParen :: sep_by [TkComma] (map ptoks_param ps) ++ TkRParen :: rest))
        with (parse_fun (S g3) (TkLParen :: sep_by [TkComma] (map ptoks_param ps) ++ TkRParen :: rest)).
      cbn [parse_fun hd_tk tl_tk is_lparen]. cbv zeta.
      destruct ps as [|p0 pr].
      - cbn [map sep_by app hd_tk tl_tk is_rparen]. rewrite Hcol. cbn [orb].
        destruct (is_barrier (hd_tk rest)) eqn:Eb; [|reflexivity].
        symmetry. apply suffix_barrier. exact Eb.
      - rewrite params_head by discriminate.
        rewrite params_ok by (try assumption; try discriminate; lia).
        cbn [hd_tk tl_tk is_rparen]. rewrite Hcol. cbn [orb].
        destruct (is_barrier (hd_tk rest)) eqn:Eb; [|reflexivity].
        symmetry. apply suffix_barrier. exact Eb. }
    finish_P Hsm HS (eq_refl : simple_shape (TFun ps) = true).
  - (* TUnion *)
    apply andb_true_iff in Hs as [Hs Hall]. apply andb_true_iff in Hs as [Hs _].
    apply andb_true_iff in Hs as [Hs Hnu]. apply andb_true_iff in Hs as [Hs _].
    apply andb_true_iff in Hs as [H2 H1]. apply Nat.leb_le in H2. apply Nat.leb_le in H1.
    assert (HF : Forall (fun m => PU m /\ smallx m /\ nullable_union m = false) (non_nil ms)).
    { rewrite Forall_forall in H |- *. intros m Hm. unfold non_nil in Hm. apply filter_In in Hm as [Hm _].
      pose proof (forallb_Forall_in _ _ _ Hall m Hm) as Hsmm.
      destruct (H m Hm _ _ Hsmm) as (_ & HUm & _).
      split; [exact HUm|]. split; [exists (next_level lvl), (S d); exact Hsmm|].
      apply non_union_not_nullable. apply negb_true_iff. apply (forallb_Forall_in _ _ _ Hnu m Hm). }
    assert (Hnn : non_nil ms <> []) by (destruct (non_nil ms); [cbn in H1; lia|discriminate]).
    pose proof (gcost_non_nil ms) as Hgc.
    destruct (existsb is_nil ms) eqn:Enil.
    + (* optional *)
      assert (HS : PS (TUnion k ms)).
      { intros g rest _ Hsh. unfold simple_shape in Hsh. cbn [nullable_union] in Hsh. rewrite Enil in Hsh. discriminate Hsh. }
      assert (HU : PU (TUnion k ms)).
      { intros g lim rest _ Hn. cbn [nullable_union] in Hn. rewrite Enil in Hn. discriminate Hn. }
      split; [exact HS|]. split; [exact HU|].
      intros g rest Hg Hcl. cbn [cost] in Hg. rewrite ucost_eq in Hg.
      rewrite ptoks_union, tree_union, Enil.
      destruct g as [|g1]; [lia|]. cbn [parse_type].
      destruct (union_parens (non_nil ms) true) eqn:Epar.
      * destruct g1 as [|g2]; [lia|]. destruct g2 as [|g3]; [lia|]. destruct g3 as [|g4]; [lia|].
        napp.
        cbn [parse_sub_type hd_tk tl_tk is_eof is_barrier orb opkind_of to_type_unary_operator]. cbv zeta.
        cbn [parse_simple_type parse_primary_type hd_tk tl_tk].
        rewrite group_ok by (try assumption; lia).
        cbn [hd_tk tl_tk is_rparen]. rewrite suffix_stop by reflexivity.
        rewrite binary_q, type_loop_q.
        apply type_stop_closer. exact Hcl.
      * (* a single member without parentheses *)
        unfold union_parens in Epar. apply orb_false_iff in Epar as [E1 _]. apply Nat.ltb_ge in E1.
        destruct (non_nil ms) as [|m [|m2 r]] eqn:Enn; [contradiction| |cbn in E1; lia].
        inversion HF as [|? ? [HUm [Hsmm Hnm]] _]; subst.
        cbn [map sep_by union_chain fold_left]. rewrite <- app_assoc. cbn [app].
        unfold gcost in Hg. cbn [fold_right] in Hg.
        rewrite HUm by (try assumption; try reflexivity; lia).
        destruct g1 as [|g2]; [lia|]. destruct g2 as [|g3]; [lia|].
        replace (S (S g3) - 1) with (S g3) by lia.
        rewrite binary_q, type_loop_q.
        apply type_stop_closer. exact Hcl.
    + (* no nil: at least two members, parenthesised *)
      assert (Eid : non_nil ms = ms).
      { unfold non_nil. clear -Enil. induction ms as [|m r IH]; [reflexivity|].
        cbn [existsb] in Enil. apply orb_false_iff in Enil as [Hm Hr]. cbn [filter]. rewrite Hm. cbn [negb].
        f_equal. apply IH. exact Hr. }
      assert (Epar : union_parens (non_nil ms) false = true).
      { unfold union_parens. rewrite Eid. destruct (1 <? List.length ms) eqn:E; [reflexivity|].
        apply Nat.ltb_ge in E. lia. }
      assert (HS : PS (TUnion k ms)).
      { intros g rest Hg _ Hcol. cbn [cost] in Hg. rewrite ucost_eq in Hg. cbn [soff oa_of].
        rewrite ptoks_union, tree_union, Enil, Epar.
        destruct g as [|g1]; [lia|]. destruct g1 as [|g2]; [lia|].
        napp.
        cbn [parse_simple_type parse_primary_type hd_tk tl_tk].
        rewrite group_ok by (try assumption; lia).
        cbn [hd_tk tl_tk is_rparen]. replace (S (S g2) - 1) with (S g2) by lia. reflexivity. }
      assert (Hsh : simple_shape (TUnion k ms) = true).
      { unfold simple_shape. cbn [nullable_union neg_int]. rewrite Enil. reflexivity. }
      assert (HU : PU (TUnion k ms)) by (apply PS_PU; assumption).
      split; [exact HS|]. split; [exact HU|]. apply PU_PT; [exact HU|].
      cbn [nullable_union]. exact Enil.
Qed.

(* ------------------------------------------------------------------------------------------ *)
(** * The fuel [parse_fuel] gives is enough *)

Definition tot (l : list (list token)) : nat := fold_right (fun x acc => List.length x + acc) 0 l.

Lemma len_sep_by : forall (s : token) l, l <> [] ->
  List.length (sep_by [s] l) + 1 = tot l + List.length l.
Proof.
  induction l as [|x r IH]; intros Hne; [contradiction|].
  destruct r as [|y r'].
  - cbn [sep_by tot fold_right List.length]. lia.
  - rewrite sep_by_cons2. rewrite !app_length. cbn [List.length].
    specialize (IH ltac:(discriminate)). unfold tot in *. cbn [fold_right List.length] in *. lia.
Qed.

Lemma sum_cost_le : forall (A : Type) (c : A -> nat) (tk : A -> list token) (e : nat) xs,
  Forall (fun x => c x <= 16 * List.length (tk x)) xs ->
  fold_right (fun x acc => c x + e + acc) 0 xs <= 16 * tot (map tk xs) + e * List.length xs.
Proof.
  intros A c tk e xs HF. induction HF as [|x r Hx Hr IH]; [cbn; lia|].
  unfold tot in *. cbn [map fold_right List.length]. lia.
Qed.

Lemma non_nil_id : forall ms, existsb is_nil ms = false -> non_nil ms = ms.
Proof.
  unfold non_nil. induction ms as [|m r IH]; intros H; [reflexivity|].
  cbn [existsb] in H. apply orb_false_iff in H as [Hm Hr]. cbn [filter]. rewrite Hm. cbn [negb].
  f_equal. apply IH. exact Hr.
Qed.

Lemma cost_le : forall t lvl d, small lvl d t = true -> cost t <= 16 * List.length (ptoks t).
Proof.
  induction t using ty_ind'; intros lvl d Hs; rewrite small_eq in Hs; apply andb_true_iff in Hs as [_ Hs];
    cbv zeta in Hs.
  - cbn. lia.
  - cbn. lia.
  - destruct z; cbn; lia.
  - cbn. lia.
  - cbn. lia.
  - discriminate.
  - specialize (IHt _ _ Hs). cbn [cost ptoks]. destruct (array_base_needs_parens t);
      repeat (rewrite app_length || cbn [List.length]); lia.
  - apply andb_true_iff in Hs as [Hs Hall]. apply andb_true_iff in Hs as [Hs _].
    apply andb_true_iff in Hs as [_ Hne]. apply Nat.leb_le in Hne.
    assert (HF : Forall (fun p => cost p <= 16 * List.length (ptoks p)) ps).
    { rewrite Forall_forall in H |- *. intros p Hp. apply (H p Hp (next_level lvl) (S d)).
      apply (forallb_Forall_in _ _ _ Hall p Hp). }
    pose proof (sum_cost_le _ cost ptoks 4 ps HF) as Hsum.
    assert (Hl : List.length (sep_by [TkComma] (map ptoks ps)) + 1 = tot (map ptoks ps) + List.length (map ptoks ps)).
    { apply len_sep_by. destruct ps; [cbn in Hne; lia|discriminate]. }
    rewrite map_length in Hl.
    cbn [cost ptoks List.length]. rewrite app_length. cbn [List.length]. lia.
  - apply andb_true_iff in Hs as [Hs Hall].
    assert (HF : Forall (fun f : key * ty => cost (snd f) <= 16 * List.length (ftoks f)) fs).
    { rewrite Forall_forall in H |- *. intros f Hf.
      pose proof (H f Hf (next_level lvl) (S d) (forallb_Forall_in _ _ _ Hall f Hf)) as Hc.
      unfold ftoks. rewrite app_length. cbn [List.length]. lia. }
    pose proof (sum_cost_le _ (fun f : key * ty => cost (snd f)) ftoks 12 fs HF) as Hsum.
    cbn [cost ptoks List.length].
    change (map (fun f : key * ty => key_toks (fst f) ++ TkColon :: ptoks (snd f)) fs) with (map ftoks fs).
    rewrite app_length. cbn [List.length].
    destruct fs as [|f0 fr].
    + cbn. lia.
    + assert (Hl : List.length (sep_by [TkComma] (map ftoks (f0 :: fr))) + 1
                   = tot (map ftoks (f0 :: fr)) + List.length (map ftoks (f0 :: fr)))
        by (apply len_sep_by; discriminate).
      rewrite map_length in Hl. lia.
  - apply andb_true_iff in Hs as [_ Hall].
    assert (HF : Forall (fun p : text * option ty =>
                           match snd p with Some pt => cost pt | None => 0 end <= 16 * List.length (ptoks_param p)) ps).
    { rewrite Forall_forall in H |- *. intros [n [pt|]] Hp; unfold ptoks_param; cbn [fst snd List.length]; [|lia].
      pose proof (forallb_Forall_in _ _ _ Hall _ Hp) as Hq. cbn [fst snd] in Hq.
      apply andb_true_iff in Hq as [_ Hq]. pose proof (H _ Hp (next_level lvl) (S d) Hq). lia. }
    pose proof (sum_cost_le _ (fun p : text * option ty => match snd p with Some pt => cost pt | None => 0 end)
                  ptoks_param 8 ps HF) as Hsum.
    cbn [cost ptoks List.length].
    change (map (fun p : text * option ty =>
                   TkName (fst p) :: match snd p with Some pt => TkColon :: ptoks pt | None => [] end) ps)
      with (map ptoks_param ps).
    rewrite app_length. cbn [List.length].
    destruct ps as [|p0 pr].
    + cbn. lia.
    + assert (Hl : List.length (sep_by [TkComma] (map ptoks_param (p0 :: pr))) + 1
                   = tot (map ptoks_param (p0 :: pr)) + List.length (map ptoks_param (p0 :: pr)))
        by (apply len_sep_by; discriminate).
      rewrite map_length in Hl. lia.
  - apply andb_true_iff in Hs as [Hs Hall]. apply andb_true_iff in Hs as [Hs _].
    apply andb_true_iff in Hs as [Hs _]. apply andb_true_iff in Hs as [Hs _].
    apply andb_true_iff in Hs as [H2 H1]. apply Nat.leb_le in H2. apply Nat.leb_le in H1.
    assert (HF : Forall (fun m => cost m <= 16 * List.length (ptoks m)) (non_nil ms)).
    { rewrite Forall_forall in H |- *. intros m Hm. unfold non_nil in Hm. apply filter_In in Hm as [Hm _].
      apply (H m Hm (next_level lvl) (S d)). apply (forallb_Forall_in _ _ _ Hall m Hm). }
    pose proof (sum_cost_le _ cost ptoks 4 (non_nil ms) HF) as Hsum. fold (gcost (non_nil ms)) in Hsum.
    assert (Hl : List.length (sep_by [TkOr] (map ptoks (non_nil ms))) + 1
                 = tot (map ptoks (non_nil ms)) + List.length (map ptoks (non_nil ms))).
    { apply len_sep_by. destruct (non_nil ms); [cbn in H1; lia|discriminate]. }
    rewrite map_length in Hl.
    cbn [cost]. rewrite ucost_eq. rewrite ptoks_union.
    destruct (union_parens (non_nil ms) (existsb is_nil ms)) eqn:Epar.
    + rewrite app_length. cbn [List.length]. rewrite app_length. cbn [List.length]. lia.
    + unfold union_parens in Epar. apply orb_false_iff in Epar as [E1 _]. apply Nat.ltb_ge in E1.
      destruct (existsb is_nil ms) eqn:Enil.
      * rewrite app_length. cbn [List.length]. lia.
      * rewrite (non_nil_id _ Enil) in E1. lia.
Qed.

Theorem parse_tree_render : forall t, small Documentation 0 t = true -> parse_tree (render t) = Some (tree_of t).
Proof.
  intros t Hs. unfold parse_tree. rewrite (lex_render t Hs).
  destruct (parse_small t _ _ Hs) as (_ & _ & HT).
  rewrite <- (app_nil_r (ptoks t)) at 2.
  rewrite HT; [reflexivity| |reflexivity].
  unfold parse_fuel. pose proof (cost_le t _ _ Hs). lia.
Qed.
