(** C17/InferProofs.v — reading the tree of a rendered type back gives its union normal form. *)
From EV Require Import C17.Model C17.Spec C17.LexProofs.
From Coq Require Import String Lia.
Local Open Scope N_scope.

(* ------------------------------------------------------------------------------------------ *)
(** * Decimal digits read back *)

Definition dstep (acc d : N) : N := acc * 10 + (d - 48).

Lemma digits_value_eq : forall ds, digits_value ds = fold_left dstep ds 0.
Proof. reflexivity. Qed.

Lemma dec_aux_value : forall fuel n acc,
  n < 10 ^ N.of_nat fuel ->
  fold_left dstep (dec_aux fuel n acc) 0 = fold_left dstep acc n.
Proof.
  induction fuel as [|f IH]; intros n acc Hn.
  - cbn in Hn. assert (n = 0) by lia. subst. reflexivity.
  - cbn [dec_aux]. destruct (N.ltb_spec n 10).
    + cbn [fold_left]. replace (dstep 0 (digit_char n)) with n; [reflexivity|].
      unfold dstep, digit_char. clear -H. lia.
    + rewrite IH.
      * cbn [fold_left]. replace (dstep (n / 10) (digit_char (n mod 10))) with n; [reflexivity|].
        unfold dstep, digit_char. clear. pose proof (N.div_mod n 10 ltac:(discriminate)) as E1.
        pose proof (N.mod_lt n 10 ltac:(discriminate)) as E2.
        generalize dependent (n / 10). generalize dependent (n mod 10). intros r E2 q E1. lia.
      * rewrite Nat2N.inj_succ, N.pow_succ_r' in Hn. apply N.div_lt_upper_bound; [discriminate|exact Hn].
Qed.

Lemma dec_value : forall n, digits_value (dec_of_N n) = n.
Proof.
  intros n. rewrite digits_value_eq. unfold dec_of_N. rewrite dec_aux_value; [reflexivity|].
  rewrite Nat2N.inj_succ, N2Nat.id, N.pow_succ_r'.
  destruct n as [|p]; [cbn; lia|].
  pose proof (N.size_gt (Npos p)).
  assert (2 ^ N.size (Npos p) <= 10 ^ N.size (Npos p)) by (apply N.pow_le_mono_l; lia).
  lia.
Qed.

Lemma show_Z_value : forall z, (0 <= z)%Z -> digits_value (show_Z z) = Z.to_N z.
Proof.
  intros z Hz. destruct z as [|p|p]; [reflexivity| |lia].
  cbn [show_Z]. rewrite dec_value. reflexivity.
Qed.

(* ------------------------------------------------------------------------------------------ *)
(** * String literals read back *)

Lemma hex_val_digit : forall d, d < 16 -> hex_val (hex_digit_char d) = Some d.
Proof.
  intros d H. unfold hex_val, hex_digit_char, is_digit.
  destruct (N.ltb_spec d 10).
  - destruct (N.leb_spec 48 (48 + d)); [|lia]. destruct (N.leb_spec (48 + d) 57); [|lia].
    cbn [andb]. f_equal. lia.
  - destruct (N.leb_spec 48 (55 + d)); [|lia]. destruct (N.leb_spec (55 + d) 57); [lia|].
    cbn [andb]. destruct (N.leb_spec 65 (55 + d)); [|lia]. destruct (N.leb_spec (55 + d) 70); [|lia].
    cbn [andb]. f_equal. lia.
Qed.

(** the first character of an escaped string is never a digit when the string does not start with one *)
Lemma esc_char_head : forall c nxt, is_digit c = false ->
  match esc_char c nxt with x :: _ => is_digit x = false | [] => False end.
Proof.
  intros c nxt H. unfold esc_char.
  destruct (N.eqb_spec c 92); [reflexivity|].
  destruct (N.eqb_spec c 34); [reflexivity|].
  destruct (N.eqb_spec c 10); [reflexivity|].
  destruct (N.eqb_spec c 13); [reflexivity|].
  destruct (N.eqb_spec c 9); [reflexivity|].
  destruct (N.eqb_spec c 27); [destruct nxt as [x|]; [destruct (is_digit x)|]; reflexivity|].
  destruct (is_control c); [reflexivity|exact H].
Qed.

Lemma unescape_step_plain : forall f c rest acc,
  (c =? 92) = false -> (c =? 34) = false ->
  unescape (S f) 34 (c :: rest) acc = unescape f 34 rest (c :: acc).
Proof. intros f c rest acc H1 H2. cbn [unescape]. rewrite H1, H2. reflexivity. Qed.

Lemma unescape_escape : forall s fuel acc rest,
  (List.length s < fuel)%nat ->
  unescape fuel 34 (escape s ++ 34 :: rest) acc = SOk (rev acc ++ s).
Proof.
  induction s as [|c r IH]; intros fuel acc rest Hf.
  - destruct fuel as [|f]; [cbn in Hf; lia|]. cbn [escape app]. cbn [unescape].
    replace (34 =? 92) with false by reflexivity. replace (34 =? 34) with true by reflexivity.
    rewrite app_nil_r. reflexivity.
  - destruct fuel as [|f]; [cbn in Hf; lia|]. cbn [List.length] in Hf.
    assert (Hf' : (List.length r < f)%nat) by lia.
    cbn [escape]. rewrite <- app_assoc.
    assert (Hgoal : forall v, rev (v :: acc) ++ r = rev acc ++ v :: r)
      by (intros v; cbn [rev]; rewrite <- app_assoc; reflexivity).
    unfold esc_char.
    destruct (N.eqb_spec c 92); [subst c; cbn [app]; change (unescape (S f) 34 (92 :: 92 :: escape r ++ 34 :: rest) acc)
        with (unescape f 34 (escape r ++ 34 :: rest) (92 :: acc)); rewrite IH by exact Hf'; rewrite Hgoal; reflexivity|].
    destruct (N.eqb_spec c 34); [subst c; cbn [app]; change (unescape (S f) 34 (92 :: 34 :: escape r ++ 34 :: rest) acc)
        with (unescape f 34 (escape r ++ 34 :: rest) (34 :: acc)); rewrite IH by exact Hf'; rewrite Hgoal; reflexivity|].
    destruct (N.eqb_spec c 10); [subst c; cbn [app]; change (unescape (S f) 34 (92 :: 110 :: escape r ++ 34 :: rest) acc)
        with (unescape f 34 (escape r ++ 34 :: rest) (10 :: acc)); rewrite IH by exact Hf'; rewrite Hgoal; reflexivity|].
    destruct (N.eqb_spec c 13); [subst c; cbn [app]; change (unescape (S f) 34 (92 :: 114 :: escape r ++ 34 :: rest) acc)
        with (unescape f 34 (escape r ++ 34 :: rest) (13 :: acc)); rewrite IH by exact Hf'; rewrite Hgoal; reflexivity|].
    destruct (N.eqb_spec c 9); [subst c; cbn [app]; change (unescape (S f) 34 (92 :: 116 :: escape r ++ 34 :: rest) acc)
        with (unescape f 34 (escape r ++ 34 :: rest) (9 :: acc)); rewrite IH by exact Hf'; rewrite Hgoal; reflexivity|].
    destruct (N.eqb_spec c 27).
    { subst c.
      destruct r as [|c2 r2].
      - cbn [hd_error escape app].
        change (unescape (S f) 34 (92 :: 50 :: 55 :: 34 :: rest) acc) with (unescape f 34 (34 :: rest) (27 :: acc)).
        change (34 :: rest) with (escape [] ++ 34 :: rest). rewrite IH by exact Hf'. rewrite Hgoal. reflexivity.
      - cbn [hd_error]. destruct (is_digit c2) eqn:Ed.
        + cbn [app].
          change (unescape (S f) 34 (92 :: 48 :: 50 :: 55 :: escape (c2 :: r2) ++ 34 :: rest) acc)
            with (unescape f 34 (escape (c2 :: r2) ++ 34 :: rest) (27 :: acc)).
          rewrite IH by exact Hf'. rewrite Hgoal. reflexivity.
        + pose proof (esc_char_head c2 (hd_error r2) Ed) as Hh.
          cbn [escape] in *. rewrite <- app_assoc.
          destruct (esc_char c2 (hd_error r2)) as [|x xs] eqn:Ex; [contradiction|].
          cbn [app].
          assert (E : unescape (S f) 34 (92 :: 50 :: 55 :: x :: xs ++ escape r2 ++ 34 :: rest) acc
                      = unescape f 34 (x :: xs ++ escape r2 ++ 34 :: rest) (27 :: acc)).
          { cbn [unescape]. replace (92 =? 92) with true by reflexivity.
            replace (50 =? 97) with false by reflexivity. replace (50 =? 98) with false by reflexivity.
            replace (50 =? 102) with false by reflexivity. replace (50 =? 110) with false by reflexivity.
            replace (50 =? 114) with false by reflexivity. replace (50 =? 116) with false by reflexivity.
            replace (50 =? 118) with false by reflexivity.
            replace ((50 =? 92) || (50 =? 39) || (50 =? 34)) with false by reflexivity.
            replace (50 =? 120) with false by reflexivity.
            replace (is_digit 50) with true by reflexivity. replace (is_digit 55) with true by reflexivity.
            rewrite Hh. reflexivity. }
          refine (eq_trans E _).
          change (x :: xs ++ escape r2 ++ 34 :: rest) with ((x :: xs) ++ escape r2 ++ 34 :: rest).
          rewrite app_assoc.
          rewrite IH by exact Hf'. rewrite Hgoal. reflexivity. }
    destruct (is_control c) eqn:Ec.
    + pose proof (control_lt _ Ec) as Hlt. cbn [app].
      assert (E : unescape (S f) 34 (92 :: 120 :: hex_digit_char (c / 16) :: hex_digit_char (c mod 16)
                                       :: escape r ++ 34 :: rest) acc
                  = unescape f 34 (escape r ++ 34 :: rest) (c :: acc)).
      { cbn [unescape]. replace (92 =? 92) with true by reflexivity.
        replace (120 =? 97) with false by reflexivity. replace (120 =? 98) with false by reflexivity.
        replace (120 =? 102) with false by reflexivity. replace (120 =? 110) with false by reflexivity.
        replace (120 =? 114) with false by reflexivity. replace (120 =? 116) with false by reflexivity.
        replace (120 =? 118) with false by reflexivity.
        replace ((120 =? 92) || (120 =? 39) || (120 =? 34)) with false by reflexivity.
        replace (120 =? 120) with true by reflexivity.
        rewrite !hex_val_digit by (try (apply N.mod_lt; lia); apply N.div_lt_upper_bound; lia).
        replace (c / 16 * 16 + c mod 16) with c by (pose proof (N.div_mod c 16 ltac:(lia)); lia).
        reflexivity. }
      refine (eq_trans E _). rewrite IH by exact Hf'. rewrite Hgoal. reflexivity.
    + cbn [app]. rewrite unescape_step_plain by (apply N.eqb_neq; assumption).
      rewrite IH by exact Hf'. rewrite Hgoal. reflexivity.
Qed.

Lemma string_value_quoted : forall s, string_value (quoted s) = Some s.
Proof.
  intros s. unfold string_value, quoted.
  destruct (escape s ++ [34]) as [|b body] eqn:E.
  - destruct (escape s); discriminate E.
  - rewrite <- E.
    change (escape s ++ [34]) with (escape s ++ 34 :: []).
    rewrite unescape_escape; [reflexivity|].
    rewrite app_length. cbn [List.length].
    assert (List.length s <= List.length (escape s))%nat; [|lia].
    clear. induction s as [|c r IH]; [apply le_n|]. cbn [escape List.length]. rewrite app_length.
    assert (1 <= List.length (esc_char c (hd_error r)))%nat; [|lia].
    unfold esc_char.
    repeat match goal with |- context [if ?b then _ else _] => destruct b end;
      try (destruct (hd_error r) as [x|]; [destruct (is_digit x)|]); cbn; lia.
Qed.

(* ------------------------------------------------------------------------------------------ *)
(** * [infer] of the expected tree is [norm] *)

Lemma sequence_map_some : forall (A B : Type) (f : A -> option B) (g : A -> B) l,
  Forall (fun x => f x = Some (g x)) l -> sequence (map f l) = Some (map g l).
Proof.
  intros A B f g l H. induction H as [|x r Hx Hr IH]; [reflexivity|].
  unfold sequence in *. cbn [map fold_right]. rewrite Hx, IH. reflexivity.
Qed.

Lemma go_norm_eq : forall e l,
  (fix go (l : list ty) : list ty :=
     match l with [] => [] | m :: r => if is_nil m then go r else norm e m :: go r end) l
  = map (norm e) (non_nil l).
Proof.
  intros e l. unfold non_nil. induction l as [|m r IH]; [reflexivity|].
  cbn [filter]. destruct (is_nil m); cbn [negb map]; rewrite IH; reflexivity.
Qed.

Lemma norm_union : forall e k ms,
  norm e (TUnion k ms) =
  if existsb is_nil ms then mk_nullable e (mk_union (map (norm e) (non_nil ms)))
  else mk_union (map (norm e) (non_nil ms)).
Proof. intros. cbn [norm]. rewrite go_norm_eq. reflexivity. Qed.

Lemma go_trees_eq' : forall l,
  (fix go (l : list ty) : list dt :=
     match l with [] => [] | m :: r => if is_nil m then go r else tree_of m :: go r end) l
  = map tree_of (non_nil l).
Proof.
  intros l. unfold non_nil. induction l as [|m r IH]; [reflexivity|].
  cbn [filter]. destruct (is_nil m); cbn [negb map]; rewrite IH; reflexivity.
Qed.

Lemma infer_chain : forall e ds ts d0 t0,
  infer e false d0 = Some t0 ->
  Forall2 (fun d t => infer e false d = Some t) ds ts ->
  infer e false (fold_left (fun acc x => DBinary BUnion acc x) ds d0) = Some (fold_left binary_union ts t0).
Proof.
  intros e ds ts d0 t0 H0 HF. revert d0 t0 H0. induction HF as [|d t ds' ts' Hd Hr IH]; intros d0 t0 H0.
  - exact H0.
  - cbn [fold_left]. apply IH. cbn [infer]. rewrite H0, Hd. reflexivity.
Qed.

Lemma ref_not_builtin : forall n, ref_name_ok n = true -> builtin_of_name n = None.
Proof.
  intros n H. unfold ref_name_ok in H. apply andb_true_iff in H as [H _]. apply andb_true_iff in H as [H _].
  apply andb_true_iff in H as [_ H]. destruct (builtin_of_name n); [discriminate|reflexivity].
Qed.

Lemma infer_int_nonneg : forall e z, (0 <= z)%Z -> (z <= I64_MAX)%Z ->
  infer e false (DLitInt (show_Z z)) = Some (TInt z).
Proof.
  intros e z H0 H1. cbn [infer]. rewrite show_Z_value by assumption.
  assert (E : Z.to_N z <? I64_LIMIT = true).
  { apply N.ltb_lt. unfold I64_LIMIT, I64_MAX in *. lia. }
  rewrite E. rewrite Z2N.id by assumption. reflexivity.
Qed.

Lemma infer_neg : forall e top d,
  infer e top (DUnary UNeg d) =
  match infer e false d with
  | Some (TInt i) => Some (TInt (- i))
  | Some _ => Some (TPrim PUnknown)
  | None => None
  end.
Proof. reflexivity. Qed.

Theorem infer_tree : forall e t lvl d, small lvl d t = true ->
  infer e false (tree_of t) = Some (norm e t).
Proof.
  intros e. induction t using ty_ind'; intros lvl d Hs; rewrite small_eq in Hs;
    apply andb_true_iff in Hs as [_ Hs]; cbv zeta in Hs.
  - destruct p; reflexivity.
  - cbn [tree_of infer norm]. rewrite string_value_quoted. reflexivity.
  - unfold int_ok in Hs. apply andb_true_iff in Hs as [H1 H2]. apply Z.leb_le in H1, H2.
    destruct z as [|p|p].
    + reflexivity.
    + apply infer_int_nonneg; [apply Pos2Z.is_nonneg|exact H2].
    + cbn [tree_of norm].
      change (DLitInt (dec_of_N (N.pos p))) with (DLitInt (show_Z (Zpos p))).
      rewrite infer_neg.
      rewrite (infer_int_nonneg e (Zpos p) (Pos2Z.is_nonneg p)) by (unfold I64_MAX in *; lia).
      reflexivity.
  - reflexivity.
  - cbn [tree_of infer norm]. rewrite (ref_not_builtin _ Hs). reflexivity.
  - discriminate.
  - cbn [tree_of infer norm]. rewrite (IHt _ _ Hs). reflexivity.
  - apply andb_true_iff in Hs as [_ Hall].
    cbn [tree_of infer norm]. replace (text_eqb T"table" T"table") with true by reflexivity.
    rewrite map_map. rewrite (sequence_map_some _ _ _ (norm e)); [reflexivity|].
    rewrite Forall_forall in H |- *. intros p Hp. apply (H p Hp (next_level lvl) (S d)).
    apply (forallb_Forall_in _ _ _ Hall p Hp).
  - apply andb_true_iff in Hs as [Hs Hall]. apply andb_true_iff in Hs as [Hs _].
    apply andb_true_iff in Hs as [_ Hkeys].
    cbn [tree_of infer norm]. rewrite map_map.
    rewrite (sequence_map_some _ _ _ (fun f : key * ty => Some (fst f, norm e (snd f)))).
    + cbn [option_map]. f_equal. f_equal. f_equal.
      clear. induction fs as [|f r IH]; [reflexivity|]. cbn [map flat_map app]. rewrite IH. reflexivity.
    + rewrite Forall_forall in H |- *. intros [k v] Hf.
      pose proof (H _ Hf (next_level lvl) (S d) (forallb_Forall_in _ _ _ Hall _ Hf)) as Hv. cbn [snd] in Hv.
      cbv beta. cbn [fst snd]. rewrite Hv.
      pose proof (forallb_Forall_in _ _ _ Hkeys k (in_map fst _ _ Hf)) as Hk.
      destruct k as [z|s]; cbn [key_tree].
      * cbn [key_ok] in Hk. apply andb_true_iff in Hk as [Hz1 Hz2]. apply Z.leb_le in Hz1, Hz2.
        rewrite show_Z_value by assumption.
        assert (E : Z.to_N z <? I64_LIMIT = true) by (apply N.ltb_lt; unfold I64_LIMIT, I64_MAX in *; lia).
        rewrite E, Z2N.id by assumption. reflexivity.
      * destruct (is_plain_field_name s); [reflexivity|]. rewrite string_value_quoted. reflexivity.
  - apply andb_true_iff in Hs as [_ Hall].
    cbn [tree_of infer norm]. rewrite map_map.
    rewrite (sequence_map_some _ _ _ (fun p : text * option ty => (fst p, option_map (norm e) (snd p)))); [reflexivity|].
    rewrite Forall_forall in H |- *. intros [n [pt|]] Hp; cbn [fst snd option_map]; [|reflexivity].
    pose proof (forallb_Forall_in _ _ _ Hall _ Hp) as Hq. cbn [fst snd] in Hq.
    apply andb_true_iff in Hq as [_ Hq]. specialize (H _ Hp). cbn [snd] in H. rewrite (H _ _ Hq). reflexivity.
  - apply andb_true_iff in Hs as [Hs Hall]. apply andb_true_iff in Hs as [Hs _].
    apply andb_true_iff in Hs as [Hs _]. apply andb_true_iff in Hs as [Hs _].
    apply andb_true_iff in Hs as [_ H1]. apply Nat.leb_le in H1.
    assert (Hbase : infer e false (union_chain (map tree_of (non_nil ms)))
                    = Some (mk_union (map (norm e) (non_nil ms)))).
    { assert (HF : Forall (fun m => infer e false (tree_of m) = Some (norm e m)) (non_nil ms)).
      { rewrite Forall_forall in H |- *. intros m Hm. unfold non_nil in Hm. apply filter_In in Hm as [Hm _].
        apply (H m Hm (next_level lvl) (S d)). apply (forallb_Forall_in _ _ _ Hall m Hm). }
      destruct (non_nil ms) as [|m r]; [cbn in H1; lia|].
      inversion HF as [|? ? Hm Hr]; subst.
      cbn [map union_chain mk_union]. apply infer_chain; [exact Hm|].
      clear -Hr. induction Hr as [|x r Hx Hr IH]; [constructor|]. cbn [map]. constructor; assumption. }
    cbn [tree_of]. rewrite go_trees_eq'. rewrite norm_union.
    destruct (existsb is_nil ms).
    + cbn [infer]. rewrite Hbase. reflexivity.
    + exact Hbase.
Qed.

