(** C17/SameProofs.v — the union normal form of an annotation-form type outside the two recorded classes is
    the type itself, modulo the order of union members. *)
From EV Require Import C17.Model C17.Spec C17.LexProofs.
From Coq Require Import String Lia Permutation.
Local Open Scope N_scope.

(* ------------------------------------------------------------------------------------------ *)
(** * Structural equality is equality *)

Lemma text_eqb_refl : forall s, text_eqb s s = true.
Proof. induction s as [|c r IH]; [reflexivity|]. cbn [text_eqb]. rewrite N.eqb_refl, IH. reflexivity. Qed.

Lemma text_eqb_sound : forall a b, text_eqb a b = true -> a = b.
Proof.
  induction a as [|x a IH]; intros [|y b] H; cbn [text_eqb] in H; try discriminate; [reflexivity|].
  apply andb_true_iff in H as [H1 H2]. apply N.eqb_eq in H1. subst. f_equal. apply IH. exact H2.
Qed.

Lemma prim_eqb_refl : forall p, prim_eqb p p = true.
Proof. destruct p; reflexivity. Qed.

Lemma prim_eqb_sound : forall p q, prim_eqb p q = true -> p = q.
Proof. intros p q H. destruct p; destruct q; try reflexivity; discriminate H. Qed.

Lemma key_eqb_refl : forall k, key_eqb k k = true.
Proof. destruct k; cbn [key_eqb]; [apply Z.eqb_refl|apply text_eqb_refl]. Qed.

Lemma key_eqb_sound : forall a b, key_eqb a b = true -> a = b.
Proof.
  intros [x|x] [y|y] H; cbn [key_eqb] in H; try discriminate.
  - apply Z.eqb_eq in H. subst. reflexivity.
  - apply text_eqb_sound in H. subst. reflexivity.
Qed.

Lemma ty_eqb_refl : forall t, ty_eqb t t = true.
Proof.
  induction t using ty_ind'; cbn [ty_eqb].
  - apply prim_eqb_refl.
  - apply text_eqb_refl.
  - apply Z.eqb_refl.
  - destruct b; reflexivity.
  - apply text_eqb_refl.
  - reflexivity.
  - exact IHt.
  - induction H as [|x r Hx Hr IH]; [reflexivity|]. rewrite Hx, IH. reflexivity.
  - induction H as [|[k x] r Hx Hr IH]; [reflexivity|]. cbn [snd] in Hx. rewrite key_eqb_refl, Hx, IH. reflexivity.
  - induction H as [|[n [x|]] r Hx Hr IH]; [reflexivity| |]; cbn [snd] in Hx; rewrite text_eqb_refl, ?Hx, IH; reflexivity.
  - destruct k; cbn [andb]; induction H as [|x r Hx Hr IH]; try reflexivity; rewrite Hx, IH; reflexivity.
Qed.

Lemma ty_eqb_sound : forall a b, ty_eqb a b = true -> a = b.
Proof.
  induction a using ty_ind'; intros b0 E; destruct b0; cbn [ty_eqb] in E; try discriminate E.
  - apply prim_eqb_sound in E. subst. reflexivity.
  - apply text_eqb_sound in E. subst. reflexivity.
  - apply Z.eqb_eq in E. subst. reflexivity.
  - apply Bool.eqb_prop in E. subst. reflexivity.
  - apply text_eqb_sound in E. subst. reflexivity.
  - reflexivity.
  - f_equal. apply IHa. exact E.
  - f_equal. revert ps0 E. induction H as [|x r Hx Hr IH]; intros [|y ys] E; try discriminate E; [reflexivity|].
    apply andb_true_iff in E as [E1 E2]. f_equal; [apply Hx; exact E1|apply IH; exact E2].
  - f_equal. revert fs0 E. induction H as [|[k x] r Hx Hr IH]; intros [|[k' y] ys] E; try discriminate E; [reflexivity|].
    apply andb_true_iff in E as [E E3]. apply andb_true_iff in E as [E1 E2]. cbn [snd] in Hx.
    apply key_eqb_sound in E1. subst. f_equal; [f_equal; apply Hx; exact E2|apply IH; exact E3].
  - f_equal. revert ps0 E. induction H as [|[n ox] r Hx Hr IH]; intros [|[n' oy] ys] E; try discriminate E; [reflexivity|].
    apply andb_true_iff in E as [E E3]. apply andb_true_iff in E as [E1 E2]. cbn [snd] in Hx.
    apply text_eqb_sound in E1. subst.
    f_equal; [|apply IH; exact E3].
    destruct ox as [x|]; destruct oy as [y|]; try discriminate E2; [|reflexivity].
    f_equal. f_equal. apply Hx. exact E2.
  - apply andb_true_iff in E as [E1 E2].
    assert (k = k0) by (destruct k; destruct k0; try reflexivity; discriminate E1). subst. f_equal.
    revert ms0 E2. induction H as [|x r Hx Hr IH]; intros [|y ys] E; try discriminate E; [reflexivity|].
    apply andb_true_iff in E as [E1' E2']. f_equal; [apply Hx; exact E1'|apply IH; exact E2'].
Qed.

Lemma mem_ty_In : forall x l, mem_ty x l = true <-> In x l.
Proof.
  intros x l. unfold mem_ty. rewrite existsb_exists. split.
  - intros [y [Hy E]]. apply ty_eqb_sound in E. subst. exact Hy.
  - intros H. exists x. split; [exact H|apply ty_eqb_refl].
Qed.

Lemma nodup_ty_NoDup : forall l, nodup_ty l = true -> NoDup l.
Proof.
  induction l as [|x r IH]; intros H; [constructor|]. cbn [nodup_ty] in H.
  apply andb_true_iff in H as [H1 H2]. apply negb_true_iff in H1. constructor; [|apply IH; exact H2].
  intros Hin. apply mem_ty_In in Hin. congruence.
Qed.

(* ------------------------------------------------------------------------------------------ *)
(** * [LuaType::from_vec] on distinct non-union members *)

Definition nonunion (l : list ty) : Prop := forall x, In x l -> is_union x = false.

Lemma flatten_nonunion : forall l, nonunion l -> flatten_unions l = l.
Proof.
  induction l as [|x r IH]; intros H; [reflexivity|]. unfold flatten_unions in *. cbn [flat_map].
  assert (Hx : is_union x = false) by (apply H; left; reflexivity).
  destruct x; try discriminate Hx; cbn [app]; f_equal; apply IH; intros y Hy; apply H; right; exact Hy.
Qed.

Lemma dedup_hash_nodup : forall l seen, NoDup l -> (forall x, In x l -> ~ In x seen) -> dedup_hash seen l = l.
Proof.
  induction l as [|x r IH]; intros seen Hnd Hs; [reflexivity|]. inversion Hnd as [|? ? Hx Hr]; subst.
  cbn [dedup_hash].
  assert (E : mem_ty x seen = false).
  { destruct (mem_ty x seen) eqn:E; [|reflexivity]. apply mem_ty_In in E. exfalso. apply (Hs x); [left; reflexivity|exact E]. }
  rewrite E, andb_false_r. f_equal. apply IH; [exact Hr|].
  intros y Hy [Hin|Hin]; [subst; contradiction|]. apply (Hs y); [right; exact Hy|exact Hin].
Qed.

Lemma dedup_eq_nodup : forall l seen, NoDup l -> (forall x, In x l -> ~ In x seen) -> dedup_eq seen l = l.
Proof.
  induction l as [|x r IH]; intros seen Hnd Hs; [reflexivity|]. inversion Hnd as [|? ? Hx Hr]; subst.
  cbn [dedup_eq].
  assert (E : mem_ty x seen = false).
  { destruct (mem_ty x seen) eqn:E; [|reflexivity]. apply mem_ty_In in E. exfalso. apply (Hs x); [left; reflexivity|exact E]. }
  rewrite E. f_equal. apply IH; [exact Hr|].
  intros y Hy [Hin|Hin]; [subst; contradiction|]. apply (Hs y); [right; exact Hy|exact Hin].
Qed.

Lemma from_vec_distinct : forall l, NoDup l -> nonunion l -> (2 <= List.length l)%nat ->
  from_vec l = union_from_vec l.
Proof.
  intros l Hnd Hnu Hlen. destruct l as [|x [|y r]]; [cbn in Hlen; lia|cbn in Hlen; lia|].
  unfold from_vec. rewrite flatten_nonunion by exact Hnu.
  rewrite dedup_hash_nodup by (try exact Hnd; intros ? ? []). reflexivity.
Qed.

(** [kind_of] does not depend on the order *)
Lemma all_prim_perm : forall a b, Permutation a b -> all_prim a = all_prim b.
Proof.
  intros a b H. unfold all_prim. induction H as [|x l l' H IH|x y l|l l' l'' H1 IH1 H2 IH2]; cbn [forallb]; try congruence.
  - destruct (match y with TPrim _ => true | _ => false end); destruct (match x with TPrim _ => true | _ => false end); reflexivity.
Qed.

Lemma existsb_perm : forall (f : ty -> bool) a b, Permutation a b -> existsb f a = existsb f b.
Proof.
  intros f a b H. induction H as [|x l l' H IH|x y l|l l' l'' H1 IH1 H2 IH2]; cbn [existsb]; try congruence.
  - destruct (f y); destruct (f x); reflexivity.
Qed.

Lemma kind_of_perm : forall a b, Permutation a b -> kind_of a = kind_of b.
Proof.
  intros a b H. unfold kind_of. rewrite (all_prim_perm _ _ H), (Permutation_length H), (existsb_perm _ _ _ H). reflexivity.
Qed.

Lemma is_nil_eq : forall t, is_nil t = true -> t = TPrim PNil.
Proof. intros t H. destruct t; try discriminate H. destruct p; try discriminate H. reflexivity. Qed.

Lemma has_prim_In : forall p l, has_prim p l = true <-> In (TPrim p) l.
Proof.
  intros p l. unfold has_prim. rewrite existsb_exists. split.
  - intros [t [Ht E]]. destruct t; try discriminate E. apply prim_eqb_sound in E. subst. exact Ht.
  - intros H. exists (TPrim p). split; [exact H|apply prim_eqb_refl].
Qed.

Lemma all_prims_nodup : NoDup all_prims.
Proof.
  unfold all_prims. repeat (constructor; [cbn [In]; intros H; repeat (destruct H as [H|H]; [discriminate H|]); exact H|]).
  constructor.
Qed.

Lemma all_prims_complete : forall p, In p all_prims.
Proof. destruct p; cbn; tauto. Qed.

(** [LuaUnionType::from_vec] / [into_vec]: the variant only depends on the members, and the members are kept *)
Lemma union_from_vec_perm : forall l, NoDup l ->
  exists l', union_from_vec l = TUnion (kind_of l) l' /\ Permutation l' l.
Proof.
  intros l Hnd. unfold union_from_vec, kind_of. destruct (all_prim l) eqn:Eap.
  - eexists. split; [reflexivity|]. apply NoDup_Permutation.
    + apply FinFun.Injective_map_NoDup; [intros a b E; injection E; auto|].
      apply NoDup_filter. exact all_prims_nodup.
    + exact Hnd.
    + intros x. rewrite in_map_iff. split.
      * intros [p [<- Hp]]. apply filter_In in Hp as [_ Hp]. apply has_prim_In. exact Hp.
      * intros Hx. unfold all_prim in Eap. rewrite forallb_forall in Eap. specialize (Eap x Hx).
        destruct x; try discriminate Eap. exists p. split; [reflexivity|]. apply filter_In.
        split; [apply all_prims_complete|apply has_prim_In; exact Hx].
  - destruct l as [|a [|b [|c r]]].
    + eexists; split; [reflexivity|apply Permutation_refl].
    + eexists; split; [reflexivity|apply Permutation_refl].
    + cbn [List.length Nat.eqb existsb]. rewrite orb_false_r.
      destruct (is_nil a) eqn:Ea.
      * cbn [orb andb]. eexists; split; [reflexivity|]. apply is_nil_eq in Ea. subst. apply perm_swap.
      * cbn [orb]. destruct (is_nil b) eqn:Eb; cbn [andb].
        -- eexists; split; [reflexivity|]. apply is_nil_eq in Eb. subst. apply Permutation_refl.
        -- eexists; split; [reflexivity|apply Permutation_refl].
    + cbn [List.length Nat.eqb andb]. eexists; split; [reflexivity|apply Permutation_refl].
Qed.

Lemma nonunion_perm : forall a b, Permutation a b -> nonunion a -> nonunion b.
Proof. intros a b H Ha x Hx. apply Ha. apply (Permutation_in _ (Permutation_sym H)). exact Hx. Qed.

Lemma NoDup_app_l : forall (A : Type) (a b : list A), NoDup (a ++ b) -> NoDup a.
Proof.
  induction a as [|x a IH]; intros b H; [constructor|]. cbn [app] in H. inversion H as [|? ? Hx Hr]; subst.
  constructor; [|apply (IH b); exact Hr]. intros Hin. apply Hx. apply in_or_app. left. exact Hin.
Qed.

(** the left-to-right chain of [|] over distinct non-union members *)
Lemma chain_step : forall r L,
  NoDup (L ++ r) -> nonunion (L ++ r) -> (2 <= List.length L)%nat ->
  exists L', fold_left binary_union r (TUnion (kind_of L) L) = TUnion (kind_of L') L' /\ Permutation L' (L ++ r).
Proof.
  induction r as [|x r IH]; intros L Hnd Hnu Hlen.
  - exists L. rewrite app_nil_r. split; [reflexivity|apply Permutation_refl].
  - cbn [fold_left].
    assert (Hx : is_union x = false) by (apply Hnu; apply in_or_app; right; left; reflexivity).
    assert (E : binary_union (TUnion (kind_of L) L) x = from_vec (L ++ [x])) by (destruct x; try discriminate Hx; reflexivity).
    rewrite E.
    assert (Hnd1 : NoDup (L ++ [x])).
    { replace (L ++ x :: r) with ((L ++ [x]) ++ r) in Hnd by (rewrite <- app_assoc; reflexivity).
      apply NoDup_app_l in Hnd. exact Hnd. }
    assert (Hnu1 : nonunion (L ++ [x])).
    { intros y Hy. apply Hnu. apply in_app_or in Hy as [Hy|[<-|[]]]; apply in_or_app; [left; exact Hy|right; left; reflexivity]. }
    rewrite from_vec_distinct by (try assumption; rewrite app_length; cbn; lia).
    destruct (union_from_vec_perm _ Hnd1) as [L1 [E1 P1]]. rewrite E1.
    rewrite (kind_of_perm _ _ (Permutation_sym P1)).
    assert (P2 : Permutation (L1 ++ r) (L ++ x :: r)).
    { replace (L ++ x :: r) with ((L ++ [x]) ++ r) by (rewrite <- app_assoc; reflexivity).
      apply Permutation_app_tail. exact P1. }
    destruct (IH L1) as [L' [E' P']].
    + apply (Permutation_NoDup (Permutation_sym P2)). exact Hnd.
    + apply (nonunion_perm _ _ (Permutation_sym P2)). exact Hnu.
    + rewrite (Permutation_length P1), app_length. cbn. lia.
    + exists L'. split; [exact E'|]. apply (Permutation_trans P' P2).
Qed.

Lemma mk_union_distinct : forall l, NoDup l -> nonunion l -> (2 <= List.length l)%nat ->
  exists L', mk_union l = TUnion (kind_of L') L' /\ Permutation L' l.
Proof.
  intros [|x [|y r]] Hnd Hnu Hlen; [cbn in Hlen; lia|cbn in Hlen; lia|].
  cbn [mk_union fold_left].
  assert (Hx : is_union x = false) by (apply Hnu; left; reflexivity).
  assert (Hy : is_union y = false) by (apply Hnu; right; left; reflexivity).
  assert (E : binary_union x y = from_vec [x; y]) by (destruct x; try discriminate Hx; destruct y; try discriminate Hy; reflexivity).
  rewrite E.
  assert (Hnd1 : NoDup [x; y]).
  { inversion Hnd as [|? ? H1 H2]; subst. inversion H2 as [|? ? H3 H4]; subst.
    constructor; [intros [->|[]]; apply H1; left; reflexivity|constructor; [intros []|constructor]]. }
  assert (Hnu1 : nonunion [x; y]) by (intros z [<-|[<-|[]]]; assumption).
  rewrite from_vec_distinct by (try assumption; cbn; lia).
  destruct (union_from_vec_perm _ Hnd1) as [L1 [E1 P1]]. rewrite E1.
  rewrite (kind_of_perm _ _ (Permutation_sym P1)).
  assert (P2 : Permutation (L1 ++ r) (x :: y :: r)) by (apply (Permutation_app_tail r P1)).
  destruct (chain_step r L1) as [L' [E' P']].
  - apply (Permutation_NoDup (Permutation_sym P2)). exact Hnd.
  - apply (nonunion_perm _ _ (Permutation_sym P2)). exact Hnu.
  - rewrite (Permutation_length P1). cbn. lia.
  - exists L'. split; [exact E'|apply (Permutation_trans P' P2)].
Qed.

(* ------------------------------------------------------------------------------------------ *)
(** * [T?] *)

Lemma nil_nonunion : is_union (TPrim PNil) = false.
Proof. reflexivity. Qed.

Lemma real_type_nonref : forall e t, (forall n, t <> TRef n) -> real_type e t = t.
Proof. intros e t H. unfold real_type. cbn [real_type_aux]. destruct t; try reflexivity. exfalso. apply (H n). reflexivity. Qed.

Lemma canonicalize_distinct : forall k L, NoDup L -> nonunion L -> (2 <= List.length L)%nat ->
  exists L', canonicalize_callable_union (TUnion k L) = TUnion (kind_of L') L' /\ Permutation L' L.
Proof.
  intros k L Hnd Hnu Hlen. cbn [canonicalize_callable_union].
  rewrite dedup_eq_nodup by (try exact Hnd; intros ? ? []).
  assert (E : (if existsb (fun m => match m with TFun _ => true | _ => false end) L then from_vec L else from_vec L)
              = union_from_vec L).
  { rewrite from_vec_distinct by assumption. destruct (existsb _ L); reflexivity. }
  rewrite E. destruct (union_from_vec_perm _ Hnd) as [L1 [E1 P1]]. rewrite E1.
  exists L1. split; [|exact P1]. rewrite (kind_of_perm _ _ P1). reflexivity.
Qed.

Lemma uwn_union : forall e k L, NoDup L -> nonunion L -> (2 <= List.length L)%nat -> ~ In (TPrim PNil) L ->
  exists L', union_with_nil e (TUnion k L) = TUnion (kind_of L') L' /\ Permutation L' (L ++ [TPrim PNil]).
Proof.
  intros e k L Hnd Hnu Hlen Hnil. unfold union_with_nil.
  rewrite real_type_nonref by (intros n H; discriminate H).
  assert (Em : mem_ty (TPrim PNil) L = false).
  { destruct (mem_ty (TPrim PNil) L) eqn:E; [|reflexivity]. apply mem_ty_In in E. contradiction. }
  rewrite Em.
  assert (Hnd1 : NoDup (L ++ [TPrim PNil])).
  { apply (Permutation_NoDup (Permutation_cons_append L (TPrim PNil))). constructor; assumption. }
  destruct (union_from_vec_perm _ Hnd1) as [L1 [E1 P1]]. rewrite E1.
  destruct (canonicalize_distinct (kind_of (L ++ [TPrim PNil])) L1) as [L2 [E2 P2]].
  - apply (Permutation_NoDup (Permutation_sym P1)). exact Hnd1.
  - apply (nonunion_perm _ _ (Permutation_sym P1)). intros x Hx. apply in_app_or in Hx as [Hx|[<-|[]]]; [apply Hnu; exact Hx|reflexivity].
  - rewrite (Permutation_length P1), app_length. cbn. lia.
  - exists L2. split; [exact E2|apply (Permutation_trans P2 P1)].
Qed.

Lemma uwn_single : forall e x, is_union x = false -> is_nil x = false -> nullable_base_ok e x = true ->
  exists L', union_with_nil e x = TUnion (kind_of L') L' /\ Permutation L' [x; TPrim PNil].
Proof.
  intros e x Hu Hn Hok. unfold nullable_base_ok in Hok. apply andb_true_iff in Hok as [_ Hok].
  assert (E : union_with_nil e x = canonicalize_callable_union (from_vec [x; TPrim PNil])).
  { unfold union_with_nil. destruct (real_type e x) as [p| | | | | | | | | |]; try reflexivity; try discriminate Hok.
    destruct p; try reflexivity; discriminate Hok. }
  rewrite E.
  assert (Hnd : NoDup [x; TPrim PNil]).
  { constructor; [intros [H|[]]; subst; discriminate Hn|constructor; [intros []|constructor]]. }
  assert (Hnu : nonunion [x; TPrim PNil]) by (intros y [<-|[<-|[]]]; [exact Hu|reflexivity]).
  rewrite from_vec_distinct by (try assumption; cbn; lia).
  destruct (union_from_vec_perm _ Hnd) as [L1 [E1 P1]]. rewrite E1.
  destruct (canonicalize_distinct (kind_of [x; TPrim PNil]) L1) as [L2 [E2 P2]].
  - apply (Permutation_NoDup (Permutation_sym P1)). exact Hnd.
  - apply (nonunion_perm _ _ (Permutation_sym P1)). exact Hnu.
  - rewrite (Permutation_length P1). cbn. lia.
  - exists L2. split; [exact E2|apply (Permutation_trans P2 P1)].
Qed.

(* ------------------------------------------------------------------------------------------ *)
(** * Equality modulo union order: helpers *)

Lemma eqv_shape : forall a b, ty_eqv a b = true ->
  is_union a = is_union b /\ is_nil a = is_nil b /\ is_unknown a = is_unknown b
  /\ match a with TPrim _ => true | _ => false end = match b with TPrim _ => true | _ => false end.
Proof.
  intros a b H. destruct a; destruct b; try discriminate H; try (repeat split; reflexivity).
  cbn [ty_eqv] in H. apply prim_eqb_sound in H. subst. repeat split; reflexivity.
Qed.

Lemma eqv_union_intro : forall k k' xs ys,
  ukind_eqb k k' = true -> List.length xs = List.length ys ->
  (forall x, In x xs -> exists y, In y ys /\ ty_eqv x y = true) ->
  (forall y, In y ys -> exists x, In x xs /\ ty_eqv x y = true) ->
  ty_eqv (TUnion k xs) (TUnion k' ys) = true.
Proof.
  intros k k' xs ys Hk Hl H1 H2. cbn [ty_eqv]. rewrite Hk, Hl, Nat.eqb_refl. cbn [andb].
  apply andb_true_iff. split.
  - clear H2 Hl. induction xs as [|x r IH]; [reflexivity|].
    apply andb_true_iff. split.
    + destruct (H1 x (or_introl eq_refl)) as [y [Hy E]]. apply existsb_exists. exists y. split; assumption.
    + apply IH. intros z Hz. apply H1. right. exact Hz.
  - apply forallb_forall. intros y Hy. destruct (H2 y Hy) as [x [Hx E]]. clear -Hx E.
    induction xs as [|z r IH]; [destruct Hx|]. destruct Hx as [->|Hx]; [rewrite E; reflexivity|].
    rewrite (IH Hx). apply orb_true_r.
Qed.

(* order on record keys *)
Lemma text_ltb_irrefl : forall s, text_ltb s s = false.
Proof. induction s as [|c r IH]; [reflexivity|]. cbn [text_ltb]. rewrite N.ltb_irrefl. exact IH. Qed.

Lemma text_ltb_trans : forall a b c, text_ltb a b = true -> text_ltb b c = true -> text_ltb a c = true.
Proof.
  induction a as [|x a IH]; intros [|y b] [|z c] H1 H2; cbn [text_ltb] in *; try discriminate; try reflexivity.
  destruct (N.ltb_spec x y); destruct (N.ltb_spec y z); destruct (N.ltb_spec x z); try reflexivity; try lia;
    destruct (N.ltb_spec y x); destruct (N.ltb_spec z y); destruct (N.ltb_spec z x); try discriminate; try lia.
  eapply IH; eassumption.
Qed.

Lemma text_ltb_neq : forall a b, text_ltb a b = true -> text_eqb b a = false.
Proof.
  intros a b H. destruct (text_eqb b a) eqn:E; [|reflexivity]. apply text_eqb_sound in E. subst.
  rewrite text_ltb_irrefl in H. discriminate H.
Qed.

Lemma text_ltb_asym : forall a b, text_ltb a b = true -> text_ltb b a = false.
Proof.
  intros a b H. destruct (text_ltb b a) eqn:E; [|reflexivity].
  pose proof (text_ltb_trans _ _ _ H E) as Tr. rewrite text_ltb_irrefl in Tr. discriminate Tr.
Qed.

Lemma key_ltb_trans : forall a b c, key_ltb a b = true -> key_ltb b c = true -> key_ltb a c = true.
Proof.
  intros [x|x] [y|y] [z|z] H1 H2; cbn [key_ltb] in *; try discriminate; try reflexivity.
  - apply Z.ltb_lt. apply Z.ltb_lt in H1, H2. lia.
  - eapply text_ltb_trans; eassumption.
Qed.

Lemma key_ltb_facts : forall a b, key_ltb a b = true -> key_eqb b a = false /\ key_ltb b a = false.
Proof.
  intros [x|x] [y|y] H; cbn [key_ltb key_eqb] in *; try discriminate; try (split; reflexivity).
  - apply Z.ltb_lt in H. split; [apply Z.eqb_neq; lia|apply Z.ltb_ge; lia].
  - split; [apply text_ltb_neq; exact H|apply text_ltb_asym; exact H].
Qed.

Lemma obj_insert_last : forall k v l, (forall f, In f l -> key_ltb (fst f) k = true) ->
  obj_insert k v l = l ++ [(k, v)].
Proof.
  induction l as [|[k' v'] r IH]; intros H; [reflexivity|]. cbn [obj_insert].
  destruct (key_ltb_facts k' k (H (k', v') (or_introl eq_refl))) as [E1 E2]. rewrite E1, E2.
  cbn [app]. f_equal. apply IH. intros f Hf. apply H. right. exact Hf.
Qed.

Lemma sorted_all_below : forall (A : Type) k (l : list (key * A)),
  keys_sorted (k :: map fst l) = true -> forall f, In f l -> key_ltb k (fst f) = true.
Proof.
  intros A k l. revert k. induction l as [|[k1 v1] r IH]; intros k H f Hf; [destruct Hf|].
  cbn [map fst keys_sorted] in H. apply andb_true_iff in H as [H1 H2].
  destruct Hf as [<-|Hf]; [exact H1|].
  eapply key_ltb_trans; [exact H1|]. apply (IH k1); [exact H2|exact Hf].
Qed.

Lemma sorted_prefix_below : forall pre k (v : ty) suf,
  keys_sorted (map fst (pre ++ (k, v) :: suf)) = true -> forall f, In f pre -> key_ltb (fst f) k = true.
Proof.
  induction pre as [|[k0 v0] pre IH]; intros k v suf Hs f Hf; [destruct Hf|].
  destruct Hf as [<-|Hf].
  - cbn [fst]. apply (sorted_all_below _ k0 (pre ++ (k, v) :: suf) Hs (k, v)). apply in_or_app. right. left. reflexivity.
  - apply (IH k v suf); [|exact Hf]. cbn [app map keys_sorted] in Hs. apply andb_true_iff in Hs as [_ Hs]. exact Hs.
Qed.

Lemma obj_new_sorted : forall l, keys_sorted (map fst l) = true -> obj_new l = l.
Proof.
  intros l H. unfold obj_new.
  assert (G : forall suf pre, keys_sorted (map fst (pre ++ suf)) = true ->
              fold_left (fun acc f => obj_insert (fst f) (snd f) acc) suf pre = pre ++ suf).
  { induction suf as [|[k v] suf IH]; intros pre Hs; [rewrite app_nil_r; reflexivity|].
    cbn [fold_left fst snd]. rewrite obj_insert_last by (apply (sorted_prefix_below pre k v suf Hs)).
    rewrite IH; rewrite <- app_assoc; [reflexivity|exact Hs]. }
  apply (G l []). exact H.
Qed.

(* ------------------------------------------------------------------------------------------ *)
(** * The normal form is the same type *)

Lemma norm_union_eq : forall e k ms,
  norm e (TUnion k ms) =
  if existsb is_nil ms then mk_nullable e (mk_union (map (norm e) (non_nil ms)))
  else mk_union (map (norm e) (non_nil ms)).
Proof.
  intros. cbn [norm].
  assert (E : forall l,
            (fix go (l : list ty) : list ty :=
               match l with [] => [] | m :: r => if is_nil m then go r else norm e m :: go r end) l
            = map (norm e) (non_nil l)).
  { unfold non_nil. induction l as [|m r IH]; [reflexivity|]. cbn [filter].
    destruct (is_nil m); cbn [negb map]; rewrite IH; reflexivity. }
  rewrite E. reflexivity.
Qed.

Lemma non_nil_In : forall ms x, In x (non_nil ms) <-> In x ms /\ is_nil x = false.
Proof. intros ms x. unfold non_nil. rewrite filter_In. rewrite negb_true_iff. tauto. Qed.

Lemma in_ms_cases : forall ms x, In x ms -> x = TPrim PNil \/ In x (non_nil ms).
Proof.
  intros ms x H. destruct (is_nil x) eqn:E; [left; apply is_nil_eq; exact E|right; apply non_nil_In; split; assumption].
Qed.

Theorem norm_same : forall e t lvl d,
  small lvl d t = true -> annot_form e t = true -> known e t = false -> ty_eqv (norm e t) t = true.
Proof.
  intros e. induction t using ty_ind'; intros lvl d Hs Ha Hk; rewrite small_eq in Hs;
    apply andb_true_iff in Hs as [_ Hs]; cbv zeta in Hs.
  - apply prim_eqb_refl.
  - apply text_eqb_refl.
  - apply Z.eqb_refl.
  - destruct b; reflexivity.
  - apply text_eqb_refl.
  - discriminate.
  - (* TArray *)
    cbn [annot_form] in Ha. apply andb_true_iff in Ha as [Hu Ha]. apply negb_true_iff in Hu.
    cbn [known] in Hk. pose proof (IHt _ _ Hs Ha Hk) as IH.
    cbn [norm]. unfold mk_array. destruct (eqv_shape _ _ IH) as (_ & _ & E & _). rewrite E, Hu. exact IH.
  - (* TTableGeneric *)
    apply andb_true_iff in Hs as [_ Hall]. cbn [annot_form] in Ha. cbn [known] in Hk. cbn [norm ty_eqv].
    induction H as [|p r Hp Hr IH]; [reflexivity|].
    cbn [forallb] in Hall, Ha. cbn [existsb] in Hk.
    apply andb_true_iff in Hall as [Hs1 Hs2]. apply andb_true_iff in Ha as [Ha1 Ha2].
    apply orb_false_iff in Hk as [Hk1 Hk2]. cbn [map]. rewrite (Hp _ _ Hs1 Ha1 Hk1). apply IH; assumption.
  - (* TObject *)
    apply andb_true_iff in Hs as [Hs Hall]. apply andb_true_iff in Hs as [_ Hsorted].
    cbn [annot_form] in Ha. cbn [known] in Hk. cbn [norm].
    rewrite obj_new_sorted by (rewrite map_map; cbn [fst]; exact Hsorted).
    cbn [ty_eqv]. clear Hsorted.
    induction H as [|[k v] r Hp Hr IH]; [reflexivity|].
    cbn [forallb snd] in Hall, Ha. cbn [existsb snd] in Hk.
    apply andb_true_iff in Hall as [Hs1 Hs2]. apply andb_true_iff in Ha as [Ha1 Ha2].
    apply orb_false_iff in Hk as [Hk1 Hk2]. cbn [map fst snd]. cbn [snd] in Hp.
    rewrite key_eqb_refl, (Hp _ _ Hs1 Ha1 Hk1). apply IH; assumption.
  - (* TFun *)
    apply andb_true_iff in Hs as [_ Hall]. cbn [annot_form] in Ha. cbn [known] in Hk. cbn [norm ty_eqv].
    induction H as [|[n ot] r Hp Hr IH]; [reflexivity|].
    cbn [forallb fst snd] in Hall, Ha. cbn [existsb snd] in Hk.
    apply andb_true_iff in Hall as [Hs1 Hs2]. apply andb_true_iff in Hs1 as [_ Hs1].
    apply andb_true_iff in Ha as [Ha1 Ha2]. apply orb_false_iff in Hk as [Hk1 Hk2].
    cbn [map fst snd option_map]. rewrite text_eqb_refl. cbn [snd] in Hp.
    destruct ot as [pt|]; cbn [option_map]; [rewrite (Hp _ _ Hs1 Ha1 Hk1)|]; apply IH; assumption.
  - (* TUnion *)
    apply andb_true_iff in Hs as [Hs Hall]. apply andb_true_iff in Hs as [Hs _].
    apply andb_true_iff in Hs as [Hs Hnu]. apply andb_true_iff in Hs as [Hs _].
    apply andb_true_iff in Hs as [H2 H1]. apply Nat.leb_le in H2. apply Nat.leb_le in H1.
    cbn [annot_form] in Ha. apply andb_true_iff in Ha as [Ha Haall]. apply andb_true_iff in Ha as [Hkind Hlen].
    apply Nat.eqb_eq in Hlen.
    cbn [known] in Hk. apply orb_false_iff in Hk as [Hk Hkall]. apply orb_false_iff in Hk as [Hbase Hdup].
    apply negb_false_iff in Hdup.
    (* members *)
    assert (IHm : forall m, In m ms -> ty_eqv (norm e m) m = true).
    { rewrite Forall_forall in H. intros m Hm. apply (H m Hm (next_level lvl) (S d)).
      - apply (forallb_Forall_in _ _ _ Hall m Hm).
      - apply (forallb_Forall_in _ _ _ Haall m Hm).
      - destruct (known e m) eqn:E; [|reflexivity].
        assert (existsb (known e) ms = true) by (apply existsb_exists; exists m; split; assumption). congruence. }
    set (nn := non_nil ms) in *. set (xs := map (norm e) nn).
    assert (Hxs_nd : NoDup xs) by (apply nodup_ty_NoDup; exact Hdup).
    assert (Hxs : forall y, In y xs -> exists m, In m nn /\ y = norm e m /\ ty_eqv y m = true).
    { intros y Hy. apply in_map_iff in Hy as [m [<- Hm]]. exists m. split; [exact Hm|]. split; [reflexivity|].
      apply IHm. apply non_nil_In in Hm. apply Hm. }
    assert (Hxs_nu : nonunion xs).
    { intros y Hy. destruct (Hxs y Hy) as [m [Hm [_ E]]]. destruct (eqv_shape _ _ E) as (Eu & _).
      rewrite Eu. apply non_nil_In in Hm as [Hm _]. apply negb_true_iff. apply (forallb_Forall_in _ _ _ Hnu m Hm). }
    assert (Hxs_nn : ~ In (TPrim PNil) xs).
    { intros Hy. destruct (Hxs _ Hy) as [m [Hm [_ E]]]. destruct (eqv_shape _ _ E) as (_ & En & _).
      apply non_nil_In in Hm as [_ Hm]. cbn in En. congruence. }
    assert (Hlenxs : List.length xs = List.length nn) by (unfold xs; apply map_length).
    (* the result is a union of (a permutation of) xs, plus nil when the union is optional *)
    assert (Hres : exists L', norm e (TUnion k ms) = TUnion (kind_of L') L'
                              /\ Permutation L' (xs ++ if existsb is_nil ms then [TPrim PNil] else [])).
    { rewrite norm_union_eq. fold nn. fold xs.
      destruct (existsb is_nil ms) eqn:Enil.
      - destruct xs as [|x1 [|x2 xr]] eqn:Exs.
        + cbn in Hlenxs. lia.
        + (* a single member *)
          cbn [mk_union fold_left]. unfold mk_nullable.
          destruct nn as [|m1 [|m2 mr]] eqn:Enn; try (cbn in Hlenxs; lia).
          assert (Hm1 : x1 = norm e m1) by (cbn [map] in Exs; injection Exs; auto).
          assert (E1 : ty_eqv x1 m1 = true) by (subst x1; apply IHm; apply (proj1 (non_nil_In ms m1)); fold nn; rewrite Enn; left; reflexivity).
          destruct (eqv_shape _ _ E1) as (Eu & En & Eun & _).
          apply negb_false_iff in Hbase. unfold nullable_base_ok in Hbase.
          assert (Hm1in : In m1 (non_nil ms)) by (fold nn; rewrite Enn; left; reflexivity).
          apply non_nil_In in Hm1in as [Hm1in Hm1n].
          assert (Hm1u : is_union m1 = false) by (apply negb_true_iff; apply (forallb_Forall_in _ _ _ Hnu m1 Hm1in)).
          apply andb_true_iff in Hbase as [Hunk Hreal]. apply negb_true_iff in Hunk.
          rewrite Eun, Hunk.
          assert (Enl : is_nullable x1 = false).
          { destruct x1; try reflexivity; [destruct p; try reflexivity; cbn in En; congruence|cbn in Eu; congruence]. }
          rewrite Enl.
          (* the normal form of a non-union member resolves like the member itself *)
          assert (Hok : nullable_base_ok e x1 = true).
          { unfold nullable_base_ok. rewrite Eun, Hunk. cbn [negb andb].
            destruct m1; try discriminate Hm1u; cbn [ty_eqv] in E1;
              destruct x1; try discriminate E1; try reflexivity.
            - apply prim_eqb_sound in E1. subst. exact Hreal.
            - apply text_eqb_sound in E1. subst. exact Hreal. }
          destruct (uwn_single e x1) as [L' [E' P']]; [congruence|congruence|exact Hok|].
          exists L'. split; [exact E'|exact P'].
        + (* several members *)
          destruct (mk_union_distinct (x1 :: x2 :: xr)) as [L1 [E1 P1]]; [exact Hxs_nd|exact Hxs_nu|cbn; lia|].
          rewrite E1. unfold mk_nullable. cbn [is_unknown].
          assert (Enl : is_nullable (TUnion (kind_of L1) L1) = false).
          { cbn [is_nullable]. apply not_true_is_false. intros Hex. apply existsb_exists in Hex as [y [Hy Ey]].
            apply (Permutation_in _ P1) in Hy.
            assert (is_union y = false) by (apply Hxs_nu; exact Hy).
            destruct y; try discriminate Ey; [|discriminate].
            destruct p; try discriminate Ey. apply Hxs_nn. exact Hy. }
          rewrite Enl.
          destruct (uwn_union e (kind_of L1) L1) as [L' [E' P']].
          * apply (Permutation_NoDup (Permutation_sym P1)). exact Hxs_nd.
          * apply (nonunion_perm _ _ (Permutation_sym P1)). exact Hxs_nu.
          * rewrite (Permutation_length P1). cbn. lia.
          * intros Hin. apply Hxs_nn. apply (Permutation_in _ P1). exact Hin.
          * exists L'. split; [exact E'|]. apply (Permutation_trans P'). apply Permutation_app_tail. exact P1.
      - (* no nil: at least two members *)
        assert (Hge : (2 <= List.length xs)%nat).
        { rewrite Hlenxs. lia. }
        destruct (mk_union_distinct xs Hxs_nd Hxs_nu Hge) as [L' [E' P']].
        exists L'. split; [exact E'|]. rewrite app_nil_r. exact P'. }
    destruct Hres as [L' [E' P']]. rewrite E'.
    assert (Hmem1 : forall y, In y L' -> exists m, In m ms /\ ty_eqv y m = true).
    { intros y Hy. apply (Permutation_in _ P') in Hy. apply in_app_or in Hy as [Hy|Hy].
      - destruct (Hxs y Hy) as [m [Hm [_ E]]]. exists m. split; [apply non_nil_In in Hm; apply Hm|exact E].
      - destruct (existsb is_nil ms) eqn:Enil; [|destruct Hy]. destruct Hy as [<-|[]].
        apply existsb_exists in Enil as [m [Hm En]]. exists m. split; [exact Hm|]. apply is_nil_eq in En. subst. reflexivity. }
    assert (Hmem2 : forall m, In m ms -> exists y, In y L' /\ ty_eqv y m = true).
    { intros m Hm. destruct (in_ms_cases ms m Hm) as [->|Hn].
      - exists (TPrim PNil). split; [|reflexivity]. apply (Permutation_in _ (Permutation_sym P')).
        apply in_or_app. right.
        assert (En : existsb is_nil ms = true) by (apply existsb_exists; exists (TPrim PNil); split; [exact Hm|reflexivity]).
        rewrite En. left. reflexivity.
      - exists (norm e m). split; [|apply IHm; exact Hm]. apply (Permutation_in _ (Permutation_sym P')).
        apply in_or_app. left. apply in_map. exact Hn. }
    apply eqv_union_intro.
    + (* the variant *)
      assert (Ek : kind_of L' = kind_of ms).
      { unfold kind_of.
        assert (Eap : all_prim L' = all_prim ms).
        { apply eq_true_iff_eq. unfold all_prim. rewrite !forallb_forall. split; intros Hp z Hz.
          - destruct (Hmem2 z Hz) as [y [Hy E]]. specialize (Hp y Hy). destruct (eqv_shape _ _ E) as (_ & _ & _ & Ep). congruence.
          - destruct (Hmem1 z Hz) as [m [Hm E]]. specialize (Hp m Hm). destruct (eqv_shape _ _ E) as (_ & _ & _ & Ep). congruence. }
        assert (Eln : List.length L' = List.length ms).
        { rewrite (Permutation_length P'), app_length, Hlenxs, Hlen. destruct (existsb is_nil ms); reflexivity. }
        assert (Enl : existsb is_nil L' = existsb is_nil ms).
        { apply eq_true_iff_eq. rewrite !existsb_exists. split; intros [z [Hz En]].
          - destruct (Hmem1 z Hz) as [m [Hm E]]. exists m. split; [exact Hm|]. destruct (eqv_shape _ _ E) as (_ & Enn & _). congruence.
          - destruct (Hmem2 z Hz) as [y [Hy E]]. exists y. split; [exact Hy|]. destruct (eqv_shape _ _ E) as (_ & Enn & _). congruence. }
        rewrite Eap, Eln, Enl. reflexivity. }
      rewrite Ek. destruct k; destruct (kind_of ms); try discriminate Hkind; reflexivity.
    + rewrite (Permutation_length P'), app_length, Hlenxs, Hlen. destruct (existsb is_nil ms); reflexivity.
    + intros x Hx. destruct (Hmem1 x Hx) as [m [Hm E]]. exists m. split; assumption.
    + intros y Hy. destruct (Hmem2 y Hy) as [x [Hx E]]. exists x. split; assumption.
Qed.
