(** C17/Corr.v — executable comparison of implementation observations with the model
    (the harness c17 writes the observations, checks/C17.py turns them into [case] terms). *)
From EV Require Import C17.Model.
Local Open Scope N_scope.

Record case := {
  c_env : env;             (* the aliases of the harness prelude *)
  c_text : text;           (* the generated annotation text *)
  c_t0 : option ty;        (* the analyzer's type of `---@type <text>` (None: outside the modelled types) *)
  c_render : bool;         (* compare the rendering (false for the expanded view of a class with members) *)
  c_r : text;              (* humanize_type(t0, Documentation) *)
  c_back : bool;           (* compare the type read back *)
  c_t1 : option ty         (* the analyzer's type of `---@type <c_r>` *)
}.

(** the model may decline ([None] = outside the model); when it answers, it must answer what the
    implementation answers *)
Definition agree (m impl : option ty) : bool :=
  match m, impl with
  | Some a, Some b => ty_eqb a b
  | Some _, None => false
  | None, _ => true
  end.

Definition check_case (c : case) : bool :=
  match c_t0 c with
  | Some t => if c_render c then text_eqb (render t) (c_r c) else true
  | None => true
  end
  && agree (parse (c_env c) (c_text c)) (c_t0 c)
  && (if c_back c then agree (parse (c_env c) (c_r c)) (c_t1 c) else true).

(** coverage: the model answered both times (used only to measure how much of the stream it covers) *)
Definition defined_case (c : case) : bool :=
  match parse (c_env c) (c_text c), parse (c_env c) (c_r c) with
  | Some _, Some _ => true
  | _, _ => negb (c_back c)
  end.
