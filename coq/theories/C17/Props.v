(** C17/Props.v — property theorems only.  Each is closed by [exact] of a lemma of Proofs.v. *)
From EV Require Import C17.Model C17.Spec C17.Proofs.
Local Open Scope N_scope.

(** Rendering a type of the sub-grammar at full detail ([RenderLevel::Documentation]) and reading the
    text back as a [---@type] annotation (doc lexer, doc-type grammar, [infer_type]) gives the union
    normal form [norm] of the type, for EVERY type that fits the renderer's size limits ([Small]):
    primitives, string / integer / boolean literals (any string content), class / alias / enum references,
    arrays, [table<..>], records (any key text), [fun(..)] types, unions and optionals, arbitrarily nested. *)
Theorem parse_render : forall (e : env) (t : ty), Small t -> parse e (render t) = Some (norm e t).
Proof. exact Proofs.parse_render. Qed.

(** The rendering never shows two different types the same way: equal renderings have equal normal forms
    (a union, optional or array cannot be shown with a grouping that means another type, nor a literal with
    another value). *)
Theorem render_unambiguous : forall (e : env) (t1 t2 : ty),
  Small t1 -> Small t2 -> render t1 = render t2 -> norm e t1 = norm e t2.
Proof. exact Proofs.render_unambiguous. Qed.

(** For a type in the form the annotation reader produces ([annot_form]: the union variants and arities
    [LuaUnionType::from_vec] gives, no array of [unknown]) and outside the two recorded classes ([known]: an
    optional whose only member the reader absorbs — [any?], [unknown?], [never?], an alias of such — and unions
    with two members of the same normal form), the type read back is THE SAME TYPE modulo the order of union
    members ([ty_eqv], what [PartialEq for LuaUnionType] compares). *)
Theorem reads_back_same_outside_known : forall (e : env) (t : ty),
  Small t -> annot_form e t = true -> known e t = false ->
  exists t', parse e (render t) = Some t' /\ ty_eqv t' t = true.
Proof. exact Proofs.reads_back_same_outside_known. Qed.

(** The recorded class is real (open finding): the annotation [any|nil] renders as [any?], which reads back
    as [any]. *)
Theorem reads_back_same_refuted : exists t : ty,
  Small t /\ annot_form [] t = true /\ known [] t = true
  /\ exists t', parse [] (render t) = Some t' /\ ty_eqv t' t = false.
Proof. exact Proofs.reads_back_same_refuted. Qed.

(** The doc lexer splits a rendered type into exactly the tokens the renderer meant. *)
Theorem tokens_of_render : forall t, small Documentation 0 t = true -> lex (render t) = ptoks t.
Proof. exact Proofs.tokens_of_render. Qed.

(** non-vacuity: a nested record / array / optional / union / function / map type with an odd key, a string
    literal containing a quote and a backslash and negative literals is [Small] and round-trips exactly *)
Example roundtrip_example :
  Small ex_type /\ annot_form [] ex_type = true /\ known [] ex_type = false
  /\ parse [] (render ex_type) = Some ex_type.
Proof. exact (conj Proofs.ex_small (conj (proj1 Proofs.ex_annot) (conj (proj2 Proofs.ex_annot) Proofs.ex_roundtrip))). Qed.
