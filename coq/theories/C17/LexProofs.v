(** C17/LexProofs.v — the doc lexer reads a rendered type back as the tokens [ptoks] lists. *)
From EV Require Import C17.Model C17.Spec.
From Coq Require Import String Lia.
Local Open Scope N_scope.

(* ------------------------------------------------------------------------------------------ *)
(** * Induction principle for the nested type [ty] *)

Section TyInd.
  Variable P : ty -> Prop.
  Hypothesis HPrim : forall p, P (TPrim p).
  Hypothesis HStr : forall s, P (TStr s).
  Hypothesis HInt : forall z, P (TInt z).
  Hypothesis HBool : forall b, P (TBool b).
  Hypothesis HRef : forall n, P (TRef n).
  Hypothesis HTC : P TTableConst.
  Hypothesis HArray : forall b, P b -> P (TArray b).
  Hypothesis HTG : forall ps, Forall P ps -> P (TTableGeneric ps).
  Hypothesis HObj : forall fs, Forall (fun f => P (snd f)) fs -> P (TObject fs).
  Hypothesis HFun : forall ps, Forall (fun p => match snd p with Some t => P t | None => True end) ps -> P (TFun ps).
  Hypothesis HUnion : forall k ms, Forall P ms -> P (TUnion k ms).

  Fixpoint ty_ind' (t : ty) : P t :=
    match t with
    | TPrim p => HPrim p
    | TStr s => HStr s
    | TInt z => HInt z
    | TBool b => HBool b
    | TRef n => HRef n
    | TTableConst => HTC
    | TArray b => HArray b (ty_ind' b)
    | TTableGeneric ps =>
        HTG ps ((fix go (l : list ty) : Forall P l :=
                   match l with [] => Forall_nil _ | x :: r => Forall_cons x (ty_ind' x) (go r) end) ps)
    | TObject fs =>
        HObj fs ((fix go (l : list (key * ty)) : Forall (fun f => P (snd f)) l :=
                    match l with
                    | [] => Forall_nil _
                    | (k, v) :: r => Forall_cons (k, v) (ty_ind' v) (go r)
                    end) fs)
    | TFun ps =>
        HFun ps ((fix go (l : list (text * option ty))
                    : Forall (fun p => match snd p with Some t => P t | None => True end) l :=
                    match l with
                    | [] => Forall_nil _
                    | (n, Some t) :: r =>
                        Forall_cons (P := fun p => match snd p with Some t => P t | None => True end)
                          (n, Some t) (ty_ind' t) (go r)
                    | (n, None) :: r =>
                        Forall_cons (P := fun p => match snd p with Some t => P t | None => True end)
                          (n, None) I (go r)
                    end) ps)
    | TUnion k ms =>
        HUnion k ms ((fix go (l : list ty) : Forall P l :=
                        match l with [] => Forall_nil _ | x :: r => Forall_cons x (ty_ind' x) (go r) end) ms)
    end.
End TyInd.

(* ------------------------------------------------------------------------------------------ *)
(** * Character facts *)

(** a character that ends a name or a number and is itself modelled *)
Definition sepc (c : cp) : bool :=
  negb (name_cont c) && negb (name_link c) && negb (c =? 96) && (c <? 128).

Definition sep (tail : text) : bool := match tail with [] => true | c :: _ => sepc c end.

Ltac kill_eqb H :=
  repeat match goal with
         | |- context [N.eqb ?a ?b] =>
             destruct (N.eqb_spec a b); [subst; cbv in H; try discriminate H|]
         end.

Lemma name_start_step : forall c nxt, name_start c = true -> start_step c nxt = ([], Some (LName [c])).
Proof.
  intros c nxt H. unfold start_step, is_ws.
  kill_eqb H. cbn [orb].
  assert (Hd : is_digit c = false).
  { unfold name_start, is_alpha in H. unfold is_digit.
    destruct (N.leb_spec 48 c); destruct (N.leb_spec c 57); cbn; try reflexivity.
    exfalso.
    destruct (N.leb_spec 65 c); destruct (N.leb_spec c 90); destruct (N.leb_spec 97 c);
      destruct (N.leb_spec c 122); destruct (N.eqb_spec c 95); cbn in H; try discriminate; lia. }
  rewrite Hd, H. reflexivity.
Qed.

Lemma digit_step : forall c nxt, is_digit c = true -> start_step c nxt = ([], Some (LInt [c])).
Proof.
  intros c nxt H. unfold start_step, is_ws.
  kill_eqb H. cbn [orb]. rewrite H. reflexivity.
Qed.

Lemma digit_name_cont : forall c, is_digit c = true -> name_cont c = true.
Proof. intros c H. unfold name_cont. rewrite H. apply orb_true_r. Qed.

Lemma name_cont_not_link : forall c, name_cont c = true -> name_link c = false.
Proof.
  intros c H. unfold name_link.
  destruct (N.eqb_spec c 46); [subst; discriminate H|].
  destruct (N.eqb_spec c 45); [subst; discriminate H|].
  destruct (N.eqb_spec c 42); [subst; discriminate H|]. reflexivity.
Qed.

Lemma name_cont_ascii : forall c, name_cont c = true -> (c =? 96) || (128 <=? c) = false.
Proof.
  intros c H. unfold name_cont, name_start, is_alpha, is_digit in H.
  destruct (N.eqb_spec c 96); [subst; discriminate H|].
  destruct (N.leb_spec 128 c); [|reflexivity]. exfalso.
  destruct (N.leb_spec 65 c); destruct (N.leb_spec c 90); destruct (N.leb_spec 97 c);
    destruct (N.leb_spec c 122); destruct (N.eqb_spec c 95); destruct (N.leb_spec 48 c);
    destruct (N.leb_spec c 57); cbn in H; try discriminate; lia.
Qed.

Lemma sepc_facts : forall c, sepc c = true ->
  name_cont c = false /\ name_link c = false /\ (c =? 96) || (128 <=? c) = false /\ is_digit c = false.
Proof.
  intros c H. unfold sepc in H.
  destruct (name_cont c) eqn:E1; [discriminate|].
  destruct (name_link c) eqn:E2; [discriminate|].
  destruct (N.eqb_spec c 96); [discriminate|].
  destruct (N.ltb_spec c 128); [|discriminate].
  repeat split; try reflexivity.
  - destruct (N.leb_spec 128 c); [lia|reflexivity].
  - destruct (is_digit c) eqn:E3; [|reflexivity]. apply digit_name_cont in E3. congruence.
Qed.

(* ------------------------------------------------------------------------------------------ *)
(** * One token at a time *)

Lemma lex_go_start : forall c r, lex_go LStart (c :: r) =
  match start_step c (hd_error r) with
  | (out, Some st') => out ++ lex_go st' r
  | (out, None) => out ++ [TkBarrier]
  end.
Proof. reflexivity. Qed.

Lemma lex_punct : forall c tok rest,
  (forall nxt, start_step c nxt = ([tok], Some LStart)) ->
  lex_go LStart (c :: rest) = tok :: lex_go LStart rest.
Proof. intros c tok rest H. rewrite lex_go_start, H. reflexivity. Qed.

Lemma lex_space : forall rest, lex_go LStart (32 :: rest) = lex_go LStart rest.
Proof. intros. rewrite lex_go_start. reflexivity. Qed.

Lemma name_tail_of_cont : forall cs, forallb name_cont cs = true -> name_tail_ok cs = true.
Proof.
  induction cs as [|c r IH]; cbn [forallb name_tail_ok]; [reflexivity|].
  intros H. apply andb_true_iff in H as [H1 H2]. rewrite H1. auto.
Qed.

Lemma lex_name_go : forall cs acc tail,
  name_tail_ok cs = true -> sep tail = true ->
  lex_go (LName acc) (cs ++ tail) = TkName (rev acc ++ cs) :: lex_go LStart tail.
Proof.
  induction cs as [|c r IH]; intros acc tail Hok Hsep.
  - cbn [app]. rewrite app_nil_r. destruct tail as [|c r].
    + reflexivity.
    + cbn [sep] in Hsep. apply sepc_facts in Hsep as (H1 & H2 & H3 & _).
      rewrite lex_go_start. cbn [lex_go step]. rewrite H1, H2, H3.
      destruct (start_step c (hd_error r)) as [out [st'|]]; reflexivity.
  - cbn [name_tail_ok] in Hok. cbn [app lex_go step].
    destruct (name_cont c) eqn:E1.
    + rewrite IH by assumption. cbn [rev]. rewrite <- app_assoc. reflexivity.
    + destruct (N.eqb_spec c 46); [|discriminate]. subst c.
      destruct r as [|c2 r2]; [discriminate|].
      apply andb_true_iff in Hok as [Hc2 Hr].
      replace (name_link 46) with true by reflexivity.
      cbn [app hd_error]. rewrite (name_cont_not_link _ Hc2).
      change (c2 :: r2 ++ tail) with ((c2 :: r2) ++ tail).
      rewrite IH by assumption. cbn [rev]. rewrite <- app_assoc. reflexivity.
Qed.

Lemma lex_name : forall c cs tail,
  name_start c = true -> name_tail_ok cs = true -> sep tail = true ->
  lex_go LStart ((c :: cs) ++ tail) = TkName (c :: cs) :: lex_go LStart tail.
Proof.
  intros c cs tail Hc Hcs Hsep. cbn [app]. rewrite lex_go_start, (name_start_step _ _ Hc).
  cbn [app]. rewrite lex_name_go by assumption. reflexivity.
Qed.

Lemma lex_int_go : forall cs acc tail,
  forallb is_digit cs = true -> sep tail = true ->
  lex_go (LInt acc) (cs ++ tail) = TkInt (rev acc ++ cs) :: lex_go LStart tail.
Proof.
  induction cs as [|c r IH]; intros acc tail Hok Hsep.
  - cbn [app]. rewrite app_nil_r. destruct tail as [|c r].
    + reflexivity.
    + cbn [sep] in Hsep. apply sepc_facts in Hsep as (_ & _ & _ & H4).
      rewrite lex_go_start. cbn [lex_go step]. rewrite H4.
      destruct (start_step c (hd_error r)) as [out [st'|]]; reflexivity.
  - cbn [forallb] in Hok. apply andb_true_iff in Hok as [Hc Hr].
    cbn [app lex_go step]. rewrite Hc. rewrite IH by assumption.
    cbn [rev]. rewrite <- app_assoc. reflexivity.
Qed.

Lemma lex_int : forall c cs tail,
  is_digit c = true -> forallb is_digit cs = true -> sep tail = true ->
  lex_go LStart ((c :: cs) ++ tail) = TkInt (c :: cs) :: lex_go LStart tail.
Proof.
  intros c cs tail Hc Hcs Hsep. cbn [app]. rewrite lex_go_start, (digit_step _ _ Hc).
  cbn [app]. rewrite lex_int_go by assumption. reflexivity.
Qed.

Lemma lex_minus : forall c rest, is_digit c = true ->
  lex_go LStart (45 :: c :: rest) = TkMinus :: lex_go LStart (c :: rest).
Proof.
  intros c rest H. rewrite lex_go_start. cbn [hd_error].
  assert (E : start_step 45 (Some c) = ([TkMinus], Some LStart)).
  { unfold start_step. cbn.
    destruct (N.eqb_spec c 45); [subst; discriminate H|]. reflexivity. }
  rewrite E. reflexivity.
Qed.

(* ------------------------------------------------------------------------------------------ *)
(** * String literals *)

Definition inertc (c : cp) : bool := negb (c =? 34) && negb (c =? 92).

Lemma lex_str_inert : forall zs acc rest, forallb inertc zs = true ->
  lex_go (LStr 34 acc) (zs ++ rest) = lex_go (LStr 34 (rev zs ++ acc)) rest.
Proof.
  induction zs as [|z zs IH]; intros acc rest H; [reflexivity|].
  cbn [forallb] in H. apply andb_true_iff in H as [Hz Hzs].
  unfold inertc in Hz. apply andb_true_iff in Hz as [Hz1 Hz2].
  apply negb_true_iff in Hz1, Hz2.
  cbn [app lex_go step]. rewrite Hz1, Hz2. cbn [app].
  rewrite IH by assumption. cbn [rev]. rewrite <- app_assoc. reflexivity.
Qed.

Definition chunk_ok (ch : text) : bool :=
  match ch with
  | [] => false
  | x :: r => if x =? 92 then match r with _ :: zs => forallb inertc zs | [] => false end
              else inertc x && match r with [] => true | _ => false end
  end.

Lemma lex_chunk : forall ch acc rest, chunk_ok ch = true ->
  lex_go (LStr 34 acc) (ch ++ rest) = lex_go (LStr 34 (rev ch ++ acc)) rest.
Proof.
  intros ch acc rest H. destruct ch as [|x r]; [discriminate|]. cbn [chunk_ok] in H.
  destruct (N.eqb_spec x 92).
  - subst x. destruct r as [|y zs]; [discriminate|].
    cbn [app].
    change (lex_go (LStr 34 acc) (92 :: y :: zs ++ rest))
      with (lex_go (LStr 34 (y :: 92 :: acc)) (zs ++ rest)).
    rewrite lex_str_inert by assumption. cbn [rev]. rewrite <- !app_assoc. reflexivity.
  - apply andb_true_iff in H as [Hx Hr]. destruct r; [|discriminate].
    apply (lex_str_inert [x]). cbn. rewrite Hx. reflexivity.
Qed.

Lemma hex_digit_inert : forall d, d < 16 -> inertc (hex_digit_char d) = true.
Proof.
  intros d H. unfold inertc, hex_digit_char.
  destruct (N.ltb_spec d 10).
  - destruct (N.eqb_spec (48 + d) 34); [lia|]. destruct (N.eqb_spec (48 + d) 92); [lia|]. reflexivity.
  - destruct (N.eqb_spec (55 + d) 34); [lia|]. destruct (N.eqb_spec (55 + d) 92); [lia|]. reflexivity.
Qed.

Lemma control_lt : forall c, is_control c = true -> c < 160.
Proof.
  intros c H. unfold is_control in H.
  destruct (N.ltb_spec c 32); [lia|]. destruct (N.leb_spec 127 c); destruct (N.ltb_spec c 160);
    cbn in H; try discriminate; lia.
Qed.

Lemma esc_char_chunk : forall c nxt, chunk_ok (esc_char c nxt) = true.
Proof.
  intros c nxt. unfold esc_char.
  destruct (N.eqb_spec c 92); [reflexivity|].
  destruct (N.eqb_spec c 34); [reflexivity|].
  destruct (N.eqb_spec c 10); [reflexivity|].
  destruct (N.eqb_spec c 13); [reflexivity|].
  destruct (N.eqb_spec c 9); [reflexivity|].
  destruct (N.eqb_spec c 27).
  { destruct nxt as [d|]; [destruct (is_digit d)|]; reflexivity. }
  destruct (is_control c) eqn:Ec.
  - apply control_lt in Ec. cbn [chunk_ok]. replace (92 =? 92) with true by reflexivity.
    cbn [forallb]. rewrite !hex_digit_inert; [reflexivity| |].
    + apply N.mod_lt. lia.
    + apply N.div_lt_upper_bound; lia.
  - cbn [chunk_ok]. destruct (N.eqb_spec c 92); [contradiction|].
    unfold inertc. destruct (N.eqb_spec c 34); [contradiction|].
    destruct (N.eqb_spec c 92); [contradiction|]. reflexivity.
Qed.

Lemma lex_str_go : forall s acc tail,
  lex_go (LStr 34 acc) (escape s ++ 34 :: tail)
  = TkString (34 :: rev acc ++ escape s ++ [34]) :: lex_go LStart tail.
Proof.
  induction s as [|c r IH]; intros acc tail.
  - cbn [escape app].
    change (lex_go (LStr 34 acc) (34 :: tail))
      with (TkString (34 :: rev (34 :: acc)) :: lex_go LStart tail).
    reflexivity.
  - cbn [escape]. rewrite <- app_assoc.
    rewrite lex_chunk by apply esc_char_chunk.
    rewrite IH. rewrite rev_app_distr, rev_involutive. rewrite <- !app_assoc. reflexivity.
Qed.

Lemma lex_quoted : forall s tail,
  lex_go LStart (quoted s ++ tail) = TkString (quoted s) :: lex_go LStart tail.
Proof.
  intros s tail. unfold quoted. cbn [app]. rewrite lex_go_start.
  replace (start_step 34 (hd_error ((escape s ++ [34]) ++ tail))) with (@nil token, Some (LStr 34 []))
    by reflexivity.
  cbn [app]. rewrite <- app_assoc. cbn [app].
  rewrite lex_str_go. reflexivity.
Qed.

(* ------------------------------------------------------------------------------------------ *)
(** * Decimal digits *)

Lemma digit_char_digit : forall d, d < 10 -> is_digit (digit_char d) = true.
Proof.
  intros d H. unfold is_digit, digit_char.
  destruct (N.leb_spec 48 (48 + d)); [|lia]. destruct (N.leb_spec (48 + d) 57); [reflexivity|lia].
Qed.

Lemma dec_aux_digits : forall fuel n acc,
  forallb is_digit acc = true -> forallb is_digit (dec_aux fuel n acc) = true.
Proof.
  induction fuel as [|f IH]; intros n acc H; cbn [dec_aux]; [assumption|].
  destruct (N.ltb_spec n 10).
  - cbn [forallb]. rewrite digit_char_digit by assumption. assumption.
  - apply IH. cbn [forallb]. rewrite digit_char_digit; [assumption|]. apply N.mod_lt. lia.
Qed.

Lemma dec_aux_nonempty : forall fuel n acc, (fuel <> 0)%nat -> dec_aux fuel n acc <> [].
Proof.
  induction fuel as [|f IH]; intros n acc H; [contradiction|]. cbn [dec_aux].
  destruct (n <? 10); [discriminate|].
  destruct f as [|f'].
  - cbn [dec_aux]. discriminate.
  - apply IH. discriminate.
Qed.

Lemma dec_of_N_shape : forall n, exists c cs,
  dec_of_N n = c :: cs /\ is_digit c = true /\ forallb is_digit cs = true.
Proof.
  intros n. unfold dec_of_N.
  pose proof (dec_aux_digits (S (N.to_nat (N.size n))) n [] eq_refl) as H.
  destruct (dec_aux (S (N.to_nat (N.size n))) n []) as [|c cs] eqn:E.
  - exfalso. eapply dec_aux_nonempty; [|exact E]. discriminate.
  - cbn [forallb] in H. apply andb_true_iff in H as [H1 H2]. eauto.
Qed.

Lemma lex_dec : forall n tail, sep tail = true ->
  lex_go LStart (dec_of_N n ++ tail) = TkInt (dec_of_N n) :: lex_go LStart tail.
Proof.
  intros n tail H. destruct (dec_of_N_shape n) as (c & cs & E & Hc & Hcs). rewrite E.
  apply lex_int; assumption.
Qed.

Lemma lex_show_Z_nonneg : forall z tail, (0 <= z)%Z -> sep tail = true ->
  lex_go LStart (show_Z z ++ tail) = TkInt (show_Z z) :: lex_go LStart tail.
Proof.
  intros z tail Hz H. destruct z as [|p|p]; [|apply lex_dec; assumption|lia].
  apply (lex_int 48 []); [reflexivity|reflexivity|assumption].
Qed.

(* ------------------------------------------------------------------------------------------ *)
(** * Lists joined by a separator *)

Lemma lex_join : forall (A : Type) (f : A -> text) (g : A -> list token) (st : text) (sk : list token) xs tail,
  (forall rest, lex_go LStart (st ++ rest) = sk ++ lex_go LStart rest) ->
  (forall rest, sep (st ++ rest) = true) ->
  Forall (fun x => forall tail', sep tail' = true ->
                   lex_go LStart (f x ++ tail') = g x ++ lex_go LStart tail') xs ->
  sep tail = true ->
  lex_go LStart (join st (map f xs) ++ tail) = sep_by sk (map g xs) ++ lex_go LStart tail.
Proof.
  intros A f g st sk xs tail Hst Hsep HF Htail.
  induction HF as [|x r Hx Hr IH]; [reflexivity|].
  destruct r as [|y r'].
  - cbn [map join sep_by]. apply Hx. assumption.
  - change (join st (map f (x :: y :: r'))) with (f x ++ st ++ join st (map f (y :: r'))).
    change (sep_by sk (map g (x :: y :: r'))) with (g x ++ sk ++ sep_by sk (map g (y :: r'))).
    rewrite <- !app_assoc. rewrite Hx by apply Hsep. rewrite Hst, IH. reflexivity.
Qed.

(* ------------------------------------------------------------------------------------------ *)
(** * Shapes of the rendering of a [small] type *)

Lemma write_type_eq : forall lvl depth t,
  write_type lvl depth t =
  if (DEFAULT_MAX_DEPTH <=? depth)%nat then T"..." else
  let child := write_type (next_level lvl) (S depth) in
  match t with
  | TPrim p => prim_name p
  | TStr s => quoted s
  | TInt z => show_Z z
  | TBool b => if b then T"true" else T"false"
  | TRef n => n
  | TTableConst => T"table"
  | TArray b =>
      let inner := child b in
      (if array_base_needs_parens b then T"(" ++ inner ++ T")" else inner) ++ T"[]"
  | TTableGeneric ps =>
      if level_eqb lvl Minimal then T"table<...>" else
      T"table<" ++ join T"," (firstn (max_items lvl) (map child ps))
      ++ (if (max_items lvl <? List.length ps)%nat then T", ..." else []) ++ T">"
  | TObject fs =>
      if level_eqb lvl Minimal then T"{...}" else
      T"{ " ++ join T", " (map (fun f : key * text => render_key (fst f) ++ snd f)
                              (firstn (max_items lvl)
                                 (sort_fields (map (fun f : key * ty => (fst f, child (snd f))) fs))))
      ++ (if (max_items lvl <? List.length fs)%nat then T", ..." else []) ++ T" }"
  | TFun ps =>
      if level_eqb lvl Minimal then T"fun(...) -> ..." else
      T"fun(" ++ join T", " (map (fun p => fst p ++ match snd p with
                                                   | Some pt => T": " ++ child pt
                                                   | None => []
                                                   end) ps) ++ T")"
  | TUnion _ ms =>
      let has_nil := existsb is_nil ms in
      let nn := filter (fun m => negb (is_nil m)) ms in
      let has_function := existsb is_function nn in
      let keys := dedup_text [] (map child nn) in
      let total := List.length keys in
      let num := max_union_items lvl in
      let needs_parens := (1 <? total)%nat || ((total =? 1)%nat && has_function && has_nil) in
      (if needs_parens then T"(" else [])
      ++ join T"|" (firstn num keys)
      ++ (if (num <? total)%nat then T"..." else [])
      ++ (if needs_parens then T")" else [])
      ++ (if has_nil then T"?" else [])
  end.
Proof.
  intros lvl depth t. destruct t; try reflexivity.
  cbn [write_type]. destruct (DEFAULT_MAX_DEPTH <=? depth)%nat; [reflexivity|].
  cbv zeta.
  assert (E : forall l,
            (fix go (l : list ty) : list text :=
               match l with
               | [] => []
               | m :: r => if is_nil m then go r else write_type (next_level lvl) (S depth) m :: go r
               end) l
            = map (write_type (next_level lvl) (S depth)) (filter (fun m => negb (is_nil m)) l)).
  { induction l as [|m r IH]; [reflexivity|]. cbn [filter]. destruct (is_nil m); cbn [negb map]; rewrite IH; reflexivity. }
  rewrite E. reflexivity.
Qed.

Lemma small_eq : forall lvl depth t,
  small lvl depth t =
  (depth <? DEFAULT_MAX_DEPTH)%nat &&
  let sub := small (next_level lvl) (S depth) in
  match t with
  | TPrim _ | TStr _ | TBool _ => true
  | TInt z => int_ok z
  | TRef n => ref_name_ok n
  | TTableConst => false
  | TArray b => sub b
  | TTableGeneric ps =>
      negb (is_minimal lvl) && (1 <=? List.length ps)%nat && (List.length ps <=? max_items lvl)%nat
      && forallb sub ps
  | TObject fs =>
      negb (is_minimal lvl) && (List.length fs <=? max_items lvl)%nat
      && forallb key_ok (map fst fs) && keys_sorted (map fst fs)
      && forallb (fun f : key * ty => sub (snd f)) fs
  | TFun ps =>
      negb (is_minimal lvl)
      && forallb (fun p : text * option ty =>
                    param_name_ok (fst p) && match snd p with Some pt => sub pt | None => true end) ps
  | TUnion _ ms =>
      (2 <=? List.length ms)%nat
      && (1 <=? List.length (non_nil ms))%nat
      && (List.length (non_nil ms) <=? max_union_items lvl)%nat
      && forallb (fun m => negb (is_union m)) ms
      && nodup_text (map (write_type (next_level lvl) (S depth)) (non_nil ms))
      && forallb sub ms
  end.
Proof. intros lvl depth t. destruct t; reflexivity. Qed.

Lemma small_depth : forall lvl depth t, small lvl depth t = true ->
  (DEFAULT_MAX_DEPTH <=? depth)%nat = false.
Proof.
  intros lvl depth t H. rewrite small_eq in H. apply andb_true_iff in H as [H _].
  apply Nat.ltb_lt in H. apply Nat.leb_gt. exact H.
Qed.

Lemma dedup_text_nodup : forall l seen,
  nodup_text l = true -> (forall x, In x l -> mem_text x seen = false) -> dedup_text seen l = l.
Proof.
  induction l as [|x r IH]; intros seen Hnd Hseen; [reflexivity|].
  cbn [nodup_text] in Hnd. apply andb_true_iff in Hnd as [Hx Hr]. apply negb_true_iff in Hx.
  cbn [dedup_text]. rewrite (Hseen x (or_introl eq_refl)). f_equal.
  apply IH; [assumption|]. intros y Hy.
  change (mem_text y (x :: seen)) with (text_eqb y x || mem_text y seen).
  rewrite (Hseen y (or_intror Hy)), orb_false_r.
  destruct (text_eqb y x) eqn:E; [|reflexivity].
  assert (mem_text x r = true); [|congruence].
  unfold mem_text. apply existsb_exists. exists y. split; [assumption|].
  clear -E. revert x E. induction y as [|a y IHy]; intros [|b x] E; cbn in *; try discriminate; [reflexivity|].
  apply andb_true_iff in E as [E1 E2]. apply N.eqb_eq in E1. subst. rewrite N.eqb_refl. cbn. apply IHy. exact E2.
Qed.

Lemma insert_field_sorted : forall (A : Type) (k : key) (v : A) (l : list (key * A)),
  match l with [] => True | g :: _ => key_ltb k (fst g) = true end ->
  insert_field (k, v) l = (k, v) :: l.
Proof. intros A k v [|g r] H; [reflexivity|]. cbn [insert_field fst]. rewrite H. reflexivity. Qed.

Lemma sort_fields_sorted : forall (A : Type) (l : list (key * A)),
  keys_sorted (map fst l) = true -> sort_fields l = l.
Proof.
  induction l as [|[k v] r IH]; intros H; [reflexivity|].
  cbn [map keys_sorted fst] in H. apply andb_true_iff in H as [H1 H2].
  unfold sort_fields in *. cbn [fold_right]. rewrite IH by assumption.
  apply insert_field_sorted. destruct r as [|g r']; [exact I|]. exact H1.
Qed.

(* ------------------------------------------------------------------------------------------ *)
(** * Punctuation *)

Lemma lx_lparen : forall rest, lex_go LStart (40 :: rest) = TkLParen :: lex_go LStart rest.
Proof. intros. apply lex_punct; reflexivity. Qed.
Lemma lx_rparen : forall rest, lex_go LStart (41 :: rest) = TkRParen :: lex_go LStart rest.
Proof. intros. apply lex_punct; reflexivity. Qed.
Lemma lx_lbracket : forall rest, lex_go LStart (91 :: rest) = TkLBracket :: lex_go LStart rest.
Proof. intros. apply lex_punct; reflexivity. Qed.
Lemma lx_rbracket : forall rest, lex_go LStart (93 :: rest) = TkRBracket :: lex_go LStart rest.
Proof. intros. apply lex_punct; reflexivity. Qed.
Lemma lx_lbrace : forall rest, lex_go LStart (123 :: rest) = TkLBrace :: lex_go LStart rest.
Proof. intros. apply lex_punct; reflexivity. Qed.
Lemma lx_rbrace : forall rest, lex_go LStart (125 :: rest) = TkRBrace :: lex_go LStart rest.
Proof. intros. apply lex_punct; reflexivity. Qed.
Lemma lx_lt : forall rest, lex_go LStart (60 :: rest) = TkLt :: lex_go LStart rest.
Proof. intros. apply lex_punct; reflexivity. Qed.
Lemma lx_gt : forall rest, lex_go LStart (62 :: rest) = TkGt :: lex_go LStart rest.
Proof. intros. apply lex_punct; reflexivity. Qed.
Lemma lx_or : forall rest, lex_go LStart (124 :: rest) = TkOr :: lex_go LStart rest.
Proof. intros. apply lex_punct; reflexivity. Qed.
Lemma lx_question : forall rest, lex_go LStart (63 :: rest) = TkQuestion :: lex_go LStart rest.
Proof. intros. apply lex_punct; reflexivity. Qed.
Lemma lx_comma : forall rest, lex_go LStart (44 :: rest) = TkComma :: lex_go LStart rest.
Proof. intros. apply lex_punct; reflexivity. Qed.
Lemma lx_colon : forall rest, lex_go LStart (58 :: rest) = TkColon :: lex_go LStart rest.
Proof. intros. apply lex_punct; reflexivity. Qed.

Lemma lex_ident : forall n tail,
  match n with c :: r => name_start c && name_tail_ok r | [] => false end = true ->
  sep tail = true ->
  lex_go LStart (n ++ tail) = TkName n :: lex_go LStart tail.
Proof.
  intros [|c r] tail H Hsep; [discriminate|]. apply andb_true_iff in H as [H1 H2].
  apply lex_name; assumption.
Qed.

Lemma go_texts_eq : forall (f : ty -> text) l,
  (fix go (l : list ty) : list text :=
     match l with [] => [] | m :: r => if is_nil m then go r else f m :: go r end) l
  = map f (non_nil l).
Proof.
  intros f l. unfold non_nil. induction l as [|m r IH]; [reflexivity|].
  cbn [filter]. destruct (is_nil m); cbn [negb map]; rewrite IH; reflexivity.
Qed.

Lemma go_toks_eq : forall (f : ty -> list token) l,
  (fix go (l : list ty) : list (list token) :=
     match l with [] => [] | m :: r => if is_nil m then go r else f m :: go r end) l
  = map f (non_nil l).
Proof.
  intros f l. unfold non_nil. induction l as [|m r IH]; [reflexivity|].
  cbn [filter]. destruct (is_nil m); cbn [negb map]; rewrite IH; reflexivity.
Qed.

Lemma ptoks_union : forall k ms,
  ptoks (TUnion k ms) =
  (if union_parens (non_nil ms) (existsb is_nil ms)
   then TkLParen :: sep_by [TkOr] (map ptoks (non_nil ms)) ++ [TkRParen]
   else sep_by [TkOr] (map ptoks (non_nil ms)))
  ++ (if existsb is_nil ms then [TkQuestion] else []).
Proof. intros. cbn [ptoks]. rewrite go_toks_eq. reflexivity. Qed.

Lemma forallb_Forall_in : forall (A : Type) (p : A -> bool) l, forallb p l = true -> forall x, In x l -> p x = true.
Proof. intros A p l H. apply forallb_forall. exact H. Qed.

(* ------------------------------------------------------------------------------------------ *)
(** * The lexer reads a rendered [small] type back as [ptoks] *)

Lemma firstn_all_le : forall (A : Type) (l : list A) n, (List.length l <= n)%nat -> firstn n l = l.
Proof. intros. apply firstn_all2. assumption. Qed.

Lemma lex_render_key : forall k tail, key_ok k = true ->
  lex_go LStart (render_key k ++ tail) = key_toks k ++ TkColon :: lex_go LStart tail.
Proof.
  intros [z|s] tail Hk; unfold render_key, key_toks.
  - cbn [key_ok] in Hk. apply andb_true_iff in Hk as [Hz _]. apply Z.leb_le in Hz.
    cbn [app]. rewrite lx_lbracket. rewrite <- app_assoc.
    rewrite lex_show_Z_nonneg by (try assumption; reflexivity).
    cbn [app]. rewrite lx_rbracket, lx_colon, lex_space. reflexivity.
  - destruct (is_plain_field_name s) eqn:E.
    + rewrite <- app_assoc. rewrite lex_ident.
      * cbn [app]. rewrite lx_colon, lex_space. reflexivity.
      * unfold is_plain_field_name in E. destruct s as [|c r]; [discriminate|].
        apply andb_true_iff in E as [E _]. apply andb_true_iff in E as [E1 E2].
        rewrite E1. cbn [andb]. apply name_tail_of_cont. exact E2.
      * reflexivity.
    + cbn [app]. rewrite lx_lbracket. rewrite <- !app_assoc. rewrite lex_quoted.
      cbn [app]. rewrite lx_rbracket, lx_colon, lex_space. reflexivity.
Qed.

Lemma lex_write : forall t lvl d tail,
  small lvl d t = true -> sep tail = true ->
  lex_go LStart (write_type lvl d t ++ tail) = ptoks t ++ lex_go LStart tail.
Proof.
  induction t using ty_ind'; intros lvl d tail Hs Hsep;
    rewrite write_type_eq, (small_depth _ _ _ Hs); cbv zeta;
    rewrite small_eq in Hs; apply andb_true_iff in Hs as [_ Hs]; cbv zeta in Hs.
  - (* TPrim *) destruct p; apply (lex_ident _ tail); try reflexivity; assumption.
  - (* TStr *) apply lex_quoted.
  - (* TInt *)
    destruct z as [|p|p].
    + apply (lex_show_Z_nonneg 0%Z); [reflexivity|assumption].
    + apply (lex_show_Z_nonneg (Zpos p)); [apply Pos2Z.is_nonneg|assumption].
    + cbn [show_Z ptoks app].
      destruct (dec_of_N_shape (Npos p)) as (c & cs & E & Hc & Hcs).
      rewrite E. cbn [app]. rewrite lex_minus by assumption.
      change (c :: cs ++ tail) with ((c :: cs) ++ tail). rewrite lex_int by assumption. reflexivity.
  - (* TBool *) destruct b; apply (lex_ident _ tail); try reflexivity; assumption.
  - (* TRef *)
    apply lex_ident; [|assumption]. unfold ref_name_ok in Hs.
    apply andb_true_iff in Hs as [Hs _]. apply andb_true_iff in Hs as [Hs _].
    apply andb_true_iff in Hs as [Hs _]. exact Hs.
  - (* TTableConst *) discriminate.
  - (* TArray *)
    cbn [ptoks]. destruct (array_base_needs_parens t).
    + cbn [app]. rewrite lx_lparen. rewrite <- !app_assoc. rewrite IHt by (try assumption; reflexivity).
      cbn [app]. rewrite lx_rparen, lx_lbracket, lx_rbracket. rewrite <- ?app_assoc; reflexivity.
    + rewrite <- !app_assoc. rewrite IHt by (try assumption; reflexivity).
      cbn [app]. rewrite lx_lbracket, lx_rbracket. reflexivity.
  - (* TTableGeneric *)
    apply andb_true_iff in Hs as [Hs Hall]. apply andb_true_iff in Hs as [Hs Hlen].
    apply andb_true_iff in Hs as [Hmin _]. unfold is_minimal in Hmin. apply negb_true_iff in Hmin.
    rewrite Hmin. apply Nat.leb_le in Hlen.
    rewrite firstn_all_le by (rewrite map_length; exact Hlen).
    replace (max_items lvl <? List.length ps)%nat with false by (symmetry; apply Nat.ltb_ge; exact Hlen).
    cbn [ptoks].
    change (lex_go LStart (([116; 97; 98; 108; 101] ++ 60 :: join [44] (map (write_type (next_level lvl) (S d)) ps)
                                                         ++ [] ++ [62]) ++ tail)
            = (TkName [116; 97; 98; 108; 101] :: TkLt :: sep_by [TkComma] (map ptoks ps) ++ [TkGt]) ++ lex_go LStart tail).
    rewrite <- !app_assoc. rewrite lex_ident by reflexivity. cbn [app]. rewrite lx_lt.
    rewrite <- ?app_assoc.
    rewrite (lex_join _ (write_type (next_level lvl) (S d)) ptoks [44] [TkComma]).
    + cbn [app]. rewrite lx_gt. rewrite <- ?app_assoc; reflexivity.
    + intros rest. apply lx_comma.
    + intros rest. reflexivity.
    + rewrite Forall_forall in H |- *. intros x Hx tail' Ht'. apply H; [exact Hx| |exact Ht'].
      apply (forallb_Forall_in _ _ _ Hall x Hx).
    + reflexivity.
  - (* TObject *)
    apply andb_true_iff in Hs as [Hs Hall]. apply andb_true_iff in Hs as [Hs Hsorted].
    apply andb_true_iff in Hs as [Hs Hkeys]. apply andb_true_iff in Hs as [Hmin Hlen].
    unfold is_minimal in Hmin. apply negb_true_iff in Hmin. rewrite Hmin. apply Nat.leb_le in Hlen.
    rewrite sort_fields_sorted by (rewrite map_map; exact Hsorted).
    rewrite firstn_all_le by (rewrite map_length; exact Hlen).
    replace (max_items lvl <? List.length fs)%nat with false by (symmetry; apply Nat.ltb_ge; exact Hlen).
    rewrite map_map. cbn [ptoks fst snd].
    change (lex_go LStart (([123; 32] ++ join [44; 32]
              (map (fun x : key * ty => render_key (fst x) ++ write_type (next_level lvl) (S d) (snd x)) fs)
              ++ [] ++ [32; 125]) ++ tail)
            = (TkLBrace :: sep_by [TkComma]
                 (map (fun f : key * ty => key_toks (fst f) ++ TkColon :: ptoks (snd f)) fs) ++ [TkRBrace])
              ++ lex_go LStart tail).
    rewrite <- !app_assoc. cbn [app]. rewrite lx_lbrace, lex_space.
    rewrite <- ?app_assoc.
    rewrite (lex_join _ (fun x : key * ty => render_key (fst x) ++ write_type (next_level lvl) (S d) (snd x))
               (fun f : key * ty => key_toks (fst f) ++ TkColon :: ptoks (snd f)) [44; 32] [TkComma]).
    + cbn [app]. rewrite lex_space, lx_rbrace. rewrite <- ?app_assoc; reflexivity.
    + intros rest. cbn [app]. rewrite lx_comma, lex_space. reflexivity.
    + intros rest. reflexivity.
    + rewrite Forall_forall in H |- *. intros x Hx tail' Ht'.
      rewrite <- app_assoc. rewrite lex_render_key.
      * rewrite H; [rewrite <- app_assoc; reflexivity|exact Hx| |exact Ht'].
        apply (forallb_Forall_in _ _ _ Hall x Hx).
      * apply (forallb_Forall_in _ _ _ Hkeys). apply in_map. exact Hx.
    + reflexivity.
  - (* TFun *)
    apply andb_true_iff in Hs as [Hmin Hall].
    unfold is_minimal in Hmin. apply negb_true_iff in Hmin. rewrite Hmin.
    cbn [ptoks].
    change (lex_go LStart (([102; 117; 110] ++ 40 :: join [44; 32]
              (map (fun p : text * option ty => fst p ++ match snd p with
                                                        | Some pt => [58; 32] ++ write_type (next_level lvl) (S d) pt
                                                        | None => []
                                                        end) ps) ++ [41]) ++ tail)
            = (TkName [102; 117; 110] :: TkLParen
               :: sep_by [TkComma] (map (fun p : text * option ty =>
                                           TkName (fst p) :: match snd p with
                                                             | Some pt => TkColon :: ptoks pt
                                                             | None => []
                                                             end) ps) ++ [TkRParen])
              ++ lex_go LStart tail).
    rewrite <- !app_assoc. rewrite lex_ident by reflexivity. cbn [app]. rewrite lx_lparen.
    rewrite <- ?app_assoc.
    rewrite (lex_join _ (fun p : text * option ty => fst p ++ match snd p with
                                                             | Some pt => [58; 32] ++ write_type (next_level lvl) (S d) pt
                                                             | None => []
                                                             end)
               (fun p : text * option ty => TkName (fst p) :: match snd p with
                                                              | Some pt => TkColon :: ptoks pt
                                                              | None => []
                                                              end) [44; 32] [TkComma]).
    + cbn [app]. rewrite lx_rparen. rewrite <- ?app_assoc; reflexivity.
    + intros rest. cbn [app]. rewrite lx_comma, lex_space. reflexivity.
    + intros rest. reflexivity.
    + rewrite Forall_forall in H |- *. intros [n ot] Hx tail' Ht'.
      pose proof (forallb_Forall_in _ _ _ Hall _ Hx) as Hp. cbn [fst snd] in Hp |- *.
      apply andb_true_iff in Hp as [Hn Hot].
      assert (Hid : match n with c :: r => name_start c && name_tail_ok r | [] => false end = true).
      { unfold param_name_ok in Hn. apply andb_true_iff in Hn as [Hn _]. destruct n as [|c r]; [discriminate|].
        apply andb_true_iff in Hn as [Hn1 Hn2]. rewrite Hn1. cbn [andb]. apply name_tail_of_cont. exact Hn2. }
      destruct ot as [pt|].
      * rewrite <- app_assoc. rewrite lex_ident by (try exact Hid; reflexivity).
        cbn [app]. rewrite lx_colon, lex_space.
        specialize (H _ Hx). cbn [snd] in H. rewrite H by assumption. reflexivity.
      * rewrite app_nil_r. rewrite lex_ident by assumption. reflexivity.
    + reflexivity.
  - (* TUnion *)
    apply andb_true_iff in Hs as [Hs Hall]. apply andb_true_iff in Hs as [Hs Hnd].
    apply andb_true_iff in Hs as [Hs Hnu]. apply andb_true_iff in Hs as [Hne Hlen].
    apply andb_true_iff in Hne as [_ Hne].
    apply Nat.leb_le in Hlen. apply Nat.leb_le in Hne.
    fold (non_nil ms).
    rewrite dedup_text_nodup by (try exact Hnd; intros; reflexivity).
    rewrite map_length.
    rewrite firstn_all_le by (rewrite map_length; exact Hlen).
    replace (max_union_items lvl <? List.length (non_nil ms))%nat with false
      by (symmetry; apply Nat.ltb_ge; exact Hlen).
    rewrite ptoks_union. unfold union_parens.
    set (par := (1 <? List.length (non_nil ms))%nat
                || (List.length (non_nil ms) =? 1)%nat && existsb is_function (non_nil ms) && existsb is_nil ms).
    assert (Hmem : lex_go LStart (join [124] (map (write_type (next_level lvl) (S d)) (non_nil ms))
                                  ++ (if par then [41] else []) ++ (if existsb is_nil ms then [63] else []) ++ tail)
                   = sep_by [TkOr] (map ptoks (non_nil ms))
                     ++ lex_go LStart ((if par then [41] else []) ++ (if existsb is_nil ms then [63] else []) ++ tail)).
    { apply (lex_join _ (write_type (next_level lvl) (S d)) ptoks [124] [TkOr]).
      - intros rest. apply lx_or.
      - intros rest. reflexivity.
      - rewrite Forall_forall in H |- *. intros x Hx tail' Ht'.
        unfold non_nil in Hx. apply filter_In in Hx as [Hx _]. apply H; [exact Hx| |exact Ht'].
        apply (forallb_Forall_in _ _ _ Hall x Hx).
      - destruct par; [reflexivity|]. destruct (existsb is_nil ms); [reflexivity|exact Hsep]. }
    destruct par.
    + change (lex_go LStart (([40] ++ join [124] (map (write_type (next_level lvl) (S d)) (non_nil ms))
                               ++ [] ++ [41] ++ (if existsb is_nil ms then [63] else [])) ++ tail)
              = ((TkLParen :: sep_by [TkOr] (map ptoks (non_nil ms)) ++ [TkRParen])
                 ++ (if existsb is_nil ms then [TkQuestion] else [])) ++ lex_go LStart tail).
      rewrite <- !app_assoc. cbn [app]. rewrite lx_lparen.
      cbn [app] in Hmem. rewrite Hmem. rewrite lx_rparen.
      destruct (existsb is_nil ms); cbn [app]; [rewrite lx_question|]; rewrite <- !app_assoc; reflexivity.
    + change (lex_go LStart (([] ++ join [124] (map (write_type (next_level lvl) (S d)) (non_nil ms))
                               ++ [] ++ [] ++ (if existsb is_nil ms then [63] else [])) ++ tail)
              = (sep_by [TkOr] (map ptoks (non_nil ms))
                 ++ (if existsb is_nil ms then [TkQuestion] else [])) ++ lex_go LStart tail).
      rewrite <- !app_assoc. cbn [app]. cbn [app] in Hmem. rewrite Hmem.
      destruct (existsb is_nil ms); cbn [app]; [rewrite lx_question|]; rewrite <- ?app_assoc; reflexivity.
Qed.

(** top level: the whole rendering *)
Theorem lex_render : forall t, small Documentation 0 t = true -> lex (render t) = ptoks t.
Proof.
  intros t H. unfold lex, render.
  rewrite <- (app_nil_r (write_type Documentation 0 t)).
  rewrite lex_write by (try assumption; reflexivity). apply app_nil_r.
Qed.
