(** C17/Model.v — executable transcription of
      * the type humanizer [TypeHumanizer] at [RenderLevel::Documentation]
        (crates/emmylua_code_analysis/src/db_index/type/humanize_type.rs),
      * the doc lexer in its Normal/Mapped states (crates/emmylua_parser/src/lexer/lua_doc_lexer.rs),
      * the doc-type grammar (crates/emmylua_parser/src/grammar/doc/types.rs),
      * [infer_type] of doc types (compilation/analyzer/doc/infer_type.rs) with [LuaType::from_vec],
        [LuaUnionType::from_vec], [union_type] (db_index/type/type_ops/union_type.rs)
    for the sub-grammar: primitives, string / integer / boolean literals, class / alias / enum references,
    arrays, [table<..>], record tables, [fun(..)] types without return, unions and optionals.
    Everything the sub-grammar does not cover makes the model answer [None] ("outside the model"), never a guess.
    Definitions only; operator priorities and render-level tables come from the generated [Gen.C17_Ops]. *)
From EV Require Export Base.Text.
From Coq Require Export ZArith.
From Coq Require Import Ascii String.
From EV Require Export Gen.C17_Ops.
Local Open Scope N_scope.

(* ------------------------------------------------------------------------------------------ *)
(** * Texts from string literals *)

Fixpoint text_of_string (s : string) : text :=
  match s with
  | EmptyString => []
  | String a r => N_of_ascii a :: text_of_string r
  end.

(** [T"abc"] is the literal list of code points (evaluated when the term is read) *)
Notation "'T' s" := (ltac:(let v := eval vm_compute in (text_of_string s%string) in exact v))
  (at level 0, s at level 0, only parsing).

Fixpoint text_eqb (a b : text) : bool :=
  match a, b with
  | [], [] => true
  | x :: a', y :: b' => (x =? y) && text_eqb a' b'
  | _, _ => false
  end.

(** lexicographic order on code points (= byte order of the UTF-8 strings, [SmolStr::cmp]) *)
Fixpoint text_ltb (a b : text) : bool :=
  match a, b with
  | [], [] => false
  | [], _ :: _ => true
  | _ :: _, [] => false
  | x :: a', y :: b' => if x <? y then true else if y <? x then false else text_ltb a' b'
  end.

Definition mem_text (s : text) (l : list text) : bool := existsb (text_eqb s) l.

(* ------------------------------------------------------------------------------------------ *)
(** * Types (the modelled part of [LuaType]) *)

(** [BasicTypeKind], in discriminant order *)
Inductive prim : Set :=
| PUnknown | PAny | PNil | PTable | PUserdata | PFunction | PThread | PBoolean
| PString | PInteger | PNumber | PIo | PSelf | PGlobal | PNever.

Definition prim_idx (p : prim) : N :=
  match p with
  | PUnknown => 0 | PAny => 1 | PNil => 2 | PTable => 3 | PUserdata => 4 | PFunction => 5
  | PThread => 6 | PBoolean => 7 | PString => 8 | PInteger => 9 | PNumber => 10 | PIo => 11
  | PSelf => 12 | PGlobal => 13 | PNever => 14
  end.

Definition all_prims : list prim :=
  [PUnknown; PAny; PNil; PTable; PUserdata; PFunction; PThread; PBoolean; PString; PInteger;
   PNumber; PIo; PSelf; PGlobal; PNever].

Definition prim_eqb (a b : prim) : bool := prim_idx a =? prim_idx b.

(** [LuaMemberKey::Integer] / [LuaMemberKey::Name] *)
Inductive key : Set :=
| KInt (z : Z)
| KName (s : text).

(** the variant of [LuaUnionType] *)
Inductive ukind : Set := UBasic | UNullable | UMulti.

Inductive ty : Set :=
| TPrim (p : prim)
| TStr (s : text)                         (* DocStringConst *)
| TInt (z : Z)                            (* DocIntegerConst *)
| TBool (b : bool)                        (* DocBooleanConst *)
| TRef (n : text)                         (* Ref(id), by full name *)
| TTableConst                             (* TableConst(_): what a bare top-level [table] annotation denotes *)
| TArray (t : ty)                         (* Array(base, LuaArrayLen::None) *)
| TTableGeneric (ps : list ty)            (* TableGeneric(params) *)
| TObject (fs : list (key * ty))          (* Object{fields}, listed in key order; no index access *)
| TFun (ps : list (text * option ty))     (* DocFunction: sync, dot-defined, no generics, return nil *)
| TUnion (k : ukind) (ms : list ty).      (* Union; [ms] = [LuaUnionType::into_vec] *)

Definition is_nil (t : ty) : bool := match t with TPrim PNil => true | _ => false end.
Definition is_unknown (t : ty) : bool := match t with TPrim PUnknown => true | _ => false end.
Definition is_union (t : ty) : bool := match t with TUnion _ _ => true | _ => false end.

(** [LuaType::is_function] *)
Definition is_function (t : ty) : bool :=
  match t with TFun _ | TPrim PFunction => true | _ => false end.

Definition key_eqb (a b : key) : bool :=
  match a, b with
  | KInt x, KInt y => Z.eqb x y
  | KName x, KName y => text_eqb x y
  | _, _ => false
  end.

(** [impl Ord for LuaMemberKey]: integers before names *)
Definition key_ltb (a b : key) : bool :=
  match a, b with
  | KInt x, KInt y => Z.ltb x y
  | KInt _, KName _ => true
  | KName _, KInt _ => false
  | KName x, KName y => text_ltb x y
  end.

(** structural equality *)
Fixpoint ty_eqb (a b : ty) {struct a} : bool :=
  match a, b with
  | TPrim p, TPrim q => prim_eqb p q
  | TStr s, TStr s' => text_eqb s s'
  | TInt z, TInt z' => Z.eqb z z'
  | TBool x, TBool y => Bool.eqb x y
  | TRef n, TRef n' => text_eqb n n'
  | TTableConst, TTableConst => true
  | TArray x, TArray y => ty_eqb x y
  | TTableGeneric xs, TTableGeneric ys =>
      (fix go (xs ys : list ty) : bool :=
         match xs, ys with
         | [], [] => true
         | x :: xs', y :: ys' => ty_eqb x y && go xs' ys'
         | _, _ => false
         end) xs ys
  | TObject xs, TObject ys =>
      (fix go (xs ys : list (key * ty)) : bool :=
         match xs, ys with
         | [], [] => true
         | (k, x) :: xs', (k', y) :: ys' => key_eqb k k' && ty_eqb x y && go xs' ys'
         | _, _ => false
         end) xs ys
  | TFun xs, TFun ys =>
      (fix go (xs ys : list (text * option ty)) : bool :=
         match xs, ys with
         | [], [] => true
         | (n, ox) :: xs', (n', oy) :: ys' =>
             text_eqb n n'
             && match ox, oy with
                | Some x, Some y => ty_eqb x y
                | None, None => true
                | _, _ => false
                end
             && go xs' ys'
         | _, _ => false
         end) xs ys
  | TUnion k xs, TUnion k' ys =>
      match k, k' with UBasic, UBasic | UNullable, UNullable | UMulti, UMulti => true | _, _ => false end
      && (fix go (xs ys : list ty) : bool :=
            match xs, ys with
            | [] , [] => true
            | x :: xs', y :: ys' => ty_eqb x y && go xs' ys'
            | _, _ => false
            end) xs ys
  | _, _ => false
  end.

Definition mem_ty (t : ty) (l : list ty) : bool := existsb (ty_eqb t) l.

(* ------------------------------------------------------------------------------------------ *)
(** * Character classes (ASCII; anything >= 128 outside a string literal is outside the model) *)

Definition is_digit (c : cp) : bool := (48 <=? c) && (c <=? 57).
Definition is_alpha (c : cp) : bool := ((65 <=? c) && (c <=? 90)) || ((97 <=? c) && (c <=? 122)).
(** [is_name_start] / [is_name_continue] (lexer/mod.rs) on ASCII *)
Definition name_start (c : cp) : bool := is_alpha c || (c =? 95).
Definition name_cont (c : cp) : bool := name_start c || is_digit c.
(** [is_doc_whitespace] *)
Definition is_ws (c : cp) : bool := (c =? 32) || (c =? 9) || (c =? 13) || (c =? 10).
(** the characters [read_doc_name] accepts inside a name when not followed by one of themselves *)
Definition name_link (c : cp) : bool := (c =? 46) || (c =? 45) || (c =? 42).   (* . - * *)

(** [char::is_control]: general category Cc *)
Definition is_control (c : cp) : bool := (c <? 32) || ((127 <=? c) && (c <? 160)).

(* ------------------------------------------------------------------------------------------ *)
(** * Decimal and hexadecimal digits *)

Definition digit_char (d : N) : cp := 48 + d.

(** decimal digits of [n], most significant first; [fuel] bounds the number of digits *)
Fixpoint dec_aux (fuel : nat) (n : N) (acc : text) : text :=
  match fuel with
  | O => acc
  | S f => if n <? 10 then digit_char n :: acc
           else dec_aux f (n / 10) (digit_char (n mod 10) :: acc)
  end.

Definition dec_of_N (n : N) : text := dec_aux (S (N.to_nat (N.size n))) n [].

(** [write!(w, "{}", i)] for an [i64] *)
Definition show_Z (z : Z) : text :=
  match z with
  | Z0 => [48]
  | Zpos p => dec_of_N (Npos p)
  | Zneg p => 45 :: dec_of_N (Npos p)
  end.

(** value of a run of ASCII digits *)
Definition digits_value (ds : text) : N := fold_left (fun acc d => acc * 10 + (d - 48)) ds 0.

Definition hex_digit_char (d : N) : cp := if d <? 10 then 48 + d else 55 + d.   (* upper case *)
Definition hex_val (c : cp) : option N :=
  if is_digit c then Some (c - 48)
  else if (65 <=? c) && (c <=? 70) then Some (c - 55)
  else if (97 <=? c) && (c <=? 102) then Some (c - 87)
  else None.

(* ------------------------------------------------------------------------------------------ *)
(** * The renderer *)

Definition prim_name (p : prim) : text :=
  match p with
  | PUnknown => T"unknown" | PAny => T"any" | PNil => T"nil" | PTable => T"table"
  | PUserdata => T"userdata" | PFunction => T"function" | PThread => T"thread"
  | PBoolean => T"boolean" | PString => T"string" | PInteger => T"integer" | PNumber => T"number"
  | PIo => T"io" | PSelf => T"self" | PGlobal => T"global" | PNever => T"never"
  end.

(** one character of [write_hover_escape_string]; [nxt] is the character after it (the decimal escape
    of ESC is padded to three digits when a digit follows) *)
Definition esc_char (c : cp) (nxt : option cp) : text :=
  if c =? 92 then [92; 92]
  else if c =? 34 then [92; 34]
  else if c =? 10 then [92; 110]
  else if c =? 13 then [92; 114]
  else if c =? 9 then [92; 116]
  else if c =? 27 then
    match nxt with
    | Some d => if is_digit d then [92; 48; 50; 55] else [92; 50; 55]
    | None => [92; 50; 55]
    end
  else if is_control c then [92; 120; hex_digit_char (c / 16); hex_digit_char (c mod 16)]
  else [c].

Fixpoint escape (s : text) : text :=
  match s with
  | [] => []
  | c :: r => esc_char c (hd_error r) ++ escape r
  end.

Definition quoted (s : text) : text := 34 :: escape s ++ [34].

(** the doc keywords [to_token_or_name] / [lex_mapped] turn into other token kinds *)
Definition doc_keywords : list text :=
  [T"true"; T"false"; T"keyof"; T"extends"; T"as"; T"in"; T"and"; T"or"; T"else"; T"readonly"].

(** [is_plain_field_name]: an ASCII identifier that is not a doc keyword *)
Definition is_plain_field_name (s : text) : bool :=
  match s with
  | [] => false
  | c :: r => name_start c && forallb name_cont r && negb (mem_text s doc_keywords)
  end.

(** [array_base_needs_parens] *)
Definition array_base_needs_parens (t : ty) : bool :=
  match t with
  | TUnion _ ms => existsb is_nil ms
  | TInt z => Z.ltb z 0
  | TFun _ => true
  | _ => false
  end.

Fixpoint join (sep : text) (l : list text) : text :=
  match l with
  | [] => []
  | [x] => x
  | x :: r => x ++ sep ++ join sep r
  end.

(** order-preserving de-duplication of the rendered union members ([seen.insert(key)]) *)
Fixpoint dedup_text (seen : list text) (l : list text) : list text :=
  match l with
  | [] => []
  | x :: r => if mem_text x seen then dedup_text seen r else x :: dedup_text (x :: seen) r
  end.

(** insertion sort of record fields by key ([sorted_by(|a, b| a.0.cmp(&b.0))], stable) *)
Fixpoint insert_field {A} (f : key * A) (l : list (key * A)) : list (key * A) :=
  match l with
  | [] => [f]
  | g :: r => if key_ltb (fst f) (fst g) then f :: l else g :: insert_field f r
  end.
Definition sort_fields {A} (l : list (key * A)) : list (key * A) := fold_right insert_field [] l.

Definition level_eqb (a b : level) : bool :=
  match a, b with
  | Documentation, Documentation | Simple, Simple | Normal, Normal | Brief, Brief | Minimal, Minimal => true
  | _, _ => false
  end.

Definition render_key (k : key) : text :=
  match k with
  | KInt i => T"[" ++ show_Z i ++ T"]: "
  | KName s => (if is_plain_field_name s then s else T"[" ++ quoted s ++ T"]") ++ T": "
  end.

(** [TypeHumanizer::write_type] with its depth guard; [lvl] is [self.level], [depth] is [self.depth] *)
Fixpoint write_type (lvl : level) (depth : nat) (t : ty) {struct t} : text :=
  if (DEFAULT_MAX_DEPTH <=? depth)%nat then T"..." else
  let child := write_type (next_level lvl) (S depth) in
  match t with
  | TPrim p => prim_name p
  | TStr s => quoted s
  | TInt z => show_Z z
  | TBool b => if b then T"true" else T"false"
  | TRef n => n                                   (* a reference without members: its full name *)
  | TTableConst => T"table"                       (* write_table_const_type at a non Detailed/Simple level *)
  | TArray b =>                                   (* write_array_type *)
      let inner := child b in
      (if array_base_needs_parens b then T"(" ++ inner ++ T")" else inner) ++ T"[]"
  | TTableGeneric ps =>                           (* write_table_generic_type *)
      if level_eqb lvl Minimal then T"table<...>" else
      T"table<" ++ join T"," (firstn (max_items lvl) (map child ps))
      ++ (if (max_items lvl <? List.length ps)%nat then T", ..." else []) ++ T">"
  | TObject fs =>                                 (* write_object_type *)
      if level_eqb lvl Minimal then T"{...}" else
      T"{ " ++ join T", " (map (fun f : key * text => render_key (fst f) ++ snd f)
                              (firstn (max_items lvl)
                                 (sort_fields (map (fun f : key * ty => (fst f, child (snd f))) fs))))
      ++ (if (max_items lvl <? List.length fs)%nat then T", ..." else []) ++ T" }"
  | TFun ps =>                                    (* write_doc_function_type, AsyncState::None, return nil *)
      if level_eqb lvl Minimal then T"fun(...) -> ..." else
      T"fun(" ++ join T", " (map (fun p => fst p ++ match snd p with
                                                   | Some pt => T": " ++ child pt
                                                   | None => []
                                                   end) ps) ++ T")"
  | TUnion _ ms =>                                (* write_union_type *)
      let has_nil := existsb is_nil ms in
      let nn := filter (fun m => negb (is_nil m)) ms in
      let has_function := existsb is_function nn in
      let keys := dedup_text []
                    ((fix go (l : list ty) : list text :=
                        match l with
                        | [] => []
                        | m :: r => if is_nil m then go r else child m :: go r
                        end) ms) in
      let total := List.length keys in
      let num := max_union_items lvl in
      let needs_parens := (1 <? total)%nat || ((total =? 1)%nat && has_function && has_nil) in
      (if needs_parens then T"(" else [])
      ++ join T"|" (firstn num keys)
      ++ (if (num <? total)%nat then T"..." else [])
      ++ (if needs_parens then T")" else [])
      ++ (if has_nil then T"?" else [])
  end.

(** [humanize_type(db, ty, RenderLevel::Documentation)] *)
Definition render (t : ty) : text := write_type Documentation 0 t.

(* ------------------------------------------------------------------------------------------ *)
(** * The doc lexer ([lex_normal]; [lex_mapped] differs only in how names are classified, which the
      parser does).  Token boundaries are decided character by character, as a Mealy machine whose
      states are the loops of the Rust lexer ([read_doc_name], the digit loop, the string loop). *)

Inductive token : Set :=
| TkName (s : text)        (* TkName or a keyword kind, decided by [kw] below *)
| TkInt (ds : text)
| TkString (raw : text)    (* the token text, delimiters included (the closing one may be missing) *)
| TkColon | TkComma | TkLParen | TkRParen | TkLBracket | TkRBracket | TkLBrace | TkRBrace
| TkLt | TkGt | TkOr | TkAnd | TkQuestion | TkPlus | TkMinus | TkEq | TkSemi
| TkEof                    (* never produced by the lexer: what the parser sees at the end of the tokens *)
| TkBarrier.               (* anything else: `.`, `...`, `--`, `#`, `@`, a back-quote, non-ASCII, ... — not modelled *)

Inductive lstate : Set :=
| LStart
| LName (acc : text)            (* inside read_doc_name; [acc] reversed *)
| LInt (acc : text)             (* inside the digit loop; reversed *)
| LStr (q : cp) (acc : text)    (* inside a string literal opened by [q]; reversed, without the opening quote *)
| LStrEsc (q : cp) (acc : text). (* the same, just after a backslash ([eat_doc_string_body]) *)

(** what the lexer does with character [c] (next character [nxt]) in the start state:
    emitted tokens and the next state, or [None] = a construct outside the model *)
Definition start_step (c : cp) (nxt : option cp) : list token * option lstate :=
  if is_ws c then ([], Some LStart)
  else if c =? 58 then ([TkColon], Some LStart)
  else if c =? 44 then ([TkComma], Some LStart)
  else if c =? 40 then ([TkLParen], Some LStart)
  else if c =? 41 then ([TkRParen], Some LStart)
  else if c =? 91 then ([TkLBracket], Some LStart)
  else if c =? 93 then ([TkRBracket], Some LStart)
  else if c =? 123 then ([TkLBrace], Some LStart)
  else if c =? 125 then ([TkRBrace], Some LStart)
  else if c =? 60 then ([TkLt], Some LStart)
  else if c =? 62 then ([TkGt], Some LStart)
  else if c =? 124 then ([TkOr], Some LStart)
  else if c =? 38 then ([TkAnd], Some LStart)
  else if c =? 63 then ([TkQuestion], Some LStart)
  else if c =? 43 then ([TkPlus], Some LStart)
  else if c =? 61 then ([TkEq], Some LStart)
  else if c =? 59 then ([TkSemi], Some LStart)
  else if c =? 45 then                                  (* eat_when('-'): exactly one dash is TkMinus *)
    match nxt with
    | Some c2 => if c2 =? 45 then ([], None) else ([TkMinus], Some LStart)
    | None => ([TkMinus], Some LStart)
    end
  else if is_digit c then ([], Some (LInt [c]))
  else if (c =? 34) || (c =? 39) then ([], Some (LStr c []))
  else if name_start c then ([], Some (LName [c]))
  else ([], None).

Definition step (st : lstate) (c : cp) (nxt : option cp) : list token * option lstate :=
  match st with
  | LStart => start_step c nxt
  | LStr q acc =>
      if c =? q then ([TkString (q :: rev (c :: acc))], Some LStart)
      else if c =? 92 then ([], Some (LStrEsc q (c :: acc)))
      else ([], Some (LStr q (c :: acc)))
  | LStrEsc q acc => ([], Some (LStr q (c :: acc)))
  | LInt acc =>
      if is_digit c then ([], Some (LInt (c :: acc)))
      else let '(out, st') := start_step c nxt in (TkInt (rev acc) :: out, st')
  | LName acc =>
      if name_cont c then ([], Some (LName (c :: acc)))
      else if name_link c then
        match nxt with
        | Some c2 => if name_link c2
                     then let '(out, st') := start_step c nxt in (TkName (rev acc) :: out, st')
                     else ([], Some (LName (c :: acc)))
        | None => ([], Some (LName (c :: acc)))
        end
      else if (c =? 96) || (128 <=? c) then ([], None)      (* string template / non-ASCII letter *)
      else let '(out, st') := start_step c nxt in (TkName (rev acc) :: out, st')
  end.

Definition flush (st : lstate) : list token :=
  match st with
  | LStart => []
  | LName acc => [TkName (rev acc)]
  | LInt acc => [TkInt (rev acc)]
  | LStr q acc | LStrEsc q acc => [TkString (q :: rev acc)]
  end.

Fixpoint lex_go (st : lstate) (s : text) {struct s} : list token :=
  match s with
  | [] => flush st
  | c :: r =>
      match step st c (hd_error r) with
      | (out, Some st') => out ++ lex_go st' r
      | (out, None) => out ++ [TkBarrier]
      end
  end.

Definition lex (s : text) : list token := lex_go LStart s.

(** how a name token is classified: [to_token_or_name] (Normal state) *)
Inductive kwkind : Set := KwName | KwTrue | KwFalse | KwKeyof | KwExtends | KwAs | KwIn | KwAnd | KwOr | KwElse.

Definition kw (s : text) : kwkind :=
  if text_eqb s T"true" then KwTrue
  else if text_eqb s T"false" then KwFalse
  else if text_eqb s T"keyof" then KwKeyof
  else if text_eqb s T"extends" then KwExtends
  else if text_eqb s T"as" then KwAs
  else if text_eqb s T"in" then KwIn
  else if text_eqb s T"and" then KwAnd
  else if text_eqb s T"or" then KwOr
  else if text_eqb s T"else" then KwElse
  else KwName.

Definition is_plain_name (s : text) : bool := match kw s with KwName => true | _ => false end.

(** the token kind the generated operator tables speak about *)
Definition opkind_of (t : token) : opkind :=
  match t with
  | TkOr => KTkDocOr
  | TkAnd => KTkDocAnd
  | TkPlus => KTkPlus
  | TkMinus => KTkMinus
  | TkName s => match kw s with
                | KwKeyof => KTkDocKeyOf
                | KwIn => KTkIn
                | KwExtends => KTkDocExtends
                | _ => KOther
                end
  | _ => KOther
  end.

(* ------------------------------------------------------------------------------------------ *)
(** * Doc-type syntax trees (the nodes [infer_type] distinguishes; parentheses leave no node) *)

Inductive dt : Set :=
| DName (n : text)
| DLitStr (raw : text)
| DLitInt (ds : text)
| DLitBool (b : bool)
| DLitQ                                                     (* the [?] after [|] *)
| DNullable (d : dt)
| DArray (d : dt)
| DGeneric (n : text) (args : list dt)
| DBinary (o : tbop) (l r : dt)
| DUnary (o : tuop) (d : dt)
| DFun (ps : list (text * bool * option dt))                (* name, [?] present, type *)
| DObject (fs : list ((text + dt) * bool * option dt)).     (* name or [type] key, [?] present, type *)

Definition pres (A : Type) : Type := option (A * list token).

Definition is_dname (d : dt) : bool := match d with DName _ => true | _ => false end.

(** the current token ([TkEof] past the end) and the tokens after it *)
Definition hd_tk (ts : list token) : token := match ts with t :: _ => t | [] => TkEof end.
Definition tl_tk (ts : list token) : list token := match ts with _ :: r => r | [] => [] end.

Definition is_eof (t : token) : bool := match t with TkEof => true | _ => false end.
Definition is_barrier (t : token) : bool := match t with TkBarrier => true | _ => false end.
Definition is_question (t : token) : bool := match t with TkQuestion => true | _ => false end.
Definition is_comma (t : token) : bool := match t with TkComma => true | _ => false end.
Definition is_colon (t : token) : bool := match t with TkColon => true | _ => false end.
Definition is_lparen (t : token) : bool := match t with TkLParen => true | _ => false end.
Definition is_rparen (t : token) : bool := match t with TkRParen => true | _ => false end.
Definition is_lbracket (t : token) : bool := match t with TkLBracket => true | _ => false end.
Definition is_rbracket (t : token) : bool := match t with TkRBracket => true | _ => false end.
Definition is_rbrace (t : token) : bool := match t with TkRBrace => true | _ => false end.
Definition is_lt (t : token) : bool := match t with TkLt => true | _ => false end.
Definition is_gt (t : token) : bool := match t with TkGt => true | _ => false end.
Definition is_plus_minus (t : token) : bool := match t with TkPlus | TkMinus => true | _ => false end.
Definition is_kw_extends (t : token) : bool :=
  match t with TkName s => match kw s with KwExtends => true | _ => false end | _ => false end.

(** [is_mapped_type]: scan for `in` before the next bracket (the tokens after the `[`) *)
Fixpoint mapped_scan (ts : list token) : option bool :=
  match ts with
  | [] => Some false
  | TkBarrier :: _ => None
  | TkLBracket :: _ | TkRBracket :: _ => Some false
  | TkName s :: r => match kw s with KwIn => Some true | _ => mapped_scan r end
  | _ :: r => mapped_scan r
  end.

(** The grammar.  Every function takes the same fuel, passes [fuel - 1] to every callee and loop
    iteration, and answers [None] when it runs out, on a syntax error, and on every construct outside
    the model. *)
Fixpoint parse_type (f : nat) (ts : list token) {struct f} : pres dt :=
  match f with O => None | S f =>
    match parse_sub_type f 0%nat ts with
    | Some (cm, ts1) => type_loop f cm ts1
    | None => None
    end
  end
(** the [loop] of [parse_type]: postfix [?] ([extends] and [...] are outside the model) *)
with type_loop (f : nat) (cm : dt) (ts : list token) {struct f} : pres dt :=
  match f with O => None | S f =>
    let t := hd_tk ts in
    if is_barrier t then None
    else if is_question t then type_loop f (DNullable cm) (tl_tk ts)
    else if is_kw_extends t then None
    else Some (cm, ts)
  end
with parse_sub_type (f : nat) (limit : nat) (ts : list token) {struct f} : pres dt :=
  match f with O => None | S f =>
    let t := hd_tk ts in
    if is_eof t || is_barrier t then None
    else match to_type_unary_operator (opkind_of t) with
         | UNone =>
             match parse_simple_type f ts with
             | Some (cm, ts1) => binary_loop f cm limit ts1
             | None => None
             end
         | UNeg =>
             match parse_sub_type f UNARY_TYPE_PRIORITY (tl_tk ts) with
             | Some (d, ts1) => binary_loop f (DUnary UNeg d) limit ts1
             | None => None
             end
         | UKeyof => None
         end
  end
(** [parse_binary_operator] *)
with binary_loop (f : nat) (cm : dt) (limit : nat) (ts : list token) {struct f} : pres dt :=
  match f with O => None | S f =>
    let t := hd_tk ts in
    if is_barrier t then None
    else
      let bop := to_parse_binary_operator (opkind_of t) in
      match bop with
      | BNone | BExtends => Some (cm, ts)
      | BUnion =>
          if (limit <? prio_left bop)%nat then
            let r := tl_tk ts in
            if is_question (hd_tk r) then binary_loop f (DBinary bop cm DLitQ) limit (tl_tk r)
            else match parse_sub_type f (prio_right bop) r with
                 | Some (d, r2) => binary_loop f (DBinary bop cm d) limit r2
                 | None => None
                 end
          else Some (cm, ts)
      | _ => if (limit <? prio_left bop)%nat then None else Some (cm, ts)
      end
  end
(** [parse_simple_type] = [parse_primary_type] then [parse_suffixed_type] *)
with parse_simple_type (f : nat) (ts : list token) {struct f} : pres dt :=
  match f with O => None | S f =>
    match parse_primary_type f ts with
    | Some (cm, ts1) => suffix_loop f cm false ts1
    | None => None
    end
  end
with parse_primary_type (f : nat) (ts : list token) {struct f} : pres dt :=
  match f with O => None | S f =>
    let r := tl_tk ts in
    match hd_tk ts with
    | TkLBrace => parse_object f r
    | TkLParen =>                                                        (* parse_paren_type *)
        match parse_type f r with
        | Some (cm, r2) => if is_rparen (hd_tk r2) then Some (cm, tl_tk r2) else None
        | None => None
        end
    | TkString raw => Some (DLitStr raw, r)                              (* parse_literal_type *)
    | TkInt ds => Some (DLitInt ds, r)
    | TkName s =>
        match kw s with
        | KwTrue => Some (DLitBool true, r)
        | KwFalse => Some (DLitBool false, r)
        | KwName =>
            if text_eqb s T"fun" then parse_fun f r
            else if text_eqb s T"async" || text_eqb s T"sync" then None
            else Some (DName s, r)                                       (* parse_name_type *)
        | _ => None
        end
    | _ => None                                                          (* tuples, `...`, errors *)
    end
  end
(** [parse_suffixed_type]; [oa] = [only_continue_array] *)
with suffix_loop (f : nat) (cm : dt) (oa : bool) (ts : list token) {struct f} : pres dt :=
  match f with O => None | S f =>
    let t := hd_tk ts in
    if is_barrier t then None
    else if is_lbracket t then
      (if is_rbracket (hd_tk (tl_tk ts)) then suffix_loop f (DArray cm) true (tl_tk (tl_tk ts))
       else None)                                                        (* index access / error *)
    else if is_lt t then
      (if oa then Some (cm, ts)
       else match cm with
            | DName n =>
                match parse_type_list f (tl_tk ts) with
                | Some (args, r2) =>
                    if is_gt (hd_tk r2) then suffix_loop f (DGeneric n args) oa (tl_tk r2) else None
                | None => None
                end
            | _ => Some (cm, ts)
            end)
    else Some (cm, ts)
  end
(** [parse_type_list] *)
with parse_type_list (f : nat) (ts : list token) {struct f} : pres (list dt) :=
  match f with O => None | S f =>
    match parse_type f ts with
    | Some (d, r) =>
        if is_comma (hd_tk r) then
          match parse_type_list f (tl_tk r) with
          | Some (ds, r2) => Some (d :: ds, r2)
          | None => None
          end
        else Some ([d], r)
    | None => None
    end
  end
(** [parse_fun_type] after the [fun] keyword (generic lists and return types are outside the model) *)
with parse_fun (f : nat) (ts : list token) {struct f} : pres dt :=
  match f with O => None | S f =>
    let finish (d : dt) (r : list token) : pres dt :=
      if is_colon (hd_tk r) || is_barrier (hd_tk r) then None else Some (d, r) in
    if is_lparen (hd_tk ts) then
      let r := tl_tk ts in
      if is_rparen (hd_tk r) then finish (DFun []) (tl_tk r)
      else match parse_params f r with
           | Some (ps, r2) => if is_rparen (hd_tk r2) then finish (DFun ps) (tl_tk r2) else None
           | None => None
           end
    else None
  end
(** [parse_typed_param] separated by commas *)
with parse_params (f : nat) (ts : list token) {struct f} : pres (list (text * bool * option dt)) :=
  match f with O => None | S f =>
    match hd_tk ts with
    | TkName n =>
        if is_plain_name n then
          let r := tl_tk ts in
          let q := is_question (hd_tk r) in
          let r1 := if q then tl_tk r else r in
          let cont (p : text * bool * option dt) (r2 : list token) :=
            if is_barrier (hd_tk r2) then None
            else if is_comma (hd_tk r2) then
              match parse_params f (tl_tk r2) with
              | Some (ps, r4) => Some (p :: ps, r4)
              | None => None
              end
            else Some ([p], r2) in
          if is_barrier (hd_tk r1) then None
          else if is_colon (hd_tk r1) then
            match parse_type f (tl_tk r1) with
            | Some (d, r3) => cont (n, q, Some d) r3
            | None => None
            end
          else cont (n, q, None) r1
        else None
    | _ => None
    end
  end
(** [parse_object_or_mapped_type] after the [{]; the first token is lexed in the Mapped state *)
with parse_object (f : nat) (ts : list token) {struct f} : pres dt :=
  match f with O => None | S f =>
    let t := hd_tk ts in
    let fields :=
      match parse_fields f true ts with
      | Some (fs, r2) => if is_rbrace (hd_tk r2) then Some (DObject fs, tl_tk r2) else None
      | None => None
      end in
    if is_rbrace t then Some (DObject [], tl_tk ts)
    else if is_barrier t || is_plus_minus t then None
    else match t with
         | TkName s => if text_eqb s T"readonly" then None else fields
         | TkLBracket => match mapped_scan (tl_tk ts) with Some false => fields | _ => None end
         | _ => None
         end
  end
(** [parse_typed_field] separated by commas (a trailing comma is accepted); [first] = the key token
    was lexed in the Mapped state, where keywords other than [readonly] are plain names *)
with parse_fields (f : nat) (first : bool) (ts : list token) {struct f}
  : pres (list ((text + dt) * bool * option dt)) :=
  match f with O => None | S f =>
    let after_key (k : text + dt) (r : list token) :=
      let q := is_question (hd_tk r) in
      let r1 := if q then tl_tk r else r in
      let cont (fld : (text + dt) * bool * option dt) (r2 : list token) :=
        if is_barrier (hd_tk r2) then None
        else if is_comma (hd_tk r2) then
          (if is_rbrace (hd_tk (tl_tk r2)) then Some ([fld], tl_tk r2)
           else match parse_fields f false (tl_tk r2) with
                | Some (fs, r4) => Some (fld :: fs, r4)
                | None => None
                end)
        else Some ([fld], r2) in
      if is_barrier (hd_tk r1) then None
      else if is_colon (hd_tk r1) then
        match parse_type f (tl_tk r1) with
        | Some (d, r3) => cont (k, q, Some d) r3
        | None => None
        end
      else cont (k, q, None) r1 in
    match hd_tk ts with
    | TkName n => if first || is_plain_name n then after_key (inl n) (tl_tk ts) else None
    | TkLBracket =>
        match parse_type f (tl_tk ts) with
        | Some (d, r2) => if is_rbracket (hd_tk r2) then after_key (inr d) (tl_tk r2) else None
        | None => None
        end
    | _ => None
    end
  end.

(* ------------------------------------------------------------------------------------------ *)
(** * From syntax trees to types *)

(** [normal_string_value]: the value of a string token; [None] = an escape outside the model
    ([\u{..}], [\z], a raw line break after a backslash); an invalid escape gives the empty string
    ([unwrap_or_default]). *)
Inductive sres : Set := SOk (v : text) | SErr | SUnmodelled.

Fixpoint unescape (fuel : nat) (delim : cp) (s : text) (acc : text) : sres :=
  match fuel with O => SUnmodelled | S fuel =>
    match s with
    | [] => SOk (rev acc)
    | c :: r =>
        if c =? 92 then
          match r with
          | [] => SOk (rev acc)
          | e :: r2 =>
              if e =? 97 then unescape fuel delim r2 (7 :: acc)
              else if e =? 98 then unescape fuel delim r2 (8 :: acc)
              else if e =? 102 then unescape fuel delim r2 (12 :: acc)
              else if e =? 110 then unescape fuel delim r2 (10 :: acc)
              else if e =? 114 then unescape fuel delim r2 (13 :: acc)
              else if e =? 116 then unescape fuel delim r2 (9 :: acc)
              else if e =? 118 then unescape fuel delim r2 (11 :: acc)
              else if (e =? 92) || (e =? 39) || (e =? 34) then unescape fuel delim r2 (e :: acc)
              else if e =? 120 then
                match r2 with
                | h1 :: h2 :: r3 =>
                    match hex_val h1, hex_val h2 with
                    | Some a, Some b => unescape fuel delim r3 ((a * 16 + b) :: acc)
                    | _, _ => SErr
                    end
                | _ => SErr
                end
              else if is_digit e then
                let '(ds, r3) :=
                  match r2 with
                  | d2 :: r2' =>
                      if is_digit d2 then
                        match r2' with
                        | d3 :: r2'' => if is_digit d3 then ([e; d2; d3], r2'') else ([e; d2], r2')
                        | [] => ([e; d2], r2')
                        end
                      else ([e], r2)
                  | [] => ([e], r2)
                  end in
                let v := digits_value ds in
                if v <? 256 then unescape fuel delim r3 (v :: acc) else unescape fuel delim r3 acc
              else if (e =? 117) || (e =? 122) || (e =? 13) || (e =? 10) then SUnmodelled
              else SErr
          end
        else if c =? delim then SOk (rev acc)
        else unescape fuel delim r (c :: acc)
    end
  end.

Definition string_value (raw : text) : option text :=
  match raw with
  | [] | [_] => Some []                                  (* text.len() < 2 *)
  | d :: body =>
      match unescape (S (List.length body)) d body [] with
      | SOk v => Some v
      | SErr => Some []
      | SUnmodelled => None
      end
  end.

Definition I64_LIMIT : N := 9223372036854775808.

(** [LuaUnionType::from_vec] followed by [into_vec]: variant and member order *)
Definition prim_of (t : ty) : option prim := match t with TPrim p => Some p | _ => None end.

Definition all_prim (l : list ty) : bool := forallb (fun t => match t with TPrim _ => true | _ => false end) l.

Definition has_prim (p : prim) (l : list ty) : bool :=
  existsb (fun t => match t with TPrim q => prim_eqb p q | _ => false end) l.

Definition union_from_vec (types : list ty) : ty :=
  if all_prim types then
    TUnion UBasic (map TPrim (filter (fun p => has_prim p types) all_prims))
  else
    match types with
    | [a; b] =>
        if is_nil a || is_nil b then
          (* `types.iter().find(|t| !nil)`: the types are not all basic, so one is not nil *)
          TUnion UNullable [(if is_nil a then b else a); TPrim PNil]
        else TUnion UMulti types
    | _ => TUnion UMulti types
    end.

(** [impl Hash for LuaType]: object, union and table-generic types hash by pointer, so two separately
    built copies are never merged by the [HashSet] of [LuaType::from_vec] *)
Fixpoint hashable (t : ty) : bool :=
  match t with
  | TObject _ | TUnion _ _ | TTableGeneric _ => false
  | TArray b => hashable b
  | TFun ps => forallb (fun p => match snd p with Some pt => hashable pt | None => true end) ps
  | _ => true
  end.

Fixpoint dedup_hash (seen : list ty) (l : list ty) : list ty :=
  match l with
  | [] => []
  | x :: r =>
      if hashable x && mem_ty x seen then dedup_hash seen r
      else x :: dedup_hash (x :: seen) r
  end.

Definition flatten_unions (l : list ty) : list ty :=
  flat_map (fun t => match t with TUnion _ ms => ms | _ => [t] end) l.

(** [LuaType::from_vec] *)
Definition from_vec (types : list ty) : ty :=
  match types with
  | [] => TPrim PNil
  | [t] => t
  | _ =>
      match dedup_hash [] (flatten_unions types) with
      | [] => TPrim PNil
      | [t] => t
      | l => union_from_vec l
      end
  end.

(** the environment: alias name -> the type it stands for ([type_decl.get_alias_ref]) *)
Definition env := list (text * ty).

Fixpoint lookup (e : env) (n : text) : option ty :=
  match e with
  | [] => None
  | (k, v) :: r => if text_eqb k n then Some v else lookup r n
  end.

(** [get_real_type] with its depth limit of 10 *)
Fixpoint real_type_aux (fuel : nat) (e : env) (t : ty) : ty :=
  match fuel with
  | O => t
  | S fuel =>
      match t with
      | TRef n => match lookup e n with Some a => real_type_aux fuel e a | None => t end
      | _ => t
      end
  end.
Definition real_type (e : env) (t : ty) : ty := real_type_aux 10 e t.

(** [LuaType::is_nullable] *)
Fixpoint is_nullable (t : ty) : bool :=
  match t with
  | TPrim PNil => true
  | TUnion _ ms => existsb is_nullable ms
  | _ => false
  end.

(** [canonicalize_callable_union] *)
Fixpoint dedup_eq (seen : list ty) (l : list ty) : list ty :=
  match l with
  | [] => []
  | x :: r => if mem_ty x seen then dedup_eq seen r else x :: dedup_eq (x :: seen) r
  end.

Definition canonicalize_callable_union (t : ty) : ty :=
  match t with
  | TUnion _ ms =>
      if existsb (fun m => match m with TFun _ => true | _ => false end) ms
      then from_vec (dedup_eq [] ms)
      else from_vec ms
  | _ => t
  end.

(** [union_type(db, source, Nil)] — the only use the doc-type reader makes of [TypeOps::Union] *)
Definition union_with_nil (e : env) (source : ty) : ty :=
  let r :=
    match real_type e source with
    | TPrim PAny => TPrim PAny
    | TPrim PNever => TPrim PNil
    | TUnion _ ms =>
        if mem_ty (TPrim PNil) ms then source
        else union_from_vec (ms ++ [TPrim PNil])
    | TPrim PNil => source                                  (* same type *)
    | _ => from_vec [source; TPrim PNil]
    end in
  canonicalize_callable_union r.

(** [infer_binary_type], union operator *)
Definition binary_union (l r : ty) : ty :=
  match l, r with
  | TUnion _ a, TUnion _ b => from_vec (a ++ b)
  | TUnion _ a, _ => from_vec (a ++ [r])
  | _, TUnion _ b => from_vec (b ++ [l])
  | _, _ => from_vec [l; r]
  end.

Definition builtin_of_name (n : text) : option prim :=
  if text_eqb n T"unknown" then Some PUnknown
  else if text_eqb n T"never" then Some PNever
  else if text_eqb n T"nil" || text_eqb n T"void" then Some PNil
  else if text_eqb n T"any" then Some PAny
  else if text_eqb n T"userdata" then Some PUserdata
  else if text_eqb n T"thread" then Some PThread
  else if text_eqb n T"boolean" || text_eqb n T"bool" then Some PBoolean
  else if text_eqb n T"string" then Some PString
  else if text_eqb n T"integer" || text_eqb n T"int" then Some PInteger
  else if text_eqb n T"number" then Some PNumber
  else if text_eqb n T"io" then Some PIo
  else if text_eqb n T"self" then Some PSelf
  else if text_eqb n T"global" then Some PGlobal
  else if text_eqb n T"function" then Some PFunction
  else if text_eqb n T"table" then Some PTable
  else None.

(** [LuaObjectType::new]: a hash map from keys to types (a later field replaces an earlier one),
    presented in key order *)
Fixpoint obj_insert (k : key) (v : ty) (l : list (key * ty)) : list (key * ty) :=
  match l with
  | [] => [(k, v)]
  | (k', v') :: r =>
      if key_eqb k k' then (k, v) :: r
      else if key_ltb k k' then (k, v) :: l
      else (k', v') :: obj_insert k v r
  end.
Definition obj_new (fs : list (key * ty)) : list (key * ty) :=
  fold_left (fun acc f => obj_insert (fst f) (snd f) acc) fs [].

Definition sequence {A} (l : list (option A)) : option (list A) :=
  fold_right (fun o acc => match o, acc with Some x, Some r => Some (x :: r) | _, _ => None end) (Some []) l.

(** [infer_type].  [top] = the node's parent is the [---@type] tag ([infer_special_table_type]).
    [None] = a construct outside the model. *)
Fixpoint infer (e : env) (top : bool) (d : dt) {struct d} : option ty :=
  match d with
  | DName n =>
      match builtin_of_name n with
      | Some PTable => Some (if top then TTableConst else TPrim PTable)
      | Some p => Some (TPrim p)
      | None => Some (TRef n)
      end
  | DNullable d' =>
      match infer e false d' with
      | Some t => Some (if is_unknown t then TPrim PUnknown
                        else if is_nullable t then t else union_with_nil e t)
      | None => None
      end
  | DArray d' =>
      match infer e false d' with
      | Some t => Some (if is_unknown t then TPrim PUnknown else TArray t)
      | None => None
      end
  | DLitStr raw => option_map TStr (string_value raw)
  | DLitInt ds => let v := digits_value ds in
                  Some (if v <? I64_LIMIT then TInt (Z.of_N v) else TPrim PNumber)
  | DLitBool b => Some (TBool b)
  | DLitQ => Some (TPrim PNil)
  | DGeneric n args =>
      if text_eqb n T"table"
      then option_map TTableGeneric (sequence (map (infer e false) args))
      else None
  | DBinary o l r =>
      match o with
      | BUnion =>
          match infer e false l, infer e false r with
          | Some a, Some b => Some (binary_union a b)
          | _, _ => None
          end
      | _ => None
      end
  | DUnary o d' =>
      match o with
      | UNeg =>
          match infer e false d' with
          | Some (TInt i) => Some (TInt (- i))
          | Some _ => Some (TPrim PUnknown)
          | None => None
          end
      | _ => None
      end
  | DFun ps =>
      option_map TFun
        (sequence (map (fun p : text * bool * option dt =>
                          let '(n, q, od) := p in
                          match od with
                          | None => Some (n, None)
                          | Some d' =>
                              match infer e false d' with
                              | Some t => Some (n, Some (if q && negb (is_nullable t)
                                                         then union_with_nil e t else t))
                              | None => None
                              end
                          end) ps))
  | DObject fs =>
      option_map (fun l => TObject (obj_new (flat_map (fun x => match x with Some y => [y] | None => [] end) l)))
        (sequence (map (fun fld : (text + dt) * bool * option dt =>
                          let '(k, q, od) := fld in
                          (* Some None = the field is skipped; None = outside the model *)
                          let key : option (option key) :=
                            match k with
                            | inl n => Some (Some (KName n))
                            | inr (DLitInt ds) =>
                                let v := digits_value ds in
                                Some (if v <? I64_LIMIT then Some (KInt (Z.of_N v)) else None)
                            | inr (DLitStr raw) =>
                                match string_value raw with Some v => Some (Some (KName v)) | None => None end
                            | inr _ => None
                            end in
                          let value : option ty :=
                            match od with
                            | Some d' => infer e false d'
                            | None => Some (TPrim PUnknown)
                            end in
                          match key, value with
                          | Some (Some kk), Some t => Some (Some (kk, if q then union_with_nil e t else t))
                          | Some None, Some _ => Some None
                          | _, _ => None
                          end) fs))
  end.

(** the type of [---@type <s>]; fuel proportional to the number of tokens always suffices for what
    the parser accepts *)
Definition parse_fuel (ts : list token) : nat := (16 * List.length ts + 16)%nat.

Definition parse_tree (s : text) : option dt :=
  let ts := lex s in
  match parse_type (parse_fuel ts) ts with
  | Some (d, _) => Some d
  | None => None
  end.

Definition parse (e : env) (s : text) : option ty :=
  match parse_tree s with
  | Some d => infer e true d
  | None => None
  end.
