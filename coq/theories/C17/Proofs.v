(** C17/Proofs.v — assembling the round trip: render, lex, parse, infer. *)
From EV Require Import C17.Model C17.Spec C17.LexProofs C17.ParseProofs C17.InferProofs C17.SameProofs.
From Coq Require Import String Lia.
Local Open Scope N_scope.

(** at the top level only a bare [table] is read differently *)
Lemma infer_top : forall e t lvl d, t <> TPrim PTable -> small lvl d t = true ->
  infer e true (tree_of t) = infer e false (tree_of t).
Proof.
  intros e t lvl d Hne Hs. destruct t; try reflexivity.
  - destruct p; try reflexivity. contradiction.
  - destruct z; reflexivity.
  - rewrite small_eq in Hs. apply andb_true_iff in Hs as [_ Hs].
    cbn [tree_of infer]. rewrite (ref_not_builtin _ Hs). reflexivity.
  - rewrite small_eq in Hs. apply andb_true_iff in Hs as [_ Hs]. discriminate.
  - rewrite tree_union. destruct (existsb is_nil ms) eqn:Enil; [reflexivity|].
    rewrite small_eq in Hs. apply andb_true_iff in Hs as [_ Hs]. cbv zeta in Hs.
    apply andb_true_iff in Hs as [Hs _]. apply andb_true_iff in Hs as [Hs _]. apply andb_true_iff in Hs as [Hs _].
    apply andb_true_iff in Hs as [Hs _]. apply andb_true_iff in Hs as [H2 _]. apply Nat.leb_le in H2.
    rewrite (non_nil_id _ Enil).
    destruct ms as [|m1 [|m2 r]]; [cbn in H2; lia|cbn in H2; lia|].
    cbn [map union_chain fold_left].
    assert (G : forall l d0, infer e true d0 = infer e false d0 ->
                infer e true (fold_left (fun acc x => DBinary BUnion acc x) l d0)
                = infer e false (fold_left (fun acc x => DBinary BUnion acc x) l d0)).
    { induction l as [|x l IH]; intros d0 H0; [exact H0|]. cbn [fold_left]. apply IH. reflexivity. }
    apply G. reflexivity.
Qed.

(** ** The round trip *)
Theorem parse_render : forall (e : env) (t : ty), Small t -> parse e (render t) = Some (norm e t).
Proof.
  intros e t [Hs Hne]. unfold parse. rewrite (parse_tree_render t Hs).
  rewrite (infer_top e t _ _ Hne Hs). apply (infer_tree e t _ _ Hs).
Qed.

(** two types that render the same way read back as the same type: the rendering is unambiguous *)
Corollary render_unambiguous : forall (e : env) (t1 t2 : ty),
  Small t1 -> Small t2 -> render t1 = render t2 -> norm e t1 = norm e t2.
Proof.
  intros e t1 t2 H1 H2 E. pose proof (parse_render e t1 H1) as P1. pose proof (parse_render e t2 H2) as P2.
  rewrite E in P1. rewrite P1 in P2. injection P2. auto.
Qed.

(** ** The type read back is the same type, modulo the order of union members *)
Theorem reads_back_same_outside_known : forall (e : env) (t : ty),
  Small t -> annot_form e t = true -> known e t = false ->
  exists t', parse e (render t) = Some t' /\ ty_eqv t' t = true.
Proof.
  intros e t HS Ha Hk. exists (norm e t). split; [apply parse_render; exact HS|].
  destruct HS as [Hs _]. apply (norm_same e t _ _ Hs Ha Hk).
Qed.

(** ... and the recorded class is real: [any?] is read back as [any] *)
Theorem reads_back_same_refuted : exists t : ty,
  Small t /\ annot_form [] t = true /\ known [] t = true
  /\ exists t', parse [] (render t) = Some t' /\ ty_eqv t' t = false.
Proof.
  exists (TUnion UBasic [TPrim PAny; TPrim PNil]).
  split; [split; [vm_compute; reflexivity|discriminate]|].
  split; [vm_compute; reflexivity|]. split; [vm_compute; reflexivity|].
  exists (TPrim PAny). split; vm_compute; reflexivity.
Qed.

(** the lexer alone: a rendered type is read back as exactly its tokens *)
Theorem tokens_of_render : forall t, small Documentation 0 t = true -> lex (render t) = ptoks t.
Proof. exact lex_render. Qed.

(** ** Examples (non-vacuity) *)

Definition ex_type : ty :=
  TObject [(KInt 1%Z, TArray (TUnion UNullable [TRef T"ns.Cls"; TPrim PNil]));
           (KName T"x y", TUnion UMulti [TStr T"a""b\"; TInt (-7)%Z; TFun [(T"cb", Some (TTableGeneric [TPrim PString; TArray (TInt (-1)%Z)])); (T"n", None)]; TPrim PNil])].

Example ex_small : Small ex_type.
Proof. split; [vm_compute; reflexivity|discriminate]. Qed.

Example ex_roundtrip : parse [] (render ex_type) = Some ex_type.
Proof. vm_compute. reflexivity. Qed.

Example ex_annot : annot_form [] ex_type = true /\ known [] ex_type = false.
Proof. vm_compute. split; reflexivity. Qed.

(** the rendering the fixed renderer produces for the two confirmed defects *)
Example ex_optional_array :
  render (TArray (TUnion UBasic [TPrim PNil; TPrim PString])) = T"(string?)[]"
  /\ parse [] T"(string?)[]" = Some (TArray (TUnion UBasic [TPrim PNil; TPrim PString]))
  /\ parse [] T"string?[]" = Some (TUnion UBasic [TPrim PNil; TPrim PString]).
Proof. vm_compute. repeat split. Qed.

(** the two degenerate unions whose normal form is a different type (the open findings) *)
Example ex_any_nil : Small (TUnion UBasic [TPrim PAny; TPrim PNil])
  /\ norm [] (TUnion UBasic [TPrim PAny; TPrim PNil]) = TPrim PAny.
Proof. split; [split; [vm_compute; reflexivity|discriminate]|vm_compute; reflexivity]. Qed.

Example ex_duplicate_members :
  let o := TObject [(KName T"a", TPrim PString)] in
  render (TUnion UMulti [o; o]) = render o /\ parse [] (render (TUnion UMulti [o; o])) = Some o.
Proof. vm_compute. split; reflexivity. Qed.
