(** C34/Corr.v — executable comparison of implementation observations with the model
    (used by the correspondence check; the python plugin writes [case] terms from the harness output). *)
From EV Require Import C34.Model.
Local Open Scope N_scope.

Definition opt_text_eqb (x y : option text) : bool :=
  match x, y with
  | Some a, Some b => text_eqb a b
  | None, None => true
  | _, _ => false
  end.

Definition opt_N_eqb (x y : option N) : bool :=
  match x, y with
  | Some a, Some b => a =? b
  | None, None => true
  | _, _ => false
  end.

Fixpoint list_eqb {A} (eqb : A -> A -> bool) (a b : list A) : bool :=
  match a, b with
  | [], [] => true
  | x :: a', y :: b' => eqb x y && list_eqb eqb a' b'
  | _, _ => false
  end.

Inductive case :=
(** path string; [file_path_to_uri(path)] as [uri.as_str()]; [uri_to_file_path] of that uri *)
| CPath (p : text) (uri : option text) (back : option text)
(** uri string; [Uri::from_str(u)] : [None] = error, else [path()]; scheme is file; no host;
    [uri_to_file_path] (None also when the uri did not parse) *)
| CUri (u : text) (parsed : option text) (is_file : bool) (no_host : bool) (back : option text)
(** parsable uri strings through one fresh Vfs: [file_id] of each in order, then [get_file_id] of each *)
| CVfs (uris : list text) (ids : list N) (gets : list (option N)).

Fixpoint get_all (v : vfs) (us : list text) : ures (list (option N)) :=
  match us with
  | [] => UOk []
  | u :: r => match get_file_id v u, get_all v r with
              | UOk g, UOk gs => UOk (g :: gs)
              | _, _ => Unmodelled
              end
  end.

(** [true] when the model agrees with the observation, or declares the input outside its domain *)
Definition check_case (c : case) : bool :=
  match c with
  | CPath p uri back =>
      match file_path_to_uri p with
      | Unmodelled => false (* every output of from_file_path is inside the model *)
      | UOk mu =>
          opt_text_eqb mu uri &&
          match mu with
          | None => opt_text_eqb None back
          | Some u => match uri_to_file_path u with
                      | UOk mb => opt_text_eqb mb back
                      | Unmodelled => false
                      end
          end
      end
  | CUri u parsed is_file no_host back =>
      match url_path u with
      | Unmodelled => true
      | UOk p1 =>
          opt_text_eqb (Some p1) parsed && is_file && no_host &&
          match uri_to_file_path u with
          | UOk mb => opt_text_eqb mb back
          | Unmodelled => false
          end
      end
  | CVfs uris ids gets =>
      match file_ids vfs_new uris with
      | Unmodelled => true
      | UOk (is, v) =>
          list_eqb N.eqb is ids &&
          match get_all v uris with
          | UOk gs => list_eqb opt_N_eqb gs gets
          | Unmodelled => false
          end
      end
  end.

(** is the case inside the model's domain?  (reported as a count by the plugin) *)
Definition modelled_case (c : case) : bool :=
  match c with
  | CPath _ _ _ => true
  | CUri u _ _ _ _ => match url_path u with UOk _ => true | Unmodelled => false end
  | CVfs uris _ _ => match file_ids vfs_new uris with UOk _ => true | Unmodelled => false end
  end.
