(** C34/Props.v — property theorems only.  Each is closed by [exact] of a lemma of Proofs.v.

    Vocabulary (C34/Spec.v): [normalized_abs p] — "/" or "/c1/…/cn", every component non-empty and
    different from "." and ".."; [scalar_text p] — every char is a Unicode scalar value (any of them:
    space, %, #, ?, controls, non-ASCII, astral); [uri_encodes p u] — [u] is "file://" followed for
    each component by "/" and ANY encoding of its UTF-8 bytes (each byte escaped with hex digits of
    either case, or left literal when that is unambiguous; non-ASCII characters literal or escaped).
    The functions are the model of C34/Model.v (Unix; Windows drive/UNC code is cfg(windows)). *)
From EV Require Import Base.Utf8Facts C34.Model C34.Spec C34.Proofs.
Local Open Scope N_scope.

(** Converting any normalised absolute path to a file URI and back yields the same path. *)
Theorem path_uri_roundtrip : forall p : text,
  normalized_abs p = true -> scalar_text p = true ->
  exists u, file_path_to_uri p = UOk (Some u) /\ uri_to_file_path u = UOk (Some p).
Proof. exact Proofs.path_uri_roundtrip. Qed.

(** However the URI of a path is percent-encoded, it is converted to that path. *)
Theorem any_encoding_decodes : forall p u : text,
  normalized_abs p = true -> scalar_text p = true -> uri_encodes p u ->
  uri_to_file_path u = UOk (Some p).
Proof. exact Proofs.any_encoding_decodes. Qed.

(** Two URIs for the same path, however they are percent-encoded, get the same FileId from
    [Vfs::file_id] in any Vfs state, and [Vfs::get_file_id] finds it through either of them. *)
Theorem encodings_same_file : forall (v : vfs) (p u1 u2 : text),
  normalized_abs p = true -> scalar_text p = true -> uri_encodes p u1 -> uri_encodes p u2 ->
  exists i v1, file_id v u1 = UOk (i, v1) /\ file_id v1 u2 = UOk (i, v1) /\
               get_file_id v1 u1 = UOk (Some i) /\ get_file_id v1 u2 = UOk (Some i).
Proof. exact Proofs.encodings_same_file. Qed.

(** More generally: any two URI strings whose decoded paths are equal as [PathBuf]s identify the
    same file (this includes un-normalised spellings such as doubled or trailing slashes). *)
Theorem same_decoding_same_file : forall (v : vfs) (u1 u2 p1 p2 : text) (i : N) (v1 : vfs),
  uri_to_file_path u1 = UOk (Some p1) -> uri_to_file_path u2 = UOk (Some p2) -> path_eqb p1 p2 = true ->
  file_id v u1 = UOk (i, v1) ->
  file_id v1 u2 = UOk (i, v1) /\ get_file_id v1 u1 = UOk (Some i) /\ get_file_id v1 u2 = UOk (Some i).
Proof. exact Proofs.same_decoding_same_file. Qed.

(** … and keep doing so after any sequence of further [file_id] / [set_file_content] calls. *)
Theorem file_id_stable : forall (v : vfs) (u1 u2 p1 p2 : text) (i : N) (v1 : vfs) (us : list text) (js : list N) (v2 : vfs),
  uri_to_file_path u1 = UOk (Some p1) -> uri_to_file_path u2 = UOk (Some p2) -> path_eqb p1 p2 = true ->
  file_id v u1 = UOk (i, v1) -> file_ids v1 us = UOk (js, v2) ->
  file_id v2 u2 = UOk (i, v2).
Proof. exact Proofs.file_id_stable. Qed.

(** the two codec facts everything rests on: UTF-8 decoding inverts encoding on scalar values … *)
Theorem utf8_roundtrip : forall t : text, scalar_text t = true -> utf8_decode (utf8_encode t) = Some t.
Proof. exact Utf8Facts.utf8_decode_encode. Qed.

(** … and percent-decoding inverts percent-encoding for every escape set that contains [%]. *)
Theorem percent_roundtrip : forall (set : list N) (bs : list byte),
  inb PERCENT set = true -> Forall (fun b => b < 256) bs -> pct_decode (pct_encode set bs) = bs.
Proof. exact Proofs.percent_roundtrip. Qed.

(** non-vacuity: "/a b/100%/x#y?z/%41/C|/é😀" is normalised, scalar, and round-trips through
    "file:///a%20b/100%25/x%23y%3Fz/%2541/C|/%C3%A9%F0%9F%98%80" *)
Example roundtrip_example :
  let p := [47; 97; 32; 98; 47; 49; 48; 48; 37; 47; 120; 35; 121; 63; 122; 47; 37; 52; 49; 47; 67; 124; 47; 233; 128512] in
  normalized_abs p = true /\ scalar_text p = true /\
  file_path_to_uri p =
    UOk (Some [102; 105; 108; 101; 58; 47; 47; 47; 97; 37; 50; 48; 98; 47; 49; 48; 48; 37; 50; 53; 47; 120; 37; 50; 51; 121;
               37; 51; 70; 122; 47; 37; 50; 53; 52; 49; 47; 67; 124; 47;
               37; 67; 51; 37; 65; 57; 37; 70; 48; 37; 57; 70; 37; 57; 56; 37; 56; 48]) /\
  uri_to_file_path [102; 105; 108; 101; 58; 47; 47; 47; 97; 37; 50; 48; 98; 47; 49; 48; 48; 37; 50; 53; 47; 120; 37; 50; 51; 121;
               37; 51; 70; 122; 47; 37; 50; 53; 52; 49; 47; 67; 124; 47;
               37; 67; 51; 37; 65; 57; 37; 70; 48; 37; 57; 70; 37; 57; 56; 37; 56; 48] = UOk (Some p).
Proof. exact Proofs.roundtrip_example. Qed.

(** non-vacuity of [uri_encodes]: for the path "/a b/é" both "file:///a%20b/%c3%A9" (lower/upper-case
    hex) and "file:///%61%20%62/é" (over-escaped letters, literal non-ASCII) are encodings, and they
    get the same id in a fresh Vfs while "/a b/e" gets another one *)
Example encodings_example :
  let p := [47; 97; 32; 98; 47; 233] in
  let u1 := [102; 105; 108; 101; 58; 47; 47; 47; 97; 37; 50; 48; 98; 47; 37; 99; 51; 37; 65; 57] in
  let u2 := [102; 105; 108; 101; 58; 47; 47; 47; 37; 54; 49; 37; 50; 48; 37; 54; 50; 47; 233] in
  let u3 := [102; 105; 108; 101; 58; 47; 47; 47; 97; 37; 50; 48; 98; 47; 101] in
  normalized_abs p = true /\ scalar_text p = true /\ uri_encodes p u1 /\ uri_encodes p u2 /\
  file_ids vfs_new [u1; u2; u3; u1] = UOk ([0; 0; 1; 0], {| v_map := [([47; 97; 32; 98; 47; 101], 1); (p, 0)]; v_len := 2 |}).
Proof. exact Proofs.encodings_example. Qed.
