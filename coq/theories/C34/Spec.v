(** C34/Spec.v — the vocabulary of the property: normalised absolute paths, and what it means for a
    URI string to be *an* encoding of a path.  Used by the theorem statements of Props.v. *)
From EV Require Export C34.Model.
Local Open Scope N_scope.

(** a component of a normalised path: not empty, not [.], not [..] *)
Definition good_comp (c : text) : bool :=
  negb (is_nil c) && negb (text_eqb c [DOT]) && negb (text_eqb c [DOT; DOT]).

(** a normalised absolute Unix path: "/" or "/c1/…/cn" with good components (no empty component,
    hence no doubled or trailing slash) *)
Definition normalized_abs (p : text) : bool :=
  match p with
  | c :: r => (c =? SLASH) && (is_nil r || forallb good_comp (split_on SLASH r))
  | [] => false
  end.

(** the components of a normalised absolute path *)
Definition comps_of (p : text) : list text :=
  match p with
  | _ :: [] => []
  | _ :: r => split_on SLASH r
  | [] => []
  end.

(** may this ASCII character stand for itself in the path of a URI?  Not: controls and space (the
    parser trims/drops them), [%] (starts an escape), [/ \ ? #] (end a segment or the path). *)
Definition lit_ok (c : cp) : bool :=
  (32 <? c) && negb ((c =? PERCENT) || is_special c).

(** [enc_bytes L U bs s] : the URI text [s] is one way of writing the bytes [bs] —
    each byte as an escape [%hl] with hex digits of either case, or an ASCII byte allowed by [L] as
    itself, or (when [U]) a whole non-ASCII character as itself. *)
Inductive enc_bytes (L : cp -> bool) (U : bool) : list byte -> text -> Prop :=
| enc_nil : enc_bytes L U [] []
| enc_lit : forall b bs s, b < 128 -> L b = true -> enc_bytes L U bs s -> enc_bytes L U (b :: bs) (b :: s)
| enc_uni : forall c bs s, U = true -> 128 <= c -> is_scalar c = true -> enc_bytes L U bs s ->
            enc_bytes L U (utf8_encode_cp c ++ bs) (c :: s)
| enc_esc : forall b h l bs s, b < 256 -> hex_val h = Some (b / 16) -> hex_val l = Some (b mod 16) ->
            enc_bytes L U bs s -> enc_bytes L U (b :: bs) (PERCENT :: h :: l :: s).

(** [uri_encodes p u] : [u] is "file://" followed, for each component of the normalised absolute path
    [p], by "/" and some encoding of the component's UTF-8 bytes ("file:///" for the root). *)
Definition uri_encodes (p u : text) : Prop :=
  exists segs : list text,
    Forall2 (fun c s => enc_bytes lit_ok true (utf8_encode c) s) (comps_of p) segs /\
    u = FILE_PREFIX ++ match segs with [] => [SLASH] | _ => flat_map (cons SLASH) segs end.
