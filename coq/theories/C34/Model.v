(** C34/Model.v — file path <-> file URI on Unix, and the Vfs file-id table.

    Transcribed (function for function, quirks included) from
      crates/emmylua_code_analysis/src/vfs/file_uri_handler.rs   file_path_to_uri, uri_to_file_path
      crates/emmylua_code_analysis/src/vfs/mod.rs                 Vfs::file_id, Vfs::get_file_id
      emmy_lsp_types-0.1.0/src/uri.rs                             Uri = newtype of url::Url, from_str = Url::from_str
      url-2.5.8/src/lib.rs     Url::from_file_path, path_to_file_url_segments (unix), Url::path
      url-2.5.8/src/parser.rs  Input::new (trim), Parser::parse_file, parse_path, last_slash_can_be_removed,
                               shorten_path, pop_path, is_windows_drive_letter & co
      percent-encoding-2.3.2/src/lib.rs  percent_encode, percent_encode_byte, PercentDecode, decode_utf8
      std::path (unix)         Path::is_absolute, Path::components, PathBuf equality (by components)
    The url / percent-encoding / std code is MODELLED, not verified; the correspondence check compares
    this model with the compiled code.  The percent-encode sets come from Gen/C34_EscapeSet.v, which
    is regenerated from the crate sources on every run.

    Strings are lists of chars ([text]); a path is a [text] (valid UTF-8 paths only).
    Domain of the URL-parser model: after trimming, no raw tab/LF/CR, scheme [file] (any case), empty
    host.  Outside it the model answers [Unmodelled] (never a guess).
    Executable definitions only. *)
From EV Require Export Base.Utf8 Gen.C34_EscapeSet.
Local Open Scope N_scope.

(** * characters *)
Definition SLASH : cp := 47.
Definition BACKSLASH : cp := 92.
Definition QUESTION : cp := 63.
Definition HASH : cp := 35.
Definition PERCENT : cp := 37.
Definition COLON : cp := 58.
Definition BAR : cp := 124.
Definition DOT : cp := 46.

(** "file://" *)
Definition FILE_PREFIX : text := [102; 105; 108; 101; 58; 47; 47].

Fixpoint text_eqb (a b : text) : bool :=
  match a, b with
  | [], [] => true
  | x :: a', y :: b' => (x =? y) && text_eqb a' b'
  | _, _ => false
  end.

Definition inb (b : N) (s : list N) : bool := existsb (N.eqb b) s.

(** * percent-encoding 2.3.2 *)

(** [AsciiSet::should_percent_encode] : non-ASCII bytes always, ASCII bytes when in the set *)
Definition should_encode (set : list N) (b : byte) : bool := (128 <=? b) || inb b set.

(** one nibble of [ENC_TABLE] (upper-case hex) *)
Definition hex_upper (d : N) : cp := if d <? 10 then 48 + d else 55 + d.

(** [percent_encode_byte] *)
Definition pct_byte (b : byte) : text := [PERCENT; hex_upper (b / 16); hex_upper (b mod 16)].

(** [percent_encode(bytes, set)] collected into a String *)
Fixpoint pct_encode (set : list N) (bs : list byte) : text :=
  match bs with
  | [] => []
  | b :: r => (if should_encode set b then pct_byte b else [b]) ++ pct_encode set r
  end.

(** [utf8_percent_encode(text, set)] *)
Definition utf8_pct_encode (set : list N) (t : text) : text := pct_encode set (utf8_encode t).

(** [char::to_digit(16)] *)
Definition hex_val (c : cp) : option N :=
  if (48 <=? c) && (c <=? 57) then Some (c - 48)
  else if (65 <=? c) && (c <=? 70) then Some (c - 55)
  else if (97 <=? c) && (c <=? 102) then Some (c - 87)
  else None.

(** [PercentDecode] collected: [%] followed by two hex digits (either case) is one byte; any other
    [%] passes through ([after_percent_sign(..).unwrap_or(byte)]) *)
Fixpoint pct_decode (bs : list byte) : list byte :=
  match bs with
  | [] => []
  | b :: r =>
      if b =? PERCENT then
        match r with
        | h :: l :: r2 =>
            match hex_val h, hex_val l with
            | Some x, Some y => (x * 16 + y) :: pct_decode r2
            | _, _ => b :: pct_decode r
            end
        | _ => b :: pct_decode r
        end
      else b :: pct_decode r
  end.

(** [percent_decode_str(s).decode_utf8().ok()] *)
Definition decode_path (s : text) : option text := utf8_decode (pct_decode (utf8_encode s)).

(** * std::path on Unix *)

(** [s.split(sep)] : always at least one piece *)
Fixpoint split_on (sep : cp) (s : text) : list text :=
  match s with
  | [] => [[]]
  | c :: r =>
      if c =? sep then [] :: split_on sep r
      else match split_on sep r with
           | x :: xs => (c :: x) :: xs
           | [] => [[c]]
           end
  end.

Definition is_nil (s : text) : bool := match s with [] => true | _ => false end.

(** a [Component::Normal]: [Components] skips empty pieces and [.] (except a leading [.] of a
    relative path) *)
Definition normal_comp (c : text) : bool := negb (is_nil c) && negb (text_eqb c [DOT]).

(** [Path::components] as ([has_root], the components after the root as OS strings).
    [..] stays a component ([Component::ParentDir]); nothing is resolved. *)
Definition path_components (p : text) : bool * list text :=
  match p with
  | [] => (false, [])
  | c :: r =>
      if c =? SLASH then (true, filter normal_comp (split_on SLASH r))
      else let cs := split_on SLASH p in
           (false, (match cs with
                    | x :: _ => if text_eqb x [DOT] then [[DOT]] else []
                    | [] => []
                    end) ++ filter normal_comp cs)
  end.

Fixpoint texts_eqb (a b : list text) : bool :=
  match a, b with
  | [], [] => true
  | x :: a', y :: b' => text_eqb x y && texts_eqb a' b'
  | _, _ => false
  end.

(** [PathBuf == PathBuf] (and the [Hash] that goes with it): equality of components *)
Definition path_eqb (a b : text) : bool :=
  let '(ra, ca) := path_components a in
  let '(rb, cb) := path_components b in
  Bool.eqb ra rb && texts_eqb ca cb.

(** * url 2.5.8 : Url::from_file_path (unix) *)

(** [Url::from_file_path(path)] : [None] is [Err(())] (path not absolute); the result is the
    serialization.  Each component after the root is percent-encoded with SPECIAL_PATH_SEGMENT. *)
Definition from_file_path (p : text) : option text :=
  match path_components p with
  | (true, cs) =>
      Some (FILE_PREFIX ++
            match cs with
            | [] => [SLASH]
            | _ => flat_map (fun c => SLASH :: pct_encode special_path_segment_set (utf8_encode c)) cs
            end)
  | (false, _) => None
  end.

(** * url 2.5.8 : the parser, restricted to file URLs without host *)

Inductive ures (A : Type) : Type :=
| UOk (a : A)
| Unmodelled.
Arguments UOk {A} a.
Arguments Unmodelled {A}.

(** [c0_control_or_space] *)
Definition c0_or_space (c : cp) : bool := c <=? 32.

Fixpoint trim_start (s : text) : text :=
  match s with
  | [] => []
  | c :: r => if c0_or_space c then trim_start r else s
  end.

Fixpoint trim_end (s : text) : text :=
  match s with
  | [] => []
  | c :: r => match trim_end r with
              | [] => if c0_or_space c then [] else [c]
              | r' => c :: r'
              end
  end.

(** [Input::new] : [input.trim_matches(c0_control_or_space)] *)
Definition trim (s : text) : text := trim_end (trim_start s).

(** [ascii_tab_or_new_line] : the parser silently skips these everywhere; URI strings that contain
    one (after trimming) are outside the model *)
Definition tab_or_nl (c : cp) : bool := (c =? 9) || (c =? 10) || (c =? 13).

Definition ascii_alpha (c : cp) : bool := ((65 <=? c) && (c <=? 90)) || ((97 <=? c) && (c <=? 122)).
Definition ascii_lower (c : cp) : cp := if (65 <=? c) && (c <=? 90) then c + 32 else c.

(** the characters that end a path segment or the path: [/ \ ? #] *)
Definition is_sl (c : cp) : bool := (c =? SLASH) || (c =? BACKSLASH).
Definition is_special (c : cp) : bool := is_sl c || (c =? QUESTION) || (c =? HASH).

(** [starts_with_windows_drive_letter] *)
Definition starts_with_wdl (s : text) : bool :=
  match s with
  | a :: b :: r =>
      ascii_alpha a && ((b =? COLON) || (b =? BAR)) &&
      match r with [] => true | c :: _ => is_special c end
  | _ => false
  end.

(** [is_windows_drive_letter] *)
Definition is_wdl (s : text) : bool := (Nat.eqb (length s) 2) && starts_with_wdl s.

(** [is_normalized_windows_drive_letter] *)
Definition is_normalized_wdl (s : text) : bool :=
  is_wdl s && match s with _ :: b :: _ => b =? COLON | _ => false end.

(** [path_starts_with_windows_drive_letter] *)
Definition path_starts_with_wdl (s : text) : bool :=
  match s with
  | c :: r => is_special c && starts_with_wdl r
  | [] => false
  end.

(** [str::rfind('/')] *)
Fixpoint rfind (ch : cp) (s : text) : option nat :=
  match s with
  | [] => None
  | x :: r => match rfind ch r with
              | Some i => Some (S i)
              | None => if x =? ch then Some O else None
              end
  end.

(** In the functions below [ser] is the part of [Parser::serialization] from [path_start] on (the
    text before it is always "file://", which ends with a slash: hence [ends_with_slash [] = true]). *)
Definition ends_with_slash (ser : text) : bool :=
  match ser with [] => true | _ => last ser 0 =? SLASH end.

(** [Parser::last_slash_can_be_removed] (called when [ser] ends with '/') : a slash found by
    [rfind] inside "file://" lies before [path_start] *)
Definition last_slash_can_be_removed (ser : text) : bool :=
  match ser with
  | [] => false
  | _ => match rfind SLASH (removelast ser) with
         | Some i => negb (path_starts_with_wdl (skipn i ser))
         | None => false
         end
  end.

(** [Parser::pop_path] *)
Definition pop_path (ser : text) : text :=
  match ser with
  | [] => ser
  | _ => match rfind SLASH ser with
         | Some i => if is_normalized_wdl (skipn (S i) ser) then ser else firstn (S i) ser
         | None => ser (* [unwrap] would panic; a non-empty path always starts with '/' *)
         end
  end.

(** [Parser::shorten_path] *)
Definition shorten_path (ser : text) : text :=
  match ser with
  | [] => ser
  | _ => if is_normalized_wdl ser then ser else pop_path ser
  end.

(** the segment spellings of [parse_path] (ASCII codes of [".."], ["%2e%2e"], …) *)
Definition double_dots : list text :=
  [[46; 46]; [37; 50; 101; 37; 50; 101]; [37; 50; 101; 37; 50; 69]; [37; 50; 69; 37; 50; 101];
   [37; 50; 69; 37; 50; 69]; [37; 50; 101; 46]; [37; 50; 69; 46]; [46; 37; 50; 101]; [46; 37; 50; 69]].
Definition single_dots : list text := [[46]; [37; 50; 101]; [37; 50; 69]].

Definition is_double_dot (e : text) : bool := existsb (text_eqb e) double_dots.
Definition is_single_dot (e : text) : bool := existsb (text_eqb e) single_dots.

(** One turn of the outer loop of [Parser::parse_path] after the inner loop has collected the
    segment text [seg] (context UrlParser, scheme file): the pending text is pushed re-encoded with
    PATH, followed by '/' when the segment ended at a slash; then the segment is inspected. *)
Definition finish_segment (ser seg : text) (slash : bool) : text :=
  let e := utf8_pct_encode path_set seg in
  let tail := if slash then [SLASH] else [] in
  if is_double_dot e then
    (* truncate(segment_start) gives [ser] back *)
    let s1 := if ends_with_slash ser && last_slash_can_be_removed ser then removelast ser else ser in
    let s2 := shorten_path s1 in
    if slash && negb (ends_with_slash s2) then s2 ++ [SLASH] else s2
  else if is_single_dot e then
    if ends_with_slash ser then ser else ser ++ [SLASH]
  else if Nat.eqb (length ser) 1 && is_wdl e then
    (* segment_start == path_start + 1 : the first segment is a drive letter, '|' becomes ':' *)
    match e with
    | c :: _ => ser ++ [c; COLON] ++ tail
    | [] => ser ++ e ++ tail
    end
  else ser ++ e ++ tail.

(** the loops of [parse_path] in one pass: [cur] is the pending segment text *)
Fixpoint parse_path_loop (ser cur input : text) : text :=
  match input with
  | [] => finish_segment ser cur false
  | c :: r =>
      if is_sl c then parse_path_loop (finish_segment ser cur true) [] r
      else if (c =? QUESTION) || (c =? HASH) then finish_segment ser cur false
      else parse_path_loop ser (cur ++ [c]) r
  end.

Fixpoint trim_slashes (s : text) : text :=
  match s with
  | [] => []
  | c :: r => if c =? SLASH then trim_slashes r else s
  end.

(** [parse_path] for the file scheme: the loop, then the leading empty segments are removed *)
Definition parse_path (ser0 input : text) : text :=
  SLASH :: trim_slashes (parse_path_loop ser0 [] input).

(** the scheme: everything before the first ':' *)
Fixpoint take_scheme (s : text) : option (text * text) :=
  match s with
  | [] => None
  | c :: r => if c =? COLON then Some ([], r)
              else match take_scheme r with
                   | Some (a, b) => Some (c :: a, b)
                   | None => None
                   end
  end.

Fixpoint take_host (s : text) : text :=
  match s with
  | [] => []
  | c :: r => if is_special c then [] else c :: take_host r
  end.

(** [Url::parse(u).path()] for file URLs without host.
    [Parser::parse_file]: after "file:" two slashes lead to the host state (empty host: the
    serialization is "file:///" and the path is parsed from the remaining input, which still starts
    with its slash); one slash to [parse_path] on "file://"; no slash to [parse_path] on "file:///". *)
Definition url_path (u : text) : ures text :=
  let s := trim u in
  if existsb tab_or_nl s then Unmodelled
  else match take_scheme s with
       | None => Unmodelled
       | Some (scheme, rest) =>
           if negb (text_eqb (map ascii_lower scheme) [102; 105; 108; 101]) then Unmodelled
           else match rest with
                | a :: b :: r' =>
                    if is_sl a && is_sl b then
                      (if is_nil (take_host r') then UOk (parse_path [SLASH] r') else Unmodelled)
                    else if is_sl a then UOk (parse_path [] rest)
                    else UOk (parse_path [SLASH] rest)
                | [a] => if is_sl a then UOk (parse_path [] rest) else UOk (parse_path [SLASH] rest)
                | [] => UOk (parse_path [SLASH] rest)
                end
       end.

(** * emmylua_code_analysis : file_uri_handler.rs *)

(** [file_path_to_uri(path)] : [Url::from_file_path(path).ok().and_then(|url| Uri::from_str(url.as_str()).ok())];
    the result is [uri.as_str()] *)
Definition file_path_to_uri (p : text) : ures (option text) :=
  match from_file_path p with
  | None => UOk None
  | Some s => match url_path s with
              | UOk p1 => UOk (Some (FILE_PREFIX ++ p1))
              | Unmodelled => Unmodelled
              end
  end.

(** [uri_to_file_path(uri)] on a [Uri] whose [path()] is [p1] (scheme file, no host):
    [Url::parse(uri.as_str())] again — the serialization is "file://" ++ p1 (++ query/fragment, which
    start at the first '?' / '#'; [p1] itself contains neither) — then
    [percent_decode_str(url.path()).decode_utf8().ok()], then [PathBuf::from] (not on Windows). *)
Definition uri_path_to_file_path (p1 : text) : ures (option text) :=
  match url_path (FILE_PREFIX ++ p1) with
  | UOk p2 => UOk (decode_path p2)
  | Unmodelled => Unmodelled
  end.

(** the same starting from the string a client sends: [Uri::from_str(u)] first *)
Definition uri_to_file_path (u : text) : ures (option text) :=
  match url_path u with
  | UOk p1 => uri_path_to_file_path p1
  | Unmodelled => Unmodelled
  end.

(** * emmylua_code_analysis : the file-id table of Vfs (vfs/mod.rs) *)

(** [file_id_map] as an association list under [PathBuf] equality; [v_len] is [file_data.len()] *)
Record vfs := { v_map : list (text * N); v_len : N }.

Definition vfs_new : vfs := {| v_map := []; v_len := 0 |}.

Fixpoint lookup (p : text) (m : list (text * N)) : option N :=
  match m with
  | [] => None
  | (q, i) :: r => if path_eqb q p then Some i else lookup p r
  end.

(** [Vfs::file_id] : a uri without file path gets a fresh id on every call *)
Definition file_id (v : vfs) (u : text) : ures (N * vfs) :=
  match uri_to_file_path u with
  | Unmodelled => Unmodelled
  | UOk None => UOk (v_len v, {| v_map := v_map v; v_len := v_len v + 1 |})
  | UOk (Some p) =>
      match lookup p (v_map v) with
      | Some i => UOk (i, v)
      | None => UOk (v_len v, {| v_map := (p, v_len v) :: v_map v; v_len := v_len v + 1 |})
      end
  end.

(** [Vfs::get_file_id] *)
Definition get_file_id (v : vfs) (u : text) : ures (option N) :=
  match uri_to_file_path u with
  | Unmodelled => Unmodelled
  | UOk None => UOk None
  | UOk (Some p) => UOk (lookup p (v_map v))
  end.

(** a sequence of [file_id] calls ([set_file_content] starts with one): the ids handed out *)
Fixpoint file_ids (v : vfs) (us : list text) : ures (list N * vfs) :=
  match us with
  | [] => UOk ([], v)
  | u :: r => match file_id v u with
              | Unmodelled => Unmodelled
              | UOk (i, v1) => match file_ids v1 r with
                               | Unmodelled => Unmodelled
                               | UOk (is, v2) => UOk (i :: is, v2)
                               end
              end
  end.
