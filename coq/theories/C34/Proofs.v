(** C34/Proofs.v — lemmas for the C34 theorems (Props.v states them). *)
From EV Require Import Base.TextFacts Base.Utf8Facts C34.Model C34.Spec.
From Coq Require Import ZArith.
Local Open Scope N_scope.

(** * equality tests *)

Lemma text_eqb_eq : forall a b, text_eqb a b = true <-> a = b.
Proof.
  induction a as [|x a IH]; intros [|y b]; cbn [text_eqb]; split; intros H; try reflexivity; try discriminate.
  - apply andb_true_iff in H. destruct H as [H1 H2]. apply N.eqb_eq in H1. apply IH in H2. subst. reflexivity.
  - injection H as -> ->. rewrite N.eqb_refl. cbn [andb]. apply IH. reflexivity.
Qed.

Lemma text_eqb_refl : forall a, text_eqb a a = true.
Proof. intros a. apply text_eqb_eq. reflexivity. Qed.

Lemma texts_eqb_eq : forall a b, texts_eqb a b = true <-> a = b.
Proof.
  induction a as [|x a IH]; intros [|y b]; cbn [texts_eqb]; split; intros H; try reflexivity; try discriminate.
  - apply andb_true_iff in H. destruct H as [H1 H2]. apply text_eqb_eq in H1. apply IH in H2. subst. reflexivity.
  - injection H as -> ->. rewrite text_eqb_refl. cbn [andb]. apply IH. reflexivity.
Qed.

Lemma path_eqb_iff : forall a b, path_eqb a b = true <-> path_components a = path_components b.
Proof.
  intros a b. unfold path_eqb.
  destruct (path_components a) as [ra ca]. destruct (path_components b) as [rb cb].
  split; intros H.
  - apply andb_true_iff in H. destruct H as [H1 H2]. apply Bool.eqb_prop in H1.
    apply texts_eqb_eq in H2. subst. reflexivity.
  - injection H as -> ->. apply andb_true_iff. split; [apply Bool.eqb_reflx|].
    apply texts_eqb_eq. reflexivity.
Qed.

Lemma path_eqb_refl : forall a, path_eqb a a = true.
Proof. intros a. apply path_eqb_iff. reflexivity. Qed.

Lemma path_eqb_sym : forall a b, path_eqb a b = true -> path_eqb b a = true.
Proof. intros a b H. apply path_eqb_iff. symmetry. apply path_eqb_iff. exact H. Qed.

Lemma path_eqb_trans : forall a b c, path_eqb a b = true -> path_eqb b c = true -> path_eqb a c = true.
Proof.
  intros a b c H1 H2. apply path_eqb_iff. apply path_eqb_iff in H1. apply path_eqb_iff in H2. congruence.
Qed.

(** * finite checks over the generated escape tables (re-checked whenever the tables change) *)

Definition hex_chars : list N :=
  [48; 49; 50; 51; 52; 53; 54; 55; 56; 57; 65; 66; 67; 68; 69; 70; 97; 98; 99; 100; 101; 102].

Definition ascii_bytes : list N := map N.of_nat (seq 0 128).

(** [%] and the hex digits are not in PATH: the parser leaves existing escapes alone *)
Lemma table_path_keeps_escapes :
  forallb (fun c => negb (inb c path_set)) (PERCENT :: hex_chars) = true.
Proof. vm_compute. reflexivity. Qed.

(** every ASCII byte that [Url::from_file_path] leaves unescaped may stand for itself;
    [%] is always escaped *)
Lemma table_sps_literals :
  forallb (fun b => inb b special_path_segment_set || lit_ok b) ascii_bytes = true.
Proof. vm_compute. reflexivity. Qed.

Lemma table_sps_percent : inb PERCENT special_path_segment_set = true.
Proof. vm_compute. reflexivity. Qed.

Lemma in_ascii_bytes : forall b, b < 128 -> In b ascii_bytes.
Proof.
  intros b H. unfold ascii_bytes. apply in_map_iff. exists (N.to_nat b). split; [lia|].
  apply in_seq. lia.
Qed.

Lemma sps_literal : forall b, b < 128 -> inb b special_path_segment_set = false -> lit_ok b = true.
Proof.
  intros b H Hn. pose proof table_sps_literals as T.
  rewrite forallb_forall in T. specialize (T b (in_ascii_bytes b H)). rewrite Hn in T. exact T.
Qed.

Lemma hex_val_lt : forall h x, hex_val h = Some x -> 48 <= h /\ h < 128.
Proof.
  intros h x H. unfold hex_val in H.
  destruct (N.leb_spec 48 h); destruct (N.leb_spec h 57); destruct (N.leb_spec 65 h); destruct (N.leb_spec h 70);
  destruct (N.leb_spec 97 h); destruct (N.leb_spec h 102); cbn [andb] in H; try discriminate; lia.
Qed.

Lemma table_hex_chars :
  forallb (fun h => match hex_val h with Some _ => inb h hex_chars | None => true end) ascii_bytes = true.
Proof. vm_compute. reflexivity. Qed.

Lemma inb_In : forall b l, inb b l = true -> In b l.
Proof.
  intros b l H. unfold inb in H. apply existsb_exists in H. destruct H as [x [Hx E]].
  apply N.eqb_eq in E. subst. exact Hx.
Qed.

Lemma hex_val_in : forall h x, hex_val h = Some x -> In h hex_chars.
Proof.
  intros h x H. pose proof table_hex_chars as T. rewrite forallb_forall in T.
  specialize (T h (in_ascii_bytes h (proj2 (hex_val_lt h x H)))). rewrite H in T. apply inb_In. exact T.
Qed.

Lemma hex_not_in_path : forall h x, hex_val h = Some x -> inb h path_set = false.
Proof.
  intros h x H. apply hex_val_in in H. pose proof table_path_keeps_escapes as T.
  rewrite forallb_forall in T. specialize (T h (or_intror H)). apply negb_true_iff in T. exact T.
Qed.

Lemma percent_not_in_path : inb PERCENT path_set = false.
Proof. vm_compute. reflexivity. Qed.

Lemma hex_val_range : forall h x, hex_val h = Some x -> 48 <= h /\ h <= 102.
Proof.
  intros h x H. unfold hex_val in H.
  destruct (N.leb_spec 48 h); destruct (N.leb_spec h 57); destruct (N.leb_spec 65 h); destruct (N.leb_spec h 70);
  destruct (N.leb_spec 97 h); destruct (N.leb_spec h 102); cbn [andb] in H; try discriminate; lia.
Qed.

Section Arith.
Ltac Zify.zify_post_hook ::= Z.to_euclidean_division_equations.

Lemma nibbles : forall b, b < 256 -> b / 16 < 16 /\ b mod 16 < 16 /\ (b / 16) * 16 + b mod 16 = b.
Proof. intros b H. lia. Qed.

Lemma table_hex_upper :
  forallb (fun d => match hex_val (hex_upper d) with Some x => x =? d | None => false end)
          (map N.of_nat (seq 0 16)) = true.
Proof. vm_compute. reflexivity. Qed.

Lemma hex_val_upper : forall d, d < 16 -> hex_val (hex_upper d) = Some d.
Proof.
  intros d H. pose proof table_hex_upper as T. rewrite forallb_forall in T.
  assert (I : In d (map N.of_nat (seq 0 16))).
  { apply in_map_iff. exists (N.to_nat d). split; [lia|]. apply in_seq. lia. }
  specialize (T d I). destruct (hex_val (hex_upper d)) as [x|]; [|discriminate].
  apply N.eqb_eq in T. subst. reflexivity.
Qed.

End Arith.

(** * generic list facts *)

Lemma flat_map_cons_map : forall (A : Type) (f : A -> text) (l : list A),
  flat_map (fun c => SLASH :: f c) l = flat_map (cons SLASH) (map f l).
Proof.
  intros A f l. induction l as [|x l IH]; cbn [flat_map map]; [reflexivity|]. rewrite IH. reflexivity.
Qed.

Lemma filter_all : forall (A : Type) (f : A -> bool) (l : list A), forallb f l = true -> filter f l = l.
Proof.
  intros A f l. induction l as [|x l IH]; intros H; [reflexivity|]. cbn [forallb] in H.
  apply andb_true_iff in H. destruct H as [H1 H2]. cbn [filter]. rewrite H1, (IH H2). reflexivity.
Qed.

Lemma Forall2_map_r : forall (A B C : Type) (R : A -> C -> Prop) (f : B -> C) (l : list A) (m : list B),
  Forall2 (fun a b => R a (f b)) l m -> Forall2 R l (map f m).
Proof. intros A B C R f l m H. induction H; cbn [map]; constructor; assumption. Qed.

Lemma Forall2_impl : forall (A B : Type) (R S : A -> B -> Prop) l m,
  (forall a b, R a b -> S a b) -> Forall2 R l m -> Forall2 S l m.
Proof. intros A B R S l m I H. induction H; constructor; auto. Qed.

Lemma Forall2_impl_in : forall (A B : Type) (P : A -> Prop) (R S : A -> B -> Prop) l m,
  (forall a b, P a -> R a b -> S a b) -> Forall P l -> Forall2 R l m -> Forall2 S l m.
Proof.
  intros A B P R S l m I HP H. induction H; constructor.
  - inversion HP; subst. auto.
  - apply IHForall2. inversion HP; subst. assumption.
Qed.

(** * percent codec *)

Lemma pct_encode_app : forall set a b, pct_encode set (a ++ b) = pct_encode set a ++ pct_encode set b.
Proof.
  intros set a b. induction a as [|x a IH]; cbn [app pct_encode]; [reflexivity|].
  rewrite IH, app_assoc. reflexivity.
Qed.

Lemma enc_weaken : forall (L L' : cp -> bool) (U U' : bool) bs s,
  (forall b, L b = true -> L' b = true) -> (U = true -> U' = true) ->
  enc_bytes L U bs s -> enc_bytes L' U' bs s.
Proof.
  intros L L' U U' bs s HL HU H. induction H.
  - constructor.
  - apply enc_lit; auto.
  - apply enc_uni; auto.
  - eapply enc_esc; eauto.
Qed.

(** decoding an encoding gives the bytes back (the literal bytes must not be [%]) *)
Lemma enc_decode : forall L bs s, (forall b, L b = true -> b <> PERCENT) ->
  enc_bytes L false bs s -> forall rest, pct_decode (s ++ rest) = bs ++ pct_decode rest.
Proof.
  intros L bs s HL H. induction H as [|b bs s Hb Hl H IH|c bs s HU _ _ _ _|b h l bs s Hb Hh Hl H IH]; intros rest.
  - reflexivity.
  - cbn [app pct_decode]. destruct (N.eqb_spec b PERCENT) as [E|_]; [exfalso; exact (HL b Hl E)|].
    rewrite IH. reflexivity.
  - discriminate.
  - cbn [app pct_decode]. rewrite N.eqb_refl, Hh, Hl, IH.
    destruct (nibbles b Hb) as [_ [_ E]]. rewrite E. reflexivity.
Qed.

Lemma hex_lt128 : forall h x, hex_val h = Some x -> (h <? 128) = true.
Proof. intros h x H. apply hex_val_range in H. apply N.ltb_lt. lia. Qed.

Lemma enc_ascii : forall L bs s, enc_bytes L false bs s -> all_ascii s = true.
Proof.
  intros L bs s H. induction H as [|b bs s Hb Hl H IH|c bs s HU _ _ _ _|b h l bs s Hb Hh Hl H IH].
  - reflexivity.
  - cbn [all_ascii forallb]. apply andb_true_iff. split; [apply N.ltb_lt; exact Hb|exact IH].
  - discriminate.
  - cbn [all_ascii forallb]. rewrite (hex_lt128 _ _ Hh), (hex_lt128 _ _ Hl). exact IH.
Qed.

(** a plain character: the path parser just collects it into the current segment *)
Definition plain_char (c : cp) : Prop := 32 < c /\ is_special c = false.

Lemma lit_ok_plain : forall c, lit_ok c = true -> plain_char c /\ c <> PERCENT.
Proof.
  intros c H. unfold lit_ok in H. apply andb_true_iff in H. destruct H as [H1 H2].
  apply N.ltb_lt in H1. apply negb_true_iff in H2. apply orb_false_iff in H2. destruct H2 as [H2 H3].
  apply N.eqb_neq in H2. split; [split; assumption|assumption].
Qed.

Lemma high_plain : forall c, 128 <= c -> plain_char c.
Proof.
  intros c H. split; [lia|]. unfold is_special, is_sl, SLASH, BACKSLASH, QUESTION, HASH.
  destruct (N.eqb_spec c 47); [lia|]. destruct (N.eqb_spec c 92); [lia|].
  destruct (N.eqb_spec c 63); [lia|]. destruct (N.eqb_spec c 35); [lia|]. reflexivity.
Qed.

Lemma hex_plain : forall h x, hex_val h = Some x -> plain_char h.
Proof.
  intros h x H. apply hex_val_in in H. unfold hex_chars in H. cbn [In] in H.
  repeat (destruct H as [H|H]; [subst h; split; [reflexivity|reflexivity]|]). contradiction.
Qed.

Lemma percent_plain : plain_char PERCENT.
Proof. split; [unfold PERCENT; lia|reflexivity]. Qed.

Lemma enc_plain : forall L U bs s, (forall b, L b = true -> plain_char b) ->
  enc_bytes L U bs s -> Forall plain_char s.
Proof.
  intros L U bs s HL H. induction H as [|b bs s Hb Hl H IH|c bs s HU Hc _ H IH|b h l bs s Hb Hh Hl H IH].
  - constructor.
  - constructor; [apply HL; exact Hl|exact IH].
  - constructor; [apply high_plain; exact Hc|exact IH].
  - constructor; [exact percent_plain|]. constructor; [exact (hex_plain _ _ Hh)|].
    constructor; [exact (hex_plain _ _ Hl)|exact IH].
Qed.

Lemma enc_nonempty : forall L U bs s, enc_bytes L U bs s -> bs <> [] -> s <> [].
Proof. intros L U bs s H Hn. destruct H; [contradiction|discriminate|discriminate|discriminate]. Qed.

(** what stays literal after the parser has re-read a segment *)
Definition lit_clean (b : cp) : bool := lit_ok b && negb (inb b path_set).

Lemma lit_clean_ok : forall b, lit_clean b = true -> lit_ok b = true.
Proof. intros b H. unfold lit_clean in H. apply andb_true_iff in H. tauto. Qed.

Lemma pct_byte_enc : forall L U b bs s, b < 256 -> enc_bytes L U bs s -> enc_bytes L U (b :: bs) (pct_byte b ++ s).
Proof.
  intros L U b bs s Hb H. unfold pct_byte. cbn [app].
  destruct (nibbles b Hb) as [H1 [H2 _]].
  apply enc_esc; [exact Hb|apply hex_val_upper; exact H1|apply hex_val_upper; exact H2|exact H].
Qed.

Lemma pct_high_enc : forall L U set hs bs s, Forall (fun b => 128 <= b /\ b < 256) hs ->
  enc_bytes L U bs s -> enc_bytes L U (hs ++ bs) (pct_encode set hs ++ s).
Proof.
  intros L U set hs bs s Hh H. induction Hh as [|b hs [Hb1 Hb2] _ IH]; [exact H|].
  cbn [app pct_encode]. unfold should_encode. destruct (N.leb_spec 128 b); [|lia]. cbn [orb].
  rewrite <- app_assoc. apply pct_byte_enc; assumption.
Qed.

(** [parse_path] re-encodes a segment: the result is again an encoding of the same bytes, now in
    the clean form (ASCII only, nothing from PATH literal) *)
Lemma enc_reencode : forall bs s, enc_bytes lit_ok true bs s ->
  enc_bytes lit_clean false bs (utf8_pct_encode path_set s).
Proof.
  intros bs s H. unfold utf8_pct_encode.
  induction H as [|b bs s Hb Hl H IH|c bs s HU Hc Hs H IH|b h l bs s Hb Hh Hl H IH].
  - constructor.
  - cbn [utf8_encode]. rewrite utf8_encode_cp_ascii by exact Hb. cbn [app pct_encode].
    unfold should_encode. destruct (N.leb_spec 128 b); [lia|]. cbn [orb].
    destruct (inb b path_set) eqn:E.
    + apply pct_byte_enc; [lia|exact IH].
    + cbn [app]. apply enc_lit; [exact Hb| |exact IH]. unfold lit_clean. rewrite Hl, E. reflexivity.
  - cbn [utf8_encode]. rewrite pct_encode_app. apply pct_high_enc; [|exact IH].
    pose proof (utf8_encode_cp_bytes c Hs) as B1. pose proof (utf8_encode_cp_high c Hc) as B2.
    rewrite Forall_forall in *. intros x Hx. split; [apply B2|apply B1]; exact Hx.
  - pose proof (hex_lt128 _ _ Hh) as Ah. pose proof (hex_lt128 _ _ Hl) as Al.
    apply N.ltb_lt in Ah. apply N.ltb_lt in Al.
    cbn [utf8_encode]. rewrite (utf8_encode_cp_ascii PERCENT) by (unfold PERCENT; lia).
    rewrite (utf8_encode_cp_ascii h) by exact Ah. rewrite (utf8_encode_cp_ascii l) by exact Al.
    cbn [app pct_encode]. unfold should_encode.
    rewrite percent_not_in_path, (hex_not_in_path _ _ Hh), (hex_not_in_path _ _ Hl).
    destruct (N.leb_spec 128 PERCENT) as [X|_]; [unfold PERCENT in X; lia|].
    destruct (N.leb_spec 128 h); [lia|]. destruct (N.leb_spec 128 l); [lia|].
    cbn [orb app]. eapply enc_esc; eauto.
Qed.

(** a clean encoding is a fixed point of the re-encoding *)
Lemma enc_clean_fix : forall bs s, enc_bytes lit_clean false bs s -> utf8_pct_encode path_set s = s.
Proof.
  intros bs s H. unfold utf8_pct_encode.
  induction H as [|b bs s Hb Hl H IH|c bs s HU _ _ _ _|b h l bs s Hb Hh Hl H IH].
  - reflexivity.
  - cbn [utf8_encode]. rewrite utf8_encode_cp_ascii by exact Hb. cbn [app pct_encode].
    unfold should_encode. destruct (N.leb_spec 128 b); [lia|]. cbn [orb].
    unfold lit_clean in Hl. apply andb_true_iff in Hl. destruct Hl as [_ Hl]. apply negb_true_iff in Hl.
    rewrite Hl. cbn [app]. rewrite IH. reflexivity.
  - discriminate.
  - pose proof (hex_lt128 _ _ Hh) as Ah. pose proof (hex_lt128 _ _ Hl) as Al.
    apply N.ltb_lt in Ah. apply N.ltb_lt in Al.
    cbn [utf8_encode]. rewrite (utf8_encode_cp_ascii PERCENT) by (unfold PERCENT; lia).
    rewrite (utf8_encode_cp_ascii h) by exact Ah. rewrite (utf8_encode_cp_ascii l) by exact Al.
    cbn [app pct_encode]. unfold should_encode.
    rewrite percent_not_in_path, (hex_not_in_path _ _ Hh), (hex_not_in_path _ _ Hl).
    destruct (N.leb_spec 128 PERCENT) as [X|_]; [unfold PERCENT in X; lia|].
    destruct (N.leb_spec 128 h); [lia|]. destruct (N.leb_spec 128 l); [lia|].
    cbn [orb app]. rewrite IH. reflexivity.
Qed.

(** the canonical encoder produces an encoding: escaped bytes upper-case, the rest literal *)
Lemma enc_canonical : forall set bs, Forall (fun b => b < 256) bs ->
  enc_bytes (fun b => negb (inb b set)) false bs (pct_encode set bs).
Proof.
  intros set bs H. induction H as [|b bs Hb _ IH]; [constructor|].
  cbn [pct_encode]. unfold should_encode.
  destruct (N.leb_spec 128 b) as [Hh|Hh]; cbn [orb].
  - apply pct_byte_enc; assumption.
  - destruct (inb b set) eqn:E.
    + apply pct_byte_enc; assumption.
    + cbn [app]. apply enc_lit; [exact Hh|rewrite E; reflexivity|exact IH].
Qed.

(** [percent_decode(percent_encode(bytes, set)) == bytes] whenever the set contains [%] *)
Lemma percent_roundtrip : forall set bs, inb PERCENT set = true -> Forall (fun b => b < 256) bs ->
  pct_decode (pct_encode set bs) = bs.
Proof.
  intros set bs Hp H. pose proof (enc_canonical set bs H) as E.
  assert (HL : forall b, negb (inb b set) = true -> b <> PERCENT).
  { intros b Hb Eq. subst b. rewrite Hp in Hb. discriminate. }
  pose proof (enc_decode _ _ _ HL E []) as D.
  rewrite !app_nil_r in D. exact D.
Qed.

Lemma utf8_bytes_lt256 : forall t, scalar_text t = true -> Forall (fun b => b < 256) (utf8_encode t).
Proof.
  induction t as [|c t IH]; intros H; [constructor|].
  cbn [scalar_text forallb] in H. apply andb_true_iff in H. destruct H as [Hc Ht].
  cbn [utf8_encode]. apply Forall_app. split; [apply utf8_encode_cp_bytes; exact Hc|apply IH; exact Ht].
Qed.

(** the encoding chosen by [Url::from_file_path] *)
Lemma enc_from_file_path : forall c, scalar_text c = true ->
  enc_bytes lit_ok true (utf8_encode c) (pct_encode special_path_segment_set (utf8_encode c)).
Proof.
  intros c H. pose proof (enc_canonical special_path_segment_set _ (utf8_bytes_lt256 c H)) as E.
  clear H. induction E as [|b bs s Hb Hl H IH|c0 bs s HU _ _ _ _|b h l bs s Hb Hh Hl H IH].
  - constructor.
  - apply enc_lit; [exact Hb| |exact IH]. apply sps_literal; [exact Hb|]. apply negb_true_iff. exact Hl.
  - discriminate.
  - eapply enc_esc; eauto.
Qed.

(** * dot segments *)

Lemma double_dot_decode : forall e, is_double_dot e = true -> pct_decode e = [DOT; DOT].
Proof.
  intros e H. unfold is_double_dot in H. apply existsb_exists in H. destruct H as [d [Hin Heq]].
  apply text_eqb_eq in Heq. subst e. unfold double_dots in Hin. cbn [In] in Hin.
  repeat (destruct Hin as [<-|Hin]; [reflexivity|]). contradiction.
Qed.

Lemma single_dot_decode : forall e, is_single_dot e = true -> pct_decode e = [DOT].
Proof.
  intros e H. unfold is_single_dot in H. apply existsb_exists in H. destruct H as [d [Hin Heq]].
  apply text_eqb_eq in Heq. subst e. unfold single_dots in Hin. cbn [In] in Hin.
  repeat (destruct Hin as [<-|Hin]; [reflexivity|]). contradiction.
Qed.

Lemma lit_clean_not_percent : forall b, lit_clean b = true -> b <> PERCENT.
Proof. intros b H. apply lit_clean_ok in H. apply lit_ok_plain in H. tauto. Qed.

Lemma not_dot : forall c e, good_comp c = true -> scalar_text c = true ->
  enc_bytes lit_clean false (utf8_encode c) e -> is_double_dot e = false /\ is_single_dot e = false.
Proof.
  intros c e Hg Hs He.
  pose proof (enc_decode _ _ _ lit_clean_not_percent He []) as D. rewrite !app_nil_r in D.
  unfold good_comp in Hg. apply andb_true_iff in Hg. destruct Hg as [Hg H2].
  apply andb_true_iff in Hg. destruct Hg as [_ H1].
  split.
  - destruct (is_double_dot e) eqn:E; [|reflexivity]. apply double_dot_decode in E. rewrite E in D.
    assert (X : c = [DOT; DOT]).
    { apply utf8_encode_inj; [exact Hs|reflexivity|]. rewrite <- D. reflexivity. }
    subst c. discriminate.
  - destruct (is_single_dot e) eqn:E; [|reflexivity]. apply single_dot_decode in E. rewrite E in D.
    assert (X : c = [DOT]).
    { apply utf8_encode_inj; [exact Hs|reflexivity|]. rewrite <- D. reflexivity. }
    subst c. discriminate.
Qed.

(** * the path loop on plain segments *)

Lemma plain_branches : forall c, plain_char c -> is_sl c = false /\ ((c =? QUESTION) || (c =? HASH)) = false.
Proof.
  intros c [_ H]. unfold is_special in H. apply orb_false_iff in H. destruct H as [H H3].
  apply orb_false_iff in H. destruct H as [H1 H2]. rewrite H2, H3. tauto.
Qed.

Lemma loop_plain : forall s ser cur r, Forall plain_char s ->
  parse_path_loop ser cur (s ++ r) = parse_path_loop ser (cur ++ s) r.
Proof.
  induction s as [|c s IH]; intros ser cur r H.
  - rewrite app_nil_r. reflexivity.
  - inversion H as [|? ? Hc Hs]; subst. destruct (plain_branches c Hc) as [B1 B2].
    cbn [app parse_path_loop]. rewrite B1, B2. rewrite IH by exact Hs. rewrite <- app_assoc. reflexivity.
Qed.

(** a segment the loop passes through unchanged (apart from the re-encoding) *)
Definition seg_fine (s : text) : Prop :=
  Forall plain_char s /\
  is_double_dot (utf8_pct_encode path_set s) = false /\
  is_single_dot (utf8_pct_encode path_set s) = false.

Definition reenc (s : text) : text := utf8_pct_encode path_set s.

Lemma finish_fine : forall ser s slash, (2 <= length ser)%nat -> seg_fine s ->
  finish_segment ser s slash = ser ++ reenc s ++ (if slash then [SLASH] else []).
Proof.
  intros ser s slash Hl [_ [H1 H2]]. unfold finish_segment, reenc. rewrite H1, H2.
  destruct (Nat.eqb_spec (length ser) 1) as [E|_]; [lia|]. reflexivity.
Qed.

Definition join1 (s1 : text) (rest : list text) : text := s1 ++ flat_map (cons SLASH) rest.

Lemma loop_segs : forall rest s1 ser, (2 <= length ser)%nat -> Forall seg_fine (s1 :: rest) ->
  parse_path_loop ser [] (join1 s1 rest) = ser ++ join1 (reenc s1) (map reenc rest).
Proof.
  induction rest as [|s2 rest IH]; intros s1 ser Hl HF; inversion HF as [|? ? H1 HR]; subst.
  - unfold join1. cbn [flat_map map]. rewrite loop_plain by (destruct H1; assumption).
    cbn [app parse_path_loop]. rewrite finish_fine by assumption. reflexivity.
  - unfold join1. cbn [flat_map map]. rewrite loop_plain by (destruct H1; assumption).
    cbn [app parse_path_loop]. replace (is_sl SLASH) with true by reflexivity.
    rewrite finish_fine by assumption.
    fold (join1 s2 rest). rewrite IH; [|rewrite !app_length; cbn [length]; lia|exact HR].
    unfold join1. rewrite <- !app_assoc. reflexivity.
Qed.

(** * trimming *)

Definition visible (c : cp) : Prop := 32 < c.

Lemma visible_not_c0 : forall c, visible c -> c0_or_space c = false.
Proof. intros c H. unfold c0_or_space, visible in *. destruct (N.leb_spec c 32); [lia|reflexivity]. Qed.

Lemma trim_start_visible : forall s, Forall visible s -> trim_start s = s.
Proof.
  intros s H. destruct H as [|c s Hc _]; [reflexivity|]. cbn [trim_start].
  rewrite (visible_not_c0 c Hc). reflexivity.
Qed.

Lemma trim_end_visible : forall s, Forall visible s -> trim_end s = s.
Proof.
  intros s H. induction H as [|c s Hc _ IH]; [reflexivity|]. cbn [trim_end]. rewrite IH.
  destruct s; [|reflexivity]. rewrite (visible_not_c0 c Hc). reflexivity.
Qed.

Lemma trim_visible : forall s, Forall visible s -> trim s = s.
Proof. intros s H. unfold trim. rewrite trim_start_visible by exact H. apply trim_end_visible. exact H. Qed.

Lemma no_tab_visible : forall s, Forall visible s -> existsb tab_or_nl s = false.
Proof.
  intros s H. induction H as [|c s Hc _ IH]; [reflexivity|]. cbn [existsb]. rewrite IH.
  unfold tab_or_nl, visible in *.
  destruct (N.eqb_spec c 9); [lia|]. destruct (N.eqb_spec c 10); [lia|]. destruct (N.eqb_spec c 13); [lia|].
  reflexivity.
Qed.

Lemma plain_visible : forall s, Forall plain_char s -> Forall visible s.
Proof. intros s H. eapply Forall_impl; [|exact H]. intros c [Hc _]. exact Hc. Qed.

Lemma flat_visible : forall segs, Forall (Forall plain_char) segs -> Forall visible (flat_map (cons SLASH) segs).
Proof.
  intros segs H. induction H as [|s segs Hs _ IH]; [constructor|].
  cbn [flat_map app]. constructor; [unfold visible, SLASH; lia|].
  apply Forall_app. split; [apply plain_visible; exact Hs|exact IH].
Qed.

Lemma prefix_visible : forall s, Forall visible s -> Forall visible (FILE_PREFIX ++ s).
Proof.
  intros s H. unfold FILE_PREFIX. cbn [app]. repeat (constructor; [unfold visible; lia|]). exact H.
Qed.

(** * the parser on "file://" followed by fine segments *)

Lemma url_path_prefix : forall x, Forall visible x ->
  url_path (FILE_PREFIX ++ SLASH :: x) = UOk (parse_path [SLASH] (SLASH :: x)).
Proof.
  intros x H. unfold url_path.
  assert (V : Forall visible (FILE_PREFIX ++ SLASH :: x)).
  { apply prefix_visible. constructor; [unfold visible, SLASH; lia|exact H]. }
  rewrite trim_visible by exact V. rewrite no_tab_visible by exact V. reflexivity.
Qed.

Lemma trim_slashes_plain : forall c s, plain_char c -> trim_slashes (c :: s) = c :: s.
Proof.
  intros c s [_ H]. cbn [trim_slashes]. unfold is_special, is_sl in H.
  destruct (N.eqb_spec c SLASH); [discriminate|reflexivity].
Qed.

Lemma url_path_segs : forall s1 rest, Forall seg_fine (s1 :: rest) ->
  (exists c t, reenc s1 = c :: t /\ plain_char c) ->
  url_path (FILE_PREFIX ++ flat_map (cons SLASH) (s1 :: rest)) =
  UOk (flat_map (cons SLASH) (map reenc (s1 :: rest))).
Proof.
  intros s1 rest HF [c [t [Hc Hp]]]. cbn [flat_map map app].
  rewrite url_path_prefix.
  2:{ apply Forall_app. inversion HF as [|? ? [H1 _] HR]; subst. split; [apply plain_visible; exact H1|].
      apply flat_visible. eapply Forall_impl; [|exact HR]. intros s [Hs _]. exact Hs. }
  unfold parse_path. cbn [parse_path_loop]. replace (is_sl SLASH) with true by reflexivity.
  replace (finish_segment [SLASH] [] true) with [SLASH; SLASH] by reflexivity.
  fold (join1 s1 rest). rewrite loop_segs; [|cbn [length]; lia|exact HF].
  unfold join1. cbn [app trim_slashes]. replace (SLASH =? SLASH) with true by reflexivity.
  rewrite Hc. cbn [app]. rewrite trim_slashes_plain by exact Hp. reflexivity.
Qed.

(** * encodings of a list of components *)

Definition enc_comps (L : cp -> bool) (U : bool) (comps segs : list text) : Prop :=
  Forall2 (fun c s => enc_bytes L U (utf8_encode c) s) comps segs.

Definition good_comps (comps : list text) : Prop :=
  Forall (fun c => good_comp c = true /\ scalar_text c = true) comps.

Lemma good_nonempty_bytes : forall c, good_comp c = true -> utf8_encode c <> [].
Proof.
  intros c H. destruct c as [|x c]; [discriminate|]. cbn [utf8_encode]. intros E.
  apply app_eq_nil in E. destruct E as [E _]. exact (utf8_encode_cp_nonempty x E).
Qed.

Lemma lit_ok_plain_char : forall b, lit_ok b = true -> plain_char b.
Proof. intros b H. apply lit_ok_plain in H. tauto. Qed.

Lemma lit_clean_plain_char : forall b, lit_clean b = true -> plain_char b.
Proof. intros b H. apply lit_ok_plain_char. apply lit_clean_ok. exact H. Qed.

Lemma enc_seg_fine : forall c s, good_comp c = true -> scalar_text c = true ->
  enc_bytes lit_ok true (utf8_encode c) s -> seg_fine s.
Proof.
  intros c s Hg Hs He. split; [exact (enc_plain _ _ _ _ lit_ok_plain_char He)|].
  apply (not_dot c); [exact Hg|exact Hs|]. apply enc_reencode. exact He.
Qed.

(** first parse: any encoding of good components is read as its clean re-encoding *)
Lemma url_path_enc : forall comps segs, comps <> [] -> good_comps comps -> enc_comps lit_ok true comps segs ->
  url_path (FILE_PREFIX ++ flat_map (cons SLASH) segs) = UOk (flat_map (cons SLASH) (map reenc segs)) /\
  enc_comps lit_clean false comps (map reenc segs).
Proof.
  intros comps segs Hne Hg He. split.
  - destruct He as [|c s comps segs Hcs He]; [contradiction|].
    inversion Hg as [|? ? [Hgc Hsc] Hg']; subst.
    apply url_path_segs.
    + constructor; [exact (enc_seg_fine c s Hgc Hsc Hcs)|].
      clear Hne Hg Hcs. induction He as [|c' s' comps segs H' _ IH]; [constructor|].
      inversion Hg' as [|? ? [Hg1 Hs1] Hg2]; subst. constructor; [exact (enc_seg_fine c' s' Hg1 Hs1 H')|].
      apply IH. exact Hg2.
    + pose proof (enc_reencode _ _ Hcs) as R.
      pose proof (enc_nonempty _ _ _ _ R (good_nonempty_bytes c Hgc)) as N.
      pose proof (enc_plain _ _ _ _ lit_clean_plain_char R) as P.
      unfold reenc. destruct (utf8_pct_encode path_set s) as [|x t]; [contradiction|].
      exists x, t. split; [reflexivity|]. inversion P; assumption.
  - apply Forall2_map_r. eapply Forall2_impl; [|exact He]. intros c s H. apply enc_reencode. exact H.
Qed.

Lemma map_reenc_clean : forall comps segs, enc_comps lit_clean false comps segs -> map reenc segs = segs.
Proof.
  intros comps segs H. induction H as [|c s comps segs Hcs _ IH]; [reflexivity|].
  cbn [map]. rewrite IH. unfold reenc. rewrite (enc_clean_fix _ _ Hcs). reflexivity.
Qed.

Lemma clean_is_enc : forall comps segs, enc_comps lit_clean false comps segs -> enc_comps lit_ok true comps segs.
Proof.
  intros comps segs H. eapply Forall2_impl; [|exact H]. intros c s E.
  eapply enc_weaken; [exact lit_clean_ok|intros _; reflexivity|exact E].
Qed.

Lemma clean_all_ascii : forall comps segs, enc_comps lit_clean false comps segs ->
  all_ascii (flat_map (cons SLASH) segs) = true.
Proof.
  intros comps segs H. induction H as [|c s comps segs Hcs _ IH]; [reflexivity|].
  cbn [flat_map]. rewrite all_ascii_app, IH. cbn [all_ascii forallb]. fold (all_ascii s).
  rewrite (enc_ascii _ _ _ Hcs). reflexivity.
Qed.

Lemma clean_decode : forall comps segs, enc_comps lit_clean false comps segs ->
  pct_decode (flat_map (cons SLASH) segs) = utf8_encode (flat_map (cons SLASH) comps).
Proof.
  intros comps segs H. induction H as [|c s comps segs Hcs _ IH]; [reflexivity|].
  cbn [flat_map app]. cbn [pct_decode]. replace (SLASH =? PERCENT) with false by reflexivity.
  rewrite (enc_decode _ _ _ lit_clean_not_percent Hcs). rewrite IH.
  cbn [utf8_encode]. rewrite utf8_encode_app. reflexivity.
Qed.

(** second parse and decoding *)
Lemma uri_path_clean : forall comps segs, comps <> [] -> good_comps comps -> enc_comps lit_clean false comps segs ->
  uri_path_to_file_path (flat_map (cons SLASH) segs) = UOk (Some (flat_map (cons SLASH) comps)).
Proof.
  intros comps segs Hne Hg He. unfold uri_path_to_file_path.
  destruct (url_path_enc comps segs Hne Hg (clean_is_enc _ _ He)) as [E _].
  rewrite E. rewrite (map_reenc_clean _ _ He). unfold decode_path.
  rewrite (utf8_encode_ascii _ (clean_all_ascii _ _ He)). rewrite (clean_decode _ _ He).
  rewrite utf8_decode_encode; [reflexivity|].
  clear Hne He. induction Hg as [|c comps [_ Hs] _ IH]; [reflexivity|].
  cbn [flat_map]. rewrite scalar_text_app, IH. cbn [scalar_text forallb]. fold (scalar_text c).
  rewrite Hs. reflexivity.
Qed.

Lemma uri_enc_decodes : forall comps segs, comps <> [] -> good_comps comps -> enc_comps lit_ok true comps segs ->
  uri_to_file_path (FILE_PREFIX ++ flat_map (cons SLASH) segs) = UOk (Some (flat_map (cons SLASH) comps)).
Proof.
  intros comps segs Hne Hg He. unfold uri_to_file_path.
  destruct (url_path_enc comps segs Hne Hg He) as [E C]. rewrite E.
  apply uri_path_clean; assumption.
Qed.

(** * normalised absolute paths and their components *)

Lemma split_on_nonnil : forall sep s, split_on sep s <> [].
Proof.
  intros sep s. induction s as [|c s IH]; cbn [split_on]; [discriminate|].
  destruct (c =? sep); [discriminate|]. destruct (split_on sep s); [contradiction|discriminate].
Qed.

Lemma join_split : forall r, SLASH :: r = flat_map (cons SLASH) (split_on SLASH r).
Proof.
  induction r as [|c r IH]; [reflexivity|]. cbn [split_on].
  destruct (N.eqb_spec c SLASH) as [E|E].
  - subst c. cbn [flat_map app]. rewrite <- IH. reflexivity.
  - pose proof (split_on_nonnil SLASH r) as N. destruct (split_on SLASH r) as [|x xs]; [contradiction|].
    cbn [flat_map app] in *. injection IH as IH. rewrite IH. reflexivity.
Qed.

Lemma split_scalar : forall r, scalar_text r = true -> Forall (fun c => scalar_text c = true) (split_on SLASH r).
Proof.
  induction r as [|c r IH]; intros H; [repeat constructor|].
  cbn [scalar_text forallb] in H. apply andb_true_iff in H. destruct H as [Hc Hr].
  specialize (IH Hr). cbn [split_on]. destruct (c =? SLASH); [constructor; [reflexivity|exact IH]|].
  pose proof (split_on_nonnil SLASH r) as N. destruct (split_on SLASH r) as [|x xs]; [contradiction|].
  inversion IH; subst. constructor; [|assumption]. cbn [scalar_text forallb]. rewrite Hc. assumption.
Qed.

(** a normalised absolute path is "/" or the join of its good components *)
Lemma normalized_shape : forall p, normalized_abs p = true -> scalar_text p = true ->
  p = [SLASH] /\ comps_of p = [] \/
  comps_of p <> [] /\ good_comps (comps_of p) /\ p = flat_map (cons SLASH) (comps_of p) /\
  path_components p = (true, comps_of p).
Proof.
  intros p H Hs. destruct p as [|c r]; [discriminate|]. cbn [normalized_abs] in H.
  apply andb_true_iff in H. destruct H as [Hc H]. apply N.eqb_eq in Hc. subst c.
  destruct r as [|c r]; [left; split; reflexivity|]. right.
  cbn [is_nil orb] in H. cbn [comps_of].
  change (scalar_text ([SLASH] ++ c :: r) = true) in Hs. rewrite scalar_text_app in Hs.
  apply andb_true_iff in Hs. destruct Hs as [_ Hs]. pose proof (split_scalar _ Hs) as S.
  rewrite forallb_forall in H. rewrite Forall_forall in S.
  split; [apply split_on_nonnil|]. split.
  - apply Forall_forall. intros x Hx. split; [apply H; exact Hx|apply S; exact Hx].
  - split; [apply join_split|]. cbn [path_components]. replace (SLASH =? SLASH) with true by reflexivity.
    f_equal. apply filter_all. apply forallb_forall. intros x Hx. specialize (H x Hx).
    unfold good_comp in H. unfold normal_comp. apply andb_true_iff in H. destruct H as [H _]. exact H.
Qed.

(** * the two headline facts *)

Lemma root_decodes : uri_to_file_path (FILE_PREFIX ++ [SLASH]) = UOk (Some [SLASH]).
Proof. vm_compute. reflexivity. Qed.

Lemma root_to_uri : file_path_to_uri [SLASH] = UOk (Some (FILE_PREFIX ++ [SLASH])).
Proof. vm_compute. reflexivity. Qed.

Lemma any_encoding_decodes : forall p u,
  normalized_abs p = true -> scalar_text p = true -> uri_encodes p u ->
  uri_to_file_path u = UOk (Some p).
Proof.
  intros p u Hn Hs [segs [HF Hu]]. subst u.
  destruct (normalized_shape p Hn Hs) as [[Hp Hc]|[Hne [Hg [Hp _]]]].
  - rewrite Hc in HF. inversion HF; subst. exact root_decodes.
  - assert (segs <> []) as Hsn. { intros ->. inversion HF as [E|]. apply Hne. symmetry. exact E. }
    destruct segs as [|s segs]; [contradiction|].
    etransitivity; [apply (uri_enc_decodes (comps_of p) (s :: segs)); assumption|].
    rewrite <- Hp. reflexivity.
Qed.

Lemma path_uri_roundtrip : forall p,
  normalized_abs p = true -> scalar_text p = true ->
  exists u, file_path_to_uri p = UOk (Some u) /\ uri_to_file_path u = UOk (Some p).
Proof.
  intros p Hn Hs.
  destruct (normalized_shape p Hn Hs) as [[Hp Hc]|[Hne [Hg [Hp Hpc]]]].
  - subst p. exists (FILE_PREFIX ++ [SLASH]). split; [exact root_to_uri|exact root_decodes].
  - remember (comps_of p) as comps eqn:Ec.
    pose (segs := map (fun c => pct_encode special_path_segment_set (utf8_encode c)) comps).
    assert (He : enc_comps lit_ok true comps segs).
    { unfold segs. apply Forall2_map_r. clear Ec Hne Hp Hpc.
      induction Hg as [|c comps [_ Hsc] _ IH]; constructor; [apply enc_from_file_path; exact Hsc|exact IH]. }
    assert (Hff : from_file_path p = Some (FILE_PREFIX ++ flat_map (cons SLASH) segs)).
    { unfold from_file_path. rewrite Hpc. unfold segs. rewrite <- flat_map_cons_map.
      destruct comps; [contradiction|reflexivity]. }
    destruct (url_path_enc comps segs Hne Hg He) as [E C].
    exists (FILE_PREFIX ++ flat_map (cons SLASH) (map reenc segs)). split.
    + unfold file_path_to_uri. rewrite Hff, E. reflexivity.
    + etransitivity; [apply (uri_enc_decodes comps (map reenc segs)); [exact Hne|exact Hg|apply clean_is_enc; exact C]|].
      rewrite <- Hp. reflexivity.
Qed.

(** * the file-id table *)

Lemma lookup_eqv : forall m p q, path_eqb p q = true -> lookup p m = lookup q m.
Proof.
  induction m as [|[k i] m IH]; intros p q H; [reflexivity|]. cbn [lookup].
  destruct (path_eqb k p) eqn:E1; destruct (path_eqb k q) eqn:E2; try reflexivity.
  - rewrite (path_eqb_trans _ _ _ E1 H) in E2. discriminate.
  - rewrite (path_eqb_trans _ _ _ E2 (path_eqb_sym _ _ H)) in E1. discriminate.
  - apply IH. exact H.
Qed.

Lemma file_id_result : forall v u p i v1,
  uri_to_file_path u = UOk (Some p) -> file_id v u = UOk (i, v1) -> lookup p (v_map v1) = Some i.
Proof.
  intros v u p i v1 Hu H. unfold file_id in H. rewrite Hu in H.
  destruct (lookup p (v_map v)) eqn:E; injection H as <- <-; [exact E|].
  cbn [v_map lookup]. rewrite path_eqb_refl. reflexivity.
Qed.

Lemma file_id_of_lookup : forall v u p i,
  uri_to_file_path u = UOk (Some p) -> lookup p (v_map v) = Some i -> file_id v u = UOk (i, v).
Proof. intros v u p i Hu H. unfold file_id. rewrite Hu, H. reflexivity. Qed.

Lemma file_id_preserves : forall v u j v1 p i,
  file_id v u = UOk (j, v1) -> lookup p (v_map v) = Some i -> lookup p (v_map v1) = Some i.
Proof.
  intros v u j v1 p i H Hl. unfold file_id in H.
  destruct (uri_to_file_path u) as [[q|]|]; [| |discriminate].
  - destruct (lookup q (v_map v)) eqn:E; injection H as <- <-; [exact Hl|].
    cbn [v_map lookup]. destruct (path_eqb q p) eqn:Q; [|exact Hl].
    rewrite (lookup_eqv _ _ _ Q) in E. rewrite E in Hl. discriminate.
  - injection H as <- <-. exact Hl.
Qed.

Lemma file_ids_preserve : forall us v js v2 p i,
  file_ids v us = UOk (js, v2) -> lookup p (v_map v) = Some i -> lookup p (v_map v2) = Some i.
Proof.
  induction us as [|u us IH]; intros v js v2 p i H Hl; cbn [file_ids] in H.
  - injection H as <- <-. exact Hl.
  - destruct (file_id v u) as [[j v1]|] eqn:E; [|discriminate].
    destruct (file_ids v1 us) as [[js' v2']|] eqn:E2; [|discriminate]. injection H as <- <-.
    eapply IH; [exact E2|]. eapply file_id_preserves; eassumption.
Qed.

Lemma same_decoding_same_file : forall v u1 u2 p1 p2 i v1,
  uri_to_file_path u1 = UOk (Some p1) -> uri_to_file_path u2 = UOk (Some p2) -> path_eqb p1 p2 = true ->
  file_id v u1 = UOk (i, v1) ->
  file_id v1 u2 = UOk (i, v1) /\ get_file_id v1 u1 = UOk (Some i) /\ get_file_id v1 u2 = UOk (Some i).
Proof.
  intros v u1 u2 p1 p2 i v1 H1 H2 He Hf.
  pose proof (file_id_result _ _ _ _ _ H1 Hf) as L1.
  assert (L2 : lookup p2 (v_map v1) = Some i) by (rewrite <- (lookup_eqv _ _ _ He); exact L1).
  split; [exact (file_id_of_lookup _ _ _ _ H2 L2)|].
  unfold get_file_id. rewrite H1, H2, L1, L2. split; reflexivity.
Qed.

Lemma file_id_stable : forall v u1 u2 p1 p2 i v1 us js v2,
  uri_to_file_path u1 = UOk (Some p1) -> uri_to_file_path u2 = UOk (Some p2) -> path_eqb p1 p2 = true ->
  file_id v u1 = UOk (i, v1) -> file_ids v1 us = UOk (js, v2) ->
  file_id v2 u2 = UOk (i, v2).
Proof.
  intros v u1 u2 p1 p2 i v1 us js v2 H1 H2 He Hf Hs.
  pose proof (file_id_result _ _ _ _ _ H1 Hf) as L1.
  pose proof (file_ids_preserve _ _ _ _ _ _ Hs L1) as L1'.
  apply (file_id_of_lookup _ _ p2); [exact H2|]. rewrite <- (lookup_eqv _ _ _ He). exact L1'.
Qed.

Lemma file_id_total : forall v u p, uri_to_file_path u = UOk (Some p) -> exists i v1, file_id v u = UOk (i, v1).
Proof.
  intros v u p H. unfold file_id. rewrite H. destruct (lookup p (v_map v)); eexists; eexists; reflexivity.
Qed.

Lemma encodings_same_file : forall v p u1 u2,
  normalized_abs p = true -> scalar_text p = true -> uri_encodes p u1 -> uri_encodes p u2 ->
  exists i v1, file_id v u1 = UOk (i, v1) /\ file_id v1 u2 = UOk (i, v1) /\
               get_file_id v1 u1 = UOk (Some i) /\ get_file_id v1 u2 = UOk (Some i).
Proof.
  intros v p u1 u2 Hn Hs E1 E2.
  pose proof (any_encoding_decodes p u1 Hn Hs E1) as D1.
  pose proof (any_encoding_decodes p u2 Hn Hs E2) as D2.
  destruct (file_id_total v u1 p D1) as [i [v1 F]]. exists i, v1. split; [exact F|].
  exact (same_decoding_same_file v u1 u2 p p i v1 D1 D2 (path_eqb_refl p) F).
Qed.

(** * examples (non-vacuity) *)

Lemma roundtrip_example :
  let p := [47; 97; 32; 98; 47; 49; 48; 48; 37; 47; 120; 35; 121; 63; 122; 47; 37; 52; 49; 47; 67; 124; 47; 233; 128512] in
  normalized_abs p = true /\ scalar_text p = true /\
  file_path_to_uri p =
    UOk (Some [102; 105; 108; 101; 58; 47; 47; 47; 97; 37; 50; 48; 98; 47; 49; 48; 48; 37; 50; 53; 47; 120; 37; 50; 51; 121;
               37; 51; 70; 122; 47; 37; 50; 53; 52; 49; 47; 67; 124; 47;
               37; 67; 51; 37; 65; 57; 37; 70; 48; 37; 57; 70; 37; 57; 56; 37; 56; 48]) /\
  uri_to_file_path [102; 105; 108; 101; 58; 47; 47; 47; 97; 37; 50; 48; 98; 47; 49; 48; 48; 37; 50; 53; 47; 120; 37; 50; 51; 121;
               37; 51; 70; 122; 47; 37; 50; 53; 52; 49; 47; 67; 124; 47;
               37; 67; 51; 37; 65; 57; 37; 70; 48; 37; 57; 70; 37; 57; 56; 37; 56; 48] = UOk (Some p).
Proof. vm_compute. repeat split; reflexivity. Qed.

Ltac enc_bytes_norm :=
  match goal with
  | |- enc_bytes _ _ ?b _ => let b' := eval vm_compute in b in change b with b'
  end.

Ltac enc_step :=
  first [ apply enc_nil
        | apply enc_lit; [reflexivity|reflexivity|]
        | eapply enc_esc; [reflexivity|reflexivity|reflexivity|]
        | match goal with
          | |- enc_bytes ?L ?U _ (?c :: ?s) =>
              refine (enc_uni L U c _ s _ _ _ _); [reflexivity|discriminate|reflexivity|]
          end ].

Lemma encodings_example :
  let p := [47; 97; 32; 98; 47; 233] in
  let u1 := [102; 105; 108; 101; 58; 47; 47; 47; 97; 37; 50; 48; 98; 47; 37; 99; 51; 37; 65; 57] in
  let u2 := [102; 105; 108; 101; 58; 47; 47; 47; 37; 54; 49; 37; 50; 48; 37; 54; 50; 47; 233] in
  let u3 := [102; 105; 108; 101; 58; 47; 47; 47; 97; 37; 50; 48; 98; 47; 101] in
  normalized_abs p = true /\ scalar_text p = true /\ uri_encodes p u1 /\ uri_encodes p u2 /\
  file_ids vfs_new [u1; u2; u3; u1] = UOk ([0; 0; 1; 0], {| v_map := [([47; 97; 32; 98; 47; 101], 1); (p, 0)]; v_len := 2 |}).
Proof.
  intros p u1 u2 u3.
  assert (E : comps_of p = [[97; 32; 98]; [233]]) by reflexivity.
  split; [reflexivity|]. split; [reflexivity|]. split; [|split].
  - exists [[97; 37; 50; 48; 98]; [37; 99; 51; 37; 65; 57]]. split; [|reflexivity]. rewrite E.
    constructor; [enc_bytes_norm; repeat enc_step|]. constructor; [enc_bytes_norm; repeat enc_step|]. constructor.
  - exists [[37; 54; 49; 37; 50; 48; 37; 54; 50]; [233]]. split; [|reflexivity]. rewrite E.
    constructor; [enc_bytes_norm; repeat enc_step|]. constructor; [|constructor].
    refine (enc_uni _ _ 233 [] [] _ _ _ _); [reflexivity|discriminate|reflexivity|apply enc_nil].
  - vm_compute. reflexivity.
Qed.
