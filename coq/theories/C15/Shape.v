(** C15/Shape.v — syntactic classes of programs used in the statements of C15 and C41 (definitions only). *)
From Coq Require Import List NArith Bool Arith.
From EV Require Import C15.Model.
Import ListNotations.

(** does a condition mention variable [x] *)
Fixpoint ctests (x : nat) (c : cond) : bool :=
  match c with
  | CType y _ | CEqNil y | CNeNil y | CVar y | CTypeF y _ | CEqNilF y | CNeNilF y => Nat.eqb x y
  | COpq _ => false
  | CNot a => ctests x a
  | CAnd a b | COr a b => ctests x a || ctests x b
  end.

(** does any condition of the statement (loop conditions included) mention [x] *)
Fixpoint tests_s (x : nat) (s : stmt) : bool :=
  match s with
  | SAssign _ _ | SProbe _ _ => false
  | SIf c t r => ctests x c || tests_b x t || tests_r x r
  | SWhile c b | SBreakIf c b | SReturnIf _ c b => ctests x c || tests_b x b
  | SAssert c => ctests x c
  | SRepeat b c => tests_b x b || ctests x c
  | SWhileTrue b | SFor _ _ b => tests_b x b
  end
with tests_r (x : nat) (r : rest) : bool :=
  match r with
  | RNone => false
  | RElse b => tests_b x b
  | RElif c t r' => ctests x c || tests_b x t || tests_r x r'
  end
with tests_b (x : nat) (b : block) : bool :=
  match b with
  | BNil => false
  | BCons s b' => tests_s x s || tests_b x b'
  end.

(** does the block contain a [break] that leaves the loop whose body it is *)
Fixpoint own_break_s (s : stmt) : bool :=
  match s with
  | SBreakIf _ _ => true
  | SIf _ t r => own_break_b t || own_break_r r
  | SReturnIf _ _ b => own_break_b b
  | _ => false
  end
with own_break_r (r : rest) : bool :=
  match r with
  | RNone => false
  | RElse b => own_break_b b
  | RElif _ t r' => own_break_b t || own_break_r r'
  end
with own_break_b (b : block) : bool :=
  match b with
  | BNil => false
  | BCons s b' => own_break_s s || own_break_b b'
  end.

(** loops whose exit the analyzer gets right for variable [x]:
    - [while c] (non-literal condition): the flow after the loop is the flow before it, fine iff the body does not assign [x];
    - [while true] and an entered numeric [for]: the analyzer sees one pass over the body from the state before the loop,
      fine iff the body does not assign [x], or never tests [x] (then one pass covers every iteration);
    - [repeat]: as above, and moreover a [break] must not be able to leave the loop with a value assigned in an earlier
      iteration (the end of the body is not merged into the flow after a [repeat]). *)
Fixpoint ok_loops_s (x : nat) (s : stmt) : bool :=
  match s with
  | SAssign _ _ | SProbe _ _ | SAssert _ => true
  | SIf _ t r => ok_loops_b x t && ok_loops_r x r
  | SBreakIf _ b | SReturnIf _ _ b => ok_loops_b x b
  | SWhile _ b => negb (assigns_b x b) && ok_loops_b x b
  | SWhileTrue b => (negb (assigns_b x b) || negb (tests_b x b)) && ok_loops_b x b
  | SRepeat b _ => (negb (assigns_b x b) || (negb (tests_b x b) && negb (own_break_b b))) && ok_loops_b x b
  | SFor a z b => if N.ltb z a then true else (negb (assigns_b x b) || negb (tests_b x b)) && ok_loops_b x b
  end
with ok_loops_r (x : nat) (r : rest) : bool :=
  match r with
  | RNone => true
  | RElse b => ok_loops_b x b
  | RElif _ t r' => ok_loops_b x t && ok_loops_r x r'
  end
with ok_loops_b (x : nat) (b : block) : bool :=
  match b with
  | BNil => true
  | BCons s b' => ok_loops_s x s && ok_loops_b x b'
  end.

(** the fragment of C15: no loops (and hence no break) *)
Fixpoint loop_free_s (s : stmt) : bool :=
  match s with
  | SAssign _ _ | SProbe _ _ | SAssert _ => true
  | SIf _ t r => loop_free_b t && loop_free_r r
  | SReturnIf _ _ b => loop_free_b b
  | _ => false
  end
with loop_free_r (r : rest) : bool :=
  match r with
  | RNone => true
  | RElse b => loop_free_b b
  | RElif _ t r' => loop_free_b t && loop_free_r r'
  end
with loop_free_b (b : block) : bool :=
  match b with
  | BNil => true
  | BCons s b' => loop_free_s s && loop_free_b b'
  end.

(** number of occurrences of opaque conditions *)
Fixpoint copq (c : cond) : nat :=
  match c with
  | COpq _ => 1
  | CNot a => copq a
  | CAnd a b | COr a b => copq a + copq b
  | _ => 0
  end.
Fixpoint opq_s (s : stmt) : nat :=
  match s with
  | SAssign _ _ | SProbe _ _ => 0
  | SIf c t r => copq c + opq_b t + opq_r r
  | SWhile c b | SBreakIf c b | SRepeat b c | SReturnIf _ c b => copq c + opq_b b
  | SAssert c => copq c
  | SWhileTrue b | SFor _ _ b => opq_b b
  end
with opq_r (r : rest) : nat :=
  match r with
  | RNone => 0
  | RElse b => opq_b b
  | RElif c t r' => copq c + opq_b t + opq_r r'
  end
with opq_b (b : block) : nat :=
  match b with
  | BNil => 0
  | BCons s b' => opq_s s + opq_b b'
  end.

(** oracles given by a finite list of bits (false once exhausted), and all lists of a given length *)
Fixpoint all_lists (k : nat) : list (list bool) :=
  match k with
  | O => [[]]
  | S k' => flat_map (fun l => [false :: l; true :: l]) (all_lists k')
  end.

Definition oracle_of (l : list bool) : nat -> bool := fun i => nth i l false.

