(** C15/Sound.v — the simulation between the semantics (A) and the inference (B), per variable. *)
From Coq Require Import List NArith Bool Arith Lia.
From EV Require Import C15.Model C15.Shape C15.TypeFacts.
Import ListNotations.

(** a flow node answers soundly for value [v]: all three modes admit [v] (and the node is reachable) *)
Definition okv (v : atom) (s : st) : Prop :=
  has v (sN s) = true /\ (exists m, sM s = Some m /\ has v m = true) /\ has v (sI s) = true.
Definition wf_st (s : st) : Prop := unk_free (sI s).
Definition wf (f : flow) : Prop := forall s, In s f -> wf_st s.
(** some node of the flow value describes the path the execution took *)
Definition Inv (v : atom) (f : flow) : Prop := exists s, In s f /\ okv v s.
Definition reach_ok (f : flow) : Prop := exists s, In s f /\ sM s <> None.
(** strict mode ([vin = None]): the flow covers the value.  Relaxed mode ([vin = Some v0]): or the value is still the
    one the variable had when the enclosing loop body was entered *)
Definition R (vin : option atom) (v : atom) (f : flow) : Prop := Inv v f \/ (vin = Some v /\ reach_ok f).

Lemma Inv_reach : forall v f, Inv v f -> reach_ok f.
Proof. intros v f [s [Hin [_ [[m [Hm _]] _]]]]. exists s. split; [exact Hin | congruence]. Qed.

Lemma R_reach : forall vin v f, R vin v f -> reach_ok f.
Proof. intros vin v f [H|[_ H]]; [eapply Inv_reach; exact H | exact H]. Qed.

Lemma reach_nonempty : forall f, reach_ok f -> f <> [].
Proof. intros f [s [Hin _]] E. subst. inversion Hin. Qed.

Lemma fin_nonempty : forall f d, f <> [] -> fin f d = f.
Proof. intros f d H. destruct f; [contradiction | reflexivity]. Qed.

Lemma R_fin : forall vin v f d, R vin v f -> fin f d = f.
Proof. intros. apply fin_nonempty. apply reach_nonempty. eapply R_reach. eassumption. Qed.

Lemma Inv_app_l : forall v f g, Inv v f -> Inv v (f ++ g).
Proof. intros v f g [s [Hin H]]. exists s. split; [apply in_app_iff; left; exact Hin | exact H]. Qed.
Lemma Inv_app_r : forall v f g, Inv v g -> Inv v (f ++ g).
Proof. intros v f g [s [Hin H]]. exists s. split; [apply in_app_iff; right; exact Hin | exact H]. Qed.
Lemma reach_app_l : forall f g, reach_ok f -> reach_ok (f ++ g).
Proof. intros f g [s [Hin H]]. exists s. split; [apply in_app_iff; left; exact Hin | exact H]. Qed.
Lemma reach_app_r : forall f g, reach_ok g -> reach_ok (f ++ g).
Proof. intros f g [s [Hin H]]. exists s. split; [apply in_app_iff; right; exact Hin | exact H]. Qed.
Lemma R_app_l : forall vin v f g, R vin v f -> R vin v (f ++ g).
Proof. intros vin v f g [H|[E H]]; [left; apply Inv_app_l; exact H | right; split; [exact E | apply reach_app_l; exact H]]. Qed.
Lemma R_app_r : forall vin v f g, R vin v g -> R vin v (f ++ g).
Proof. intros vin v f g [H|[E H]]; [left; apply Inv_app_r; exact H | right; split; [exact E | apply reach_app_r; exact H]]. Qed.

Lemma wf_app : forall f g, wf f -> wf g -> wf (f ++ g).
Proof. intros f g Hf Hg s Hin. apply in_app_iff in Hin. destruct Hin; [apply Hf | apply Hg]; assumption. Qed.
Lemma wf_fin : forall f g, wf f -> wf g -> wf (fin f g).
Proof. intros f g Hf Hg. destruct f; [exact Hg | exact Hf]. Qed.
Lemma wf_nil : wf [].
Proof. intros s []. Qed.
Lemma wf_single : forall s, wf_st s -> wf [s].
Proof. intros s H s' [<-|[]]. exact H. Qed.

(* ------------------------------------------------------------------------------------ force *)
Lemma m_type_has : forall v s m, sM s = Some m -> has v m = true -> has v (m_type (sM s)) = true.
Proof. intros v s m E H. rewrite E. exact H. Qed.

Lemma merge_okv : forall v l, Inv v l -> okv v (st_merge l).
Proof.
  intros v l [s [Hin [HN [[m [HM Hm]] HI]]]]. unfold okv, st_merge. cbn [sN sM sI].
  assert (has v (fold_left (fun acc s0 => union acc (m_type (sM s0))) l (B Never)) = true) as G.
  { apply fold_union_has. right. exists s. split; [exact Hin | eapply m_type_has; eassumption]. }
  split; [exact G|]. split; [eexists; split; [reflexivity | exact G]|].
  apply fold_union_has. right. exists s. split; assumption.
Qed.

Lemma force_okv : forall v f, Inv v f -> okv v (force f).
Proof.
  intros v f H. destruct f as [|s1 [|s2 r]].
  - destruct H as [s [[] _]].
  - destruct H as [s [[<-|[]] H]]. exact H.
  - cbn [force]. apply merge_okv. exact H.
Qed.

Lemma force_wf : forall f, wf f -> wf_st (force f).
Proof.
  intros f H. destruct f as [|s1 [|s2 r]].
  - reflexivity.
  - apply H. left. reflexivity.
  - cbn [force]. unfold wf_st, st_merge. cbn [sI].
    apply fold_union_unk_free; [reflexivity|]. intros s Hs. apply H. exact Hs.
Qed.

Lemma force_reach : forall f, reach_ok f -> sM (force f) <> None.
Proof.
  intros f [s [Hin H]]. destruct f as [|s1 [|s2 r]].
  - inversion Hin.
  - destruct Hin as [<-|[]]. exact H.
  - cbn. discriminate.
Qed.

Lemma R_force : forall vin v f, R vin v f -> R vin v [force f].
Proof.
  intros vin v f [H|[E H]].
  - left. exists (force f). split; [left; reflexivity | apply force_okv; exact H].
  - right. split; [exact E|]. exists (force f). split; [left; reflexivity | apply force_reach; exact H].
Qed.

(* ------------------------------------------------------------------------------------ nodes *)
Lemma st_narrow_okv : forall v nw s, okv v s -> sat nw v = true -> okv v (st_narrow nw s).
Proof.
  intros v nw s [HN [[m [HM Hm]] HI]] Hs. unfold okv, st_narrow. cbn [sN sM sI]. rewrite HM.
  split; [apply apply_narrow_sound; assumption|]. split; [|exact HI].
  pose proof (apply_narrow_sound nw v m Hs Hm) as G.
  assert (is_never (apply_narrow nw m) = false) as Hn.
  { destruct (apply_narrow nw m) as [b|l]; [|reflexivity]. destruct b; try reflexivity.
    rewrite has_B, has_b_never in G. discriminate. }
  rewrite Hn. rewrite andb_false_r. eexists. split; [reflexivity | exact G].
Qed.

Lemma st_narrow_wf : forall nw s, wf_st s -> wf_st (st_narrow nw s).
Proof. intros nw s H. exact H. Qed.

Lemma st_narrow_reach_other : forall nw s, wf_st s -> wf_st (st_narrow nw s).
Proof. intros nw s H. exact H. Qed.

Lemma st_assign_okv : forall l d s, sM s <> None -> wf_st s -> okv (lit_atom l) (st_assign (lit_ty l) (B d) s).
Proof.
  intros l d s HM Hw. unfold st_assign, okv.
  destruct (sM s) as [m|] eqn:EM; [|contradiction].
  destruct (preserves (lit_ty l)) eqn:Ep; cbn [sN sM sI].
  - split; [apply asg_from_has; assumption|]. split; [|apply asg_from_has; assumption].
    eexists. split; [reflexivity | apply asg_from_has; assumption].
  - split; [apply lit_has_B|]. split; [|apply lit_has_B]. eexists. split; [reflexivity | apply lit_has_B].
Qed.

Lemma st_assign_wf : forall l d s, wf_st (st_assign (lit_ty l) d s).
Proof.
  intros l d s. unfold st_assign, wf_st.
  destruct (preserves (lit_ty l)); cbn [sI]; [apply asg_from_unk_free | apply lit_unk_free].
Qed.

(* ------------------------------------------------------------------------------------ conditions *)
Lemma sat_guard_intro : forall v t f, tag_matches v t = f -> sat (NGuard (guard_ty t) f) v = true.
Proof.
  intros v t f H. cbn [sat]. apply existsb_exists. exists t. split.
  - destruct t; cbn; tauto.
  - rewrite bty_eqb_refl. rewrite H. destruct f; reflexivity.
Qed.

Lemma bindc_wf : forall x c cur t f, bindc x c cur = (t, f) -> wf cur -> wf t /\ wf f.
Proof.
  intros x. induction c as [y tg|y|y|y|k|a IHa|a IHa b IHb|a IHa b IHb|y tg|y|y]; intros cur t f H Hw; cbn [bindc] in H;
    try (destruct (Nat.eqb x y); inversion H; subst; split; apply wf_single;
         try apply st_narrow_wf; apply force_wf; exact Hw).
  - inversion H; subst. split; apply wf_single; apply force_wf; exact Hw.
  - destruct (bindc x a cur) as [ta fa] eqn:Ea. inversion H; subst.
    destruct (IHa _ _ _ Ea Hw). split; assumption.
  - destruct (bindc x a cur) as [ta fa] eqn:Ea. destruct (bindc x b (fin ta cur)) as [tb fb] eqn:Eb.
    inversion H; subst. destruct (IHa _ _ _ Ea Hw) as [Hta Hfa].
    assert (wf (fin ta cur)) as Hfin by (destruct ta; [exact Hw | exact Hta]).
    destruct (IHb _ _ _ Eb Hfin) as [Htb Hfb]. split; [exact Htb | apply wf_app; assumption].
  - destruct (bindc x a cur) as [ta fa] eqn:Ea. destruct (bindc x b (fin fa cur)) as [tb fb] eqn:Eb.
    inversion H; subst. destruct (IHa _ _ _ Ea Hw) as [Hta Hfa].
    assert (wf (fin fa cur)) as Hfin by (destruct fa; [exact Hw | exact Hfa]).
    destruct (IHb _ _ _ Eb Hfin) as [Htb Hfb]. split; [apply wf_app; assumption | exact Hfb].
Qed.

Lemma R_narrow_single : forall vin v f nw, vin = None -> R vin v f -> sat nw v = true -> R vin v [st_narrow nw (force f)].
Proof.
  intros vin v f nw Hv [H|[E _]] Hs; [|congruence].
  left. exists (st_narrow nw (force f)). split; [left; reflexivity|].
  apply st_narrow_okv; [apply force_okv; exact H | exact Hs].
Qed.

Lemma strict_of_tests : forall (vin : option atom), (vin <> None -> true = false) -> vin = None.
Proof. intros [a|] H; [|reflexivity]. specialize (H ltac:(discriminate)). discriminate. Qed.

(** the target that the evaluation takes receives a contribution that is still right for the value *)
Lemma bindc_sound : forall o x env vin c cur t f bv pos pos',
  bindc x c cur = (t, f) -> eval o c env pos = (bv, pos') ->
  (vin <> None -> ctests x c = false) ->
  R vin (getv env x) cur ->
  if bv then R vin (getv env x) t else R vin (getv env x) f.
Proof.
  intros o x env vin.
  induction c as [y tg|y|y|y|k|a IHa|a IHa b IHb|a IHa b IHb|y tg|y|y]; intros cur t f bv pos pos' H He Ht HR;
    cbn [bindc] in H; cbn [eval] in He; cbn [ctests] in Ht.
  - inversion He; subst; clear He. destruct (Nat.eqb x y) eqn:Exy.
    + apply Nat.eqb_eq in Exy. subst y. inversion H; subst; clear H.
      pose proof (strict_of_tests _ Ht) as Hv.
      destruct (tag_eqb (tag_of (getv env x)) tg) eqn:E;
        apply R_narrow_single; try assumption; apply sat_guard_intro; exact E.
    + inversion H; subst. destruct (tag_eqb (tag_of (getv env y)) tg); apply R_force; exact HR.
  - inversion He; subst; clear He. destruct (Nat.eqb x y) eqn:Exy.
    + apply Nat.eqb_eq in Exy. subst y. inversion H; subst; clear H.
      pose proof (strict_of_tests _ Ht) as Hv.
      destruct (atom_eqb (getv env x) ANil) eqn:E;
        apply R_narrow_single; try assumption; cbn [sat]; rewrite E; reflexivity.
    + inversion H; subst. destruct (atom_eqb (getv env y) ANil); apply R_force; exact HR.
  - inversion He; subst; clear He. destruct (Nat.eqb x y) eqn:Exy.
    + apply Nat.eqb_eq in Exy. subst y. inversion H; subst; clear H.
      pose proof (strict_of_tests _ Ht) as Hv.
      destruct (atom_eqb (getv env x) ANil) eqn:E; cbn [negb];
        apply R_narrow_single; try assumption; cbn [sat negb]; rewrite E; reflexivity.
    + inversion H; subst. destruct (negb (atom_eqb (getv env y) ANil)); apply R_force; exact HR.
  - inversion He; subst; clear He. destruct (Nat.eqb x y) eqn:Exy.
    + apply Nat.eqb_eq in Exy. subst y. inversion H; subst; clear H.
      pose proof (strict_of_tests _ Ht) as Hv.
      destruct (truthy (getv env x)) eqn:E;
        apply R_narrow_single; try assumption; cbn [sat]; rewrite E; reflexivity.
    + inversion H; subst. destruct (truthy (getv env y)); apply R_force; exact HR.
  - inversion He; subst; clear He. inversion H; subst. destruct (o pos); apply R_force; exact HR.
  - destruct (eval o a env pos) as [va pa] eqn:Ea. inversion He; subst; clear He.
    destruct (bindc x a cur) as [ta fa] eqn:Eb. inversion H; subst; clear H.
    specialize (IHa _ _ _ _ _ _ Eb Ea Ht HR). destruct va; exact IHa.
  - destruct (eval o a env pos) as [va pa] eqn:Ea.
    destruct (bindc x a cur) as [ta fa] eqn:Eba. destruct (bindc x b (fin ta cur)) as [tb fb] eqn:Ebb.
    inversion H; subst; clear H.
    assert (vin <> None -> ctests x a = false) as Hta by (intro Hv; specialize (Ht Hv); apply orb_false_iff in Ht; tauto).
    assert (vin <> None -> ctests x b = false) as Htb by (intro Hv; specialize (Ht Hv); apply orb_false_iff in Ht; tauto).
    specialize (IHa _ _ _ _ _ _ Eba Ea Hta HR). destruct va.
    + rewrite (R_fin _ _ _ cur IHa) in Ebb.
      specialize (IHb _ _ _ _ _ _ Ebb He Htb IHa). destruct bv; [exact IHb | apply R_app_r; exact IHb].
    + inversion He; subst. apply R_app_l. exact IHa.
  - destruct (eval o a env pos) as [va pa] eqn:Ea.
    destruct (bindc x a cur) as [ta fa] eqn:Eba. destruct (bindc x b (fin fa cur)) as [tb fb] eqn:Ebb.
    inversion H; subst; clear H.
    assert (vin <> None -> ctests x a = false) as Hta by (intro Hv; specialize (Ht Hv); apply orb_false_iff in Ht; tauto).
    assert (vin <> None -> ctests x b = false) as Htb by (intro Hv; specialize (Ht Hv); apply orb_false_iff in Ht; tauto).
    specialize (IHa _ _ _ _ _ _ Eba Ea Hta HR). destruct va.
    + inversion He; subst. apply R_app_l. exact IHa.
    + rewrite (R_fin _ _ _ cur IHa) in Ebb.
      specialize (IHb _ _ _ _ _ _ Ebb He Htb IHa). destruct bv; [apply R_app_r; exact IHb | exact IHb].
  - inversion He; subst; clear He. destruct (Nat.eqb x y) eqn:Exy.
    + apply Nat.eqb_eq in Exy. subst y. inversion H; subst; clear H.
      pose proof (strict_of_tests _ Ht) as Hv.
      destruct (tag_eqb (tag_of (getv env x)) tg) eqn:E;
        apply R_narrow_single; try assumption; apply sat_guard_intro; exact E.
    + inversion H; subst. destruct (tag_eqb (tag_of (getv env y)) tg); apply R_force; exact HR.
  - inversion He; subst; clear He. destruct (Nat.eqb x y) eqn:Exy.
    + apply Nat.eqb_eq in Exy. subst y. inversion H; subst; clear H.
      pose proof (strict_of_tests _ Ht) as Hv.
      destruct (atom_eqb (getv env x) ANil) eqn:E;
        apply R_narrow_single; try assumption; cbn [sat]; rewrite E; reflexivity.
    + inversion H; subst. destruct (atom_eqb (getv env y) ANil); apply R_force; exact HR.
  - inversion He; subst; clear He. destruct (Nat.eqb x y) eqn:Exy.
    + apply Nat.eqb_eq in Exy. subst y. inversion H; subst; clear H.
      pose proof (strict_of_tests _ Ht) as Hv.
      destruct (atom_eqb (getv env x) ANil) eqn:E; cbn [negb];
        apply R_narrow_single; try assumption; cbn [sat negb]; rewrite E; reflexivity.
    + inversion H; subst. destruct (negb (atom_eqb (getv env y) ANil)); apply R_force; exact HR.
Qed.

(* ------------------------------------------------------------------------------------ loops, generically *)
Definition stopped (oc : outcome) : Prop := exists r, oc = OStop r.

Section LoopFacts.
  Variable cnd : env_t -> nat -> bool * nat.
  Variable bdy : env_t -> nat -> res.
  Variables Pin P1 Q : env_t -> Prop.
  Hypothesis P1_in : forall env, P1 env -> Pin env.
  Hypothesis step : forall env pos oc env' pos' tr, bdy env pos = (oc, env', pos', tr) -> Pin env ->
    (oc = ONormal -> P1 env') /\ (oc = OBreak -> Q env').

  Lemma loop_forever_sound : forall n env pos oc env' pos' tr,
    loop_forever bdy n env pos = (oc, env', pos', tr) -> Pin env -> stopped oc \/ (oc = ONormal /\ Q env').
  Proof.
    induction n as [|n IH]; intros env pos oc env' pos' tr H HP; cbn [loop_forever] in H.
    - inversion H. left. eexists. reflexivity.
    - unfold after_body in H. destruct (bdy env pos) as [[[oc1 env1] pos1] tr1] eqn:E.
      destruct (step _ _ _ _ _ _ E HP) as [Hn Hb]. destruct oc1.
      + destruct (loop_forever bdy n env1 pos1) as [[[oc2 env2] pos2] tr2] eqn:E2. cbn in H. inversion H; subst.
        eapply IH; [exact E2 | apply P1_in; apply Hn; reflexivity].
      + inversion H; subst. right. split; [reflexivity | apply Hb; reflexivity].
      + inversion H. left. eexists. reflexivity.
  Qed.

  Lemma loop_count_sound : forall n env pos oc env' pos' tr,
    loop_count bdy n env pos = (oc, env', pos', tr) -> Pin env ->
    stopped oc \/ (oc = ONormal /\ (Q env' \/ (n = O /\ env' = env) \/ P1 env')).
  Proof.
    induction n as [|n IH]; intros env pos oc env' pos' tr H HP; cbn [loop_count] in H.
    - inversion H; subst. right. split; [reflexivity|]. right. left. split; reflexivity.
    - unfold after_body in H. destruct (bdy env pos) as [[[oc1 env1] pos1] tr1] eqn:E.
      destruct (step _ _ _ _ _ _ E HP) as [Hn Hb]. destruct oc1.
      + destruct (loop_count bdy n env1 pos1) as [[[oc2 env2] pos2] tr2] eqn:E2. cbn in H. inversion H; subst.
        specialize (Hn eq_refl).
        destruct (IH _ _ _ _ _ _ E2 (P1_in _ Hn)) as [G|[G1 [G|[[G2 G3]|G]]]].
        * left; exact G.
        * right. split; [exact G1 | left; exact G].
        * subst. right. split; [reflexivity | right; right; exact Hn].
        * right. split; [exact G1 | right; right; exact G].
      + inversion H; subst. right. split; [reflexivity | left; apply Hb; reflexivity].
      + inversion H. left. eexists. reflexivity.
  Qed.

  Hypothesis exit_r : forall env pos p, P1 env -> cnd env pos = (true, p) -> Q env.

  Lemma loop_repeat_sound : forall n env pos oc env' pos' tr,
    loop_repeat cnd bdy n env pos = (oc, env', pos', tr) -> Pin env -> stopped oc \/ (oc = ONormal /\ Q env').
  Proof.
    induction n as [|n IH]; intros env pos oc env' pos' tr H HP; cbn [loop_repeat] in H.
    - inversion H. left. eexists. reflexivity.
    - unfold after_body in H. destruct (bdy env pos) as [[[oc1 env1] pos1] tr1] eqn:E.
      destruct (step _ _ _ _ _ _ E HP) as [Hn Hb]. destruct oc1.
      + specialize (Hn eq_refl). destruct (cnd env1 pos1) as [v p] eqn:Ec. destruct v.
        * inversion H; subst. right. split; [reflexivity | eapply exit_r; eassumption].
        * destruct (loop_repeat cnd bdy n env1 p) as [[[oc2 env2] pos2] tr2] eqn:E2. cbn in H. inversion H; subst.
          eapply IH; [exact E2 | apply P1_in; exact Hn].
      + inversion H; subst. right. split; [reflexivity | apply Hb; reflexivity].
      + inversion H. left. eexists. reflexivity.
  Qed.
End LoopFacts.

Section LoopWhile.
  Variable cnd : env_t -> nat -> bool * nat.
  Variable bdy : env_t -> nat -> res.
  Variable P : env_t -> Prop.
  Hypothesis step : forall env pos oc env' pos' tr, bdy env pos = (oc, env', pos', tr) -> P env -> P env'.

  Lemma loop_while_sound : forall n env pos oc env' pos' tr,
    loop_while cnd bdy n env pos = (oc, env', pos', tr) -> P env -> (stopped oc \/ oc = ONormal) /\ P env'.
  Proof.
    induction n as [|n IH]; intros env pos oc env' pos' tr H HP; cbn [loop_while] in H.
    - inversion H; subst. split; [left; eexists; reflexivity | exact HP].
    - destruct (cnd env pos) as [v p] eqn:Ec. destruct v.
      + unfold after_body in H. destruct (bdy env p) as [[[oc1 env1] pos1] tr1] eqn:E.
        pose proof (step _ _ _ _ _ _ E HP) as HP1. destruct oc1.
        * destruct (loop_while cnd bdy n env1 pos1) as [[[oc2 env2] pos2] tr2] eqn:E2. cbn in H. inversion H; subst.
          eapply IH; eassumption.
        * inversion H; subst. split; [right; reflexivity | exact HP1].
        * inversion H; subst. split; [left; eexists; reflexivity | exact HP1].
      + inversion H; subst. split; [right; reflexivity | exact HP].
  Qed.
End LoopWhile.

Section LoopTrace.
  Variable cnd : env_t -> nat -> bool * nat.
  Variable bdy : env_t -> nat -> res.
  Variable F : event -> Prop.
  Hypothesis bdy_tr : forall env pos oc env' pos' tr, bdy env pos = (oc, env', pos', tr) -> Forall F tr.

  Ltac loop_tr IH :=
    match goal with
    | H : after_body (bdy ?e ?p) _ = _ |- _ =>
        unfold after_body in H; destruct (bdy e p) as [[[oc1 env1] pos1] tr1] eqn:E;
        pose proof (bdy_tr _ _ _ _ _ _ E) as Htr1; destruct oc1
    end.

  Lemma loop_forever_trace : forall n env pos oc env' pos' tr,
    loop_forever bdy n env pos = (oc, env', pos', tr) -> Forall F tr.
  Proof.
    induction n as [|n IH]; intros env pos oc env' pos' tr H; cbn [loop_forever] in H.
    - inversion H. constructor.
    - loop_tr IH.
      + destruct (loop_forever bdy n env1 pos1) as [[[oc2 env2] pos2] tr2] eqn:E2. cbn in H. inversion H; subst.
        apply Forall_app. split; [exact Htr1 | eapply IH; exact E2].
      + inversion H; subst. exact Htr1.
      + inversion H; subst. exact Htr1.
  Qed.

  Lemma loop_count_trace : forall n env pos oc env' pos' tr,
    loop_count bdy n env pos = (oc, env', pos', tr) -> Forall F tr.
  Proof.
    induction n as [|n IH]; intros env pos oc env' pos' tr H; cbn [loop_count] in H.
    - inversion H. constructor.
    - loop_tr IH.
      + destruct (loop_count bdy n env1 pos1) as [[[oc2 env2] pos2] tr2] eqn:E2. cbn in H. inversion H; subst.
        apply Forall_app. split; [exact Htr1 | eapply IH; exact E2].
      + inversion H; subst. exact Htr1.
      + inversion H; subst. exact Htr1.
  Qed.

  Lemma loop_repeat_trace : forall n env pos oc env' pos' tr,
    loop_repeat cnd bdy n env pos = (oc, env', pos', tr) -> Forall F tr.
  Proof.
    induction n as [|n IH]; intros env pos oc env' pos' tr H; cbn [loop_repeat] in H.
    - inversion H. constructor.
    - loop_tr IH.
      + destruct (cnd env1 pos1) as [v p]. destruct v.
        * inversion H; subst. exact Htr1.
        * destruct (loop_repeat cnd bdy n env1 p) as [[[oc2 env2] pos2] tr2] eqn:E2. cbn in H. inversion H; subst.
          apply Forall_app. split; [exact Htr1 | eapply IH; exact E2].
      + inversion H; subst. exact Htr1.
      + inversion H; subst. exact Htr1.
  Qed.

  Lemma loop_while_trace : forall n env pos oc env' pos' tr,
    loop_while cnd bdy n env pos = (oc, env', pos', tr) -> Forall F tr.
  Proof.
    induction n as [|n IH]; intros env pos oc env' pos' tr H; cbn [loop_while] in H.
    - inversion H. constructor.
    - destruct (cnd env pos) as [v p]. destruct v.
      + loop_tr IH.
        * destruct (loop_while cnd bdy n env1 pos1) as [[[oc2 env2] pos2] tr2] eqn:E2. cbn in H. inversion H; subst.
          apply Forall_app. split; [exact Htr1 | eapply IH; exact E2].
        * inversion H; subst. exact Htr1.
        * inversion H; subst. exact Htr1.
      + inversion H. constructor.
  Qed.
End LoopTrace.

Scheme stmt_ind3 := Induction for stmt Sort Prop
  with rest_ind3 := Induction for rest Sort Prop
  with block_ind3 := Induction for block Sort Prop.
Combined Scheme syntax_ind from stmt_ind3, rest_ind3, block_ind3.

(* ------------------------------------------------------------------------------------ facts about (A) *)
Tactic Notation "dres" constr(e) "as" ident(oc) ident(env) ident(pos) ident(tr) ident(E) :=
  destruct e as [[[oc env] pos] tr] eqn:E.

Lemma getv_setv_other : forall env x y v, Nat.eqb x y = false -> getv (setv env y v) x = getv env x.
Proof. intros env x y v H. unfold getv, setv. rewrite H. reflexivity. Qed.
Lemma getv_setv_same : forall env x v, getv (setv env x v) x = v.
Proof. intros env x v. unfold getv, setv. rewrite Nat.eqb_refl. reflexivity. Qed.


(** unfolding equations (so that the mutual fixpoints stay folded in the proofs) *)
Section Equations.
  Variable o : nat -> bool.
  Variable fuel : nat.
  Lemma exec_if : forall inl c t r env pos, exec_stmt o fuel inl (SIf c t r) env pos =
    let '(v, p) := eval o c env pos in if v then exec_block o fuel inl t env p else exec_rest o fuel inl r env p.
  Proof. reflexivity. Qed.
  Lemma exec_breakif : forall inl c b env pos, exec_stmt o fuel inl (SBreakIf c b) env pos =
    let '(v, p) := eval o c env pos in
    if v then let '(oc, env2, pos2, tr) := exec_block o fuel inl b env p in
              match oc with ONormal => (OBreak, env2, pos2, tr) | _ => (oc, env2, pos2, tr) end
    else (ONormal, env, p, []).
  Proof. reflexivity. Qed.
  Lemma exec_assert : forall inl c env pos, exec_stmt o fuel inl (SAssert c) env pos =
    let '(v, p) := eval o c env pos in if v then (ONormal, env, p, []) else (OStop true, env, p, []).
  Proof. reflexivity. Qed.
  Lemma exec_returnif : forall inl e c b env pos, exec_stmt o fuel inl (SReturnIf e c b) env pos =
    let '(v, p) := eval o c env pos in
    if v then let '(oc, env2, pos2, tr) := exec_block o fuel inl b env p in
              match oc with ONormal => (OStop true, env2, pos2, tr) | _ => (oc, env2, pos2, tr) end
    else (ONormal, env, p, []).
  Proof. reflexivity. Qed.
  Lemma exec_while : forall inl c b env pos, exec_stmt o fuel inl (SWhile c b) env pos =
    loop_while (eval o c) (exec_block o fuel true b) fuel env pos.
  Proof. reflexivity. Qed.
  Lemma exec_whiletrue : forall inl b env pos, exec_stmt o fuel inl (SWhileTrue b) env pos =
    loop_forever (exec_block o fuel true b) fuel env pos.
  Proof. reflexivity. Qed.
  Lemma exec_repeat : forall inl b c env pos, exec_stmt o fuel inl (SRepeat b c) env pos =
    loop_repeat (eval o c) (exec_block o fuel true b) fuel env pos.
  Proof. reflexivity. Qed.
  Lemma exec_for : forall inl a z b env pos, exec_stmt o fuel inl (SFor a z b) env pos =
    loop_count (exec_block o fuel true b) (N.to_nat (z + 1 - a)) env pos.
  Proof. reflexivity. Qed.
  Lemma exec_relse : forall inl b env pos, exec_rest o fuel inl (RElse b) env pos = exec_block o fuel inl b env pos.
  Proof. reflexivity. Qed.
  Lemma exec_relif : forall inl c t r env pos, exec_rest o fuel inl (RElif c t r) env pos =
    let '(v, p) := eval o c env pos in if v then exec_block o fuel inl t env p else exec_rest o fuel inl r env p.
  Proof. reflexivity. Qed.
  Lemma exec_bcons : forall inl s b env pos, exec_block o fuel inl (BCons s b) env pos =
    let '(oc, env2, pos2, tr) := exec_stmt o fuel inl s env pos in
    match oc with
    | ONormal => with_trace tr (exec_block o fuel inl b env2 pos2)
    | _ => (oc, env2, pos2, tr)
    end.
  Proof. reflexivity. Qed.
End Equations.

Section BEquations.
  Variable x : nat.
  Variable d : ty.
  Lemma bstmt_if : forall inl c t r cur, bstmt x d inl (SIf c t r) cur =
    let '(tl, fl) := bindc x c cur in
    let '(e, br, pr) := bblock x d inl t (fin tl cur) in
    let '(e2, br2, pr2) := brest x d inl r fl cur in
    (e ++ e2, br ++ br2, pr ++ pr2).
  Proof. reflexivity. Qed.
  Lemma bstmt_breakif : forall inl c b cur, bstmt x d inl (SBreakIf c b) cur =
    let '(tl, fl) := bindc x c cur in
    let '(e, br, pr) := bblock x d inl b (fin tl cur) in
    (fl, br ++ [force e], pr).
  Proof. reflexivity. Qed.
  Lemma bstmt_assert : forall inl c cur, bstmt x d inl (SAssert c) cur =
    let '(tl, fl) := bindc x c cur in (fin tl cur, [], []).
  Proof. reflexivity. Qed.
  Lemma bstmt_returnif : forall inl e c b cur, bstmt x d inl (SReturnIf e c b) cur =
    let '(tl, fl) := bindc x c cur in
    let '(e0, br, pr) := bblock x d inl b (fin tl cur) in
    (fl, br, pr).
  Proof. reflexivity. Qed.
  Lemma bstmt_while : forall inl c b cur, bstmt x d inl (SWhile c b) cur =
    let '(tl, fl) := bindc x c cur in
    let '(e, br, pr) := bblock x d true b (fin tl cur) in
    (cur, [], pr).
  Proof. reflexivity. Qed.
  Lemma bstmt_whiletrue : forall inl b cur, bstmt x d inl (SWhileTrue b) cur =
    if is_bnil b then (cur, [], []) else
    let '(e, br, pr) := bblock x d true b cur in (br ++ e, [], pr).
  Proof. reflexivity. Qed.
  Lemma bstmt_repeat : forall inl b c cur, bstmt x d inl (SRepeat b c) cur =
    let '(e, br, pr) := bblock x d true b cur in
    let '(tl, fl) := bindc x c e in
    (fin (br ++ tl) e, [], pr).
  Proof. reflexivity. Qed.
  Lemma bstmt_for : forall inl a z b cur, bstmt x d inl (SFor a z b) cur =
    if is_bnil b then (cur, [], []) else
    let '(e, br, pr) := bblock x d true b [force cur] in
    if N.leb a z then (br ++ e, [], pr) else (cur, [], pr).
  Proof. reflexivity. Qed.
  Lemma brest_relse : forall inl b el cur, brest x d inl (RElse b) el cur = bblock x d inl b el.
  Proof. reflexivity. Qed.
  Lemma brest_relif : forall inl c t r el cur, brest x d inl (RElif c t r) el cur =
    let '(tl, fl) := bindc x c (fin el cur) in
    let '(e, br, pr) := bblock x d inl t (fin tl cur) in
    let '(e2, br2, pr2) := brest x d inl r fl cur in
    (e ++ e2, br ++ br2, pr ++ pr2).
  Proof. reflexivity. Qed.
  Lemma bblock_bcons : forall inl s b cur, bblock x d inl (BCons s b) cur =
    let '(c1, br1, pr1) := bstmt x d inl s cur in
    let '(c2, br2, pr2) := bblock x d inl b c1 in
    (c2, br1 ++ br2, pr1 ++ pr2).
  Proof. reflexivity. Qed.
End BEquations.

Section ExecFacts.
  Variable o : nat -> bool.
  Variable fuel : nat.
  Variable x : nat.

  (** a statement that does not assign [x] leaves it alone *)
  Lemma exec_preserves :
    (forall s inl env pos oc env' pos' tr, assigns_s x s = false ->
       exec_stmt o fuel inl s env pos = (oc, env', pos', tr) -> getv env' x = getv env x) /\
    (forall r inl env pos oc env' pos' tr, assigns_r x r = false ->
       exec_rest o fuel inl r env pos = (oc, env', pos', tr) -> getv env' x = getv env x) /\
    (forall b inl env pos oc env' pos' tr, assigns_b x b = false ->
       exec_block o fuel inl b env pos = (oc, env', pos', tr) -> getv env' x = getv env x).
  Proof.
    apply syntax_ind.
    - intros y l inl env pos oc env' pos' tr Ha H. cbn in Ha, H. inversion H; subst. apply getv_setv_other. exact Ha.
    - intros id y inl env pos oc env' pos' tr Ha H. cbn in H. inversion H; subst. reflexivity.
    - intros c t IHt r IHr inl env pos oc env' pos' tr Ha H. cbn [assigns_s] in Ha. apply orb_false_iff in Ha. destruct Ha as [Ha1 Ha2].
      rewrite exec_if in H. destruct (eval o c env pos) as [v p]. destruct v; [eapply IHt | eapply IHr]; eassumption.
    - intros c b IHb inl env pos oc env' pos' tr Ha H. cbn [assigns_s] in Ha. rewrite exec_while in H.
      eapply (loop_while_sound (eval o c) (exec_block o fuel true b) (fun e => getv e x = getv env x)); [|exact H | reflexivity].
      intros e p oc1 e1 p1 tr1 Hb He. rewrite <- He. eapply IHb; eassumption.
    - intros b IHb inl env pos oc env' pos' tr Ha H. cbn [assigns_s] in Ha. rewrite exec_whiletrue in H.
      assert (forall n e p oc e' p' tr0, loop_forever (exec_block o fuel true b) n e p = (oc, e', p', tr0) ->
                getv e x = getv env x -> getv e' x = getv env x) as K.
      { induction n as [|n IHn]; intros e p oc0 e' p' tr0 HL He; cbn [loop_forever] in HL.
        - inversion HL; subst. exact He.
        - unfold after_body in HL. dres (exec_block o fuel true b e p) as oc1 e1 p1 tr1 E1.
          assert (getv e1 x = getv env x) as G1 by (rewrite <- He; eapply IHb; eassumption).
          destruct oc1.
          + dres (loop_forever (exec_block o fuel true b) n e1 p1) as oc2 e2 p2 tr2 E2. cbn in HL. inversion HL; subst. eapply IHn; eassumption.
          + inversion HL; subst. exact G1.
          + inversion HL; subst. exact G1. }
      eapply K; [exact H | reflexivity].
    - intros b IHb c inl env pos oc env' pos' tr Ha H. cbn [assigns_s] in Ha. rewrite exec_repeat in H.
      assert (forall n e p oc e' p' tr0, loop_repeat (eval o c) (exec_block o fuel true b) n e p = (oc, e', p', tr0) ->
                getv e x = getv env x -> getv e' x = getv env x) as K.
      { induction n as [|n IHn]; intros e p oc0 e' p' tr0 HL He; cbn [loop_repeat] in HL.
        - inversion HL; subst. exact He.
        - unfold after_body in HL. dres (exec_block o fuel true b e p) as oc1 e1 p1 tr1 E1.
          assert (getv e1 x = getv env x) as G1 by (rewrite <- He; eapply IHb; eassumption).
          destruct oc1.
          + destruct (eval o c e1 p1) as [v p2]. destruct v.
            * inversion HL; subst. exact G1.
            * dres (loop_repeat (eval o c) (exec_block o fuel true b) n e1 p2) as oc2 e2 p3 tr2 E2. cbn in HL. inversion HL; subst. eapply IHn; eassumption.
          + inversion HL; subst. exact G1.
          + inversion HL; subst. exact G1. }
      eapply K; [exact H | reflexivity].
    - intros a z b IHb inl env pos oc env' pos' tr Ha H. cbn [assigns_s] in Ha. rewrite exec_for in H.
      assert (forall n e p oc e' p' tr0, loop_count (exec_block o fuel true b) n e p = (oc, e', p', tr0) ->
                getv e x = getv env x -> getv e' x = getv env x) as K.
      { induction n as [|n IHn]; intros e p oc0 e' p' tr0 HL He; cbn [loop_count] in HL.
        - inversion HL; subst. exact He.
        - unfold after_body in HL. dres (exec_block o fuel true b e p) as oc1 e1 p1 tr1 E1.
          assert (getv e1 x = getv env x) as G1 by (rewrite <- He; eapply IHb; eassumption).
          destruct oc1.
          + dres (loop_count (exec_block o fuel true b) n e1 p1) as oc2 e2 p2 tr2 E2. cbn in HL. inversion HL; subst. eapply IHn; eassumption.
          + inversion HL; subst. exact G1.
          + inversion HL; subst. exact G1. }
      eapply K; [exact H | reflexivity].
    - intros c b IHb inl env pos oc env' pos' tr Ha H. cbn [assigns_s] in Ha. rewrite exec_breakif in H.
      destruct (eval o c env pos) as [v p]. destruct v.
      + dres (exec_block o fuel inl b env p) as oc1 e1 p1 tr1 E1. assert (getv e1 x = getv env x) as G by (eapply IHb; eassumption).
        destruct oc1; inversion H; subst; exact G.
      + inversion H; subst. reflexivity.
    - intros c inl env pos oc env' pos' tr Ha H. rewrite exec_assert in H.
      destruct (eval o c env pos) as [v p]. destruct v; inversion H; subst; reflexivity.
    - intros e c b IHb inl env pos oc env' pos' tr Ha H. cbn [assigns_s] in Ha. rewrite exec_returnif in H.
      destruct (eval o c env pos) as [v p]. destruct v.
      + dres (exec_block o fuel inl b env p) as oc1 e1 p1 tr1 E1. assert (getv e1 x = getv env x) as G by (eapply IHb; eassumption).
        destruct oc1; inversion H; subst; exact G.
      + inversion H; subst. reflexivity.
    - intros inl env pos oc env' pos' tr Ha H. cbn in H. inversion H; subst. reflexivity.
    - intros b IHb inl env pos oc env' pos' tr Ha H. cbn [assigns_r] in Ha. rewrite exec_relse in H. eapply IHb; eassumption.
    - intros c t IHt r IHr inl env pos oc env' pos' tr Ha H. cbn [assigns_r] in Ha. apply orb_false_iff in Ha. destruct Ha as [Ha1 Ha2].
      rewrite exec_relif in H. destruct (eval o c env pos) as [v p]. destruct v; [eapply IHt | eapply IHr]; eassumption.
    - intros inl env pos oc env' pos' tr Ha H. cbn in H. inversion H; subst. reflexivity.
    - intros s IHs b IHb inl env pos oc env' pos' tr Ha H. cbn [assigns_b] in Ha. apply orb_false_iff in Ha. destruct Ha as [Ha1 Ha2].
      rewrite exec_bcons in H. dres (exec_stmt o fuel inl s env pos) as oc1 e1 p1 tr1 E1.
      assert (getv e1 x = getv env x) as G by (eapply IHs; eassumption).
      destruct oc1.
      + dres (exec_block o fuel inl b e1 p1) as oc2 e2 p2 tr2 E2. cbn in H. inversion H; subst. rewrite <- G. eapply IHb; eassumption.
      + inversion H; subst. exact G.
      + inversion H; subst. exact G.
  Qed.
End ExecFacts.

Definition flag_true (e : event) : Prop := snd e = true.

Section ExecFacts2.
  Variable o : nat -> bool.
  Variable fuel : nat.

  (** probes inside a loop body are flagged *)
  Lemma exec_flags :
    (forall s env pos oc env' pos' tr, exec_stmt o fuel true s env pos = (oc, env', pos', tr) -> Forall flag_true tr) /\
    (forall r env pos oc env' pos' tr, exec_rest o fuel true r env pos = (oc, env', pos', tr) -> Forall flag_true tr) /\
    (forall b env pos oc env' pos' tr, exec_block o fuel true b env pos = (oc, env', pos', tr) -> Forall flag_true tr).
  Proof.
    apply syntax_ind.
    - intros y l env pos oc env' pos' tr H. cbn in H. inversion H. constructor.
    - intros id y env pos oc env' pos' tr H. cbn in H. inversion H. constructor; [reflexivity | constructor].
    - intros c t IHt r IHr env pos oc env' pos' tr H. rewrite exec_if in H.
      destruct (eval o c env pos) as [v p]. destruct v; [eapply IHt | eapply IHr]; eassumption.
    - intros c b IHb env pos oc env' pos' tr H. rewrite exec_while in H. eapply loop_while_trace; [|exact H]. intros. eapply IHb; eassumption.
    - intros b IHb env pos oc env' pos' tr H. rewrite exec_whiletrue in H. eapply loop_forever_trace; [|exact H]. intros. eapply IHb; eassumption.
    - intros b IHb c env pos oc env' pos' tr H. rewrite exec_repeat in H. eapply loop_repeat_trace; [|exact H]. intros. eapply IHb; eassumption.
    - intros a z b IHb env pos oc env' pos' tr H. rewrite exec_for in H. eapply loop_count_trace; [|exact H]. intros. eapply IHb; eassumption.
    - intros c b IHb env pos oc env' pos' tr H. rewrite exec_breakif in H.
      destruct (eval o c env pos) as [v p]. destruct v.
      + dres (exec_block o fuel true b env p) as oc1 e1 p1 tr1 E1. pose proof (IHb _ _ _ _ _ _ E1) as G.
        destruct oc1; inversion H; subst; exact G.
      + inversion H. constructor.
    - intros c env pos oc env' pos' tr H. rewrite exec_assert in H.
      destruct (eval o c env pos) as [v p]. destruct v; inversion H; constructor.
    - intros e c b IHb env pos oc env' pos' tr H. rewrite exec_returnif in H.
      destruct (eval o c env pos) as [v p]. destruct v.
      + dres (exec_block o fuel true b env p) as oc1 e1 p1 tr1 E1. pose proof (IHb _ _ _ _ _ _ E1) as G.
        destruct oc1; inversion H; subst; exact G.
      + inversion H. constructor.
    - intros env pos oc env' pos' tr H. cbn in H. inversion H. constructor.
    - intros b IHb env pos oc env' pos' tr H. rewrite exec_relse in H. eapply IHb; eassumption.
    - intros c t IHt r IHr env pos oc env' pos' tr H. rewrite exec_relif in H.
      destruct (eval o c env pos) as [v p]. destruct v; [eapply IHt | eapply IHr]; eassumption.
    - intros env pos oc env' pos' tr H. cbn in H. inversion H. constructor.
    - intros s IHs b IHb env pos oc env' pos' tr H. rewrite exec_bcons in H.
      dres (exec_stmt o fuel true s env pos) as oc1 e1 p1 tr1 E1. pose proof (IHs _ _ _ _ _ _ E1) as G.
      destruct oc1.
      + dres (exec_block o fuel true b e1 p1) as oc2 e2 p2 tr2 E2. cbn in H. inversion H; subst.
        apply Forall_app. split; [exact G | eapply IHb; exact E2].
      + inversion H; subst. exact G.
      + inversion H; subst. exact G.
  Qed.

  Lemma loop_forever_nb : forall bdy n env pos oc env' pos' tr,
    loop_forever bdy n env pos = (oc, env', pos', tr) -> oc <> OBreak.
  Proof.
    induction n as [|n IH]; intros env pos oc env' pos' tr H; cbn [loop_forever] in H; [inversion H; discriminate|].
    unfold after_body in H. dres (bdy env pos) as oc1 e1 p1 tr1 E1. destruct oc1; try (inversion H; discriminate).
    dres (loop_forever bdy n e1 p1) as oc2 e2 p2 tr2 E2. cbn in H. inversion H; subst. eapply IH; exact E2.
  Qed.
  Lemma loop_count_nb : forall bdy n env pos oc env' pos' tr,
    loop_count bdy n env pos = (oc, env', pos', tr) -> oc <> OBreak.
  Proof.
    induction n as [|n IH]; intros env pos oc env' pos' tr H; cbn [loop_count] in H; [inversion H; discriminate|].
    unfold after_body in H. dres (bdy env pos) as oc1 e1 p1 tr1 E1. destruct oc1; try (inversion H; discriminate).
    dres (loop_count bdy n e1 p1) as oc2 e2 p2 tr2 E2. cbn in H. inversion H; subst. eapply IH; exact E2.
  Qed.
  Lemma loop_repeat_nb : forall cnd bdy n env pos oc env' pos' tr,
    loop_repeat cnd bdy n env pos = (oc, env', pos', tr) -> oc <> OBreak.
  Proof.
    induction n as [|n IH]; intros env pos oc env' pos' tr H; cbn [loop_repeat] in H; [inversion H; discriminate|].
    unfold after_body in H. dres (bdy env pos) as oc1 e1 p1 tr1 E1. destruct oc1; try (inversion H; discriminate).
    destruct (cnd e1 p1) as [v p]. destruct v; [inversion H; discriminate|].
    dres (loop_repeat cnd bdy n e1 p) as oc2 e2 p2 tr2 E2. cbn in H. inversion H; subst. eapply IH; exact E2.
  Qed.
  Lemma loop_while_nb : forall cnd bdy n env pos oc env' pos' tr,
    loop_while cnd bdy n env pos = (oc, env', pos', tr) -> oc <> OBreak.
  Proof.
    induction n as [|n IH]; intros env pos oc env' pos' tr H; cbn [loop_while] in H; [inversion H; discriminate|].
    destruct (cnd env pos) as [v p]. destruct v; [|inversion H; discriminate].
    unfold after_body in H. dres (bdy env p) as oc1 e1 p1 tr1 E1. destruct oc1; try (inversion H; discriminate).
    dres (loop_while cnd bdy n e1 p1) as oc2 e2 p2 tr2 E2. cbn in H. inversion H; subst. eapply IH; exact E2.
  Qed.

  (** without a [break] of its own a block does not end in [OBreak] *)
  Lemma exec_no_break :
    (forall s inl env pos oc env' pos' tr, own_break_s s = false -> exec_stmt o fuel inl s env pos = (oc, env', pos', tr) -> oc <> OBreak) /\
    (forall r inl env pos oc env' pos' tr, own_break_r r = false -> exec_rest o fuel inl r env pos = (oc, env', pos', tr) -> oc <> OBreak) /\
    (forall b inl env pos oc env' pos' tr, own_break_b b = false -> exec_block o fuel inl b env pos = (oc, env', pos', tr) -> oc <> OBreak).
  Proof.
    apply syntax_ind.
    - intros y l inl env pos oc env' pos' tr _ H. cbn in H. inversion H. discriminate.
    - intros id y inl env pos oc env' pos' tr _ H. cbn in H. inversion H. discriminate.
    - intros c t IHt r IHr inl env pos oc env' pos' tr Hb H. cbn [own_break_s] in Hb. apply orb_false_iff in Hb. destruct Hb.
      rewrite exec_if in H. destruct (eval o c env pos) as [v p]. destruct v; [eapply IHt | eapply IHr]; eassumption.
    - intros c b _ inl env pos oc env' pos' tr _ H. rewrite exec_while in H. eapply loop_while_nb. exact H.
    - intros b _ inl env pos oc env' pos' tr _ H. rewrite exec_whiletrue in H. eapply loop_forever_nb. exact H.
    - intros b _ c inl env pos oc env' pos' tr _ H. rewrite exec_repeat in H. eapply loop_repeat_nb. exact H.
    - intros a z b _ inl env pos oc env' pos' tr _ H. rewrite exec_for in H. eapply loop_count_nb. exact H.
    - intros c b _ inl env pos oc env' pos' tr Hb H. cbn in Hb. discriminate.
    - intros c inl env pos oc env' pos' tr _ H. rewrite exec_assert in H.
      destruct (eval o c env pos) as [v p]. destruct v; inversion H; discriminate.
    - intros e c b IHb inl env pos oc env' pos' tr Hb H. cbn [own_break_s] in Hb. rewrite exec_returnif in H.
      destruct (eval o c env pos) as [v p]. destruct v.
      + dres (exec_block o fuel inl b env p) as oc1 e1 p1 tr1 E1. pose proof (IHb _ _ _ _ _ _ _ Hb E1) as G.
        destruct oc1; inversion H; subst; try discriminate. exact G.
      + inversion H. discriminate.
    - intros inl env pos oc env' pos' tr _ H. cbn in H. inversion H. discriminate.
    - intros b IHb inl env pos oc env' pos' tr Hb H. rewrite exec_relse in H. eapply IHb; eassumption.
    - intros c t IHt r IHr inl env pos oc env' pos' tr Hb H. cbn [own_break_r] in Hb. apply orb_false_iff in Hb. destruct Hb.
      rewrite exec_relif in H. destruct (eval o c env pos) as [v p]. destruct v; [eapply IHt | eapply IHr]; eassumption.
    - intros inl env pos oc env' pos' tr _ H. cbn in H. inversion H. discriminate.
    - intros s IHs b IHb inl env pos oc env' pos' tr Hb H. cbn [own_break_b] in Hb. apply orb_false_iff in Hb. destruct Hb as [Hb1 Hb2].
      rewrite exec_bcons in H. dres (exec_stmt o fuel inl s env pos) as oc1 e1 p1 tr1 E1.
      pose proof (IHs _ _ _ _ _ _ _ Hb1 E1) as G. destruct oc1.
      + dres (exec_block o fuel inl b e1 p1) as oc2 e2 p2 tr2 E2. cbn in H. inversion H; subst. eapply IHb; eassumption.
      + contradiction.
      + inversion H. discriminate.
  Qed.
End ExecFacts2.

(* ------------------------------------------------------------------------------------ facts about (B) *)
Section BFacts.
  Variable x : nat.
  Variable d : ty.

  Lemma bstmt_wf :
    (forall s inl cur cur' brks prs, bstmt x d inl s cur = (cur', brks, prs) -> wf cur -> wf cur' /\ wf brks) /\
    (forall r inl el cur cur' brks prs, brest x d inl r el cur = (cur', brks, prs) -> wf el -> wf cur -> wf cur' /\ wf brks) /\
    (forall b inl cur cur' brks prs, bblock x d inl b cur = (cur', brks, prs) -> wf cur -> wf cur' /\ wf brks).
  Proof.
    apply syntax_ind.
    - intros y l inl cur cur' brks prs H Hw. cbn in H.
      destruct (Nat.eqb x y); inversion H; subst; (split; [apply wf_single | apply wf_nil]);
        [apply st_assign_wf | apply force_wf; exact Hw].
    - intros id y inl cur cur' brks prs H Hw. cbn in H.
      destruct (Nat.eqb x y); inversion H; subst; (split; [apply wf_single; apply force_wf; exact Hw | apply wf_nil]).
    - intros c t IHt r IHr inl cur cur' brks prs H Hw. rewrite bstmt_if in H.
      destruct (bindc x c cur) as [tl fl] eqn:Ec. destruct (bindc_wf _ _ _ _ _ Ec Hw) as [Htl Hfl].
      destruct (bblock x d inl t (fin tl cur)) as [[e br] pr] eqn:Et.
      destruct (brest x d inl r fl cur) as [[e2 br2] pr2] eqn:Er. inversion H; subst.
      assert (wf (fin tl cur)) as Hfin by (destruct tl; [exact Hw | exact Htl]).
      destruct (IHt _ _ _ _ _ Et Hfin). destruct (IHr _ _ _ _ _ _ Er Hfl Hw).
      split; apply wf_app; assumption.
    - intros c b IHb inl cur cur' brks prs H Hw. rewrite bstmt_while in H.
      destruct (bindc x c cur) as [tl fl]. destruct (bblock x d true b (fin tl cur)) as [[e br] pr].
      inversion H; subst. split; [exact Hw | apply wf_nil].
    - intros b IHb inl cur cur' brks prs H Hw. rewrite bstmt_whiletrue in H.
      destruct (is_bnil b); [inversion H; subst; split; [exact Hw | apply wf_nil]|].
      destruct (bblock x d true b cur) as [[e br] pr] eqn:Eb. inversion H; subst.
      destruct (IHb _ _ _ _ _ Eb Hw). split; [apply wf_app; assumption | apply wf_nil].
    - intros b IHb c inl cur cur' brks prs H Hw. rewrite bstmt_repeat in H.
      destruct (bblock x d true b cur) as [[e br] pr] eqn:Eb. destruct (IHb _ _ _ _ _ Eb Hw) as [He Hbr].
      destruct (bindc x c e) as [tl fl] eqn:Ec. destruct (bindc_wf _ _ _ _ _ Ec He) as [Htl Hfl].
      inversion H; subst. split; [|apply wf_nil].
      apply wf_fin; [apply wf_app; assumption | exact He].
    - intros a z b IHb inl cur cur' brks prs H Hw. rewrite bstmt_for in H.
      destruct (is_bnil b); [inversion H; subst; split; [exact Hw | apply wf_nil]|].
      destruct (bblock x d true b [force cur]) as [[e br] pr] eqn:Eb.
      destruct (IHb _ _ _ _ _ Eb (wf_single _ (force_wf _ Hw))) as [He Hbr].
      destruct (N.leb a z); inversion H; subst; (split; [|apply wf_nil]); [apply wf_app; assumption | exact Hw].
    - intros c b IHb inl cur cur' brks prs H Hw. rewrite bstmt_breakif in H.
      destruct (bindc x c cur) as [tl fl] eqn:Ec. destruct (bindc_wf _ _ _ _ _ Ec Hw) as [Htl Hfl].
      destruct (bblock x d inl b (fin tl cur)) as [[e br] pr] eqn:Eb. inversion H; subst.
      assert (wf (fin tl cur)) as Hfin by (destruct tl; [exact Hw | exact Htl]).
      destruct (IHb _ _ _ _ _ Eb Hfin) as [He Hbr].
      split; [exact Hfl | apply wf_app; [exact Hbr | apply wf_single; apply force_wf; exact He]].
    - intros c inl cur cur' brks prs H Hw. rewrite bstmt_assert in H.
      destruct (bindc x c cur) as [tl fl] eqn:Ec. destruct (bindc_wf _ _ _ _ _ Ec Hw) as [Htl Hfl].
      inversion H; subst. split; [apply wf_fin; assumption | apply wf_nil].
    - intros e c b IHb inl cur cur' brks prs H Hw. rewrite bstmt_returnif in H.
      destruct (bindc x c cur) as [tl fl] eqn:Ec. destruct (bindc_wf _ _ _ _ _ Ec Hw) as [Htl Hfl].
      destruct (bblock x d inl b (fin tl cur)) as [[e0 br] pr] eqn:Eb. inversion H; subst.
      assert (wf (fin tl cur)) as Hfin by (destruct tl; [exact Hw | exact Htl]).
      destruct (IHb _ _ _ _ _ Eb Hfin) as [He Hbr]. split; [exact Hfl | exact Hbr].
    - intros inl el cur cur' brks prs H Hel Hw. cbn in H. inversion H; subst. split; [exact Hel | apply wf_nil].
    - intros b IHb inl el cur cur' brks prs H Hel Hw. rewrite brest_relse in H. eapply IHb; eassumption.
    - intros c t IHt r IHr inl el cur cur' brks prs H Hel Hw. rewrite brest_relif in H.
      assert (wf (fin el cur)) as Hfe by (destruct el; [exact Hw | exact Hel]).
      destruct (bindc x c (fin el cur)) as [tl fl] eqn:Ec. destruct (bindc_wf _ _ _ _ _ Ec Hfe) as [Htl Hfl].
      destruct (bblock x d inl t (fin tl cur)) as [[e br] pr] eqn:Et.
      destruct (brest x d inl r fl cur) as [[e2 br2] pr2] eqn:Er. inversion H; subst.
      assert (wf (fin tl cur)) as Hfin by (destruct tl; [exact Hw | exact Htl]).
      destruct (IHt _ _ _ _ _ Et Hfin). destruct (IHr _ _ _ _ _ _ Er Hfl Hw).
      split; apply wf_app; assumption.
    - intros inl cur cur' brks prs H Hw. cbn in H. inversion H; subst. split; [exact Hw | apply wf_nil].
    - intros s IHs b IHb inl cur cur' brks prs H Hw. rewrite bblock_bcons in H.
      destruct (bstmt x d inl s cur) as [[c1 br1] pr1] eqn:Es. destruct (IHs _ _ _ _ _ Es Hw) as [H1 H2].
      destruct (bblock x d inl b c1) as [[c2 br2] pr2] eqn:Eb. destruct (IHb _ _ _ _ _ Eb H1) as [H3 H4].
      inversion H; subst. split; [exact H3 | apply wf_app; assumption].
  Qed.

  (** a block without a [break] of its own contributes nothing to the enclosing loop's break target *)
  Lemma bstmt_no_break :
    (forall s inl cur cur' brks prs, own_break_s s = false -> bstmt x d inl s cur = (cur', brks, prs) -> brks = []) /\
    (forall r inl el cur cur' brks prs, own_break_r r = false -> brest x d inl r el cur = (cur', brks, prs) -> brks = []) /\
    (forall b inl cur cur' brks prs, own_break_b b = false -> bblock x d inl b cur = (cur', brks, prs) -> brks = []).
  Proof.
    apply syntax_ind.
    - intros y l inl cur cur' brks prs _ H. cbn in H. destruct (Nat.eqb x y); inversion H; reflexivity.
    - intros id y inl cur cur' brks prs _ H. cbn in H. destruct (Nat.eqb x y); inversion H; reflexivity.
    - intros c t IHt r IHr inl cur cur' brks prs Hb H. cbn [own_break_s] in Hb. apply orb_false_iff in Hb. destruct Hb as [Hb1 Hb2].
      rewrite bstmt_if in H. destruct (bindc x c cur) as [tl fl].
      destruct (bblock x d inl t (fin tl cur)) as [[e br] pr] eqn:Et.
      destruct (brest x d inl r fl cur) as [[e2 br2] pr2] eqn:Er. inversion H; subst.
      rewrite (IHt _ _ _ _ _ Hb1 Et). rewrite (IHr _ _ _ _ _ _ Hb2 Er). reflexivity.
    - intros c b _ inl cur cur' brks prs _ H. rewrite bstmt_while in H.
      destruct (bindc x c cur) as [tl fl]. destruct (bblock x d true b (fin tl cur)) as [[e br] pr]. inversion H; reflexivity.
    - intros b _ inl cur cur' brks prs _ H. rewrite bstmt_whiletrue in H.
      destruct (is_bnil b); [inversion H; reflexivity|]. destruct (bblock x d true b cur) as [[e br] pr]. inversion H; reflexivity.
    - intros b _ c inl cur cur' brks prs _ H. rewrite bstmt_repeat in H.
      destruct (bblock x d true b cur) as [[e br] pr]. destruct (bindc x c e) as [tl fl]. inversion H; reflexivity.
    - intros a z b _ inl cur cur' brks prs _ H. rewrite bstmt_for in H.
      destruct (is_bnil b); [inversion H; reflexivity|]. destruct (bblock x d true b [force cur]) as [[e br] pr].
      destruct (N.leb a z); inversion H; reflexivity.
    - intros c b _ inl cur cur' brks prs Hb H. cbn in Hb. discriminate.
    - intros c inl cur cur' brks prs _ H. rewrite bstmt_assert in H. destruct (bindc x c cur) as [tl fl]. inversion H; reflexivity.
    - intros e c b IHb inl cur cur' brks prs Hb H. cbn [own_break_s] in Hb. rewrite bstmt_returnif in H.
      destruct (bindc x c cur) as [tl fl]. destruct (bblock x d inl b (fin tl cur)) as [[e0 br] pr] eqn:Eb.
      inversion H; subst. eapply IHb; eassumption.
    - intros inl el cur cur' brks prs _ H. cbn in H. inversion H; reflexivity.
    - intros b IHb inl el cur cur' brks prs Hb H. rewrite brest_relse in H. eapply IHb; eassumption.
    - intros c t IHt r IHr inl el cur cur' brks prs Hb H. cbn [own_break_r] in Hb. apply orb_false_iff in Hb. destruct Hb as [Hb1 Hb2].
      rewrite brest_relif in H. destruct (bindc x c (fin el cur)) as [tl fl].
      destruct (bblock x d inl t (fin tl cur)) as [[e br] pr] eqn:Et.
      destruct (brest x d inl r fl cur) as [[e2 br2] pr2] eqn:Er. inversion H; subst.
      rewrite (IHt _ _ _ _ _ Hb1 Et). rewrite (IHr _ _ _ _ _ _ Hb2 Er). reflexivity.
    - intros inl cur cur' brks prs _ H. cbn in H. inversion H; reflexivity.
    - intros s IHs b IHb inl cur cur' brks prs Hb H. cbn [own_break_b] in Hb. apply orb_false_iff in Hb. destruct Hb as [Hb1 Hb2].
      rewrite bblock_bcons in H. destruct (bstmt x d inl s cur) as [[c1 br1] pr1] eqn:Es.
      destruct (bblock x d inl b c1) as [[c2 br2] pr2] eqn:Eb. inversion H; subst.
      rewrite (IHs _ _ _ _ _ Hb1 Es). rewrite (IHb _ _ _ _ _ Hb2 Eb). reflexivity.
  Qed.
End BFacts.

(* ------------------------------------------------------------------------------------ the simulation *)
Lemma false_flag_absent : forall tr (e : event), Forall flag_true tr -> In e tr -> snd e = false -> False.
Proof. intros tr e HF Hin He. rewrite Forall_forall in HF. specialize (HF _ Hin). unfold flag_true in HF. congruence. Qed.

Section Main.
  Variable o : nat -> bool.
  Variable fuel : nat.
  Variable x : nat.
  Variable d : bty.

  Definition tr_ok (vin : option atom) (inl : bool) (tr : list event) (prs : list pinfo) : Prop :=
    vin = None -> inl = false -> forall id v, In (id, x, v, false) tr -> exists t, In (id, false, t) prs /\ has v t = true.

  Definition Sound_s (s : stmt) : Prop := forall inl vin env pos oc env' pos' tr cur cur' brks prs,
    exec_stmt o fuel inl s env pos = (oc, env', pos', tr) ->
    bstmt x (B d) inl s cur = (cur', brks, prs) ->
    ok_loops_s x s = true -> (vin <> None -> tests_s x s = false) ->
    R vin (getv env x) cur -> wf cur ->
    (oc = ONormal -> R vin (getv env' x) cur') /\ (oc = OBreak -> R vin (getv env' x) brks) /\ tr_ok vin inl tr prs.

  Definition Sound_r (r : rest) : Prop := forall inl vin env pos oc env' pos' tr el cur cur' brks prs,
    exec_rest o fuel inl r env pos = (oc, env', pos', tr) ->
    brest x (B d) inl r el cur = (cur', brks, prs) ->
    ok_loops_r x r = true -> (vin <> None -> tests_r x r = false) ->
    R vin (getv env x) el -> wf el -> wf cur ->
    (oc = ONormal -> R vin (getv env' x) cur') /\ (oc = OBreak -> R vin (getv env' x) brks) /\ tr_ok vin inl tr prs.

  Definition Sound_b (b : block) : Prop := forall inl vin env pos oc env' pos' tr cur cur' brks prs,
    exec_block o fuel inl b env pos = (oc, env', pos', tr) ->
    bblock x (B d) inl b cur = (cur', brks, prs) ->
    ok_loops_b x b = true -> (vin <> None -> tests_b x b = false) ->
    R vin (getv env x) cur -> wf cur ->
    (oc = ONormal -> R vin (getv env' x) cur') /\ (oc = OBreak -> R vin (getv env' x) brks) /\ tr_ok vin inl tr prs.

  (** invariants at the start of an iteration of a loop whose body [b] is analysed once from [cur] with end [eflow] *)
  Definition P1 (vin : option atom) (b : block) (cur eflow : flow) (e : env_t) : Prop :=
    R vin (getv e x) eflow /\ (assigns_b x b = false -> R vin (getv e x) cur) /\ reach_ok cur.
  Definition Pin (vin : option atom) (b : block) (cur eflow : flow) (e : env_t) : Prop :=
    R vin (getv e x) cur \/ P1 vin b cur eflow e.

  Lemma body_step : forall b vin cur eflow br pr,
    Sound_b b ->
    bblock x (B d) true b cur = (eflow, br, pr) ->
    ok_loops_b x b = true -> (vin <> None -> tests_b x b = false) ->
    (assigns_b x b = false \/ tests_b x b = false) -> wf cur ->
    forall env pos oc env' pos' tr, exec_block o fuel true b env pos = (oc, env', pos', tr) -> Pin vin b cur eflow env ->
      (oc = ONormal -> P1 vin b cur eflow env') /\
      (oc = OBreak -> R vin (getv env' x) br \/ (assigns_b x b = true /\ R vin (getv env' x) eflow)).
  Proof.
    intros b vin cur eflow br pr IHb HB Hok Ht Hcls Hw env pos oc env' pos' tr HE HP.
    assert (R vin (getv env x) cur ->
            (oc = ONormal -> P1 vin b cur eflow env') /\
            (oc = OBreak -> R vin (getv env' x) br \/ (assigns_b x b = true /\ R vin (getv env' x) eflow))) as Common.
    { intro HRc. destruct (IHb true vin _ _ _ _ _ _ _ _ _ _ HE HB Hok Ht HRc Hw) as [Hn [Hb _]]. split.
      - intro Hoc. split; [apply Hn; exact Hoc|]. split; [|eapply R_reach; exact HRc].
        intro Ha. rewrite (proj2 (proj2 (exec_preserves o fuel x)) _ _ _ _ _ _ _ _ Ha HE). exact HRc.
      - intro Hoc. left. apply Hb. exact Hoc. }
    destruct HP as [HRc|[HRe [Hna Hrc]]]; [apply Common; exact HRc|].
    destruct (assigns_b x b) eqn:Ea; [|apply Common; apply Hna; reflexivity].
    assert (tests_b x b = false) as Htb by (destruct Hcls as [Hc|Hc]; [discriminate Hc | exact Hc]).
    assert (R (Some (getv env x)) (getv env x) cur) as HRr by (right; split; [reflexivity | exact Hrc]).
    destruct (IHb true (Some (getv env x)) _ _ _ _ _ _ _ _ _ _ HE HB Hok (fun _ => Htb) HRr Hw) as [Hn [Hb _]]. split.
    - intro Hoc. split; [|split; [intro Hc; rewrite Ea in Hc; discriminate Hc | exact Hrc]].
      destruct (Hn Hoc) as [Hi|[Heq _]]; [left; exact Hi|]. replace (getv env' x) with (getv env x) by congruence. exact HRe.
    - intro Hoc. destruct (Hb Hoc) as [Hi|[Heq _]]; [left; left; exact Hi|].
      right. split; [reflexivity|]. replace (getv env' x) with (getv env x) by congruence. exact HRe.
  Qed.

  Lemma tr_ok_loop : forall vin inl tr prs, Forall flag_true tr -> tr_ok vin inl tr prs.
  Proof. intros vin inl tr prs HF _ _ id v Hin. exfalso. eapply false_flag_absent; [exact HF | exact Hin | reflexivity]. Qed.

  Lemma tr_ok_app : forall vin inl tr1 tr2 p1 p2, tr_ok vin inl tr1 p1 -> tr_ok vin inl tr2 p2 -> tr_ok vin inl (tr1 ++ tr2) (p1 ++ p2).
  Proof.
    intros vin inl tr1 tr2 p1 p2 H1 H2 Hv Hi id v Hin. apply in_app_iff in Hin. destruct Hin as [Hin|Hin].
    - destruct (H1 Hv Hi id v Hin) as [t [Ht Hh]]. exists t. split; [apply in_app_iff; left; exact Ht | exact Hh].
    - destruct (H2 Hv Hi id v Hin) as [t [Ht Hh]]. exists t. split; [apply in_app_iff; right; exact Ht | exact Hh].
  Qed.
  Lemma tr_ok_l : forall vin inl tr p1 p2, tr_ok vin inl tr p1 -> tr_ok vin inl tr (p1 ++ p2).
  Proof. intros vin inl tr p1 p2 H1 Hv Hi id v Hin. destruct (H1 Hv Hi id v Hin) as [t [Ht Hh]]. exists t. split; [apply in_app_iff; left; exact Ht | exact Hh]. Qed.
  Lemma tr_ok_r : forall vin inl tr p1 p2, tr_ok vin inl tr p2 -> tr_ok vin inl tr (p1 ++ p2).
  Proof. intros vin inl tr p1 p2 H1 Hv Hi id v Hin. destruct (H1 Hv Hi id v Hin) as [t [Ht Hh]]. exists t. split; [apply in_app_iff; right; exact Ht | exact Hh]. Qed.
  Lemma tr_ok_nil : forall vin inl prs, tr_ok vin inl [] prs.
  Proof. intros vin inl prs _ _ id v []. Qed.

  Lemma body_flags : forall b env pos oc env' pos' tr, exec_block o fuel true b env pos = (oc, env', pos', tr) -> Forall flag_true tr.
  Proof. intros. eapply (proj2 (proj2 (exec_flags o fuel))). eassumption. Qed.

  Theorem sound_all : (forall s, Sound_s s) /\ (forall r, Sound_r r) /\ (forall b, Sound_b b).
  Proof.
    apply syntax_ind.
    - (* SAssign *)
      intros y l inl vin env pos oc env' pos' tr cur cur' brks prs HE HB Hok Ht HR Hw. cbn in HE. inversion HE; subst. cbn [bstmt] in HB.
      destruct (Nat.eqb x y) eqn:Exy; inversion HB; subst.
      + apply Nat.eqb_eq in Exy. subst y. split; [|split; [discriminate | apply tr_ok_nil]].
        intros _. rewrite getv_setv_same. left. eexists. split; [left; reflexivity|].
        apply st_assign_okv; [apply force_reach; eapply R_reach; exact HR | apply force_wf; exact Hw].
      + split; [|split; [discriminate | apply tr_ok_nil]].
        intros _. rewrite getv_setv_other by exact Exy. apply R_force. exact HR.
    - (* SProbe *)
      intros id y inl vin env pos oc env' pos' tr cur cur' brks prs HE HB Hok Ht HR Hw. cbn in HE. inversion HE; subst. cbn [bstmt] in HB.
      destruct (Nat.eqb x y) eqn:Exy; inversion HB; subst; (split; [intros _; apply R_force; exact HR | split; [discriminate|]]).
      + intros Hv Hi id' v Hin. destruct Hin as [Heq|[]]. inversion Heq; subst. exists (sN (force cur)). split; [left; reflexivity|].
        destruct HR as [HI|[Hc _]]; [|discriminate Hc]. apply force_okv in HI. apply HI.
      + intros Hv Hi id' v Hin. destruct Hin as [Heq|[]]. inversion Heq; subst. rewrite Nat.eqb_refl in Exy. discriminate.
    - (* SIf *)
      intros c t IHt r IHr inl vin env pos oc env' pos' tr cur cur' brks prs HE HB Hok Ht HR Hw.
      rewrite exec_if in HE. rewrite bstmt_if in HB. cbn [ok_loops_s] in Hok. apply andb_true_iff in Hok. destruct Hok as [Hokt Hokr].
      assert (vin <> None -> ctests x c = false /\ tests_b x t = false /\ tests_r x r = false) as Ht3.
      { intro Hv. specialize (Ht Hv). cbn [tests_s] in Ht. apply orb_false_iff in Ht. destruct Ht as [Ht1 Ht2]. apply orb_false_iff in Ht1. tauto. }
      destruct (eval o c env pos) as [v p] eqn:Ev. destruct (bindc x c cur) as [tl fl] eqn:Ec.
      destruct (bblock x (B d) inl t (fin tl cur)) as [[e br] pr] eqn:Et.
      destruct (brest x (B d) inl r fl cur) as [[e2 br2] pr2] eqn:Er. inversion HB; subst.
      pose proof (bindc_sound o x env vin c cur _ _ v pos p Ec Ev (fun Hv => proj1 (Ht3 Hv)) HR) as HS.
      destruct (bindc_wf _ _ _ _ _ Ec Hw) as [Htl Hfl]. destruct v.
      + rewrite (R_fin _ _ _ cur HS) in Et.
        destruct (IHt _ _ _ _ _ _ _ _ _ _ _ _ HE Et Hokt (fun Hv => proj1 (proj2 (Ht3 Hv))) HS Htl) as [Hn [Hb Htr]].
        split; [intro Hoc; apply R_app_l; apply Hn; exact Hoc | split; [intro Hoc; apply R_app_l; apply Hb; exact Hoc | apply tr_ok_l; exact Htr]].
      + destruct (IHr _ _ _ _ _ _ _ _ _ _ _ _ _ HE Er Hokr (fun Hv => proj2 (proj2 (Ht3 Hv))) HS Hfl Hw) as [Hn [Hb Htr]].
        split; [intro Hoc; apply R_app_r; apply Hn; exact Hoc | split; [intro Hoc; apply R_app_r; apply Hb; exact Hoc | apply tr_ok_r; exact Htr]].
    - (* SWhile *)
      intros c b IHb inl vin env pos oc env' pos' tr cur cur' brks prs HE HB Hok Ht HR Hw.
      rewrite exec_while in HE. rewrite bstmt_while in HB. cbn [ok_loops_s] in Hok. apply andb_true_iff in Hok. destruct Hok as [Hna Hokb].
      apply negb_true_iff in Hna.
      destruct (bindc x c cur) as [tl fl]. destruct (bblock x (B d) true b (fin tl cur)) as [[e br] pr]. inversion HB; subst.
      destruct (loop_while_sound (eval o c) (exec_block o fuel true b) (fun en => getv en x = getv env x)) with (2 := HE) as [Hoc HP].
      { intros en p oc1 en1 p1 tr1 Hbd Hen. rewrite <- Hen. eapply (proj2 (proj2 (exec_preserves o fuel x))); eassumption. }
      { reflexivity. }
      split; [intros _; rewrite HP; exact HR | split; [intro Hb; destruct Hoc as [[r Hs]|Hs]; congruence|]].
      apply tr_ok_loop. eapply loop_while_trace; [|exact HE]. intros. eapply body_flags. eassumption.
    - (* SWhileTrue *)
      intros b IHb inl vin env pos oc env' pos' tr cur cur' brks prs HE HB Hok Ht HR Hw.
      rewrite exec_whiletrue in HE. rewrite bstmt_whiletrue in HB.
      assert (tr_ok vin inl tr prs) as Htr.
      { apply tr_ok_loop. eapply loop_forever_trace; [|exact HE]. intros. eapply body_flags. eassumption. }
      destruct (is_bnil b) eqn:Eb.
      + inversion HB; subst. destruct b; [|discriminate Eb].
        destruct (loop_forever_sound (exec_block o fuel true BNil) (fun _ => True) (fun _ => True) (fun _ => False)) with (3 := HE) as [[r G]|[_ []]].
        { tauto. }
        { intros en p oc1 en1 p1 tr1 Hbd _. cbn in Hbd. inversion Hbd; subst. split; [tauto | discriminate]. }
        { exact I. }
        subst oc. split; [discriminate | split; [discriminate | exact Htr]].
      + destruct (bblock x (B d) true b cur) as [[e br] pr] eqn:EB. inversion HB; subst.
        cbn [ok_loops_s] in Hok. apply andb_true_iff in Hok. destruct Hok as [Hcl Hokb].
        assert (assigns_b x b = false \/ tests_b x b = false) as Hcls.
        { apply orb_true_iff in Hcl. destruct Hcl as [H1|H1]; apply negb_true_iff in H1; tauto. }
        destruct (loop_forever_sound (exec_block o fuel true b) (Pin vin b cur e) (P1 vin b cur e) (fun en => R vin (getv en x) (br ++ e)))
          with (3 := HE) as [[r G]|[G1 G2]].
        { intros en HP. right. exact HP. }
        { intros en p oc1 en1 p1 tr1 Hbd HPi.
          destruct (body_step b vin cur e br _ IHb EB Hokb Ht Hcls Hw _ _ _ _ _ _ Hbd HPi) as [S1 S2]. split; [exact S1|].
          intro Hoc. destruct (S2 Hoc) as [Hl|[_ Hr]]; [apply R_app_l | apply R_app_r]; assumption. }
        { left. exact HR. }
        * subst oc. split; [discriminate | split; [discriminate | exact Htr]].
        * subst oc. split; [intros _; exact G2 | split; [discriminate | exact Htr]].
    - (* SRepeat *)
      intros b IHb c inl vin env pos oc env' pos' tr cur cur' brks prs HE HB Hok Ht HR Hw.
      rewrite exec_repeat in HE. rewrite bstmt_repeat in HB.
      assert (tr_ok vin inl tr prs) as Htr.
      { apply tr_ok_loop. eapply loop_repeat_trace; [|exact HE]. intros. eapply body_flags. eassumption. }
      destruct (bblock x (B d) true b cur) as [[e br] pr] eqn:EB. destruct (bindc x c e) as [tl fl] eqn:Ec. inversion HB; subst.
      cbn [ok_loops_s] in Hok. apply andb_true_iff in Hok. destruct Hok as [Hcl Hokb].
      assert (assigns_b x b = false \/ tests_b x b = false) as Hcls.
      { apply orb_true_iff in Hcl. destruct Hcl as [H1|H1]; [apply negb_true_iff in H1; tauto|].
        apply andb_true_iff in H1. destruct H1 as [H1 _]. apply negb_true_iff in H1. tauto. }
      assert (assigns_b x b = true -> own_break_b b = false) as Hnb.
      { intro Ha. apply orb_true_iff in Hcl. destruct Hcl as [H1|H1]; [rewrite Ha in H1; discriminate H1|].
        apply andb_true_iff in H1. destruct H1 as [_ H1]. apply negb_true_iff in H1. exact H1. }
      assert (vin <> None -> tests_b x b = false /\ ctests x c = false) as Ht2.
      { intro Hv. specialize (Ht Hv). cbn [tests_s] in Ht. apply orb_false_iff in Ht. exact Ht. }
      destruct (loop_repeat_sound (eval o c) (exec_block o fuel true b) (Pin vin b cur e) (P1 vin b cur e) (fun en => R vin (getv en x) (br ++ tl)))
        with (4 := HE) as [[r G]|[G1 G2]].
      { intros en HP. right. exact HP. }
      { intros en p oc1 en1 p1 tr1 Hbd HPi.
        destruct (body_step b vin cur e br _ IHb EB Hokb (fun Hv => proj1 (Ht2 Hv)) Hcls Hw _ _ _ _ _ _ Hbd HPi) as [S1 S2]. split; [exact S1|].
        intro Hoc. destruct (S2 Hoc) as [Hl|[Ha _]]; [apply R_app_l; exact Hl|].
        exfalso. eapply (proj2 (proj2 (exec_no_break o fuel))); [apply Hnb; exact Ha | exact Hbd | exact Hoc]. }
      { intros en p p' [HRe _] Hev.
        pose proof (bindc_sound o x en vin c e _ _ true p p' Ec Hev (fun Hv => proj2 (Ht2 Hv)) HRe) as HS. cbn in HS.
        apply R_app_r. exact HS. }
      { left. exact HR. }
      * subst oc. split; [discriminate | split; [discriminate | exact Htr]].
      * subst oc. split; [intros _; rewrite (R_fin _ _ _ e G2); exact G2 | split; [discriminate | exact Htr]].
    - (* SFor *)
      intros a z b IHb inl vin env pos oc env' pos' tr cur cur' brks prs HE HB Hok Ht HR Hw.
      pose proof HE as HE0. rewrite exec_for in HE. rewrite bstmt_for in HB.
      assert (tr_ok vin inl tr prs) as Htr.
      { apply tr_ok_loop. eapply loop_count_trace; [|exact HE]. intros. eapply body_flags. eassumption. }
      assert (oc <> OBreak) as Hnbk by (eapply loop_count_nb; exact HE).
      destruct (is_bnil b) eqn:Eb.
      + inversion HB; subst. destruct b; [|discriminate Eb].
        assert (getv env' x = getv env x) as Hp by (eapply (proj1 (exec_preserves o fuel x)); [|exact HE0]; reflexivity).
        split; [intros _; rewrite Hp; exact HR | split; [intro; contradiction | exact Htr]].
      + destruct (bblock x (B d) true b [force cur]) as [[e br] pr] eqn:EB.
        destruct (N.leb a z) eqn:Eaz; inversion HB; subst.
        * cbn [ok_loops_s] in Hok. apply N.leb_le in Eaz.
          assert (N.ltb z a = false) as Hlt by (apply N.ltb_ge; exact Eaz). rewrite Hlt in Hok.
          apply andb_true_iff in Hok. destruct Hok as [Hcl Hokb].
          assert (assigns_b x b = false \/ tests_b x b = false) as Hcls.
          { apply orb_true_iff in Hcl. destruct Hcl as [H1|H1]; apply negb_true_iff in H1; tauto. }
          destruct (N.to_nat (z + 1 - a)) as [|k] eqn:En; [exfalso; lia|].
          destruct (loop_count_sound (exec_block o fuel true b) (Pin vin b [force cur] e) (P1 vin b [force cur] e)
                      (fun en => R vin (getv en x) (br ++ e))) with (3 := HE) as [[r G]|[G1 G2]].
          { intros en HP. right. exact HP. }
          { intros en p oc1 en1 p1 tr1 Hbd HPi.
            destruct (body_step b vin [force cur] e br _ IHb EB Hokb Ht Hcls (wf_single _ (force_wf _ Hw)) _ _ _ _ _ _ Hbd HPi) as [S1 S2].
            split; [exact S1|]. intro Hoc. destruct (S2 Hoc) as [Hl|[_ Hr]]; [apply R_app_l | apply R_app_r]; assumption. }
          { left. apply R_force. exact HR. }
          -- subst oc. split; [discriminate | split; [discriminate | exact Htr]].
          -- subst oc. split; [|split; [discriminate | exact Htr]]. intros _.
             destruct G2 as [G2|[[G2 _]|[G2 _]]]; [exact G2 | discriminate G2 | apply R_app_r; exact G2].
        * apply N.leb_gt in Eaz. assert (N.to_nat (z + 1 - a) = O) as En by lia. rewrite En in HE. cbn in HE. inversion HE; subst.
          split; [intros _; exact HR | split; [discriminate | exact Htr]].
    - (* SBreakIf *)
      intros c b IHb inl vin env pos oc env' pos' tr cur cur' brks prs HE HB Hok Ht HR Hw.
      rewrite exec_breakif in HE. rewrite bstmt_breakif in HB. cbn [ok_loops_s] in Hok.
      assert (vin <> None -> ctests x c = false /\ tests_b x b = false) as Ht2.
      { intro Hv. specialize (Ht Hv). cbn [tests_s] in Ht. apply orb_false_iff in Ht. exact Ht. }
      destruct (eval o c env pos) as [v p] eqn:Ev. destruct (bindc x c cur) as [tl fl] eqn:Ec.
      destruct (bblock x (B d) inl b (fin tl cur)) as [[e br] pr] eqn:EB. inversion HB; subst.
      pose proof (bindc_sound o x env vin c cur _ _ v pos p Ec Ev (fun Hv => proj1 (Ht2 Hv)) HR) as HS.
      destruct (bindc_wf _ _ _ _ _ Ec Hw) as [Htl Hfl]. destruct v.
      + rewrite (R_fin _ _ _ cur HS) in EB. dres (exec_block o fuel inl b env p) as oc1 e1 p1 tr1 E1.
        destruct (IHb _ _ _ _ _ _ _ _ _ _ _ _ E1 EB Hok (fun Hv => proj2 (Ht2 Hv)) HS Htl) as [Hn [Hb Htr]].
        destruct oc1; inversion HE; subst.
        * split; [discriminate | split; [intros _; apply R_app_r; apply R_force; apply Hn; reflexivity | exact Htr]].
        * split; [discriminate | split; [intros _; apply R_app_l; apply Hb; reflexivity | exact Htr]].
        * split; [discriminate | split; [discriminate | exact Htr]].
      + inversion HE; subst. split; [intros _; exact HS | split; [discriminate | apply tr_ok_nil]].
    - (* SAssert *)
      intros c inl vin env pos oc env' pos' tr cur cur' brks prs HE HB Hok Ht HR Hw.
      rewrite exec_assert in HE. rewrite bstmt_assert in HB. cbn [tests_s] in Ht.
      destruct (eval o c env pos) as [v p] eqn:Ev. destruct (bindc x c cur) as [tl fl] eqn:Ec. inversion HB; subst.
      pose proof (bindc_sound o x env vin c cur _ _ v pos p Ec Ev Ht HR) as HS. destruct v.
      + inversion HE; subst. split; [intros _; rewrite (R_fin _ _ _ cur HS); exact HS | split; [discriminate | apply tr_ok_nil]].
      + inversion HE; subst. split; [discriminate | split; [discriminate | apply tr_ok_nil]].
    - (* SReturnIf *)
      intros e c b IHb inl vin env pos oc env' pos' tr cur cur' brks prs HE HB Hok Ht HR Hw.
      rewrite exec_returnif in HE. rewrite bstmt_returnif in HB. cbn [ok_loops_s] in Hok.
      assert (vin <> None -> ctests x c = false /\ tests_b x b = false) as Ht2.
      { intro Hv. specialize (Ht Hv). cbn [tests_s] in Ht. apply orb_false_iff in Ht. exact Ht. }
      destruct (eval o c env pos) as [v p] eqn:Ev. destruct (bindc x c cur) as [tl fl] eqn:Ec.
      destruct (bblock x (B d) inl b (fin tl cur)) as [[e0 br] pr] eqn:EB. inversion HB; subst.
      pose proof (bindc_sound o x env vin c cur _ _ v pos p Ec Ev (fun Hv => proj1 (Ht2 Hv)) HR) as HS.
      destruct (bindc_wf _ _ _ _ _ Ec Hw) as [Htl Hfl]. destruct v.
      + rewrite (R_fin _ _ _ cur HS) in EB. dres (exec_block o fuel inl b env p) as oc1 e1 p1 tr1 E1.
        destruct (IHb _ _ _ _ _ _ _ _ _ _ _ _ E1 EB Hok (fun Hv => proj2 (Ht2 Hv)) HS Htl) as [Hn [Hb Htr]].
        destruct oc1; inversion HE; subst.
        * split; [discriminate | split; [discriminate | exact Htr]].
        * split; [discriminate | split; [intros _; apply Hb; reflexivity | exact Htr]].
        * split; [discriminate | split; [discriminate | exact Htr]].
      + inversion HE; subst. split; [intros _; exact HS | split; [discriminate | apply tr_ok_nil]].
    - (* RNone *)
      intros inl vin env pos oc env' pos' tr el cur cur' brks prs HE HB Hok Ht HR Hel Hw. cbn in HE, HB. inversion HE; inversion HB; subst.
      split; [intros _; exact HR | split; [discriminate | apply tr_ok_nil]].
    - (* RElse *)
      intros b IHb inl vin env pos oc env' pos' tr el cur cur' brks prs HE HB Hok Ht HR Hel Hw.
      rewrite exec_relse in HE. rewrite brest_relse in HB. eapply IHb; eassumption.
    - (* RElif *)
      intros c t IHt r IHr inl vin env pos oc env' pos' tr el cur cur' brks prs HE HB Hok Ht HR Hel Hw.
      rewrite exec_relif in HE. rewrite brest_relif in HB. cbn [ok_loops_r] in Hok. apply andb_true_iff in Hok. destruct Hok as [Hokt Hokr].
      assert (vin <> None -> ctests x c = false /\ tests_b x t = false /\ tests_r x r = false) as Ht3.
      { intro Hv. specialize (Ht Hv). cbn [tests_r] in Ht. apply orb_false_iff in Ht. destruct Ht as [Ht1 Ht2]. apply orb_false_iff in Ht1. tauto. }
      rewrite (R_fin _ _ _ cur HR) in HB.
      destruct (eval o c env pos) as [v p] eqn:Ev. destruct (bindc x c el) as [tl fl] eqn:Ec.
      destruct (bblock x (B d) inl t (fin tl cur)) as [[e br] pr] eqn:Et.
      destruct (brest x (B d) inl r fl cur) as [[e2 br2] pr2] eqn:Er. inversion HB; subst.
      pose proof (bindc_sound o x env vin c el _ _ v pos p Ec Ev (fun Hv => proj1 (Ht3 Hv)) HR) as HS.
      destruct (bindc_wf _ _ _ _ _ Ec Hel) as [Htl Hfl]. destruct v.
      + rewrite (R_fin _ _ _ cur HS) in Et.
        destruct (IHt _ _ _ _ _ _ _ _ _ _ _ _ HE Et Hokt (fun Hv => proj1 (proj2 (Ht3 Hv))) HS Htl) as [Hn [Hb Htr]].
        split; [intro Hoc; apply R_app_l; apply Hn; exact Hoc | split; [intro Hoc; apply R_app_l; apply Hb; exact Hoc | apply tr_ok_l; exact Htr]].
      + destruct (IHr _ _ _ _ _ _ _ _ _ _ _ _ _ HE Er Hokr (fun Hv => proj2 (proj2 (Ht3 Hv))) HS Hfl Hw) as [Hn [Hb Htr]].
        split; [intro Hoc; apply R_app_r; apply Hn; exact Hoc | split; [intro Hoc; apply R_app_r; apply Hb; exact Hoc | apply tr_ok_r; exact Htr]].
    - (* BNil *)
      intros inl vin env pos oc env' pos' tr cur cur' brks prs HE HB Hok Ht HR Hw. cbn in HE, HB. inversion HE; inversion HB; subst.
      split; [intros _; exact HR | split; [discriminate | apply tr_ok_nil]].
    - (* BCons *)
      intros s IHs b IHb inl vin env pos oc env' pos' tr cur cur' brks prs HE HB Hok Ht HR Hw.
      rewrite exec_bcons in HE. rewrite bblock_bcons in HB. cbn [ok_loops_b] in Hok. apply andb_true_iff in Hok. destruct Hok as [Hoks Hokb].
      assert (vin <> None -> tests_s x s = false /\ tests_b x b = false) as Ht2.
      { intro Hv. specialize (Ht Hv). cbn [tests_b] in Ht. apply orb_false_iff in Ht. exact Ht. }
      dres (exec_stmt o fuel inl s env pos) as oc1 e1 p1 tr1 E1.
      destruct (bstmt x (B d) inl s cur) as [[c1 br1] pr1] eqn:ES.
      destruct (bblock x (B d) inl b c1) as [[c2 br2] pr2] eqn:EB. inversion HB; subst.
      destruct (IHs _ _ _ _ _ _ _ _ _ _ _ _ E1 ES Hoks (fun Hv => proj1 (Ht2 Hv)) HR Hw) as [Hn [Hb Htr]].
      destruct ((proj1 (bstmt_wf x (B d))) _ _ _ _ _ _ ES Hw) as [Hw1 _].
      destruct oc1.
      + dres (exec_block o fuel inl b e1 p1) as oc2 e2 p2 tr2 E2. cbn in HE. inversion HE; subst.
        destruct (IHb _ _ _ _ _ _ _ _ _ _ _ _ E2 EB Hokb (fun Hv => proj2 (Ht2 Hv)) (Hn eq_refl) Hw1) as [Hn2 [Hb2 Htr2]].
        split; [exact Hn2 | split; [intro Hoc; apply R_app_r; apply Hb2; exact Hoc | apply tr_ok_app; assumption]].
      + inversion HE; subst. split; [discriminate | split; [intros _; apply R_app_l; apply Hb; reflexivity | apply tr_ok_l; exact Htr]].
      + inversion HE; subst. split; [discriminate | split; [discriminate | apply tr_ok_l; exact Htr]].
  Qed.
End Main.
