(** C15/Props.v — property theorems only.  Each is closed by [exact] of a lemma of Proofs.v.

    Fragment F (see Model.v): programs [mkprog decls body] whose body is loop-free ([loop_free_b]): locals declared
    up-front with literal initialisers, literal reassignments, [if/elseif/else], conditions built from
    [type(x) == "T"], [x == nil], [x ~= nil] (and the flipped forms ["T" == type(x)], [nil == x], [nil ~= x]), [x], [not],
    [and], [or] and opaque conditions (undefined globals, nondeterministic booleans supplied by the oracle [o]),
    [assert(c)], and the early exits [if c then .. return end] / [if c then .. error(..) end]; a failed assert, an error and
    a return end the chunk ([OStop true]): the trace is what was executed up to there.
    [run o fuel p] is the semantics (A): its trace lists, for every probe executed, the probe id, the variable, the runtime
    value (type tag; booleans keep their truth value) and whether the probe is inside a loop.
    [infer_var p x] is the analyzer's inference (B) for variable [x]: probe id, inside a loop?, inferred type. *)
From Coq Require Import List NArith Bool Arith.
From EV Require Import C15.Model C15.Shape C15.Proofs.
Import ListNotations.

(** Whenever execution reaches a probe of [x] with value [v], the type inferred there admits [v]; in particular it contains
    the Lua type of [v]: narrowing never excludes a possible runtime type. *)
Theorem narrowing_sound : forall p o fuel oc env' pos' tr,
  loop_free_b (body p) = true ->
  run o fuel p = (oc, env', pos', tr) ->
  forall id x v fl, In (id, x, v, fl) tr ->
    exists t, In (id, false, t) (infer_var p x) /\ has v t = true /\ has_tag (tag_of v) t = true.
Proof. exact Proofs.narrowing_sound_lf. Qed.

(** Code the analyzer considers unreachable (the inferred type at the probe admits no value: [never]) is never executed. *)
Theorem unreachable_never_runs : forall p o fuel oc env' pos' tr id x,
  loop_free_b (body p) = true ->
  run o fuel p = (oc, env', pos', tr) ->
  (forall t, In (id, false, t) (infer_var p x) -> forall v, has v t = false) ->
  forall v fl, ~ In (id, x, v, fl) tr.
Proof. exact Proofs.unreachable_never_runs_lf. Qed.

(** Enumerating the 2^k valuations of the k opaque conditions covers every execution (this is what the search's exact
    reachable set relies on). *)
Theorem reach_complete : forall p o fuel,
  loop_free_b (body p) = true ->
  exists l, In l (all_lists (opq_b (body p))) /\ run (oracle_of l) fuel p = run o fuel p.
Proof. exact Proofs.reach_complete_lf. Qed.

(** non-vacuity: [local x0 = 1; if c0 then x0 = 's0' elseif c1 then x0 = nil end;
    if type(x0) == "string" then probe(x0) elseif x0 then probe(x0) else probe(x0) end; probe(x0)]:
    the four probes are inferred string / integer / nil / (string|integer|nil), each is reached under some oracle, and every
    reached value is admitted. *)
Example narrowing_example :
  let p := Proofs.example_prog in
  loop_free_b (body p) = true /\
  map (fun '(id, _, t) => (id, map (fun v => has v t) [ANil; ANum; AStr])) (infer_var p 0) =
    [(0%N, [false; false; true]); (1%N, [false; true; false]); (2%N, [true; false; false]); (3%N, [true; true; true])] /\
  map (fun l => map (fun '(id, _, v, _) => (id, v)) (snd (run (oracle_of l) 0 p))) (all_lists 2) =
    [[(1%N, ANum); (3%N, ANum)]; [(0%N, AStr); (3%N, AStr)]; [(2%N, ANil); (3%N, ANil)]; [(0%N, AStr); (3%N, AStr)]].
Proof. exact Proofs.narrowing_example. Qed.
