(** C15/Print.v — the Lua text of a program of F (the harness prints the same text, gives it to the analyzer,
    and the correspondence check compares the two texts).  Definitions only. *)
From Coq Require Import List NArith Bool Arith String Ascii DecimalString.
From EV Require Import C15.Model.
Import ListNotations.
Local Open Scope string_scope.
Definition dec (n : N) : string := NilEmpty.string_of_uint (N.to_uint n).
Definition decn (n : nat) : string := dec (N.of_nat n).

Definition p_lit (l : lit) : string :=
  match l with
  | LNil => "nil" | LBool true => "true" | LBool false => "false" | LInt n => dec n | LFloat n => dec n ++ ".5"
  | LStr n => "'s" ++ dec n ++ "'" | LTable _ => "{}" | LFun _ => "function() end"
  end.
Definition p_tag (t : tag) : string :=
  match t with TgNil => "nil" | TgBool => "boolean" | TgNum => "number" | TgStr => "string" | TgTab => "table" | TgFun => "function" end.
Definition dq : string := String (Ascii.ascii_of_nat 34) EmptyString.
Definition nl : string := String (Ascii.ascii_of_nat 10) EmptyString.

Fixpoint p_cond (c : cond) : string :=
  match c with
  | CType x t => "type(x" ++ decn x ++ ") == " ++ dq ++ p_tag t ++ dq
  | CEqNil x => "x" ++ decn x ++ " == nil"
  | CNeNil x => "x" ++ decn x ++ " ~= nil"
  | CVar x => "x" ++ decn x
  | COpq k => "c" ++ dec k
  | CNot a => "not (" ++ p_cond a ++ ")"
  | CAnd a b => "(" ++ p_cond a ++ ") and (" ++ p_cond b ++ ")"
  | COr a b => "(" ++ p_cond a ++ ") or (" ++ p_cond b ++ ")"
  | CTypeF x t => dq ++ p_tag t ++ dq ++ " == type(x" ++ decn x ++ ")"
  | CEqNilF x => "nil == x" ++ decn x
  | CNeNilF x => "nil ~= x" ++ decn x
  end.

Fixpoint p_stmt (s : stmt) : string :=
  match s with
  | SAssign x l => "x" ++ decn x ++ " = " ++ p_lit l ++ nl
  | SProbe _ x => "probe(x" ++ decn x ++ ")" ++ nl
  | SIf c t r => "if " ++ p_cond c ++ " then" ++ nl ++ p_block t ++ p_rest r ++ "end" ++ nl
  | SWhile c b => "while " ++ p_cond c ++ " do" ++ nl ++ p_block b ++ "end" ++ nl
  | SWhileTrue b => "while true do" ++ nl ++ p_block b ++ "end" ++ nl
  | SRepeat b c => "repeat" ++ nl ++ p_block b ++ "until " ++ p_cond c ++ nl
  | SFor a z b => "for i = " ++ dec a ++ ", " ++ dec z ++ " do" ++ nl ++ p_block b ++ "end" ++ nl
  | SBreakIf c b => "if " ++ p_cond c ++ " then" ++ nl ++ p_block b ++ "break" ++ nl ++ "end" ++ nl
  | SAssert c => "assert(" ++ p_cond c ++ ")" ++ nl
  | SReturnIf e c b => "if " ++ p_cond c ++ " then" ++ nl ++ p_block b ++ (if e then "error('e')" else "return") ++ nl ++ "end" ++ nl
  end
with p_rest (r : rest) : string :=
  match r with
  | RNone => ""
  | RElse b => "else" ++ nl ++ p_block b
  | RElif c t r' => "elseif " ++ p_cond c ++ " then" ++ nl ++ p_block t ++ p_rest r'
  end
with p_block (b : block) : string :=
  match b with
  | BNil => ""
  | BCons s b' => p_stmt s ++ p_block b'
  end.

Fixpoint p_decls (ls : list lit) (i : nat) : string :=
  match ls with
  | [] => ""
  | l :: r => "local x" ++ decn i ++ " = " ++ p_lit l ++ nl ++ p_decls r (S i)
  end.

Definition print_prog (p : prog) : string := append (p_decls (decls p) O) (p_block (body p)).
