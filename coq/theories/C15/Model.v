(** C15/Model.v — flow narrowing on the fragment F (and F + loops, used by C41).

    (T)  the part of [LuaType] reachable in F and the type operations used by narrowing, transcribed from
         crates/emmylua_code_analysis/src/db_index/type/{types/predicates.rs (from_vec), types/complex.rs
         (LuaUnionType::from_vec / into_vec), basic_union.rs, type_ops/{union_type,remove_type,intersect_type}.rs}
         and semantic/infer/narrow/{narrow_type/mod.rs (narrow_down_type), narrow_type/false_or_nil_type.rs,
         condition_flow/mod.rs (narrow_type_guard, remove_type_guard, PendingConditionNarrow::apply),
         condition_flow/binary_flow.rs (narrow_eq_condition), get_type_at_flow.rs (assignment result)}.
    (A)  fuelled big-step semantics of F with probes.
    (B)  the analyzer's inference: [get_type_at_flow] walks the flow graph built by
         compilation/analyzer/flow/bind_analyze/{stats.rs,exprs/*.rs} backwards in one of three modes
         (Normal / MergeBranch / IgnoreConditions).  On structured programs the graph is determined by the
         syntax, and the answer of a query at a node is a function of the answers at its antecedents, so the
         walk is written here as a forward interpreter that carries, per flow node, the triple of answers
         (N, M, I) of the three modes for ONE variable (the analysis is per variable: conditions that do not
         mention the queried variable never narrow it).  A flow value is the list of the non-label flow
         nodes a (possibly nested) branch label resolves to — [get_branch_label_flow_ids] flattens nested
         labels in place.  Equivalence of this reformulation with the Rust walk is established by the
         correspondence check, not by proof.
    Definitions only. *)
From Coq Require Import List NArith Bool Arith.
Import ListNotations.
Local Open Scope N_scope.

(* ------------------------------------------------------------------------------------------------ values *)
(** runtime values up to what F can observe: the Lua type tag, and for booleans the truth value *)
Inductive atom := ANil | AFalse | ATrue | ANum | AStr | ATab | AFun.
Inductive tag := TgNil | TgBool | TgNum | TgStr | TgTab | TgFun.

Definition tag_of (a : atom) : tag :=
  match a with ANil => TgNil | AFalse | ATrue => TgBool | ANum => TgNum | AStr => TgStr | ATab => TgTab | AFun => TgFun end.

Definition atom_eqb (a b : atom) : bool :=
  match a, b with
  | ANil, ANil | AFalse, AFalse | ATrue, ATrue | ANum, ANum | AStr, AStr | ATab, ATab | AFun, AFun => true
  | _, _ => false
  end.
Definition tag_eqb (a b : tag) : bool :=
  match a, b with
  | TgNil, TgNil | TgBool, TgBool | TgNum, TgNum | TgStr, TgStr | TgTab, TgTab | TgFun, TgFun => true
  | _, _ => false
  end.
Definition truthy (a : atom) : bool := match a with ANil | AFalse => false | _ => true end.

(* ------------------------------------------------------------------------------------------------- types *)
(** non-union [LuaType]s of F.  Payloads: integer / float / string literal identity, and for table and
    function literals the identity of the literal occurrence (Rust: text range / position). *)
Inductive bty :=
| Unknown | Never | Nil | Boolean | BoolC (b : bool) | Integer | IntC (n : N) | FloatC (n : N) | Number
| String_ | StrC (n : N) | Table | TableC (n : N) | Function | Sig (n : N).

(** a type: a non-union, or [LuaType::Union] given by [into_vec] *)
Inductive ty := B (b : bty) | U (l : list bty).

Definition bty_eqb (a b : bty) : bool :=
  match a, b with
  | Unknown, Unknown | Never, Never | Nil, Nil | Boolean, Boolean | Integer, Integer | Number, Number
  | String_, String_ | Table, Table | Function, Function => true
  | BoolC x, BoolC y => Bool.eqb x y
  | IntC x, IntC y | FloatC x, FloatC y | StrC x, StrC y | TableC x, TableC y | Sig x, Sig y => x =? y
  | _, _ => false
  end.

Fixpoint list_eqb (l1 l2 : list bty) : bool :=
  match l1, l2 with
  | [], [] => true
  | a :: r1, b :: r2 => bty_eqb a b && list_eqb r1 r2
  | _, _ => false
  end.

Definition ty_eqb (a b : ty) : bool :=
  match a, b with
  | B x, B y => bty_eqb x y
  | U x, U y => list_eqb x y
  | _, _ => false
  end.

Definition mem (b : bty) (l : list bty) : bool := existsb (bty_eqb b) l.

Definition members (t : ty) : list bty := match t with B b => [b] | U l => l end.

(** [BasicTypeKind] order of the bit set of [LuaUnionType::Basic] *)
Definition basic_order : list bty := [Unknown; Nil; Table; Function; Boolean; String_; Integer; Number; Never].
Definition is_basic (b : bty) : bool := mem b basic_order.

(** [LuaUnionType::from_vec] followed by [into_vec]: all-basic members are kept as a bit set (iterated in
    kind order), a two-member union with nil is [Nullable] ([t; nil]), otherwise the vector is kept *)
Definition mk_union (ms : list bty) : ty :=
  if forallb is_basic ms then U (filter (fun k => mem k ms) basic_order)
  else match ms with
       | [a; b] => if bty_eqb a Nil then U [b; Nil] else if bty_eqb b Nil then U [a; Nil] else U ms
       | _ => U ms
       end.

Fixpoint dedupe (l acc : list bty) : list bty :=
  match l with
  | [] => acc
  | a :: r => if mem a acc then dedupe r acc else dedupe r (acc ++ [a])
  end.

(** [LuaType::from_vec] on non-union members (the empty vector is [nil]!) *)
Definition from_vec (l : list bty) : ty :=
  match l with
  | [] => B Nil
  | [a] => B a
  | _ => match dedupe l [] with
         | [] => B Nil
         | [a] => B a
         | res => mk_union res
         end
  end.

Definition is_number (t : bty) := match t with Number | Integer | IntC _ | FloatC _ => true | _ => false end.
Definition is_integer (t : bty) := match t with Integer | IntC _ => true | _ => false end.
Definition is_string (t : bty) := match t with String_ | StrC _ => true | _ => false end.
Definition is_boolean (t : bty) := match t with Boolean | BoolC _ => true | _ => false end.
Definition is_function (t : bty) := match t with Function | Sig _ => true | _ => false end.

Fixpoint filter_map {A C} (f : A -> option C) (l : list A) : list C :=
  match l with
  | [] => []
  | a :: r => match f a with Some c => c :: filter_map f r | None => filter_map f r end
  end.

(** [narrow_down_type(db, source, target, None)] for a non-union source and the targets of F
    (type-guard types and literal types) *)
Definition nd_base (s t : bty) : option bty :=
  if bty_eqb s t then Some s else
  match t with
  | Number => if is_number s then Some s else None
  | Integer => if is_integer s then Some s else None
  | String_ => if is_string s then Some s else None
  | Boolean => if is_boolean s then Some s else None
  | Table => match s with TableC _ => Some s | Table | Unknown => Some Table | _ => None end
  | Function => if is_function s then Some s else None
  | Sig _ => if is_function s then Some t else None
  | Nil => match s with Nil => Some s | _ => None end
  | Unknown => Some s
  | FloatC _ => if is_number s then Some Number else match s with Unknown => Some t | _ => None end
  | IntC _ => match s with Number | Integer | Unknown | IntC _ => Some Integer | _ => None end
  | StrC _ => match s with String_ | Unknown | StrC _ => Some String_ | _ => None end
  | TableC _ => match s with TableC _ => Some s | Table | Unknown => Some t | _ => None end
  | BoolC _ => if is_boolean s then Some Boolean else match s with Unknown => Some (BoolC true) | _ => None end
  | Never => None
  end.

Definition narrow_down (source : ty) (target : bty) : option ty :=
  match source with
  | B s => option_map B (nd_base s target)
  | U l => match filter_map (fun m => nd_base m target) l with
           | [] => None
           | res => Some (from_vec res)
           end
  end.

Definition is_intc (t : bty) := match t with IntC _ => true | _ => false end.
Definition is_strc (t : bty) := match t with StrC _ => true | _ => false end.
Definition is_tablec (t : bty) := match t with TableC _ => true | _ => false end.
Definition is_sig (t : bty) := match t with Sig _ => true | _ => false end.
Definition is_boolc (t : bty) := match t with BoolC _ => true | _ => false end.
Definition isb (k t : bty) : bool := bty_eqb k t.

(** [union_type_impl] on two non-unions (the arms in source order) *)
Definition union_bb (s t : bty) : ty :=
  if isb Never s then B t else
  if isb Never t then B s else
  if isb Integer s && is_intc t then B Integer else
  if is_intc s && isb Integer t then B Integer else
  if isb Number s && is_number t then B Number else
  if is_number s && isb Number t then B Number else
  if isb String_ s && is_strc t then B String_ else
  if is_strc s && isb String_ t then B String_ else
  if isb Boolean s && is_boolean t then B Boolean else
  if is_boolean s && isb Boolean t then B Boolean else
  if is_boolc s && is_boolc t then (if bty_eqb s t then B s else B Boolean) else
  if isb Table s && is_tablec t then B Table else
  if is_tablec s && isb Table t then B Table else
  if isb Function s && is_sig t then B Function else
  if is_sig s && isb Function t then B Function else
  if bty_eqb s t then B s else from_vec [s; t].

Definition union2 (s t : ty) : ty :=
  match s, t with
  | B a, B b => union_bb a b
  | U l, B b => match b with
                | Never => s
                | _ => if mem b l then s else mk_union (l ++ [b])
                end
  | B a, U l => match a with
                | Never => t
                | _ => if mem a l then t else mk_union (l ++ [a])
                end
  | U l1, U l2 => if list_eqb l1 l2 then s else from_vec (l1 ++ l2)
  end.

(** [canonicalize_callable_union]: every [function() end] literal has the same callable shape, so only the
    first signature of a union survives *)
Fixpoint drop_later_sigs (l : list bty) (seen : bool) : list bty :=
  match l with
  | [] => []
  | Sig n :: r => if seen then drop_later_sigs r seen else Sig n :: drop_later_sigs r true
  | a :: r => a :: drop_later_sigs r seen
  end.

Definition canon_callable (t : ty) : ty :=
  match t with
  | B _ => t
  | U l => from_vec (drop_later_sigs l false)
  end.

Definition union (s t : ty) : ty := canon_callable (union2 s t).

(** [remove_type]: [None] = nothing left of this member *)
Definition rm_base (s r : bty) : option bty :=
  if bty_eqb s r then match s with IntC _ => Some Integer | FloatC _ => Some Number | _ => None end else
  match r with
  | Nil => match s with Nil => None | _ => Some s end
  | Boolean => if is_boolean s then None else Some s
  | Integer => if is_integer s then None else Some s
  | Number => if is_number s then None else Some s
  | String_ => if is_string s then None else Some s
  | Function => if is_function s then None else Some s
  | Table => match s with TableC _ | Table => None | _ => Some s end
  | _ => Some s
  end.

(** [TypeOps::Remove.apply] *)
Definition op_remove (source : ty) (r : bty) : ty :=
  match source with
  | B s => match rm_base s r with
           | Some x => B x
           | None => match s with Nil => B Never | _ => source end
           end
  | U l => from_vec (filter_map (fun m => rm_base m r) l)
  end.

(** [intersect_type] with a non-union target (the arms in source order) *)
Definition int_base (s t : bty) : bty :=
  if isb Never s || isb Never t then Never else
  if isb Unknown s then t else
  if isb Unknown t then s else
  if isb Integer s && is_intc t then t else
  if is_intc s && isb Integer t then s else
  if isb Number s && is_number t then Number else
  if is_number s && isb Number t then Number else
  if isb String_ s && is_strc t then t else
  if is_strc s && isb String_ t then s else
  if isb Boolean s && is_boolc t then t else
  if is_boolc s && isb Boolean t then s else
  if is_boolc s && is_boolc t then (if bty_eqb s t then s else Never) else
  if isb Table s && is_tablec t then t else
  if is_tablec s && isb Table t then s else
  if isb Function s && is_sig t then t else
  if is_sig s && isb Function t then s else
  if bty_eqb s t then s else Never.

Definition non_never (b : bty) : bool := negb (bty_eqb b Never).

Definition op_intersect (source : ty) (t : bty) : ty :=
  match source with
  | B s => B (int_base s t)
  | U l => match filter non_never (map (fun m => int_base m t) l) with
           | [] => B Never
           | res => from_vec res
           end
  end.

(** [narrow_false_or_nil] *)
Definition nfn_base (t : bty) : bty :=
  match t with
  | Boolean => BoolC false
  | Nil => Nil
  | BoolC false => BoolC false
  | _ => Never
  end.
Definition narrow_false_or_nil (t : ty) : ty :=
  match t with
  | B b => B (nfn_base b)
  | U l => from_vec (filter non_never (map nfn_base l))
  end.

(** [remove_false_or_nil] *)
Definition rfn_member (t : bty) : option bty :=
  match t with
  | Nil => None
  | BoolC false => None
  | Boolean => Some (BoolC true)
  | _ => Some t
  end.
Definition remove_false_or_nil (t : ty) : ty :=
  match t with
  | B b => match rfn_member b with None => B Unknown | Some x => B x end
  | U l => from_vec (filter_map rfn_member l)
  end.

(** [narrow_type_guard] / [remove_type_guard] *)
Definition narrow_type_guard (a : ty) (n : bty) : option ty := narrow_down a n.

Definition rtg_base (m n : bty) : bty :=
  match nd_base m n with
  | Some g => if bty_eqb g m then Never else
              match rm_base m n with Some x => x | None => match m with Nil => Never | _ => m end end
  | None => match rm_base m n with Some x => x | None => match m with Nil => Never | _ => m end end
  end.
Definition remove_type_guard (a : ty) (n : bty) : ty :=
  match a with
  | B m => B (rtg_base m n)
  | U l => from_vec (filter non_never (map (fun m => rtg_base m n) l))
  end.

(** [narrow_eq_condition] against [nil] *)
Definition is_never (t : ty) : bool := match t with B Never => true | _ => false end.
Definition narrow_eq_nil (a : ty) (flow : bool) : ty :=
  if flow then let i := op_intersect a Nil in if is_never i then a else i
  else op_remove a Nil.

(** pending condition narrows of F ([PendingConditionNarrow::{Truthiness, TypeGuard, Eq}]) *)
Inductive narrow := NTruthy (flow : bool) | NGuard (g : bty) (flow : bool) | NEqNil (flow : bool).

Definition apply_narrow (nw : narrow) (t : ty) : ty :=
  match nw with
  | NTruthy true => remove_false_or_nil t
  | NTruthy false => narrow_false_or_nil t
  | NGuard g true => match narrow_type_guard t g with Some r => r | None => B g end
  | NGuard g false => remove_type_guard t g
  | NEqNil f => narrow_eq_nil t f
  end.

(* -------------------------------------------------------------------- answers of the three walk modes *)
(** [sN] = Normal, [sM] = MergeBranch ([None] = [FlowQueryResult::Unreachable]), [sI] = IgnoreConditions *)
Record st := mkst { sN : ty; sM : option ty; sI : ty }.

Definition m_type (m : option ty) : ty := match m with Some t => t | None => B Never end.

(** a condition node: [finish_walk] applies the pending narrow; a merge contribution that loses every
    possibility becomes unreachable; IgnoreConditions skips the node *)
Definition st_narrow (nw : narrow) (s : st) : st :=
  {| sN := apply_narrow nw (sN s);
     sM := match sM s with
           | None => None
           | Some m => let m' := apply_narrow nw m in
                       if negb (is_never m) && is_never m' then None else Some m'
           end;
     sI := sI s |}.

(** a branch label with several (flattened) antecedents: every antecedent is queried as a merge contribution
    and the answers are unioned in antecedent order, starting from [never] *)
Definition st_merge (l : list st) : st :=
  let t := fold_left (fun acc s => union acc (m_type (sM s))) l (B Never) in
  let ti := fold_left (fun acc s => union acc (sI s)) l (B Never) in
  {| sN := t; sM := Some t; sI := ti |}.

(** a flow value: the non-label nodes a label resolves to (in order) *)
Definition flow := list st.

Definition dummy_st : st := {| sN := B Never; sM := None; sI := B Never |}.

(** what a non-label node sees as its antecedent *)
Definition force (f : flow) : st :=
  match f with
  | [] => dummy_st
  | [s] => s
  | _ => st_merge f
  end.

(** [finish_flow_label] *)
Definition fin (label default : flow) : flow := match label with [] => default | _ => label end.

(* ----- assignment [x = literal] ([step_assignment] .. [finish_assignment_result]) *)
Definition is_exact (t : bty) : bool :=
  match t with Nil | BoolC _ | StrC _ | IntC _ | FloatC _ => true | _ => false end.
Definition preserves (t : bty) : bool := match t with TableC _ => true | _ => is_exact t end.

Definition can_reuse (a : ty) (e : bty) : bool :=
  match e with
  | TableC _ => true
  | _ => if is_exact e then match narrow_down a e with None => true | Some n => ty_eqb n (B e) end else false
  end.

Definition is_nil_ty (t : ty) : bool := match t with B Nil => true | _ => false end.
Definition is_unknown_ty (t : ty) : bool := match t with B Unknown => true | _ => false end.

Definition finish_assignment_result (source : ty) (e : bty) (reuse : bool) (decl : ty) : ty :=
  let general :=
    let narrowed := if is_nil_ty source then None else narrow_down source e in
    if reuse || preserves e then match narrowed with Some n => n | None => B e end else B e in
  match e with
  | TableC _ =>
      if is_nil_ty source then
        let truthy_slot := remove_false_or_nil decl in
        if is_unknown_ty truthy_slot then general
        else match narrow_down truthy_slot e with Some n => n | None => general end
      else general
  | _ => general
  end.

(** antecedent [a] queried in the current mode, [ai] queried again with IgnoreConditions when the narrowed
    antecedent cannot be reused *)
Definition asg_from (a ai : ty) (e : bty) (decl : ty) : ty :=
  if can_reuse a e then finish_assignment_result a e true decl
  else finish_assignment_result ai e false decl.

Definition st_assign (e : bty) (decl : ty) (s : st) : st :=
  if preserves e then
    let n := asg_from (sN s) (sI s) e decl in
    {| sN := n;
       sM := match sM s with None => None | Some m => Some (asg_from m (sI s) e decl) end;
       sI := n |}
  else
    {| sN := B e; sM := match sM s with None => None | Some _ => Some (B e) end; sI := B e |}.

(* ------------------------------------------------------------------------------------------------ syntax *)
Inductive lit := LNil | LBool (b : bool) | LInt (n : N) | LFloat (n : N) | LStr (n : N) | LTable (id : N) | LFun (id : N).

Inductive cond :=
| CType (x : nat) (t : tag)      (* type(x) == "T" *)
| CEqNil (x : nat)               (* x == nil *)
| CNeNil (x : nat)               (* x ~= nil *)
| CVar (x : nat)                 (* x *)
| COpq (k : N)                   (* an undefined global: a nondeterministic boolean *)
| CNot (c : cond)
| CAnd (a b : cond)
| COr (a b : cond)
| CTypeF (x : nat) (t : tag)     (* "T" == type(x) *)
| CEqNilF (x : nat)              (* nil == x *)
| CNeNilF (x : nat).             (* nil ~= x *)

Inductive stmt :=
| SAssign (x : nat) (l : lit)
| SProbe (id : N) (x : nat)
| SIf (c : cond) (t : block) (r : rest)
| SWhile (c : cond) (b : block)            (* while <non-literal condition> do b end *)
| SWhileTrue (b : block)                   (* while true do b end *)
| SRepeat (b : block) (c : cond)
| SFor (a z : N) (b : block)               (* for i = a, z do b end ; i is not used *)
| SBreakIf (c : cond) (b : block)          (* if c then b; break end *)
| SAssert (c : cond)                       (* assert(c) *)
| SReturnIf (err : bool) (c : cond) (b : block)   (* if c then b; return end   /   if c then b; error('e') end *)
with rest := RNone | RElse (b : block) | RElif (c : cond) (t : block) (r : rest)
with block := BNil | BCons (s : stmt) (b : block).

Record prog := mkprog { decls : list lit; body : block }.

Definition lit_atom (l : lit) : atom :=
  match l with
  | LNil => ANil | LBool false => AFalse | LBool true => ATrue | LInt _ | LFloat _ => ANum | LStr _ => AStr
  | LTable _ => ATab | LFun _ => AFun
  end.

Definition lit_ty (l : lit) : bty :=
  match l with
  | LNil => Nil | LBool b => BoolC b | LInt n => IntC n | LFloat n => FloatC n | LStr n => StrC n
  | LTable n => TableC n | LFun n => Sig n
  end.

(* --------------------------------------------------------------------------------- (A) semantics *)
(** [OStop true]: the chunk ended (failed [assert], [error(..)], [return]); [OStop false]: a loop exhausted the fuel *)
Inductive outcome := ONormal | OBreak | OStop (ended : bool).

(** a probe event: probe id, variable, value, and whether the probe is inside a loop body *)
Definition event := (N * nat * atom * bool)%type.

(** environments are total: a variable that was never declared holds [nil] *)
Definition env_t := nat -> atom.
Definition getv (env : env_t) (x : nat) : atom := env x.
Definition setv (env : env_t) (x : nat) (v : atom) : env_t := fun y => if Nat.eqb y x then v else env y.

(** conditions; an opaque condition reads the next bit of the oracle *)
Fixpoint eval (o : nat -> bool) (c : cond) (env : env_t) (pos : nat) : bool * nat :=
  match c with
  | CType x t => (tag_eqb (tag_of (getv env x)) t, pos)
  | CEqNil x => (atom_eqb (getv env x) ANil, pos)
  | CNeNil x => (negb (atom_eqb (getv env x) ANil), pos)
  | CVar x => (truthy (getv env x), pos)
  | COpq _ => (o pos, S pos)
  | CNot a => let '(b, p) := eval o a env pos in (negb b, p)
  | CAnd a b => let '(v, p) := eval o a env pos in if v then eval o b env p else (false, p)
  | COr a b => let '(v, p) := eval o a env pos in if v then (true, p) else eval o b env p
  | CTypeF x t => (tag_eqb (tag_of (getv env x)) t, pos)
  | CEqNilF x => (atom_eqb (getv env x) ANil, pos)
  | CNeNilF x => (negb (atom_eqb (getv env x) ANil), pos)
  end.

Definition res := (outcome * env_t * nat * list event)%type.

(** the four loop schemes, generic in the body; [n] bounds the iterations ([OFuel] when exhausted), except for the
    numeric for, whose [n] is its iteration count *)
Definition after_body (r : res) (continue_ : env_t -> nat -> list event -> res) : res :=
  let '(oc, env2, pos2, tr) := r in
  match oc with
  | ONormal => continue_ env2 pos2 tr
  | OBreak => (ONormal, env2, pos2, tr)
  | OStop r => (OStop r, env2, pos2, tr)
  end.

Definition with_trace (tr : list event) (r : res) : res :=
  let '(oc, env, pos, tr2) := r in (oc, env, pos, tr ++ tr2).

Section Loops.
  Variable cnd : env_t -> nat -> bool * nat.
  Variable bdy : env_t -> nat -> res.

  Fixpoint loop_while (n : nat) (env : env_t) (pos : nat) : res :=
    match n with
    | O => (OStop false, env, pos, [])
    | S n' =>
        let '(v, p) := cnd env pos in
        if v then after_body (bdy env p) (fun env2 pos2 tr => with_trace tr (loop_while n' env2 pos2))
        else (ONormal, env, p, [])
    end.

  Fixpoint loop_forever (n : nat) (env : env_t) (pos : nat) : res :=
    match n with
    | O => (OStop false, env, pos, [])
    | S n' => after_body (bdy env pos) (fun env2 pos2 tr => with_trace tr (loop_forever n' env2 pos2))
    end.

  Fixpoint loop_repeat (n : nat) (env : env_t) (pos : nat) : res :=
    match n with
    | O => (OStop false, env, pos, [])
    | S n' =>
        after_body (bdy env pos)
          (fun env2 pos2 tr =>
             let '(v, p) := cnd env2 pos2 in
             if v then (ONormal, env2, p, tr) else with_trace tr (loop_repeat n' env2 p))
    end.

  Fixpoint loop_count (n : nat) (env : env_t) (pos : nat) : res :=
    match n with
    | O => (ONormal, env, pos, [])
    | S n' => after_body (bdy env pos) (fun env2 pos2 tr => with_trace tr (loop_count n' env2 pos2))
    end.
End Loops.

Section Exec.
  Variable o : nat -> bool.
  Variable fuel : nat.     (* bound on the iterations of every single loop execution *)

  Fixpoint exec_stmt (inl : bool) (s : stmt) (env : env_t) (pos : nat) {struct s} : res :=
    match s with
    | SAssign x l => (ONormal, setv env x (lit_atom l), pos, [])
    | SProbe id x => (ONormal, env, pos, [(id, x, getv env x, inl)])
    | SIf c t r =>
        let '(v, p) := eval o c env pos in
        if v then exec_block inl t env p else exec_rest inl r env p
    | SBreakIf c b =>
        let '(v, p) := eval o c env pos in
        if v then
          let '(oc, env2, pos2, tr) := exec_block inl b env p in
          match oc with ONormal => (OBreak, env2, pos2, tr) | _ => (oc, env2, pos2, tr) end
        else (ONormal, env, p, [])
    | SAssert c =>
        let '(v, p) := eval o c env pos in
        if v then (ONormal, env, p, []) else (OStop true, env, p, [])
    | SReturnIf _ c b =>
        let '(v, p) := eval o c env pos in
        if v then
          let '(oc, env2, pos2, tr) := exec_block inl b env p in
          match oc with ONormal => (OStop true, env2, pos2, tr) | _ => (oc, env2, pos2, tr) end
        else (ONormal, env, p, [])
    | SWhile c b => loop_while (eval o c) (exec_block true b) fuel env pos
    | SWhileTrue b => loop_forever (exec_block true b) fuel env pos
    | SRepeat b c => loop_repeat (eval o c) (exec_block true b) fuel env pos
    | SFor a z b => loop_count (exec_block true b) (N.to_nat (z + 1 - a)) env pos
    end
  with exec_rest (inl : bool) (r : rest) (env : env_t) (pos : nat) {struct r} : res :=
    match r with
    | RNone => (ONormal, env, pos, [])
    | RElse b => exec_block inl b env pos
    | RElif c t r' =>
        let '(v, p) := eval o c env pos in
        if v then exec_block inl t env p else exec_rest inl r' env p
    end
  with exec_block (inl : bool) (b : block) (env : env_t) (pos : nat) {struct b} : res :=
    match b with
    | BNil => (ONormal, env, pos, [])
    | BCons s b' =>
        let '(oc, env2, pos2, tr) := exec_stmt inl s env pos in
        match oc with
        | ONormal => with_trace tr (exec_block inl b' env2 pos2)
        | _ => (oc, env2, pos2, tr)
        end
    end.
End Exec.

Definition init_env (p : prog) : env_t := fun x => lit_atom (nth x (decls p) LNil).

Definition run (o : nat -> bool) (fuel : nat) (p : prog) : res :=
  exec_block o fuel false (body p) (init_env p) O.

(* --------------------------------------------------------------------------------- (B) inference *)
Definition guard_ty (t : tag) : bty :=
  match t with TgNil => Nil | TgBool => Boolean | TgNum => Number | TgStr => String_ | TgTab => Table | TgFun => Function end.

(** [bind_condition_expr] for the queried variable [x]: the contributions to the true and to the false
    target.  Conditions on other variables and opaque conditions leave the state alone, but they are flow
    nodes (so their antecedent is forced). *)
Fixpoint bindc (x : nat) (c : cond) (cur : flow) : flow * flow :=
  let atomic (y : nat) (mk : bool -> narrow) :=
    let s := force cur in
    if Nat.eqb x y then ([st_narrow (mk true) s], [st_narrow (mk false) s]) else ([s], [s]) in
  match c with
  | CType y t => atomic y (fun f => NGuard (guard_ty t) f)
  | CEqNil y => atomic y (fun f => NEqNil f)
  | CNeNil y => atomic y (fun f => NEqNil (negb f))
  | CVar y => atomic y (fun f => NTruthy f)
  | COpq _ => let s := force cur in ([s], [s])
  | CNot a => let '(t, f) := bindc x a cur in (f, t)
  | CAnd a b =>
      let '(ta, fa) := bindc x a cur in
      let '(tb, fb) := bindc x b (fin ta cur) in
      (tb, fa ++ fb)
  | COr a b =>
      let '(ta, fa) := bindc x a cur in
      let '(tb, fb) := bindc x b (fin fa cur) in
      (ta ++ tb, fb)
  (* the operands of == / ~= are looked at in both orders (maybe_type_guard_binary_action, try_get_at_eq_or_neq_expr) *)
  | CTypeF y t => atomic y (fun f => NGuard (guard_ty t) f)
  | CEqNilF y => atomic y (fun f => NEqNil f)
  | CNeNilF y => atomic y (fun f => NEqNil (negb f))
  end.

(** inferred type at a probe of [x]: probe id, inside a loop?, the Normal-mode answer *)
Definition pinfo := (N * bool * ty)%type.
Definition bres := (flow * flow * list pinfo)%type.   (* flow after, break contributions, probes *)

Definition is_bnil (b : block) : bool := match b with BNil => true | _ => false end.

Section Infer.
  Variable x : nat.
  Variable decl : ty.

  Fixpoint bstmt (inl : bool) (s : stmt) (cur : flow) {struct s} : bres :=
    match s with
    | SAssign y l =>
        let s0 := force cur in
        if Nat.eqb x y then ([st_assign (lit_ty l) decl s0], [], []) else ([s0], [], [])
    | SProbe id y =>
        let s0 := force cur in
        if Nat.eqb x y then ([s0], [], [(id, inl, sN s0)]) else ([s0], [], [])
    | SIf c t r =>
        (* bind_if_stat *)
        let '(tl, fl) := bindc x c cur in
        let '(e, br, pr) := bblock inl t (fin tl cur) in
        let '(e2, br2, pr2) := brest inl r fl cur in
        (e ++ e2, br ++ br2, pr ++ pr2)
    | SBreakIf c b =>
        let '(tl, fl) := bindc x c cur in
        let '(e, br, pr) := bblock inl b (fin tl cur) in
        (* the Break node is an ordinary node whose antecedent is the end of the block *)
        (fl, br ++ [force e], pr)
    | SAssert c =>
        (* bind_assert_stat: the flow continues from the true edges; the false edges go to the unreachable node *)
        let '(tl, fl) := bindc x c cur in
        (fin tl cur, [], [])
    | SReturnIf _ c b =>
        (* bind_return_stat / error(..): the Return node ends the then-block; the statement continues from the false edges *)
        let '(tl, fl) := bindc x c cur in
        let '(e, br, pr) := bblock inl b (fin tl cur) in
        (fl, br, pr)
    | SWhile c b =>
        (* bind_while_stat, non-literal condition: the flow after the loop is the flow before it *)
        let '(tl, fl) := bindc x c cur in
        let '(e, br, pr) := bblock true b (fin tl cur) in
        (cur, [], pr)
    | SWhileTrue b =>
        (* bind_while_stat, literal-true condition: breaks and the end of the body *)
        if is_bnil b then (cur, [], []) else
        let '(e, br, pr) := bblock true b cur in
        (br ++ e, [], pr)
    | SRepeat b c =>
        (* bind_repeat_stat: breaks and the true edges of the condition *)
        let '(e, br, pr) := bblock true b cur in
        let '(tl, fl) := bindc x c e in
        (fin (br ++ tl) e, [], pr)
    | SFor a z b =>
        (* bind_for_stat: the body hangs off the ForIStat node; merged after the loop only when the literal
           bounds show that the loop is entered *)
        if is_bnil b then (cur, [], []) else
        let '(e, br, pr) := bblock true b [force cur] in
        if a <=? z then (br ++ e, [], pr) else (cur, [], pr)
    end
  with brest (inl : bool) (r : rest) (else_label cur : flow) {struct r} : bres :=
    match r with
    | RNone => (else_label, [], [])
    | RElse b => bblock inl b else_label
    | RElif c t r' =>
        let '(tl, fl) := bindc x c (fin else_label cur) in
        let '(e, br, pr) := bblock inl t (fin tl cur) in
        let '(e2, br2, pr2) := brest inl r' fl cur in
        (e ++ e2, br ++ br2, pr ++ pr2)
    end
  with bblock (inl : bool) (b : block) (cur : flow) {struct b} : bres :=
    match b with
    | BNil => (cur, [], [])
    | BCons s b' =>
        let '(c1, br1, pr1) := bstmt inl s cur in
        let '(c2, br2, pr2) := bblock inl b' c1 in
        (c2, br1 ++ br2, pr1 ++ pr2)
    end.
End Infer.

(** is [x] assigned anywhere (a reassigned local has a widened declared type) *)
Fixpoint assigns_s (x : nat) (s : stmt) : bool :=
  match s with
  | SAssign y _ => Nat.eqb x y
  | SProbe _ _ => false
  | SIf _ t r => assigns_b x t || assigns_r x r
  | SWhile _ b | SWhileTrue b | SRepeat b _ | SFor _ _ b | SBreakIf _ b | SReturnIf _ _ b => assigns_b x b
  | SAssert _ => false
  end
with assigns_r (x : nat) (r : rest) : bool :=
  match r with
  | RNone => false
  | RElse b => assigns_b x b
  | RElif _ t r' => assigns_b x t || assigns_r x r'
  end
with assigns_b (x : nat) (b : block) : bool :=
  match b with
  | BNil => false
  | BCons s b' => assigns_s x s || assigns_b x b'
  end.

Definition widen (t : bty) : bty :=
  match t with IntC _ => Integer | FloatC _ => Number | StrC _ => String_ | BoolC _ => Boolean | _ => t end.

(** the declared type of [local x = l]: literal type, widened when the local is reassigned *)
Definition decl_ty (p : prog) (x : nat) : ty :=
  let t := lit_ty (nth x (decls p) LNil) in
  B (if assigns_b x (body p) then widen t else t).

Definition init_st (d : ty) : st := {| sN := d; sM := Some d; sI := d |}.

Definition infer_var (p : prog) (x : nat) : list pinfo :=
  let d := decl_ty p x in
  snd (bblock x d false (body p) [init_st d]).

(** all probes of the program *)
Definition infer (p : prog) : list pinfo :=
  flat_map (infer_var p) (seq O (length (decls p))).

(** what the types are compared on: the set of runtime values a type admits ([unknown] admits none: it only
    arises where the analyzer has already excluded every value) *)
Definition has_b (v : atom) (t : bty) : bool :=
  match t, v with
  | Nil, ANil => true
  | Boolean, (AFalse | ATrue) => true
  | BoolC false, AFalse => true
  | BoolC true, ATrue => true
  | (Integer | IntC _ | FloatC _ | Number), ANum => true
  | (String_ | StrC _), AStr => true
  | (Table | TableC _), ATab => true
  | (Function | Sig _), AFun => true
  | _, _ => false
  end.
Definition has (v : atom) (t : ty) : bool := existsb (has_b v) (members t).
Definition has_unknown (t : ty) : bool := mem Unknown (members t).

Definition has_tag (g : tag) (t : ty) : bool :=
  existsb (fun v => tag_eqb (tag_of v) g && has v t) [ANil; AFalse; ATrue; ANum; AStr; ATab; AFun].

