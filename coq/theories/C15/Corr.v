(** C15/Corr.v — executable comparison of implementation observations with the model (C15 and C41).
    The harness (harness/vh_analysis/src/bin/c15.rs) generates a program of F, prints it, lets the real analyzer
    infer the type of the probed variable at every probe, and runs its own copy of the semantics over all oracles.
    [check_case] re-computes everything from the program alone:
      - the text the analyzer saw is the text of the program ([print_prog]);
      - the set of runtime values admitted by the analyzer's type at each probe = the one of model (B);
      - the reachable values at each probe computed by the harness = the ones of semantics (A);
      - the harness's classification of loop shapes (used for the finding signatures) = [negb ok_loops_b] (C41's [known_var]). *)
From Coq Require Import List NArith Bool Arith String.
From EV Require Import C15.Model C15.Shape C15.Print.
Import ListNotations.

Definition all_atoms : list atom := [ANil; AFalse; ATrue; ANum; AStr; ATab; AFun].

(** observation at one probe: the analyzer's type (canonical rendering parsed back), inside a loop? *)
Record case := {
  c_prog : prog;
  c_text : string;
  c_k : nat;                          (* oracle length used by the harness *)
  c_fuel : nat;
  c_obs : list (ty * bool);           (* by probe id: the analyzer's type, inside a loop? *)
  c_known : list (nat * bool);        (* by probe id: probed variable, does the harness put it in a known-unsound loop shape *)
  c_reach : list (list atom)          (* by probe id *)
}.

(** every probe event of every run (over all oracles of length [k]) that does not exhaust the fuel *)
Definition all_events (p : prog) (k fuel : nat) : list event :=
  flat_map (fun l => match run (oracle_of l) fuel p with
                     | (OStop false, _, _, _) => []
                     | (_, _, _, tr) => tr
                     end) (all_lists k).

Definition reach_of (evs : list event) (id : N) : list atom :=
  filter (fun a => existsb (fun '(i, _, v, _) => N.eqb i id && atom_eqb v a) evs) all_atoms.

Definition atoms_of (t : ty) : list atom := filter (fun a => has a t) all_atoms.

Fixpoint atoms_eqb (l1 l2 : list atom) : bool :=
  match l1, l2 with
  | [], [] => true
  | a :: r1, b :: r2 => atom_eqb a b && atoms_eqb r1 r2
  | _, _ => false
  end.

Definition find_probe (inf : list pinfo) (id : N) : option (bool * ty) :=
  match find (fun '(i, _, _) => N.eqb i id) inf with
  | Some (_, il, t) => Some (il, t)
  | None => None
  end.

Fixpoint check_probes (inf : list pinfo) (evs : list event) (obs : list (ty * bool)) (rs : list (list atom)) (id : N)
         (exact : bool) : bool :=
  match obs, rs with
  | [], [] => true
  | (t, il) :: obs', r :: rs' =>
      match find_probe inf id with
      | Some (il', t') =>
          Bool.eqb il il'
          && (if exact then ty_eqb t t' else atoms_eqb (atoms_of t) (atoms_of t') && Bool.eqb (has_unknown t) (has_unknown t'))
          && atoms_eqb (reach_of evs id) r
      | None => false
      end && check_probes inf evs obs' rs' (id + 1)%N exact
  | _, _ => false
  end.

Definition check_gen (exact : bool) (c : case) : bool :=
  let p := c_prog c in
  String.eqb (print_prog p) (c_text c)
  && Nat.eqb (List.length (infer p)) (List.length (c_obs c))
  && check_probes (infer p) (all_events p (c_k c) (c_fuel c)) (c_obs c) (c_reach c) 0%N exact
  && forallb (fun '(x, k) => Bool.eqb (negb (ok_loops_b x (body p))) k) (c_known c).

(** the tie: value sets (type tags, with the truth value of boolean literals) *)
Definition check_case (c : case) : bool := check_gen false c.
(** a stricter comparison, reported separately: the very same [LuaType] *)
Definition check_case_exact (c : case) : bool := check_gen true c.
