(** C15/TypeFacts.v — which runtime values the results of the type operations admit. *)
From Coq Require Import List NArith Bool Arith Lia.
From EV Require Import C15.Model.
Import ListNotations.
Local Open Scope N_scope.

Lemma bty_eqb_eq : forall a b, bty_eqb a b = true <-> a = b.
Proof.
  intros a b. split; intro H.
  - destruct a, b; cbn [bty_eqb] in H; try discriminate; try reflexivity;
      try (apply N.eqb_eq in H; subst; reflexivity).
    apply Bool.eqb_prop in H. subst. reflexivity.
  - subst. destruct b; cbn [bty_eqb]; try reflexivity; try apply N.eqb_refl.
    apply Bool.eqb_reflx.
Qed.

Lemma bty_eqb_refl : forall a, bty_eqb a a = true.
Proof. intro a. apply bty_eqb_eq. reflexivity. Qed.

Lemma bty_eqb_neq : forall a b, bty_eqb a b = false <-> a <> b.
Proof.
  intros a b. split; intro H.
  - intro E. apply bty_eqb_eq in E. congruence.
  - destruct (bty_eqb a b) eqn:E; [apply bty_eqb_eq in E; contradiction | reflexivity].
Qed.

Lemma mem_In : forall b l, mem b l = true <-> In b l.
Proof.
  intros b l. unfold mem. rewrite existsb_exists. split.
  - intros [x [Hin He]]. apply bty_eqb_eq in He. subst. exact Hin.
  - intro Hin. exists b. split; [exact Hin | apply bty_eqb_refl].
Qed.

Lemma has_members : forall v t, has v t = true <-> exists m, In m (members t) /\ has_b v m = true.
Proof. intros v t. unfold has. apply existsb_exists. Qed.

Lemma has_unknown_members : forall t, has_unknown t = true <-> In Unknown (members t).
Proof. intro t. unfold has_unknown. apply mem_In. Qed.

Lemma has_b_unknown : forall v, has_b v Unknown = false.
Proof. destruct v; reflexivity. Qed.

Lemma has_b_never : forall v, has_b v Never = false.
Proof. destruct v; reflexivity. Qed.

(* ------------------------------------------------------------------------------------ from_vec *)
Lemma dedupe_In : forall l acc m, In m (dedupe l acc) <-> In m l \/ In m acc.
Proof.
  induction l as [|a r IH]; intros acc m; cbn [dedupe].
  - cbn. tauto.
  - destruct (mem a acc) eqn:E.
    + rewrite IH. apply mem_In in E. cbn. split; [tauto|]. intros [[->|H]|H]; tauto.
    + rewrite IH. rewrite in_app_iff. cbn. tauto.
Qed.

Lemma mk_union_members : forall ms m, In m (members (mk_union ms)) <-> In m ms.
Proof.
  intros ms m. unfold mk_union.
  destruct (forallb is_basic ms) eqn:E.
  - cbn [members]. rewrite filter_In. rewrite mem_In. split; [tauto|].
    intro H. split; [|exact H].
    rewrite forallb_forall in E. specialize (E _ H). unfold is_basic in E. apply mem_In in E. exact E.
  - destruct ms as [|a [|b [|c r]]]; cbn [members]; try tauto.
    destruct (bty_eqb a Nil) eqn:Ea.
    + apply bty_eqb_eq in Ea. subst. cbn. tauto.
    + destruct (bty_eqb b Nil) eqn:Eb.
      * apply bty_eqb_eq in Eb. subst. cbn. tauto.
      * cbn. tauto.
Qed.

Lemma from_vec_members : forall l m, l <> [] -> (In m (members (from_vec l)) <-> In m l).
Proof.
  intros l m Hne. unfold from_vec.
  destruct l as [|a [|b r]]; [contradiction | cbn; tauto |].
  pose proof (dedupe_In (a :: b :: r) [] m) as HD.
  destruct (dedupe (a :: b :: r) []) as [|x [|y r2]] eqn:E.
  - exfalso. pose proof (dedupe_In (a :: b :: r) [] a) as H. rewrite E in H. cbn in H. tauto.
  - cbn [members]. rewrite HD. cbn. tauto.
  - rewrite mk_union_members. rewrite HD. cbn. tauto.
Qed.

Lemma from_vec_has : forall l v, l <> [] -> (has v (from_vec l) = true <-> exists m, In m l /\ has_b v m = true).
Proof.
  intros l v Hne. rewrite has_members. split; intros [m [Hin Hh]]; exists m; split; try exact Hh.
  - apply (proj1 (from_vec_members l m Hne)). exact Hin.
  - apply (proj2 (from_vec_members l m Hne)). exact Hin.
Qed.

(** possibly empty: the empty vector is [nil] *)
Lemma from_vec_has_intro : forall l v m, In m l -> has_b v m = true -> has v (from_vec l) = true.
Proof.
  intros l v m Hin Hh. apply from_vec_has.
  - intro E. subst. inversion Hin.
  - exists m. split; assumption.
Qed.

Lemma from_vec_unknown : forall l, has_unknown (from_vec l) = true -> In Unknown l.
Proof.
  intros l H. apply has_unknown_members in H.
  destruct l as [|a r].
  - cbn in H. destruct H as [H|[]]. discriminate.
  - apply (proj1 (from_vec_members (a :: r) Unknown ltac:(discriminate))). exact H.
Qed.

Lemma filter_map_In : forall {A C} (f : A -> option C) l c, In c (filter_map f l) <-> exists a, In a l /\ f a = Some c.
Proof.
  intros A C f l c. induction l as [|a r IH]; cbn.
  - split; [tauto | intros [? [[] _]]].
  - destruct (f a) eqn:E; cbn; rewrite IH; split.
    + intros [->|[a' [Hin Hf]]]; [exists a; tauto | exists a'; tauto].
    + intros [a' [[->|Hin] Hf]]; [left; congruence | right; exists a'; tauto].
    + intros [a' [Hin Hf]]. exists a'. tauto.
    + intros [a' [[->|Hin] Hf]]; [congruence | exists a'; tauto].
Qed.

(* ------------------------------------------------------------------------------------ base operations *)
Definition tag_matches (v : atom) (g : tag) : bool := tag_eqb (tag_of v) g.

Lemma nd_base_guard_keep : forall g m v,
  tag_matches v g = true -> has_b v m = true -> nd_base m (guard_ty g) = Some m.
Proof.
  intros g m v Ht Hh.
  destruct g, m, v; try destruct b; cbn in *; try discriminate; reflexivity.
Qed.

Lemma rtg_base_keep : forall g m v,
  tag_matches v g = false -> has_b v m = true -> rtg_base m (guard_ty g) = m.
Proof.
  intros g m v Ht Hh.
  destruct g, m, v; try destruct b; cbn in *; try discriminate; reflexivity.
Qed.

Lemma rfn_member_keep : forall m v,
  truthy v = true -> has_b v m = true -> exists m', rfn_member m = Some m' /\ has_b v m' = true.
Proof.
  intros m v Ht Hh.
  destruct m, v; try destruct b; cbn in *; try discriminate; eexists; split; reflexivity.
Qed.

Lemma nfn_base_keep : forall m v,
  truthy v = false -> has_b v m = true -> has_b v (nfn_base m) = true.
Proof.
  intros m v Ht Hh.
  destruct m, v; try destruct b; cbn in *; try discriminate; reflexivity.
Qed.

Lemma has_b_nil : forall m, has_b ANil m = true -> m = Nil.
Proof. destruct m; try destruct b; cbn; intro H; try discriminate; reflexivity. Qed.

Lemma rm_base_nil_keep : forall m v, v <> ANil -> has_b v m = true -> rm_base m Nil = Some m.
Proof.
  intros m v Hv Hh.
  destruct m, v; try destruct b; cbn in *; try discriminate; try reflexivity; contradiction.
Qed.

Lemma non_never_has : forall v m, has_b v m = true -> non_never m = true.
Proof. intros v m H. destruct m; try reflexivity. rewrite has_b_never in H. discriminate. Qed.

(* ------------------------------------------------------------------------------------ narrows *)
(** does the value take the branch the narrow describes *)
Definition sat (nw : narrow) (v : atom) : bool :=
  match nw with
  | NTruthy f => Bool.eqb (truthy v) f
  | NGuard g f => existsb (fun t => bty_eqb (guard_ty t) g && Bool.eqb (tag_matches v t) f) [TgNil; TgBool; TgNum; TgStr; TgTab; TgFun]
  | NEqNil f => Bool.eqb (atom_eqb v ANil) f
  end.

Lemma narrow_guard_true_sound : forall g v t,
  tag_matches v g = true -> has v t = true ->
  has v (match narrow_type_guard t (guard_ty g) with Some r => r | None => B (guard_ty g) end) = true.
Proof.
  intros g v t Hg Hh. apply has_members in Hh. destruct Hh as [m [Hin Hm]].
  pose proof (nd_base_guard_keep g m v Hg Hm) as Hk.
  unfold narrow_type_guard, narrow_down. destruct t as [s|l]; cbn [members] in Hin.
  - destruct Hin as [->|[]]. rewrite Hk. cbn. rewrite Hm. reflexivity.
  - destruct (filter_map (fun m0 => nd_base m0 (guard_ty g)) l) as [|x r] eqn:E.
    + exfalso. assert (In m (filter_map (fun m0 => nd_base m0 (guard_ty g)) l)) as H.
      { apply filter_map_In. exists m. split; assumption. }
      rewrite E in H. inversion H.
    + rewrite <- E. apply from_vec_has_intro with (m := m); [|exact Hm].
      apply filter_map_In. exists m. split; assumption.
Qed.

Lemma narrow_guard_false_sound : forall g v t,
  tag_matches v g = false -> has v t = true -> has v (remove_type_guard t (guard_ty g)) = true.
Proof.
  intros g v t Hg Hh. apply has_members in Hh. destruct Hh as [m [Hin Hm]].
  pose proof (rtg_base_keep g m v Hg Hm) as Hk.
  unfold remove_type_guard. destruct t as [s|l]; cbn [members] in Hin.
  - destruct Hin as [->|[]]. rewrite Hk. cbn. rewrite Hm. reflexivity.
  - apply from_vec_has_intro with (m := m); [|exact Hm].
    apply filter_In. split; [|apply non_never_has with (v := v); exact Hm].
    apply in_map_iff. exists m. split; assumption.
Qed.

Lemma narrow_truthy_true_sound : forall v t,
  truthy v = true -> has v t = true -> has v (remove_false_or_nil t) = true.
Proof.
  intros v t Hg Hh. apply has_members in Hh. destruct Hh as [m [Hin Hm]].
  destruct (rfn_member_keep m v Hg Hm) as [m' [Hk Hm']].
  unfold remove_false_or_nil. destruct t as [s|l]; cbn [members] in Hin.
  - destruct Hin as [->|[]]. rewrite Hk. cbn. rewrite Hm'. reflexivity.
  - apply from_vec_has_intro with (m := m'); [|exact Hm'].
    apply filter_map_In. exists m. split; assumption.
Qed.

Lemma narrow_truthy_false_sound : forall v t,
  truthy v = false -> has v t = true -> has v (narrow_false_or_nil t) = true.
Proof.
  intros v t Hg Hh. apply has_members in Hh. destruct Hh as [m [Hin Hm]].
  pose proof (nfn_base_keep m v Hg Hm) as Hk.
  unfold narrow_false_or_nil. destruct t as [s|l]; cbn [members] in Hin.
  - destruct Hin as [->|[]]. cbn. rewrite Hk. reflexivity.
  - apply from_vec_has_intro with (m := nfn_base m); [|exact Hk].
    apply filter_In. split; [|apply non_never_has with (v := v); exact Hk].
    apply in_map_iff. exists m. split; [reflexivity | assumption].
Qed.

Lemma narrow_eqnil_true_sound : forall t, has ANil t = true -> has ANil (narrow_eq_nil t true) = true.
Proof.
  intros t Hh. unfold narrow_eq_nil.
  destruct (is_never (op_intersect t Nil)) eqn:E; [exact Hh|].
  apply has_members in Hh. destruct Hh as [m [Hin Hm]]. apply has_b_nil in Hm. subst m.
  unfold op_intersect in *. destruct t as [s|l]; cbn [members] in Hin.
  - destruct Hin as [->|[]]. reflexivity.
  - assert (In Nil (filter non_never (map (fun m => int_base m Nil) l))) as H.
    { apply filter_In. split; [|reflexivity]. apply in_map_iff. exists Nil. split; [reflexivity | assumption]. }
    destruct (filter non_never (map (fun m => int_base m Nil) l)) as [|x r] eqn:E2; [inversion H|].
    rewrite <- E2 in *. apply from_vec_has_intro with (m := Nil); [exact H | reflexivity].
Qed.

Lemma narrow_eqnil_false_sound : forall v t, v <> ANil -> has v t = true -> has v (narrow_eq_nil t false) = true.
Proof.
  intros v t Hv Hh. unfold narrow_eq_nil. cbn [negb].
  apply has_members in Hh. destruct Hh as [m [Hin Hm]].
  pose proof (rm_base_nil_keep m v Hv Hm) as Hk.
  unfold op_remove. destruct t as [s|l]; cbn [members] in Hin.
  - destruct Hin as [->|[]]. rewrite Hk. cbn. rewrite Hm. reflexivity.
  - apply from_vec_has_intro with (m := m); [|exact Hm].
    apply filter_map_In. exists m. split; assumption.
Qed.

Lemma atom_eqb_eq : forall a b, atom_eqb a b = true <-> a = b.
Proof. destruct a, b; cbn; split; intro H; try discriminate; reflexivity. Qed.

Lemma guard_ty_inj : forall a b, bty_eqb (guard_ty a) (guard_ty b) = true -> a = b.
Proof. destruct a, b; cbn; intro H; try discriminate; reflexivity. Qed.

(** a pending narrow keeps every value that takes its branch *)
Lemma apply_narrow_sound : forall nw v t, sat nw v = true -> has v t = true -> has v (apply_narrow nw t) = true.
Proof.
  intros nw v t Hs Hh. destruct nw as [f|g f|f]; cbn [sat] in Hs.
  - apply Bool.eqb_prop in Hs. destruct f; cbn [apply_narrow].
    + apply narrow_truthy_true_sound; assumption.
    + apply narrow_truthy_false_sound; assumption.
  - apply existsb_exists in Hs. destruct Hs as [tg [_ Hs]]. apply andb_true_iff in Hs. destruct Hs as [Hg Hm].
    apply bty_eqb_eq in Hg. subst g. apply Bool.eqb_prop in Hm.
    destruct f; cbn [apply_narrow].
    + apply narrow_guard_true_sound; assumption.
    + apply narrow_guard_false_sound; assumption.
  - apply Bool.eqb_prop in Hs. destruct f; cbn [apply_narrow].
    + apply atom_eqb_eq in Hs. subst v. apply narrow_eqnil_true_sound. exact Hh.
    + apply narrow_eqnil_false_sound; [|exact Hh]. intro E. subst v. discriminate.
Qed.

(* ------------------------------------------------------------------------------------ union *)
Lemma has_b_sig : forall v n k, has_b v (Sig n) = has_b v (Sig k).
Proof. destruct v; reflexivity. Qed.

Lemma dls_has : forall v l seen,
  (exists m, In m l /\ has_b v m = true /\ (seen = true -> is_sig m = false)) ->
  exists m', In m' (drop_later_sigs l seen) /\ has_b v m' = true.
Proof.
  intros v. induction l as [|a r IH]; intros seen [m [Hin [Hm Hs]]]; [inversion Hin|].
  destruct Hin as [->|Hin].
  - destruct m; cbn [drop_later_sigs]; try (eexists; split; [left; reflexivity | exact Hm]).
    destruct seen; [specialize (Hs eq_refl); discriminate|].
    eexists; split; [left; reflexivity | exact Hm].
  - assert (forall seen', (seen' = true -> is_sig m = false) ->
              exists m', In m' (drop_later_sigs r seen') /\ has_b v m' = true) as IH'.
    { intros seen' H'. apply IH. exists m. repeat split; assumption. }
    destruct a; cbn [drop_later_sigs];
      try (destruct (IH' seen Hs) as [m' [Hi Hh]]; exists m'; split; [right; exact Hi | exact Hh]).
    destruct seen.
    + destruct (IH' true Hs) as [m' [Hi Hh]]. exists m'. split; assumption.
    + destruct (has_b v (Sig n)) eqn:E.
      * exists (Sig n). split; [left; reflexivity | exact E].
      * assert (is_sig m = false) as Hns.
        { destruct m; try reflexivity. rewrite (has_b_sig v n0 n) in Hm. congruence. }
        destruct (IH' true (fun _ => Hns)) as [m' [Hi Hh]]. exists m'. split; [right; exact Hi | exact Hh].
Qed.

Lemma dls_subset : forall l seen m, In m (drop_later_sigs l seen) -> In m l.
Proof.
  induction l as [|a r IH]; intros seen m H; [inversion H|].
  destruct a; cbn [drop_later_sigs] in H;
    try (destruct H as [->|H]; [left; reflexivity | right; eapply IH; exact H]).
  destruct seen.
  - right. eapply IH. exact H.
  - destruct H as [->|H]; [left; reflexivity | right; eapply IH; exact H].
Qed.

Lemma canon_has : forall v t, has v t = true -> has v (canon_callable t) = true.
Proof.
  intros v t H. destruct t as [s|l]; [exact H|]. cbn [canon_callable].
  apply has_members in H. cbn [members] in H. destruct H as [m [Hin Hm]].
  destruct (dls_has v l false) as [m' [Hi Hh]].
  { exists m. repeat split; try assumption. discriminate. }
  apply from_vec_has_intro with (m := m'); assumption.
Qed.

Lemma canon_unknown : forall t, has_unknown (canon_callable t) = true -> has_unknown t = true.
Proof.
  intros t H. destruct t as [s|l]; [exact H|]. cbn [canon_callable] in H.
  apply from_vec_unknown in H. apply dls_subset in H. apply has_unknown_members. exact H.
Qed.

Lemma union_bb_has : forall v a b, has_b v a = true \/ has_b v b = true -> has v (union_bb a b) = true.
Proof.
  intros v a b H.
  destruct a, b; try destruct b0; try destruct b; destruct v; cbn in H; destruct H as [H|H]; try discriminate H;
    cbn; try reflexivity;
    repeat match goal with |- context [N.eqb ?x ?y] => destruct (N.eqb x y) end; cbn; reflexivity.
Qed.

Lemma union_bb_unknown : forall a b, has_unknown (union_bb a b) = true -> a = Unknown \/ b = Unknown.
Proof.
  intros a b H.
  destruct a, b; try destruct b0; try destruct b; cbn in H; try discriminate H; try (left; reflexivity); try (right; reflexivity);
    repeat match type of H with context [N.eqb ?x ?y] => destruct (N.eqb x y) end; cbn in H; try discriminate H.
Qed.

Lemma has_B : forall v b, has v (B b) = has_b v b.
Proof. intros. unfold has. cbn. apply orb_false_r. Qed.

Lemma has_U_intro : forall v l m, In m l -> has_b v m = true -> has v (U l) = true.
Proof. intros v l m Hin Hm. apply has_members. exists m. split; assumption. Qed.

Lemma union2_has : forall v a b, has v a = true \/ has v b = true -> has v (union2 a b) = true.
Proof.
  intros v a b H. destruct a as [x|l1], b as [y|l2]; cbn [union2].
  - apply union_bb_has. rewrite !has_B in H. exact H.
  - destruct H as [H|H].
    + rewrite has_B in H.
      assert (has v (if mem x l2 then U l2 else mk_union (l2 ++ [x])) = true) as G.
      { destruct (mem x l2) eqn:E.
        - apply mem_In in E. eapply has_U_intro; eassumption.
        - apply has_members. exists x. split; [|exact H]. apply mk_union_members. apply in_app_iff. right. left. reflexivity. }
      destruct x; try exact G. rewrite has_b_never in H. discriminate.
    + apply has_members in H. destruct H as [m [Hin Hm]].
      assert (has v (if mem x l2 then U l2 else mk_union (l2 ++ [x])) = true) as G.
      { destruct (mem x l2); [eapply has_U_intro; eassumption|].
        apply has_members. exists m. split; [|exact Hm]. apply mk_union_members. apply in_app_iff. left. exact Hin. }
      destruct x; exact G || (eapply has_U_intro; eassumption).
  - destruct H as [H|H].
    + apply has_members in H. destruct H as [m [Hin Hm]].
      assert (has v (if mem y l1 then U l1 else mk_union (l1 ++ [y])) = true) as G.
      { destruct (mem y l1); [eapply has_U_intro; eassumption|].
        apply has_members. exists m. split; [|exact Hm]. apply mk_union_members. apply in_app_iff. left. exact Hin. }
      destruct y; exact G || (eapply has_U_intro; eassumption).
    + rewrite has_B in H.
      assert (has v (if mem y l1 then U l1 else mk_union (l1 ++ [y])) = true) as G.
      { destruct (mem y l1) eqn:E.
        - apply mem_In in E. eapply has_U_intro; eassumption.
        - apply has_members. exists y. split; [|exact H]. apply mk_union_members. apply in_app_iff. right. left. reflexivity. }
      destruct y; try exact G. rewrite has_b_never in H. discriminate.
  - destruct (list_eqb l1 l2) eqn:E.
    + destruct H as [H|H]; [exact H|].
      assert (l1 = l2) as ->; [|exact H].
      clear H. revert l2 E. induction l1 as [|a r IH]; destruct l2 as [|b r2]; cbn; intro E; try discriminate; [reflexivity|].
      apply andb_true_iff in E. destruct E as [E1 E2]. apply bty_eqb_eq in E1. subst. f_equal. apply IH. exact E2.
    + destruct H as [H|H]; apply has_members in H; destruct H as [m [Hin Hm]];
        apply from_vec_has_intro with (m := m); try exact Hm; apply in_app_iff; [left|right]; exact Hin.
Qed.

Lemma union_has : forall v a b, has v a = true \/ has v b = true -> has v (union a b) = true.
Proof. intros. unfold union. apply canon_has. apply union2_has. assumption. Qed.

Definition unk_free (t : ty) : Prop := has_unknown t = false.

Lemma has_unknown_B : forall b, has_unknown (B b) = bty_eqb Unknown b.
Proof. intro b. unfold has_unknown, mem. cbn. apply orb_false_r. Qed.

Lemma union2_unknown : forall a b, has_unknown (union2 a b) = true -> has_unknown a = true \/ has_unknown b = true.
Proof.
  intros a b H. destruct a as [x|l1], b as [y|l2]; cbn [union2] in H.
  - apply union_bb_unknown in H. rewrite !has_unknown_B. destruct H as [->| ->]; [left|right]; reflexivity.
  - assert (has_unknown (if mem x l2 then U l2 else mk_union (l2 ++ [x])) = true -> has_unknown (B x) = true \/ has_unknown (U l2) = true) as G.
    { intro G. destruct (mem x l2); [right; exact G|].
      apply has_unknown_members in G. apply (proj1 (mk_union_members _ _)) in G. apply in_app_iff in G.
      destruct G as [G|[->|[]]]; [right; apply has_unknown_members; exact G | left; reflexivity]. }
    destruct x; try (apply G; exact H). right. exact H.
  - assert (has_unknown (if mem y l1 then U l1 else mk_union (l1 ++ [y])) = true -> has_unknown (U l1) = true \/ has_unknown (B y) = true) as G.
    { intro G. destruct (mem y l1); [left; exact G|].
      apply has_unknown_members in G. apply (proj1 (mk_union_members _ _)) in G. apply in_app_iff in G.
      destruct G as [G|[->|[]]]; [left; apply has_unknown_members; exact G | right; reflexivity]. }
    destruct y; try (apply G; exact H). left. exact H.
  - destruct (list_eqb l1 l2); [left; exact H|].
    apply from_vec_unknown in H. apply in_app_iff in H.
    destruct H as [H|H]; [left|right]; apply has_unknown_members; exact H.
Qed.

Lemma union_unk_free : forall a b, unk_free a -> unk_free b -> unk_free (union a b).
Proof.
  unfold unk_free. intros a b Ha Hb.
  destruct (has_unknown (union a b)) eqn:E; [|reflexivity].
  unfold union in E. apply canon_unknown in E. apply union2_unknown in E. destruct E; congruence.
Qed.

Lemma fold_union_has : forall {A} (g : A -> ty) v l init,
  has v init = true \/ (exists s, In s l /\ has v (g s) = true) ->
  has v (fold_left (fun acc s => union acc (g s)) l init) = true.
Proof.
  intros A g v. induction l as [|a r IH]; intros init H; cbn [fold_left].
  - destruct H as [H|[s [[] _]]]. exact H.
  - apply IH. destruct H as [H|[s [[->|Hin] Hs]]].
    + left. apply union_has. left. exact H.
    + left. apply union_has. right. exact Hs.
    + right. exists s. split; assumption.
Qed.

Lemma fold_union_unk_free : forall {A} (g : A -> ty) l init,
  unk_free init -> (forall s, In s l -> unk_free (g s)) ->
  unk_free (fold_left (fun acc s => union acc (g s)) l init).
Proof.
  intros A g. induction l as [|a r IH]; intros init Hi Hl; cbn [fold_left]; [exact Hi|].
  apply IH.
  - apply union_unk_free; [exact Hi | apply Hl; left; reflexivity].
  - intros s Hs. apply Hl. right. exact Hs.
Qed.

(* ------------------------------------------------------------------------------------ assignment *)
Lemma lit_has : forall l, has_b (lit_atom l) (lit_ty l) = true.
Proof. destruct l; try destruct b; reflexivity. Qed.

Lemma nd_base_lit_has : forall s l n, nd_base s (lit_ty l) = Some n -> s <> Unknown -> has_b (lit_atom l) n = true.
Proof.
  intros s l n H Hs. unfold nd_base in H.
  destruct (bty_eqb s (lit_ty l)) eqn:E.
  - apply bty_eqb_eq in E. inversion H. subst. apply lit_has.
  - clear E. destruct l; try destruct b; destruct s; try destruct b; cbn in H; try discriminate H;
      try (inversion H; subst; reflexivity); contradiction.
Qed.

Lemma nd_base_lit_unk : forall s l n, nd_base s (lit_ty l) = Some n -> n <> Unknown.
Proof.
  intros s l n H. unfold nd_base in H.
  destruct (bty_eqb s (lit_ty l)) eqn:E.
  - apply bty_eqb_eq in E. inversion H. subst. destruct l; discriminate.
  - clear E. destruct l; try destruct b; destruct s; try destruct b; cbn in H; try discriminate H;
      inversion H; subst; discriminate.
Qed.

Lemma nd_base_tablec_has : forall s k n, nd_base s (TableC k) = Some n -> has_b ATab n = true.
Proof.
  intros s k n H. unfold nd_base in H.
  destruct (bty_eqb s (TableC k)) eqn:E.
  - apply bty_eqb_eq in E. inversion H. subst. reflexivity.
  - clear E. destruct s; cbn in H; try discriminate H; inversion H; subst; reflexivity.
Qed.

Lemma unk_free_B : forall b, unk_free (B b) <-> b <> Unknown.
Proof.
  intro b. unfold unk_free. rewrite has_unknown_B. split; intro H.
  - intro E. subst. discriminate.
  - apply bty_eqb_neq. intro E. apply H. symmetry. exact E.
Qed.

Lemma unk_free_U : forall l, unk_free (U l) <-> ~ In Unknown l.
Proof.
  intro l. unfold unk_free. split; intro H.
  - intro Hin. apply (proj2 (has_unknown_members (U l))) in Hin. congruence.
  - destruct (has_unknown (U l)) eqn:E; [|reflexivity]. apply (proj1 (has_unknown_members (U l))) in E. contradiction.
Qed.

Lemma narrow_down_lit_has : forall a l n,
  unk_free a -> narrow_down a (lit_ty l) = Some n -> has (lit_atom l) n = true.
Proof.
  intros a l n Hu H. unfold narrow_down in H. destruct a as [s|ms].
  - destruct (nd_base s (lit_ty l)) eqn:E; cbn in H; inversion H; subst.
    rewrite has_B. eapply nd_base_lit_has; [exact E|]. apply unk_free_B. exact Hu.
  - destruct (filter_map (fun m => nd_base m (lit_ty l)) ms) as [|x r] eqn:E; [discriminate|].
    assert (Hn : n = from_vec (x :: r)) by congruence. subst n. clear H.
    assert (In x (filter_map (fun m => nd_base m (lit_ty l)) ms)) as Hx by (rewrite E; left; reflexivity).
    apply filter_map_In in Hx. destruct Hx as [m [Hin Hm]].
    apply from_vec_has_intro with (m := x); [left; reflexivity|].
    eapply nd_base_lit_has; [exact Hm|]. intro Eu. subst. apply unk_free_U in Hu. contradiction.
Qed.

Lemma narrow_down_lit_unk_free : forall a l n, narrow_down a (lit_ty l) = Some n -> unk_free n.
Proof.
  intros a l n H. unfold narrow_down in H. destruct a as [s|ms].
  - destruct (nd_base s (lit_ty l)) eqn:E; cbn in H; inversion H; subst.
    apply unk_free_B. eapply nd_base_lit_unk. exact E.
  - destruct (filter_map (fun m => nd_base m (lit_ty l)) ms) as [|x r] eqn:E; [discriminate|].
    assert (Hn : n = from_vec (x :: r)) by congruence. subst n. clear H. rewrite <- E.
    unfold unk_free. destruct (has_unknown (from_vec (filter_map (fun m => nd_base m (lit_ty l)) ms))) eqn:F; [|reflexivity].
    apply from_vec_unknown in F. apply filter_map_In in F. destruct F as [m [_ Hm]].
    apply nd_base_lit_unk in Hm. contradiction.
Qed.

Lemma narrow_down_tablec_has : forall a k n, narrow_down a (TableC k) = Some n -> has ATab n = true.
Proof.
  intros a k n H. unfold narrow_down in H. destruct a as [s|ms].
  - destruct (nd_base s (TableC k)) eqn:E; cbn in H; inversion H; subst.
    rewrite has_B. eapply nd_base_tablec_has. exact E.
  - destruct (filter_map (fun m => nd_base m (TableC k)) ms) as [|x r] eqn:E; [discriminate|].
    assert (Hn : n = from_vec (x :: r)) by congruence. subst n. clear H.
    assert (In x (filter_map (fun m => nd_base m (TableC k)) ms)) as Hx by (rewrite E; left; reflexivity).
    apply filter_map_In in Hx. destruct Hx as [m [Hin Hm]].
    apply from_vec_has_intro with (m := x); [left; reflexivity|].
    eapply nd_base_tablec_has. exact Hm.
Qed.

Lemma lit_has_B : forall l, has (lit_atom l) (B (lit_ty l)) = true.
Proof. intro l. rewrite has_B. apply lit_has. Qed.

Lemma lit_unk_free : forall l, unk_free (B (lit_ty l)).
Proof. intro l. apply unk_free_B. destruct l; discriminate. Qed.

Lemma ty_eqb_B : forall n e, ty_eqb n (B e) = true -> n = B e.
Proof. intros n e H. destruct n as [x|l]; cbn in H; [|discriminate]. apply bty_eqb_eq in H. subst. reflexivity. Qed.

(** the result of an assignment admits the assigned value, whatever the (possibly wrong) antecedent types are,
    as long as the IgnoreConditions antecedent has no [unknown] member *)
Lemma finish_assignment_has : forall src l reuse d,
  (reuse = true -> can_reuse src (lit_ty l) = true) ->
  (reuse = false -> unk_free src) ->
  preserves (lit_ty l) = true ->
  has (lit_atom l) (finish_assignment_result src (lit_ty l) reuse (B d)) = true.
Proof.
  intros src l reuse d Hr Hn Hp.
  assert (has (lit_atom l)
            (let narrowed := if is_nil_ty src then None else narrow_down src (lit_ty l) in
             if reuse || preserves (lit_ty l) then match narrowed with Some n => n | None => B (lit_ty l) end
             else B (lit_ty l)) = true) as G.
  { cbv zeta. rewrite Hp. rewrite orb_true_r.
    destruct (is_nil_ty src); [apply lit_has_B|].
    destruct (narrow_down src (lit_ty l)) as [n|] eqn:E; [|apply lit_has_B].
    destruct reuse.
    - specialize (Hr eq_refl). unfold can_reuse in Hr.
      destruct (lit_ty l) eqn:El; cbn [is_exact] in Hr; try discriminate Hr;
        try (rewrite E in Hr; apply ty_eqb_B in Hr; subst n; rewrite <- El; apply lit_has_B).
      destruct l; try discriminate El. cbn [lit_atom]. eapply narrow_down_tablec_has. exact E.
    - eapply narrow_down_lit_has; [apply Hn; reflexivity | exact E]. }
  unfold finish_assignment_result. cbv zeta in G |- *.
  destruct (lit_ty l) eqn:El; try exact G.
  destruct (is_nil_ty src); [|exact G].
  destruct (is_unknown_ty (remove_false_or_nil (B d))); [exact G|].
  destruct (narrow_down (remove_false_or_nil (B d)) (TableC n)) eqn:E; [|exact G].
  destruct l; try discriminate El. cbn [lit_atom]. eapply narrow_down_tablec_has. exact E.
Qed.

Lemma finish_assignment_unk_free : forall src l reuse d,
  unk_free (finish_assignment_result src (lit_ty l) reuse d).
Proof.
  intros src l reuse d.
  assert (unk_free
            (let narrowed := if is_nil_ty src then None else narrow_down src (lit_ty l) in
             if reuse || preserves (lit_ty l) then match narrowed with Some n => n | None => B (lit_ty l) end
             else B (lit_ty l))) as G.
  { cbv zeta. destruct (reuse || preserves (lit_ty l)); [|apply lit_unk_free].
    destruct (is_nil_ty src); [apply lit_unk_free|].
    destruct (narrow_down src (lit_ty l)) eqn:E; [|apply lit_unk_free].
    eapply narrow_down_lit_unk_free. exact E. }
  unfold finish_assignment_result. cbv zeta in G |- *.
  destruct (lit_ty l) eqn:El; try exact G.
  destruct (is_nil_ty src); [|exact G].
  destruct (is_unknown_ty (remove_false_or_nil d)); [exact G|].
  destruct (narrow_down (remove_false_or_nil d) (TableC n)) eqn:E; [|exact G].
  rewrite <- El in E. eapply narrow_down_lit_unk_free. exact E.
Qed.

Lemma asg_from_has : forall a ai l d,
  unk_free ai -> preserves (lit_ty l) = true -> has (lit_atom l) (asg_from a ai (lit_ty l) (B d)) = true.
Proof.
  intros a ai l d Hu Hp. unfold asg_from.
  destruct (can_reuse a (lit_ty l)) eqn:E.
  - apply finish_assignment_has; [intros _; exact E | discriminate | exact Hp].
  - apply finish_assignment_has; [discriminate | intros _; exact Hu | exact Hp].
Qed.

Lemma asg_from_unk_free : forall a ai l d, unk_free (asg_from a ai (lit_ty l) d).
Proof. intros. unfold asg_from. destruct (can_reuse a (lit_ty l)); apply finish_assignment_unk_free. Qed.
