(** C15/Proofs.v — program-level consequences of the simulation (C15/Sound.v). *)
From Coq Require Import List NArith Bool Arith Lia.
From EV Require Import C15.Model C15.Shape C15.TypeFacts C15.Sound.
Import ListNotations.

Lemma widen_has : forall l, has_b (lit_atom l) (widen (lit_ty l)) = true.
Proof. destruct l; try destruct b; reflexivity. Qed.

Lemma decl_ty_B : forall p x, exists d, decl_ty p x = B d /\ has_b (init_env p x) d = true /\ d <> Unknown.
Proof.
  intros p x. unfold decl_ty, init_env. destruct (assigns_b x (body p)).
  - eexists. split; [reflexivity|]. split; [apply widen_has|]. destruct (nth x (decls p) LNil); discriminate.
  - eexists. split; [reflexivity|]. split; [apply lit_has|]. destruct (nth x (decls p) LNil); discriminate.
Qed.

(** the simulation, started at the declarations *)
Theorem run_sound : forall p x o fuel oc env' pos' tr,
  ok_loops_b x (body p) = true ->
  run o fuel p = (oc, env', pos', tr) ->
  forall id v, In (id, x, v, false) tr -> exists t, In (id, false, t) (infer_var p x) /\ has v t = true.
Proof.
  intros p x o fuel oc env' pos' tr Hok Hrun id v Hin.
  destruct (decl_ty_B p x) as [d [Hd [Hh Hu]]].
  unfold run in Hrun. unfold infer_var. rewrite Hd.
  destruct (bblock x (B d) false (body p) [init_st (B d)]) as [[c2 br] pr] eqn:EB. cbn [snd].
  assert (R None (getv (init_env p) x) [init_st (B d)]) as HR.
  { left. exists (init_st (B d)). split; [left; reflexivity|]. unfold okv, init_st. cbn [sN sM sI]. rewrite has_B.
    split; [exact Hh|]. split; [eexists; split; [reflexivity | rewrite has_B; exact Hh] | exact Hh]. }
  assert (wf [init_st (B d)]) as Hw.
  { apply wf_single. unfold wf_st, init_st. cbn [sI]. apply unk_free_B. exact Hu. }
  destruct ((proj2 (proj2 (sound_all o fuel x d))) (body p) false None _ _ _ _ _ _ _ _ _ _ Hrun EB Hok ltac:(intro H; contradiction) HR Hw)
    as [_ [_ Htr]].
  exact (Htr eq_refl eq_refl id v Hin).
Qed.

(* ------------------------------------------------------------------------------------ loop-free programs *)
Lemma loop_free_ok :
  forall x,
  (forall s, loop_free_s s = true -> ok_loops_s x s = true) /\
  (forall r, loop_free_r r = true -> ok_loops_r x r = true) /\
  (forall b, loop_free_b b = true -> ok_loops_b x b = true).
Proof.
  intro x. apply syntax_ind; cbn; intros; try reflexivity; try discriminate;
    repeat match goal with H : _ && _ = true |- _ => apply andb_true_iff in H; destruct H end;
    try (apply andb_true_iff; split); auto.
Qed.

Section LoopFree.
  Variable o : nat -> bool.
  Variable fuel : nat.

  (** without loops every probe event is outside a loop *)
  Lemma loop_free_flags :
    (forall s env pos oc env' pos' tr, loop_free_s s = true -> exec_stmt o fuel false s env pos = (oc, env', pos', tr) ->
       Forall (fun e : event => snd e = false) tr) /\
    (forall r env pos oc env' pos' tr, loop_free_r r = true -> exec_rest o fuel false r env pos = (oc, env', pos', tr) ->
       Forall (fun e : event => snd e = false) tr) /\
    (forall b env pos oc env' pos' tr, loop_free_b b = true -> exec_block o fuel false b env pos = (oc, env', pos', tr) ->
       Forall (fun e : event => snd e = false) tr).
  Proof.
    apply syntax_ind.
    - intros y l env pos oc env' pos' tr _ H. cbn in H. inversion H. constructor.
    - intros id y env pos oc env' pos' tr _ H. cbn in H. inversion H. constructor; [reflexivity | constructor].
    - intros c t IHt r IHr env pos oc env' pos' tr Hl H. cbn [loop_free_s] in Hl. apply andb_true_iff in Hl. destruct Hl.
      rewrite exec_if in H. destruct (eval o c env pos) as [v p]. destruct v; [eapply IHt | eapply IHr]; eassumption.
    - intros c b _ env pos oc env' pos' tr Hl. discriminate Hl.
    - intros b _ env pos oc env' pos' tr Hl. discriminate Hl.
    - intros b _ c env pos oc env' pos' tr Hl. discriminate Hl.
    - intros a z b _ env pos oc env' pos' tr Hl. discriminate Hl.
    - intros c b _ env pos oc env' pos' tr Hl. discriminate Hl.
    - intros c env pos oc env' pos' tr _ H. rewrite exec_assert in H.
      destruct (eval o c env pos) as [v p]. destruct v; inversion H; constructor.
    - intros e c b IHb env pos oc env' pos' tr Hl H. cbn [loop_free_s] in Hl. rewrite exec_returnif in H.
      destruct (eval o c env pos) as [v p]. destruct v.
      + dres (exec_block o fuel false b env p) as oc1 e1 p1 tr1 E1. pose proof (IHb _ _ _ _ _ _ Hl E1) as G.
        destruct oc1; inversion H; subst; exact G.
      + inversion H. constructor.
    - intros env pos oc env' pos' tr _ H. cbn in H. inversion H. constructor.
    - intros b IHb env pos oc env' pos' tr Hl H. rewrite exec_relse in H. eapply IHb; eassumption.
    - intros c t IHt r IHr env pos oc env' pos' tr Hl H. cbn [loop_free_r] in Hl. apply andb_true_iff in Hl. destruct Hl.
      rewrite exec_relif in H. destruct (eval o c env pos) as [v p]. destruct v; [eapply IHt | eapply IHr]; eassumption.
    - intros env pos oc env' pos' tr _ H. cbn in H. inversion H. constructor.
    - intros s IHs b IHb env pos oc env' pos' tr Hl H. cbn [loop_free_b] in Hl. apply andb_true_iff in Hl. destruct Hl as [Hl1 Hl2].
      rewrite exec_bcons in H. dres (exec_stmt o fuel false s env pos) as oc1 e1 p1 tr1 E1.
      pose proof (IHs _ _ _ _ _ _ Hl1 E1) as G1. destruct oc1.
      + dres (exec_block o fuel false b e1 p1) as oc2 e2 p2 tr2 E2. cbn in H. inversion H; subst.
        apply Forall_app. split; [exact G1 | eapply IHb; eassumption].
      + inversion H; subst. exact G1.
      + inversion H; subst. exact G1.
  Qed.
End LoopFree.

Theorem narrowing_sound_lf : forall p o fuel oc env' pos' tr,
  loop_free_b (body p) = true ->
  run o fuel p = (oc, env', pos', tr) ->
  forall id x v fl, In (id, x, v, fl) tr ->
    exists t, In (id, false, t) (infer_var p x) /\ has v t = true /\ has_tag (tag_of v) t = true.
Proof.
  intros p o fuel oc env' pos' tr Hlf Hrun id x v fl Hin.
  pose proof ((proj2 (proj2 (loop_free_flags o fuel))) _ _ _ _ _ _ _ Hlf Hrun) as HF.
  rewrite Forall_forall in HF. pose proof (HF _ Hin) as Hfl. cbn in Hfl. subst fl.
  destruct (run_sound p x o fuel oc env' pos' tr ((proj2 (proj2 (loop_free_ok x))) _ Hlf) Hrun id v Hin) as [t [Ht Hh]].
  exists t. split; [exact Ht|]. split; [exact Hh|].
  unfold has_tag. apply existsb_exists. exists v. split.
  - destruct v; cbn; tauto.
  - rewrite Hh. destruct v; reflexivity.
Qed.

(* ------------------------------------------------------------------------------------ oracles *)
Lemma eval_ext : forall o1 o2 c env pos,
  (forall i, pos <= i < pos + copq c -> o1 i = o2 i)%nat ->
  eval o1 c env pos = eval o2 c env pos /\ (pos <= snd (eval o1 c env pos) <= pos + copq c)%nat.
Proof.
  intros o1 o2. induction c as [y tg|y|y|y|k|a IHa|a IHa b IHb|a IHa b IHb|y tg|y|y]; intros env pos H; cbn [eval copq] in *;
    try (split; [reflexivity | cbn; lia]).
  - split; [rewrite (H pos) by lia; reflexivity | cbn; lia].
  - destruct (IHa env pos H) as [E B]. rewrite <- E. destruct (eval o1 a env pos) as [v p]. cbn in *. split; [reflexivity | lia].
  - destruct (IHa env pos) as [E B]; [intros i Hi; apply H; lia|]. rewrite <- E.
    destruct (eval o1 a env pos) as [v p] eqn:Ea. cbn [snd] in B. destruct v.
    + destruct (IHb env p) as [E2 B2]; [intros i Hi; apply H; lia|]. rewrite <- E2. split; [reflexivity | lia].
    + split; [reflexivity | cbn; lia].
  - destruct (IHa env pos) as [E B]; [intros i Hi; apply H; lia|]. rewrite <- E.
    destruct (eval o1 a env pos) as [v p] eqn:Ea. cbn [snd] in B. destruct v.
    + split; [reflexivity | cbn; lia].
    + destruct (IHb env p) as [E2 B2]; [intros i Hi; apply H; lia|]. rewrite <- E2. split; [reflexivity | lia].
Qed.

Definition pos_of (r : res) : nat := snd (fst r).

Section OracleExt.
  Variables o1 o2 : nat -> bool.
  Variable fuel : nat.

  Lemma exec_ext :
    (forall s inl env pos, loop_free_s s = true -> (forall i, pos <= i < pos + opq_s s -> o1 i = o2 i)%nat ->
       exec_stmt o1 fuel inl s env pos = exec_stmt o2 fuel inl s env pos /\
       (pos <= pos_of (exec_stmt o1 fuel inl s env pos) <= pos + opq_s s)%nat) /\
    (forall r inl env pos, loop_free_r r = true -> (forall i, pos <= i < pos + opq_r r -> o1 i = o2 i)%nat ->
       exec_rest o1 fuel inl r env pos = exec_rest o2 fuel inl r env pos /\
       (pos <= pos_of (exec_rest o1 fuel inl r env pos) <= pos + opq_r r)%nat) /\
    (forall b inl env pos, loop_free_b b = true -> (forall i, pos <= i < pos + opq_b b -> o1 i = o2 i)%nat ->
       exec_block o1 fuel inl b env pos = exec_block o2 fuel inl b env pos /\
       (pos <= pos_of (exec_block o1 fuel inl b env pos) <= pos + opq_b b)%nat).
  Proof.
    apply syntax_ind.
    - intros y l inl env pos _ _. cbn. split; [reflexivity | lia].
    - intros id y inl env pos _ _. cbn. split; [reflexivity | lia].
    - intros c t IHt r IHr inl env pos Hl H. cbn [loop_free_s] in Hl. apply andb_true_iff in Hl. destruct Hl as [Hl1 Hl2].
      cbn [opq_s] in H |- *. rewrite !exec_if.
      destruct (eval_ext o1 o2 c env pos) as [E B]; [intros i Hi; apply H; lia|]. rewrite <- E.
      destruct (eval o1 c env pos) as [v p]. cbn [snd] in B. destruct v.
      + destruct (IHt inl env p Hl1) as [E2 B2]; [intros i Hi; apply H; lia|]. split; [exact E2 | lia].
      + destruct (IHr inl env p Hl2) as [E2 B2]; [intros i Hi; apply H; lia|]. split; [exact E2 | lia].
    - intros c b _ inl env pos Hl. discriminate Hl.
    - intros b _ inl env pos Hl. discriminate Hl.
    - intros b _ c inl env pos Hl. discriminate Hl.
    - intros a z b _ inl env pos Hl. discriminate Hl.
    - intros c b _ inl env pos Hl. discriminate Hl.
    - intros c inl env pos _ H. cbn [opq_s] in H |- *. rewrite !exec_assert.
      destruct (eval_ext o1 o2 c env pos H) as [E B]. rewrite <- E.
      destruct (eval o1 c env pos) as [v p]. cbn [snd] in B. destruct v; (split; [reflexivity | unfold pos_of; cbn; lia]).
    - intros e c b IHb inl env pos Hl H. cbn [loop_free_s] in Hl. cbn [opq_s] in H |- *. rewrite !exec_returnif.
      destruct (eval_ext o1 o2 c env pos) as [E B]; [intros i Hi; apply H; lia|]. rewrite <- E.
      destruct (eval o1 c env pos) as [v p]. cbn [snd] in B. destruct v.
      + destruct (IHb inl env p Hl) as [E2 B2]; [intros i Hi; apply H; lia|]. rewrite <- E2.
        dres (exec_block o1 fuel inl b env p) as oc1 e1 p1 tr1 E1. unfold pos_of in *. cbn in *.
        destruct oc1; (split; [reflexivity | cbn; lia]).
      + split; [reflexivity | unfold pos_of; cbn; lia].
    - intros inl env pos _ _. cbn. split; [reflexivity | lia].
    - intros b IHb inl env pos Hl H. rewrite !exec_relse. cbn [opq_r] in *. apply IHb; assumption.
    - intros c t IHt r IHr inl env pos Hl H. cbn [loop_free_r] in Hl. apply andb_true_iff in Hl. destruct Hl as [Hl1 Hl2].
      cbn [opq_r] in H |- *. rewrite !exec_relif.
      destruct (eval_ext o1 o2 c env pos) as [E B]; [intros i Hi; apply H; lia|]. rewrite <- E.
      destruct (eval o1 c env pos) as [v p]. cbn [snd] in B. destruct v.
      + destruct (IHt inl env p Hl1) as [E2 B2]; [intros i Hi; apply H; lia|]. split; [exact E2 | lia].
      + destruct (IHr inl env p Hl2) as [E2 B2]; [intros i Hi; apply H; lia|]. split; [exact E2 | lia].
    - intros inl env pos _ _. cbn. split; [reflexivity | lia].
    - intros s IHs b IHb inl env pos Hl H. cbn [loop_free_b] in Hl. apply andb_true_iff in Hl. destruct Hl as [Hl1 Hl2].
      cbn [opq_b] in H |- *. rewrite !exec_bcons.
      destruct (IHs inl env pos Hl1) as [E B]; [intros i Hi; apply H; lia|]. rewrite <- E.
      dres (exec_stmt o1 fuel inl s env pos) as oc1 e1 p1 tr1 E1. unfold pos_of in B. cbn in B.
      destruct oc1; try (split; [reflexivity | unfold pos_of; cbn; lia]).
      destruct (IHb inl e1 p1 Hl2) as [E2 B2]; [intros i Hi; apply H; lia|]. rewrite <- E2.
      dres (exec_block o1 fuel inl b e1 p1) as oc2 e2 p2 tr2 E3. unfold pos_of in *. cbn in *. split; [reflexivity | lia].
  Qed.
End OracleExt.

Lemma all_lists_complete : forall k l, length l = k -> In l (all_lists k).
Proof.
  induction k as [|k IH]; intros l H.
  - destruct l; [left; reflexivity | discriminate].
  - destruct l as [|b r]; [discriminate|]. cbn in H. injection H as H'. cbn [all_lists]. apply in_flat_map. exists r. split; [apply IH; exact H'|].
    destruct b; cbn; tauto.
Qed.

Lemma oracle_of_prefix : forall (o : nat -> bool) k i, (i < k)%nat -> oracle_of (map o (seq 0 k)) i = o i.
Proof.
  intros o k i H. unfold oracle_of. rewrite nth_indep with (d' := o 0%nat) by (rewrite map_length, seq_length; exact H).
  rewrite map_nth. rewrite seq_nth by exact H. reflexivity.
Qed.

(** every execution of a loop-free program is the execution under one of the 2^k oracle lists, k = number of
    opaque conditions *)
Theorem reach_complete_lf : forall p o fuel,
  loop_free_b (body p) = true ->
  exists l, In l (all_lists (opq_b (body p))) /\ run (oracle_of l) fuel p = run o fuel p.
Proof.
  intros p o fuel Hlf. exists (map o (seq 0 (opq_b (body p)))). split.
  - apply all_lists_complete. rewrite map_length, seq_length. reflexivity.
  - unfold run. apply (proj2 (proj2 (exec_ext _ _ fuel))); [exact Hlf|].
    intros i Hi. apply oracle_of_prefix. lia.
Qed.

Theorem unreachable_never_runs_lf : forall p o fuel oc env' pos' tr id x,
  loop_free_b (body p) = true ->
  run o fuel p = (oc, env', pos', tr) ->
  (forall t, In (id, false, t) (infer_var p x) -> forall v, has v t = false) ->
  forall v fl, ~ In (id, x, v, fl) tr.
Proof.
  intros p o fuel oc env' pos' tr id x Hlf Hrun Hnever v fl Hin.
  destruct (narrowing_sound_lf p o fuel oc env' pos' tr Hlf Hrun id x v fl Hin) as [t [Ht [Hh _]]].
  rewrite (Hnever t Ht v) in Hh. discriminate.
Qed.

Definition example_prog : prog :=
  {| decls := [LInt 1];
     body := BCons (SIf (COpq 0) (BCons (SAssign 0 (LStr 0)) BNil) (RElif (COpq 1) (BCons (SAssign 0 LNil) BNil) RNone))
            (BCons (SIf (CType 0 TgStr) (BCons (SProbe 0 0) BNil)
                        (RElif (CVar 0) (BCons (SProbe 1 0) BNil) (RElse (BCons (SProbe 2 0) BNil))))
            (BCons (SProbe 3 0) BNil)) |}.

Lemma narrowing_example :
  let p := example_prog in
  loop_free_b (body p) = true /\
  map (fun '(id, _, t) => (id, map (fun v => has v t) [ANil; ANum; AStr])) (infer_var p 0) =
    [(0%N, [false; false; true]); (1%N, [false; true; false]); (2%N, [true; false; false]); (3%N, [true; true; true])] /\
  map (fun l => map (fun '(id, _, v, _) => (id, v)) (snd (run (oracle_of l) 0 p))) (all_lists 2) =
    [[(1%N, ANum); (3%N, ANum)]; [(0%N, AStr); (3%N, AStr)]; [(2%N, ANil); (3%N, ANil)]; [(0%N, AStr); (3%N, AStr)]].
Proof. vm_compute. repeat split; reflexivity. Qed.
