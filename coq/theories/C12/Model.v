(** C12/Model.v — the recursion guards that protect walks over user-defined, possibly cyclic structure.
    The type-check guard and the sub-type walks are modelled in EV.C16.Model (shared with C16); this
    file adds
      - [InferGuard] (crates/emmylua_code_analysis/src/semantic/guard.rs): fork / check over a heap of
        guard nodes (a child sees what its parents record later: the parents' sets are shared), and the
        shape of its clients ([infer_custom_type_raw_member_type] in semantic/member/infer_raw_member.rs:
        [guard.check(id)?] on entry, [guard.fork()] for every super type);
      - the skeleton of [TypeHumanizer] (db_index/type/humanize_type.rs): every descent goes through
        [write_type], which counts [depth] against [max_depth]; named types expand their fields behind
        a [visited] set.
    Executable definitions only. *)
From EV Require Export C16.Model.
Local Open Scope N_scope.

(** * InferGuard *)

(** a guard node: the ids recorded at this level ([current], lazily allocated in Rust: [None] = empty)
    and the parent guard *)
Record gnode := { g_cur : list N; g_parent : option nat }.

(** all guards allocated so far, newest first; the index of a node is the length of the list below it,
    so a parent is always older than its children *)
Definition heap := list gnode.

Definition nmemb (x : N) (l : list N) : bool := existsb (N.eqb x) l.

(** the ids visible from guard [g]: its own set and the sets of its parents ([contains_in_parents]) *)
Fixpoint vis (h : heap) (g : nat) : list N :=
  match h with
  | [] => []
  | nd :: tl =>
      if Nat.eqb g (length tl)
      then g_cur nd ++ match g_parent nd with Some p => vis tl p | None => [] end
      else vis tl g
  end.

Fixpoint ginsert (h : heap) (g : nat) (id : N) : heap :=
  match h with
  | [] => []
  | nd :: tl =>
      if Nat.eqb g (length tl)
      then {| g_cur := id :: g_cur nd; g_parent := g_parent nd |} :: tl
      else nd :: ginsert tl g id
  end.

(** [InferGuard::new] *)
Definition g_new (h : heap) : heap * nat := ({| g_cur := []; g_parent := None |} :: h, length h).
(** [InferGuard::fork] *)
Definition g_fork (h : heap) (g : nat) : heap * nat := ({| g_cur := []; g_parent := Some g |} :: h, length h).
(** [InferGuard::check]: [None] = [Err(RecursiveInfer)] *)
Definition g_check (h : heap) (g : nat) (id : N) : option heap :=
  if nmemb id (vis h g) then None else Some (ginsert h g id).

(** a client of the shape of [infer_custom_type_raw_member_type]: check the id on entry, then walk every
    successor with a forked guard.  The answer counts the cuts ([RecursiveInfer]); [None] = out of fuel. *)
Fixpoint walk (succ : N -> list N) (fuel : nat) (h : heap) (g : nat) (id : N) : option (heap * N) :=
  match fuel with
  | O => None
  | S f =>
      match g_check h g id with
      | None => Some (h, 1)
      | Some h1 =>
          (fix each (ss : list N) (h : heap) (cuts : N) : option (heap * N) :=
             match ss with
             | [] => Some (h, cuts)
             | s :: r =>
                 let '(h2, c) := g_fork h g in
                 match walk succ f h2 c s with
                 | None => None
                 | Some (h3, k) => each r h3 (cuts + k)
                 end
             end) (succ id) h1 0
      end
  end.

(** * TypeHumanizer skeleton *)

(** what is written: leaves, dots for a cut, nodes *)
Inductive doc : Type :=
| DLeaf
| DDots
| DName (id : N)
| DNode (ds : list doc).

Section Humanize.
  (** fields of the named types (the member index) *)
  Variable fields : N -> option (list ty).
  Variable max_depth : N.

  (** [write_type]: the depth guard, then the dispatcher; [fuel] only exists to make the definition
      structural — [humanize_terminates] shows [max_depth + 1] is always enough *)
  Fixpoint write_type (fuel : nat) (depth : N) (visited : list N) (t : ty) : option doc :=
    match fuel with
    | O => None
    | S f =>
        if max_depth <=? depth then Some DDots
        else
          let sub := write_type f (depth + 1) in
          let all (vis' : list N) (ts : list ty) : option doc :=
            (fix go (ts : list ty) (acc : list doc) : option doc :=
               match ts with
               | [] => Some (DNode (rev acc))
               | x :: r => match sub vis' x with Some d => go r (d :: acc) | None => None end
               end) ts [] in
          match t with
          | TBasic _ | TBoolConst _ _ | TStrConst _ _ | TIntConst _ _ => Some DLeaf
          | TArray b => all visited [b]
          | TTuple ts => all visited ts
          | TUnion _ _ ms => all visited ms
          | TFunc _ ps r =>
              all visited ((fix tys (ps : list (N * option ty)) : list ty :=
                              match ps with
                              | [] => []
                              | (_, Some t) :: r => t :: tys r
                              | (_, None) :: r => tys r
                              end) ps ++ [r])
          | TRef id =>
              (* write_ref_type -> write_simple_type: cycle detection, then the fields *)
              if nmemb id visited then Some (DName id)
              else match fields id with
                   | None => Some (DName id)
                   | Some fs => all (id :: visited) fs
                   end
          end
    end.
End Humanize.

(** * a counter-model: the cycle filter with ONE visited set for all parent edges of a class
    (what [get_super_types_iter] would be without its per-edge [visited.clear()]).  Not the code: used
    only to show that the per-edge reset is what makes the filtered graph acyclic. *)
Definition eff_supers_shared (G : world) (id : N) : option (list ty) :=
  match raw_supers G id with
  | None => None
  | Some sups =>
      (fix go (l : list ty) (visited : list N) : option (list ty) :=
         match l with
         | [] => Some []
         | s :: r =>
             match super_id s with
             | None => match go r visited with Some r' => Some (s :: r') | None => None end
             | Some x =>
                 match super_reaches G (dfs_fuel G) x id visited with
                 | None => None
                 | Some (c, visited') =>
                     match go r visited' with
                     | Some r' => Some (if c then r' else s :: r')
                     | None => None
                     end
                 end
             end
         end) sups []
  end.

(** the braid: A : P, B ; P : B ; B : Q, A ; Q : A   (A = 1, P = 2, B = 3, Q = 4) *)
Definition braid_world : world :=
  [(1, {| d_kind := DClass; d_supers := [TRef 2; TRef 3]; d_origin := None |});
   (2, {| d_kind := DClass; d_supers := [TRef 3]; d_origin := None |});
   (3, {| d_kind := DClass; d_supers := [TRef 4; TRef 1]; d_origin := None |});
   (4, {| d_kind := DClass; d_supers := [TRef 1]; d_origin := None |})].
