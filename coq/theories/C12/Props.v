(** C12/Props.v — property theorems only.  What is PROVED for "indexing and semantic queries never
    crash" is the termination / boundedness of the recursions that follow user-defined, possibly cyclic
    structure.  The totality of the rest of the analyzer is explored by the search, not proved.

    Models: EV.C16.Model (type check, sub-type walks; shared with C16), EV.C12.Model (InferGuard,
    humanizer skeleton).  [None] / [Diverge] are the models' "out of fuel" answers: the theorems say
    they never occur with the fuel the models compute from the world / the guard constants. *)
From Coq Require Import Relations.
From EV Require Import C16.Model C16.Spec C16.SubProofs C12.Model C12.Proofs.
Local Open Scope N_scope.

(** [is_sub_type_of] terminates on ANY finite declaration graph, cycles included ... *)
Theorem subtype_terminates : forall G sub sup, exists b, is_sub_type_of_opt G sub sup = Some b.
Proof. exact SubProofs.is_sub_type_of_total. Qed.

(** ... as does the recursive walk that filters the cyclic super edges ([LuaTypeIndex::super_reaches]) *)
Theorem super_reaches_terminates : forall G cur tgt,
  exists b v, super_reaches G (dfs_fuel G) cur tgt [] = Some (b, v).
Proof. exact Proofs.super_reaches_terminates. Qed.

(** ... and it computes the reflexive-transitive closure of the effective super edges, closed by one
    last edge to the target (a class reference or a primitive super type of that name) *)
Theorem subtype_is_rtc : forall G sub sup,
  is_sub_type_of_opt G sub sup = Some true <->
  (sub = sup \/ exists m, reach G sub m /\ hits G sup m).
Proof. exact SubProofs.is_sub_type_of_spec. Qed.

(** the graph that [get_super_types_iter] shows to every consumer is acyclic, whatever is declared:
    no class reaches itself through effective super edges.  (The per-edge reset of the visited set
    matters: with one set shared by all parent edges of a class the braid of [braid_example] keeps the
    cycle A -> B -> A.) *)
Theorem effective_supers_acyclic : forall G a, ~ clos_trans N (edge G) a a.
Proof. exact SubProofs.effective_supers_acyclic. Qed.

Example braid_example :
  eff_supers braid_world 1 = Some (Some []) /\ eff_supers braid_world 3 = Some (Some []) /\
  eff_supers_shared braid_world 1 = Some [TRef 3] /\ eff_supers_shared braid_world 3 = Some [TRef 1].
Proof. exact Proofs.braid_example. Qed.

(** the type-check recursion is at most MAX_TYPE_CHECK_LEVEL + 1 deep on ANY alias / class graph and any
    pair of types: with fuel for the levels the guard leaves, the model never runs out of fuel — a
    recursion that would go deeper answers [Err Recursion] (TypeCheckFailReason::TypeRecursion) *)
Theorem check_depth_bounded : forall G cf s c, check_type G cf s c <> Diverge.
Proof. exact Proofs.check_depth_bounded. Qed.

Theorem check_depth_bounded_gen : forall G cf rem lvl c,
  MAX_TYPE_CHECK_LEVEL <= N.of_nat rem + lvl -> check G cf rem lvl c <> Diverge.
Proof. exact Proofs.check_depth_bounded_gen. Qed.

(** InferGuard: an id checked on a guard is refused on that guard and on every guard forked from it, in
    every later state of the guard heap ... *)
Theorem guard_cycle_cut : forall h g id h1 h2, (g < length h)%nat ->
  g_check h g id = Some h1 -> later h1 h2 ->
  g_check h2 g id = None /\ g_check (fst (g_fork h2 g)) (snd (g_fork h2 g)) id = None.
Proof. exact Proofs.cut_persistent. Qed.

(** ... so a walk that checks before it descends terminates on every finite graph, however cyclic,
    with fuel |U| + 1 *)
Theorem guard_walk_terminates : forall succ U id,
  (forall x y, In y (succ x) -> In y U) -> In id U ->
  exists h' k, walk succ (S (length U)) (fst (g_new [])) (snd (g_new [])) id = Some (h', k).
Proof. exact Proofs.walk_terminates. Qed.

(** the humanizer's depth guard: DEFAULT_MAX_DEPTH + 1 nested calls of write_type at most, whatever the
    field graph of the named types *)
Theorem humanize_terminates : forall fields visited t,
  exists d, write_type fields HUMANIZE_MAX_DEPTH (S (N.to_nat HUMANIZE_MAX_DEPTH)) 0 visited t = Some d.
Proof. exact Proofs.humanize_terminates. Qed.

(** non-vacuity *)
Example subtype_cycle_example :
  is_sub_type_of_opt cyc_world 1 2 = Some false /\ is_sub_type_of_opt cyc_world 4 1 = Some true /\
  is_sub_type_of_opt cyc_world 4 3 = Some false /\ is_sub_type_of_opt cyc_world 4 nm_string = Some true.
Proof. exact Proofs.subtype_cycle_example. Qed.

Example recursion_error_example :
  check_type [(100, alias_decl (TArray (TRef 100)))] cfg_default (TRef 100) (TArray (TArray (TBasic BString))) = Err NotMatch /\
  check_type C16.Proofs.mutual_world cfg_default C16.Proofs.mutual_union C16.Proofs.mutual_union = Err Recursion.
Proof. exact Proofs.recursion_error_example. Qed.

Example walk_cycle_example :
  walk (fun x => if x =? 1 then [2] else if x =? 2 then [1] else []) 3 (fst (g_new [])) 0 1
  = Some ([{| g_cur := []; g_parent := Some 1%nat |}; {| g_cur := [2]; g_parent := Some 0%nat |};
           {| g_cur := [1]; g_parent := None |}], 1).
Proof. exact Proofs.walk_cycle_example. Qed.
