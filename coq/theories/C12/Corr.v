(** C12/Corr.v — executable comparison of the InferGuard model and of the humanizer's depth guard with
    observations of the implementation (harness `c16 guards` / `c16 humanize`). *)
From EV Require Import C16.Model C12.Model.
Local Open Scope N_scope.

(** ** InferGuard: the harness numbers the guards in creation order = the index of the heap node *)
Inductive gop : Type :=
| GNew
| GFork (g : nat)
| GCheck (g : nat) (id : N).

(** replay a program; answers of the checks in order ([true] = Ok) *)
Fixpoint run_ops (ops : list gop) (h : heap) : list bool :=
  match ops with
  | [] => []
  | GNew :: r => run_ops r (fst (g_new h))
  | GFork g :: r => run_ops r (fst (g_fork h g))
  | GCheck g id :: r =>
      match g_check h g id with
      | Some h' => true :: run_ops r h'
      | None => false :: run_ops r h
      end
  end.

Fixpoint bools_eqb (a b : list bool) : bool :=
  match a, b with
  | [], [] => true
  | x :: a', y :: b' => Bool.eqb x y && bools_eqb a' b'
  | _, _ => false
  end.

Record gcase := { gc_ops : list gop; gc_answers : list bool }.
Definition check_gcase (c : gcase) : bool := bools_eqb (run_ops (gc_ops c) []) (gc_answers c).

(** ** TypeHumanizer: does the rendering hit the depth guard *)
Fixpoint has_dots (d : doc) : bool :=
  match d with
  | DDots => true
  | DNode ds => existsb has_dots ds
  | _ => false
  end.

Record hcase := { hc_type : ty; hc_max_depth : N; hc_dots : bool }.

(** the named types of the harness world have no fields *)
Definition check_hcase (c : hcase) : bool :=
  match write_type (fun _ => None) (hc_max_depth c) (S (N.to_nat (hc_max_depth c))) 0 [] (hc_type c) with
  | Some d => Bool.eqb (has_dots d) (hc_dots c)
  | None => false
  end.
