(** C12/Proofs.v — lemmas: the InferGuard cuts every cycle (a walk that checks before it descends is at
    most as deep as there are ids), the humanizer's depth guard bounds its recursion. *)
From EV Require Import C16.Model C16.SubProofs C12.Model.
Local Open Scope N_scope.

(** * InferGuard *)

Lemma nmemb_In : forall x l, nmemb x l = true <-> In x l.
Proof. exact nmem_In. Qed.

Lemma ginsert_length : forall h g id, length (ginsert h g id) = length h.
Proof.
  induction h as [|nd tl IH]; intros g id; [reflexivity|]. cbn [ginsert].
  destruct (Nat.eqb g (length tl)); cbn [length]; [reflexivity|]. rewrite IH. reflexivity.
Qed.

(** recording an id never hides anything from any guard *)
Lemma ginsert_mono : forall h g id g2 x, In x (vis h g2) -> In x (vis (ginsert h g id) g2).
Proof.
  induction h as [|nd tl IH]; intros g id g2 x H; [exact H|].
  cbn [ginsert]. destruct (Nat.eqb g (length tl)) eqn:Eg.
  - cbn [vis] in *. destruct (Nat.eqb g2 (length tl)); [|exact H].
    cbn [g_cur g_parent]. cbn [app]. right. exact H.
  - cbn [vis] in *. rewrite ginsert_length. destruct (Nat.eqb g2 (length tl)); [|apply IH; exact H].
    apply in_app_or in H. apply in_or_app. destruct H as [H|H]; [left; exact H|right].
    destruct (g_parent nd); [apply IH; exact H|exact H].
Qed.

(** the guard that recorded the id sees it *)
Lemma ginsert_sees : forall h g id, (g < length h)%nat -> In id (vis (ginsert h g id) g).
Proof.
  induction h as [|nd tl IH]; intros g id Hg; cbn [length] in Hg; [lia|].
  cbn [ginsert]. destruct (Nat.eqb g (length tl)) eqn:Eg.
  - cbn [vis]. rewrite Eg. cbn [g_cur app]. left. reflexivity.
  - cbn [vis]. rewrite ginsert_length. rewrite Eg. apply IH. apply Nat.eqb_neq in Eg. lia.
Qed.

(** a later heap: at least as many guards, and every old guard sees at least what it saw *)
Definition later (h h' : heap) : Prop :=
  (length h <= length h')%nat /\ forall g x, (g < length h)%nat -> In x (vis h g) -> In x (vis h' g).

Lemma later_refl : forall h, later h h.
Proof. intros h. split; [lia|auto]. Qed.

Lemma later_trans : forall a b c, later a b -> later b c -> later a c.
Proof.
  intros a b c [L1 M1] [L2 M2]. split; [lia|]. intros g x Hg Hx. apply M2; [lia|]. apply M1; assumption.
Qed.

Lemma later_insert : forall h g id, later h (ginsert h g id).
Proof. intros h g id. split; [rewrite ginsert_length; lia|]. intros g2 x _ Hx. apply ginsert_mono. exact Hx. Qed.

Lemma vis_old : forall nd h g, (g < length h)%nat -> vis (nd :: h) g = vis h g.
Proof.
  intros nd h g Hg. cbn [vis]. destruct (Nat.eqb g (length h)) eqn:E; [|reflexivity].
  apply Nat.eqb_eq in E. lia.
Qed.

Lemma later_cons : forall h nd, later h (nd :: h).
Proof. intros h nd. split; [cbn [length]; lia|]. intros g x Hg Hx. rewrite vis_old; assumption. Qed.

(** a forked guard starts with exactly what its parent sees *)
Lemma fork_vis : forall h g, vis (fst (g_fork h g)) (snd (g_fork h g)) = vis h g.
Proof. intros h g. cbn [g_fork fst snd vis]. rewrite Nat.eqb_refl. reflexivity. Qed.

(** [check] fails exactly on the ids the guard sees *)
Lemma g_check_none : forall h g id, g_check h g id = None <-> In id (vis h g).
Proof.
  intros h g id. unfold g_check. rewrite <- nmemb_In. destruct (nmemb id (vis h g)); split; congruence.
Qed.

(** once an id has been checked on a guard it is cut on that guard for ever, and on every guard forked
    from it afterwards *)
Lemma cut_persistent : forall h g id h1 h2, (g < length h)%nat ->
  g_check h g id = Some h1 -> later h1 h2 ->
  g_check h2 g id = None /\ g_check (fst (g_fork h2 g)) (snd (g_fork h2 g)) id = None.
Proof.
  intros h g id h1 h2 Hg Hc [Hl Hm]. unfold g_check in Hc. destruct (nmemb id (vis h g)); [discriminate|].
  inversion Hc; subst h1. rewrite ginsert_length in *.
  assert (In id (vis h2 g)) by (apply Hm; [exact Hg|apply ginsert_sees; exact Hg]).
  split; apply g_check_none; [exact H|]. rewrite fork_vis. exact H.
Qed.

(** ** a checking walk terminates on every finite graph *)

Section Walk.
  Variable succ : N -> list N.
  Variable U : list N.
  Hypothesis HU : forall x y, In y (succ x) -> In y U.
  Hypothesis ND : NoDup U.

  Lemma rest_strict : forall v w x, (forall y, In y v -> In y w) -> In x w -> ~ In x v -> In x U ->
    (S (rest U w) <= rest U v)%nat.
  Proof.
    intros v w x Hsub Hw Hv Hx.
    pose proof (rest_cons_lt U x v ND Hx Hv) as H1.
    assert (H2 : (rest U w <= rest U (x :: v))%nat).
    { apply rest_mono. intros y [<-|Hy]; [exact Hw|apply Hsub; exact Hy]. }
    lia.
  Qed.

  Lemma walk_total : forall fuel h g id,
    (g < length h)%nat -> In id U -> (rest U (vis h g) < fuel)%nat ->
    exists h' k, walk succ fuel h g id = Some (h', k) /\ later h h'.
  Proof.
    induction fuel as [|f IH]; intros h g id Hg Hid Hf; [lia|].
    cbn [walk]. unfold g_check. destruct (nmemb id (vis h g)) eqn:Em.
    - exists h, 1. split; [reflexivity|apply later_refl].
    - apply nmem_false in Em.
      set (h1 := ginsert h g id).
      assert (L1 : later h h1) by apply later_insert.
      assert (Hf1 : (rest U (vis h1 g) < f)%nat).
      { pose proof (rest_strict (vis h g) (vis h1 g) id) as H.
        assert (S (rest U (vis h1 g)) <= rest U (vis h g))%nat; [|lia].
        apply H; auto.
        - intros y Hy. apply ginsert_mono. exact Hy.
        - apply ginsert_sees. exact Hg. }
      assert (Hss : forall s, In s (succ id) -> In s U) by (intros s Hs; eapply HU; exact Hs).
      generalize (0 : N) as cuts. revert L1 Hf1 Hss. generalize h1 as hc. generalize (succ id) as ss.
      induction ss as [|s r IHr]; intros hc L1 Hf1 Hss cuts.
      + exists hc, cuts. split; [reflexivity|exact L1].
      + cbn [g_fork].
        assert (Hgc : (g < length hc)%nat) by (destruct L1; lia).
        set (h2 := {| g_cur := []; g_parent := Some g |} :: hc).
        assert (Hv : vis h2 (length hc) = vis hc g) by (exact (fork_vis hc g)).
        destruct (IH h2 (length hc) s) as (h3 & k & E & L3).
        * unfold h2. cbn [length]. lia.
        * apply Hss. left; reflexivity.
        * rewrite Hv. exact Hf1.
        * rewrite E. assert (L2 : later hc h3) by (eapply later_trans; [apply later_cons|exact L3]).
          apply IHr.
          -- eapply later_trans; [exact L1|exact L2].
          -- destruct L2 as [_ M2]. pose proof (rest_mono U (vis hc g) (vis h3 g) (fun y Hy => M2 g y Hgc Hy)). lia.
          -- intros s' Hs'. apply Hss. right; exact Hs'.
  Qed.
End Walk.

(** * TypeHumanizer *)

Lemma write_type_total : forall fields max_depth fuel depth visited t,
  depth <= max_depth -> max_depth + 1 <= N.of_nat fuel + depth ->
  exists d, write_type fields max_depth fuel depth visited t = Some d.
Proof.
  intros fields max_depth fuel. induction fuel as [|f IH]; intros depth visited t Hd Hf.
  - cbn [N.of_nat] in Hf. lia.
  - cbn [write_type]. destruct (N.leb_spec max_depth depth) as [Hge|Hlt]; [eexists; reflexivity|].
    assert (Hsub : forall v x, exists d, write_type fields max_depth f (depth + 1) v x = Some d).
    { intros v x. apply IH; lia. }
    assert (Hall : forall v ts acc, exists d,
              (fix go (ts : list ty) (acc : list doc) : option doc :=
                 match ts with
                 | [] => Some (DNode (rev acc))
                 | x :: r => match write_type fields max_depth f (depth + 1) v x with
                             | Some d => go r (d :: acc)
                             | None => None
                             end
                 end) ts acc = Some d).
    { intros v ts. induction ts as [|x r IHr]; intros acc; [eexists; reflexivity|].
      destruct (Hsub v x) as (d & ->). apply IHr. }
    destruct t; try (eexists; reflexivity); try apply Hall.
    all: try (destruct (nmemb id visited); [eexists; reflexivity|];
              destruct (fields id); [apply Hall|eexists; reflexivity]).
    destruct (Hsub visited t) as (d & ->). eexists; reflexivity.
Qed.

(** * statements exported by Props.v *)
From Coq Require Import Relations.
From EV Require Import C16.Spec C16.CheckProofs C16.Proofs.

Lemma check_depth_bounded : forall G cf s c, check_type G cf s c <> Diverge.
Proof. intros G cf s c. unfold check_type. apply check_nd. lia. Qed.

Lemma check_depth_bounded_gen : forall G cf rem lvl c,
  MAX_TYPE_CHECK_LEVEL <= N.of_nat rem + lvl -> check G cf rem lvl c <> Diverge.
Proof. exact check_nd. Qed.

Lemma super_reaches_terminates : forall G cur tgt,
  exists b v, super_reaches G (dfs_fuel G) cur tgt [] = Some (b, v).
Proof.
  intros G cur tgt. destruct (super_reaches_total G (dfs_fuel G) cur tgt [] (dfs_fuel_enough G [])) as (b & v & E & _).
  eauto.
Qed.

Lemma walk_terminates : forall succ U id,
  (forall x y, In y (succ x) -> In y U) -> In id U ->
  exists h' k, walk succ (S (length U)) (fst (g_new [])) (snd (g_new [])) id = Some (h', k).
Proof.
  intros succ U id HU Hid.
  destruct (walk_total succ (nodup N.eq_dec U)) with (fuel := S (length U)) (h := fst (g_new [])) (g := snd (g_new [])) (id := id)
    as (h' & k & E & _).
  - intros x y Hy. apply nodup_In. eapply HU. exact Hy.
  - apply NoDup_nodup.
  - cbn. lia.
  - apply nodup_In. exact Hid.
  - pose proof (rest_le_length (nodup N.eq_dec U) (vis (fst (g_new [])) (snd (g_new [])))) as H1.
    assert (length (nodup N.eq_dec U) <= length U)%nat.
    { clear. induction U as [|x r IH]; cbn [nodup length]; [lia|]. destruct (in_dec N.eq_dec x r); cbn [length]; lia. }
    lia.
  - eauto.
Qed.

(** on a cycle the walk reports the cut instead of descending: the 2-cycle a <-> b is cut exactly once *)
Lemma walk_cycle_example :
  walk (fun x => if x =? 1 then [2] else if x =? 2 then [1] else []) 3 (fst (g_new [])) 0 1
  = Some ([{| g_cur := []; g_parent := Some 1%nat |}; {| g_cur := [2]; g_parent := Some 0%nat |};
           {| g_cur := [1]; g_parent := None |}], 1).
Proof. vm_compute. reflexivity. Qed.

Lemma humanize_terminates : forall fields visited t,
  exists d, write_type fields HUMANIZE_MAX_DEPTH (S (N.to_nat HUMANIZE_MAX_DEPTH)) 0 visited t = Some d.
Proof. intros. apply write_type_total; lia. Qed.

(** the recursion error, not divergence, on a self-referential alias: R = R[] against string[] *)
Lemma recursion_error_example :
  check_type [(100, alias_decl (TArray (TRef 100)))] cfg_default (TRef 100) (TArray (TArray (TBasic BString))) = Err NotMatch /\
  check_type mutual_world cfg_default mutual_union mutual_union = Err Recursion.
Proof. vm_compute. split; reflexivity. Qed.

(** a cyclic class graph: 1 : 2, 2 : 3, 3 : 1, 4 : 1 — the cyclic edges are dropped, 4 still reaches 1 *)
Definition cyc_world : world :=
  [(1, class_decl [TRef 2]); (2, class_decl [TRef 3]); (3, class_decl [TRef 1]); (4, class_decl [TRef 1; TBasic BString])].
Lemma subtype_cycle_example :
  is_sub_type_of_opt cyc_world 1 2 = Some false /\ is_sub_type_of_opt cyc_world 4 1 = Some true /\
  is_sub_type_of_opt cyc_world 4 3 = Some false /\ is_sub_type_of_opt cyc_world 4 nm_string = Some true.
Proof. vm_compute. repeat split; reflexivity. Qed.

(** the braid: the code's filter (fresh visited set per edge) drops every edge of the cycles; with one
    shared visited set the edges A -> B and B -> A would both survive *)
Lemma braid_example :
  eff_supers braid_world 1 = Some (Some []) /\ eff_supers braid_world 3 = Some (Some []) /\
  eff_supers_shared braid_world 1 = Some [TRef 3] /\ eff_supers_shared braid_world 3 = Some [TRef 1].
Proof. vm_compute. repeat split; reflexivity. Qed.
