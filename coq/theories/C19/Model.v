(** C19/Model.v — transcription of the diagnostic-suppression kernel of emmylua_code_analysis:
      - [DiagnosticAction::is_match] / [is_in_scope]
            (crates/emmylua_code_analysis/src/db_index/diagnostic/diagnostic_action.rs)
      - [DiagnosticIndex] (…/db_index/diagnostic/mod.rs): the per-file action vector and the
            file-level disabled / enabled code sets
      - [analyze_diagnostic{,_disable,_disable_next_line,_disable_line,_enable}]
            (…/compilation/analyzer/doc/diagnostic_tags.rs): scope construction over the line index
      - [DiagnosticContext::{should_report_diagnostic, anchor_range, is_checker_enable_by_code}]
            (…/diagnostic/checker/mod.rs)
    over the line-index model of C22 ([parse], [get_line], [get_line_range]).
    The parser is not modelled: a [tag] carries what the analyzer reads off the syntax tree (the
    comment's range, the owner block's range, whether that block is the chunk's, the code list).
    Diagnostic codes are [N] (position in [DiagnosticCode::all()]).
    Executable definitions only. *)
From EV Require Export C22.Model.
Local Open Scope N_scope.

(** * rowan [TextRange] operations used by the kernel *)

(** [TextRange::intersect]: [Some] also when the ranges merely touch *)
Definition intersect (r1 r2 : N * N) : option (N * N) :=
  let s := N.max (fst r1) (fst r2) in
  let e := N.min (snd r1) (snd r2) in
  if e <? s then None else Some (s, e).

(** [TextRange::contains(offset)] *)
Definition contains (r : N * N) (o : N) : bool := (fst r <=? o) && (o <? snd r).

Definition is_empty (r : N * N) : bool := fst r =? snd r.

(** * [DiagnosticAction] *)

Inductive akind :=
| KDisable (code : N)
| KEnable (code : N)      (* "donot use this": never constructed by the analyzer *)
| KDisableAll.

Record action := { a_range : N * N; a_kind : akind }.

(** [DiagnosticAction::is_in_scope]: the diagnostic range must share at least one character
    with the action's range; an empty range counts when the scope contains its position *)
Definition is_in_scope (scope range : N * N) : bool :=
  if is_empty range then contains scope (fst range)
  else match intersect scope range with
       | Some common => negb (is_empty common)
       | None => false
       end.

(** [DiagnosticAction::is_match] *)
Definition is_match (act : action) (is_disable : bool) (range : N * N) (code : N) : bool :=
  if negb (is_in_scope (a_range act) range) then false
  else match a_kind act, is_disable with
       | KDisable c, true => c =? code
       | KEnable c, false => c =? code
       | KDisableAll, true => true
       | _, _ => false
       end.

(** * [DiagnosticIndex] restricted to one file *)

Record dstate := {
  actions : list action;        (* diagnostic_actions[file], in push order *)
  file_disabled : list N;       (* file_diagnostic_disabled[file] (a set) *)
  file_enabled : list N         (* file_diagnostic_enabled[file] (a set) *)
}.

Definition empty_state : dstate := {| actions := []; file_disabled := []; file_enabled := [] |}.

Definition memN (c : N) (l : list N) : bool := existsb (N.eqb c) l.

Definition add_diagnostic_action (st : dstate) (a : action) : dstate :=
  {| actions := actions st ++ [a]; file_disabled := file_disabled st; file_enabled := file_enabled st |}.

Definition add_file_diagnostic_disabled (st : dstate) (c : N) : dstate :=
  {| actions := actions st; file_disabled := c :: file_disabled st; file_enabled := file_enabled st |}.

Definition add_file_diagnostic_enabled (st : dstate) (c : N) : dstate :=
  {| actions := actions st; file_disabled := file_disabled st; file_enabled := c :: file_enabled st |}.

(** [is_file_diagnostic_code_disabled] *)
Definition code_disabled (st : dstate) (range : N * N) (code : N) : bool :=
  existsb (fun act => is_match act true range code) (actions st).

Definition is_file_disabled (st : dstate) (code : N) : bool := memN code (file_disabled st).
Definition is_file_enabled (st : dstate) (code : N) : bool := memN code (file_enabled st).

(** * scope construction (diagnostic_tags.rs) *)

Inductive tkind := TDisable | TDisableNextLine | TDisableLine | TEnable | TOther.

Record tag := {
  t_kind : tkind;                 (* the action token's text *)
  t_comment : N * N;              (* analyzer.comment.get_range() *)
  t_block : option (N * N);       (* comment.ancestors::<LuaBlock>().next() . get_range() *)
  t_top : bool;                   (* owner_block.get_parent::<LuaChunk>().is_some() *)
  t_codes : option (list N)       (* get_code_list() . get_codes() mapped through from_str *)
}.

(** the common tail of the three [disable…] functions: one [Disable(code)] action per listed
    code, or a single [DisableAll] when there is no code list *)
Definition add_disable_actions (st : dstate) (range : N * N) (codes : option (list N)) : dstate :=
  match codes with
  | Some cs => fold_left (fun s c => add_diagnostic_action s {| a_range := range; a_kind := KDisable c |}) cs st
  | None => add_diagnostic_action st {| a_range := range; a_kind := KDisableAll |}
  end.

(** [valid_range] of [analyze_diagnostic_disable_next_line]: from the comment's start to the end
    of the line after the comment's last line; when that line does not exist (or is the empty last
    line) the scope ends with the comment's own last line.  [TextRange::new] asserts
    [start <= end] — see [Proofs.next_line_range_ordered]. *)
Definition next_line_range (li : line_index) (t : text) (comment : N * N) : option (N * N) :=
  match get_line li (snd comment) with
  | None => None
  | Some l =>
      match (match get_line_range li t (l + 1) with
             | Some r => Some r
             | None => get_line_range li t l
             end) with
      | Some r => Some (fst comment, snd r)
      | None => None
      end
  end.

(** [valid_range] of [analyze_diagnostic_disable_line] *)
Definition line_range (li : line_index) (t : text) (comment : N * N) : option (N * N) :=
  match get_line li (snd comment) with
  | None => None
  | Some l => get_line_range li t l
  end.

(** the byte range in which a tag suppresses diagnostics through an action; [None] for tags that
    act through the file-level sets or not at all *)
Definition tag_scope (li : line_index) (t : text) (tg : tag) : option (N * N) :=
  match t_kind tg with
  | TDisableNextLine => next_line_range li t (t_comment tg)
  | TDisableLine => line_range li t (t_comment tg)
  | TDisable =>
      match t_block tg with
      | None => None
      | Some b => match t_codes tg with
                  | Some _ => if t_top tg then None else Some b
                  | None => Some b
                  end
      end
  | TEnable | TOther => None
  end.

(** [analyze_diagnostic] *)
Definition analyze_tag (li : line_index) (t : text) (st : dstate) (tg : tag) : dstate :=
  match t_kind tg with
  | TDisable =>
      match t_block tg with
      | None => st
      | Some b =>
          match t_codes tg with
          | Some cs =>
              if t_top tg then fold_left add_file_diagnostic_disabled cs st
              else add_disable_actions st b (Some cs)
          | None => add_disable_actions st b None
          end
      end
  | TDisableNextLine =>
      match next_line_range li t (t_comment tg) with
      | Some r => add_disable_actions st r (t_codes tg)
      | None => st
      end
  | TDisableLine =>
      match line_range li t (t_comment tg) with
      | Some r => add_disable_actions st r (t_codes tg)
      | None => st
      end
  | TEnable =>
      match t_codes tg with
      | Some cs => fold_left add_file_diagnostic_enabled cs st
      | None => st
      end
  | TOther => st
  end.

(** all the [@diagnostic] tags of one file *)
Definition analyze (t : text) (tags : list tag) : dstate :=
  fold_left (analyze_tag (parse t) t) tags empty_state.

(** * reporting (diagnostic/checker/mod.rs) *)

(** [anchor_range]: an empty range at the very end of the file stands for the last character *)
Definition anchor_range (len : N) (range : N * N) : N * N :=
  if is_empty range && (fst range =? len) && (0 <? len) then (len - 1, len) else range.

(** [should_report_diagnostic] *)
Definition should_report (st : dstate) (len : N) (range : N * N) (code : N) : bool :=
  negb (code_disabled st (anchor_range len range) code).

(** the part of the configuration [is_checker_enable_by_code] consults *)
Record config := {
  workspace_disabled : N -> bool;
  is_meta_file : bool;
  workspace_enabled : N -> bool;
  default_enable : N -> bool
}.

(** [is_checker_enable_by_code] *)
Definition is_checker_enable_by_code (st : dstate) (cfg : config) (code : N) : bool :=
  if is_file_enabled st code then true
  else if workspace_disabled cfg code then false
  else if is_meta_file cfg then false
  else if is_file_disabled st code then false
  else if workspace_enabled cfg code then true
  else default_enable cfg code.

(** the two guards of [add_diagnostic]: is a diagnostic with this range and code kept? *)
Definition reports (st : dstate) (cfg : config) (len : N) (range : N * N) (code : N) : bool :=
  is_checker_enable_by_code st cfg code && should_report st len range code.

(** * vocabulary of the property statements *)

(** the tag names the code (no code list = every code) *)
Definition tag_lists (tg : tag) (code : N) : Prop :=
  match t_codes tg with None => True | Some cs => In code cs end.

Definition tag_listsb (tg : tag) (code : N) : bool :=
  match t_codes tg with None => true | Some cs => memN code cs end.

(** the byte positions a diagnostic range is shown on: its characters; its position when it is
    empty; the last character when it is empty at the end of the file *)
Definition occupies (len : N) (range : N * N) (x : N) : Prop :=
  let r := anchor_range len range in
  (fst r = snd r /\ x = fst r) \/ (fst r <= x /\ x < snd r).

(** line of a byte position *)
Definition line_of (t : text) (x : N) : option N := get_line (parse t) x.

(** a comment range inside the text that does not end with a line break *)
Definition comment_ok (t : text) (c : N * N) : Prop :=
  fst c < snd c /\ snd c <= bytes t /\ line_of t (snd c - 1) = line_of t (snd c).

(** well-formed tag: line-scoped tags have a well-formed comment range *)
Definition tag_ok (t : text) (tg : tag) : Prop :=
  match t_kind tg with
  | TDisableNextLine | TDisableLine => comment_ok t (t_comment tg)
  | _ => True
  end.

(** "the diagnostic lies within the tag's scope": every position it occupies is
    - [disable-next-line]: on the comment or after it, and on a line up to the one directly after
      the comment's last line;
    - [disable-line]: on the comment's (last) line;
    - [disable] in a nested block, or at top level without a code list: inside the owner block.
    ([disable: codes] at top level acts on the whole file through the file-level set and is the
    subject of a separate theorem.) *)
Definition inside (t : text) (tg : tag) (range : N * N) : Prop :=
  match t_kind tg with
  | TDisableNextLine =>
      exists l, line_of t (snd (t_comment tg)) = Some l /\
      forall x, occupies (bytes t) range x ->
                fst (t_comment tg) <= x /\ exists lx, line_of t x = Some lx /\ lx <= l + 1
  | TDisableLine =>
      exists l, line_of t (snd (t_comment tg)) = Some l /\
      forall x, occupies (bytes t) range x -> line_of t x = Some l
  | TDisable =>
      match t_block tg with
      | None => False
      | Some b => match t_codes tg, t_top tg with
                  | Some _, true => False   (* file-level set: see [file_level_suppressed] *)
                  | _, _ => forall x, occupies (bytes t) range x -> fst b <= x /\ x < snd b
                  end
      end
  | TEnable | TOther => False
  end.

(** "the diagnostic shares nothing with the tag's scope": every position it occupies is
    - [disable-next-line]: before the comment, or on a line after the one that follows the comment;
    - [disable-line]: on another line;
    - block-scoped [disable]: outside the owner block;
    - file-scoped [disable: codes]: never (the whole file is the scope). *)
Definition outside (t : text) (tg : tag) (range : N * N) : Prop :=
  match t_kind tg with
  | TDisableNextLine =>
      exists l, line_of t (snd (t_comment tg)) = Some l /\
      forall x, occupies (bytes t) range x ->
                x < fst (t_comment tg) \/ exists lx, line_of t x = Some lx /\ l + 1 < lx
  | TDisableLine =>
      exists l, line_of t (snd (t_comment tg)) = Some l /\
      forall x, occupies (bytes t) range x -> exists lx, line_of t x = Some lx /\ lx <> l
  | TDisable =>
      match t_block tg with
      | None => True
      | Some b => match t_codes tg, t_top tg with
                  | Some _, true => False
                  | _, _ => forall x, occupies (bytes t) range x -> x < fst b \/ snd b <= x
                  end
      end
  | TEnable => t_codes tg = None   (* [enable: codes] force-enables the listed codes in the whole file *)
  | TOther => True
  end.
