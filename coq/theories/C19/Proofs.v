(** C19/Proofs.v — lemmas about the suppression kernel (C19/Model.v). *)
From EV Require Import Base.TextFacts C19.Model.
From Coq Require Import Sorting.Sorted.
Local Open Scope N_scope.

(** * A. the range kernel *)

(** positions occupied by an (already anchored) range *)
Definition occ (r : N * N) (x : N) : Prop :=
  (fst r = snd r /\ x = fst r) \/ (fst r <= x /\ x < snd r).

Lemma occupies_occ : forall len range x, occupies len range x <-> occ (anchor_range len range) x.
Proof. intros. unfold occupies, occ. tauto. Qed.

Ltac minmax lo a hi b :=
  destruct (N.max_spec lo a) as [[? ?]|[? ?]]; destruct (N.min_spec hi b) as [[? ?]|[? ?]]; lia.

Lemma in_scope_iff : forall scope r,
  is_in_scope scope r = true <-> exists x, occ r x /\ fst scope <= x /\ x < snd scope.
Proof.
  intros [lo hi] [a b]. unfold is_in_scope, is_empty, contains, intersect, occ. cbn [fst snd].
  destruct (N.eqb_spec a b) as [E|E].
  - subst b. split.
    + intros H. apply andb_true_iff in H. destruct H as [H1 H2].
      apply N.leb_le in H1. apply N.ltb_lt in H2. exists a. split; [left; split; reflexivity|lia].
    + intros [x [[[_ Hx]|[H1 H2]] [H3 H4]]]; [subst x|lia].
      apply andb_true_iff. split; [apply N.leb_le; lia|apply N.ltb_lt; lia].
  - destruct (N.ltb_spec (N.min hi b) (N.max lo a)) as [L|L].
    + split; [discriminate|]. intros [x [[[Hab _]|[H1 H2]] [H3 H4]]]; [congruence|minmax lo a hi b].
    + cbn [fst snd]. destruct (N.eqb_spec (N.max lo a) (N.min hi b)) as [E2|E2]; cbn [negb].
      * split; [discriminate|]. intros [x [[[Hab _]|[H1 H2]] [H3 H4]]]; [congruence|minmax lo a hi b].
      * split; [intros _|reflexivity]. exists (N.max lo a). split; [right; minmax lo a hi b|minmax lo a hi b].
Qed.

Lemma touching_not_in_scope : forall lo hi a b,
  (a < b /\ b <= lo) \/ (a = b /\ a < lo) \/ hi <= a -> is_in_scope (lo, hi) (a, b) = false.
Proof.
  intros lo hi a b H. destruct (is_in_scope (lo, hi) (a, b)) eqn:E; [|reflexivity].
  apply in_scope_iff in E. destruct E as [x [[[H1 H2]|[H1 H2]] [H3 H4]]]; cbn [fst snd] in *; lia.
Qed.

Lemma is_match_disable_iff : forall act range code,
  is_match act true range code = true <->
  is_in_scope (a_range act) range = true /\ (a_kind act = KDisable code \/ a_kind act = KDisableAll).
Proof.
  intros act range code. unfold is_match.
  destruct (is_in_scope (a_range act) range); cbn [negb].
  - destruct (a_kind act) as [c|c|].
    + destruct (N.eqb_spec c code) as [E|E].
      * subst. split; [intros _; split; [reflexivity|left; reflexivity]|reflexivity].
      * split; [discriminate|]. intros [_ [H|H]]; [inversion H; congruence|discriminate].
    + split; [discriminate|]. intros [_ [H|H]]; discriminate.
    + split; [intros _; split; [reflexivity|right; reflexivity]|reflexivity].
  - split; [discriminate|]. intros [H _]. discriminate.
Qed.

(** * B. accumulation of actions and file-level sets *)

Lemma fold_add_action_actions : forall r cs st act,
  In act (actions (fold_left (fun s c => add_diagnostic_action s {| a_range := r; a_kind := KDisable c |}) cs st)) <->
  In act (actions st) \/ exists c, In c cs /\ act = {| a_range := r; a_kind := KDisable c |}.
Proof.
  intros r cs. induction cs as [|c cs IH]; intros st act; cbn [fold_left].
  - split; [intros H; left; exact H|]. intros [H|[c [[] _]]]. exact H.
  - rewrite IH. unfold add_diagnostic_action at 1. cbn [actions]. rewrite in_app_iff. cbn [In]. split.
    + intros [[H|[H|[]]]|[c' [H1 H2]]].
      * left. exact H.
      * right. exists c. split; [left; reflexivity|symmetry; exact H].
      * right. exists c'. split; [right; exact H1|exact H2].
    + intros [H|[c' [[H1|H1] H2]]].
      * left. left. exact H.
      * subst c'. left. right. left. symmetry. exact H2.
      * right. exists c'. split; assumption.
Qed.

Lemma fold_add_action_sets : forall r cs st,
  file_disabled (fold_left (fun s c => add_diagnostic_action s {| a_range := r; a_kind := KDisable c |}) cs st) = file_disabled st /\
  file_enabled (fold_left (fun s c => add_diagnostic_action s {| a_range := r; a_kind := KDisable c |}) cs st) = file_enabled st.
Proof.
  intros r cs. induction cs as [|c cs IH]; intros st; cbn [fold_left]; [split; reflexivity|].
  destruct (IH (add_diagnostic_action st {| a_range := r; a_kind := KDisable c |})) as [H1 H2].
  rewrite H1, H2. split; reflexivity.
Qed.

(** the action a tag with scope [r] contributes *)
Definition act_of (tg : tag) (r : N * N) (act : action) : Prop :=
  a_range act = r /\
  match t_codes tg with
  | Some cs => exists c, In c cs /\ a_kind act = KDisable c
  | None => a_kind act = KDisableAll
  end.

Lemma add_disable_actions_actions : forall st r codes act,
  In act (actions (add_disable_actions st r codes)) <->
  In act (actions st) \/
  (a_range act = r /\ match codes with
                      | Some cs => exists c, In c cs /\ a_kind act = KDisable c
                      | None => a_kind act = KDisableAll
                      end).
Proof.
  intros st r codes act. unfold add_disable_actions. destruct codes as [cs|].
  - rewrite fold_add_action_actions. split.
    + intros [H|[c [H1 H2]]]; [left; exact H|]. right. subst act. cbn. split; [reflexivity|]. exists c. split; [exact H1|reflexivity].
    + intros [H|[H1 [c [H2 H3]]]]; [left; exact H|]. right. exists c. split; [exact H2|].
      destruct act as [ar ak]. cbn in *. subst. reflexivity.
  - unfold add_diagnostic_action. cbn [actions]. rewrite in_app_iff. cbn [In]. split.
    + intros [H|[H|[]]]; [left; exact H|]. right. subst act. cbn. split; reflexivity.
    + intros [H|[H1 H2]]; [left; exact H|]. right. left. destruct act as [ar ak]. cbn in *. subst. reflexivity.
Qed.

Lemma add_disable_actions_sets : forall st r codes,
  file_disabled (add_disable_actions st r codes) = file_disabled st /\
  file_enabled (add_disable_actions st r codes) = file_enabled st.
Proof.
  intros st r [cs|]; unfold add_disable_actions; [apply fold_add_action_sets|split; reflexivity].
Qed.

Lemma fold_file_disabled : forall cs st,
  actions (fold_left add_file_diagnostic_disabled cs st) = actions st /\
  file_enabled (fold_left add_file_diagnostic_disabled cs st) = file_enabled st /\
  forall c, In c (file_disabled (fold_left add_file_diagnostic_disabled cs st)) <-> In c (file_disabled st) \/ In c cs.
Proof.
  induction cs as [|c0 cs IH]; intros st; cbn [fold_left].
  - split; [reflexivity|]. split; [reflexivity|]. intros c. cbn [In]. tauto.
  - destruct (IH (add_file_diagnostic_disabled st c0)) as [H1 [H2 H3]].
    rewrite H1, H2. split; [reflexivity|]. split; [reflexivity|].
    intros c. rewrite H3. cbn [add_file_diagnostic_disabled file_disabled In]. intuition congruence.
Qed.

Lemma fold_file_enabled : forall cs st,
  actions (fold_left add_file_diagnostic_enabled cs st) = actions st /\
  file_disabled (fold_left add_file_diagnostic_enabled cs st) = file_disabled st /\
  forall c, In c (file_enabled (fold_left add_file_diagnostic_enabled cs st)) <-> In c (file_enabled st) \/ In c cs.
Proof.
  induction cs as [|c0 cs IH]; intros st; cbn [fold_left].
  - split; [reflexivity|]. split; [reflexivity|]. intros c. cbn [In]. tauto.
  - destruct (IH (add_file_diagnostic_enabled st c0)) as [H1 [H2 H3]].
    rewrite H1, H2. split; [reflexivity|]. split; [reflexivity|].
    intros c. rewrite H3. cbn [add_file_diagnostic_enabled file_enabled In]. intuition congruence.
Qed.

(** what a tag adds to the file-level sets *)
Definition file_dis_tag (tg : tag) (c : N) : Prop :=
  t_kind tg = TDisable /\ t_block tg <> None /\ t_top tg = true /\ exists cs, t_codes tg = Some cs /\ In c cs.

Definition file_en_tag (tg : tag) (c : N) : Prop :=
  t_kind tg = TEnable /\ exists cs, t_codes tg = Some cs /\ In c cs.

Lemma analyze_tag_spec : forall li t st tg,
  (forall act, In act (actions (analyze_tag li t st tg)) <->
               In act (actions st) \/ exists r, tag_scope li t tg = Some r /\ act_of tg r act) /\
  (forall c, In c (file_disabled (analyze_tag li t st tg)) <-> In c (file_disabled st) \/ file_dis_tag tg c) /\
  (forall c, In c (file_enabled (analyze_tag li t st tg)) <-> In c (file_enabled st) \/ file_en_tag tg c).
Proof.
  intros li t st tg. unfold analyze_tag, tag_scope, act_of, file_dis_tag, file_en_tag.
  destruct (t_kind tg) eqn:K.
  - (* disable *)
    destruct (t_block tg) as [b|] eqn:B.
    + destruct (t_codes tg) as [cs|] eqn:C.
      * destruct (t_top tg) eqn:T.
        -- destruct (fold_file_disabled cs st) as [H1 [H2 H3]]. rewrite H1, H2.
           split; [|split].
           ++ intros act. split; [intros H; left; exact H|]. intros [H|[r [H _]]]; [exact H|discriminate].
           ++ intros c. rewrite H3. split.
              ** intros [H|H]; [left; exact H|]. right. split; [reflexivity|]. split; [discriminate|]. split; [reflexivity|].
                 exists cs. split; [reflexivity|exact H].
              ** intros [H|[_ [_ [_ [cs' [E H]]]]]]; [left; exact H|]. inversion E; subst. right. exact H.
           ++ intros c. split; [intros H; left; exact H|]. intros [H|[H _]]; [exact H|discriminate].
        -- destruct (add_disable_actions_sets st b (Some cs)) as [H1 H2]. rewrite H1, H2.
           split; [|split].
           ++ intros act. rewrite add_disable_actions_actions. split.
              ** intros [H|H]; [left; exact H|]. right. exists b. split; [reflexivity|exact H].
              ** intros [H|[r [E H]]]; [left; exact H|]. inversion E; subst. right. exact H.
           ++ intros c. split; [intros H; left; exact H|]. intros [H|[_ [_ [H _]]]]; [exact H|discriminate].
           ++ intros c. split; [intros H; left; exact H|]. intros [H|[H _]]; [exact H|discriminate].
      * destruct (add_disable_actions_sets st b None) as [H1 H2]. rewrite H1, H2.
        split; [|split].
        -- intros act. rewrite add_disable_actions_actions. split.
           ++ intros [H|H]; [left; exact H|]. right. exists b. split; [reflexivity|exact H].
           ++ intros [H|[r [E H]]]; [left; exact H|]. inversion E; subst. right. exact H.
        -- intros c. split; [intros H; left; exact H|]. intros [H|[_ [_ [_ [cs [E _]]]]]]; [exact H|discriminate].
        -- intros c. split; [intros H; left; exact H|]. intros [H|[H _]]; [exact H|discriminate].
    + split; [|split].
      * intros act. split; [intros H; left; exact H|]. intros [H|[r [E _]]]; [exact H|discriminate].
      * intros c. split; [intros H; left; exact H|]. intros [H|[_ [H _]]]; [exact H|congruence].
      * intros c. split; [intros H; left; exact H|]. intros [H|[H _]]; [exact H|discriminate].
  - (* disable-next-line *)
    destruct (next_line_range li t (t_comment tg)) as [r|].
    + destruct (add_disable_actions_sets st r (t_codes tg)) as [H1 H2]. rewrite H1, H2.
      split; [|split].
      * intros act. rewrite add_disable_actions_actions. split.
        -- intros [H|H]; [left; exact H|]. right. exists r. split; [reflexivity|exact H].
        -- intros [H|[r' [E H]]]; [left; exact H|]. inversion E; subst. right. exact H.
      * intros c. split; [intros H; left; exact H|]. intros [H|[H _]]; [exact H|discriminate].
      * intros c. split; [intros H; left; exact H|]. intros [H|[H _]]; [exact H|discriminate].
    + split; [|split].
      * intros act. split; [intros H; left; exact H|]. intros [H|[r [E _]]]; [exact H|discriminate].
      * intros c. split; [intros H; left; exact H|]. intros [H|[H _]]; [exact H|discriminate].
      * intros c. split; [intros H; left; exact H|]. intros [H|[H _]]; [exact H|discriminate].
  - (* disable-line *)
    destruct (line_range li t (t_comment tg)) as [r|].
    + destruct (add_disable_actions_sets st r (t_codes tg)) as [H1 H2]. rewrite H1, H2.
      split; [|split].
      * intros act. rewrite add_disable_actions_actions. split.
        -- intros [H|H]; [left; exact H|]. right. exists r. split; [reflexivity|exact H].
        -- intros [H|[r' [E H]]]; [left; exact H|]. inversion E; subst. right. exact H.
      * intros c. split; [intros H; left; exact H|]. intros [H|[H _]]; [exact H|discriminate].
      * intros c. split; [intros H; left; exact H|]. intros [H|[H _]]; [exact H|discriminate].
    + split; [|split].
      * intros act. split; [intros H; left; exact H|]. intros [H|[r [E _]]]; [exact H|discriminate].
      * intros c. split; [intros H; left; exact H|]. intros [H|[H _]]; [exact H|discriminate].
      * intros c. split; [intros H; left; exact H|]. intros [H|[H _]]; [exact H|discriminate].
  - (* enable *)
    destruct (t_codes tg) as [cs|] eqn:C.
    + destruct (fold_file_enabled cs st) as [H1 [H2 H3]]. rewrite H1, H2.
      split; [|split].
      * intros act. split; [intros H; left; exact H|]. intros [H|[r [E _]]]; [exact H|discriminate].
      * intros c. split; [intros H; left; exact H|]. intros [H|[H _]]; [exact H|discriminate].
      * intros c. rewrite H3. split.
        -- intros [H|H]; [left; exact H|]. right. split; [reflexivity|]. exists cs. split; [reflexivity|exact H].
        -- intros [H|[_ [cs' [E H]]]]; [left; exact H|]. inversion E; subst. right. exact H.
    + split; [|split].
      * intros act. split; [intros H; left; exact H|]. intros [H|[r [E _]]]; [exact H|discriminate].
      * intros c. split; [intros H; left; exact H|]. intros [H|[H _]]; [exact H|discriminate].
      * intros c. split; [intros H; left; exact H|]. intros [H|[_ [cs [E _]]]]; [exact H|discriminate].
  - (* other *)
    split; [|split].
    + intros act. split; [intros H; left; exact H|]. intros [H|[r [E _]]]; [exact H|discriminate].
    + intros c. split; [intros H; left; exact H|]. intros [H|[H _]]; [exact H|discriminate].
    + intros c. split; [intros H; left; exact H|]. intros [H|[H _]]; [exact H|discriminate].
Qed.

Lemma analyze_fold_spec : forall li t tags st,
  (forall act, In act (actions (fold_left (analyze_tag li t) tags st)) <->
               In act (actions st) \/ exists tg r, In tg tags /\ tag_scope li t tg = Some r /\ act_of tg r act) /\
  (forall c, In c (file_disabled (fold_left (analyze_tag li t) tags st)) <->
             In c (file_disabled st) \/ exists tg, In tg tags /\ file_dis_tag tg c) /\
  (forall c, In c (file_enabled (fold_left (analyze_tag li t) tags st)) <->
             In c (file_enabled st) \/ exists tg, In tg tags /\ file_en_tag tg c).
Proof.
  intros li t tags. induction tags as [|tg tags IH]; intros st; cbn [fold_left].
  - split; [|split]; intros x; (split; [intros H; left; exact H|]).
    + intros [H|[tg [r [[] _]]]]. exact H.
    + intros [H|[tg [[] _]]]. exact H.
    + intros [H|[tg [[] _]]]. exact H.
  - destruct (IH (analyze_tag li t st tg)) as [A [D E]].
    destruct (analyze_tag_spec li t st tg) as [A0 [D0 E0]].
    split; [|split].
    + intros act. rewrite A, A0. split.
      * intros [[H|[r [H1 H2]]]|[tg' [r [H1 [H2 H3]]]]].
        -- left. exact H.
        -- right. exists tg, r. split; [left; reflexivity|split; assumption].
        -- right. exists tg', r. split; [right; exact H1|split; assumption].
      * intros [H|[tg' [r [[H1|H1] [H2 H3]]]]].
        -- left. left. exact H.
        -- subst tg'. left. right. exists r. split; assumption.
        -- right. exists tg', r. split; [exact H1|split; assumption].
    + intros c. rewrite D, D0. split.
      * intros [[H|H]|[tg' [H1 H2]]].
        -- left. exact H.
        -- right. exists tg. split; [left; reflexivity|exact H].
        -- right. exists tg'. split; [right; exact H1|exact H2].
      * intros [H|[tg' [[H1|H1] H2]]].
        -- left. left. exact H.
        -- subst tg'. left. right. exact H2.
        -- right. exists tg'. split; assumption.
    + intros c. rewrite E, E0. split.
      * intros [[H|H]|[tg' [H1 H2]]].
        -- left. exact H.
        -- right. exists tg. split; [left; reflexivity|exact H].
        -- right. exists tg'. split; [right; exact H1|exact H2].
      * intros [H|[tg' [[H1|H1] H2]]].
        -- left. left. exact H.
        -- subst tg'. left. right. exact H2.
        -- right. exists tg'. split; assumption.
Qed.

Lemma memN_In : forall c l, memN c l = true <-> In c l.
Proof.
  intros c l. unfold memN. rewrite existsb_exists. split.
  - intros [x [H1 H2]]. apply N.eqb_eq in H2. subst. exact H1.
  - intros H. exists c. split; [exact H|apply N.eqb_refl].
Qed.

(** the recorded actions are exactly the scopes of the tags: a diagnostic is matched by the
    index iff some tag lists its code and has a byte scope sharing a position with it *)
Lemma code_disabled_iff : forall t tags range code,
  code_disabled (analyze t tags) range code = true <->
  exists tg r, In tg tags /\ tag_scope (parse t) t tg = Some r /\ tag_lists tg code /\ is_in_scope r range = true.
Proof.
  intros t tags range code. unfold code_disabled, analyze. rewrite existsb_exists.
  destruct (analyze_fold_spec (parse t) t tags empty_state) as [A _]. split.
  - intros [act [H1 H2]]. apply A in H1. destruct H1 as [[]|[tg [r [H3 [H4 [H5 H6]]]]]].
    apply is_match_disable_iff in H2. destruct H2 as [H7 H8]. exists tg, r.
    split; [exact H3|]. split; [exact H4|]. split; [|rewrite <- H5; exact H7].
    unfold tag_lists. destruct (t_codes tg) as [cs|]; [|exact I].
    destruct H6 as [c [H9 H10]]. destruct H8 as [H8|H8]; rewrite H8 in H10; [|discriminate].
    inversion H10; subst. exact H9.
  - intros [tg [r [H1 [H2 [H3 H4]]]]].
    set (k := match t_codes tg with Some _ => KDisable code | None => KDisableAll end).
    exists {| a_range := r; a_kind := k |}. split.
    + apply A. right. exists tg, r. split; [exact H1|]. split; [exact H2|].
      unfold act_of. cbn [a_range a_kind]. split; [reflexivity|].
      unfold tag_lists in H3. unfold k. destruct (t_codes tg) as [cs|]; [|reflexivity].
      exists code. split; [exact H3|reflexivity].
    + apply is_match_disable_iff. cbn [a_range a_kind]. split; [exact H4|].
      unfold k. destruct (t_codes tg); [left|right]; reflexivity.
Qed.

Lemma file_disabled_iff : forall t tags c,
  is_file_disabled (analyze t tags) c = true <-> exists tg, In tg tags /\ file_dis_tag tg c.
Proof.
  intros t tags c. unfold is_file_disabled. rewrite memN_In. unfold analyze.
  destruct (analyze_fold_spec (parse t) t tags empty_state) as [_ [D _]]. rewrite D. cbn. tauto.
Qed.

Lemma file_enabled_iff : forall t tags c,
  is_file_enabled (analyze t tags) c = true <-> exists tg, In tg tags /\ file_en_tag tg c.
Proof.
  intros t tags c. unfold is_file_enabled. rewrite memN_In. unfold analyze.
  destruct (analyze_fold_spec (parse t) t tags empty_state) as [_ [_ E]]. rewrite E. cbn. tauto.
Qed.

(** * C. the line index *)

Lemma pp_spec : forall l o, StronglySorted N.lt l ->
  forall i s, nth_error l i = Some s -> (N.of_nat i < partition_point_le l o <-> s <= o).
Proof.
  induction l as [|s0 r IH]; intros o HS i s Hn.
  - destruct i; discriminate.
  - inversion HS as [|? ? HS' HF]; subst. cbn [partition_point_le].
    destruct (N.leb_spec s0 o) as [L|L].
    + destruct i as [|j]; cbn [nth_error] in Hn.
      * inversion Hn; subst. split; [intros _; exact L|intros _; lia].
      * specialize (IH o HS' j s Hn). rewrite <- IH. lia.
    + assert (s0 <= s) as Hs.
      { destruct i as [|j]; cbn [nth_error] in Hn; [inversion Hn; lia|].
        apply nth_error_In in Hn. rewrite Forall_forall in HF. specialize (HF s Hn). lia. }
      split; lia.
Qed.

Lemma pp_le_length : forall l o, partition_point_le l o <= N.of_nat (length l).
Proof.
  induction l as [|s r IH]; intros o; cbn [partition_point_le length]; [lia|].
  destruct (s <=? o); [specialize (IH o); lia|lia].
Qed.

Lemma pp_mono : forall l x y, x <= y -> partition_point_le l x <= partition_point_le l y.
Proof.
  induction l as [|s r IH]; intros x y H; cbn [partition_point_le]; [lia|].
  destruct (N.leb_spec s x) as [L|L].
  - destruct (N.leb_spec s y) as [L'|L']; [specialize (IH x y H); lia|lia].
  - lia.
Qed.

Section LineIndex.
  Variable li : line_index.
  Hypothesis sorted : StronglySorted N.lt (line_offsets li).

  Lemma get_line_spec : forall o k, get_line li o = Some k ->
    exists s, get_line_offset li k = Some s /\ s <= o /\
              forall s', get_line_offset li (k + 1) = Some s' -> o < s'.
  Proof.
    intros o k H. unfold get_line in H.
    destruct (N.eqb_spec (partition_point_le (line_offsets li) o) 0) as [E|E]; [discriminate|].
    inversion H as [Hk]. clear H.
    set (p := partition_point_le (line_offsets li) o) in *.
    pose proof (pp_le_length (line_offsets li) o) as HL. fold p in HL.
    unfold get_line_offset.
    destruct (nth_error (line_offsets li) (N.to_nat (p - 1))) as [s|] eqn:Hn.
    - exists s. split; [reflexivity|]. split.
      + apply (pp_spec _ o sorted _ _ Hn). fold p. lia.
      + intros s' Hn'. pose proof (pp_spec _ o sorted _ _ Hn') as Q. fold p in Q. lia.
    - apply nth_error_None in Hn. lia.
  Qed.

  Lemma get_line_complete : forall o k s,
    get_line_offset li k = Some s -> s <= o ->
    (forall s', get_line_offset li (k + 1) = Some s' -> o < s') ->
    get_line li o = Some k.
  Proof.
    intros o k s Hk Hs Hnext. unfold get_line, get_line_offset in *.
    set (p := partition_point_le (line_offsets li) o) in *.
    pose proof (pp_le_length (line_offsets li) o) as HL. fold p in HL.
    pose proof (pp_spec _ o sorted _ _ Hk) as Q. fold p in Q.
    assert (k < p) as Hlt by (apply Q in Hs; lia).
    assert (p = k + 1) as Hp.
    { destruct (N.lt_ge_cases (k + 1) p) as [G|G]; [|lia].
      destruct (nth_error (line_offsets li) (N.to_nat (k + 1))) as [s'|] eqn:Hn.
      - pose proof (pp_spec _ o sorted _ _ Hn) as Q'. fold p in Q'.
        specialize (Hnext s' eq_refl). lia.
      - apply nth_error_None in Hn. lia. }
    destruct (N.eqb_spec p 0) as [E|E]; [lia|]. f_equal. lia.
  Qed.

  Lemma line_le_iff : forall x lx k s',
    get_line li x = Some lx -> get_line_offset li (k + 1) = Some s' -> (lx <= k <-> x < s').
  Proof.
    intros x lx k s' H Hn. unfold get_line in H.
    destruct (N.eqb_spec (partition_point_le (line_offsets li) x) 0) as [E|E]; [discriminate|].
    inversion H as [Hk]. clear H.
    pose proof (pp_spec _ x sorted _ _ Hn) as Q. lia.
  Qed.

  Lemma no_line_beyond : forall x lx k,
    get_line_offset li (k + 1) = None -> get_line li x = Some lx -> lx <= k.
  Proof.
    intros x lx k Hn H. apply get_line_spec in H. destruct H as [s [Hs _]].
    unfold get_line_offset in *. apply nth_error_None in Hn.
    assert (N.to_nat lx < length (line_offsets li))%nat.
    { apply nth_error_Some. rewrite Hs. discriminate. }
    lia.
  Qed.

  Lemma get_line_mono : forall x y lx ly,
    x <= y -> get_line li x = Some lx -> get_line li y = Some ly -> lx <= ly.
  Proof.
    intros x y lx ly H Hx Hy. unfold get_line in *.
    pose proof (pp_mono (line_offsets li) x y H) as M.
    destruct (N.eqb_spec (partition_point_le (line_offsets li) x) 0); [discriminate|].
    destruct (N.eqb_spec (partition_point_le (line_offsets li) y) 0); [discriminate|].
    inversion Hx. inversion Hy. lia.
  Qed.
End LineIndex.

(** the offsets computed by [LineIndex::parse] *)
Lemma scan_offsets : forall t off asc,
  StronglySorted N.lt (fst (scan t off asc)) /\
  Forall (fun s => off < s /\ s <= off + bytes t) (fst (scan t off asc)).
Proof.
  induction t as [|c r IH]; intros off asc; cbn [scan bytes].
  - cbn. split; constructor.
  - pose proof (blen_pos c) as Hc.
    destruct (is_break c r).
    + specialize (IH (off + blen c) true).
      destruct (scan r (off + blen c) true) as [ss fs]. cbn [fst] in *. destruct IH as [S F].
      split.
      * constructor; [exact S|]. eapply Forall_impl; [|exact F]. cbn. intros a Ha. lia.
      * constructor; [lia|]. eapply Forall_impl; [|exact F]. cbn. intros a Ha. lia.
    + specialize (IH (off + blen c) (asc && (c <? 128))). destruct IH as [S F].
      split; [exact S|]. eapply Forall_impl; [|exact F]. cbn. intros a Ha. lia.
Qed.

Lemma parse_offsets : forall t, line_offsets (parse t) = 0 :: fst (scan t 0 true).
Proof. intros t. unfold parse. destruct (scan t 0 true) as [ss fs]. reflexivity. Qed.

Lemma parse_sorted : forall t, StronglySorted N.lt (line_offsets (parse t)).
Proof.
  intros t. rewrite parse_offsets. destruct (scan_offsets t 0 true) as [S F].
  constructor; [exact S|]. eapply Forall_impl; [|exact F]. cbn. intros a Ha. lia.
Qed.

Lemma parse_bounded : forall t k s, get_line_offset (parse t) k = Some s -> s <= bytes t.
Proof.
  intros t k s H. unfold get_line_offset in H. rewrite parse_offsets in H.
  apply nth_error_In in H. destruct H as [H|H]; [lia|].
  destruct (scan_offsets t 0 true) as [_ F]. rewrite Forall_forall in F. specialize (F s H). lia.
Qed.

Lemma get_line_total : forall t o, exists k, line_of t o = Some k.
Proof.
  intros t o. unfold line_of, get_line. rewrite parse_offsets. cbn [partition_point_le].
  destruct (N.leb_spec 0 o) as [_|L]; [|lia].
  destruct (N.eqb_spec (1 + partition_point_le (fst (scan t 0 true)) o) 0) as [E|E]; [lia|].
  eexists. reflexivity.
Qed.

(** * D. the scopes built by the analyzer, in terms of lines *)

Lemma comment_line_start : forall t c l,
  comment_ok t c -> line_of t (snd c) = Some l ->
  exists s, get_line_offset (parse t) l = Some s /\ s < bytes t /\ s <= snd c - 1.
Proof.
  intros t c l [H1 [H2 H3]] Hl. rewrite Hl in H3.
  destruct (get_line_spec _ (parse_sorted t) _ _ H3) as [s [Hs [Hle _]]].
  exists s. split; [exact Hs|]. lia.
Qed.

Lemma line_scope_spec : forall t c l,
  comment_ok t c -> line_of t (snd c) = Some l ->
  exists s e, line_range (parse t) t c = Some (s, e) /\
    forall x, x < bytes t -> ((s <= x /\ x < e) <-> line_of t x = Some l).
Proof.
  intros t c l Hok Hl. destruct (comment_line_start t c l Hok Hl) as [s [Hs [Hlt _]]].
  unfold line_range. unfold line_of in Hl. rewrite Hl. unfold get_line_range. rewrite Hs.
  destruct (get_line_offset (parse t) (l + 1)) as [e|] eqn:He.
  - exists s, e. split; [reflexivity|]. intros x Hx. split.
    + intros [A B]. apply (get_line_complete _ (parse_sorted t) x l s Hs A).
      intros s' E. rewrite He in E. inversion E; subst. exact B.
    + intros H. destruct (get_line_spec _ (parse_sorted t) _ _ H) as [s0 [Hs0 [A B]]].
      rewrite Hs in Hs0. inversion Hs0; subst. split; [exact A|]. apply B. exact He.
  - destruct (N.ltb_spec s (bytes t)) as [L|L]; [|lia].
    exists s, (bytes t). split; [reflexivity|]. intros x Hx. split.
    + intros [A B]. apply (get_line_complete _ (parse_sorted t) x l s Hs A).
      intros s' E. rewrite He in E. discriminate.
    + intros H. destruct (get_line_spec _ (parse_sorted t) _ _ H) as [s0 [Hs0 [A B]]].
      rewrite Hs in Hs0. inversion Hs0; subst. split; [exact A|exact Hx].
Qed.

Lemma next_line_scope_spec : forall t c l,
  comment_ok t c -> line_of t (snd c) = Some l ->
  exists e, next_line_range (parse t) t c = Some (fst c, e) /\
    forall x, x < bytes t -> (x < e <-> exists lx, line_of t x = Some lx /\ lx <= l + 1).
Proof.
  intros t c l Hok Hl. destruct (comment_line_start t c l Hok Hl) as [s [Hs [Hlt _]]].
  unfold next_line_range. unfold line_of in Hl. rewrite Hl.
  assert (forall x, x < bytes t -> forall k, get_line_offset (parse t) (k + 1) = None ->
            (exists lx, line_of t x = Some lx /\ lx <= k)) as Hlast.
  { intros x Hx k Hn. destruct (get_line_total t x) as [lx Hlx]. exists lx. split; [exact Hlx|].
    exact (no_line_beyond _ (parse_sorted t) x lx k Hn Hlx). }
  unfold get_line_range at 1.
  destruct (get_line_offset (parse t) (l + 1)) as [s1|] eqn:H1.
  - destruct (get_line_offset (parse t) (l + 1 + 1)) as [s2|] eqn:H2.
    + exists s2. split; [reflexivity|]. intros x Hx. cbn [snd]. destruct (get_line_total t x) as [lx Hlx].
      pose proof (line_le_iff _ (parse_sorted t) x lx (l + 1) s2 Hlx H2) as Q. split.
      * intros H. exists lx. split; [exact Hlx|]. apply Q. exact H.
      * intros [lx' [E H]]. rewrite Hlx in E. inversion E; subst. apply Q. exact H.
    + destruct (N.ltb_spec s1 (bytes t)) as [L|L].
      * exists (bytes t). split; [reflexivity|]. intros x Hx. cbn [snd]. split; [intros _|intros _; exact Hx].
        exact (Hlast x Hx (l + 1) H2).
      * unfold get_line_range. rewrite Hs, H1.
        pose proof (parse_bounded t _ _ H1) as B. assert (s1 = bytes t) by lia. subst s1.
        exists (bytes t). split; [reflexivity|]. intros x Hx. cbn [snd]. split; [intros _|intros _; exact Hx].
        exact (Hlast x Hx (l + 1) H2).
  - unfold get_line_range. rewrite Hs, H1.
    destruct (N.ltb_spec s (bytes t)) as [L|L]; [|lia].
    exists (bytes t). split; [reflexivity|]. intros x Hx. cbn [snd]. split; [intros _|intros _; exact Hx].
    destruct (Hlast x Hx l H1) as [lx [A B]]. exists lx. split; [exact A|lia].
Qed.

(** [TextRange::new(comment.start, line_range.end)] does not panic for a well-formed comment *)
Lemma next_line_range_ordered : forall t c r,
  comment_ok t c -> next_line_range (parse t) t c = Some r -> fst r < snd r.
Proof.
  intros t c r Hok H. destruct (get_line_total t (snd c)) as [l Hl].
  destruct (next_line_scope_spec t c l Hok Hl) as [e [E Q]]. rewrite E in H. inversion H; subst. cbn [fst snd].
  destruct Hok as [H1 [H2 H3]].
  assert (snd c - 1 < e) as G.
  { apply Q; [lia|]. exists l. split; [rewrite H3; exact Hl|lia]. }
  lia.
Qed.

(** * E. occupied positions *)

Lemma anchor_ordered : forall len range, fst range <= snd range ->
  fst (anchor_range len range) <= snd (anchor_range len range).
Proof.
  intros len [a b] H. unfold anchor_range, is_empty. cbn [fst snd] in *.
  destruct ((a =? b) && (a =? len) && (0 <? len)) eqn:E; cbn [fst snd]; lia.
Qed.

Lemma occ_inhabited : forall r, fst r <= snd r -> occ r (fst r).
Proof.
  intros [a b] H. unfold occ. cbn [fst snd] in *.
  destruct (N.eq_dec a b); [left; split; [assumption|reflexivity]|right; lia].
Qed.

Lemma occupies_lt_len : forall len range x,
  0 < len -> fst range <= snd range -> snd range <= len -> occupies len range x -> x < len.
Proof.
  intros len [a b] x Hlen H1 H2 H. unfold occupies, anchor_range, is_empty in H. cbn [fst snd] in *.
  destruct (N.eqb_spec a b) as [E|E]; cbn [andb] in H.
  - destruct (N.eqb_spec a len) as [E2|E2]; cbn [andb] in H.
    + destruct (N.ltb_spec 0 len) as [L|L]; [|lia]. cbn [fst snd] in H. lia.
    + cbn [fst snd] in H. lia.
  - cbn [fst snd] in H. lia.
Qed.

(** * F. the property theorems *)

Lemma reports_false_of_disabled : forall st cfg len range code,
  code_disabled st (anchor_range len range) code = true -> reports st cfg len range code = false.
Proof.
  intros. unfold reports, should_report. rewrite H. cbn [negb]. apply andb_false_r.
Qed.

Lemma tag_scope_inside : forall t tg range,
  tag_ok t tg -> fst range <= snd range -> snd range <= bytes t -> inside t tg range ->
  exists r, tag_scope (parse t) t tg = Some r /\ is_in_scope r (anchor_range (bytes t) range) = true.
Proof.
  intros t tg range Hok H1 H2 Hin. unfold inside, tag_ok, tag_scope in *.
  pose proof (occ_inhabited _ (anchor_ordered (bytes t) range H1)) as Hx0.
  apply occupies_occ in Hx0. set (x0 := fst (anchor_range (bytes t) range)) in *.
  destruct (t_kind tg).
  - destruct (t_block tg) as [b|]; [|contradiction].
    assert ((forall x, occupies (bytes t) range x -> fst b <= x /\ x < snd b) ->
            is_in_scope b (anchor_range (bytes t) range) = true) as G.
    { intros Hall. apply in_scope_iff. exists x0. split; [apply occupies_occ; exact Hx0|]. apply Hall. exact Hx0. }
    destruct (t_codes tg) as [cs|].
    + destruct (t_top tg); [contradiction|]. exists b. split; [reflexivity|]. apply G. exact Hin.
    + exists b. split; [reflexivity|]. apply G. exact Hin.
  - destruct Hin as [l [Hl Hall]].
    destruct (next_line_scope_spec t _ l Hok Hl) as [e [E Q]]. rewrite E. eexists. split; [reflexivity|].
    assert (0 < bytes t) as Hlen by (destruct Hok as [A [B _]]; lia).
    apply in_scope_iff. exists x0. split; [apply occupies_occ; exact Hx0|]. cbn [fst snd].
    destruct (Hall x0 Hx0) as [A B]. split; [exact A|].
    apply Q; [|exact B]. exact (occupies_lt_len _ _ _ Hlen H1 H2 Hx0).
  - destruct Hin as [l [Hl Hall]].
    destruct (line_scope_spec t _ l Hok Hl) as [s [e [E Q]]]. rewrite E. eexists. split; [reflexivity|].
    assert (0 < bytes t) as Hlen by (destruct Hok as [A [B _]]; lia).
    apply in_scope_iff. exists x0. split; [apply occupies_occ; exact Hx0|]. cbn [fst snd].
    apply Q; [|exact (Hall x0 Hx0)]. exact (occupies_lt_len _ _ _ Hlen H1 H2 Hx0).
  - contradiction.
  - contradiction.
Qed.

Lemma inside_suppressed : forall (t : text) (tags : list tag) (tg : tag) (range : N * N) (code : N) (cfg : config),
  In tg tags -> tag_ok t tg -> tag_lists tg code ->
  fst range <= snd range -> snd range <= bytes t ->
  inside t tg range ->
  reports (analyze t tags) cfg (bytes t) range code = false.
Proof.
  intros t tags tg range code cfg HIn Hok Hl H1 H2 Hin.
  apply reports_false_of_disabled. apply code_disabled_iff.
  destruct (tag_scope_inside t tg range Hok H1 H2 Hin) as [r [A B]].
  exists tg, r. repeat split; assumption.
Qed.

Lemma tag_scope_outside : forall t tg range r,
  tag_ok t tg -> fst range <= snd range -> snd range <= bytes t -> outside t tg range ->
  tag_scope (parse t) t tg = Some r -> is_in_scope r (anchor_range (bytes t) range) = false.
Proof.
  intros t tg range r Hok H1 H2 Hout Hs.
  destruct (is_in_scope r (anchor_range (bytes t) range)) eqn:E; [|reflexivity]. exfalso.
  apply in_scope_iff in E. destruct E as [x [Hx [A B]]]. apply occupies_occ in Hx.
  unfold outside, tag_ok, tag_scope in *.
  destruct (t_kind tg).
  - destruct (t_block tg) as [b|]; [|discriminate].
    destruct (t_codes tg) as [cs|].
    + destruct (t_top tg); [contradiction|]. inversion Hs; subst. specialize (Hout x Hx). lia.
    + inversion Hs; subst. specialize (Hout x Hx). lia.
  - destruct Hout as [l [Hl Hall]].
    destruct (next_line_scope_spec t _ l Hok Hl) as [e [E Q]]. rewrite E in Hs. inversion Hs; subst. cbn [fst snd] in *.
    assert (0 < bytes t) as Hlen by (destruct Hok as [A' [B' _]]; lia).
    pose proof (occupies_lt_len _ _ _ Hlen H1 H2 Hx) as Hxl.
    destruct (Hall x Hx) as [C|[lx [C D]]]; [lia|].
    apply (Q x Hxl) in B. destruct B as [lx' [C' D']]. rewrite C in C'. inversion C'; subst. lia.
  - destruct Hout as [l [Hl Hall]].
    destruct (line_scope_spec t _ l Hok Hl) as [s [e [E Q]]]. rewrite E in Hs. inversion Hs; subst. cbn [fst snd] in *.
    assert (0 < bytes t) as Hlen by (destruct Hok as [A' [B' _]]; lia).
    pose proof (occupies_lt_len _ _ _ Hlen H1 H2 Hx) as Hxl.
    destruct (Hall x Hx) as [lx [C D]].
    assert (line_of t x = Some l) as F by (apply (Q x Hxl); split; assumption).
    rewrite C in F. inversion F. contradiction.
  - discriminate.
  - discriminate.
Qed.

Lemma code_disabled_empty : forall range code, code_disabled empty_state range code = false.
Proof. reflexivity. Qed.

Lemma outside_untouched : forall (t : text) (tags : list tag) (range : N * N) (code : N) (cfg : config),
  fst range <= snd range -> snd range <= bytes t ->
  (forall tg, In tg tags -> tag_ok t tg) ->
  (forall tg, In tg tags -> ~ tag_lists tg code \/ outside t tg range) ->
  reports (analyze t tags) cfg (bytes t) range code = reports empty_state cfg (bytes t) range code.
Proof.
  intros t tags range code cfg H1 H2 Hok Hall.
  assert (code_disabled (analyze t tags) (anchor_range (bytes t) range) code = false) as CD.
  { destruct (code_disabled (analyze t tags) (anchor_range (bytes t) range) code) eqn:E; [|reflexivity]. exfalso.
    apply code_disabled_iff in E. destruct E as [tg [r [A [B [C D]]]]].
    destruct (Hall tg A) as [N|O]; [contradiction|].
    rewrite (tag_scope_outside t tg range r (Hok tg A) H1 H2 O B) in D. discriminate. }
  assert (is_file_enabled (analyze t tags) code = false) as FE.
  { destruct (is_file_enabled (analyze t tags) code) eqn:E; [|reflexivity]. exfalso.
    apply file_enabled_iff in E. destruct E as [tg [A [K [cs [C I]]]]].
    destruct (Hall tg A) as [N|O].
    - apply N. unfold tag_lists. rewrite C. exact I.
    - unfold outside in O. rewrite K in O. congruence. }
  assert (is_file_disabled (analyze t tags) code = false) as FD.
  { destruct (is_file_disabled (analyze t tags) code) eqn:E; [|reflexivity]. exfalso.
    apply file_disabled_iff in E. destruct E as [tg [A [K [Bk [T [cs [C I]]]]]]].
    destruct (Hall tg A) as [N|O].
    - apply N. unfold tag_lists. rewrite C. exact I.
    - unfold outside in O. rewrite K, C, T in O. destruct (t_block tg); [exact O|congruence]. }
  unfold reports, should_report, is_checker_enable_by_code. rewrite CD, FE, FD. reflexivity.
Qed.

Lemma file_level_suppressed : forall (t : text) (tags : list tag) (tg : tag) (cs : list N) (range : N * N) (code : N) (cfg : config),
  In tg tags -> t_kind tg = TDisable -> t_block tg <> None -> t_top tg = true ->
  t_codes tg = Some cs -> In code cs ->
  (forall tg', In tg' tags -> t_kind tg' = TEnable -> ~ tag_lists tg' code \/ t_codes tg' = None) ->
  reports (analyze t tags) cfg (bytes t) range code = false.
Proof.
  intros t tags tg cs range code cfg HIn K B T C I NoEn.
  assert (is_file_enabled (analyze t tags) code = false) as FE.
  { destruct (is_file_enabled (analyze t tags) code) eqn:E; [|reflexivity]. exfalso.
    apply file_enabled_iff in E. destruct E as [tg' [A [K' [cs' [C' I']]]]].
    destruct (NoEn tg' A K') as [N|N]; [|congruence]. apply N. unfold tag_lists. rewrite C'. exact I'. }
  assert (is_file_disabled (analyze t tags) code = true) as FD.
  { apply file_disabled_iff. exists tg. split; [exact HIn|]. unfold file_dis_tag. repeat split; try assumption.
    exists cs. split; assumption. }
  unfold reports, is_checker_enable_by_code. rewrite FE, FD.
  destruct (workspace_disabled cfg code); [reflexivity|]. destruct (is_meta_file cfg); reflexivity.
Qed.

Lemma enable_after_disable : forall (t : text) (tags : list tag) (tg : tag) (cs : list N) (range : N * N) (code : N) (cfg : config),
  In tg tags -> t_kind tg = TEnable -> t_codes tg = Some cs -> In code cs ->
  is_checker_enable_by_code (analyze t tags) cfg code = true /\
  reports (analyze t tags) cfg (bytes t) range code = should_report (analyze t tags) (bytes t) range code /\
  (forall range', code_disabled (analyze t tags) range' code =
                  code_disabled (analyze t (filter (fun g => match t_kind g with TEnable => false | _ => true end) tags)) range' code).
Proof.
  intros t tags tg cs range code cfg HIn K C I.
  assert (is_file_enabled (analyze t tags) code = true) as FE.
  { apply file_enabled_iff. exists tg. split; [exact HIn|]. split; [exact K|]. exists cs. split; assumption. }
  assert (is_checker_enable_by_code (analyze t tags) cfg code = true) as EN.
  { unfold is_checker_enable_by_code. rewrite FE. reflexivity. }
  split; [exact EN|]. split; [unfold reports; rewrite EN; reflexivity|].
  intros range'.
  match goal with |- ?a = ?b => destruct a eqn:Ea; destruct b eqn:Eb; try reflexivity; exfalso end.
  - apply code_disabled_iff in Ea. destruct Ea as [g [r [A [B [L S]]]]].
    assert (code_disabled (analyze t (filter (fun g => match t_kind g with TEnable => false | _ => true end) tags)) range' code = true) as X.
    { apply code_disabled_iff. exists g, r. split; [|repeat split; assumption].
      apply filter_In. split; [exact A|]. unfold tag_scope in B. destruct (t_kind g); try reflexivity. discriminate. }
    congruence.
  - apply code_disabled_iff in Eb. destruct Eb as [g [r [A [B [L S]]]]]. apply filter_In in A. destruct A as [A _].
    assert (code_disabled (analyze t tags) range' code = true) as X.
    { apply code_disabled_iff. exists g, r. repeat split; assumption. }
    congruence.
Qed.

(** no shared line => outside, for the two line-scoped kinds *)
Lemma no_shared_line_outside : forall (t : text) (tg : tag) (range : N * N) (lc l : N),
  (t_kind tg = TDisableNextLine \/ t_kind tg = TDisableLine) ->
  line_of t (fst (t_comment tg)) = Some lc -> line_of t (snd (t_comment tg)) = Some l ->
  (forall x, occupies (bytes t) range x ->
     exists lx, line_of t x = Some lx /\ (lx < lc \/ (if match t_kind tg with TDisableLine => true | _ => false end then l else l + 1) < lx)) ->
  fst (t_comment tg) <= snd (t_comment tg) ->
  outside t tg range.
Proof.
  intros t tg range lc l K Hc Hl Hall Hord. unfold outside.
  pose proof (get_line_mono (parse t) _ _ _ _ Hord Hc Hl) as Hlcl.
  destruct K as [K|K]; rewrite K in *.
  - exists l. split; [exact Hl|]. intros x Hx. destruct (Hall x Hx) as [lx [A [B|B]]].
    + left. destruct (N.lt_ge_cases x (fst (t_comment tg))) as [G|G]; [exact G|].
      pose proof (get_line_mono (parse t) _ _ _ _ G Hc A). lia.
    + right. exists lx. split; assumption.
  - exists l. split; [exact Hl|]. intros x Hx. destruct (Hall x Hx) as [lx [A [B|B]]]; exists lx; (split; [exact A|lia]).
Qed.

(** * G. non-vacuity: a concrete CRLF program *)

(** ["---@diagnostic disable-next-line: c3\r\nfoo1()\r\nfoo2()\r\n  foo3() ---@diagnostic disable-line\r\nfoo4()"],
    with only the characters that matter kept: the comment is bytes [0,8), lines start at 0, 10, 18, 26, 38 *)
Definition ex_text : text :=
  [45;45;45;64;100;45;110;108;13;10;   (* ---@d-nl CRLF            line 0: 0..10  *)
   102;111;111;49;40;41;13;10;          (* foo1() CRLF              line 1: 10..18 *)
   102;111;111;50;40;41;13;10;          (* foo2() CRLF              line 2: 18..26 *)
   32;32;102;51;40;41;32;45;45;45;13;10; (* "  f3() ---" CRLF       line 3: 26..38 *)
   102;111;111;52;40;41].               (* foo4()                   line 4: 38..44 *)

Definition ex_tag0 : tag :=
  {| t_kind := TDisableNextLine; t_comment := (0, 8); t_block := Some (0, 44); t_top := true; t_codes := Some [3; 5] |}.
Definition ex_tag1 : tag :=
  {| t_kind := TDisableLine; t_comment := (33, 36); t_block := Some (0, 44); t_top := true; t_codes := None |}.
Definition ex_tags : list tag := [ex_tag0; ex_tag1].

Lemma occupies_cases : forall len a b x, occupies len (a, b) x ->
  (a < b /\ a <= x /\ x < b) \/ (a = b /\ (x = a \/ (a = len /\ x = len - 1))).
Proof.
  intros len a b x H. unfold occupies, anchor_range, is_empty in H. cbn [fst snd] in H.
  destruct (N.eqb_spec a b) as [E|E]; cbn [andb] in H.
  - right. split; [exact E|]. destruct (N.eqb_spec a len) as [E2|E2]; cbn [andb] in H.
    + destruct (N.ltb_spec 0 len) as [L|L]; cbn [fst snd] in H; lia.
    + cbn [fst snd] in H. lia.
  - cbn [fst snd] in H. left. lia.
Qed.

(** the hypotheses of the INSIDE / OUTSIDE theorems hold on the example *)
Lemma hypotheses_example :
  tag_ok ex_text ex_tag0 /\ tag_ok ex_text ex_tag1 /\
  tag_lists ex_tag0 3 /\ ~ tag_lists ex_tag0 7 /\ tag_lists ex_tag1 7 /\
  inside ex_text ex_tag0 (10, 14) /\ outside ex_text ex_tag0 (18, 22) /\
  inside ex_text ex_tag1 (28, 30) /\ outside ex_text ex_tag1 (38, 42) /\ outside ex_text ex_tag1 (44, 44).
Proof.
  assert (bytes ex_text = 44) as B by (vm_compute; reflexivity).
  split; [|split; [|split; [|split; [|split; [|split; [|split; [|split; [|split]]]]]]]].
  - unfold tag_ok, comment_ok. cbn [t_kind ex_tag0 t_comment fst snd]. rewrite B.
    split; [lia|]. split; [lia|]. vm_compute. reflexivity.
  - unfold tag_ok, comment_ok. cbn [t_kind ex_tag1 t_comment fst snd]. rewrite B.
    split; [lia|]. split; [lia|]. vm_compute. reflexivity.
  - cbn. left. reflexivity.
  - cbn. intros [H|[H|[]]]; discriminate.
  - exact I.
  - unfold inside. cbn [t_kind ex_tag0 t_comment fst snd]. exists 0. split; [vm_compute; reflexivity|].
    rewrite B. intros x Hx. apply occupies_cases in Hx. destruct Hx as [[_ [H1 H2]]|[H _]]; [|lia].
    split; [lia|]. exists 1. split; [|lia].
    assert (x = 10 \/ x = 11 \/ x = 12 \/ x = 13) as C by lia.
    destruct C as [->|[->|[->| ->]]]; vm_compute; reflexivity.
  - unfold outside. cbn [t_kind ex_tag0 t_comment fst snd]. exists 0. split; [vm_compute; reflexivity|].
    rewrite B. intros x Hx. apply occupies_cases in Hx. destruct Hx as [[_ [H1 H2]]|[H _]]; [|lia].
    right. exists 2. split; [|lia].
    assert (x = 18 \/ x = 19 \/ x = 20 \/ x = 21) as C by lia.
    destruct C as [->|[->|[->| ->]]]; vm_compute; reflexivity.
  - unfold inside. cbn [t_kind ex_tag1 t_comment fst snd]. exists 3. split; [vm_compute; reflexivity|].
    rewrite B. intros x Hx. apply occupies_cases in Hx. destruct Hx as [[_ [H1 H2]]|[H _]]; [|lia].
    assert (x = 28 \/ x = 29) as C by lia.
    destruct C as [->| ->]; vm_compute; reflexivity.
  - unfold outside. cbn [t_kind ex_tag1 t_comment fst snd]. exists 3. split; [vm_compute; reflexivity|].
    rewrite B. intros x Hx. apply occupies_cases in Hx. destruct Hx as [[_ [H1 H2]]|[H _]]; [|lia].
    exists 4. split; [|lia].
    assert (x = 38 \/ x = 39 \/ x = 40 \/ x = 41) as C by lia.
    destruct C as [->|[->|[->| ->]]]; vm_compute; reflexivity.
  - unfold outside. cbn [t_kind ex_tag1 t_comment fst snd]. exists 3. split; [vm_compute; reflexivity|].
    rewrite B. intros x Hx. apply occupies_cases in Hx. destruct Hx as [[H _]|[_ [H|[_ H]]]]; [lia| |].
    + subst x. exists 4. split; [vm_compute; reflexivity|lia].
    + subst x. exists 4. split; [vm_compute; reflexivity|lia].
Qed.

Lemma scope_example :
  let st := analyze ex_text ex_tags in
  let cfg := {| workspace_disabled := fun _ => false; is_meta_file := false; workspace_enabled := fun _ => false; default_enable := fun _ => true |} in
  List.map a_range (actions st) = [(0, 18); (0, 18); (26, 38)] /\
  reports st cfg 44 (10, 14) 3 = false /\     (* foo1, listed code: suppressed *)
  reports st cfg 44 (10, 14) 5 = false /\
  reports st cfg 44 (10, 14) 7 = true /\      (* other code *)
  reports st cfg 44 (18, 22) 3 = true /\      (* foo2 at column 0 of the line after the scope *)
  reports st cfg 44 (28, 30) 7 = false /\     (* f3 on the disable-line line, any code *)
  reports st cfg 44 (38, 42) 7 = true /\      (* foo4 at column 0 of the next line *)
  reports st cfg 44 (44, 44) 7 = true.        (* empty range at end of file: last line, not in scope *)
Proof. vm_compute. repeat split; reflexivity. Qed.
