(** C19/Props.v — property theorems only.  Each is closed by [exact] of a lemma of Proofs.v.
    Vocabulary ([tag], [analyze], [reports], [occupies], [inside], [outside], [tag_ok], [tag_lists],
    [tag_scope]) is defined in C19/Model.v. *)
From EV Require Import C19.Model C19.Proofs.
Local Open Scope N_scope.

(** The range test of [DiagnosticAction::is_match]: a diagnostic range is in a scope exactly when
    one of the positions it occupies lies in the (half-open) scope — touching does not count. *)
Theorem in_scope_exact : forall (scope r : N * N),
  is_in_scope scope r = true <->
  exists x, ((fst r = snd r /\ x = fst r) \/ (fst r <= x /\ x < snd r)) /\ fst scope <= x /\ x < snd scope.
Proof. exact Proofs.in_scope_iff. Qed.

(** In particular a diagnostic that ends where the scope starts, or starts where it ends
    (column 0 of the line after the scope), is not in it. *)
Theorem touching_not_in_scope : forall lo hi a b : N,
  (a < b /\ b <= lo) \/ (a = b /\ a < lo) \/ hi <= a -> is_in_scope (lo, hi) (a, b) = false.
Proof. exact Proofs.touching_not_in_scope. Qed.

(** Exactness of the recorded actions, for every text, every list of tags (any order, any mix
    of kinds and code lists) and every range and code: the index suppresses a diagnostic iff
    some tag lists its code (or has no list) and that tag's own scope contains it. *)
Theorem suppressed_iff : forall (t : text) (tags : list tag) (range : N * N) (code : N),
  code_disabled (analyze t tags) range code = true <->
  exists tg r, In tg tags /\ tag_scope (parse t) t tg = Some r /\ tag_lists tg code /\ is_in_scope r range = true.
Proof. exact Proofs.code_disabled_iff. Qed.

(** The scope of [disable-line] is exactly the characters of the comment's last line, and the
    scope of [disable-next-line] exactly the characters from the comment's start to the end of the
    line directly after the comment's last line (LF, CRLF and lone CR line ends alike). *)
Theorem line_scope_is_the_line : forall (t : text) (c : N * N) (l : N),
  comment_ok t c -> line_of t (snd c) = Some l ->
  exists s e, line_range (parse t) t c = Some (s, e) /\
    forall x, x < bytes t -> ((s <= x /\ x < e) <-> line_of t x = Some l).
Proof. exact Proofs.line_scope_spec. Qed.

Theorem next_line_scope_is_comment_and_next_line : forall (t : text) (c : N * N) (l : N),
  comment_ok t c -> line_of t (snd c) = Some l ->
  exists e, next_line_range (parse t) t c = Some (fst c, e) /\
    forall x, x < bytes t -> (x < e <-> exists lx, line_of t x = Some lx /\ lx <= l + 1).
Proof. exact Proofs.next_line_scope_spec. Qed.

(** constructing that range never trips [TextRange::new]'s assertion *)
Theorem next_line_range_ordered : forall (t : text) (c r : N * N),
  comment_ok t c -> next_line_range (parse t) t c = Some r -> fst r < snd r.
Proof. exact Proofs.next_line_range_ordered. Qed.

(** INSIDE: a diagnostic lying within the scope of a tag that lists its code (or has no code
    list) is not reported — whatever other tags the file contains, whatever the configuration.
    [inside] spells the scope out per kind: comment + next line / the comment's line / the owner
    block (nested [disable], or top-level [disable] without codes). *)
Theorem inside_suppressed : forall (t : text) (tags : list tag) (tg : tag) (range : N * N) (code : N) (cfg : config),
  In tg tags -> tag_ok t tg -> tag_lists tg code ->
  fst range <= snd range -> snd range <= bytes t ->
  inside t tg range ->
  reports (analyze t tags) cfg (bytes t) range code = false.
Proof. exact Proofs.inside_suppressed. Qed.

(** file-level [disable: codes] (owner block is the chunk's block): the listed codes are not
    reported anywhere in the file, unless an [enable] tag names them. *)
Theorem file_level_suppressed : forall (t : text) (tags : list tag) (tg : tag) (cs : list N) (range : N * N) (code : N) (cfg : config),
  In tg tags -> t_kind tg = TDisable -> t_block tg <> None -> t_top tg = true ->
  t_codes tg = Some cs -> In code cs ->
  (forall tg', In tg' tags -> t_kind tg' = TEnable -> ~ tag_lists tg' code \/ t_codes tg' = None) ->
  reports (analyze t tags) cfg (bytes t) range code = false.
Proof. exact Proofs.file_level_suppressed. Qed.

(** OUTSIDE: if every tag of the file either does not list the diagnostic's code or has a scope
    the diagnostic shares nothing with ([outside]: other lines / outside the block), the
    diagnostic is reported exactly as if the file had no [@diagnostic] tags at all. *)
Theorem outside_untouched : forall (t : text) (tags : list tag) (range : N * N) (code : N) (cfg : config),
  fst range <= snd range -> snd range <= bytes t ->
  (forall tg, In tg tags -> tag_ok t tg) ->
  (forall tg, In tg tags -> ~ tag_lists tg code \/ outside t tg range) ->
  reports (analyze t tags) cfg (bytes t) range code = reports empty_state cfg (bytes t) range code.
Proof. exact Proofs.outside_untouched. Qed.

(** "shares no line with the scope" implies [outside] for the two line-scoped kinds *)
Theorem no_shared_line_outside : forall (t : text) (tg : tag) (range : N * N) (lc l : N),
  (t_kind tg = TDisableNextLine \/ t_kind tg = TDisableLine) ->
  line_of t (fst (t_comment tg)) = Some lc -> line_of t (snd (t_comment tg)) = Some l ->
  (forall x, occupies (bytes t) range x ->
     exists lx, line_of t x = Some lx /\
       (lx < lc \/ (if match t_kind tg with TDisableLine => true | _ => false end then l else l + 1) < lx)) ->
  fst (t_comment tg) <= snd (t_comment tg) ->
  outside t tg range.
Proof. exact Proofs.no_shared_line_outside. Qed.

(** [enable: codes] after (or before) a [disable]: the listed codes are force-enabled for the
    whole file — file-level disables and the configuration no longer matter — while the range
    scopes (next-line / line / block) keep applying unchanged. *)
Theorem enable_after_disable : forall (t : text) (tags : list tag) (tg : tag) (cs : list N) (range : N * N) (code : N) (cfg : config),
  In tg tags -> t_kind tg = TEnable -> t_codes tg = Some cs -> In code cs ->
  is_checker_enable_by_code (analyze t tags) cfg code = true /\
  reports (analyze t tags) cfg (bytes t) range code = should_report (analyze t tags) (bytes t) range code /\
  (forall range', code_disabled (analyze t tags) range' code =
                  code_disabled (analyze t (filter (fun g => match t_kind g with TEnable => false | _ => true end) tags)) range' code).
Proof. exact Proofs.enable_after_disable. Qed.

(** non-vacuity: a CRLF program with a [disable-next-line: c3, c5] comment on line 0 and a trailing
    [disable-line] comment on line 3; diagnostics at column 0 of the lines after the scopes stay. *)
Example scope_example :
  let st := analyze Proofs.ex_text Proofs.ex_tags in
  let cfg := {| workspace_disabled := fun _ => false; is_meta_file := false; workspace_enabled := fun _ => false; default_enable := fun _ => true |} in
  List.map a_range (actions st) = [(0, 18); (0, 18); (26, 38)] /\
  reports st cfg 44 (10, 14) 3 = false /\
  reports st cfg 44 (10, 14) 5 = false /\
  reports st cfg 44 (10, 14) 7 = true /\
  reports st cfg 44 (18, 22) 3 = true /\
  reports st cfg 44 (28, 30) 7 = false /\
  reports st cfg 44 (38, 42) 7 = true /\
  reports st cfg 44 (44, 44) 7 = true.
Proof. exact Proofs.scope_example. Qed.

(** … and the hypotheses of the INSIDE / OUTSIDE theorems are satisfiable on it *)
Example hypotheses_example :
  tag_ok Proofs.ex_text Proofs.ex_tag0 /\ tag_ok Proofs.ex_text Proofs.ex_tag1 /\
  tag_lists Proofs.ex_tag0 3 /\ ~ tag_lists Proofs.ex_tag0 7 /\ tag_lists Proofs.ex_tag1 7 /\
  inside Proofs.ex_text Proofs.ex_tag0 (10, 14) /\ outside Proofs.ex_text Proofs.ex_tag0 (18, 22) /\
  inside Proofs.ex_text Proofs.ex_tag1 (28, 30) /\ outside Proofs.ex_text Proofs.ex_tag1 (38, 42) /\
  outside Proofs.ex_text Proofs.ex_tag1 (44, 44).
Proof. exact Proofs.hypotheses_example. Qed.
