(** C19/Corr.v — executable comparison of implementation observations with the model
    (the python plugin writes [case] terms from the harness's JSON lines). *)
From EV Require Import C19.Model.
Local Open Scope N_scope.

Definition pair_eqb (x y : N * N) : bool := (fst x =? fst y) && (snd x =? snd y).

Definition opt_eqb (x y : option N) : bool :=
  match x, y with
  | Some a, Some b => a =? b
  | None, None => true
  | _, _ => false
  end.

(** an observed action: range, [Some code] for [Disable(code)] / [None] for [DisableAll], and
    [is_disable()] *)
Definition obs_action := ((N * N) * option N * bool)%type.

Definition model_obs (a : action) : obs_action :=
  match a_kind a with
  | KDisable c => (a_range a, Some c, true)
  | KEnable c => (a_range a, Some c, false)
  | KDisableAll => (a_range a, None, true)
  end.

Definition obs_eqb (x y : obs_action) : bool :=
  let '(r1, c1, d1) := x in
  let '(r2, c2, d2) := y in
  pair_eqb r1 r2 && opt_eqb c1 c2 && Bool.eqb d1 d2.

Definition diag_eqb (x y : (N * N) * N) : bool := pair_eqb (fst x) (fst y) && (snd x =? snd y).

Fixpoint list_eqb {A} (eqb : A -> A -> bool) (l1 l2 : list A) : bool :=
  match l1, l2 with
  | [], [] => true
  | a :: r1, b :: r2 => eqb a b && list_eqb eqb r1 r2
  | _, _ => false
  end.

Record case := {
  c_text : text;
  c_tags : list tag;                       (* read off the syntax tree, in document order *)
  c_actions : list obs_action;             (* get_diagnostics_actions(file), in vector order *)
  c_univ : list N;                         (* codes to compare the file-level sets on *)
  c_fdis : list N;                         (* those with is_file_disabled *)
  c_fen : list N;                          (* those with is_file_enabled *)
  c_q : list (((N * N) * N) * bool);       (* is_file_diagnostic_code_disabled(range, code) *)
  c_e2e : bool;                            (* compare diagnose_file with / without the comments *)
  c_d0 : list ((N * N) * N);               (* diagnostics with the comments neutralised, sorted *)
  c_d1 : list ((N * N) * N)                (* diagnostics with the comments, sorted *)
}.

(** a configuration under which every code is enabled when the file has no tags (the
    diagnostics of [c_d0] exist, so their codes are) *)
Definition cfg_on : config :=
  {| workspace_disabled := fun _ => false; is_meta_file := false;
     workspace_enabled := fun _ => true; default_enable := fun _ => true |}.

Definition check_case (c : case) : bool :=
  let t := c_text c in
  let st := analyze t (c_tags c) in
  let len := bytes t in
  list_eqb obs_eqb (List.map model_obs (actions st)) (c_actions c)
  && forallb (fun code => Bool.eqb (is_file_disabled st code) (memN code (c_fdis c))
                          && Bool.eqb (is_file_enabled st code) (memN code (c_fen c))) (c_univ c)
  && forallb (fun '((r, code), b) => Bool.eqb (code_disabled st r code) b) (c_q c)
  && (if c_e2e c
      then list_eqb diag_eqb (filter (fun d => reports st cfg_on len (fst d) (snd d)) (c_d0 c)) (c_d1 c)
      else true).
