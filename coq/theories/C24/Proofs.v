(** C24/Proofs.v — lemmas about the dispatcher LTS of Model.v. *)
From Coq Require Import List NArith Bool String Arith Lia.
Import ListNotations.
From EV Require Import Base.LTS Gen.C24_Dispatch C24.Model.
Local Open Scope string_scope.
Local Open Scope list_scope.

Arguments String.eqb : simpl never.
Arguments N.eqb : simpl never.

(** ------------------------------------------------------------------ counting lemmas *)
Lemma count_req_app : forall i a b, count_req i (a ++ b) = count_req i a + count_req i b.
Proof. intros. unfold count_req. rewrite filter_app, app_length. reflexivity. Qed.

Lemma count_req_cons : forall i m l,
  count_req i (m :: l) = (if is_req_id i m then 1 else 0) + count_req i l.
Proof. intros. unfold count_req. cbn [filter]. destruct (is_req_id i m); reflexivity. Qed.

Lemma is_req_id_is_req : forall i m, is_req_id i m = true -> is_req m = true.
Proof. intros i [j meth pok|meth t|j]; cbn; congruence. Qed.

Lemma no_reqs_count : forall i l, no_reqs l = true -> count_req i l = 0.
Proof.
  intros i l. induction l as [|m r IH]; intros H; [reflexivity|].
  unfold no_reqs in H. cbn [forallb] in H. apply andb_true_iff in H as [Hm Hr].
  rewrite count_req_cons, (IH Hr).
  destruct (is_req_id i m) eqn:E; [|reflexivity].
  apply is_req_id_is_req in E. rewrite E in Hm. discriminate.
Qed.

Lemma no_reqs_app : forall a b, no_reqs (a ++ b) = no_reqs a && no_reqs b.
Proof. intros. unfold no_reqs. apply forallb_app. Qed.

Lemma no_reqs_cons : forall m l, no_reqs (m :: l) = negb (is_req m) && no_reqs l.
Proof. reflexivity. Qed.

Lemma no_reqs_tl : forall l, no_reqs l = true -> no_reqs (tl l) = true.
Proof. intros [|m r] H; [reflexivity|]. rewrite no_reqs_cons in H. apply andb_true_iff in H. apply H. Qed.

Lemma count_tasks_app : forall i a b, count_tasks i (a ++ b) = count_tasks i a + count_tasks i b.
Proof. intros. unfold count_tasks. rewrite filter_app, app_length. reflexivity. Qed.

Lemma count_tasks_remove_nth : forall i k ts t,
  nth_error ts k = Some t ->
  count_tasks i ts = count_tasks i (remove_nth k ts) + (if N.eqb (t_id t) i then 1 else 0).
Proof.
  intros i. induction k as [|k IH]; intros [|x r] t H; cbn [nth_error] in H; try discriminate.
  - inversion H; subst. cbn [remove_nth]. unfold count_tasks. cbn [filter].
    destruct (N.eqb (t_id t) i); cbn [List.length]; lia.
  - cbn [remove_nth]. specialize (IH r t H). unfold count_tasks in *. cbn [filter].
    destruct (N.eqb (t_id x) i); cbn [List.length]; lia.
Qed.

Lemma count_tasks_map_id : forall i (f : task -> task) ts,
  (forall t, t_id (f t) = t_id t) -> count_tasks i (map f ts) = count_tasks i ts.
Proof.
  intros i f ts Hf. unfold count_tasks. induction ts as [|t r IH]; [reflexivity|].
  cbn [map filter]. rewrite Hf. destruct (N.eqb (t_id t) i); cbn [List.length]; rewrite IH; reflexivity.
Qed.

Lemma length_remove_nth : forall {A} k (l : list A) x,
  nth_error l k = Some x -> List.length l = S (List.length (remove_nth k l)).
Proof.
  intros A. induction k as [|k IH]; intros [|y r] x H; cbn [nth_error] in H; try discriminate.
  - reflexivity.
  - cbn [remove_nth List.length]. f_equal. eapply IH; eassumption.
Qed.

(** ------------------------------------------------------------------ what [handle] can do *)
Definition rest (s : state) : list msg := st_pending s ++ st_input s.

Definition total (i : rid) (s : state) : nat :=
  count_out i (st_out s) + count_tasks i (st_tasks s) + count_req i (rest s).

Definition unit_of (j i : rid) : nat := if N.eqb j i then 1 else 0.

Inductive hform (c : cfg) (m : msg) (s : state) : state -> Prop :=
| HF_shutdown : forall i meth pok, m = MReq i meth pok -> is_shutdown m = true ->
    hform c m s (emit i COk (set_stage SShutdownWait (set_pending [] s)))
| HF_spawn : forall i meth pok, m = MReq i meth pok -> is_shutdown m = false ->
    hform c m s (spawn i s)
| HF_emit : forall i meth pok r, m = MReq i meth pok -> is_shutdown m = false ->
    hform c m s (emit i r s)
| HF_drop : forall i meth pok, m = MReq i meth pok -> is_shutdown m = false -> c_extract_err c = false ->
    hform c m s s
| HF_same : is_req m = false -> hform c m s s
| HF_cancel : forall i, is_req m = false -> hform c m s (cancel i s).

Lemma handle_hform : forall c m s, hform c m s (handle c m s).
Proof.
  intros c [i meth pok|meth tgt|i] s; cbn [handle].
  - destruct (meth =? "shutdown") eqn:Es.
    + eapply HF_shutdown; [reflexivity|exact Es].
    + destruct (known c meth).
      * destruct pok.
        -- eapply HF_spawn; [reflexivity|exact Es].
        -- destruct (c_extract_err c) eqn:Ee.
           ++ eapply HF_emit; [reflexivity|exact Es].
           ++ eapply HF_drop; [reflexivity|exact Es|exact Ee].
      * eapply HF_emit; [reflexivity|exact Es].
  - destruct (meth =? "$/cancelRequest").
    + destruct tgt as [i|]; [apply HF_cancel|apply HF_same]; reflexivity.
    + apply HF_same; reflexivity.
  - apply HF_same; reflexivity.
Qed.

Lemma count_out_emit : forall i j r o, count_out i ((j, r) :: o) = unit_of j i + count_out i o.
Proof. intros. unfold count_out, unit_of. cbn [filter fst]. destruct (N.eqb j i); reflexivity. Qed.

Lemma is_req_id_unit : forall i j meth pok, (if is_req_id i (MReq j meth pok) then 1 else 0) = unit_of j i.
Proof. reflexivity. Qed.

Lemma total_emit : forall i j r s, total i (emit j r s) = unit_of j i + total i s.
Proof. intros. unfold total, rest. cbn [emit st_out st_tasks st_pending st_input]. rewrite count_out_emit. lia. Qed.

Lemma total_spawn : forall i j s, total i (spawn j s) = unit_of j i + total i s.
Proof.
  intros. unfold total, rest. cbn [spawn st_out st_tasks st_pending st_input].
  rewrite count_tasks_app. unfold count_tasks at 2. cbn [filter t_id]. unfold unit_of.
  destruct (N.eqb j i); cbn [List.length]; lia.
Qed.

Lemma total_cancel : forall i j s, total i (cancel j s) = total i s.
Proof.
  intros. unfold cancel. destruct (cmap_get j (st_cmap s)); [|reflexivity].
  unfold total, rest. cbn [set_tasks st_out st_tasks st_pending st_input].
  rewrite count_tasks_map_id; [reflexivity|].
  intros t. destruct (N.eqb (t_tok t) n); reflexivity.
Qed.

Lemma cancel_fields : forall j s,
  st_stage (cancel j s) = st_stage s /\ st_input (cancel j s) = st_input s /\
  st_pending (cancel j s) = st_pending s /\ st_out (cancel j s) = st_out s /\
  List.length (st_tasks (cancel j s)) = List.length (st_tasks s).
Proof.
  intros. unfold cancel. destruct (cmap_get j (st_cmap s)); cbn [set_tasks st_stage st_input st_pending st_out st_tasks];
    repeat split; try reflexivity. apply map_length.
Qed.

Lemma is_shutdown_req : forall m, is_shutdown m = true -> is_req m = true.
Proof. intros [i meth pok|meth t|i]; cbn; congruence. Qed.

(** ------------------------------------------------------------------ life-cycle lemmas *)
Lemma lc_main_cons : forall m l, lc_main (m :: l) = if is_shutdown m then no_reqs l else lc_main l.
Proof. reflexivity. Qed.

Lemma lc_main_del : forall p m r, is_req m = false -> lc_main (p ++ m :: r) = true -> lc_main (p ++ r) = true.
Proof.
  induction p as [|x p IH]; intros m r Hm H; cbn [app] in *.
  - rewrite lc_main_cons in H. destruct (is_shutdown m) eqn:E; [|exact H].
    apply is_shutdown_req in E. congruence.
  - rewrite lc_main_cons in *. destruct (is_shutdown x).
    + rewrite no_reqs_app in *. rewrite no_reqs_cons in H.
      apply andb_true_iff in H as [Ha Hb]. apply andb_true_iff in Hb as [_ Hb]. rewrite Ha, Hb. reflexivity.
    + eapply IH; eassumption.
Qed.

Lemma app_snoc : forall {A} (p : list A) m r, (p ++ [m]) ++ r = p ++ m :: r.
Proof. intros. rewrite <- app_assoc. reflexivity. Qed.

(** ------------------------------------------------------------------ the invariant *)
Definition life (s : state) : Prop :=
  match st_stage s with
  | SPreInit => st_pending s = [] /\ lc_pre (st_input s) = true
  | SAwaitInitialized => st_pending s = [] /\ lc_await (st_input s) = true
  | SInit | SReplay => lc_main (rest s) = true
  | SRun => st_pending s = [] /\ lc_main (st_input s) = true
  | SShutdownWait | SStopped => no_reqs (rest s) = true
  | SCrashed => False
  end.

Definition inv (msgs : list msg) (s : state) : Prop :=
  (forall i, total i s = count_req i msgs) /\ life s.

(** effect of [handle] on the invariant when the handled message [m] was the head of the
    remaining messages [m :: rest s] *)
Lemma handle_total : forall c m s i,
  cfg_fixed c = true ->
  lc_main (m :: rest s) = true ->
  total i (handle c m s) = (if is_req_id i m then 1 else 0) + total i s.
Proof.
  intros c m s i Hfix Hlc. destruct (handle_hform c m s) as [j meth pok Hm Hs|j meth pok Hm Hs|j meth pok r Hm Hs|j meth pok Hm Hs He|Hm|j Hm].
  - subst m. rewrite lc_main_cons, Hs in Hlc. rewrite total_emit, is_req_id_unit. f_equal.
    unfold total, rest in *. cbn [set_stage set_pending st_out st_tasks st_pending st_input app].
    rewrite no_reqs_app in Hlc. apply andb_true_iff in Hlc as [Hp Hi].
    rewrite count_req_app, (no_reqs_count i _ Hp), (no_reqs_count i _ Hi). reflexivity.
  - subst m. rewrite total_spawn, is_req_id_unit. reflexivity.
  - subst m. rewrite total_emit, is_req_id_unit. reflexivity.
  - unfold cfg_fixed in Hfix. rewrite He in Hfix. discriminate.
  - destruct m; cbn in Hm; try discriminate; reflexivity.
  - rewrite total_cancel. destruct m; cbn in Hm; try discriminate; reflexivity.
Qed.

Lemma handle_total_le : forall c m s i,
  total i (handle c m s) <= (if is_req_id i m then 1 else 0) + total i s.
Proof.
  intros c m s i. destruct (handle_hform c m s) as [j meth pok Hm Hs|j meth pok Hm Hs|j meth pok r Hm Hs|j meth pok Hm Hs He|Hm|j Hm].
  - subst m. rewrite total_emit, is_req_id_unit. apply Nat.add_le_mono_l.
    unfold total, rest. cbn [set_stage set_pending st_out st_tasks st_pending st_input app].
    rewrite count_req_app. lia.
  - subst m. rewrite total_spawn, is_req_id_unit. lia.
  - subst m. rewrite total_emit, is_req_id_unit. lia.
  - lia.
  - lia.
  - rewrite total_cancel. lia.
Qed.

(** stage / queues after [handle] *)
Lemma handle_life : forall c m s,
  lc_main (m :: rest s) = true ->
  (is_shutdown m = true /\ st_stage (handle c m s) = SShutdownWait /\ no_reqs (rest (handle c m s)) = true) \/
  (is_shutdown m = false /\ st_stage (handle c m s) = st_stage s /\
   st_pending (handle c m s) = st_pending s /\ st_input (handle c m s) = st_input s /\
   lc_main (rest s) = true).
Proof.
  intros c m s Hlc. rewrite lc_main_cons in Hlc.
  destruct (handle_hform c m s) as [j meth pok Hm Hs|j meth pok Hm Hs|j meth pok r Hm Hs|j meth pok Hm Hs He|Hm|j Hm].
  - left. rewrite Hs in Hlc. split; [exact Hs|]. split; [reflexivity|].
    unfold rest in *. cbn [emit set_stage set_pending st_pending st_input app].
    rewrite no_reqs_app in Hlc. apply andb_true_iff in Hlc. apply Hlc.
  - right. rewrite Hs in Hlc. repeat split; try reflexivity; assumption.
  - right. rewrite Hs in Hlc. repeat split; try reflexivity; assumption.
  - right. rewrite Hs in Hlc. repeat split; try reflexivity; assumption.
  - right. assert (E : is_shutdown m = false).
    { destruct (is_shutdown m) eqn:E; [|reflexivity]. apply is_shutdown_req in E. congruence. }
    rewrite E in Hlc. repeat split; try reflexivity; assumption.
  - right. assert (E : is_shutdown m = false).
    { destruct (is_shutdown m) eqn:E; [|reflexivity]. apply is_shutdown_req in E. congruence. }
    rewrite E in Hlc. destruct (cancel_fields j s) as [H1 [H2 [H3 _]]].
    repeat split; try assumption.
Qed.

Lemma can_init_not_req : forall c m, can_init c m = true -> is_req m = false.
Proof. intros c [i meth pok|meth t|i]; cbn; congruence. Qed.

Lemma not_req_count : forall i m, is_req m = false -> is_req_id i m = false.
Proof. intros i [j meth pok|meth t|j]; cbn; congruence. Qed.

Lemma total_set_stage : forall i g s, total i (set_stage g s) = total i s.
Proof. reflexivity. Qed.

Section Fixed.
  Variable c : cfg.
  Hypothesis Hfix : cfg_fixed c = true.

  Lemma fix_unwrap : c_init_unwrap c = false.
  Proof.
    unfold cfg_fixed in Hfix. apply andb_true_iff in Hfix as [_ H]. apply negb_true_iff in H. exact H.
  Qed.

  Lemma fix_panic : c_catch_panic c = true.
  Proof.
    unfold cfg_fixed in Hfix. apply andb_true_iff in Hfix as [H _]. apply andb_true_iff in H. apply H.
  Qed.

  Lemma resp_of_some : forall b o, exists r, resp_of c b o = Some r.
  Proof. intros b o. destruct o; cbn [resp_of]; try rewrite fix_panic; eexists; reflexivity. Qed.

  Lemma inv_step : forall msgs l s s', inv msgs s -> step c l s = Some s' -> inv msgs s'.
  Proof.
    intros msgs l s s' [Htot Hlife] Hstep. destruct l as [| |k o]; cbn [step] in Hstep.
    - (* LMain *)
      unfold main_step in Hstep. unfold life in Hlife.
      destruct (st_stage s) eqn:Est.
      + (* SPreInit *)
        destruct Hlife as [Hp Hlc]. destruct (st_input s) as [|m r] eqn:Ein; [discriminate|].
        inversion Hstep; subst s'; clear Hstep.
        assert (Hrest : forall i, total i s = count_out i (st_out s) + count_tasks i (st_tasks s) + count_req i (m :: r)).
        { intros i. unfold total, rest. rewrite Hp, Ein. reflexivity. }
        cbn [lc_pre] in Hlc.
        destruct m as [j meth pok|meth tgt|j].
        * destruct (meth =? "initialize") eqn:Ei; cbn [andb] in Hlc.
          -- destruct pok.
             ++ split.
                ** intros i. rewrite total_emit, total_set_stage, <- Htot, Hrest.
                   unfold total, rest. cbn [set_input st_out st_tasks st_pending st_input]. rewrite Hp.
                   cbn [app]. rewrite count_req_cons, is_req_id_unit. lia.
                ** unfold life. cbn [emit set_stage set_input st_stage st_pending st_input]. split; assumption.
             ++ rewrite fix_unwrap. split.
                ** intros i. rewrite total_emit, <- Htot, Hrest.
                   unfold total, rest. cbn [set_input st_out st_tasks st_pending st_input]. rewrite Hp.
                   cbn [app]. rewrite count_req_cons, is_req_id_unit. lia.
                ** unfold life. cbn [emit set_input st_stage st_pending st_input]. rewrite Est. split; assumption.
          -- split.
             ++ intros i. rewrite total_emit, <- Htot, Hrest.
                unfold total, rest. cbn [set_input st_out st_tasks st_pending st_input]. rewrite Hp.
                cbn [app]. rewrite count_req_cons, is_req_id_unit. lia.
             ++ unfold life. cbn [emit set_input st_stage st_pending st_input]. rewrite Est. split; assumption.
        * destruct (meth =? "exit") eqn:Ee.
          -- split.
             ++ intros i. rewrite total_set_stage, <- Htot, Hrest.
                unfold total, rest. cbn [set_input st_out st_tasks st_pending st_input]. rewrite Hp.
                cbn [app]. rewrite count_req_cons. reflexivity.
             ++ unfold life, rest. cbn [set_stage set_input st_stage st_pending st_input]. rewrite Hp. exact Hlc.
          -- split.
             ++ intros i. rewrite <- Htot, Hrest.
                unfold total, rest. cbn [set_input st_out st_tasks st_pending st_input]. rewrite Hp.
                cbn [app]. rewrite count_req_cons. reflexivity.
             ++ unfold life. cbn [set_input st_stage st_pending st_input]. rewrite Est. split; assumption.
        * split.
          -- intros i. rewrite total_set_stage, <- Htot, Hrest.
             unfold total, rest. cbn [set_input st_out st_tasks st_pending st_input]. rewrite Hp.
             cbn [app]. rewrite count_req_cons. reflexivity.
          -- unfold life, rest. cbn [set_stage set_input st_stage st_pending st_input]. rewrite Hp. exact Hlc.
      + (* SAwaitInitialized *)
        destruct Hlife as [Hp Hlc]. destruct (st_input s) as [|m r] eqn:Ein; [discriminate|].
        inversion Hstep; subst s'; clear Hstep.
        assert (Hrest : forall i, total i s = count_out i (st_out s) + count_tasks i (st_tasks s) + count_req i (m :: r)).
        { intros i. unfold total, rest. rewrite Hp, Ein. reflexivity. }
        assert (Hstop : no_reqs (m :: r) = true ->
                        inv msgs (set_stage SStopped (set_input r s))).
        { intros Hn. split.
          - intros i. rewrite total_set_stage, <- Htot, Hrest.
            unfold total, rest. cbn [set_input st_out st_tasks st_pending st_input]. rewrite Hp. cbn [app].
            rewrite (no_reqs_count i _ Hn). rewrite no_reqs_cons in Hn. apply andb_true_iff in Hn as [_ Hn].
            rewrite (no_reqs_count i _ Hn). reflexivity.
          - unfold life, rest. cbn [set_stage set_input st_stage st_pending st_input]. rewrite Hp. cbn [app].
            rewrite no_reqs_cons in Hn. apply andb_true_iff in Hn. apply Hn. }
        unfold lc_await in Hlc.
        destruct m as [j meth pok|meth tgt|j]; try (apply Hstop; exact Hlc).
        destruct (meth =? "initialized") eqn:Ei; [|apply Hstop; exact Hlc].
        split.
        * intros i. rewrite total_set_stage, <- Htot, Hrest.
          unfold total, rest. cbn [set_input st_out st_tasks st_pending st_input]. rewrite Hp. cbn [app].
          rewrite count_req_cons. reflexivity.
        * unfold life, rest. cbn [set_stage set_input st_stage st_pending st_input]. rewrite Hp. exact Hlc.
      + (* SInit *)
        destruct (st_input s) as [|m r] eqn:Ein; [discriminate|].
        inversion Hstep; subst s'; clear Hstep.
        destruct (can_init c m) eqn:Eci.
        * (* handled at once: not a request *)
          pose proof (can_init_not_req _ _ Eci) as Hnr.
          set (s0 := set_input r s).
          assert (Hlc0 : lc_main (rest s0) = true).
          { unfold rest, s0. cbn [set_input st_pending st_input].
            unfold rest in Hlife. rewrite Ein in Hlife. eapply lc_main_del; eassumption. }
          assert (Hlc1 : lc_main (m :: rest s0) = true).
          { rewrite lc_main_cons. destruct (is_shutdown m) eqn:E; [|exact Hlc0].
            apply is_shutdown_req in E. congruence. }
          split.
          -- intros i. rewrite (handle_total c m s0 i Hfix Hlc1), (not_req_count i m Hnr), <- Htot.
             unfold total, rest, s0. cbn [set_input st_out st_tasks st_pending st_input]. rewrite Ein.
             rewrite !count_req_app, count_req_cons, (not_req_count i m Hnr). reflexivity.
          -- destruct (handle_life c m s0 Hlc1) as [[Hs _]|[_ [Hg [Hp [Hi Hl]]]]].
             ++ apply is_shutdown_req in Hs. congruence.
             ++ unfold life. rewrite Hg. unfold s0 at 1. cbn [set_input st_stage]. rewrite Est.
                unfold rest. rewrite Hp, Hi. exact Hl.
        * (* queued *)
          split.
          -- intros i. rewrite <- Htot. unfold total, rest.
             cbn [set_pending set_input st_out st_tasks st_pending st_input]. rewrite Ein, app_snoc. reflexivity.
          -- unfold life, rest. cbn [set_pending set_input st_stage st_pending st_input]. rewrite Est.
             unfold rest in Hlife. rewrite Ein in Hlife. rewrite app_snoc. exact Hlife.
      + (* SReplay *)
        destruct (st_pending s) as [|m p] eqn:Ep.
        * inversion Hstep; subst s'; clear Hstep. split.
          -- intros i. rewrite total_set_stage. apply Htot.
          -- unfold life. cbn [set_stage st_stage st_pending st_input]. unfold rest in Hlife. rewrite Ep in *. split; [reflexivity|exact Hlife].
        * inversion Hstep; subst s'; clear Hstep.
          set (s0 := set_pending p s).
          assert (Hlc1 : lc_main (m :: rest s0) = true).
          { unfold rest, s0. cbn [set_pending st_pending st_input]. unfold rest in Hlife. rewrite Ep in Hlife. exact Hlife. }
          split.
          -- intros i. rewrite (handle_total c m s0 i Hfix Hlc1), <- Htot.
             unfold total, rest, s0. cbn [set_pending st_out st_tasks st_pending st_input]. rewrite Ep.
             cbn [app]. rewrite count_req_cons. lia.
          -- destruct (handle_life c m s0 Hlc1) as [[_ [Hg Hn]]|[_ [Hg [Hp [Hi Hl]]]]].
             ++ unfold life. rewrite Hg. exact Hn.
             ++ unfold life. rewrite Hg. unfold s0 at 1. cbn [set_pending st_stage]. rewrite Est.
                unfold rest. rewrite Hp, Hi. exact Hl.
      + (* SRun *)
        destruct Hlife as [Hp Hlc]. destruct (st_input s) as [|m r] eqn:Ein; [discriminate|].
        inversion Hstep; subst s'; clear Hstep.
        set (s0 := set_input r s).
        assert (Hlc1 : lc_main (m :: rest s0) = true).
        { unfold rest, s0. cbn [set_input st_pending st_input]. rewrite Hp. exact Hlc. }
        split.
        * intros i. rewrite (handle_total c m s0 i Hfix Hlc1), <- Htot.
          unfold total, rest, s0. cbn [set_input st_out st_tasks st_pending st_input]. rewrite Ein, Hp.
          cbn [app]. rewrite count_req_cons. lia.
        * destruct (handle_life c m s0 Hlc1) as [[_ [Hg Hn]]|[_ [Hg [Hp' [Hi Hl]]]]].
          -- unfold life. rewrite Hg. exact Hn.
          -- unfold life. rewrite Hg. unfold s0 at 1. cbn [set_input st_stage]. rewrite Est.
             rewrite Hp', Hi. unfold s0. cbn [set_input st_pending st_input]. split; [exact Hp|].
             unfold rest, s0 in Hl. cbn [set_input st_pending st_input] in Hl. rewrite Hp in Hl. exact Hl.
      + (* SShutdownWait *)
        inversion Hstep; subst s'; clear Hstep.
        assert (Hn : no_reqs (st_pending s) = true /\ no_reqs (st_input s) = true).
        { unfold rest in Hlife. rewrite no_reqs_app in Hlife. apply andb_true_iff in Hlife. exact Hlife. }
        destruct Hn as [Hnp Hni]. pose proof (no_reqs_tl _ Hni) as Hnt.
        split.
        * intros i. rewrite total_set_stage, <- Htot. unfold total, rest.
          cbn [set_input st_out st_tasks st_pending st_input]. rewrite !count_req_app.
          rewrite (no_reqs_count i _ Hni), (no_reqs_count i _ Hnt). reflexivity.
        * unfold life, rest. cbn [set_stage set_input st_stage st_pending st_input].
          rewrite no_reqs_app, Hnp, Hnt. reflexivity.
      + discriminate.
      + discriminate.
    - (* LInitDone *)
      destruct (st_stage s) eqn:Est; try discriminate. inversion Hstep; subst s'; clear Hstep.
      split.
      + intros i. rewrite total_set_stage. apply Htot.
      + unfold life in *. cbn [set_stage st_stage]. rewrite Est in Hlife. exact Hlife.
    - (* LTask *)
      destruct (nth_error (st_tasks s) k) as [t|] eqn:En; [|discriminate].
      inversion Hstep; subst s'; clear Hstep.
      destruct (resp_of_some (t_cancel t) o) as [r Hr]. rewrite Hr.
      split.
      + intros i. rewrite <- Htot. unfold total, rest.
        cbn [set_cmap emit set_tasks st_out st_tasks st_pending st_input].
        rewrite count_out_emit, (count_tasks_remove_nth i k _ t En). unfold unit_of. lia.
      + unfold life in *. cbn [set_cmap emit set_tasks st_stage st_pending st_input]. exact Hlife.
  Qed.

  Lemma inv_init : forall msgs, lifecycle_ok msgs = true -> inv msgs (init msgs).
  Proof.
    intros msgs H. split.
    - intros i. reflexivity.
    - unfold life. cbn [init st_stage st_pending st_input]. split; [reflexivity|exact H].
  Qed.

  Lemma inv_run : forall msgs sched s,
    lifecycle_ok msgs = true -> run (step c) (init msgs) sched = Some s -> inv msgs s.
  Proof.
    intros msgs sched s Hl Hr.
    eapply (run_invariant _ _ (step c) (inv msgs)); [|apply inv_init; exact Hl|exact Hr].
    intros l s1 s2. apply inv_step.
  Qed.
End Fixed.

(** ------------------------------------------------------------------ quiescence *)
Lemma step_task0 : forall c s t r o, st_tasks s = t :: r -> exists s', step c (LTask 0 o) s = Some s'.
Proof. intros c s t r o H. cbn [step]. rewrite H. cbn [nth_error]. eexists; reflexivity. Qed.

Lemma pick_spec : forall c s,
  match pick s with
  | Some l => exists s', step c l s = Some s'
  | None => quiescent (step c) s
  end.
Proof.
  intros c s. unfold pick. destruct (st_tasks s) as [|t r] eqn:Et.
  - assert (Htask : forall k o, step c (LTask k o) s = None).
    { intros k o. cbn [step]. rewrite Et. destruct k; reflexivity. }
    destruct (st_stage s) eqn:Est.
    + destruct (st_input s) eqn:Ein.
      * intros [| |k o]; [|cbn [step]; rewrite Est; reflexivity|apply Htask].
        cbn [step]. unfold main_step. rewrite Est, Ein. reflexivity.
      * cbn [step]. unfold main_step. rewrite Est, Ein. eexists; reflexivity.
    + destruct (st_input s) eqn:Ein.
      * intros [| |k o]; [|cbn [step]; rewrite Est; reflexivity|apply Htask].
        cbn [step]. unfold main_step. rewrite Est, Ein. reflexivity.
      * cbn [step]. unfold main_step. rewrite Est, Ein. eexists; reflexivity.
    + cbn [step]. rewrite Est. eexists; reflexivity.
    + cbn [step]. unfold main_step. rewrite Est. destruct (st_pending s); eexists; reflexivity.
    + destruct (st_input s) eqn:Ein.
      * intros [| |k o]; [|cbn [step]; rewrite Est; reflexivity|apply Htask].
        cbn [step]. unfold main_step. rewrite Est, Ein. reflexivity.
      * cbn [step]. unfold main_step. rewrite Est, Ein. eexists; reflexivity.
    + cbn [step]. unfold main_step. rewrite Est. eexists; reflexivity.
    + intros [| |k o]; [|cbn [step]; rewrite Est; reflexivity|apply Htask].
      cbn [step]. unfold main_step. rewrite Est. reflexivity.
    + intros [| |k o]; [|cbn [step]; rewrite Est; reflexivity|apply Htask].
      cbn [step]. unfold main_step. rewrite Est. reflexivity.
  - eapply step_task0. exact Et.
Qed.

Lemma quiescentb_sound : forall c s, quiescentb s = true -> quiescent (step c) s.
Proof.
  intros c s H. unfold quiescentb in H. pose proof (pick_spec c s) as P.
  destruct (pick s); [discriminate|exact P].
Qed.

(** what a quiescent state looks like *)
Lemma quiescent_shape : forall c s,
  quiescent (step c) s ->
  st_tasks s = [] /\
  match st_stage s with
  | SPreInit | SAwaitInitialized | SRun => st_input s = []
  | SStopped | SCrashed => True
  | SInit | SReplay | SShutdownWait => False
  end.
Proof.
  intros c s Hq. split.
  - destruct (st_tasks s) as [|t r] eqn:Et; [reflexivity|].
    destruct (step_task0 c s t r HOk Et) as [s' Hs]. rewrite (Hq (LTask 0 HOk)) in Hs. discriminate.
  - pose proof (Hq LMain) as Hm. pose proof (Hq LInitDone) as Hi. cbn [step] in Hm, Hi. unfold main_step in Hm.
    destruct (st_stage s); try exact I; try discriminate.
    + destruct (st_input s); [reflexivity|discriminate].
    + destruct (st_input s); [reflexivity|discriminate].
    + destruct (st_pending s); discriminate.
    + destruct (st_input s); [reflexivity|discriminate].
Qed.

(** ------------------------------------------------------------------ the measure *)
Lemma handle_measure : forall c m s,
  3 * List.length (st_input (handle c m s)) + 2 * List.length (st_pending (handle c m s)) +
  List.length (st_tasks (handle c m s)) + stage_weight (st_stage (handle c m s)) <=
  3 * List.length (st_input s) + 2 * List.length (st_pending s) + List.length (st_tasks s) + stage_weight (st_stage s) + 1
  \/ st_stage (handle c m s) = SShutdownWait /\ st_input (handle c m s) = st_input s /\
     st_pending (handle c m s) = [] /\ st_tasks (handle c m s) = st_tasks s.
Proof.
  intros c m s. destruct (handle_hform c m s) as [j meth pok Hm Hs|j meth pok Hm Hs|j meth pok r Hm Hs|j meth pok Hm Hs He|Hm|j Hm].
  - right. repeat split; reflexivity.
  - left. cbn [spawn st_input st_pending st_tasks st_stage]. rewrite app_length. cbn [List.length]. lia.
  - left. cbn [emit st_input st_pending st_tasks st_stage]. lia.
  - left. lia.
  - left. lia.
  - left. destruct (cancel_fields j s) as [H1 [H2 [H3 [_ H5]]]]. rewrite H1, H2, H3, H5. lia.
Qed.

Lemma step_measure : forall c l s s', step c l s = Some s' -> measure s' < measure s.
Proof.
  intros c l s s' H. destruct l as [| |k o]; cbn [step] in H.
  - unfold main_step in H. destruct (st_stage s) eqn:Est.
    + destruct (st_input s) as [|m r] eqn:Ein; [discriminate|]. inversion H; subst s'; clear H.
      unfold measure. rewrite Est, Ein.
      destruct m as [j meth pok|meth tgt|j].
      * destruct (meth =? "initialize"); [destruct pok; [|destruct (c_init_unwrap c)]|];
          cbn [emit set_stage set_input st_input st_pending st_tasks st_stage stage_weight List.length]; try rewrite Est; cbn [stage_weight]; lia.
      * destruct (meth =? "exit");
          cbn [emit set_stage set_input st_input st_pending st_tasks st_stage stage_weight List.length]; try rewrite Est; cbn [stage_weight]; lia.
      * cbn [emit set_stage set_input st_input st_pending st_tasks st_stage stage_weight List.length]. lia.
    + destruct (st_input s) as [|m r] eqn:Ein; [discriminate|]. inversion H; subst s'; clear H.
      unfold measure. rewrite Est, Ein.
      destruct m as [j meth pok|meth tgt|j]; [| destruct (meth =? "initialized") |];
        cbn [emit set_stage set_input st_input st_pending st_tasks st_stage stage_weight List.length]; lia.
    + destruct (st_input s) as [|m r] eqn:Ein; [discriminate|]. inversion H; subst s'; clear H.
      unfold measure. rewrite Est, Ein. destruct (can_init c m).
      * destruct (handle_measure c m (set_input r s)) as [Hle|[Hg [Hi [Hp Ht]]]].
        -- cbn [set_input st_input st_pending st_tasks st_stage] in Hle. rewrite Est in Hle.
           cbn [List.length stage_weight] in *. lia.
        -- rewrite Hg, Hi, Hp, Ht. cbn [set_input st_input st_pending st_tasks st_stage List.length stage_weight]. lia.
      * cbn [set_pending set_input st_input st_pending st_tasks st_stage]. rewrite Est, app_length.
        cbn [List.length stage_weight]. lia.
    + destruct (st_pending s) as [|m p] eqn:Ep.
      * inversion H; subst s'; clear H. unfold measure.
        cbn [set_stage st_input st_pending st_tasks st_stage]. rewrite Est, Ep. cbn [stage_weight]. lia.
      * inversion H; subst s'; clear H. unfold measure. rewrite Est, Ep.
        destruct (handle_measure c m (set_pending p s)) as [Hle|[Hg [Hi [Hp Ht]]]].
        -- cbn [set_pending st_input st_pending st_tasks st_stage] in Hle. rewrite Est in Hle.
           cbn [List.length stage_weight] in *. lia.
        -- rewrite Hg, Hi, Hp, Ht. cbn [set_pending st_input st_pending st_tasks st_stage List.length stage_weight]. lia.
    + destruct (st_input s) as [|m r] eqn:Ein; [discriminate|]. inversion H; subst s'; clear H.
      unfold measure. rewrite Est, Ein.
      destruct (handle_measure c m (set_input r s)) as [Hle|[Hg [Hi [Hp Ht]]]].
      * cbn [set_input st_input st_pending st_tasks st_stage] in Hle. rewrite Est in Hle.
        cbn [List.length stage_weight] in *. lia.
      * rewrite Hg, Hi, Hp, Ht. cbn [set_input st_input st_pending st_tasks st_stage List.length stage_weight]. lia.
    + inversion H; subst s'; clear H. unfold measure.
      cbn [set_stage set_input st_input st_pending st_tasks st_stage]. rewrite Est. cbn [stage_weight].
      destruct (st_input s); cbn [tl List.length]; lia.
    + discriminate.
    + discriminate.
  - destruct (st_stage s) eqn:Est; try discriminate. inversion H; subst s'; clear H.
    unfold measure. cbn [set_stage st_input st_pending st_tasks st_stage]. rewrite Est. cbn [stage_weight]. lia.
  - destruct (nth_error (st_tasks s) k) as [t|] eqn:En; [|discriminate]. inversion H; subst s'; clear H.
    pose proof (length_remove_nth k _ t En) as Hl. unfold measure.
    destruct (resp_of c (t_cancel t) o);
      cbn [set_cmap emit set_tasks st_input st_pending st_tasks st_stage]; lia.
Qed.

(** ------------------------------------------------------------------ never more than one *)
Lemma le_step : forall c msgs l s s',
  (forall i, total i s <= count_req i msgs) -> step c l s = Some s' ->
  (forall i, total i s' <= count_req i msgs).
Proof.
  intros c msgs l s s' Hle Hstep i. specialize (Hle i).
  destruct l as [| |k o]; cbn [step] in Hstep.
  - unfold main_step in Hstep. destruct (st_stage s) eqn:Est.
    + destruct (st_input s) as [|m r] eqn:Ein; [discriminate|]. inversion Hstep; subst s'; clear Hstep.
      assert (Hb : total i (set_input r s) + (if is_req_id i m then 1 else 0) = total i s).
      { unfold total, rest. cbn [set_input st_out st_tasks st_pending st_input]. rewrite Ein.
        rewrite !count_req_app, count_req_cons. lia. }
      destruct m as [j meth pok|meth tgt|j].
      * rewrite is_req_id_unit in Hb.
        destruct (meth =? "initialize"); [destruct pok; [|destruct (c_init_unwrap c)]|];
          rewrite ?total_emit, ?total_set_stage; lia.
      * destruct (meth =? "exit"); rewrite ?total_set_stage; lia.
      * rewrite total_set_stage. lia.
    + destruct (st_input s) as [|m r] eqn:Ein; [discriminate|]. inversion Hstep; subst s'; clear Hstep.
      assert (Hb : total i (set_input r s) <= total i s).
      { unfold total, rest. cbn [set_input st_out st_tasks st_pending st_input]. rewrite Ein.
        rewrite !count_req_app, count_req_cons. lia. }
      destruct m as [j meth pok|meth tgt|j]; [| destruct (meth =? "initialized") |]; rewrite total_set_stage; lia.
    + destruct (st_input s) as [|m r] eqn:Ein; [discriminate|]. inversion Hstep; subst s'; clear Hstep.
      destruct (can_init c m).
      * pose proof (handle_total_le c m (set_input r s) i) as Hh.
        assert (Hb : total i (set_input r s) + (if is_req_id i m then 1 else 0) = total i s).
        { unfold total, rest. cbn [set_input st_out st_tasks st_pending st_input]. rewrite Ein.
          rewrite !count_req_app, count_req_cons. lia. }
        lia.
      * match goal with |- total i ?x <= _ => assert (Hb : total i x = total i s) end.
        { unfold total, rest. cbn [set_pending set_input st_out st_tasks st_pending st_input]. rewrite Ein, app_snoc. reflexivity. }
        rewrite Hb. exact Hle.
    + destruct (st_pending s) as [|m p] eqn:Ep; inversion Hstep; subst s'; clear Hstep.
      * rewrite total_set_stage. lia.
      * pose proof (handle_total_le c m (set_pending p s) i) as Hh.
        assert (Hb : total i (set_pending p s) + (if is_req_id i m then 1 else 0) = total i s).
        { unfold total, rest. cbn [set_pending st_out st_tasks st_pending st_input]. rewrite Ep.
          cbn [app]. rewrite count_req_cons. lia. }
        lia.
    + destruct (st_input s) as [|m r] eqn:Ein; [discriminate|]. inversion Hstep; subst s'; clear Hstep.
      pose proof (handle_total_le c m (set_input r s) i) as Hh.
      assert (Hb : total i (set_input r s) + (if is_req_id i m then 1 else 0) = total i s).
      { unfold total, rest. cbn [set_input st_out st_tasks st_pending st_input]. rewrite Ein.
        rewrite !count_req_app, count_req_cons. lia. }
      lia.
    + inversion Hstep; subst s'; clear Hstep. rewrite total_set_stage.
      assert (Hb : total i (set_input (tl (st_input s)) s) <= total i s).
      { unfold total, rest. cbn [set_input st_out st_tasks st_pending st_input].
        rewrite !count_req_app. destruct (st_input s) as [|m r]; cbn [tl]; [lia|]. rewrite count_req_cons. lia. }
      lia.
    + discriminate.
    + discriminate.
  - destruct (st_stage s); try discriminate. inversion Hstep; subst s'; clear Hstep. rewrite total_set_stage. exact Hle.
  - destruct (nth_error (st_tasks s) k) as [t|] eqn:En; [|discriminate]. inversion Hstep; subst s'; clear Hstep.
    pose proof (count_tasks_remove_nth i k _ t En) as Hc.
    destruct (resp_of c (t_cancel t) o); unfold total, rest in *;
      cbn [set_cmap emit set_tasks st_out st_tasks st_pending st_input]; rewrite ?count_out_emit; unfold unit_of; lia.
Qed.

Lemma never_more_than_one : forall c msgs sched s i,
  run (step c) (init msgs) sched = Some s -> count_out i (st_out s) <= count_req i msgs.
Proof.
  intros c msgs sched s i Hr.
  assert (H : forall j, total j s <= count_req j msgs).
  { eapply (run_invariant _ _ (step c) (fun s => forall j, total j s <= count_req j msgs)); [|  |exact Hr].
    - intros l s1 s2. apply le_step.
    - intros j. unfold total, rest, count_out, count_tasks. cbn [init st_out st_tasks st_pending st_input app filter List.length]. lia. }
  specialize (H i). unfold total in H. lia.
Qed.

(** ------------------------------------------------------------------ exactly one at quiescence *)
Lemma one_response_gen : forall c msgs sched s,
  cfg_fixed c = true ->
  lifecycle_ok msgs = true ->
  run (step c) (init msgs) sched = Some s ->
  quiescent (step c) s ->
  forall i, count_out i (st_out s) = count_req i msgs.
Proof.
  intros c msgs sched s Hfix Hl Hr Hq i.
  destruct (inv_run c Hfix msgs sched s Hl Hr) as [Htot Hlife].
  destruct (quiescent_shape c s Hq) as [Ht Hs].
  rewrite <- Htot. unfold total. rewrite Ht. cbn [count_tasks filter List.length].
  assert (Hz : count_req i (rest s) = 0).
  { unfold life in Hlife. destruct (st_stage s) eqn:Est; try contradiction.
    - destruct Hlife as [Hp _]. unfold rest. rewrite Hp, Hs. reflexivity.
    - destruct Hlife as [Hp _]. unfold rest. rewrite Hp, Hs. reflexivity.
    - destruct Hlife as [Hp _]. unfold rest. rewrite Hp, Hs. reflexivity.
    - apply no_reqs_count. exact Hlife. }
  rewrite Hz. unfold count_tasks. cbn. lia.
Qed.

(** ------------------------------------------------------------------ keeps serving *)
Definition alive (s : state) : Prop :=
  match st_stage s with
  | SPreInit => st_pending s = [] /\ kr_pre (st_input s) = true
  | SAwaitInitialized => st_pending s = [] /\ kr_await (st_input s) = true
  | SInit | SReplay | SRun => kr_main (rest s) = true
  | SShutdownWait | SStopped | SCrashed => False
  end.

Lemma kr_main_app : forall a b, kr_main (a ++ b) = kr_main a && kr_main b.
Proof. intros. unfold kr_main. apply forallb_app. Qed.

Lemma kr_main_cons : forall m l, kr_main (m :: l) = negb (is_shutdown m) && kr_main l.
Proof. reflexivity. Qed.

Lemma handle_alive : forall c m s,
  is_shutdown m = false ->
  st_stage (handle c m s) = st_stage s /\ st_pending (handle c m s) = st_pending s /\ st_input (handle c m s) = st_input s.
Proof.
  intros c m s Hs. destruct (handle_hform c m s) as [j meth pok Hm Hs'|j meth pok Hm Hs'|j meth pok r Hm Hs'|j meth pok Hm Hs' He|Hm|j Hm];
    try (repeat split; reflexivity).
  - congruence.
  - destruct (cancel_fields j s) as [H1 [H2 [H3 _]]]. repeat split; assumption.
Qed.

Lemma alive_step : forall c l s s', cfg_fixed c = true -> alive s -> step c l s = Some s' -> alive s'.
Proof.
  intros c l s s' Hfix Ha Hstep. destruct l as [| |k o]; cbn [step] in Hstep.
  - unfold main_step in Hstep. unfold alive in Ha. destruct (st_stage s) eqn:Est; try contradiction.
    + destruct Ha as [Hp Hk]. destruct (st_input s) as [|m r] eqn:Ein; [discriminate|]. inversion Hstep; subst s'; clear Hstep.
      cbn [kr_pre] in Hk. destruct m as [j meth pok|meth tgt|j]; [| |discriminate].
      * destruct (meth =? "initialize"); cbn [andb] in Hk.
        -- destruct pok.
           ++ unfold alive. cbn [emit set_stage set_input st_stage st_pending st_input]. split; assumption.
           ++ rewrite (fix_unwrap c Hfix). unfold alive. cbn [emit set_input st_stage st_pending st_input]. rewrite Est. split; assumption.
        -- unfold alive. cbn [emit set_input st_stage st_pending st_input]. rewrite Est. split; assumption.
      * destruct (meth =? "exit"); [discriminate|].
        unfold alive. cbn [set_input st_stage st_pending st_input]. rewrite Est. split; assumption.
    + destruct Ha as [Hp Hk]. destruct (st_input s) as [|m r] eqn:Ein; [discriminate|]. inversion Hstep; subst s'; clear Hstep.
      unfold kr_await in Hk. destruct m as [j meth pok|meth tgt|j]; try discriminate.
      apply andb_true_iff in Hk as [Hi Hk]. rewrite Hi.
      unfold alive, rest. cbn [set_stage set_input st_stage st_pending st_input]. rewrite Hp. exact Hk.
    + destruct (st_input s) as [|m r] eqn:Ein; [discriminate|]. inversion Hstep; subst s'; clear Hstep.
      unfold rest in Ha. rewrite Ein, kr_main_app, kr_main_cons in Ha.
      apply andb_true_iff in Ha as [Hkp Ha]. apply andb_true_iff in Ha as [Hm Hkr]. apply negb_true_iff in Hm.
      destruct (can_init c m).
      * destruct (handle_alive c m (set_input r s) Hm) as [Hg [Hp Hi]].
        unfold alive. rewrite Hg. cbn [set_input st_stage]. rewrite Est. unfold rest. rewrite Hp, Hi.
        cbn [set_input st_pending st_input]. rewrite kr_main_app, Hkp, Hkr. reflexivity.
      * unfold alive, rest. cbn [set_pending set_input st_stage st_pending st_input]. rewrite Est.
        rewrite !kr_main_app, kr_main_cons, Hkp, Hm, Hkr. reflexivity.
    + destruct (st_pending s) as [|m p] eqn:Ep; inversion Hstep; subst s'; clear Hstep.
      * unfold alive, rest in *. cbn [set_stage st_stage st_pending st_input]. rewrite Ep in *. exact Ha.
      * unfold rest in Ha. rewrite Ep in Ha. cbn [app] in Ha. rewrite kr_main_cons in Ha.
        apply andb_true_iff in Ha as [Hm Hk]. apply negb_true_iff in Hm.
        destruct (handle_alive c m (set_pending p s) Hm) as [Hg [Hp Hi]].
        unfold alive. rewrite Hg. cbn [set_pending st_stage]. rewrite Est. unfold rest. rewrite Hp, Hi. exact Hk.
    + destruct (st_input s) as [|m r] eqn:Ein; [discriminate|]. inversion Hstep; subst s'; clear Hstep.
      unfold rest in Ha. rewrite Ein, kr_main_app, kr_main_cons in Ha.
      apply andb_true_iff in Ha as [Hkp Ha]. apply andb_true_iff in Ha as [Hm Hkr]. apply negb_true_iff in Hm.
      destruct (handle_alive c m (set_input r s) Hm) as [Hg [Hp Hi]].
      unfold alive. rewrite Hg. cbn [set_input st_stage]. rewrite Est. unfold rest. rewrite Hp, Hi.
      cbn [set_input st_pending st_input]. rewrite kr_main_app, Hkp, Hkr. reflexivity.
  - destruct (st_stage s) eqn:Est; try discriminate. inversion Hstep; subst s'; clear Hstep.
    unfold alive in *. cbn [set_stage st_stage]. rewrite Est in Ha. exact Ha.
  - destruct (nth_error (st_tasks s) k) as [t|]; [|discriminate]. inversion Hstep; subst s'; clear Hstep.
    unfold alive in *. destruct (resp_of c (t_cancel t) o); cbn [set_cmap emit set_tasks st_stage st_pending st_input]; exact Ha.
Qed.

Lemma keeps_serving_gen : forall c msgs sched s,
  cfg_fixed c = true ->
  run (step c) (init msgs) sched = Some s ->
  (* never crashes *)
  (lifecycle_ok msgs = true -> st_stage s <> SCrashed) /\
  (* never stops listening unless the session asked for it *)
  (keeps_running msgs = true -> st_stage s <> SStopped /\ st_stage s <> SShutdownWait /\ st_stage s <> SCrashed) /\
  (* every schedule is finite ... *)
  List.length sched <= measure (init msgs) /\
  (* ... and can be completed to a quiescent state *)
  (exists sched' s', run (step c) s sched' = Some s' /\ quiescent (step c) s').
Proof.
  intros c msgs sched s Hfix Hr. repeat split.
  - intros Hl. destruct (inv_run c Hfix msgs sched s Hl Hr) as [_ Hlife]. unfold life in Hlife.
    intros E. rewrite E in Hlife. exact Hlife.
  - assert (Ha : alive s).
    { eapply (run_invariant _ _ (step c) alive); [| |exact Hr].
      - intros l s1 s2 Ha1 Hs. eapply alive_step; eassumption.
      - unfold alive. cbn [init st_stage st_pending st_input]. split; [reflexivity|exact H]. }
    unfold alive in Ha. intros E. rewrite E in Ha. exact Ha.
  - assert (Ha : alive s).
    { eapply (run_invariant _ _ (step c) alive); [| |exact Hr].
      - intros l s1 s2 Ha1 Hs. eapply alive_step; eassumption.
      - unfold alive. cbn [init st_stage st_pending st_input]. split; [reflexivity|exact H]. }
    unfold alive in Ha. intros E. rewrite E in Ha. exact Ha.
  - assert (Ha : alive s).
    { eapply (run_invariant _ _ (step c) alive); [| |exact Hr].
      - intros l s1 s2 Ha1 Hs. eapply alive_step; eassumption.
      - unfold alive. cbn [init st_stage st_pending st_input]. split; [reflexivity|exact H]. }
    unfold alive in Ha. intros E. rewrite E in Ha. exact Ha.
  - pose proof (run_measure _ _ (step c) measure (step_measure c) sched (init msgs) s Hr). lia.
  - eapply (reaches_quiescence _ _ (step c) measure pick (step_measure c) (pick_spec c) (measure s)). lia.
Qed.

(** ------------------------------------------------------------------ theorems of Props.v *)
Lemma today_is_fixed : cfg_fixed today = true.
Proof. vm_compute. reflexivity. Qed.

Lemma today_init_queue : init_allows_requests = false.
Proof. reflexivity. Qed.

Lemma one_response_per_request : forall (msgs : list msg) (sched : list label) (s : state),
  lifecycle_ok msgs = true ->
  run (step today) (init msgs) sched = Some s ->
  quiescent (step today) s ->
  forall i, count_out i (st_out s) = count_req i msgs.
Proof. intros. eapply one_response_gen; try eassumption. exact today_is_fixed. Qed.

Lemma never_more_than_one_response : forall (msgs : list msg) (sched : list label) (s : state) (i : rid),
  run (step today) (init msgs) sched = Some s -> (count_out i (st_out s) <= count_req i msgs)%nat.
Proof. intros. eapply never_more_than_one; eassumption. Qed.

Lemma server_keeps_serving : forall (msgs : list msg) (sched : list label) (s : state),
  run (step today) (init msgs) sched = Some s ->
  (lifecycle_ok msgs = true -> st_stage s <> SCrashed) /\
  (keeps_running msgs = true -> st_stage s <> SStopped /\ st_stage s <> SShutdownWait /\ st_stage s <> SCrashed) /\
  (List.length sched <= measure (init msgs))%nat /\
  (exists sched' s', run (step today) s sched' = Some s' /\ quiescent (step today) s').
Proof. intros. apply keeps_serving_gen; [exact today_is_fixed|assumption]. Qed.

(** the configurations before each repair *)
Definition without_extract_err : cfg :=
  {| c_methods := request_methods; c_extract_err := false; c_catch_panic := true; c_init_unwrap := false;
     c_init_notifs := init_allowed_notifications; c_init_resps := init_allows_responses |}.
Definition without_catch_panic : cfg :=
  {| c_methods := request_methods; c_extract_err := true; c_catch_panic := false; c_init_unwrap := false;
     c_init_notifs := init_allowed_notifications; c_init_resps := init_allows_responses |}.
Definition with_init_unwrap : cfg :=
  {| c_methods := request_methods; c_extract_err := true; c_catch_panic := true; c_init_unwrap := true;
     c_init_notifs := init_allowed_notifications; c_init_resps := init_allows_responses |}.

Local Open Scope N_scope.

Definition handshake : list msg :=
  [MReq 0 "initialize" true; MNotif "initialized" None].

Lemma bad_params_refuted :
  exists (msgs : list msg) (sched : list label) (s : state),
    lifecycle_ok msgs = true /\
    run (step without_extract_err) (init msgs) sched = Some s /\
    quiescent (step without_extract_err) s /\
    count_req 7 msgs = 1%nat /\ count_out 7 (st_out s) = 0%nat /\
    (* ... while the unknown method next to it is answered *)
    count_req 8 msgs = 1%nat /\ count_out 8 (st_out s) = 1%nat.
Proof.
  set (msgs := handshake ++ [MReq 7 "textDocument/hover" false; MReq 8 "no/such" true]).
  set (sched := [LMain; LMain; LInitDone; LMain; LMain; LMain]).
  destruct (run (step without_extract_err) (init msgs) sched) as [s|] eqn:E; [|vm_compute in E; discriminate].
  exists msgs, sched, s. split; [reflexivity|]. split; [exact E|].
  vm_compute in E. inversion E; subst s; clear E.
  split; [apply quiescentb_sound; reflexivity|]. repeat split; reflexivity.
Qed.

Lemma panic_refuted :
  exists (msgs : list msg) (sched : list label) (s : state),
    lifecycle_ok msgs = true /\
    run (step without_catch_panic) (init msgs) sched = Some s /\
    quiescent (step without_catch_panic) s /\
    count_req 7 msgs = 1%nat /\ count_out 7 (st_out s) = 0%nat /\
    (* the cancellations entry of the dead task is never removed *)
    st_cmap s <> [].
Proof.
  set (msgs := handshake ++ [MReq 7 "textDocument/hover" true]).
  set (sched := [LMain; LMain; LInitDone; LMain; LMain; LTask 0 HPanic]).
  destruct (run (step without_catch_panic) (init msgs) sched) as [s|] eqn:E; [|vm_compute in E; discriminate].
  exists msgs, sched, s. split; [reflexivity|]. split; [exact E|].
  vm_compute in E. inversion E; subst s; clear E.
  split; [apply quiescentb_sound; reflexivity|]. repeat split; try reflexivity. discriminate.
Qed.

Lemma init_caps_refuted :
  exists (msgs : list msg) (sched : list label) (s : state),
    lifecycle_ok msgs = true /\
    run (step with_init_unwrap) (init msgs) sched = Some s /\
    quiescent (step with_init_unwrap) s /\
    st_stage s = SCrashed /\
    count_req 0 msgs = 1%nat /\ count_out 0 (st_out s) = 0%nat /\
    (* the retry and the request after it are never answered either *)
    count_req 1 msgs = 1%nat /\ count_out 1 (st_out s) = 0%nat.
Proof.
  set (msgs := [MReq 0 "initialize" false; MReq 1 "initialize" true; MNotif "initialized" None]).
  set (sched := [LMain]).
  destruct (run (step with_init_unwrap) (init msgs) sched) as [s|] eqn:E; [|vm_compute in E; discriminate].
  exists msgs, sched, s. split; [reflexivity|]. split; [exact E|].
  vm_compute in E. inversion E; subst s; clear E.
  split; [apply quiescentb_sound; reflexivity|]. repeat split; reflexivity.
Qed.

(** a session that uses every path: a request before initialize, a malformed initialize, the
    handshake, requests queued during initialization, a cancellation that arrives while the task
    runs, a panic, a handler returning None, malformed params, an unknown method, duplicate ids,
    shutdown and exit — under one particular interleaving *)
Definition example_msgs : list msg :=
  [MReq 1 "textDocument/hover" true;           (* before initialize: -32002 *)
   MReq 2 "initialize" false;                  (* malformed: -32602, server keeps waiting *)
   MReq 3 "initialize" true; MNotif "initialized" None;
   MReq 4 "textDocument/hover" true;           (* queued during initialization *)
   MNotif "$/cancelRequest" (Some 4);          (* processed at once: nothing to cancel yet *)
   MReq 5 "textDocument/completion" false;     (* queued; -32602 on replay *)
   MReq 6 "textDocument/definition" true;
   MNotif "$/cancelRequest" (Some 6);
   MReq 7 "textDocument/rename" true;          (* will panic *)
   MReq 8 "workspace/symbol" true;             (* will return None *)
   MReq 9 "no/such" true;
   MReq 4 "textDocument/hover" true;           (* duplicate id *)
   MResp 77;
   MReq 10 "shutdown" false; MNotif "exit" None].

Definition example_sched : list label :=
  [LMain; LMain; LMain; LMain;                 (* 1, 2, 3, initialized *)
   LMain; LMain; LMain;                        (* 4 queued, cancel 4 handled, 5 queued *)
   LInitDone; LMain; LMain; LMain;             (* replay 4 (spawn), 5 (error); pending empty -> run *)
   LMain; LMain;                               (* 6 spawned, cancel 6 *)
   LTask 0 HOk;                                (* first 4 answers ok *)
   LMain; LMain; LMain; LMain;                 (* 7, 8 spawned, 9 unknown, second 4 spawned *)
   LTask 0 HOk;                                (* 6: cancelled *)
   LTask 0 HPanic; LTask 0 HNone;              (* 7, 8: internal error *)
   LMain; LMain; LMain;                        (* response, shutdown, exit *)
   LTask 0 HOk].                               (* second 4 answers after the loop ended *)

Lemma session_example :
  lifecycle_ok example_msgs = true /\
  match run (step today) (init example_msgs) example_sched with
  | Some s => quiescentb s = true /\ st_stage s = SStopped /\
              rev (st_out s) =
              [(1, CNotInitialized); (2, CInvalidParams); (3, COk); (5, CInvalidParams); (4, COk);
               (9, CMethodNotFound); (6, CCancelled); (7, CInternal); (8, CInternal); (10, COk); (4, COk)]
  | None => False
  end.
Proof. vm_compute. repeat split; reflexivity. Qed.
