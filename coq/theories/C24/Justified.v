(** C24/Justified.v — lemmas: a response is "cancelled" only if the client cancelled that id, and every
    response has a class that some request with that id justifies (invariants over all schedules). *)
From Coq Require Import List NArith Bool String Arith Lia.
Import ListNotations.
From EV Require Import Base.LTS Gen.C24_Dispatch C24.Model C24.Proofs.
Local Open Scope string_scope.
Local Open Scope list_scope.
Arguments String.eqb : simpl never.
Arguments N.eqb : simpl never.

(** ------------------------------------------------------------------ cancelled only if asked *)

Record jinv (msgs : list msg) (s : state) : Prop := {
  j_tok : forall t, In t (st_tasks s) -> (t_tok t < st_next s)%N;
  j_map : forall j k, In (j, k) (st_cmap s) -> (k < st_next s)%N;
  j_own : forall j k t, In (j, k) (st_cmap s) -> In t (st_tasks s) -> t_tok t = k -> t_id t = j;
  j_flag : forall t, In t (st_tasks s) -> t_cancel t = true -> cancel_in (t_id t) msgs = true;
  j_rest : forall m, In m (rest s) -> In m msgs;
  j_out : forall i, In (i, CCancelled) (st_out s) -> cancel_in i msgs = true
}.

Lemma cmap_remove_In : forall i j k m, In (j, k) (cmap_remove i m) -> In (j, k) m /\ j <> i.
Proof.
  intros i j k m H. unfold cmap_remove in H. apply filter_In in H as [H1 H2]. split; [exact H1|].
  cbn [fst] in H2. apply negb_true_iff in H2. apply N.eqb_neq in H2. exact H2.
Qed.

Lemma cmap_get_In : forall i k m, cmap_get i m = Some k -> In (i, k) m.
Proof.
  intros i k m H. unfold cmap_get in H. destruct (find (fun p => N.eqb (fst p) i) m) as [[j k']|] eqn:E; [|discriminate].
  inversion H; subst k'. apply find_some in E as [E1 E2]. cbn [fst] in E2. apply N.eqb_eq in E2. subst j. exact E1.
Qed.

Lemma In_remove_nth : forall {A} k (l : list A) x, In x (remove_nth k l) -> In x l.
Proof.
  intros A. induction k as [|k IH]; intros [|y r] x H; cbn [remove_nth] in H; try contradiction.
  - right. exact H.
  - destruct H as [H|H]; [left; exact H|right; apply IH; exact H].
Qed.

Lemma jinv_emit : forall msgs s i r, r <> CCancelled -> jinv msgs s -> jinv msgs (emit i r s).
Proof.
  intros msgs s i r Hr J. destruct J. constructor; cbn [emit st_tasks st_next st_cmap st_out]; try assumption.
  intros j [H|H]; [inversion H; subst; congruence|auto].
Qed.

Lemma jinv_spawn : forall msgs s i, jinv msgs s -> jinv msgs (spawn i s).
Proof.
  intros msgs s i J. destruct J. constructor; cbn [spawn st_tasks st_next st_cmap st_out]; try assumption.
  - intros t H. apply in_app_or in H as [H|[H|[]]].
    + specialize (j_tok0 t H). lia.
    + subst t. cbn [t_tok]. lia.
  - intros j k [H|H].
    + inversion H; subst. lia.
    + apply cmap_remove_In in H as [H _]. specialize (j_map0 j k H). lia.
  - intros j k t [H|H] Ht Hk.
    + inversion H; subst j k. apply in_app_or in Ht as [Ht|[Ht|[]]].
      * specialize (j_tok0 t Ht). lia.
      * subst t. reflexivity.
    + apply cmap_remove_In in H as [H _]. apply in_app_or in Ht as [Ht|[Ht|[]]].
      * eapply j_own0; eassumption.
      * subst t. cbn [t_tok] in Hk. specialize (j_map0 j k H). lia.
  - intros t H Hc. apply in_app_or in H as [H|[H|[]]]; [auto|]. subst t. cbn in Hc. discriminate.
Qed.

Lemma jinv_cancel : forall msgs s i, cancel_in i msgs = true -> jinv msgs s -> jinv msgs (cancel i s).
Proof.
  intros msgs s i Hc J. unfold cancel. destruct (cmap_get i (st_cmap s)) as [k|] eqn:E; [|exact J].
  apply cmap_get_In in E. destruct J. constructor; cbn [set_tasks st_tasks st_next st_cmap st_out]; try assumption.
  - intros t H. apply in_map_iff in H as [t0 [Ht0 H0]]. specialize (j_tok0 t0 H0).
    destruct (N.eqb (t_tok t0) k); subst t; cbn [t_tok]; exact j_tok0.
  - intros j k' t Hm H Hk. apply in_map_iff in H as [t0 [Ht0 H0]].
    assert (t_tok t = t_tok t0 /\ t_id t = t_id t0) as [Ht1 Ht2].
    { destruct (N.eqb (t_tok t0) k); subst t; split; reflexivity. }
    rewrite Ht2. eapply j_own0; [exact Hm|exact H0|congruence].
  - intros t H Hf. apply in_map_iff in H as [t0 [Ht0 H0]].
    destruct (N.eqb (t_tok t0) k) eqn:Ek.
    + subst t. cbn [t_id]. apply N.eqb_eq in Ek. rewrite (j_own0 i k t0 E H0 Ek). exact Hc.
    + subst t. auto.
Qed.

Lemma cancels_in : forall i meth msgs, meth =? "$/cancelRequest" = true -> In (MNotif meth (Some i)) msgs -> cancel_in i msgs = true.
Proof.
  intros i meth msgs Hm H. unfold cancel_in. apply existsb_exists. exists (MNotif meth (Some i)). split; [exact H|].
  cbn [cancels]. rewrite Hm, N.eqb_refl. reflexivity.
Qed.

(** [handle] keeps the invariant when the queues it sees are sub-multisets of what the invariant covers *)
Lemma jinv_handle : forall c msgs m s, In m msgs -> jinv msgs s -> jinv msgs (handle c m s).
Proof.
  intros c msgs m s Hin J. destruct m as [i meth pok|meth tgt|i]; cbn [handle].
  - destruct (meth =? "shutdown").
    + apply jinv_emit; [discriminate|]. destruct J. constructor; cbn [set_stage set_pending st_tasks st_next st_cmap st_out]; try assumption.
      intros m H. apply j_rest0. unfold rest in *. cbn [set_stage set_pending st_pending st_input app] in H. apply in_or_app. right. exact H.
    + destruct (known c meth).
      * destruct pok; [apply jinv_spawn; exact J|]. destruct (c_extract_err c); [apply jinv_emit; [discriminate|exact J]|exact J].
      * apply jinv_emit; [discriminate|exact J].
  - destruct (meth =? "$/cancelRequest") eqn:Em; [|exact J]. destruct tgt as [i|]; [|exact J].
    apply jinv_cancel; [|exact J]. eapply cancels_in; eassumption.
  - exact J.
Qed.

Lemma jinv_queues : forall msgs s s',
  st_tasks s' = st_tasks s -> st_next s' = st_next s -> st_cmap s' = st_cmap s -> st_out s' = st_out s ->
  (forall m, In m (rest s') -> In m (rest s)) -> jinv msgs s -> jinv msgs s'.
Proof.
  intros msgs s s' H1 H2 H3 H4 H5 J. destruct J. constructor; rewrite ?H1, ?H2, ?H3, ?H4; auto.
Qed.

Lemma jinv_step : forall c msgs l s s', jinv msgs s -> step c l s = Some s' -> jinv msgs s'.
Proof.
  intros c msgs l s s' J Hstep. destruct l as [| |k o]; cbn [step] in Hstep.
  - unfold main_step in Hstep. destruct (st_stage s) eqn:Est.
    + destruct (st_input s) as [|m r] eqn:Ein; [discriminate|]. inversion Hstep; subst s'; clear Hstep.
      assert (J0 : jinv msgs (set_input r s)).
      { eapply jinv_queues; [..|exact J]; try reflexivity. intros x H. unfold rest in *. cbn [set_input st_pending st_input] in H.
        rewrite Ein. apply in_app_or in H as [H|H]; apply in_or_app; [left; exact H|right; right; exact H]. }
      assert (Jg : forall g, jinv msgs (set_stage g (set_input r s))).
      { intros g. eapply jinv_queues; [..|exact J0]; try reflexivity. intros x H. exact H. }
      destruct m as [j meth pok|meth tgt|j].
      * destruct (meth =? "initialize"); [destruct pok; [|destruct (c_init_unwrap c)]|];
          try (apply jinv_emit; [discriminate|]); auto.
      * destruct (meth =? "exit"); auto.
      * auto.
    + destruct (st_input s) as [|m r] eqn:Ein; [discriminate|]. inversion Hstep; subst s'; clear Hstep.
      assert (Jg : forall g, jinv msgs (set_stage g (set_input r s))).
      { intros g. eapply jinv_queues; [..|exact J]; try reflexivity. intros x H. unfold rest in *.
        cbn [set_stage set_input st_pending st_input] in H. rewrite Ein.
        apply in_app_or in H as [H|H]; apply in_or_app; [left; exact H|right; right; exact H]. }
      destruct m as [j meth pok|meth tgt|j]; [| destruct (meth =? "initialized") |]; apply Jg.
    + destruct (st_input s) as [|m r] eqn:Ein; [discriminate|]. inversion Hstep; subst s'; clear Hstep.
      assert (Hm : In m msgs).
      { apply (j_rest _ _ J). unfold rest. rewrite Ein. apply in_or_app. right. left. reflexivity. }
      assert (J0 : jinv msgs (set_input r s)).
      { eapply jinv_queues; [..|exact J]; try reflexivity. intros x H. unfold rest in *. cbn [set_input st_pending st_input] in H.
        rewrite Ein. apply in_app_or in H as [H|H]; apply in_or_app; [left; exact H|right; right; exact H]. }
      destruct (can_init c m).
      * apply jinv_handle; assumption.
      * eapply jinv_queues; [..|exact J]; try reflexivity. intros x H. unfold rest in *.
        cbn [set_pending set_input st_pending st_input] in H. rewrite Ein.
        apply in_app_or in H as [H|H]; [apply in_app_or in H as [H|[H|[]]]|]; apply in_or_app;
          [left; exact H|right; left; exact H|right; right; exact H].
    + destruct (st_pending s) as [|m p] eqn:Ep; inversion Hstep; subst s'; clear Hstep.
      * eapply jinv_queues; [..|exact J]; try reflexivity. intros x H. exact H.
      * assert (Hm : In m msgs).
        { apply (j_rest _ _ J). unfold rest. rewrite Ep. left. reflexivity. }
        apply jinv_handle; [exact Hm|].
        eapply jinv_queues; [..|exact J]; try reflexivity. intros x H. unfold rest in *.
        cbn [set_pending st_pending st_input] in H. rewrite Ep. right. exact H.
    + destruct (st_input s) as [|m r] eqn:Ein; [discriminate|]. inversion Hstep; subst s'; clear Hstep.
      assert (Hm : In m msgs).
      { apply (j_rest _ _ J). unfold rest. rewrite Ein. apply in_or_app. right. left. reflexivity. }
      apply jinv_handle; [exact Hm|].
      eapply jinv_queues; [..|exact J]; try reflexivity. intros x H. unfold rest in *. cbn [set_input st_pending st_input] in H.
      rewrite Ein. apply in_app_or in H as [H|H]; apply in_or_app; [left; exact H|right; right; exact H].
    + inversion Hstep; subst s'; clear Hstep.
      eapply jinv_queues; [..|exact J]; try reflexivity. intros x H. unfold rest in *.
      cbn [set_stage set_input st_pending st_input] in H.
      apply in_app_or in H as [H|H]; apply in_or_app; [left; exact H|right].
      destruct (st_input s); cbn [tl] in H; [exact H|right; exact H].
    + discriminate.
    + discriminate.
  - destruct (st_stage s); try discriminate. inversion Hstep; subst s'; clear Hstep.
    eapply jinv_queues; [..|exact J]; try reflexivity. intros x H. exact H.
  - destruct (nth_error (st_tasks s) k) as [t|] eqn:En; [|discriminate]. inversion Hstep; subst s'; clear Hstep.
    pose proof (nth_error_In _ _ En) as Ht. destruct J.
    destruct (resp_of c (t_cancel t) o) as [r|] eqn:Er.
    + constructor; cbn [set_cmap emit set_tasks st_tasks st_next st_cmap st_out]; try assumption.
      * intros t' H. apply j_tok0. eapply In_remove_nth; exact H.
      * intros j k' H. apply cmap_remove_In in H as [H _]. eauto.
      * intros j k' t' H H' Hk. apply cmap_remove_In in H as [H _]. eapply j_own0; [exact H|eapply In_remove_nth; exact H'|exact Hk].
      * intros t' H. apply j_flag0. eapply In_remove_nth; exact H.
      * intros i [H|H]; [|auto]. inversion H; subst i r. apply j_flag0; [exact Ht|].
        destruct (t_cancel t); [reflexivity|]. destruct o; cbn [resp_of] in Er; try (destruct (c_catch_panic c)); inversion Er.
    + constructor; cbn [set_tasks st_tasks st_next st_cmap st_out]; try assumption.
      * intros t' H. apply j_tok0. eapply In_remove_nth; exact H.
      * intros j k' t' H H' Hk. eapply j_own0; [exact H|eapply In_remove_nth; exact H'|exact Hk].
      * intros t' H. apply j_flag0. eapply In_remove_nth; exact H.
Qed.

Lemma cancelled_only_if_asked_gen : forall c msgs sched s i,
  run (step c) (init msgs) sched = Some s -> In (i, CCancelled) (st_out s) -> cancel_in i msgs = true.
Proof.
  intros c msgs sched s i Hr Hin.
  assert (J : jinv msgs s).
  { eapply (run_invariant _ _ (step c) (jinv msgs)); [| |exact Hr].
    - intros l s1 s2. apply jinv_step.
    - constructor; cbn [init st_tasks st_next st_cmap st_out]; try (intros; contradiction).
      intros m H. exact H. }
  apply (j_out _ _ J). exact Hin.
Qed.

(** ------------------------------------------------------------------ every response is justified *)


Record kinv (c : cfg) (msgs : list msg) (s : state) : Prop := {
  k_out : forall i r, In (i, r) (st_out s) -> justified c msgs i r = true;
  k_task : forall t, In t (st_tasks s) -> justified c msgs (t_id t) CInternal = true;
  k_rest : forall m, In m (rest s) -> In m msgs
}.

Lemma justified_of : forall c msgs i meth pok r,
  In (MReq i meth pok) msgs -> class_ok c meth pok r = true -> justified c msgs i r = true.
Proof.
  intros. unfold justified. apply existsb_exists. exists (MReq i meth pok). split; [assumption|].
  cbn [justifies]. rewrite N.eqb_refl. assumption.
Qed.

Lemma kinv_emit : forall c msgs s i r, justified c msgs i r = true -> kinv c msgs s -> kinv c msgs (emit i r s).
Proof.
  intros c msgs s i r Hj K. destruct K. constructor; cbn [emit st_tasks st_out]; try assumption.
  intros j r' [H|H]; [inversion H; subst; exact Hj|auto].
Qed.

Lemma kinv_queues : forall c msgs s s',
  st_tasks s' = st_tasks s -> st_out s' = st_out s ->
  (forall m, In m (rest s') -> In m (rest s)) -> kinv c msgs s -> kinv c msgs s'.
Proof.
  intros c msgs s s' H1 H2 H3 K. destruct K. constructor; rewrite ?H1, ?H2; auto.
Qed.

Lemma kinv_handle : forall c msgs m s, In m msgs -> kinv c msgs s -> kinv c msgs (handle c m s).
Proof.
  intros c msgs m s Hin K. destruct m as [i meth pok|meth tgt|i]; cbn [handle].
  - destruct (meth =? "shutdown") eqn:Es.
    + apply kinv_emit; [eapply justified_of; [exact Hin|cbn [class_ok]; rewrite Es; reflexivity]|].
      eapply kinv_queues; [..|exact K]; try reflexivity.
      intros m H. unfold rest in *. cbn [set_stage set_pending st_pending st_input app] in H. apply in_or_app. right. exact H.
    + destruct (known c meth) eqn:Ek.
      * destruct pok.
        -- destruct K. constructor; cbn [spawn st_tasks st_out]; try assumption.
           intros t H. apply in_app_or in H as [H|[H|[]]]; [auto|]. subst t. cbn [t_id].
           eapply justified_of; [exact Hin|cbn [class_ok]; rewrite Ek, Es; reflexivity].
        -- destruct (c_extract_err c); [|exact K].
           apply kinv_emit; [eapply justified_of; [exact Hin|reflexivity]|exact K].
      * apply kinv_emit; [eapply justified_of; [exact Hin|cbn [class_ok]; rewrite Ek, Es; reflexivity]|exact K].
  - destruct (meth =? "$/cancelRequest"); [|exact K]. destruct tgt as [i|]; [|exact K].
    unfold cancel. destruct (cmap_get i (st_cmap s)) as [k|]; [|exact K].
    destruct K. constructor; cbn [set_tasks st_tasks st_out]; try assumption.
    intros t H. apply in_map_iff in H as [t0 [Ht0 H0]]. specialize (k_task0 t0 H0).
    destruct (N.eqb (t_tok t0) k); subst t; exact k_task0.
  - exact K.
Qed.

Lemma justified_task_class : forall c msgs i r,
  justified c msgs i CInternal = true -> r = COk \/ r = CInternal \/ r = CCancelled -> justified c msgs i r = true.
Proof.
  intros c msgs i r H Hr. unfold justified in *. apply existsb_exists in H as [m [Hm Hj]]. apply existsb_exists. exists m. split; [exact Hm|].
  destruct m as [j meth pok| |]; cbn [justifies] in *; try discriminate.
  apply andb_true_iff in Hj as [Hi Hc]. rewrite Hi. cbn [andb class_ok] in *.
  destruct Hr as [Hr|[Hr|Hr]]; subst r; cbn [class_ok]; try exact Hc.
  apply andb_true_iff in Hc as [Hc _]. rewrite Hc. apply orb_true_r.
Qed.

Lemma kinv_step : forall c msgs l s s', kinv c msgs s -> step c l s = Some s' -> kinv c msgs s'.
Proof.
  intros c msgs l s s' K Hstep. destruct l as [| |k o]; cbn [step] in Hstep.
  - unfold main_step in Hstep. destruct (st_stage s) eqn:Est.
    + destruct (st_input s) as [|m r] eqn:Ein; [discriminate|]. inversion Hstep; subst s'; clear Hstep.
      assert (Hm : In m msgs).
      { apply (k_rest _ _ _ K). unfold rest. rewrite Ein. apply in_or_app. right. left. reflexivity. }
      assert (K0 : forall s1, st_tasks s1 = st_tasks s -> st_out s1 = st_out s -> st_pending s1 = st_pending s -> st_input s1 = r -> kinv c msgs s1).
      { intros s1 H1 H2 H3 H4. eapply kinv_queues; [exact H1|exact H2| |exact K]. intros x H. unfold rest in *. rewrite H3, H4 in H.
        rewrite Ein. apply in_app_or in H as [H|H]; apply in_or_app; [left; exact H|right; right; exact H]. }
      destruct m as [j meth pok|meth tgt|j].
      * destruct (meth =? "initialize") eqn:Ei; [destruct pok; [|destruct (c_init_unwrap c)]|].
        -- apply kinv_emit; [eapply justified_of; [exact Hm|cbn [class_ok]; rewrite Ei; cbn [andb]; rewrite orb_true_r; reflexivity]|]. apply K0; reflexivity.
        -- apply K0; reflexivity.
        -- apply kinv_emit; [eapply justified_of; [exact Hm|reflexivity]|]. apply K0; reflexivity.
        -- apply kinv_emit; [eapply justified_of; [exact Hm|cbn [class_ok]; rewrite Ei; reflexivity]|]. apply K0; reflexivity.
      * destruct (meth =? "exit"); apply K0; reflexivity.
      * apply K0; reflexivity.
    + destruct (st_input s) as [|m r] eqn:Ein; [discriminate|]. inversion Hstep; subst s'; clear Hstep.
      assert (Kg : forall g, kinv c msgs (set_stage g (set_input r s))).
      { intros g. eapply kinv_queues; [..|exact K]; try reflexivity. intros x H. unfold rest in *.
        cbn [set_stage set_input st_pending st_input] in H. rewrite Ein.
        apply in_app_or in H as [H|H]; apply in_or_app; [left; exact H|right; right; exact H]. }
      destruct m as [j meth pok|meth tgt|j]; [| destruct (meth =? "initialized") |]; apply Kg.
    + destruct (st_input s) as [|m r] eqn:Ein; [discriminate|]. inversion Hstep; subst s'; clear Hstep.
      assert (Hm : In m msgs).
      { apply (k_rest _ _ _ K). unfold rest. rewrite Ein. apply in_or_app. right. left. reflexivity. }
      destruct (can_init c m).
      * apply kinv_handle; [exact Hm|]. eapply kinv_queues; [..|exact K]; try reflexivity.
        intros x H. unfold rest in *. cbn [set_input st_pending st_input] in H.
        rewrite Ein. apply in_app_or in H as [H|H]; apply in_or_app; [left; exact H|right; right; exact H].
      * eapply kinv_queues; [..|exact K]; try reflexivity. intros x H. unfold rest in *.
        cbn [set_pending set_input st_pending st_input] in H. rewrite Ein.
        apply in_app_or in H as [H|H]; [apply in_app_or in H as [H|[H|[]]]|]; apply in_or_app;
          [left; exact H|right; left; exact H|right; right; exact H].
    + destruct (st_pending s) as [|m p] eqn:Ep; inversion Hstep; subst s'; clear Hstep.
      * eapply kinv_queues; [..|exact K]; try reflexivity. intros x H. exact H.
      * assert (Hm : In m msgs).
        { apply (k_rest _ _ _ K). unfold rest. rewrite Ep. left. reflexivity. }
        apply kinv_handle; [exact Hm|].
        eapply kinv_queues; [..|exact K]; try reflexivity. intros x H. unfold rest in *.
        cbn [set_pending st_pending st_input] in H. rewrite Ep. right. exact H.
    + destruct (st_input s) as [|m r] eqn:Ein; [discriminate|]. inversion Hstep; subst s'; clear Hstep.
      assert (Hm : In m msgs).
      { apply (k_rest _ _ _ K). unfold rest. rewrite Ein. apply in_or_app. right. left. reflexivity. }
      apply kinv_handle; [exact Hm|].
      eapply kinv_queues; [..|exact K]; try reflexivity. intros x H. unfold rest in *. cbn [set_input st_pending st_input] in H.
      rewrite Ein. apply in_app_or in H as [H|H]; apply in_or_app; [left; exact H|right; right; exact H].
    + inversion Hstep; subst s'; clear Hstep.
      eapply kinv_queues; [..|exact K]; try reflexivity. intros x H. unfold rest in *.
      cbn [set_stage set_input st_pending st_input] in H.
      apply in_app_or in H as [H|H]; apply in_or_app; [left; exact H|right].
      destruct (st_input s); cbn [tl] in H; [exact H|right; exact H].
    + discriminate.
    + discriminate.
  - destruct (st_stage s); try discriminate. inversion Hstep; subst s'; clear Hstep.
    eapply kinv_queues; [..|exact K]; try reflexivity. intros x H. exact H.
  - destruct (nth_error (st_tasks s) k) as [t|] eqn:En; [|discriminate]. inversion Hstep; subst s'; clear Hstep.
    pose proof (nth_error_In _ _ En) as Ht. destruct K.
    destruct (resp_of c (t_cancel t) o) as [r|] eqn:Er.
    + constructor; cbn [set_cmap emit set_tasks st_tasks st_out]; try assumption.
      * intros i r' [H|H]; [|auto]. inversion H; subst i r'. apply justified_task_class; [auto|].
        destruct o, (t_cancel t); cbn [resp_of] in Er; try (destruct (c_catch_panic c)); inversion Er; auto.
      * intros t' H. apply k_task0. eapply In_remove_nth; exact H.
    + constructor; cbn [set_tasks st_tasks st_out]; try assumption.
      intros t' H. apply k_task0. eapply In_remove_nth; exact H.
Qed.

Lemma responses_justified_gen : forall c msgs sched s i r,
  run (step c) (init msgs) sched = Some s -> In (i, r) (st_out s) -> justified c msgs i r = true.
Proof.
  intros c msgs sched s i r Hr Hin.
  assert (K : kinv c msgs s).
  { eapply (run_invariant _ _ (step c) (kinv c msgs)); [| |exact Hr].
    - intros l s1 s2. apply kinv_step.
    - constructor; cbn [init st_tasks st_out]; try (intros; contradiction). intros m H. exact H. }
  apply (k_out _ _ _ K). exact Hin.
Qed.

(** ------------------------------------------------------------------ theorems of Props.v *)
Lemma cancelled_only_if_asked : forall (msgs : list msg) (sched : list label) (s : state) (i : rid),
  run (step today) (init msgs) sched = Some s ->
  In (i, CCancelled) (st_out s) -> cancel_in i msgs = true.
Proof. intros. eapply cancelled_only_if_asked_gen; eassumption. Qed.

Lemma responses_justified : forall (msgs : list msg) (sched : list label) (s : state) (i : rid) (r : rclass),
  run (step today) (init msgs) sched = Some s ->
  In (i, r) (st_out s) -> justified today msgs i r = true.
Proof. intros. eapply responses_justified_gen; eassumption. Qed.
