(** C24/Corr.v — executable comparison of the responses observed on the real server with the
    model's prediction (trace validation; the harness writes [case] terms).

    A case is a message sequence sent to a server that is already running (stage [SRun]), the
    handler outcomes the harness forced through the hook request `verif/task`, and the classes of
    the responses observed per request id.  The schedule the real server took is not observable,
    so the check is: for every id the NUMBER of responses is the number of requests with that id
    (the model's prediction for every schedule, theorem [one_response_per_request]), and every
    observed class is one the model can produce for a request with that id: the class that
    [Model.handle] emits at once, or [Model.resp_of] of a possible handler outcome, cancelled only
    if a `$/cancelRequest` for the id follows the request. *)
From Coq Require Import List NArith Bool String.
Import ListNotations.
From EV Require Import Base.LTS Gen.C24_Dispatch C24.Model.
Local Open Scope string_scope.
Local Open Scope list_scope.

Definition rclass_eqb (a b : rclass) : bool :=
  match a, b with
  | COk, COk | CMethodNotFound, CMethodNotFound | CInvalidParams, CInvalidParams
  | CInternal, CInternal | CCancelled, CCancelled | CNotInitialized, CNotInitialized => true
  | _, _ => false
  end.

(** the hook method goes through the same macro-free path: ServerContext::task directly *)
Definition corr_cfg : cfg :=
  {| c_methods := "verif/task" :: c_methods today; c_extract_err := c_extract_err today;
     c_catch_panic := c_catch_panic today; c_init_unwrap := c_init_unwrap today;
     c_init_notifs := c_init_notifs today; c_init_resps := c_init_resps today |}.

Record case := {
  k_msgs : list msg;
  k_forced : list (rid * outcome);
  k_obs : list (rid * list rclass)
}.

Definition running (l : list msg) : state :=
  {| st_stage := SRun; st_input := l; st_pending := []; st_tasks := []; st_cmap := [];
     st_next := 0%N; st_out := [] |}.

Definition opt_list {A} (o : option A) : list A := match o with Some x => [x] | None => [] end.

(** classes the model can answer to one request [m] (the head of [m :: r]) *)
Definition occ_classes (c : cfg) (forced : list (rid * outcome)) (i : rid) (m : msg) (r : list msg) : list rclass :=
  let s1 := handle c m (running r) in
  match st_tasks s1 with
  | [] => map snd (st_out s1)
  | _ :: _ =>
      let hooked := match m with MReq _ meth _ => meth =? "verif/task" | _ => false end in
      let outs := match (if hooked then map snd (filter (fun p => N.eqb (fst p) i) forced) else []) with
                  | [] => [HOk; HPanic]      (* a real handler: a result, or a panic *)
                  | os => os                 (* the hook request: the outcome(s) forced for this id *)
                  end in
      let cf := existsb (cancels i) r in
      flat_map (fun o => opt_list (resp_of c false o) ++ (if cf then opt_list (resp_of c true o) else [])) outs
  end.

Fixpoint allowed (c : cfg) (forced : list (rid * outcome)) (i : rid) (l : list msg) : list rclass :=
  match l with
  | [] => []
  | m :: r => (if is_req_id i m then occ_classes c forced i m r else []) ++ allowed c forced i r
  end.

Definition req_ids (l : list msg) : list rid :=
  flat_map (fun m => match m with MReq i _ _ => [i] | _ => [] end) l.

Definition obs_of (i : rid) (o : list (rid * list rclass)) : list rclass :=
  flat_map (fun p => if N.eqb (fst p) i then snd p else []) o.

Definition check_id (k : case) (i : rid) : bool :=
  let o := obs_of i (k_obs k) in
  Nat.eqb (List.length o) (count_req i (k_msgs k)) &&
  forallb (fun r => existsb (rclass_eqb r) (allowed corr_cfg (k_forced k) i (k_msgs k))) o.

Definition check_case (k : case) : bool :=
  forallb (check_id k) (req_ids (k_msgs k)) && forallb (check_id k) (map fst (k_obs k)).

(** ------------------------------------------------------------------ whole sessions (stdio)
    A session from the very first message, with handlers that all succeed: the model is driven
    by its canonical scheduler ([pick]: a running task ends first, else the initialization task,
    else the main loop) to quiescence; the responses per id must be exactly the observed ones
    (these sessions have no race whose outcome is visible in the response class). *)
Fixpoint drive (c : cfg) (n : nat) (s : state) : state :=
  match n with
  | O => s
  | S n' => match pick s with
            | Some l => match step c l s with Some s' => drive c n' s' | None => s end
            | None => s
            end
  end.

Definition classes_of (i : rid) (o : list (rid * rclass)) : list rclass :=
  map snd (filter (fun p => N.eqb (fst p) i) o).

Fixpoint list_eqb (a b : list rclass) : bool :=
  match a, b with
  | [], [] => true
  | x :: a', y :: b' => rclass_eqb x y && list_eqb a' b'
  | _, _ => false
  end.

Definition check_session (k : list msg * list (rid * list rclass)) : bool :=
  let msgs := fst k in
  let s := drive today (measure (init msgs)) (init msgs) in
  quiescentb s &&
  forallb (fun i => list_eqb (classes_of i (rev (st_out s))) (obs_of i (snd k))) (req_ids msgs) &&
  forallb (fun p => Nat.ltb 0 (count_req (fst p) msgs) || match snd p with [] => true | _ => false end) (snd k).
