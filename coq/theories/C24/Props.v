(** C24/Props.v — property theorems only.  Each is closed by [exact] of a lemma of Proofs.v.

    [msgs] ranges over ALL client sessions (requests before `initialize`, malformed or repeated
    `initialize`, requests during initialization, every method with valid / malformed params,
    unknown methods, `$/cancelRequest` for any id at any time, duplicate ids, stray responses,
    shutdown/exit), [sched] over ALL interleavings of the main loop, the initialization task and
    the spawned handler tasks AND all handler outcomes (result / None / panic). *)
From Coq Require Import List NArith Bool String.
Import ListNotations.
From EV Require Import Base.LTS Gen.C24_Dispatch C24.Model C24.Proofs C24.Justified.
Local Open Scope string_scope.
Local Open Scope list_scope.

(** TABLE OBLIGATIONS, re-checked against today's source: the dispatch macro answers
    InvalidParams when `extract` fails, ServerContext::task answers when the handler panics,
    run_ls does not unwrap the InitializeParams deserialisation; requests are never handled
    while the initialization task runs (they are queued). *)
Theorem today_is_fixed : cfg_fixed today = true.
Proof. exact Proofs.today_is_fixed. Qed.

Theorem today_init_queue : init_allows_requests = false.
Proof. exact Proofs.today_init_queue. Qed.

(** At quiescence every request id has received exactly as many responses as there were
    requests with that id — one each.  The only hypothesis on the session is the LSP life-cycle
    ([lifecycle_ok]: no request after the point where the protocol makes the server stop
    listening). *)
Theorem one_response_per_request :
  forall (msgs : list msg) (sched : list label) (s : state),
    lifecycle_ok msgs = true ->
    run (step today) (init msgs) sched = Some s ->
    quiescent (step today) s ->
    forall i, count_out i (st_out s) = count_req i msgs.
Proof. exact Proofs.one_response_per_request. Qed.

(** At every point of every execution of ANY session (no life-cycle hypothesis): never more
    responses than requests for an id. *)
Theorem never_more_than_one_response :
  forall (msgs : list msg) (sched : list label) (s : state) (i : rid),
    run (step today) (init msgs) sched = Some s ->
    (count_out i (st_out s) <= count_req i msgs)%nat.
Proof. exact Proofs.never_more_than_one_response. Qed.

(** The server keeps serving: it never crashes; it stops listening only if the session asks for
    it (`shutdown`, or a handshake that lsp_server aborts); every schedule is finite and can be
    completed to quiescence — where, by the first theorem, every later request is answered. *)
Theorem server_keeps_serving :
  forall (msgs : list msg) (sched : list label) (s : state),
    run (step today) (init msgs) sched = Some s ->
    (lifecycle_ok msgs = true -> st_stage s <> SCrashed) /\
    (keeps_running msgs = true ->
       st_stage s <> SStopped /\ st_stage s <> SShutdownWait /\ st_stage s <> SCrashed) /\
    (List.length sched <= measure (init msgs))%nat /\
    (exists sched' s', run (step today) s sched' = Some s' /\ quiescent (step today) s').
Proof. exact Proofs.server_keeps_serving. Qed.

(** Responses are never of the wrong kind (any session, any schedule, at every point): an id is
    answered "request cancelled" only if the session contains a `$/cancelRequest` for that id ... *)
Theorem cancelled_only_if_asked :
  forall (msgs : list msg) (sched : list label) (s : state) (i : rid),
    run (step today) (init msgs) sched = Some s ->
    In (i, CCancelled) (st_out s) -> cancel_in i msgs = true.
Proof. exact Justified.cancelled_only_if_asked. Qed.

(** ... and every response has a class that some request with that id justifies: MethodNotFound
    only for an unregistered method, InvalidParams only for params that do not deserialise, a
    result / InternalError / cancelled only for a registered method with valid params (or the
    result of shutdown / initialize), ServerNotInitialized only before `initialize`. *)
Theorem responses_justified :
  forall (msgs : list msg) (sched : list label) (s : state) (i : rid) (r : rclass),
    run (step today) (init msgs) sched = Some s ->
    In (i, r) (st_out s) -> justified today msgs i r = true.
Proof. exact Justified.responses_justified. Qed.

(** The three defects of the tree before the repairs, as refutations for the configuration
    with the respective repair missing. *)
Local Open Scope N_scope.

Theorem bad_params_refuted :
  exists (msgs : list msg) (sched : list label) (s : state),
    lifecycle_ok msgs = true /\
    run (step without_extract_err) (init msgs) sched = Some s /\
    quiescent (step without_extract_err) s /\
    count_req 7 msgs = 1%nat /\ count_out 7 (st_out s) = 0%nat /\
    count_req 8 msgs = 1%nat /\ count_out 8 (st_out s) = 1%nat.
Proof. exact Proofs.bad_params_refuted. Qed.

Theorem panic_refuted :
  exists (msgs : list msg) (sched : list label) (s : state),
    lifecycle_ok msgs = true /\
    run (step without_catch_panic) (init msgs) sched = Some s /\
    quiescent (step without_catch_panic) s /\
    count_req 7 msgs = 1%nat /\ count_out 7 (st_out s) = 0%nat /\
    st_cmap s <> [].
Proof. exact Proofs.panic_refuted. Qed.

Theorem init_caps_refuted :
  exists (msgs : list msg) (sched : list label) (s : state),
    lifecycle_ok msgs = true /\
    run (step with_init_unwrap) (init msgs) sched = Some s /\
    quiescent (step with_init_unwrap) s /\
    st_stage s = SCrashed /\
    count_req 0 msgs = 1%nat /\ count_out 0 (st_out s) = 0%nat /\
    count_req 1 msgs = 1%nat /\ count_out 1 (st_out s) = 0%nat.
Proof. exact Proofs.init_caps_refuted. Qed.

(** non-vacuity: one session through every path of the dispatcher under a non-trivial interleaving *)
Example session_example :
  lifecycle_ok example_msgs = true /\
  match run (step today) (init example_msgs) example_sched with
  | Some s => quiescentb s = true /\ st_stage s = SStopped /\
              rev (st_out s) =
              [(1, CNotInitialized); (2, CInvalidParams); (3, COk); (5, CInvalidParams); (4, COk);
               (9, CMethodNotFound); (6, CCancelled); (7, CInternal); (8, CInternal); (10, COk); (4, COk)]
  | None => False
  end.
Proof. exact Proofs.session_example. Qed.
