(** C24/Model.v — the request dispatcher of emmylua_ls as a labelled transition system.
    Executable definitions only (no proofs).  Transcribed from

      crates/emmylua_ls/src/server/mod.rs               run_ls (initialize handshake)
      lsp-server 0.7.9 src/lib.rs                       initialize_start / initialize_finish
      crates/emmylua_ls/src/server/lsp_server.rs        LspServer::run, wait_for_initialization
      crates/emmylua_ls/src/server/message_processor.rs can_process_during_init, process_pending_messages,
                                                        handle_message
      crates/emmylua_ls/src/server/connection.rs        AsyncConnection::handle_shutdown
      crates/emmylua_ls/src/handlers/request_handler.rs dispatch_request! / on_request_handler
      crates/emmylua_ls/src/handlers/notification_handler.rs  Cancel arm, handle_cancel
      crates/emmylua_ls/src/context/mod.rs              ServerContext::task, ServerContext::cancel

    The tables and the three "is there an answer on this path" facts come from the generated file
    Gen/C24_Dispatch.v (regenerated from the source on every run).

    What is a step.  The main loop is sequential: one [LMain] step receives the next client
    message and handles it completely (the only awaits inside are the cancellations mutex and
    [tokio::spawn], none of which waits for a handler).  The initialization task finishing is
    [LInitDone].  Every request handler runs in its own spawned task; the task's last action —
    look at the cancellation token, send the response, remove the cancellations entry — is one
    [LTask k o] step, where [k] selects the task and [o] is how the handler future ended.
    A schedule is any list of labels, so quantifying over schedules quantifies over all
    interleavings of the main loop and the handler tasks, and over all handler outcomes. *)
From Coq Require Import List NArith Bool String.
Import ListNotations.
From EV Require Import Base.LTS Gen.C24_Dispatch.
Local Open Scope string_scope.

(** request ids (numbers and strings are both injected into N by the harness) *)
Definition rid := N.

(** client -> server messages.  [pok] : do the params deserialise into the method's params type
    ([Request::extract] = Ok).  For a notification, [tgt] is the id carried by a
    `$/cancelRequest` whose CancelParams deserialise ([None] otherwise / for other methods). *)
Inductive msg :=
| MReq (i : rid) (m : string) (pok : bool)
| MNotif (m : string) (tgt : option rid)
| MResp (i : rid).

(** classes of responses *)
Inductive rclass :=
| COk               (* result *)
| CMethodNotFound   (* -32601 *)
| CInvalidParams    (* -32602 *)
| CInternal         (* -32603 *)
| CCancelled        (* -32800 *)
| CNotInitialized.  (* -32002, sent by lsp_server before `initialize` *)

(** how a handler future ends: a result, [None], or a panic inside the spawned task *)
Inductive outcome := HOk | HNone | HPanic.

(** configuration read off the source *)
Record cfg := {
  c_methods : list string;      (* the dispatch_request! table *)
  c_extract_err : bool;         (* an InvalidParams response is sent when extract fails *)
  c_catch_panic : bool;         (* ServerContext::task answers InternalError when the handler panics *)
  c_init_unwrap : bool;         (* run_ls unwraps the InitializeParams deserialisation *)
  c_init_notifs : list string;  (* notifications handled while the initialization task runs *)
  c_init_resps : bool           (* client responses handled while the initialization task runs *)
}.

Definition today : cfg := {|
  c_methods := request_methods;
  c_extract_err := extract_error_branch;
  c_catch_panic := task_catches_panic;
  c_init_unwrap := init_params_unwrap;
  c_init_notifs := init_allowed_notifications;
  c_init_resps := init_allows_responses
|}.

(** the three repairs are in place *)
Definition cfg_fixed (c : cfg) : bool :=
  c_extract_err c && c_catch_panic c && negb (c_init_unwrap c).

Inductive stage :=
| SPreInit            (* lsp_server::Connection::initialize_start: waiting for `initialize` *)
| SAwaitInitialized   (* initialize_finish: response sent, waiting for `initialized` *)
| SInit               (* main loop running, initialization task not finished: queueing *)
| SReplay             (* process_pending_messages *)
| SRun                (* normal operation *)
| SShutdownWait       (* handle_shutdown: `shutdown` answered, waiting for `exit` *)
| SStopped            (* the server loop returned (Ok or Err) *)
| SCrashed.           (* the process panicked *)

(** a spawned request task: its cancellation token (a fresh number), the request id it will
    answer, and whether the token has been cancelled *)
Record task := { t_tok : N; t_id : rid; t_cancel : bool }.

Record state := {
  st_stage : stage;
  st_input : list msg;            (* client messages not received yet *)
  st_pending : list msg;          (* ServerMessageProcessor::pending_messages *)
  st_tasks : list task;           (* running handler tasks *)
  st_cmap : list (rid * N);       (* ServerContext::cancellations : id -> token *)
  st_next : N;                    (* next fresh token *)
  st_out : list (rid * rclass)    (* responses sent so far (most recent first) *)
}.

Definition init (msgs : list msg) : state :=
  {| st_stage := SPreInit; st_input := msgs; st_pending := []; st_tasks := []; st_cmap := [];
     st_next := 0%N; st_out := [] |}.

Definition set_stage (g : stage) (s : state) : state :=
  {| st_stage := g; st_input := st_input s; st_pending := st_pending s; st_tasks := st_tasks s;
     st_cmap := st_cmap s; st_next := st_next s; st_out := st_out s |}.
Definition set_input (l : list msg) (s : state) : state :=
  {| st_stage := st_stage s; st_input := l; st_pending := st_pending s; st_tasks := st_tasks s;
     st_cmap := st_cmap s; st_next := st_next s; st_out := st_out s |}.
Definition set_pending (l : list msg) (s : state) : state :=
  {| st_stage := st_stage s; st_input := st_input s; st_pending := l; st_tasks := st_tasks s;
     st_cmap := st_cmap s; st_next := st_next s; st_out := st_out s |}.
Definition set_tasks (l : list task) (s : state) : state :=
  {| st_stage := st_stage s; st_input := st_input s; st_pending := st_pending s; st_tasks := l;
     st_cmap := st_cmap s; st_next := st_next s; st_out := st_out s |}.
Definition set_cmap (l : list (rid * N)) (s : state) : state :=
  {| st_stage := st_stage s; st_input := st_input s; st_pending := st_pending s; st_tasks := st_tasks s;
     st_cmap := l; st_next := st_next s; st_out := st_out s |}.
(** [sender.send(Message::Response(..))] *)
Definition emit (i : rid) (r : rclass) (s : state) : state :=
  {| st_stage := st_stage s; st_input := st_input s; st_pending := st_pending s; st_tasks := st_tasks s;
     st_cmap := st_cmap s; st_next := st_next s; st_out := (i, r) :: st_out s |}.

(** HashMap<RequestId, CancellationToken> as an association list *)
Definition cmap_remove (i : rid) (m : list (rid * N)) : list (rid * N) :=
  filter (fun p => negb (N.eqb (fst p) i)) m.
Definition cmap_insert (i : rid) (k : N) (m : list (rid * N)) : list (rid * N) :=
  (i, k) :: cmap_remove i m.
Definition cmap_get (i : rid) (m : list (rid * N)) : option N :=
  match find (fun p => N.eqb (fst p) i) m with Some p => Some (snd p) | None => None end.

(** ServerContext::task up to the spawn: fresh token, insert into cancellations, spawn *)
Definition spawn (i : rid) (s : state) : state :=
  let k := st_next s in
  {| st_stage := st_stage s; st_input := st_input s; st_pending := st_pending s;
     st_tasks := st_tasks s ++ [{| t_tok := k; t_id := i; t_cancel := false |}];
     st_cmap := cmap_insert i k (st_cmap s); st_next := N.succ k; st_out := st_out s |}.

(** ServerContext::cancel : cancel the token currently registered for the id, if any *)
Definition cancel (i : rid) (s : state) : state :=
  match cmap_get i (st_cmap s) with
  | Some k => set_tasks (map (fun t => if N.eqb (t_tok t) k
                                       then {| t_tok := t_tok t; t_id := t_id t; t_cancel := true |}
                                       else t) (st_tasks s)) s
  | None => s
  end.

Definition known (c : cfg) (m : string) : bool := existsb (String.eqb m) (c_methods c).

(** ServerMessageProcessor::can_process_during_init (requests are never processed during
    initialization: table obligation [init_allows_requests = false]) *)
Definition can_init (c : cfg) (m : msg) : bool :=
  match m with
  | MReq _ _ _ => false
  | MNotif meth _ => existsb (String.eqb meth) (c_init_notifs c)
  | MResp _ => c_init_resps c
  end.

(** ServerMessageProcessor::handle_message (the message has already been removed from the
    queue it came from) *)
Definition handle (c : cfg) (m : msg) (s : state) : state :=
  match m with
  | MReq i meth pok =>
      if meth =? "shutdown" then
        (* handle_shutdown: answer, then wait for `exit`; whatever is left in the pending
           list is never handled *)
        emit i COk (set_stage SShutdownWait (set_pending [] s))
      else if known c meth then
        if pok then spawn i s
        else if c_extract_err c then emit i CInvalidParams s
        else s                                  (* falls out of the macro arm: nothing is sent *)
      else emit i CMethodNotFound s
  | MNotif meth tgt =>
      if meth =? "$/cancelRequest" then
        match tgt with Some i => cancel i s | None => s end
      else s                                    (* other notifications never answer a request *)
  | MResp _ => s                                (* ClientProxy::on_response *)
  end.

(** the tail of the closure spawned by ServerContext::task, once the handler future has ended *)
Definition resp_of (c : cfg) (cancelled : bool) (o : outcome) : option rclass :=
  match o with
  | HOk => Some (if cancelled then CCancelled else COk)
  | HNone => Some (if cancelled then CCancelled else CInternal)
  | HPanic => if c_catch_panic c then Some (if cancelled then CCancelled else CInternal)
              else None                         (* the spawned task is gone: nothing is sent *)
  end.

Fixpoint remove_nth {A} (k : nat) (l : list A) : list A :=
  match l with
  | [] => []
  | x :: r => match k with O => r | S k' => x :: remove_nth k' r end
  end.

Inductive label :=
| LMain                          (* the main loop receives and handles one message *)
| LInitDone                      (* the initialization task finishes (or dies) *)
| LTask (k : nat) (o : outcome). (* the k-th running handler task ends with outcome o *)

Definition main_step (c : cfg) (s : state) : option state :=
  match st_stage s with
  | SPreInit =>
      match st_input s with
      | [] => None
      | m :: r =>
          let s := set_input r s in
          Some match m with
               | MReq i meth pok =>
                   if meth =? "initialize" then
                     if pok then emit i COk (set_stage SAwaitInitialized s)
                     else if c_init_unwrap c then set_stage SCrashed s
                     else emit i CInvalidParams s
                   else emit i CNotInitialized s
               | MNotif meth _ => if meth =? "exit" then set_stage SStopped s else s
               | MResp _ => set_stage SStopped s
               end
      end
  | SAwaitInitialized =>
      match st_input s with
      | [] => None
      | m :: r =>
          let s := set_input r s in
          Some match m with
               | MNotif meth _ => if meth =? "initialized" then set_stage SInit s
                                  else set_stage SStopped s
               | _ => set_stage SStopped s
               end
      end
  | SInit =>
      match st_input s with
      | [] => None
      | m :: r =>
          let s := set_input r s in
          Some (if can_init c m then handle c m s
                else set_pending (st_pending s ++ [m]) s)
      end
  | SReplay =>
      match st_pending s with
      | [] => Some (set_stage SRun s)
      | m :: p => Some (handle c m (set_pending p s))
      end
  | SRun =>
      match st_input s with
      | [] => None
      | m :: r => Some (handle c m (set_input r s))
      end
  | SShutdownWait =>
      (* the next message must be `exit`; anything else (or a 30 s timeout) is an error;
         either way the loop ends and that message is not handled *)
      Some (set_stage SStopped (set_input (tl (st_input s)) s))
  | SStopped | SCrashed => None
  end.

Definition step (c : cfg) (l : label) (s : state) : option state :=
  match l with
  | LMain => main_step c s
  | LInitDone => match st_stage s with SInit => Some (set_stage SReplay s) | _ => None end
  | LTask k o =>
      match nth_error (st_tasks s) k with
      | None => None
      | Some t =>
          let s1 := set_tasks (remove_nth k (st_tasks s)) s in
          Some match resp_of c (t_cancel t) o with
               | Some r => set_cmap (cmap_remove (t_id t) (st_cmap s1)) (emit (t_id t) r s1)
               | None => s1
               end
      end
  end.

(** ------------------------------------------------------------------ counting *)
Definition is_req (m : msg) : bool := match m with MReq _ _ _ => true | _ => false end.
Definition is_req_id (i : rid) (m : msg) : bool :=
  match m with MReq j _ _ => N.eqb j i | _ => false end.
Definition is_shutdown (m : msg) : bool :=
  match m with MReq _ meth _ => meth =? "shutdown" | _ => false end.

Definition count_req (i : rid) (l : list msg) : nat := List.length (filter (is_req_id i) l).
Definition count_out (i : rid) (o : list (rid * rclass)) : nat :=
  List.length (filter (fun p => N.eqb (fst p) i) o).
Definition count_tasks (i : rid) (ts : list task) : nat :=
  List.length (filter (fun t => N.eqb (t_id t) i) ts).

(** ------------------------------------------------------------------ the LSP life-cycle
    The one restriction on client sessions: wherever the protocol makes the server stop
    listening — `shutdown` (only `exit` is expected next), or a handshake that lsp_server
    aborts (`exit` or a stray response before `initialize`; anything but `initialized` right
    after the initialize response) — the client sends no further REQUESTS.  Everything else is
    arbitrary: requests before `initialize`, repeated or malformed `initialize`, any mix of
    requests, notifications, cancellations and responses at any time. *)
Definition no_reqs (l : list msg) : bool := forallb (fun m => negb (is_req m)) l.

Fixpoint lc_main (l : list msg) : bool :=
  match l with
  | [] => true
  | m :: r => if is_shutdown m then no_reqs r else lc_main r
  end.

Definition lc_await (l : list msg) : bool :=
  match l with
  | MNotif meth _ :: r => if meth =? "initialized" then lc_main r else no_reqs l
  | _ => no_reqs l
  end.

Fixpoint lc_pre (l : list msg) : bool :=
  match l with
  | [] => true
  | m :: r =>
      match m with
      | MReq _ meth pok => if (meth =? "initialize") && pok then lc_await r else lc_pre r
      | MNotif meth _ => if meth =? "exit" then no_reqs r else lc_pre r
      | MResp _ => no_reqs r
      end
  end.

Definition lifecycle_ok (msgs : list msg) : bool := lc_pre msgs.

(** sessions that never ask the server to stop: no `shutdown`, a clean handshake *)
Definition kr_main (l : list msg) : bool := forallb (fun m => negb (is_shutdown m)) l.
Definition kr_await (l : list msg) : bool :=
  match l with
  | [] => true
  | MNotif meth _ :: r => (meth =? "initialized") && kr_main r
  | _ => false
  end.
Fixpoint kr_pre (l : list msg) : bool :=
  match l with
  | [] => true
  | m :: r =>
      match m with
      | MReq _ meth pok => if (meth =? "initialize") && pok then kr_await r else kr_pre r
      | MNotif meth _ => if meth =? "exit" then false else kr_pre r
      | MResp _ => false
      end
  end.
Definition keeps_running (msgs : list msg) : bool := kr_pre msgs.

(** ------------------------------------------------------------------ progress *)
Definition stage_weight (g : stage) : nat :=
  match g with
  | SPreInit => 7 | SAwaitInitialized => 6 | SInit => 5 | SReplay => 4 | SRun => 3
  | SShutdownWait => 2 | SStopped => 1 | SCrashed => 0
  end.

Definition measure (s : state) : nat :=
  3 * List.length (st_input s) + 2 * List.length (st_pending s) + List.length (st_tasks s) + stage_weight (st_stage s).

(** an enabled label, if there is one *)
Definition pick (s : state) : option label :=
  match st_tasks s with
  | _ :: _ => Some (LTask 0 HOk)
  | [] =>
      match st_stage s with
      | SInit => Some LInitDone
      | SReplay | SShutdownWait => Some LMain
      | SPreInit | SAwaitInitialized | SRun =>
          match st_input s with [] => None | _ :: _ => Some LMain end
      | SStopped | SCrashed => None
      end
  end.

Definition quiescentb (s : state) : bool :=
  match pick s with None => true | Some _ => false end.

(** ------------------------------------------------------------------ what justifies a response
    (used by the theorems [cancelled_only_if_asked] and [responses_justified], and by Corr.v) *)
Definition cancels (i : rid) (m : msg) : bool :=
  match m with
  | MNotif meth (Some j) => (meth =? "$/cancelRequest") && N.eqb j i
  | _ => false
  end.
(** the session contains a `$/cancelRequest` for the id *)
Definition cancel_in (i : rid) (l : list msg) : bool := existsb (cancels i) l.

(** may a request with this method / params validity be answered with class [r]? *)
Definition class_ok (c : cfg) (meth : string) (pok : bool) (r : rclass) : bool :=
  match r with
  | CNotInitialized => negb (meth =? "initialize")
  | CMethodNotFound => negb (known c meth) && negb (meth =? "shutdown")
  | CInvalidParams => negb pok
  | COk => (meth =? "shutdown") || ((meth =? "initialize") && pok) || (known c meth && pok)
  | CInternal | CCancelled => known c meth && pok && negb (meth =? "shutdown")
  end.

Definition justifies (c : cfg) (i : rid) (r : rclass) (m : msg) : bool :=
  match m with
  | MReq j meth pok => N.eqb j i && class_ok c meth pok r
  | _ => false
  end.
(** the session contains a request with id [i] that may be answered with class [r] *)
Definition justified (c : cfg) (msgs : list msg) (i : rid) (r : rclass) : bool := existsb (justifies c i r) msgs.
