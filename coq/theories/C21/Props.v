(** C21/Props.v — property theorems only.  Range translation rests on the C22 theorems
    ([C22.Props.range_roundtrip]); codes, names and severities on the tables of Gen/C20_Diag.v
    (regenerated from the Rust source before every build). *)
From Coq Require Import List String NArith Bool.
From EV Require Import C20.Proofs C21.Model C21.Proofs.
Import ListNotations.
Local Open Scope N_scope.

(** "Every diagnostic has a range inside its document with start before or equal to end":
    a TextRange whose ends are character boundaries with start <= end translates — without panic and
    without taking the fallback branch — to two positions of the document, start <= end, that convert
    back to exactly the same offsets. *)
Theorem translate_in_bounds : forall (t : text) (r : range),
  valid_range t r -> in_document t (translate_range t r).
Proof. exact Proofs.translate_in_bounds. Qed.

Theorem translate_never_panics : forall (t : text) (r : range),
  valid_range t r -> translate_range_res t r <> Panic /\ translate_range_res t r <> Nothing.
Proof. exact Proofs.translate_never_panics. Qed.

(** the [0:0] fallback is itself inside every document, and it is taken only for ranges that are not valid *)
Theorem fallback_in_bounds : forall (t : text), in_document t fallback.
Proof. exact Proofs.fallback_in_bounds. Qed.

Theorem fallback_only_when_untranslatable : forall (t : text) (r : range),
  translate_range t r = fallback ->
  (exists pq, translate_range_res t r = Val pq /\ pq = fallback) \/ ~ valid_range t r.
Proof. exact Proofs.fallback_only_when_untranslatable. Qed.

(** hence: whatever the checkers are, if the ranges they pass to [add_diagnostic] are valid ranges of the
    text, every reported diagnostic's range is inside the document with start <= end *)
Theorem diagnostics_in_bounds :
  forall (t : text) (cfg : config) (f : file) (ks : list checker) (ds : list diag) (d : diag),
  (forall k e, In k ks -> In e (k_body k cfg) -> valid_range t (e_range e)) ->
  diagnose_file (translate_range t) cfg f ks = Some ds -> In d ds ->
  in_document t (d_range d).
Proof. exact Proofs.diagnostics_in_bounds. Qed.

(** "Every parse error of a file appears as a syntax-error diagnostic at its location unless that code is
    disabled": for every list of parse errors, every error whose code passes the C20 chain (and is not
    covered by a suppression comment, C19) is reported at the translation of its range with its message,
    in a file that is diagnosed at all (diagnostics on, main workspace) ... *)
Theorem syntax_errors_all_reported :
  forall (t : text) (cfg : config) (f : file) (errs : list parse_error) (extra : list emit) (others : list checker)
         (pe : parse_error),
  In pe errs ->
  cfg_enable cfg = true ->
  (f_workspace f = None \/ f_workspace f = Some main_workspace_id) ->
  is_checker_enable_by_code cfg f (code_of_kind (pe_doc pe)) = true ->
  f_suppressed f (code_of_kind (pe_doc pe)) (pe_range pe) = false ->
  exists ds, diagnose_file (translate_range t) cfg f (syntax_error_checker errs extra :: others) = Some ds /\
             In {| d_code := code_of_kind (pe_doc pe); d_name := code_name (code_of_kind (pe_doc pe));
                   d_range := translate_range t (pe_range pe);
                   d_severity := get_severity cfg (code_of_kind (pe_doc pe)); d_msg := pe_msg pe; d_data := None |} ds.
Proof. exact Proofs.syntax_errors_all_reported. Qed.

(** ... one diagnostic per parse error, in order, ahead of all other diagnostics, when both codes are on
    (identical ones merged by [get_diagnostics]; none merged when the errors are pairwise different) *)
Theorem syntax_errors_one_each :
  forall (t : text) (cfg : config) (f : file) (errs : list parse_error) (extra : list emit) (others : list checker)
         (ds : list diag),
  diagnose_file (translate_range t) cfg f (syntax_error_checker errs extra :: others) = Some ds ->
  is_checker_enable_by_code cfg f C_SyntaxError = true ->
  is_checker_enable_by_code cfg f C_DocSyntaxError = true ->
  (forall pe, In pe errs -> f_suppressed f (code_of_kind (pe_doc pe)) (pe_range pe) = false) ->
  exists rest, ds = get_diagnostics (map (Proofs.diag_of_error t cfg) errs ++ rest).
Proof. exact Proofs.syntax_errors_one_each. Qed.

Theorem syntax_errors_prefix :
  forall (t : text) (cfg : config) (f : file) (errs : list parse_error) (extra : list emit) (others : list checker)
         (ds : list diag),
  diagnose_file (translate_range t) cfg f (syntax_error_checker errs extra :: others) = Some ds ->
  is_checker_enable_by_code cfg f C_SyntaxError = true ->
  is_checker_enable_by_code cfg f C_DocSyntaxError = true ->
  (forall pe, In pe errs -> f_suppressed f (code_of_kind (pe_doc pe)) (pe_range pe) = false) ->
  NoDup (map (Proofs.diag_of_error t cfg) errs) ->
  exists rest, ds = map (Proofs.diag_of_error t cfg) errs ++ rest.
Proof. exact Proofs.syntax_errors_prefix. Qed.

(** ... and a code that the chain switches off is not reported *)
Theorem disabled_syntax_code_silent :
  forall (t : text) (cfg : config) (f : file) (ks : list checker) (ds : list diag) (d : diag) (c : code),
  diagnose_file (translate_range t) cfg f ks = Some ds -> In d ds ->
  is_checker_enable_by_code cfg f c = false -> d_code d <> c.
Proof. exact Proofs.disabled_syntax_code_silent. Qed.

(** "a known code name": the name of every reported diagnostic is the name of its code, which is in the table;
    the table lists every code and no two codes share a name *)
Theorem codes_known :
  forall (tr : range -> lsp_range) (cfg : config) (f : file) (ks : list checker) (ds : list diag) (d : diag),
  diagnose_file tr cfg f ks = Some ds -> In d ds ->
  d_name d = code_name (d_code d) /\ In (d_name d) (map code_name all_codes).
Proof. exact Proofs.codes_known. Qed.

Theorem code_names_distinct : NoDup (map code_name all_codes).
Proof. exact Proofs.code_names_distinct. Qed.

Theorem all_codes_complete : forall c : code, In c all_codes.
Proof. exact Proofs.all_codes_complete. Qed.

(** "The list for a file never contains exact duplicates" — for ALL checkers: [get_diagnostics] keeps the first
    of equal diagnostics (whether it does is read off the source: [dedup_diagnostics] in Gen/C20_Diag.v) *)
Theorem no_exact_duplicates :
  forall (tr : range -> lsp_range) (cfg : config) (f : file) (ks : list checker) (ds : list diag),
  diagnose_file tr cfg f ks = Some ds -> NoDup ds.
Proof. exact C20.Proofs.no_exact_duplicates. Qed.

(** "a severity" *)
Theorem severity_total :
  forall (tr : range -> lsp_range) (cfg : config) (f : file) (ks : list checker) (ds : list diag) (d : diag),
  diagnose_file tr cfg f ks = Some ds -> In d ds -> exists s, d_severity d = Some s.
Proof. exact Proofs.severity_total. Qed.

(** non-vacuity: a CRLF text with an astral character, one syntax error recorded twice by the parser and one
    doc error at the end of the text *)
Example syntax_example :
  option_map (map (fun d => (d_name d, d_range d, d_severity d)))
    (diagnose_file (translate_range Proofs.ex_text) Proofs.ex_cfg Proofs.ex_file [syntax_error_checker Proofs.ex_errs []])
  = Some [ ("syntax-error"%string, ((0, 7), (0, 8)), Some ERROR); ("doc-syntax-error"%string, ((1, 8), (1, 8)), Some ERROR) ]
  /\ translate_range Proofs.ex_text (2, 3) = fallback
  /\ valid_range Proofs.ex_text (9, 10).
Proof. exact Proofs.syntax_example. Qed.
