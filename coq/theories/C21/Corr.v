(** C21/Corr.v — executable comparison: the parse errors of a text (from the real parser) are pushed through
    the model ([syntax_error_checker] + [translate_range] + the C20 chain) and compared with the leading
    syntax diagnostics that the real [diagnose_file] reported for that text and configuration. *)
From Coq Require Import List String NArith Bool.
From EV Require Import C21.Model.
Import ListNotations.
Local Open Scope N_scope.

Record case := {
  c_text : text;
  c_errs : list ((bool * N) * (N * N));                (* parse errors: (DocError?, message id), byte range *)
  c_dis_syntax : bool;                                 (* syntax-error in diagnostics.disable *)
  c_dis_doc : bool;                                    (* doc-syntax-error in diagnostics.disable *)
  c_obs : list (bool * ((N * N) * (N * N)))            (* reported diagnostics with one of the two codes, in order *)
}.

Definition pair_eqb (x y : N * N) : bool := (fst x =? fst y) && (snd x =? snd y).
Definition item_eqb (x y : bool * ((N * N) * (N * N))) : bool :=
  Bool.eqb (fst x) (fst y) && pair_eqb (fst (snd x)) (fst (snd y)) && pair_eqb (snd (snd x)) (snd (snd y)).

(** [m] is a prefix of [o] *)
Fixpoint prefixb (m o : list (bool * ((N * N) * (N * N)))) : bool :=
  match m, o with
  | [], _ => true
  | x :: m', y :: o' => item_eqb x y && prefixb m' o'
  | _ :: _, [] => false
  end.

Definition model_list (c : case) : option (list (bool * ((N * N) * (N * N)))) :=
  let cfg := {| cfg_enable := true;
                ws_disabled := (if c_dis_syntax c then [C_SyntaxError] else []) ++ (if c_dis_doc c then [C_DocSyntaxError] else []);
                ws_enabled := []; cfg_severity := []; cfg_globals := []; cfg_globals_regex := []; cfg_level := L_Lua55 |} in
  let f := {| f_enabled := []; f_disabled := []; f_meta := false; f_workspace := Some main_workspace_id;
              f_suppressed := fun _ _ => false |} in
  let errs := map (fun e => {| pe_doc := fst (fst e); pe_range := snd e; pe_msg := [snd (fst e)] |}) (c_errs c) in
  match diagnose_file (translate_range (c_text c)) cfg f [syntax_error_checker errs []] with
  | None => None
  | Some ds => Some (map (fun d => (code_beq (d_code d) C_DocSyntaxError, d_range d)) ds)
  end.

Definition check_case (c : case) : bool :=
  match model_list c with
  | None => false
  | Some m => prefixb m (c_obs c)
              (* the model's ranges never took the fallback silently: each error range is a valid range *)
              && forallb (fun e => boundaryb (c_text c) (fst (snd e)) && boundaryb (c_text c) (snd (snd e))
                                   && (fst (snd e) <=? snd (snd e))) (c_errs c)
  end.
