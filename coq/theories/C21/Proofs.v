(** C21/Proofs.v — lemmas behind C21/Props.v *)
From Coq Require Import List String NArith Bool Lia.
From EV Require Import Base.TextFacts C22.Props C20.Proofs C21.Model.
Import ListNotations.
Local Open Scope N_scope.

Lemma boundary_le_bytes : forall t o, boundaryb t o = true -> o <= bytes t.
Proof.
  intros t o H. apply boundaryb_spec in H. destruct H as [p [r [_ [-> <-]]]].
  rewrite bytes_app. lia.
Qed.

(** ---- range translation ---- *)

Lemma translate_valid : forall t r,
  valid_range t r ->
  exists p q, translate_range_res t r = Val (p, q) /\ translate_range t r = (p, q) /\
              pos_le p q /\ to_rowan_range (parse t) t p q = Val (fst r, snd r).
Proof.
  intros t [a b] [Ha [Hb Hab]]. cbn [fst snd] in *.
  destruct (C22.Props.range_roundtrip t a b Ha Hb Hab) as [p [q [H1 [H2 H3]]]].
  exists p, q. unfold translate_range, translate_range_res. cbn [fst snd]. rewrite H1.
  split; [reflexivity|]. split; [reflexivity|]. split; [exact H2|exact H3].
Qed.

Lemma translate_in_bounds : forall t r, valid_range t r -> in_document t (translate_range t r).
Proof.
  intros t r Hv. destruct (translate_valid t r Hv) as [p [q [_ [-> [Hle Hback]]]]].
  destruct Hv as [Ha [Hb Hab]]. unfold in_document. cbn [fst snd]. split; [exact Hle|].
  exists (fst r), (snd r). split; [exact Hab|]. split; [apply boundary_le_bytes; exact Hb|].
  split; [exact Ha|]. split; [exact Hb|exact Hback].
Qed.

Lemma translate_never_panics : forall t r, valid_range t r -> translate_range_res t r <> Panic /\ translate_range_res t r <> Nothing.
Proof.
  intros t r Hv. destruct (translate_valid t r Hv) as [p [q [-> _]]]. split; discriminate.
Qed.

(** the fallback is used only when a conversion fails, which never happens for a valid range *)
Lemma fallback_only_when_untranslatable : forall t r,
  translate_range t r = fallback ->
  (exists pq, translate_range_res t r = Val pq /\ pq = fallback) \/ ~ valid_range t r.
Proof.
  intros t r H. unfold translate_range in H.
  destruct (translate_range_res t r) as [pq| |] eqn:E.
  - left. exists pq. split; [reflexivity|exact H].
  - right. intros Hv. destruct (translate_never_panics t r Hv) as [_ Hn]. contradiction.
  - right. intros Hv. destruct (translate_never_panics t r Hv) as [Hp _]. contradiction.
Qed.

(** the fallback range itself lies inside every document *)
Lemma take_bytes_0' : forall t, take_bytes t 0 = Some [].
Proof. exact take_bytes_0. Qed.

Lemma fallback_in_bounds : forall t, in_document t fallback.
Proof.
  intros t. unfold in_document, fallback. cbn [fst snd]. split.
  - right. split; [reflexivity|lia].
  - exists 0, 0. split; [lia|]. split; [lia|].
    assert (Hb : boundaryb t 0 = true) by (unfold boundaryb; rewrite take_bytes_0; reflexivity).
    split; [exact Hb|]. split; [exact Hb|].
    unfold to_rowan_range. cbn [fst snd].
    assert (Hoff : get_offset (parse t) t 0 0 = Val 0).
    { unfold get_offset, get_col_offset_at_line, get_line_offset, parse.
      destruct (scan t 0 true) as [ss fs]. cbn [line_offsets N.to_nat nth_error]. reflexivity. }
    rewrite Hoff. reflexivity.
Qed.

(** every range [add_diagnostic] produces is inside the document *)
Lemma translate_total_in_bounds : forall t r,
  in_document t (translate_range t r) \/ (~ valid_range t r).
Proof.
  intros t r. unfold translate_range.
  destruct (translate_range_res t r) as [pq| |] eqn:E.
  - (* a value: either the range was valid, or it was not *)
    destruct (boundaryb t (fst r)) eqn:Ha; [|right; intros [H _]; congruence].
    destruct (boundaryb t (snd r)) eqn:Hb; [|right; intros [_ [H _]]; congruence].
    destruct (N.le_gt_cases (fst r) (snd r)) as [Hab|Hab]; [|right; intros [_ [_ H]]; lia].
    left. assert (Hv : valid_range t r) by (split; [exact Ha|split; [exact Hb|exact Hab]]).
    pose proof (translate_in_bounds t r Hv) as H. unfold translate_range in H. rewrite E in H. exact H.
  - left. apply fallback_in_bounds.
  - left. apply fallback_in_bounds.
Qed.

Lemma diagnostics_in_bounds : forall t cfg f ks ds d,
  (forall k e, In k ks -> In e (k_body k cfg) -> valid_range t (e_range e)) ->
  diagnose_file (translate_range t) cfg f ks = Some ds -> In d ds ->
  in_document t (d_range d).
Proof.
  intros t cfg f ks ds d Hval H Hin.
  apply (in_diagnose_file _ _ _ _ _ d H) in Hin.
  apply in_check_file in Hin. destruct Hin as [k [e [Hk [He [_ [_ [_ ->]]]]]]].
  unfold mk_diag. cbn [d_range]. apply translate_in_bounds. exact (Hval k e Hk He).
Qed.

(** ---- syntax errors ---- *)

Lemma syntax_codes_listed : forall doc, In (code_of_kind doc) (codes_of_checker "SyntaxErrorChecker").
Proof. intros [|]; vm_compute; tauto. Qed.

Definition diag_of_error (t : text) (cfg : config) (pe : parse_error) : diag :=
  {| d_code := code_of_kind (pe_doc pe); d_name := code_name (code_of_kind (pe_doc pe));
     d_range := translate_range t (pe_range pe); d_severity := get_severity cfg (code_of_kind (pe_doc pe));
     d_msg := pe_msg pe; d_data := None |}.

Lemma syntax_errors_all_reported : forall t cfg f errs extra others pe,
  In pe errs ->
  cfg_enable cfg = true ->
  (f_workspace f = None \/ f_workspace f = Some main_workspace_id) ->
  is_checker_enable_by_code cfg f (code_of_kind (pe_doc pe)) = true ->
  f_suppressed f (code_of_kind (pe_doc pe)) (pe_range pe) = false ->
  exists ds, diagnose_file (translate_range t) cfg f (syntax_error_checker errs extra :: others) = Some ds /\
             In (diag_of_error t cfg pe) ds.
Proof.
  intros t cfg f errs extra others pe Hin Hen Hws Hon Hsup.
  exists (get_diagnostics (check_file (translate_range t) cfg f (syntax_error_checker errs extra :: others))). split.
  - unfold diagnose_file. rewrite Hen. cbn [negb].
    destruct Hws as [-> | ->]; [reflexivity|]. rewrite N.eqb_refl. reflexivity.
  - apply in_get_diagnostics. apply in_check_file. exists (syntax_error_checker errs extra), (emit_of_error pe).
    split; [left; reflexivity|]. split.
    + cbn [syntax_error_checker k_body]. apply in_or_app. left. apply in_map. exact Hin.
    + split.
      * cbn [syntax_error_checker k_codes]. apply existsb_exists. exists (code_of_kind (pe_doc pe)).
        split; [apply syntax_codes_listed|exact Hon].
      * cbn [emit_of_error e_code e_range]. split; [exact Hon|]. split; [exact Hsup|reflexivity].
Qed.

Lemma filter_map_all : forall (A B : Type) (g : A -> option B) (h : A -> B) (l : list A),
  (forall a, In a l -> g a = Some (h a)) -> filter_map g l = map h l.
Proof.
  intros A B g h l. induction l as [|a r IH]; intros H; cbn [filter_map map]; [reflexivity|].
  rewrite (H a (or_introl eq_refl)). f_equal. apply IH. intros a' Ha'. apply H. right. exact Ha'.
Qed.

Lemma filter_map_app : forall (A B : Type) (g : A -> option B) (l1 l2 : list A),
  filter_map g (l1 ++ l2) = filter_map g l1 ++ filter_map g l2.
Proof.
  intros A B g l1 l2. induction l1 as [|a r IH]; cbn [app filter_map]; [reflexivity|].
  destruct (g a); [cbn [app]; f_equal; exact IH|exact IH].
Qed.

(** one diagnostic per parse error, in order, ahead of everything else, when both codes are on: the result is
    the de-duplication ([get_diagnostics]) of that list *)
Lemma syntax_errors_one_each : forall t cfg f errs extra others ds,
  diagnose_file (translate_range t) cfg f (syntax_error_checker errs extra :: others) = Some ds ->
  is_checker_enable_by_code cfg f C_SyntaxError = true ->
  is_checker_enable_by_code cfg f C_DocSyntaxError = true ->
  (forall pe, In pe errs -> f_suppressed f (code_of_kind (pe_doc pe)) (pe_range pe) = false) ->
  exists rest, ds = get_diagnostics (map (diag_of_error t cfg) errs ++ rest).
Proof.
  intros t cfg f errs extra others ds H Hs Hd Hsup.
  apply diagnose_file_some in H. destruct H as [_ [_ ->]].
  unfold check_file. cbn [flat_map]. unfold run_check at 1.
  assert (Hg : existsb (is_checker_enable_by_code cfg f) (k_codes (syntax_error_checker errs extra)) = true).
  { apply existsb_exists. exists C_SyntaxError. split; [exact (syntax_codes_listed false)|exact Hs]. }
  rewrite Hg. cbn [syntax_error_checker k_body]. rewrite filter_map_app.
  rewrite (filter_map_all _ _ (add_diagnostic (translate_range t) cfg f) (fun e => mk_diag (translate_range t) cfg e) (map emit_of_error errs)).
  - rewrite map_map. rewrite <- app_assoc. eexists. reflexivity.
  - intros e He. apply in_map_iff in He. destruct He as [pe [<- Hpe]].
    apply add_diagnostic_some. cbn [emit_of_error e_code e_range].
    split; [destruct (pe_doc pe); [exact Hd|exact Hs]|]. split; [exact (Hsup pe Hpe)|reflexivity].
Qed.

(** de-duplication keeps a duplicate-free prefix as it is *)
Lemma dedup_acc_nodup_prefix : forall l1 l2 kept,
  NoDup l1 -> (forall d, In d l1 -> ~ In d kept) ->
  dedup_acc kept (l1 ++ l2) = l1 ++ dedup_acc (rev l1 ++ kept) l2.
Proof.
  induction l1 as [|x r IH]; intros l2 kept Hnd Hk; cbn [app rev dedup_acc]; [reflexivity|].
  inversion Hnd as [|? ? Hx Hr]; subst.
  destruct (in_dec diag_eq_dec x kept) as [Hin|_]; [exfalso; exact (Hk x (or_introl eq_refl) Hin)|].
  f_equal. rewrite (IH l2 (x :: kept) Hr).
  - rewrite <- app_assoc. reflexivity.
  - intros d Hd [Heq|Hin]; [subst; contradiction|exact (Hk d (or_intror Hd) Hin)].
Qed.

Lemma syntax_errors_prefix : forall t cfg f errs extra others ds,
  diagnose_file (translate_range t) cfg f (syntax_error_checker errs extra :: others) = Some ds ->
  is_checker_enable_by_code cfg f C_SyntaxError = true ->
  is_checker_enable_by_code cfg f C_DocSyntaxError = true ->
  (forall pe, In pe errs -> f_suppressed f (code_of_kind (pe_doc pe)) (pe_range pe) = false) ->
  NoDup (map (diag_of_error t cfg) errs) ->
  exists rest, ds = map (diag_of_error t cfg) errs ++ rest.
Proof.
  intros t cfg f errs extra others ds H Hs Hd Hsup Hnd.
  destruct (syntax_errors_one_each t cfg f errs extra others ds H Hs Hd Hsup) as [rest ->].
  unfold get_diagnostics. destruct dedup_diagnostics.
  - rewrite (dedup_acc_nodup_prefix _ rest [] Hnd); [eexists; reflexivity|intros d _ []].
  - eexists; reflexivity.
Qed.

(** a parse error whose code is switched off produces no diagnostic (the "unless" of the statement) *)
Lemma disabled_syntax_code_silent : forall t cfg f ks ds d c,
  diagnose_file (translate_range t) cfg f ks = Some ds -> In d ds ->
  is_checker_enable_by_code cfg f c = false -> d_code d <> c.
Proof.
  intros t cfg f ks ds d c H Hin Hoff Heq. subst c.
  rewrite (reported_enabled _ cfg f ks ds d H Hin) in Hoff. discriminate.
Qed.

(** ---- codes and severities ---- *)

Lemma all_codes_complete : forall c, In c all_codes.
Proof. intros c. destruct c; vm_compute; tauto. Qed.

Lemma string_mem_in : forall s l, string_mem s l = true <-> In s l.
Proof.
  intros s l. induction l as [|x r IH]; cbn [string_mem In]; [split; [discriminate|tauto]|].
  rewrite orb_true_iff, IH. destruct (String.eqb_spec s x); split; intros H.
  - left. symmetry. assumption.
  - left. reflexivity.
  - destruct H; [discriminate|right; assumption].
  - destruct H; [subst; contradiction|right; assumption].
Qed.

Lemma nodupb_sound : forall l, nodupb l = true -> NoDup l.
Proof.
  induction l as [|x r IH]; intros H; [constructor|].
  cbn [nodupb] in H. apply andb_true_iff in H. destruct H as [H1 H2].
  constructor; [|exact (IH H2)]. intros Hin. apply string_mem_in in Hin. rewrite Hin in H1. discriminate.
Qed.

Lemma code_names_distinct : NoDup (map code_name all_codes).
Proof. apply nodupb_sound. vm_compute. reflexivity. Qed.

Lemma code_name_injective : forall a b, code_name a = code_name b -> a = b.
Proof.
  assert (H : forall l, NoDup (map code_name l) -> forall a b, In a l -> In b l -> code_name a = code_name b -> a = b).
  { induction l as [|x r IH]; intros Hnd a b Ha Hb Heq; [destruct Ha|].
    cbn [map] in Hnd. inversion Hnd as [|? ? Hnot Hnd']; subst.
    destruct Ha as [<-|Ha]; destruct Hb as [<-|Hb].
    - reflexivity.
    - exfalso. apply Hnot. rewrite Heq. apply in_map. exact Hb.
    - exfalso. apply Hnot. rewrite <- Heq. apply in_map. exact Ha.
    - exact (IH Hnd' a b Ha Hb Heq). }
  intros a b. apply (H all_codes code_names_distinct); apply all_codes_complete.
Qed.

Lemma codes_known : forall tr cfg f ks ds d,
  diagnose_file tr cfg f ks = Some ds -> In d ds ->
  d_name d = code_name (d_code d) /\ In (d_name d) (map code_name all_codes).
Proof.
  intros tr cfg f ks ds d H Hin. apply (in_diagnose_file _ _ _ _ _ d H) in Hin.
  apply in_check_file in Hin. destruct Hin as [k [e [_ [_ [_ [_ [_ ->]]]]]]].
  unfold mk_diag. cbn [d_name d_code]. split; [reflexivity|]. apply in_map. apply all_codes_complete.
Qed.

Lemma severity_total : forall tr cfg f ks ds d,
  diagnose_file tr cfg f ks = Some ds -> In d ds -> exists s, d_severity d = Some s.
Proof.
  intros tr cfg f ks ds d H Hin. rewrite (C20.Proofs.severity_override tr cfg f ks ds d H Hin).
  destruct (lookup_severity cfg (d_code d)) as [s|]; eexists; reflexivity.
Qed.

(** ---- example ---- *)
(** "a😀b = = 1\r\n---@type" : a syntax error after an astral character (UTF-16 columns 7-8 for bytes 9-10)
    and a doc error at the end of the text on line 1 *)
Definition ex_text : text := [97; 128512; 98; 32; 61; 32; 61; 32; 49; 13; 10; 45; 45; 45; 64; 116; 121; 112; 101].
Definition ex_errs : list parse_error :=
  [ {| pe_doc := false; pe_range := (9, 10); pe_msg := [63] |};
    {| pe_doc := false; pe_range := (9, 10); pe_msg := [63] |};   (* the parser recorded this error twice *)
    {| pe_doc := true; pe_range := (22, 22); pe_msg := [33] |} ].
Definition ex_cfg : config :=
  {| cfg_enable := true; ws_disabled := []; ws_enabled := []; cfg_severity := []; cfg_globals := [];
     cfg_globals_regex := []; cfg_level := L_Lua55 |}.
Definition ex_file : file :=
  {| f_enabled := []; f_disabled := []; f_meta := false; f_workspace := Some 1; f_suppressed := fun _ _ => false |}.

Lemma syntax_example :
  option_map (map (fun d => (d_name d, d_range d, d_severity d)))
    (diagnose_file (translate_range ex_text) ex_cfg ex_file [syntax_error_checker ex_errs []])
  = Some [ ("syntax-error"%string, ((0, 7), (0, 8)), Some ERROR); ("doc-syntax-error"%string, ((1, 8), (1, 8)), Some ERROR) ]
  /\ translate_range ex_text (2, 3) = fallback
  /\ valid_range ex_text (9, 10).
Proof. vm_compute. repeat split; try reflexivity; try discriminate. Qed.
