(** C21/Model.v — the well-formedness side of the diagnostic pipeline, on top of the C22 line-index
    model and the C20 gate model:
      checker/mod.rs        [DiagnosticContext::translate_range] and its [0:0] fallback in [add_diagnostic]
      checker/syntax_error.rs  [SyntaxErrorChecker::check]: one [add_diagnostic] per [LuaParseError],
                            then the token-level checks (arbitrary further emissions here)
    Executable definitions only. *)
From Coq Require Import List String NArith Bool.
From EV Require Export C22.Model C20.Model.
Import ListNotations.
Local Open Scope N_scope.

(** [translate_range] : [document.get_line_col] of both ends, [None] if either is [None] *)
Definition translate_range_res (t : text) (r : range) : res lsp_range :=
  to_lsp_range (parse t) t (fst r) (snd r).

(** [self.translate_range(range).unwrap_or(0:0-0:0)]; a panic (slicing off a character boundary) is
    mapped to the fallback as well so that the function is total — [translate_never_panics] shows it
    cannot happen for ranges on character boundaries *)
Definition fallback : lsp_range := ((0, 0), (0, 0)).
Definition translate_range (t : text) (r : range) : lsp_range :=
  match translate_range_res t r with
  | Val pq => pq
  | Nothing => fallback
  | Panic => fallback
  end.

(** a [LuaParseError]: kind ([true] = DocError), range, message *)
Record parse_error := { pe_doc : bool; pe_range : range; pe_msg : list N }.

Definition code_of_kind (doc : bool) : code := if doc then C_DocSyntaxError else C_SyntaxError.

Definition emit_of_error (pe : parse_error) : emit :=
  {| e_code := code_of_kind (pe_doc pe); e_range := pe_range pe; e_msg := pe_msg pe; e_data := None |}.

(** [SyntaxErrorChecker]: the parse errors of the file in order, then whatever the token-level checks
    (integer / float / string escapes / [...]) report *)
Definition syntax_error_checker (errs : list parse_error) (extra : list emit) : checker :=
  {| k_codes := codes_of_checker "SyntaxErrorChecker";
     k_body := fun _ => map emit_of_error errs ++ extra |}.

(** lexicographic order on (line, character) *)
Definition pos_le (p q : N * N) : Prop := fst p < fst q \/ (fst p = fst q /\ snd p <= snd q).

(** an LSP range lies inside the document [t] with start before or equal to end: both positions are the
    positions of character boundaries [a <= b] of the text (so the lines exist and the columns do not
    exceed the lines), and converting them back gives exactly those offsets *)
Definition in_document (t : text) (r : lsp_range) : Prop :=
  pos_le (fst r) (snd r) /\
  exists a b, a <= b /\ b <= bytes t /\ boundaryb t a = true /\ boundaryb t b = true /\
              to_rowan_range (parse t) t (fst r) (snd r) = Val (a, b).

Definition valid_range (t : text) (r : range) : Prop :=
  boundaryb t (fst r) = true /\ boundaryb t (snd r) = true /\ fst r <= snd r.

(** no two distinct codes share a name *)
Fixpoint string_mem (s : string) (l : list string) : bool :=
  match l with [] => false | x :: r => String.eqb s x || string_mem s r end.
Fixpoint nodupb (l : list string) : bool :=
  match l with [] => true | x :: r => negb (string_mem x r) && nodupb r end.
