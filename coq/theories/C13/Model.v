(** C13/Model.v — (B) transcription of the implementation's name resolution, and (A) the reference resolver.
    Executable definitions only.

    (B) transcribes, function for function (after the [fix:] commits named in findings/C13.json):
      crates/emmylua_code_analysis/src/db_index/declaration/decl_tree.rs
          LuaDeclarationTree::{find_local_decl, find_scope, visit_visible_decls, get_repeat_body,
                               search_scope_children, visit_child_scope}
      crates/emmylua_code_analysis/src/db_index/declaration/scope.rs        LuaScope, LuaScopeKind
      crates/emmylua_code_analysis/src/compilation/analyzer/decl/mod.rs     walk_node_enter / walk_node_leave,
                               DeclAnalyzer::{create_scope, pop_scope, add_decl, find_decl}
      crates/emmylua_code_analysis/src/compilation/analyzer/decl/stats.rs   analyze_local_stat, analyze_assign_stat,
                               analyze_for_stat, analyze_for_range_stat, analyze_func_stat, analyze_local_func_stat
      crates/emmylua_code_analysis/src/compilation/analyzer/decl/exprs.rs   analyze_name_expr, analyze_closure_expr,
                               try_add_self_param
      crates/emmylua_code_analysis/src/db_index/reference/file_reference.rs FileReference::add_decl_reference

    Representation.  The Rust arena [scopes : Vec<LuaScope>] with parent ids and the analyzer's stack of open
    scope ids is represented by a zipper: the list of OPEN scopes (innermost first), each with the children it
    has so far; closed scopes are immutable trees.  Open scopes are always the last child of their parent, so
    [plug] rebuilds exactly the arena tree of that moment; a scope found by [find_scope] is returned with the
    chain of its ancestors (the parent pointers).  The callback-with-early-exit traversals are lists in
    visiting order; [find_local_decl] is the first match.

    Not modelled (outside the fragment; the names of the fragment are never [_], [_G], [_ENV], [...]):
    [---@meta] files, attributes, the [_ = e] special case of analyze_assign_stat, member/global/index indexes. *)
From EV Require Export C13.Syntax.
Local Open Scope N_scope.

(** * Declaration tree *)

Inductive kind := KNormal | KRepeat | KLocalOrAssign | KForRange | KFuncStat | KMethodStat | KClosure.

(** [LuaDeclExtra]: [Local]/[Param] ([is_local]), [ImplicitSelf], [Global] *)
Inductive dkind := DLocal | DSelf | DGlobal.

Record decl := mkDecl { d_pos : N; d_name : name; d_kind : dkind }.

Inductive node :=
| NDecl (d : decl)
| NScope (k : kind) (s e : N) (cs : list node).

Definition kind_eqb (a b : kind) : bool :=
  match a, b with
  | KNormal, KNormal | KRepeat, KRepeat | KLocalOrAssign, KLocalOrAssign | KForRange, KForRange
  | KFuncStat, KFuncStat | KMethodStat, KMethodStat | KClosure, KClosure => true
  | _, _ => false
  end.

Definition node_kind (n : node) : kind := match n with NScope k _ _ _ => k | NDecl _ => KNormal end.
Definition node_children (n : node) : list node := match n with NScope _ _ _ cs => cs | NDecl _ => [] end.
(** [ScopeOrDeclId] position: [decl_id.position] / [scope.get_position() = range.start()] *)
Definition node_pos (n : node) : N := match n with NDecl d => d_pos d | NScope _ s _ _ => s end.
Definition is_local (d : decl) : bool := match d_kind d with DLocal => true | _ => false end.

(** [TextRange::contains]: half open *)
Definition contains (s e p : N) : bool := (s <=? p) && (p <? e).

(** [find_scope]: from the root, repeatedly enter the first child scope whose range contains the position.
    Returns the scope found and its ancestors, innermost first ([acc] = the ancestors so far). *)
Fixpoint find_scope_in (n : node) (p : N) (acc : list node) : list node :=
  match n with
  | NDecl _ => acc
  | NScope _ _ _ cs =>
      let acc' := n :: acc in
      (* [children.iter().filter_map(scope).find(|c| c.range.contains(p))], then continue inside it *)
      fold_right (fun c rest =>
                    match c with
                    | NScope _ s e _ => if contains s e p then find_scope_in c p acc' else rest
                    | NDecl _ => rest
                    end) acc' cs
  end.

Definition decls_of (cs : list node) : list decl :=
  flat_map (fun c => match c with NDecl d => [d] | NScope _ _ _ _ => [] end) cs.

(** [visit_child_scope]: what a child scope contributes to its parent's search *)
Definition visit_child_scope (c : node) : list decl :=
  match node_kind c with
  | KFuncStat | KMethodStat => decls_of (node_children c)
  | KLocalOrAssign => rev (decls_of (node_children c))
  | _ => []
  end.

Definition contrib (c : node) : list decl :=
  match c with
  | NDecl d => [d]
  | NScope _ _ _ _ => visit_child_scope c
  end.

(** [children.iter().rposition(pred)] *)
Fixpoint rposition (f : node -> bool) (l : list node) : option nat :=
  match l with
  | [] => None
  | c :: r => match rposition f r with
              | Some i => Some (S i)
              | None => if f c then Some O else None
              end
  end.

(** [search_scope_children]: the right-most child starting before [p], then every child to its left, closest first *)
Definition search_scope_children (scope : node) (p : N) : list decl :=
  let cs := node_children scope in
  match rposition (fun c => node_pos c <? p) cs with
  | None => []
  | Some cut => flat_map contrib (rev (firstn (S cut) cs))
  end.

(** [get_repeat_body] *)
Definition get_repeat_body (scope : node) : option node :=
  match node_children scope with
  | (NScope k _ _ _ as c) :: _ => if kind_eqb k KClosure then None else Some c
  | _ => None
  end.

(** [visit_visible_decls] on a scope given with its ancestors; the declarations in visiting order.
    [fuel]: every call either moves to the parent or (Repeat, entry) to the body block, whose kind is Normal for
    trees built by the walk; [2 * length chain + 4] is never exhausted there. *)
Fixpoint visit (fuel : nat) (chain : list node) (p : N) (entry : bool) : list decl :=
  match fuel with
  | O => []
  | S fuel' =>
      match chain with
      | [] => []
      | scope :: up =>
          let parent_step :=
            match up with
            | [] => []
            | parent :: _ =>
                visit fuel' up p (kind_eqb (node_kind parent) KForRange && kind_eqb (node_kind scope) KClosure)
            end in
          let own := search_scope_children scope p in
          let cutoff_parent :=
            match up with
            | [] => []
            | _ :: _ => visit fuel' up (node_pos scope) false
            end in
          if entry then
            match node_kind scope with
            | KLocalOrAssign => cutoff_parent
            | KRepeat =>
                match get_repeat_body scope with
                | Some body => visit fuel' (body :: chain) p true
                | None => parent_step
                end
            | KForRange =>
                match up with
                | [] => []
                | _ :: _ => visit fuel' up p false
                end
            | _ => own ++ parent_step
            end
          else
            match node_kind scope with
            | KLocalOrAssign => cutoff_parent
            | KRepeat =>
                match get_repeat_body scope with
                | Some body => search_scope_children body p
                | None => []
                end ++ own ++ parent_step
            | _ => own ++ parent_step
            end
      end
  end.

Definition visit_fuel (chain : list node) : nat := (2 * List.length chain + 4)%nat.

(** [find_local_decl] *)
Definition find_local_decl (root : option node) (x : name) (p : N) : option decl :=
  match root with
  | None => None
  | Some r =>
      let chain := find_scope_in r p [] in
      find (fun d => d_name d =? x) (visit (visit_fuel chain) chain p true)
  end.

(** * The analyzer state *)

Record frame := mkFrame { f_kind : kind; f_start : N; f_end : N; f_children : list node }.

Record state := mkState {
  st_z : list frame;              (* open scopes, innermost first *)
  st_decls : list decl;           (* LuaDeclarationTree::decls (keyed by position) *)
  st_refs : list (N * decl);      (* FileReference::references_to_decl (keyed by the start of the token) *)
  st_cells : list (N * (N * N))   (* FileReference::decl_references: declaration position, range of the referring token *)
}.

Definition frame_node (f : frame) : node := NScope (f_kind f) (f_start f) (f_end f) (f_children f).

(** the tree of the moment: every open scope is the last child of its parent *)
Fixpoint plug_into (inner : node) (z : list frame) : node :=
  match z with
  | [] => inner
  | g :: z' => plug_into (NScope (f_kind g) (f_start g) (f_end g) (f_children g ++ [inner])) z'
  end.

Definition plug (z : list frame) : option node :=
  match z with
  | [] => None
  | f :: z' => Some (plug_into (frame_node f) z')
  end.

(** [DeclAnalyzer::create_scope] (the new scope becomes a child of the current one) *)
Definition create_scope (s e : N) (k : kind) (st : state) : state :=
  mkState (mkFrame k s e [] :: st_z st) (st_decls st) (st_refs st) (st_cells st).

(** [DeclAnalyzer::pop_scope]; the root scope stays (the arena keeps it) *)
Definition pop_scope (st : state) : state :=
  match st_z st with
  | f :: g :: z' =>
      mkState (mkFrame (f_kind g) (f_start g) (f_end g) (f_children g ++ [frame_node f]) :: z') (st_decls st) (st_refs st) (st_cells st)
  | _ => st
  end.

(** [DeclAnalyzer::add_decl] *)
Definition add_decl (d : decl) (st : state) : state :=
  match st_z st with
  | f :: z' =>
      mkState (mkFrame (f_kind f) (f_start f) (f_end f) (f_children f ++ [NDecl d]) :: z') (st_decls st ++ [d]) (st_refs st) (st_cells st)
  | [] => mkState [] (st_decls st ++ [d]) (st_refs st) (st_cells st)
  end.

Definition get_decl (p : N) (st : state) : option decl := find (fun d => d_pos d =? p) (st_decls st).

Definition find_decl (x : name) (p : N) (st : state) : option decl := find_local_decl (plug (st_z st)) x p.

Definition lookup_ref (p : N) (refs : list (N * decl)) : option decl :=
  match find (fun r => fst r =? p) refs with Some r => Some (snd r) | None => None end.

(** [FileReference::add_decl_reference] for the token range [p, e): the first entry for a range wins; the cell
    list of the declaration receives the range exactly when the map does *)
Definition add_ref (p e : N) (d : decl) (st : state) : state :=
  match lookup_ref p (st_refs st) with
  | Some _ => st
  | None => mkState (st_z st) (st_decls st) (st_refs st ++ [(p, d)]) (st_cells st ++ [(d_pos d, (p, e))])
  end.

(** [analyze_name_expr] *)
Definition analyze_name_expr (x : name) (p : N) (st : state) : state :=
  let e := p + nlen x in
  match get_decl p st with
  | Some d => add_ref p e d st
  | None =>
      match find_decl x p st with
      | Some d => if is_local d then add_ref p e d st
                  else if d_pos d =? p then st else add_ref p e d st
      | None => st
      end
  end.

(** declarations of a name list [x1, x2, ...] whose first token is at [o] *)
Fixpoint add_name_decls (xs : list name) (o : N) (st : state) : state :=
  match xs with
  | [] => st
  | x :: r => add_name_decls r (o + nlen x + 2) (add_decl (mkDecl o x DLocal) st)
  end.

(** [analyze_assign_stat]: every plain-name target that resolves is a (write) reference, otherwise it declares a global *)
Fixpoint analyze_assign_vars (vs : exprs) (o : N) (st : state) : state :=
  match vs with
  | ENil => st
  | ECons v r =>
      let st1 :=
        match v with
        | EName x => match find_decl x o st with
                     | Some d => add_ref o (o + nlen x) d st
                     | None => add_decl (mkDecl o x DGlobal) st
                     end
        | _ => st
        end in
      analyze_assign_vars r (o + len_expr v + 2) st1
  end.

(** [analyze_closure_expr] with [try_add_self_param]; then the body block (a scope of its own when it has items) *)
Definition walk_closure (walk_items : N -> state -> state) (items_len : N) (has_items : bool)
           (self : option N) (ps : list name) (cs ce po : N) (st : state) : state :=
  let st1 := create_scope cs ce KClosure st in
  let st2 := match self with Some c => add_decl (mkDecl c self_name DSelf) st1 | None => st1 end in
  let st3 := add_name_decls ps (po + 1) st2 in
  let bo := po + 1 + len_names ps + 1 in
  let st4 := if has_items
             then pop_scope (walk_items (bo + 1) (create_scope bo (bo + 1 + items_len) KNormal st3))
             else st3 in
  pop_scope st4.

Definition has_items (b : block) : bool := match b with BNil => false | _ => true end.

(** a block between an opening and a closing token: [bo] is the end of the opening token *)
Definition walk_body (walk_items : N -> state -> state) (items_len : N) (has_items : bool) (bo : N) (st : state) : state :=
  if has_items
  then pop_scope (walk_items (bo + 1) (create_scope bo (bo + 1 + items_len) KNormal st))
  else st.

(** * The declaration walk (pre-order; a statement's declarations are added on entering it) *)
Fixpoint walk_expr (e : expr) (o : N) (st : state) : state :=
  match e with
  | ENum _ => st
  | EName x => analyze_name_expr x o st
  | EIdx e1 _ => walk_expr e1 (o + paren e1) st
  | ECall f args =>
      walk_exprs args (o + paren f + len_expr f + paren f + 1) (walk_expr f (o + paren f) st)
  | EBin a b => walk_expr b (o + len_expr a + 3) (walk_expr a o st)
  | EFun ps b =>
      walk_closure (walk_block b) (len_block b) (has_items b) None ps o (o + len_expr e) (o + 8) st
  | EStr _ => st
  | ETable es => walk_exprs es (o + 1) st
  | EMeth e1 m args =>
      walk_exprs args (o + paren e1 + len_expr e1 + paren e1 + 1 + nlen m + 1) (walk_expr e1 (o + paren e1) st)
  end
with walk_exprs (es : exprs) (o : N) (st : state) : state :=
  match es with
  | ENil => st
  | ECons e r => walk_exprs r (o + len_expr e + 2) (walk_expr e o st)
  end
with walk_stat (s : stat) (o : N) (st : state) : state :=
  match s with
  | SLocal xs es =>
      let st1 := create_scope o (o + len_stat s) KLocalOrAssign st in
      let st2 := add_name_decls xs (o + 6) st1 in
      pop_scope (walk_exprs es (o + 6 + len_names xs + 3) st2)
  | SAssign vs es =>
      let st1 := create_scope o (o + len_stat s) KLocalOrAssign st in
      let st2 := analyze_assign_vars vs o st1 in
      pop_scope (walk_exprs es (o + len_exprs vs + 3) (walk_exprs vs o st2))
  | SCall f args =>
      walk_exprs args (o + paren f + len_expr f + paren f + 1) (walk_expr f (o + paren f) st)
  | SLocalFun f ps b =>
      let st1 := create_scope o (o + len_stat s) KFuncStat st in
      let st2 := add_decl (mkDecl (o + 15) f DLocal) st1 in
      let po := o + 15 + nlen f in
      pop_scope (walk_closure (walk_block b) (len_block b) (has_items b) None ps po (o + len_stat s) po st2)
  | SFun root fields meth ps b =>
      let k := match meth with Some _ => KMethodStat | None => KFuncStat end in
      let st1 := create_scope o (o + len_stat s) k st in
      (* analyze_func_stat: a plain name that does not resolve declares a global *)
      let st2 := match fields, meth with
                 | [], None => match find_decl root (o + 9) st1 with
                               | None => add_decl (mkDecl (o + 9) root DGlobal) st1
                               | Some _ => st1
                               end
                 | _, _ => st1
                 end in
      let st3 := analyze_name_expr root (o + 9) st2 in
      let colon := o + 9 + nlen root + len_fields fields in
      let po := colon + len_meth meth in
      let self := match meth with Some _ => Some colon | None => None end in
      pop_scope (walk_closure (walk_block b) (len_block b) (has_items b) self ps po (o + len_stat s) po st3)
  | SDo b => walk_body (walk_block b) (len_block b) (has_items b) (o + 2) st
  | SWhile c b =>
      walk_body (walk_block b) (len_block b) (has_items b) (o + 6 + len_expr c + 3) (walk_expr c (o + 6) st)
  | SRepeat b c =>
      let st1 := create_scope o (o + len_stat s) KRepeat st in
      let st2 := walk_body (walk_block b) (len_block b) (has_items b) (o + 6) st1 in
      pop_scope (walk_expr c (o + 6 + (1 + len_block b) + 6) st2)
  | SIf c b els =>
      let st1 := walk_expr c (o + 3) st in
      let bo := o + 3 + len_expr c + 5 in
      walk_elifs els (bo + (1 + len_block b)) (walk_body (walk_block b) (len_block b) (has_items b) bo st1)
  | SFor x es b =>
      let st1 := create_scope o (o + len_stat s) KForRange st in
      let st2 := add_decl (mkDecl (o + 4) x DLocal) st1 in
      let eo := o + 4 + nlen x + 3 in
      let st3 := walk_exprs es eo st2 in
      pop_scope (walk_body (walk_block b) (len_block b) (has_items b) (eo + len_exprs es + 3) st3)
  | SForIn xs es b =>
      let st1 := create_scope o (o + len_stat s) KForRange st in
      let st2 := add_name_decls xs (o + 4) st1 in
      let eo := o + 4 + len_names xs + 4 in
      let st3 := walk_exprs es eo st2 in
      pop_scope (walk_body (walk_block b) (len_block b) (has_items b) (eo + len_exprs es + 3) st3)
  | SLabel _ | SGoto _ => st                   (* labels are not declarations of the scope tree *)
  | SLocalAttr x cl es =>
      let st1 := create_scope o (o + len_stat s) KLocalOrAssign st in
      let st2 := add_name_decls [x] (o + 6) st1 in
      pop_scope (walk_exprs es (o + 6 + nlen x + 8 + 3) st2)
  end
with walk_elifs (els : elifs) (o : N) (st : state) : state :=
  match els with
  | ElEnd => st
  | ElElse b => walk_body (walk_block b) (len_block b) (has_items b) (o + 4) st
  | ElIf c b r =>
      let st1 := walk_expr c (o + 7) st in
      let bo := o + 7 + len_expr c + 5 in
      walk_elifs r (bo + (1 + len_block b)) (walk_body (walk_block b) (len_block b) (has_items b) bo st1)
  end
with walk_block (b : block) (o : N) (st : state) : state :=
  match b with
  | BNil => st
  | BRet es => walk_exprs es (o + 7) st
  | BCons s r => walk_block r (o + len_stat s + 1) (walk_stat s o st)
  end.

(** [DeclAnalyzer::analyze]: the chunk scope, then the chunk's block (both span the whole text) *)
Definition walk_program (p : program) : state :=
  let n := len_block p in
  let st0 := create_scope 0 n KNormal (mkState [] [] [] []) in
  if has_items p then pop_scope (walk_block p 0 (create_scope 0 n KNormal st0)) else st0.

(** * Name uses *)

(** positions and names of the name uses ([NameExpr] tokens), in source order *)
Fixpoint uses_expr (e : expr) (o : N) : list (N * name) :=
  match e with
  | ENum _ => []
  | EName x => [(o, x)]
  | EIdx e1 _ => uses_expr e1 (o + paren e1)
  | ECall f args => uses_expr f (o + paren f) ++ uses_exprs args (o + paren f + len_expr f + paren f + 1)
  | EBin a b => uses_expr a o ++ uses_expr b (o + len_expr a + 3)
  | EFun ps b => uses_block b (o + 8 + (1 + len_names ps + 1) + 1)
  | EStr _ => []
  | ETable es => uses_exprs es (o + 1)
  | EMeth e1 m args =>
      uses_expr e1 (o + paren e1) ++ uses_exprs args (o + paren e1 + len_expr e1 + paren e1 + 1 + nlen m + 1)
  end
with uses_exprs (es : exprs) (o : N) : list (N * name) :=
  match es with
  | ENil => []
  | ECons e r => uses_expr e o ++ uses_exprs r (o + len_expr e + 2)
  end
with uses_stat (s : stat) (o : N) : list (N * name) :=
  match s with
  | SLocal xs es => uses_exprs es (o + 6 + len_names xs + 3)
  | SAssign vs es => uses_exprs vs o ++ uses_exprs es (o + len_exprs vs + 3)
  | SCall f args => uses_expr f (o + paren f) ++ uses_exprs args (o + paren f + len_expr f + paren f + 1)
  | SLocalFun f ps b => uses_block b (o + 15 + nlen f + (1 + len_names ps + 1) + 1)
  | SFun root fields meth ps b =>
      (o + 9, root) :: uses_block b (o + 9 + nlen root + len_fields fields + len_meth meth + (1 + len_names ps + 1) + 1)
  | SDo b => uses_block b (o + 2 + 1)
  | SWhile c b => uses_expr c (o + 6) ++ uses_block b (o + 6 + len_expr c + 3 + 1)
  | SRepeat b c => uses_block b (o + 6 + 1) ++ uses_expr c (o + 6 + (1 + len_block b) + 6)
  | SIf c b els =>
      uses_expr c (o + 3) ++ uses_block b (o + 3 + len_expr c + 5 + 1)
      ++ uses_elifs els (o + 3 + len_expr c + 5 + (1 + len_block b))
  | SFor x es b =>
      uses_exprs es (o + 4 + nlen x + 3) ++ uses_block b (o + 4 + nlen x + 3 + len_exprs es + 3 + 1)
  | SForIn xs es b =>
      uses_exprs es (o + 4 + len_names xs + 4) ++ uses_block b (o + 4 + len_names xs + 4 + len_exprs es + 3 + 1)
  | SLabel _ | SGoto _ => []
  | SLocalAttr x cl es => uses_exprs es (o + 6 + nlen x + 8 + 3)
  end
with uses_elifs (els : elifs) (o : N) : list (N * name) :=
  match els with
  | ElEnd => []
  | ElElse b => uses_block b (o + 4 + 1)
  | ElIf c b r =>
      uses_expr c (o + 7) ++ uses_block b (o + 7 + len_expr c + 5 + 1)
      ++ uses_elifs r (o + 7 + len_expr c + 5 + (1 + len_block b))
  end
with uses_block (b : block) (o : N) : list (N * name) :=
  match b with
  | BNil => []
  | BRet es => uses_exprs es (o + 7)
  | BCons s r => uses_stat s o ++ uses_block r (o + len_stat s + 1)
  end.

(** a resolution: the position of the local declaration (a [local], a parameter, a loop variable, the implicit
    [self] of a method — located at the colon), or [None] = global *)
Definition resolution := option N.

(** what the reference index says about the use at [p] *)
Definition classify (od : option decl) : resolution :=
  match od with
  | Some d => match d_kind d with DLocal | DSelf => Some (d_pos d) | DGlobal => None end
  | None => None
  end.

Definition impl_at (st : state) (p : N) : resolution := classify (lookup_ref p (st_refs st)).

(** (B): the implementation's answer for every name use of the program *)
Definition impl_resolve (p : program) : list (N * resolution) :=
  let st := walk_program p in
  map (fun u => (fst u, impl_at st (fst u))) (uses_block p 0).

(** * (A) the reference resolver: lexical scoping as the Lua manual states it (section 3.5, 3.3.4, 3.3.5, 3.3.7, 3.4.11)

    An environment lists the visible local declarations, innermost first.  A local is visible from the statement
    AFTER its declaration to the end of its block; [local function f] is visible in its own body; parameters (and
    the implicit [self]) are visible in the function body; loop variables in the loop body only; the [until]
    condition sees the locals of the repeat body; in [local a, a] the second declaration is the later one. *)

Definition env := list (name * N).

Definition lookup (x : name) (r : env) : resolution :=
  match find (fun b => fst b =? x) r with Some b => Some (snd b) | None => None end.

(** bindings of a name list at [o], the last name innermost *)
Fixpoint bind_names (xs : list name) (o : N) (r : env) : env :=
  match xs with
  | [] => r
  | x :: t => bind_names t (o + nlen x + 2) ((x, o) :: r)
  end.

Fixpoint ref_expr (r : env) (e : expr) (o : N) : list (N * resolution) :=
  match e with
  | ENum _ => []
  | EName x => [(o, lookup x r)]
  | EIdx e1 _ => ref_expr r e1 (o + paren e1)
  | ECall f args => ref_expr r f (o + paren f) ++ ref_exprs r args (o + paren f + len_expr f + paren f + 1)
  | EBin a b => ref_expr r a o ++ ref_expr r b (o + len_expr a + 3)
  | EFun ps b =>
      fst (ref_block (bind_names ps (o + 8 + 1) r) b (o + 8 + (1 + len_names ps + 1) + 1))
  | EStr _ => []
  | ETable es => ref_exprs r es (o + 1)
  | EMeth e1 m args =>
      ref_expr r e1 (o + paren e1) ++ ref_exprs r args (o + paren e1 + len_expr e1 + paren e1 + 1 + nlen m + 1)
  end
with ref_exprs (r : env) (es : exprs) (o : N) : list (N * resolution) :=
  match es with
  | ENil => []
  | ECons e t => ref_expr r e o ++ ref_exprs r t (o + len_expr e + 2)
  end
(** a statement: its resolutions and the environment after it *)
with ref_stat (r : env) (s : stat) (o : N) : list (N * resolution) * env :=
  match s with
  | SLocal xs es => (ref_exprs r es (o + 6 + len_names xs + 3), bind_names xs (o + 6) r)
  | SAssign vs es => (ref_exprs r vs o ++ ref_exprs r es (o + len_exprs vs + 3), r)
  | SCall f args => (ref_expr r f (o + paren f) ++ ref_exprs r args (o + paren f + len_expr f + paren f + 1), r)
  | SLocalFun f ps b =>
      let r1 := (f, o + 15) :: r in
      let po := o + 15 + nlen f in
      (fst (ref_block (bind_names ps (po + 1) r1) b (po + (1 + len_names ps + 1) + 1)), r1)
  | SFun root fields meth ps b =>
      let colon := o + 9 + nlen root + len_fields fields in
      let po := colon + len_meth meth in
      let r1 := match meth with Some _ => (self_name, colon) :: r | None => r end in
      ((o + 9, lookup root r) :: fst (ref_block (bind_names ps (po + 1) r1) b (po + (1 + len_names ps + 1) + 1)), r)
  | SDo b => (fst (ref_block r b (o + 2 + 1)), r)
  | SWhile c b => (ref_expr r c (o + 6) ++ fst (ref_block r b (o + 6 + len_expr c + 3 + 1)), r)
  | SRepeat b c =>
      let '(l, r1) := ref_block r b (o + 6 + 1) in
      (l ++ ref_expr r1 c (o + 6 + (1 + len_block b) + 6), r)
  | SIf c b els =>
      (ref_expr r c (o + 3) ++ fst (ref_block r b (o + 3 + len_expr c + 5 + 1))
       ++ ref_elifs r els (o + 3 + len_expr c + 5 + (1 + len_block b)), r)
  | SFor x es b =>
      let eo := o + 4 + nlen x + 3 in
      (ref_exprs r es eo ++ fst (ref_block ((x, o + 4) :: r) b (eo + len_exprs es + 3 + 1)), r)
  | SForIn xs es b =>
      let eo := o + 4 + len_names xs + 4 in
      (ref_exprs r es eo ++ fst (ref_block (bind_names xs (o + 4) r) b (eo + len_exprs es + 3 + 1)), r)
  | SLabel _ | SGoto _ => ([], r)
  | SLocalAttr x cl es => (ref_exprs r es (o + 6 + nlen x + 8 + 3), bind_names [x] (o + 6) r)
  end
with ref_elifs (r : env) (els : elifs) (o : N) : list (N * resolution) :=
  match els with
  | ElEnd => []
  | ElElse b => fst (ref_block r b (o + 4 + 1))
  | ElIf c b t =>
      ref_expr r c (o + 7) ++ fst (ref_block r b (o + 7 + len_expr c + 5 + 1))
      ++ ref_elifs r t (o + 7 + len_expr c + 5 + (1 + len_block b))
  end
(** the items of a block: resolutions and the environment at the end of the block *)
with ref_block (r : env) (b : block) (o : N) : list (N * resolution) * env :=
  match b with
  | BNil => ([], r)
  | BRet es => (ref_exprs r es (o + 7), r)
  | BCons s t =>
      let '(l1, r1) := ref_stat r s o in
      let '(l2, r2) := ref_block r1 t (o + len_stat s + 1) in
      (l1 ++ l2, r2)
  end.

(** (A): the reference answer for every name use of the program *)
Definition ref_resolve (p : program) : list (N * resolution) := fst (ref_block [] p 0).
