(** C13/Corr.v — executable comparison of the implementation's observations with the model (B).
    A case carries the program, the text the harness printed and analysed, the reference-index answer for every
    NameExpr token and the final declaration tree of the real analyzer; [check_case] recomputes all of it. *)
From EV Require Import C13.Model.
Local Open Scope N_scope.

Definition dkind_eqb (a b : dkind) : bool :=
  match a, b with DLocal, DLocal | DSelf, DSelf | DGlobal, DGlobal => true | _, _ => false end.

Definition decl_eqb (a b : decl) : bool :=
  (d_pos a =? d_pos b) && (d_name a =? d_name b) && dkind_eqb (d_kind a) (d_kind b).

Fixpoint node_eqb (a b : node) : bool :=
  match a, b with
  | NDecl x, NDecl y => decl_eqb x y
  | NScope k s e cs, NScope k' s' e' cs' =>
      kind_eqb k k' && (s =? s') && (e =? e')
      && (fix go (l l' : list node) : bool :=
            match l, l' with
            | [], [] => true
            | x :: r, y :: r' => node_eqb x y && go r r'
            | _, _ => false
            end) cs cs'
  | _, _ => false
  end.

Fixpoint text_eqb (a b : text) : bool :=
  match a, b with
  | [], [] => true
  | x :: r, y :: r' => (x =? y) && text_eqb r r'
  | _, _ => false
  end.

Definition opt_decl_eqb (a b : option decl) : bool :=
  match a, b with
  | Some x, Some y => decl_eqb x y
  | None, None => true
  | _, _ => false
  end.

Record case := {
  c_prog : program;
  c_text : text;
  (** every NameExpr token: position, name, what the reference index maps its range to *)
  c_uses : list (N * name * option decl);
  (** the declaration tree after the analysis *)
  c_tree : node
}.

Fixpoint uses_match (us : list (N * name)) (obs : list (N * name * option decl)) (st : state) : bool :=
  match us, obs with
  | [], [] => true
  | (p, x) :: r, (p', x', od) :: r' =>
      (p =? p') && (x =? x') && opt_decl_eqb (lookup_ref p (st_refs st)) od && uses_match r r' st
  | _, _ => false
  end.

Definition check_case (c : case) : bool :=
  let st := walk_program (c_prog c) in
  text_eqb (pr_program (c_prog c)) (c_text c)
  && (tlen (c_text c) =? len_block (c_prog c))
  && match plug (st_z st) with Some t => node_eqb t (c_tree c) | None => false end
  && uses_match (uses_block (c_prog c) 0) (c_uses c) st.

(** used while developing the proofs: (B) = (A) on one program *)
Fixpoint res_list_eqb (a b : list (N * resolution)) : bool :=
  match a, b with
  | [], [] => true
  | (p, r) :: t, (p', r') :: t' =>
      (p =? p') && match r, r' with Some x, Some y => x =? y | None, None => true | _, _ => false end && res_list_eqb t t'
  | _, _ => false
  end.
Definition agree (p : program) : bool := res_list_eqb (impl_resolve p) (ref_resolve p).
