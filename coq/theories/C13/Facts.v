(** C13/Facts.v — the length functions of Syntax.v are the lengths of the printed texts. *)
From EV Require Import C13.Syntax.
From Coq Require Import String.
Local Open Scope N_scope.

Lemma tlen_app : forall a b : text, tlen (a ++ b) = tlen a + tlen b.
Proof. intros. unfold tlen. rewrite app_length. lia. Qed.

Lemma tlen_nil : tlen [] = 0.
Proof. reflexivity. Qed.

Lemma len_names_ok : forall xs, tlen (pr_names xs) = len_names xs.
Proof.
  induction xs as [|x r IH]; [reflexivity|].
  cbn [pr_names len_names]. rewrite tlen_app. fold (nlen x).
  destruct r as [|y r']; [reflexivity|].
  rewrite tlen_app, IH. reflexivity.
Qed.

Lemma len_fields_ok : forall fs, tlen (pr_fields fs) = len_fields fs.
Proof.
  induction fs as [|f r IH]; [reflexivity|].
  cbn [pr_fields len_fields]. rewrite !tlen_app, IH. fold (nlen f).
  change (tlen (str ".")) with 1. lia.
Qed.

Lemma len_meth_ok : forall m, tlen (pr_meth m) = len_meth m.
Proof.
  destruct m as [m|]; [|reflexivity].
  cbn [pr_meth len_meth]. rewrite tlen_app. reflexivity.
Qed.

Lemma lpar_len : forall e, tlen (lpar e) = paren e.
Proof. intros e. unfold lpar, paren. destruct (is_prefix e); reflexivity. Qed.
Lemma rpar_len : forall e, tlen (rpar e) = paren e.
Proof. intros e. unfold rpar, paren. destruct (is_prefix e); reflexivity. Qed.

Ltac len_norm :=
  repeat rewrite tlen_app;
  repeat rewrite len_names_ok; repeat rewrite len_fields_ok; repeat rewrite len_meth_ok;
  repeat rewrite lpar_len; repeat rewrite rpar_len;
  repeat match goal with
         | |- context [tlen (str ?s)] => let v := eval vm_compute in (tlen (str s)) in change (tlen (str s)) with v
         end.

Lemma len_ok :
  (forall e, tlen (pr_expr e) = len_expr e) /\
  (forall es, tlen (pr_exprs es) = len_exprs es) /\
  (forall s, tlen (pr_stat s) = len_stat s) /\
  (forall els, tlen (pr_elifs els) = len_elifs els) /\
  (forall b, tlen (pr_block b) = len_block b).
Proof.
  apply syntax_mutind; intros;
    cbn [pr_expr pr_exprs pr_stat pr_elifs pr_block len_expr len_exprs len_stat len_elifs len_block];
    try reflexivity.
  - (* EIdx *) len_norm. rewrite H. fold (nlen f). lia.
  - (* ECall *) len_norm. rewrite H, H0. lia.
  - (* EBin *) len_norm. rewrite H, H0. lia.
  - (* EFun *) len_norm. rewrite H. lia.
  - (* EStr *) len_norm. unfold numlen. lia.
  - (* ETable *) len_norm. rewrite H. lia.
  - (* EMeth *) len_norm. rewrite H, H0. fold (nlen m). lia.
  - (* ECons *) len_norm. rewrite H. destruct es; [reflexivity|]. len_norm. rewrite H0. lia.
  - (* SLocal *) len_norm. destruct es; [rewrite tlen_nil; lia|]. len_norm. rewrite H. lia.
  - (* SAssign *) len_norm. rewrite H, H0. lia.
  - (* SCall *) len_norm. rewrite H, H0. lia.
  - (* SLocalFun *) len_norm. rewrite H. fold (nlen f). lia.
  - (* SFun *) len_norm. rewrite H. fold (nlen root). lia.
  - (* SDo *) len_norm. rewrite H. lia.
  - (* SWhile *) len_norm. rewrite H, H0. lia.
  - (* SRepeat *) len_norm. rewrite H, H0. lia.
  - (* SIf *) len_norm. rewrite H, H0, H1. lia.
  - (* SFor *) len_norm. rewrite H, H0. fold (nlen x). lia.
  - (* SForIn *) len_norm. rewrite H, H0. lia.
  - (* SLabel *) len_norm. fold (nlen l). lia.
  - (* SGoto *) len_norm. fold (nlen l). lia.
  - (* SLocalAttr *) len_norm. fold (nlen x). destruct cl; len_norm; (destruct es; [rewrite tlen_nil; lia|]); len_norm; rewrite H; lia.
  - (* ElElse *) len_norm. rewrite H. lia.
  - (* ElIf *) len_norm. rewrite H, H0, H1. lia.
  - (* BRet *) len_norm. destruct es; [rewrite tlen_nil; lia|]. len_norm. rewrite H. lia.
  - (* BCons *) len_norm. rewrite H, H0. lia.
Qed.
