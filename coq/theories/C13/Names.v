(** C13/Names.v — the printed names are pairwise different: [name_text] is injective, so comparing the names of the
    model (numbers) is comparing the identifiers of the printed program (texts). *)
From EV Require Import C13.Syntax.
From Coq Require Import String.
Local Open Scope N_scope.

(** value of a digit string *)
Definition dval (l : text) : N := fold_left (fun a c => a * 10 + (c - 48)) l 0.

Lemma dval_app1 : forall l c, dval (l ++ [c]) = dval l * 10 + (c - 48).
Proof. intros l c. unfold dval. rewrite fold_left_app. reflexivity. Qed.

Lemma pos_lt_pow : forall p, N.pos p < 2 ^ N.of_nat (Pos.size_nat p).
Proof.
  induction p as [p IH|p IH|]; cbn [Pos.size_nat]; rewrite ?Nat2N.inj_succ, ?N.pow_succ_r'.
  - change (N.pos p~1) with (2 * N.pos p + 1). lia.
  - change (N.pos p~0) with (2 * N.pos p). lia.
  - cbn. lia.
Qed.

Lemma N_lt_pow_size : forall n, n < 2 ^ N.of_nat (N.size_nat n).
Proof. intros [|p]; [cbn; lia|apply pos_lt_pow]. Qed.

Lemma dec_go_spec : forall fuel n acc, n < 2 ^ N.of_nat fuel ->
  exists ds, dec_go fuel n acc = ds ++ acc /\ dval ds = n.
Proof.
  induction fuel as [|f IH]; intros n acc Hn.
  - cbn in Hn. assert (n = 0) by lia. subst. exists []. split; reflexivity.
  - cbn [dec_go]. destruct (N.ltb_spec n 10) as [Hlt|Hge].
    + exists [48 + n mod 10]. split; [reflexivity|]. unfold dval. cbn [fold_left].
      rewrite (N.mod_small n 10 Hlt). lia.
    + rewrite Nat2N.inj_succ, N.pow_succ_r' in Hn.
      assert (Hd : n / 10 < 2 ^ N.of_nat f).
      { apply N.div_lt_upper_bound; [discriminate|]. remember (2 ^ N.of_nat f) as P eqn:EP. clear EP IH. lia. }
      destruct (IH (n / 10) ((48 + n mod 10) :: acc) Hd) as (ds & Hds & Hv).
      exists (ds ++ [48 + n mod 10]). split.
      * rewrite Hds, <- app_assoc. reflexivity.
      * rewrite dval_app1, Hv. replace (48 + n mod 10 - 48) with (n mod 10) by (generalize (n mod 10); intros; lia).
        rewrite (N.div_mod n 10) at 3 by discriminate. generalize (n / 10) (n mod 10). intros a b. lia.
Qed.

Lemma dec_inj : forall x y, dec x = dec y -> x = y.
Proof.
  intros x y H. unfold dec in H.
  destruct (dec_go_spec (S (N.size_nat x)) x []) as (dx & Hx & Vx).
  { rewrite Nat2N.inj_succ, N.pow_succ_r'. pose proof (N_lt_pow_size x). lia. }
  destruct (dec_go_spec (S (N.size_nat y)) y []) as (dy & Hy & Vy).
  { rewrite Nat2N.inj_succ, N.pow_succ_r'. pose proof (N_lt_pow_size y). lia. }
  rewrite Hx, Hy, !app_nil_r in H. subst dx. congruence.
Qed.

(** [name_text x] for [x >= 7] *)
Lemma name_text_big : forall x, 7 <= x -> name_text x = str "v" ++ dec x.
Proof.
  intros x H. unfold name_text.
  destruct x as [|p]; [lia|].
  destruct p as [[[q|q|]|[q|q|]|]|[[q|q|]|[q|q|]|]|]; try reflexivity; lia.
Qed.

Lemma name_text_small : forall x, x < 7 ->
  exists c r, name_text x = c :: r /\ c <> 118.
Proof.
  intros x H.
  assert (Hx : x = 0 \/ x = 1 \/ x = 2 \/ x = 3 \/ x = 4 \/ x = 5 \/ x = 6) by lia.
  destruct Hx as [->|[->|[->|[->|[->|[->| ->]]]]]]; vm_compute; do 2 eexists; (split; [reflexivity|discriminate]).
Qed.

Theorem name_text_inj : forall x y, name_text x = name_text y -> x = y.
Proof.
  intros x y H.
  destruct (N.lt_ge_cases x 7) as [Hx|Hx], (N.lt_ge_cases y 7) as [Hy|Hy].
  - assert (Hxx : x = 0 \/ x = 1 \/ x = 2 \/ x = 3 \/ x = 4 \/ x = 5 \/ x = 6) by lia.
    assert (Hyy : y = 0 \/ y = 1 \/ y = 2 \/ y = 3 \/ y = 4 \/ y = 5 \/ y = 6) by lia.
    destruct Hxx as [->|[->|[->|[->|[->|[->| ->]]]]]]; destruct Hyy as [->|[->|[->|[->|[->|[->| ->]]]]]];
      try reflexivity; vm_compute in H; discriminate.
  - destruct (name_text_small x Hx) as (c & r & E & Hc). rewrite (name_text_big y Hy), E in H.
    vm_compute in H. injection H as H _. contradiction.
  - destruct (name_text_small y Hy) as (c & r & E & Hc). rewrite (name_text_big x Hx), E in H.
    cbn in H. injection H as H _. symmetry in H. contradiction.
  - rewrite (name_text_big x Hx), (name_text_big y Hy) in H. apply app_inv_head in H. apply dec_inj. exact H.
Qed.
