(** C13/Vis.v — stage 1b: the enumeration of the real traversal finds the same declaration as the
    duplicate-free enumeration [vis_entry] of the open scopes; how [vis_entry] changes when scopes are opened,
    filled and closed. *)
From EV Require Import C13.Model C13.Tree.
Local Open Scope N_scope.

(** * first match over lists *)

Lemma find_name_app : forall x a b,
  find_name x (a ++ b) = match find_name x a with Some d => Some d | None => find_name x b end.
Proof.
  intros x a b. unfold find_name. induction a as [|d r IH]; [reflexivity|].
  cbn [app find]. destruct (d_name d =? x); [reflexivity|exact IH].
Qed.

Lemma find_name_none_incl : forall x a d, find_name x a = None -> incl d a -> find_name x d = None.
Proof.
  intros x a d Ha Hin. unfold find_name in *.
  destruct (find (fun d0 => d_name d0 =? x) d) as [e|] eqn:E; [|reflexivity].
  apply find_some in E. destruct E as (E1 & E2).
  pose proof (find_none _ _ Ha e (Hin e E1)) as Hn. cbv beta in Hn. congruence.
Qed.

Lemma find_drop_dup : forall x A D rest,
  incl D A -> find_name x (A ++ D ++ rest) = find_name x (A ++ rest).
Proof.
  intros x A D rest Hin. rewrite !find_name_app.
  destruct (find_name x A) eqn:E; [reflexivity|].
  rewrite (find_name_none_incl x A D E Hin). reflexivity.
Qed.

Lemma find_name_prefix : forall x A l l',
  find_name x l = find_name x l' -> find_name x (A ++ l) = find_name x (A ++ l').
Proof. intros. rewrite !find_name_app. destruct (find_name x A); [reflexivity|assumption]. Qed.

Lemma decls_incl_contrib : forall cs, incl (decls_of cs) (all_contrib cs).
Proof.
  induction cs as [|c r IH]; [intros a Ha; destruct Ha|].
  change (c :: r) with ([c] ++ r). rewrite decls_of_app, all_contrib_app, all_contrib_one.
  apply incl_app.
  - destruct c as [d|k s e cs']; intros a Ha; cbn in Ha.
    + destruct Ha as [<-|[]]. apply in_or_app. right. simpl. auto.
    + destruct Ha.
  - apply incl_appl. exact IH.
Qed.

(** * the duplicate-free enumeration *)

Fixpoint vis_up (h : frame) (z : list frame) : list decl :=
  match z with
  | [] => []
  | g :: z' =>
      if kind_eqb (f_kind g) KForRange && kind_eqb (f_kind h) KClosure then vis_up g z'
      else
        match f_kind g with
        | KLocalOrAssign => vis_up g z'
        | KRepeat =>
            match f_children g with [] => [] | c :: _ => body_contrib c end
            ++ all_contrib (f_children g) ++ vis_up g z'
        | _ => all_contrib (f_children g) ++ vis_up g z'
        end
  end.

Definition vis_entry (z : list frame) : list decl :=
  match z with
  | [] => []
  | f :: z' =>
      match f_kind f with
      | KLocalOrAssign | KForRange => vis_up f z'
      | KRepeat =>
          match get_repeat_body (frame_node f) with
          | Some b => all_contrib (node_children b) ++ all_contrib (f_children f) ++ vis_up f z'
          | None => vis_up f z'
          end
      | _ => all_contrib (f_children f) ++ vis_up f z'
      end
  end.

Lemma vis_up_kind : forall z h h', f_kind h = f_kind h' -> vis_up h z = vis_up h' z.
Proof. intros z h h' E. destruct z as [|g z']; [reflexivity|]. cbn [vis_up]. rewrite E. reflexivity. Qed.

Lemma contrib_open_nonfunc : forall h, is_func (f_kind h) = false -> contrib_open h = [].
Proof. intros h E. unfold contrib_open. rewrite E. reflexivity. Qed.

Lemma real_up_equiv : forall z h own_h A x,
  incl (contrib_open h) A -> incl own_h A ->
  find_name x (A ++ real_up h own_h z) = find_name x (A ++ vis_up h z).
Proof.
  induction z as [|g z' IH]; intros h own_h A x Hco Hown; [reflexivity|].
  cbn [real_up vis_up].
  destruct (kind_eqb (f_kind g) KForRange && kind_eqb (f_kind h) KClosure) eqn:Efl.
  - apply andb_prop in Efl. destruct Efl as (Eg & _). apply kind_eqb_eq in Eg.
    apply IH; [|intros a Ha; destruct Ha].
    rewrite contrib_open_nonfunc by (rewrite Eg; reflexivity). intros a Ha; destruct Ha.
  - set (acg := all_contrib (f_children g)).
    assert (Hgen : forall B, incl B (A ++ B) -> True) by auto.
    assert (Hother : is_func (f_kind g) = true \/ is_func (f_kind g) = false) by (destruct (is_func (f_kind g)); auto).
    assert (Hstep : forall P,
               find_name x ((A ++ P) ++ (contrib_open h ++ acg) ++ real_up g (contrib_open h ++ acg) z')
               = find_name x ((A ++ P) ++ acg ++ vis_up g z')).
    { intros P. rewrite <- (app_assoc (contrib_open h)).
      rewrite find_drop_dup by (apply incl_appl; exact Hco).
      rewrite !(app_assoc (A ++ P) acg).
      apply IH.
      - unfold contrib_open. destruct (is_func (f_kind g)).
        + apply incl_appr. apply decls_incl_contrib.
        + intros a Ha; destruct Ha.
      - apply incl_app; [apply incl_appl, incl_appl; exact Hco|apply incl_appr, incl_refl]. }
    destruct (f_kind g) eqn:Ekg.
    + specialize (Hstep []). rewrite (app_nil_r A) in Hstep. exact Hstep.
    + (* Repeat *)
      destruct (f_children g) as [|c r] eqn:Ec.
      * cbn [app].
        assert (HB : incl (if kind_eqb (f_kind h) KClosure then [] else own_h) A).
        { destruct (kind_eqb (f_kind h) KClosure); [intros a Ha; destruct Ha|exact Hown]. }
        rewrite find_drop_dup by exact HB.
        specialize (Hstep []). rewrite (app_nil_r A) in Hstep. exact Hstep.
      * specialize (Hstep (body_contrib c)). rewrite <- !app_assoc in Hstep. rewrite <- !app_assoc. exact Hstep.
    + apply IH; [|intros a Ha; destruct Ha].
      rewrite contrib_open_nonfunc by (rewrite Ekg; reflexivity). intros a Ha; destruct Ha.
    + specialize (Hstep []). rewrite (app_nil_r A) in Hstep. exact Hstep.
    + specialize (Hstep []). rewrite (app_nil_r A) in Hstep. exact Hstep.
    + specialize (Hstep []). rewrite (app_nil_r A) in Hstep. exact Hstep.
    + specialize (Hstep []). rewrite (app_nil_r A) in Hstep. exact Hstep.
Qed.

Lemma real_entry_equiv : forall z x, find_name x (real_entry z) = find_name x (vis_entry z).
Proof.
  intros z x. destruct z as [|f z']; [reflexivity|]. cbn [real_entry vis_entry].
  assert (Hnil : forall own, is_func (f_kind f) = false ->
                  find_name x (real_up f own z') = find_name x (vis_up f z') \/ True) by (intros; right; exact I).
  assert (H0 : is_func (f_kind f) = false -> find_name x (real_up f [] z') = find_name x (vis_up f z')).
  { intros E. apply (real_up_equiv z' f [] [] x).
    - rewrite contrib_open_nonfunc by exact E. intros a Ha; destruct Ha.
    - intros a Ha; destruct Ha. }
  assert (Hown : find_name x (all_contrib (f_children f) ++ real_up f (all_contrib (f_children f)) z')
                 = find_name x (all_contrib (f_children f) ++ vis_up f z')).
  { apply real_up_equiv.
    - unfold contrib_open. destruct (is_func (f_kind f)); [apply decls_incl_contrib|intros a Ha; destruct Ha].
    - apply incl_refl. }
  destruct (f_kind f) eqn:Ek; try exact Hown; try (apply H0; reflexivity).
  (* Repeat *)
  destruct (get_repeat_body (frame_node f)) as [b|]; [|apply H0; reflexivity].
  cbv zeta.
  set (ob := all_contrib (node_children b)). set (own := all_contrib (f_children f)).
  rewrite <- (app_nil_r ob) at 1. rewrite <- app_assoc. cbn [app].
  change (ob ++ ob ++ own ++ real_up f own z') with (ob ++ ob ++ (own ++ real_up f own z')).
  rewrite find_drop_dup by apply incl_refl.
  rewrite !app_assoc. apply real_up_equiv.
  - rewrite contrib_open_nonfunc by (rewrite Ek; reflexivity). intros a Ha; destruct Ha.
  - apply incl_appr, incl_refl.
Qed.

(** Stage 1: resolution against the tree of the moment is the first match in the visible declarations *)
Theorem find_local_decl_vis : forall z x p,
  zinv z p -> p < top_end z ->
  find_local_decl (plug z) x p = find_name x (vis_entry z).
Proof. intros. rewrite find_local_decl_zipper by assumption. apply real_entry_equiv. Qed.

(** * how the visible declarations change *)

Definition silent (c : node) : Prop := contrib c = [].

Lemma all_contrib_silent : forall cs, Forall silent cs -> all_contrib cs = [].
Proof.
  induction cs as [|c r IH]; intros H; [reflexivity|].
  inversion H as [|? ? Hc Hr]; subst. change (c :: r) with ([c] ++ r).
  rewrite all_contrib_app, all_contrib_one, (IH Hr), Hc. reflexivity.
Qed.

(** a Repeat frame holds the body block and the closures of the condition: nothing its parent could see *)
Definition repeat_silent (f : frame) : Prop := f_kind f = KRepeat -> Forall silent (f_children f).

Lemma body_contrib_first : forall f,
  match f_children f with [] => [] | c :: _ => body_contrib c end
  = match get_repeat_body (frame_node f) with Some b => all_contrib (node_children b) | None => [] end.
Proof.
  intros f. unfold get_repeat_body, frame_node. cbn [node_children].
  destruct (f_children f) as [|c r]; [reflexivity|].
  destruct c as [d|k s e cs]; [reflexivity|]. cbn [body_contrib].
  destruct (kind_eqb k KClosure); reflexivity.
Qed.

(** opening a scope [n] inside the scope [f] *)
Lemma vis_up_push : forall n f z,
  repeat_silent f ->
  vis_up n (f :: z)
  = (if kind_eqb (f_kind f) KForRange && negb (kind_eqb (f_kind n) KClosure) then all_contrib (f_children f) else [])
    ++ vis_entry (f :: z).
Proof.
  intros n f z Hsil. cbn [vis_up vis_entry].
  destruct (f_kind f) eqn:Ek; cbn [kind_eqb andb app]; try reflexivity.
  - (* Repeat *)
    rewrite body_contrib_first.
    rewrite (all_contrib_silent (f_children f)) by (exact (Hsil Ek)).
    destruct (get_repeat_body (frame_node f)); reflexivity.
  - (* ForRange *)
    destruct (kind_eqb (f_kind n) KClosure); reflexivity.
Qed.

Definition with_children (f : frame) (cs : list node) : frame := mkFrame (f_kind f) (f_start f) (f_end f) cs.

(** new children of the innermost open scope *)
Lemma vis_entry_add : forall f z new,
  f_kind f = KNormal \/ f_kind f = KClosure \/ f_kind f = KFuncStat \/ f_kind f = KMethodStat ->
  vis_entry (with_children f (f_children f ++ new) :: z) = all_contrib new ++ vis_entry (f :: z).
Proof.
  intros [k s e cs] z new Hk. unfold with_children. cbn [vis_entry f_kind f_children f_start f_end] in *.
  rewrite (vis_up_kind z (mkFrame k s e (cs ++ new)) (mkFrame k s e cs)) by reflexivity.
  rewrite all_contrib_app.
  destruct Hk as [E|[E|[E|E]]]; rewrite E; rewrite <- app_assoc; reflexivity.
Qed.

Lemma vis_entry_add_skip : forall f z new,
  f_kind f = KLocalOrAssign \/ f_kind f = KForRange ->
  vis_entry (with_children f (f_children f ++ new) :: z) = vis_entry (f :: z).
Proof.
  intros [k s e cs] z new Hk. unfold with_children. cbn [vis_entry f_kind f_children f_start f_end] in *.
  rewrite (vis_up_kind z (mkFrame k s e (cs ++ new)) (mkFrame k s e cs)) by reflexivity.
  destruct Hk as [E|E]; rewrite E; reflexivity.
Qed.

Lemma get_repeat_body_app : forall k s e cs new,
  cs <> [] -> get_repeat_body (NScope k s e (cs ++ new)) = get_repeat_body (NScope k s e cs).
Proof. intros k s e cs new H. destruct cs as [|c r]; [congruence|]. reflexivity. Qed.

(** closures added to a Repeat frame (the until condition) change nothing *)
Lemma vis_entry_add_repeat_silent : forall f z new,
  f_kind f = KRepeat -> Forall silent (f_children f) -> Forall silent new ->
  (f_children f = [] -> match new with NScope k _ _ _ :: _ => k = KClosure | _ => True end) ->
  vis_entry (with_children f (f_children f ++ new) :: z) = vis_entry (f :: z).
Proof.
  intros [k s e cs] z new Hk Hs Hn Hfirst. unfold with_children.
  cbn [vis_entry f_kind f_children f_start f_end frame_node] in *. subst k.
  rewrite (vis_up_kind z (mkFrame KRepeat s e (cs ++ new)) (mkFrame KRepeat s e cs)) by reflexivity.
  rewrite (all_contrib_silent (cs ++ new)) by (apply Forall_app; split; assumption).
  rewrite (all_contrib_silent cs) by assumption.
  destruct cs as [|c r].
  - cbn [app]. specialize (Hfirst eq_refl). unfold get_repeat_body. cbn [node_children].
    destruct new as [|c' r']; [reflexivity|].
    destruct c' as [d|k s' e' cs']; [reflexivity|]. rewrite Hfirst. reflexivity.
  - unfold get_repeat_body. cbn [node_children app]. reflexivity.
Qed.

(** the body block of a Repeat frame, once closed, makes its declarations visible to the until condition *)
Lemma vis_entry_repeat_body : forall f z s e cs,
  f_kind f = KRepeat -> f_children f = [] ->
  vis_entry (with_children f [NScope KNormal s e cs] :: z) = all_contrib cs ++ vis_entry (f :: z).
Proof.
  intros [k s0 e0 cs0] z s e cs Hk Hc. unfold with_children.
  cbn [vis_entry f_kind f_children f_start f_end frame_node] in *. subst k cs0.
  rewrite (vis_up_kind z (mkFrame KRepeat s0 e0 [NScope KNormal s e cs]) (mkFrame KRepeat s0 e0 [])) by reflexivity.
  cbn [get_repeat_body node_children kind_eqb].
  rewrite all_contrib_one. cbn [contrib visit_child_scope node_kind app]. reflexivity.
Qed.
