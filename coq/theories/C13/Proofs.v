(** C13/Proofs.v — the property theorems of C13, assembled from Facts (printer), Tree/Vis (stage 1) and Sim (stage 2). *)
From EV Require Import C13.Model C13.Facts C13.Names C13.Tree C13.Vis C13.Sim C13.Corr.
Local Open Scope N_scope.

(** the reference resolver answers exactly at the name uses, in source order *)
Lemma ref_positions :
  (forall e r o, map fst (ref_expr r e o) = map fst (uses_expr e o)) /\
  (forall es r o, map fst (ref_exprs r es o) = map fst (uses_exprs es o)) /\
  (forall s r o, map fst (fst (ref_stat r s o)) = map fst (uses_stat s o)) /\
  (forall els r o, map fst (ref_elifs r els o) = map fst (uses_elifs els o)) /\
  (forall b r o, map fst (fst (ref_block r b o)) = map fst (uses_block b o)).
Proof.
  apply syntax_mutind; intros;
    cbn [ref_expr ref_exprs ref_stat ref_elifs ref_block uses_expr uses_exprs uses_stat uses_elifs uses_block fst snd map];
    try reflexivity;
    repeat match goal with
           | |- context [let '(_, _) := ?t in _] => destruct t eqn:?
           end;
    cbn [fst snd map]; rewrite ?map_app;
    repeat match goal with
           | H : forall r o, map fst (_ r _ o) = _ |- _ => rewrite H
           | H : forall r o, map fst (fst (_ r _ o)) = _ |- _ => rewrite H
           end;
    try reflexivity.
  - (* SRepeat *)
    match goal with E : ref_block ?r ?b ?o = (?l, _) |- _ =>
      replace l with (fst (ref_block r b o)) by (rewrite E; reflexivity) end.
    f_equal. auto.
  - (* BCons *)
    match goal with E1 : ref_stat ?r ?s ?o = (?l, _) |- _ =>
      replace l with (fst (ref_stat r s o)) by (rewrite E1; reflexivity) end.
    match goal with E2 : ref_block ?r ?b ?o = (?l, _) |- _ =>
      replace l with (fst (ref_block r b o)) by (rewrite E2; reflexivity) end.
    f_equal; auto.
Qed.

Lemma pop_scope_refs : forall st, st_refs (pop_scope st) = st_refs st.
Proof. intros st. unfold pop_scope. destruct (st_z st) as [|f [|g z]]; reflexivity. Qed.

Lemma res_list_eq : forall (F : N -> resolution) (L : list (N * resolution)) (us : list (N * name)),
  Forall (fun pr => F (fst pr) = snd pr) L -> map fst L = map fst us ->
  map (fun u => (fst u, F (fst u))) us = L.
Proof.
  intros F L. induction L as [|pr t IH]; intros us HF Hm.
  - destruct us; [reflexivity|discriminate].
  - destruct us as [|u us']; [discriminate|]. cbn [map] in *. injection Hm as H1 H2.
    inversion HF as [|? ? Hpr Ht]; subst. rewrite (IH us' Ht H2). rewrite <- H1, Hpr. destruct pr; reflexivity.
Qed.

(** * (B) = (A) *)
Theorem impl_resolver_eq_reference : forall p : program, impl_resolve p = ref_resolve p.
Proof.
  intros p. unfold impl_resolve, ref_resolve, walk_program.
  destruct (has_items p) eqn:Eh.
  - set (n := len_block p).
    set (st0 := create_scope 0 n KNormal (mkState [] [] [] [])).
    set (stB := create_scope 0 n KNormal st0).
    assert (HI0 : Inv st0 0 []).
    { constructor; cbn [st0 create_scope st_z st_decls st_refs].
      - cbn [zinv f_kind f_start f_end f_children spine_ok]. unfold frame_before. cbn [f_kind kind_eqb f_children].
        split; [constructor|]. split; [lia|]. split; [intros E; discriminate|]. split; [intros E; discriminate|exact I].
      - constructor; [intros E; discriminate|constructor].
      - constructor.
      - constructor. }
    assert (HIB : Inv stB 0 []).
    { apply (Inv_create st0 0 0 n KNormal 0 [] HI0); [lia|lia|cbn; lia|intros E; discriminate|intros E; discriminate]. }
    assert (HRB : R (st_z stB) []) by (intros x; reflexivity).
    destruct (proj2 (proj2 (proj2 (proj2 sim_all))) p 0 stB [] [] HIB) as (cs & Hs & _).
    + constructor.
    + reflexivity.
    + cbn. lia.
    + exact HRB.
    + fold n. fold st0. fold stB.
      apply res_list_eq.
      * pose proof (step_res _ _ _ _ _ _ Hs) as Hres. eapply Forall_impl; [|exact Hres]. cbv beta.
        intros pr (_ & _ & H). unfold impl_at. rewrite pop_scope_refs. exact H.
      * apply (proj2 (proj2 (proj2 (proj2 ref_positions)))).
  - destruct p; try discriminate. reflexivity.
Qed.

(** the same, use by use *)
Theorem impl_resolver_eq_reference_at : forall (p : program) (u : N) (x : name),
  In (u, x) (uses_block p 0) ->
  exists res, In (u, res) (ref_resolve p) /\ impl_at (walk_program p) u = res /\ In (u, res) (impl_resolve p).
Proof.
  intros p u x Hin. exists (impl_at (walk_program p) u).
  assert (H : In (u, impl_at (walk_program p) u) (impl_resolve p)).
  { unfold impl_resolve. apply in_map_iff. exists (u, x). split; [reflexivity|exact Hin]. }
  split; [rewrite <- impl_resolver_eq_reference; exact H|]. split; [reflexivity|exact H].
Qed.

(** the lengths the resolvers compute with are the lengths of the printed texts *)
Theorem printer_positions_exact :
  (forall e, tlen (pr_expr e) = len_expr e) /\
  (forall es, tlen (pr_exprs es) = len_exprs es) /\
  (forall s, tlen (pr_stat s) = len_stat s) /\
  (forall els, tlen (pr_elifs els) = len_elifs els) /\
  (forall b, tlen (pr_block b) = len_block b).
Proof. exact len_ok. Qed.

Definition name_text_injective := Names.name_text_inj.

(** non-vacuity: shadowing, [local x = x], a duplicate name in one [local], a numeric for whose header names the
    loop variable, a closure in a for header, repeat-until with an empty body and with a local, a method *)
Example resolver_example :
  let p :=
    BCons (SLocal [0; 0] (ECons (ENum 1) (ECons (ENum 2) ENil)))                         (* local a, a = 1, 2 *)
   (BCons (SLocal [0] (ECons (EName 0) ENil))                                            (* local a = a *)
   (BCons (SFor 5 (ECons (EName 5) (ECons (ECall (EFun [] (BRet (ECons (EName 5) ENil))) ENil) ENil))
                (BCons (SCall (EName 3) (ECons (EName 5) ENil)) BNil))                   (* for i = i, (function() return i end)() do f(i) end *)
   (BCons (SRepeat BNil (ECall (EName 3) (ECons (EFun [0] BNil) (ECons (EName 0) ENil))))  (* repeat until f(function(a) end, a) *)
   (BCons (SRepeat (BCons (SLocal [1] ENil) BNil) (EName 1))                             (* repeat local b until b *)
   (BCons (SFun 0 [1] (Some 2) [1] (BCons (SAssign (ECons (EIdx (EName 4) 1) ENil) (ECons (EName 1) ENil)) BNil))
                                                                                          (* function a.b:c(b) self.b = b end *)
   (BCons (SAssign (ECons (EName 2) ENil) (ECons (EName 1) ENil)) BNil)))))) in          (* c = b *)
  agree p = true
  /\ impl_resolve p =
     [(28, Some 9);      (* the a of [local a = a] is the SECOND a of [local a, a] *)
      (38, None);        (* the header i of the numeric for is a global *)
      (60, None);        (* and so is the i inside the closure of the header *)
      (72, None); (74, Some 34);   (* f is a global; the i of the body is the loop variable *)
      (94, None); (113, Some 24);  (* the a after the closure of the until condition is the local a, not the parameter *)
      (137, Some 129);   (* until sees the local b of the repeat body *)
      (148, Some 24); (157, Some 151); (166, Some 154);   (* a; the implicit self at the colon; the parameter b *)
      (172, None); (176, None)].                         (* c, and b (the repeat's local is out of scope) *)
Proof. vm_compute. repeat split; reflexivity. Qed.
