(** C13/Syntax.v — the mini-Lua fragment of property C13/C14: abstract syntax, the pretty-printer that
    fixes the byte position of every token, and the length functions the resolvers use to compute
    those positions.  Definitions only (the agreement [tlen (pr_x x) = len_x x] is proved in Proofs.v).

    Layout (one line, single blanks; all ASCII so byte offset = character index):
      block items   each statement followed by one blank; [return es ] last
      body          [ do| then| else| repeat|)] ++ " " ++ items  (the Block node of the real parser spans
                    from the end of the opening token to the start of the closing token and does not
                    exist when there are no items)
    The same printer is implemented in the harness (vh_analysis/src/scoping.rs); the correspondence
    check compares the two texts for every case. *)
From EV Require Export Base.Text.
From Coq Require Import String Ascii.
Local Open Scope N_scope.

Definition name := N.

Inductive expr : Type :=
| ENum (n : N)
| EName (x : name)
| EIdx (e : expr) (f : name)                  (* e.f  — f is a field, not a name use *)
| ECall (f : expr) (args : exprs)
| EBin (a b : expr)                           (* a + b *)
| EFun (ps : list name) (b : block)           (* function(ps) b end *)
| EStr (n : N)                                (* "sN"  — a string literal *)
| ETable (es : exprs)                         (* {es}  — a table constructor with positional fields *)
| EMeth (e : expr) (m : name) (args : exprs)  (* e:m(args)  — m is a method name, not a name use *)
with exprs : Type :=
| ENil
| ECons (e : expr) (es : exprs)
with stat : Type :=
| SLocal (xs : list name) (es : exprs)        (* local xs [= es] *)
| SAssign (vs : exprs) (es : exprs)           (* vs = es ; a target is EName or EIdx *)
| SCall (f : expr) (args : exprs)
| SLocalFun (f : name) (ps : list name) (b : block)
| SFun (root : name) (fields : list name) (meth : option name) (ps : list name) (b : block)
                                              (* function root.f1.f2[:m](ps) b end *)
| SDo (b : block)
| SWhile (c : expr) (b : block)
| SRepeat (b : block) (c : expr)
| SIf (c : expr) (b : block) (els : elifs)
| SFor (x : name) (es : exprs) (b : block)    (* for x = es do b end *)
| SForIn (xs : list name) (es : exprs) (b : block)
| SLabel (l : name)                           (* ::l::  — labels live in their own name space *)
| SGoto (l : name)                            (* goto l *)
| SLocalAttr (x : name) (cl : bool) (es : exprs)   (* local x <const> [= es]  /  local x <close> [= es] *)
with elifs : Type :=
| ElEnd
| ElElse (b : block)
| ElIf (c : expr) (b : block) (r : elifs)
with block : Type :=
| BNil
| BRet (es : exprs)                           (* return es — last item of a block *)
| BCons (s : stat) (b : block).

Scheme expr_mut := Induction for expr Sort Prop
with exprs_mut := Induction for exprs Sort Prop
with stat_mut := Induction for stat Sort Prop
with elifs_mut := Induction for elifs Sort Prop
with block_mut := Induction for block Sort Prop.
Combined Scheme syntax_mutind from expr_mut, exprs_mut, stat_mut, elifs_mut, block_mut.

(** ** texts *)

Definition tlen (t : text) : N := N.of_nat (List.length t).

Definition str (s : string) : text := List.map N_of_ascii (list_ascii_of_string s).
Arguments str s%string.

(** decimal digits of [n] *)
Fixpoint dec_go (fuel : nat) (n : N) (acc : text) : text :=
  match fuel with
  | O => acc
  | S f => let acc' := (48 + n mod 10) :: acc in
           if n <? 10 then acc' else dec_go f (n / 10) acc'
  end.
Definition dec (n : N) : text := dec_go (S (N.size_nat n)) n [].

(** the name alphabet: never a keyword, never [_], [_G], [_ENV] *)
Definition self_name : name := 4.
Definition name_text (x : name) : text :=
  match x with
  | 0 => str "a" | 1 => str "b" | 2 => str "c" | 3 => str "f" | 4 => str "self" | 5 => str "i" | 6 => str "xs"
  | _ => str "v" ++ dec x
  end.

Definition nlen (x : name) : N := tlen (name_text x).
Definition numlen (n : N) : N := tlen (dec n).

(** ** lengths (the resolvers compute every position from these) *)

Fixpoint len_names (xs : list name) : N :=
  match xs with
  | [] => 0
  | x :: r => nlen x + match r with [] => 0 | _ => 2 + len_names r end
  end.

Fixpoint len_fields (fs : list name) : N :=
  match fs with [] => 0 | f :: r => 1 + nlen f + len_fields r end.

Definition len_meth (m : option name) : N := match m with Some m => 1 + nlen m | None => 0 end.

(** a call / index prefix that is not itself a prefix expression is parenthesised *)
Definition is_prefix (e : expr) : bool :=
  match e with EName _ | EIdx _ _ | ECall _ _ | EMeth _ _ _ => true | _ => false end.
Definition paren (e : expr) : N := if is_prefix e then 0 else 1.

Fixpoint len_expr (e : expr) : N :=
  match e with
  | ENum n => numlen n
  | EName x => nlen x
  | EIdx e f => paren e + len_expr e + paren e + 1 + nlen f
  | ECall f args => paren f + len_expr f + paren f + 1 + len_exprs args + 1
  | EBin a b => len_expr a + 3 + len_expr b
  | EFun ps b => 8 + (1 + len_names ps + 1) + (1 + len_block b) + 3
  | EStr n => 2 + numlen n + 1
  | ETable es => 1 + len_exprs es + 1
  | EMeth e m args => paren e + len_expr e + paren e + 1 + nlen m + 1 + len_exprs args + 1
  end
with len_exprs (es : exprs) : N :=
  match es with
  | ENil => 0
  | ECons e r => len_expr e + match r with ENil => 0 | _ => 2 + len_exprs r end
  end
with len_stat (s : stat) : N :=
  match s with
  | SLocal xs es => 6 + len_names xs + match es with ENil => 0 | _ => 3 + len_exprs es end
  | SAssign vs es => len_exprs vs + 3 + len_exprs es
  | SCall f args => paren f + len_expr f + paren f + 1 + len_exprs args + 1
  | SLocalFun f ps b => 15 + nlen f + (1 + len_names ps + 1) + (1 + len_block b) + 3
  | SFun root fields meth ps b =>
      9 + nlen root + len_fields fields + len_meth meth + (1 + len_names ps + 1) + (1 + len_block b) + 3
  | SDo b => 2 + (1 + len_block b) + 3
  | SWhile c b => 6 + len_expr c + 3 + (1 + len_block b) + 3
  | SRepeat b c => 6 + (1 + len_block b) + 6 + len_expr c
  | SIf c b els => 3 + len_expr c + 5 + (1 + len_block b) + len_elifs els
  | SFor x es b => 4 + nlen x + 3 + len_exprs es + 3 + (1 + len_block b) + 3
  | SForIn xs es b => 4 + len_names xs + 4 + len_exprs es + 3 + (1 + len_block b) + 3
  | SLabel l => 2 + nlen l + 2
  | SGoto l => 5 + nlen l
  | SLocalAttr x cl es => 6 + nlen x + 8 + match es with ENil => 0 | _ => 3 + len_exprs es end
  end
with len_elifs (els : elifs) : N :=
  match els with
  | ElEnd => 3
  | ElElse b => 4 + (1 + len_block b) + 3
  | ElIf c b r => 7 + len_expr c + 5 + (1 + len_block b) + len_elifs r
  end
with len_block (b : block) : N :=
  match b with
  | BNil => 0
  | BRet es => 6 + match es with ENil => 0 | _ => 1 + len_exprs es end + 1
  | BCons s r => len_stat s + 1 + len_block r
  end.

(** ** printer *)

Fixpoint pr_names (xs : list name) : text :=
  match xs with
  | [] => []
  | x :: r => name_text x ++ match r with [] => [] | _ => str ", " ++ pr_names r end
  end.

Fixpoint pr_fields (fs : list name) : text :=
  match fs with [] => [] | f :: r => str "." ++ name_text f ++ pr_fields r end.

Definition pr_meth (m : option name) : text := match m with Some m => str ":" ++ name_text m | None => [] end.

Definition lpar (e : expr) : text := if is_prefix e then [] else str "(".
Definition rpar (e : expr) : text := if is_prefix e then [] else str ")".

Fixpoint pr_expr (e : expr) : text :=
  match e with
  | ENum n => dec n
  | EName x => name_text x
  | EIdx e f => lpar e ++ pr_expr e ++ rpar e ++ str "." ++ name_text f
  | ECall f args => lpar f ++ pr_expr f ++ rpar f ++ str "(" ++ pr_exprs args ++ str ")"
  | EBin a b => pr_expr a ++ str " + " ++ pr_expr b
  | EFun ps b => str "function" ++ (str "(" ++ pr_names ps ++ str ")") ++ (str " " ++ pr_block b) ++ str "end"
  | EStr n => str """s" ++ dec n ++ str """"
  | ETable es => str "{" ++ pr_exprs es ++ str "}"
  | EMeth e m args => lpar e ++ pr_expr e ++ rpar e ++ str ":" ++ name_text m ++ str "(" ++ pr_exprs args ++ str ")"
  end
with pr_exprs (es : exprs) : text :=
  match es with
  | ENil => []
  | ECons e r => pr_expr e ++ match r with ENil => [] | _ => str ", " ++ pr_exprs r end
  end
with pr_stat (s : stat) : text :=
  match s with
  | SLocal xs es => str "local " ++ pr_names xs ++ match es with ENil => [] | _ => str " = " ++ pr_exprs es end
  | SAssign vs es => pr_exprs vs ++ str " = " ++ pr_exprs es
  | SCall f args => lpar f ++ pr_expr f ++ rpar f ++ str "(" ++ pr_exprs args ++ str ")"
  | SLocalFun f ps b =>
      str "local function " ++ name_text f ++ (str "(" ++ pr_names ps ++ str ")") ++ (str " " ++ pr_block b) ++ str "end"
  | SFun root fields meth ps b =>
      str "function " ++ name_text root ++ pr_fields fields ++ pr_meth meth
      ++ (str "(" ++ pr_names ps ++ str ")") ++ (str " " ++ pr_block b) ++ str "end"
  | SDo b => str "do" ++ (str " " ++ pr_block b) ++ str "end"
  | SWhile c b => str "while " ++ pr_expr c ++ str " do" ++ (str " " ++ pr_block b) ++ str "end"
  | SRepeat b c => str "repeat" ++ (str " " ++ pr_block b) ++ str "until " ++ pr_expr c
  | SIf c b els => str "if " ++ pr_expr c ++ str " then" ++ (str " " ++ pr_block b) ++ pr_elifs els
  | SFor x es b =>
      str "for " ++ name_text x ++ str " = " ++ pr_exprs es ++ str " do" ++ (str " " ++ pr_block b) ++ str "end"
  | SForIn xs es b =>
      str "for " ++ pr_names xs ++ str " in " ++ pr_exprs es ++ str " do" ++ (str " " ++ pr_block b) ++ str "end"
  | SLabel l => str "::" ++ name_text l ++ str "::"
  | SGoto l => str "goto " ++ name_text l
  | SLocalAttr x cl es =>
      str "local " ++ name_text x ++ (if cl then str " <close>" else str " <const>")
      ++ match es with ENil => [] | _ => str " = " ++ pr_exprs es end
  end
with pr_elifs (els : elifs) : text :=
  match els with
  | ElEnd => str "end"
  | ElElse b => str "else" ++ (str " " ++ pr_block b) ++ str "end"
  | ElIf c b r => str "elseif " ++ pr_expr c ++ str " then" ++ (str " " ++ pr_block b) ++ pr_elifs r
  end
with pr_block (b : block) : text :=
  match b with
  | BNil => []
  | BRet es => str "return" ++ match es with ENil => [] | _ => str " " ++ pr_exprs es end ++ str " "
  | BCons s r => pr_stat s ++ str " " ++ pr_block r
  end.

(** a program is a block; its text *)
Definition program := block.
Definition pr_program (p : program) : text := pr_block p.
