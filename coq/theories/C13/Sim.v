(** C13/Sim.v — stage 2: the declaration walk (B) simulates the environment-passing resolver (A).
    Part 1: the invariant of the analyzer state, what one construct does to the state ([Step]), and the
    resolution of a single name use. *)
From EV Require Import C13.Model C13.Facts C13.Tree C13.Vis.
From Coq Require Import String.
Local Open Scope N_scope.

(** * small facts *)

Lemma nlen_pos : forall x, 0 < nlen x.
Proof.
  intros x. unfold nlen.
  assert (H : forall t, 0 < tlen (str "v" ++ t)).
  { intros t. rewrite tlen_app. change (tlen (str "v")) with 1. lia. }
  destruct x as [|p]; [reflexivity|].
  do 3 (destruct p as [p|p|]; try (apply H); try reflexivity).
Qed.

Lemma lookup_ref_app : forall p a b,
  lookup_ref p (a ++ b) = match lookup_ref p a with Some d => Some d | None => lookup_ref p b end.
Proof.
  intros p a b. unfold lookup_ref. induction a as [|r t IH]; [reflexivity|].
  cbn [app find]. destruct (fst r =? p); [reflexivity|exact IH].
Qed.

Lemma Forall_fresh : forall A (f : A -> N) (l : list A) o pend p,
  Forall (fun a => f a < o \/ In (f a) pend) l -> o <= p -> ~ In p pend -> Forall (fun a => f a <> p) l.
Proof.
  intros A f l o pend p H Ho Hp. eapply Forall_impl; [|exact H]. cbv beta. intros a [Ha|Ha] E; [lia|].
  rewrite E in Ha. contradiction.
Qed.

Lemma lookup_ref_fresh : forall p rs, Forall (fun r => fst r <> p) rs -> lookup_ref p rs = None.
Proof.
  intros p rs H. unfold lookup_ref. induction H as [|r t Hr Ht IH]; [reflexivity|].
  cbn [find]. destruct (N.eqb_spec (fst r) p); [contradiction|exact IH].
Qed.

Lemma get_decl_fresh : forall p st, Forall (fun d => d_pos d <> p) (st_decls st) -> get_decl p st = None.
Proof.
  intros p st H. unfold get_decl. induction H as [|d t Hd Ht IH]; [reflexivity|].
  cbn [find]. destruct (N.eqb_spec (d_pos d) p); [contradiction|exact IH].
Qed.

(** * the relation between the open scopes and the environment of (A) *)

Definition R (z : list frame) (r : env) : Prop :=
  forall x, classify (find_name x (vis_entry z)) = lookup x r.

Definition closure_node (c : node) : Prop := exists s e cs, c = NScope KClosure s e cs.

Lemma closure_silent : forall c, closure_node c -> silent c.
Proof. intros c (s & e & cs & ->). reflexivity. Qed.

Definition add_children (z : list frame) (cs : list node) : list frame :=
  match z with
  | f :: z' => with_children f (f_children f ++ cs) :: z'
  | [] => []
  end.

Lemma add_children_nil : forall z, add_children z [] = z.
Proof. intros [|[k s e cs] z]; [reflexivity|]. unfold add_children, with_children. cbn. rewrite app_nil_r. reflexivity. Qed.

Lemma add_children_app : forall z a b, add_children (add_children z a) b = add_children z (a ++ b).
Proof.
  intros [|[k s e cs] z] a b; [reflexivity|]. unfold add_children, with_children. cbn. rewrite app_assoc. reflexivity.
Qed.

Definition top_kind (z : list frame) : kind := match z with f :: _ => f_kind f | [] => KNormal end.

Lemma top_kind_add : forall z cs, top_kind (add_children z cs) = top_kind z.
Proof. intros [|f z] cs; reflexivity. Qed.

Lemma top_end_add : forall z cs, top_end (add_children z cs) = top_end z.
Proof. intros [|f z] cs; reflexivity. Qed.

(** * invariant of the analyzer state at offset [o] *)

(** [pend]: positions at or after [o] that already carry a declaration or a reference: the plain-name targets of
    the assignment statement being walked (analyze_assign_stat handles them before the targets are walked) *)
Record Inv (st : state) (o : N) (pend : list N) : Prop := mkInv {
  inv_z : zinv (st_z st) o;
  inv_sil : Forall repeat_silent (st_z st);
  inv_decls : Forall (fun d => d_pos d < o \/ In (d_pos d) pend) (st_decls st);
  inv_refs : Forall (fun r => fst r < o \/ In (fst r) pend) (st_refs st)
}.

(** what walking one construct that occupies [o, o') does: closed children [cs] are appended to the innermost
    open scope, declarations and references are appended, and the references of the construct's name uses are
    the resolutions [L] *)
Record Step (st st' : state) (o o' : N) (cs : list node) (L : list (N * resolution)) : Prop := mkStep {
  step_z : st_z st' = add_children (st_z st) cs;
  step_cs : before o' cs;
  step_decls : exists ds, st_decls st' = st_decls st ++ ds /\ Forall (fun d => d_pos d < o') ds;
  step_refs : exists rs, st_refs st' = st_refs st ++ rs /\ Forall (fun r => o <= fst r /\ fst r < o') rs;
  step_res : Forall (fun pr => o <= fst pr /\ fst pr < o' /\ classify (lookup_ref (fst pr) (st_refs st')) = snd pr) L
}.

Lemma Step_refl : forall st o o', Step st st o o' [] [].
Proof.
  intros. constructor.
  - symmetry. apply add_children_nil.
  - constructor.
  - exists []. rewrite app_nil_r. split; [reflexivity|constructor].
  - exists []. rewrite app_nil_r. split; [reflexivity|constructor].
  - constructor.
Qed.

Lemma Step_seq : forall st st1 st2 o o1 o1' o2 cs1 cs2 L1 L2,
  Step st st1 o o1 cs1 L1 -> Step st1 st2 o1' o2 cs2 L2 ->
  o1 <= o1' -> o <= o1' -> o1 <= o2 ->
  Step st st2 o o2 (cs1 ++ cs2) (L1 ++ L2).
Proof.
  intros st st1 st2 o o1 o1' o2 cs1 cs2 L1 L2 [Hz1 Hc1 (ds1 & Hd1 & Hdb1) (rs1 & Hr1 & Hrb1) Hres1]
         [Hz2 Hc2 (ds2 & Hd2 & Hdb2) (rs2 & Hr2 & Hrb2) Hres2] H1 H2 H3.
  constructor.
  - rewrite Hz2, Hz1. apply add_children_app.
  - apply before_app; [eapply before_mono; [exact Hc1|lia]|exact Hc2].
  - exists (ds1 ++ ds2). split; [rewrite Hd2, Hd1, app_assoc; reflexivity|].
    apply Forall_app. split; [|exact Hdb2]. eapply Forall_impl; [|exact Hdb1]. cbv beta. intros; lia.
  - exists (rs1 ++ rs2). split; [rewrite Hr2, Hr1, app_assoc; reflexivity|].
    apply Forall_app. split.
    + eapply Forall_impl; [|exact Hrb1]. cbv beta. intros; lia.
    + eapply Forall_impl; [|exact Hrb2]. cbv beta. intros; lia.
  - apply Forall_app. split.
    + eapply Forall_impl; [|exact Hres1]. cbv beta. intros pr (Ha & Hb & Hc).
      split; [lia|]. split; [lia|].
      rewrite Hr2, lookup_ref_app.
      destruct (lookup_ref (fst pr) (st_refs st1)) eqn:E; [exact Hc|].
      rewrite lookup_ref_fresh; [exact Hc|].
      eapply Forall_impl; [|exact Hrb2]. cbv beta. intros; lia.
    + eapply Forall_impl; [|exact Hres2]. cbv beta. intros pr (Ha & Hb & Hc).
      split; [lia|]. split; [lia|exact Hc].
Qed.

(** widening the interval of a step *)
Lemma Step_widen : forall st st' o o' a b cs L,
  Step st st' o o' cs L -> a <= o -> o' <= b -> Step st st' a b cs L.
Proof.
  intros st st' o o' a b cs L [Hz Hc (ds & Hd & Hdb) (rs & Hr & Hrb) Hres] Ha Hb.
  constructor.
  - exact Hz.
  - eapply before_mono; eassumption.
  - exists ds. split; [exact Hd|]. eapply Forall_impl; [|exact Hdb]. cbv beta. intros; lia.
  - exists rs. split; [exact Hr|]. eapply Forall_impl; [|exact Hrb]. cbv beta. intros; lia.
  - eapply Forall_impl; [|exact Hres]. cbv beta. intros pr (H1 & H2 & H3). repeat split; try lia. exact H3.
Qed.

Lemma spine_ok_same : forall z h h',
  f_kind h = f_kind h' -> f_start h = f_start h' -> f_end h = f_end h' -> spine_ok h z -> spine_ok h' z.
Proof.
  intros [|g z'] h h' Hk Hs He H; [exact I|]. cbn [spine_ok] in *.
  rewrite <- Hk, <- Hs, <- He. exact H.
Qed.

Lemma repeat_first_ok_app : forall cs new,
  repeat_first_ok cs -> (cs = [] -> repeat_first_ok new) -> repeat_first_ok (cs ++ new).
Proof. intros [|c r] new H1 H2; [apply H2; reflexivity|exact H1]. Qed.

Lemma closure_first_ok : forall cs, Forall closure_node cs -> repeat_first_ok cs.
Proof.
  intros [|c r] H; [exact I|]. inversion H as [|? ? (s & e & cs' & ->) _]; subst. cbn. right. reflexivity.
Qed.

(** the invariant after a step *)
Lemma Inv_step : forall st st' o o' o'' cs L pend,
  Inv st o pend -> Step st st' o o' cs L -> o <= o' -> o' <= o'' ->
  (top_kind (st_z st) = KRepeat -> Forall silent cs /\ repeat_first_ok cs) ->
  Inv st' o'' pend.
Proof.
  intros st st' o o' o'' cs L pend [Hz Hsil Hd Hr] [Hz' Hc (ds & Hds & Hdb) (rs & Hrs & Hrb) _] H1 H2 Hrep.
  destruct (st_z st) as [|f z] eqn:Ez; [destruct Hz|].
  destruct Hz as (Hb & Hs & Hf & Hrp & Hsp).
  destruct f as [k s e cs0]. unfold add_children, with_children in Hz'.
  cbn [f_kind f_start f_end f_children top_kind] in *.
  constructor.
  - rewrite Hz'. cbn [zinv f_kind f_start f_end f_children].
    split; [|split; [lia|split; [intros E; specialize (Hf E); lia|split]]].
    + unfold frame_before in *. cbn [f_kind f_children] in *.
      destruct (kind_eqb k KLocalOrAssign).
      * apply Forall_app. split; [eapply scopes_before_mono; [exact Hb|lia]|].
        apply before_scopes. eapply before_mono; [exact Hc|lia].
      * apply before_app; eapply before_mono; try eassumption; lia.
    + intros E. apply repeat_first_ok_app; [apply Hrp; exact E|].
      intros _. apply Hrep. exact E.
    + eapply spine_ok_same; [| | |exact Hsp]; reflexivity.
  - rewrite Hz'. inversion Hsil as [|? ? Hsf Hsz]; subst. constructor; [|exact Hsz].
    intros E. unfold repeat_silent in Hsf. cbn [f_kind f_children] in *. apply Forall_app. split; [apply Hsf; exact E|].
    apply Hrep. exact E.
  - rewrite Hds. apply Forall_app. split; eapply Forall_impl; try eassumption; cbv beta.
    + intros a [Ha|Ha]; [left; lia|right; exact Ha].
    + intros; left; lia.
  - rewrite Hrs. apply Forall_app. split; eapply Forall_impl; try eassumption; cbv beta.
    + intros a [Ha|Ha]; [left; lia|right; exact Ha].
    + intros; left; lia.
Qed.

Lemma Inv_mono : forall st o o' pend, Inv st o pend -> o <= o' -> Inv st o' pend.
Proof.
  intros st o o' pend H Hle. apply (Inv_step st st o o o' [] [] pend H (Step_refl st o o)); try lia.
  intros _. split; [constructor|exact I].
Qed.

Lemma closures_repeat_ok : forall cs, Forall closure_node cs -> Forall silent cs /\ repeat_first_ok cs.
Proof.
  intros cs H. split; [eapply Forall_impl; [|exact H]; apply closure_silent|apply closure_first_ok; exact H].
Qed.

(** pending positions that were passed are no longer pending *)
Lemma Inv_done : forall st o pend, Inv st o pend -> Forall (fun q => q < o) pend -> Inv st o [].
Proof.
  intros st o pend [Hz Hs Hd Hr] Hp. rewrite Forall_forall in Hp. constructor; try assumption.
  - eapply Forall_impl; [|exact Hd]. cbv beta. intros a [Ha|Ha]; left; [exact Ha|apply Hp; exact Ha].
  - eapply Forall_impl; [|exact Hr]. cbv beta. intros a [Ha|Ha]; left; [exact Ha|apply Hp; exact Ha].
Qed.

(** closures appended to the innermost scope are invisible *)
Lemma vis_add_closures : forall f z cs,
  repeat_silent f -> Forall closure_node cs ->
  vis_entry (add_children (f :: z) cs) = vis_entry (f :: z).
Proof.
  intros f z cs Hsil Hcs. cbn [add_children].
  assert (Hs : Forall silent cs) by (eapply Forall_impl; [|exact Hcs]; apply closure_silent).
  destruct (f_kind f) eqn:Ek.
  - rewrite vis_entry_add by (left; exact Ek). rewrite (all_contrib_silent cs Hs). reflexivity.
  - apply vis_entry_add_repeat_silent; [exact Ek|apply Hsil; exact Ek|exact Hs|].
    intros _. destruct cs as [|c r]; [exact I|].
    inversion Hcs as [|? ? (s & e & cs' & ->) _]; subst. reflexivity.
  - apply vis_entry_add_skip. left. exact Ek.
  - apply vis_entry_add_skip. right. exact Ek.
  - rewrite vis_entry_add by (right; right; left; exact Ek). rewrite (all_contrib_silent cs Hs). reflexivity.
  - rewrite vis_entry_add by (right; right; right; exact Ek). rewrite (all_contrib_silent cs Hs). reflexivity.
  - rewrite vis_entry_add by (right; left; exact Ek). rewrite (all_contrib_silent cs Hs). reflexivity.
Qed.

Lemma R_add_closures : forall st st' o o' cs L r pend,
  Inv st o pend -> Step st st' o o' cs L -> Forall closure_node cs -> R (st_z st) r -> R (st_z st') r.
Proof.
  intros st st' o o' cs L r pend [Hz Hsil _ _] [Hz' _ _ _ _] Hcs HR.
  rewrite Hz'. destruct (st_z st) as [|f z]; [destruct Hz|].
  inversion Hsil as [|? ? Hsf _]; subst.
  intros x. rewrite vis_add_closures by assumption. apply HR.
Qed.

(** * positions of the visible declarations *)

Lemma contrib_pos : forall c b,
  node_pos c < b -> node_end c <= b -> node_ok c -> Forall (fun d => d_pos d < b) (contrib c).
Proof.
  intros [d|k s e cs] b Hp He Hok; cbn [contrib].
  - constructor; [exact Hp|constructor].
  - cbn [node_ok node_end] in *.
    assert (H : Forall (fun d => d_pos d < b) (decls_of cs)).
    { induction Hok as [|c r (Hc1 & Hc2) Hr IH]; [constructor|].
      change (c :: r) with ([c] ++ r). rewrite decls_of_app. apply Forall_app. split; [|apply IH; exact Hp].
      destruct c as [d|]; cbn [decls_of flat_map app]; [|constructor].
      constructor; [cbn [node_pos] in Hc1; lia|constructor]. }
    unfold visit_child_scope. cbn [node_kind node_children].
    destruct k; try constructor; try exact H.
    apply Forall_rev. exact H.
Qed.

Lemma all_contrib_pos1 : forall cs b,
  Forall (fun c => node_pos c < b /\ node_end c <= b /\ node_ok c) cs ->
  Forall (fun d => d_pos d < b) (all_contrib cs).
Proof.
  induction cs as [|c r IH]; intros b H; [constructor|].
  inversion H as [|? ? (H1 & H2 & H3) Hr]; subst.
  change (c :: r) with ([c] ++ r). rewrite all_contrib_app, all_contrib_one.
  apply Forall_app. split; [apply IH; exact Hr|apply contrib_pos; assumption].
Qed.

Lemma all_contrib_pos : forall cs b, before b cs -> Forall (fun d => d_pos d < b) (all_contrib cs).
Proof.
  intros cs b H. apply all_contrib_pos1. eapply Forall_impl; [|exact H]. cbv beta.
  intros a (H1 & H2 & H3 & _). repeat split; assumption.
Qed.

(** the children of a closed scope that lies before [b] *)
Lemma children_pos : forall c b,
  node_end c <= b -> node_ok c -> Forall node_ok (node_children c) ->
  Forall (fun d => d_pos d < b) (all_contrib (node_children c)).
Proof.
  intros [d|k s e cs] b He Hok Hch; cbn [node_children]; [constructor|].
  cbn [node_ok node_end node_children] in *.
  apply all_contrib_pos1.
  induction cs as [|c r IH]; [constructor|].
  inversion Hok as [|? ? (Hc1 & Hc2) Hr]; subst. inversion Hch as [|? ? Hn Hnr]; subst.
  constructor; [|apply IH; assumption].
  repeat split; try lia; exact Hn.
Qed.

Lemma body_contrib_pos : forall c b,
  node_end c <= b -> node_ok c -> Forall node_ok (node_children c) ->
  Forall (fun d => d_pos d < b) (body_contrib c).
Proof.
  intros c b He Hok Hch. pose proof (children_pos c b He Hok Hch) as H.
  destruct c as [d|k s e cs]; cbn [body_contrib]; [constructor|].
  destruct (kind_eqb k KClosure); [constructor|exact H].
Qed.

Lemma Forall_lt_mono : forall (l : list decl) b b', Forall (fun d => d_pos d < b) l -> b <= b' -> Forall (fun d => d_pos d < b') l.
Proof. intros l b b' H Hle. eapply Forall_impl; [|exact H]. cbv beta. intros; lia. Qed.

Lemma vis_up_pos : forall z h o,
  spine_ok h z -> f_start h <= o -> Forall (fun d => d_pos d < o) (vis_up h z).
Proof.
  induction z as [|g z' IH]; intros h o Hs Ho; [constructor|].
  cbn [spine_ok] in Hs. destruct Hs as (Hb & Hs1 & Hs2 & Hf & Hr & Hs').
  assert (IHg : Forall (fun d => d_pos d < o) (vis_up g z')) by (apply IH; [exact Hs'|lia]).
  cbn [vis_up].
  destruct (kind_eqb (f_kind g) KForRange && kind_eqb (f_kind h) KClosure); [exact IHg|].
  assert (Hall : f_kind g <> KLocalOrAssign -> Forall (fun d => d_pos d < o) (all_contrib (f_children g))).
  { intros Hk. unfold frame_before in Hb. rewrite (kind_eqb_neq _ _ Hk) in Hb.
    eapply Forall_lt_mono; [apply all_contrib_pos; exact Hb|exact Ho]. }
  destruct (f_kind g) eqn:Ek; try exact IHg;
    try (apply Forall_app; split; [apply Hall; discriminate|exact IHg]).
  (* Repeat *)
  apply Forall_app. split; [|apply Forall_app; split; [apply Hall; discriminate|exact IHg]].
  unfold frame_before in Hb. rewrite Ek in Hb. cbn [kind_eqb] in Hb.
  destruct (f_children g) as [|c r]; [constructor|].
  inversion Hb as [|? ? (H1 & H2 & H3 & H4) _]; subst.
  apply body_contrib_pos; [lia|exact H3|exact H4].
Qed.

Lemma vis_entry_pos : forall z o, zinv z o -> Forall (fun d => d_pos d < o) (vis_entry z).
Proof.
  intros [|f z'] o Hz; [constructor|]. destruct Hz as (Hb & Hs & Hf & Hrp & Hsp).
  pose proof (vis_up_pos z' f o Hsp Hs) as Hup.
  cbn [vis_entry].
  assert (Hall : f_kind f <> KLocalOrAssign -> Forall (fun d => d_pos d < o) (all_contrib (f_children f))).
  { intros Hk. unfold frame_before in Hb. rewrite (kind_eqb_neq _ _ Hk) in Hb. apply all_contrib_pos. exact Hb. }
  destruct (f_kind f) eqn:Ek; try exact Hup;
    try (apply Forall_app; split; [apply Hall; discriminate|exact Hup]).
  (* Repeat *)
  destruct (get_repeat_body (frame_node f)) as [b|] eqn:Eb; [|exact Hup].
  apply Forall_app. split; [|apply Forall_app; split; [apply Hall; discriminate|exact Hup]].
  unfold frame_before in Hb. rewrite Ek in Hb. cbn [kind_eqb] in Hb.
  unfold get_repeat_body, frame_node in Eb. cbn [node_children] in Eb.
  destruct (f_children f) as [|c r]; [discriminate|].
  inversion Hb as [|? ? (H1 & H2 & H3 & H4) _]; subst.
  destruct c as [d|k s e cs]; [discriminate|].
  destruct (kind_eqb k KClosure); [discriminate|]. injection Eb as <-.
  apply children_pos; assumption.
Qed.

(** * one name use *)

Lemma add_ref_fresh : forall p e d st,
  Forall (fun r => fst r <> p) (st_refs st) ->
  add_ref p e d st = mkState (st_z st) (st_decls st) (st_refs st ++ [(p, d)]) (st_cells st ++ [(d_pos d, (p, e))]).
Proof. intros p e d st H. unfold add_ref. rewrite lookup_ref_fresh; [reflexivity|exact H]. Qed.

Lemma lookup_ref_last : forall p d refs,
  Forall (fun r => fst r <> p) refs -> lookup_ref p (refs ++ [(p, d)]) = Some d.
Proof.
  intros p d refs H. rewrite lookup_ref_app, lookup_ref_fresh by exact H.
  unfold lookup_ref. cbn [find fst snd]. rewrite N.eqb_refl. reflexivity.
Qed.

(** adding the reference [p -> d] *)
Lemma Step_add_ref : forall st p e p' d res,
  Forall (fun r => fst r <> p) (st_refs st) -> p < p' -> classify (Some d) = res ->
  Step st (add_ref p e d st) p p' [] [(p, res)].
Proof.
  intros st p e p' d res Hr Hlt Hres. rewrite add_ref_fresh by exact Hr.
  constructor; cbn [st_z st_decls st_refs].
  - symmetry. apply add_children_nil.
  - constructor.
  - exists []. rewrite app_nil_r. split; [reflexivity|constructor].
  - exists [(p, d)]. split; [reflexivity|]. constructor; [cbn; lia|constructor].
  - constructor; [|constructor]. cbn [fst snd]. split; [lia|]. split; [lia|].
    rewrite lookup_ref_last by exact Hr. exact Hres.
Qed.

Lemma Step_no_ref : forall st p p',
  Forall (fun r => fst r <> p) (st_refs st) -> p < p' -> Step st st p p' [] [(p, None)].
Proof.
  intros st p p' Hr Hlt. constructor.
  - symmetry. apply add_children_nil.
  - constructor.
  - exists []. rewrite app_nil_r. split; [reflexivity|constructor].
  - exists []. rewrite app_nil_r. split; [reflexivity|constructor].
  - constructor; [|constructor]. cbn [fst snd]. split; [lia|]. split; [lia|].
    rewrite lookup_ref_fresh; [reflexivity|exact Hr].
Qed.

(** resolution of the name [x] at [p] against the tree of the moment *)
Lemma find_decl_R : forall st p x r pend,
  Inv st p pend -> p < top_end (st_z st) -> R (st_z st) r ->
  find_decl x p st = find_name x (vis_entry (st_z st)) /\
  classify (find_decl x p st) = lookup x r /\
  (forall d, find_decl x p st = Some d -> d_pos d < p).
Proof.
  intros st p x r pend [Hz _ _ _] Hp HR. unfold find_decl.
  rewrite (find_local_decl_vis (st_z st) x p Hz Hp).
  split; [reflexivity|]. split; [apply HR|].
  intros d Hd. unfold find_name in Hd. apply find_some in Hd. destruct Hd as (Hin & _).
  pose proof (vis_entry_pos _ _ Hz) as Hall. rewrite Forall_forall in Hall. apply Hall. exact Hin.
Qed.

(** [analyze_name_expr] *)
Lemma sim_name : forall x p st r pend,
  Inv st p pend -> ~ In p pend -> p + nlen x <= top_end (st_z st) -> R (st_z st) r ->
  Step st (analyze_name_expr x p st) p (p + nlen x) [] [(p, lookup x r)].
Proof.
  intros x p st r pend HI Hpend Hend HR. pose proof (nlen_pos x) as Hn.
  destruct (find_decl_R st p x r pend HI ltac:(lia) HR) as (_ & Hcl & Hpos).
  assert (Hfr : Forall (fun r0 => fst r0 <> p) (st_refs st))
    by (eapply Forall_fresh; [apply (inv_refs _ _ _ HI)|lia|exact Hpend]).
  unfold analyze_name_expr. cbv zeta.
  rewrite get_decl_fresh by (eapply Forall_fresh; [apply (inv_decls _ _ _ HI)|lia|exact Hpend]).
  destruct (find_decl x p st) as [d|] eqn:E.
  - specialize (Hpos d eq_refl).
    replace (d_pos d =? p) with false by (symmetry; apply N.eqb_neq; lia).
    assert (H : Step st (add_ref p (p + nlen x) d st) p (p + nlen x) [] [(p, lookup x r)])
      by (apply Step_add_ref; [exact Hfr|lia|exact Hcl]).
    destruct (is_local d); exact H.
  - rewrite <- Hcl. cbn [classify]. apply Step_no_ref; [exact Hfr|lia].
Qed.

(** * opening and closing scopes *)

Lemma Inv_nonempty : forall st o pend, Inv st o pend -> st_z st <> [].
Proof. intros st o pend [Hz _ _ _] E. rewrite E in Hz. exact Hz. Qed.

Lemma Inv_create : forall st o s e k q pend,
  Inv st o pend -> o <= s -> s <= q -> e <= top_end (st_z st) ->
  (is_func k = true -> s < q) ->
  (top_kind (st_z st) = KRepeat -> k = KNormal \/ k = KClosure) ->
  Inv (create_scope s e k st) q pend.
Proof.
  intros st o s e k q pend [Hz Hsil Hd Hr] H1 H2 H3 H4 H5.
  destruct (st_z st) as [|f z] eqn:Ez; [destruct Hz|].
  destruct Hz as (Hb & Hs & Hf & Hrp & Hsp).
  unfold create_scope. rewrite Ez. cbn [top_end top_kind] in *.
  constructor; cbn [st_z st_decls st_refs].
  - cbn [zinv f_kind f_start f_end f_children].
    split; [unfold frame_before; cbn [f_kind f_children]; destruct (kind_eqb k KLocalOrAssign); constructor|].
    split; [exact H2|]. split; [exact H4|]. split; [intros _; exact I|].
    cbn [spine_ok f_start f_end f_kind].
    split; [eapply frame_before_mono; [exact Hb|exact H1]|].
    split; [lia|]. split; [exact H3|]. split; [intros E; specialize (Hf E); lia|].
    split; [|exact Hsp].
    intros E. split; [apply H5; exact E|apply Hrp; exact E].
  - constructor; [|exact Hsil]. intros _. constructor.
  - eapply Forall_impl; [|exact Hd]. cbv beta. intros a [Ha|Ha]; [left; lia|right; exact Ha].
  - eapply Forall_impl; [|exact Hr]. cbv beta. intros a [Ha|Ha]; [left; lia|right; exact Ha].
Qed.

(** a scope opened at [s], filled by a step, and closed *)
Lemma Step_scope : forall st0 st2 k s e s' e' cs L,
  st_z st0 <> [] ->
  Step (create_scope s e k st0) st2 s' e' cs L -> s < e -> s <= s' -> e' <= e ->
  Step st0 (pop_scope st2) s e [NScope k s e cs] L.
Proof.
  intros st0 st2 k s e s' e' cs L Hne [Hz Hc (ds & Hd & Hdb) (rs & Hr & Hrb) Hres] H1 H2 H3.
  destruct (st_z st0) as [|f0 z] eqn:Ez; [congruence|].
  unfold create_scope in Hz, Hd, Hr. rewrite Ez in Hz. cbn [st_z st_decls st_refs add_children with_children f_kind f_start f_end f_children app] in *.
  unfold pop_scope. rewrite Hz. cbn [st_z st_decls st_refs].
  constructor; cbn [st_z st_decls st_refs].
  - rewrite Ez. reflexivity.
  - constructor; [|constructor]. cbn [node_pos node_end node_ok node_children].
    split; [exact H1|]. split; [lia|]. split.
    + eapply Forall_impl; [|exact Hc]. cbv beta. intros a (Ha & Hb & _). split; lia.
    + eapply Forall_impl; [|exact Hc]. cbv beta. intros a (_ & _ & Ha & _). exact Ha.
  - exists ds. split; [exact Hd|]. eapply Forall_impl; [|exact Hdb]. cbv beta. intros; lia.
  - exists rs. split; [exact Hr|]. eapply Forall_impl; [|exact Hrb]. cbv beta. intros; lia.
  - eapply Forall_impl; [|exact Hres]. cbv beta. intros pr (Ha & Hb & Hc'). repeat split; try lia. exact Hc'.
Qed.

Lemma Step_add_decl : forall st d o o',
  st_z st <> [] -> d_pos d < o' -> Step st (add_decl d st) o o' [NDecl d] [].
Proof.
  intros st d o o' Hne Hd. destruct (st_z st) as [|f z] eqn:Ez; [congruence|].
  unfold add_decl. rewrite Ez.
  constructor; cbn [st_z st_decls st_refs].
  - rewrite Ez. reflexivity.
  - constructor; [|constructor]. cbn [node_pos node_end node_ok node_children]. repeat split; try lia; constructor.
  - exists [d]. split; [reflexivity|]. constructor; [exact Hd|constructor].
  - exists []. rewrite app_nil_r. split; [reflexivity|constructor].
  - constructor.
Qed.

(** the declarations of a name list *)
Fixpoint name_decls (xs : list name) (o : N) : list decl :=
  match xs with
  | [] => []
  | x :: r => mkDecl o x DLocal :: name_decls r (o + nlen x + 2)
  end.

Lemma len_names_cons : forall x r, len_names (x :: r) = nlen x + match r with [] => 0 | _ => 2 + len_names r end.
Proof. reflexivity. Qed.

Lemma name_decls_pos : forall xs o, Forall (fun d => o <= d_pos d /\ d_pos d < o + len_names xs) (name_decls xs o).
Proof.
  induction xs as [|x r IH]; intros o; [constructor|].
  cbn [name_decls]. rewrite len_names_cons. pose proof (nlen_pos x) as Hx.
  constructor; [cbn [d_pos]; destruct r; lia|].
  destruct r as [|y r']; [constructor|].
  eapply Forall_impl; [|apply IH]. cbv beta. intros a (Ha & Hb). split; lia.
Qed.

Lemma Step_add_name_decls : forall xs o st a b,
  st_z st <> [] -> o + len_names xs <= b -> a <= b ->
  Step st (add_name_decls xs o st) a b (map NDecl (name_decls xs o)) [].
Proof.
  induction xs as [|x r IH]; intros o st a b Hne Hb Hab.
  - cbn [add_name_decls name_decls map]. apply Step_refl.
  - rewrite len_names_cons in Hb. pose proof (nlen_pos x) as Hx.
    destruct r as [|y r'].
    + cbn [add_name_decls name_decls map]. apply Step_add_decl; [exact Hne|cbn [d_pos]; lia].
    + remember (y :: r') as r eqn:Er.
      cbn [add_name_decls name_decls map].
      change (NDecl (mkDecl o x DLocal) :: map NDecl (name_decls r (o + nlen x + 2)))
        with ([NDecl (mkDecl o x DLocal)] ++ map NDecl (name_decls r (o + nlen x + 2))).
      change (@nil (N * resolution)) with (@nil (N * resolution) ++ []).
      assert (Hne' : st_z (add_decl (mkDecl o x DLocal) st) <> []).
      { unfold add_decl. destruct (st_z st); [congruence|]. cbn. congruence. }
      assert (Hb' : o + nlen x + 2 + len_names r <= b) by (subst r; lia).
      eapply (Step_seq st _ _ a b b b).
      * apply Step_add_decl; [exact Hne|cbn [d_pos]; lia].
      * apply IH; [exact Hne'|exact Hb'|lia].
      * lia.
      * exact Hab.
      * lia.
Qed.

(** * the environment relation under new bindings *)

Definition env_of (ds : list decl) : env := map (fun d => (d_name d, d_pos d)) ds.

Lemma lookup_cons : forall x c t, lookup x (c :: t) = if fst c =? x then Some (snd c) else lookup x t.
Proof. intros x c t. unfold lookup. cbn [find]. unfold name in *. destruct (fst c =? x); reflexivity. Qed.

Lemma lookup_app : forall x a b,
  lookup x (a ++ b) = match lookup x a with Some p => Some p | None => lookup x b end.
Proof.
  intros x a b. induction a as [|c t IH]; [reflexivity|].
  cbn [app]. rewrite !lookup_cons. unfold name in *. destruct (fst c =? x); [reflexivity|exact IH].
Qed.

Lemma classify_env_of : forall x ds,
  Forall (fun d => d_kind d <> DGlobal) ds -> classify (find_name x ds) = lookup x (env_of ds).
Proof.
  intros x ds H. unfold find_name, lookup, env_of. induction H as [|d t Hd Ht IH]; [reflexivity|].
  cbn [find map fst]. destruct (d_name d =? x); [|exact IH].
  cbn [classify snd]. destruct (d_kind d); try reflexivity. congruence.
Qed.

Lemma R_extend : forall z z' r ds,
  R z r -> Forall (fun d => d_kind d <> DGlobal) ds -> vis_entry z' = ds ++ vis_entry z ->
  R z' (env_of ds ++ r).
Proof.
  intros z z' r ds HR Hds Hv x. rewrite Hv, find_name_app, lookup_app.
  rewrite <- (classify_env_of x ds Hds).
  destruct (find_name x ds) as [d|] eqn:E.
  - assert (Hk : d_kind d <> DGlobal).
    { unfold find_name in E. apply find_some in E. destruct E as (Hin & _).
      rewrite Forall_forall in Hds. apply Hds. exact Hin. }
    cbn [classify]. destruct (d_kind d); try reflexivity. congruence.
  - cbn [classify]. apply HR.
Qed.

(** declarations of globals are visible but resolve to "global" like no declaration at all *)
Lemma R_markers : forall z z' r ms,
  R z r -> Forall (fun d => d_kind d = DGlobal /\ lookup (d_name d) r = None) ms ->
  vis_entry z' = ms ++ vis_entry z -> R z' r.
Proof.
  intros z z' r ms HR Hms Hv x. rewrite Hv, find_name_app.
  destruct (find_name x ms) as [d|] eqn:E; [|apply HR].
  unfold find_name in E. apply find_some in E. destruct E as (Hin & Hx).
  rewrite Forall_forall in Hms. destruct (Hms d Hin) as (Hk & Hl).
  apply N.eqb_eq in Hx. subst x. cbn [classify]. rewrite Hk. symmetry. exact Hl.
Qed.

Lemma R_same : forall z z' r, R z r -> vis_entry z' = vis_entry z -> R z' r.
Proof. intros z z' r HR Hv x. rewrite Hv. apply HR. Qed.

Lemma bind_names_env : forall xs o r, bind_names xs o r = env_of (rev (name_decls xs o)) ++ r.
Proof.
  induction xs as [|x t IH]; intros o r; [reflexivity|].
  cbn [bind_names name_decls rev]. rewrite IH. unfold env_of. rewrite map_app, <- app_assoc. reflexivity.
Qed.

Lemma name_decls_local : forall xs o, Forall (fun d => d_kind d <> DGlobal) (name_decls xs o).
Proof. induction xs as [|x t IH]; intros o; [constructor|]. cbn [name_decls]. constructor; [cbn; discriminate|apply IH]. Qed.

Lemma all_contrib_decls : forall ds, all_contrib (map NDecl ds) = rev ds.
Proof.
  induction ds as [|d t IH]; [reflexivity|].
  cbn [map]. change (NDecl d :: map NDecl t) with ([NDecl d] ++ map NDecl t).
  rewrite all_contrib_app, all_contrib_one, IH. reflexivity.
Qed.

Lemma decls_of_decls : forall ds, decls_of (map NDecl ds) = ds.
Proof. induction ds as [|d t IH]; [reflexivity|]. cbn [map decls_of flat_map app]. f_equal. exact IH. Qed.

Lemma decls_of_closures : forall cs, Forall closure_node cs -> decls_of cs = [].
Proof.
  induction cs as [|c r IH]; intros H; [reflexivity|]. inversion H as [|? ? (s & e & cs' & ->) Hr]; subst.
  cbn [decls_of flat_map app]. apply IH. exact Hr.
Qed.

Lemma all_contrib_closures : forall cs, Forall closure_node cs -> all_contrib cs = [].
Proof. intros cs H. apply all_contrib_silent. eapply Forall_impl; [|exact H]. apply closure_silent. Qed.

Definition pend_out (pend : list N) (o o' : N) : Prop := Forall (fun q => q < o \/ o' <= q) pend.

Lemma pend_out_sub : forall pend o o' a a', pend_out pend o o' -> o <= a -> a' <= o' -> pend_out pend a a'.
Proof. intros pend o o' a a' H H1 H2. eapply Forall_impl; [|exact H]. cbv beta. intros q [Hq|Hq]; [left|right]; lia. Qed.

Lemma pend_out_notin : forall pend o o' p, pend_out pend o o' -> o <= p -> p < o' -> ~ In p pend.
Proof. intros pend o o' p H H1 H2 Hin. unfold pend_out in H. rewrite Forall_forall in H. destruct (H p Hin); lia. Qed.

(** * the statements of the simulation *)

Definition P_expr (e : expr) : Prop := forall o st r pend,
  Inv st o pend -> pend_out pend o (o + len_expr e) -> o + len_expr e <= top_end (st_z st) -> R (st_z st) r ->
  exists cs, Step st (walk_expr e o st) o (o + len_expr e) cs (ref_expr r e o) /\ Forall closure_node cs.

Definition P_exprs (es : exprs) : Prop := forall o st r pend,
  Inv st o pend -> pend_out pend o (o + len_exprs es) -> o + len_exprs es <= top_end (st_z st) -> R (st_z st) r ->
  exists cs, Step st (walk_exprs es o st) o (o + len_exprs es) cs (ref_exprs r es o) /\ Forall closure_node cs.

Definition P_stat (s : stat) : Prop := forall o st r pend,
  Inv st o pend -> pend_out pend o (o + len_stat s) -> top_kind (st_z st) = KNormal ->
  o + len_stat s <= top_end (st_z st) -> R (st_z st) r ->
  exists cs, Step st (walk_stat s o st) o (o + len_stat s) cs (fst (ref_stat r s o))
             /\ R (add_children (st_z st) cs) (snd (ref_stat r s o)).

Definition P_elifs (els : elifs) : Prop := forall o st r pend,
  Inv st o pend -> pend_out pend o (o + len_elifs els) -> top_kind (st_z st) = KNormal ->
  o + len_elifs els <= top_end (st_z st) -> R (st_z st) r ->
  exists cs, Step st (walk_elifs els o st) o (o + len_elifs els) cs (ref_elifs r els o) /\ Forall silent cs.

Definition P_block (b : block) : Prop := forall o st r pend,
  Inv st o pend -> pend_out pend o (o + len_block b) -> top_kind (st_z st) = KNormal ->
  o + len_block b <= top_end (st_z st) -> R (st_z st) r ->
  exists cs, Step st (walk_block b o st) o (o + len_block b) cs (fst (ref_block r b o))
             /\ R (add_children (st_z st) cs) (snd (ref_block r b o)).

(** * blocks between an opening and a closing token *)

Lemma vis_push_normal : forall bo be f z,
  repeat_silent f -> f_kind f <> KForRange ->
  vis_entry (mkFrame KNormal bo be [] :: f :: z) = vis_entry (f :: z).
Proof.
  intros bo be f z Hs Hk. cbn [vis_entry f_kind f_children]. rewrite all_contrib_nil. cbn [app].
  rewrite vis_up_push by exact Hs. rewrite (kind_eqb_neq _ _ Hk). reflexivity.
Qed.

Lemma sim_body : forall b, P_block b -> forall bo st r_in pend,
  Inv st bo pend -> pend_out pend bo (bo + 1 + len_block b) ->
  bo + 1 + len_block b <= top_end (st_z st) ->
  R (mkFrame KNormal bo (bo + 1 + len_block b) [] :: st_z st) r_in ->
  exists cs,
    Step st (walk_body (walk_block b) (len_block b) (has_items b) bo st) bo (bo + 1 + len_block b) cs
         (fst (ref_block r_in b (bo + 1)))
    /\ (has_items b = false -> cs = [] /\ b = BNil)
    /\ (has_items b = true ->
        exists cs_b, cs = [NScope KNormal bo (bo + 1 + len_block b) cs_b]
                     /\ R (mkFrame KNormal bo (bo + 1 + len_block b) cs_b :: st_z st) (snd (ref_block r_in b (bo + 1)))).
Proof.
  intros b IHb bo st r_in pend HI Hpend Hend HR. unfold walk_body.
  destruct (has_items b) eqn:Eh.
  - set (be := bo + 1 + len_block b) in *.
    assert (HI1 : Inv (create_scope bo be KNormal st) (bo + 1) pend).
    { apply (Inv_create st bo bo be KNormal (bo + 1) pend HI);
        [lia|lia|exact Hend|cbn; discriminate|intros _; left; reflexivity]. }
    destruct (IHb (bo + 1) (create_scope bo be KNormal st) r_in pend HI1) as (cs_b & Hstep & HR').
    + eapply pend_out_sub; [exact Hpend|lia|unfold be; lia].
    + reflexivity.
    + cbn [create_scope st_z top_end f_end]. unfold be. lia.
    + exact HR.
    + exists [NScope KNormal bo be cs_b]. split; [|split; [discriminate|]].
      * apply (Step_scope st _ KNormal bo be (bo + 1) (bo + 1 + len_block b) cs_b);
          [eapply Inv_nonempty; exact HI|exact Hstep|unfold be; lia|lia|unfold be; lia].
      * intros _. exists cs_b. split; [reflexivity|]. exact HR'.
  - destruct b; try discriminate. cbn [len_block ref_block fst snd].
    exists []. split; [apply Step_refl|]. split; [intros _; split; reflexivity|discriminate].
Qed.

(** * function bodies *)

Definition self_env (self : option N) (r : env) : env :=
  match self with Some c => (self_name, c) :: r | None => r end.
Definition self_decls (self : option N) : list decl :=
  match self with Some c => [mkDecl c self_name DSelf] | None => [] end.

Lemma add_children_create : forall st s e k cs,
  add_children (st_z (create_scope s e k st)) cs = mkFrame k s e cs :: st_z st.
Proof. reflexivity. Qed.

Lemma sim_closure : forall b, P_block b -> forall self ps cs ce po st r pend,
  Inv st cs pend -> pend_out pend cs ce ->
  cs <= po ->
  ce = po + (1 + len_names ps + 1) + (1 + len_block b) + 3 ->
  ce <= top_end (st_z st) ->
  (forall c, self = Some c -> c < cs) ->
  R (st_z st) r ->
  exists cl,
    Step st (walk_closure (walk_block b) (len_block b) (has_items b) self ps cs ce po st) cs ce [cl]
      (fst (ref_block (bind_names ps (po + 1) (self_env self r)) b (po + (1 + len_names ps + 1) + 1)))
    /\ closure_node cl.
Proof.
  intros b IHb self ps cs ce po st r pend HI Hpend Hpo Hce Hend Hself HR.
  pose proof (Inv_nonempty _ _ _ HI) as Hne.
  unfold walk_closure. cbv zeta.
  set (bo := po + 1 + len_names ps + 1).
  set (st1 := create_scope cs ce KClosure st).
  set (st2 := match self with Some c => add_decl (mkDecl c self_name DSelf) st1 | None => st1 end).
  set (st3 := add_name_decls ps (po + 1) st2).
  assert (HI1 : Inv st1 cs pend).
  { apply (Inv_create st cs cs ce KClosure cs pend HI);
      [lia|lia|exact Hend|cbn; discriminate|intros _; right; reflexivity]. }
  assert (Hne1 : st_z st1 <> []) by (cbn; discriminate).
  assert (Hs12 : Step st1 st2 cs cs (map NDecl (self_decls self)) []).
  { unfold st2. destruct self as [c|]; cbn [self_decls map].
    - apply Step_add_decl; [exact Hne1|cbn [d_pos]; apply Hself; reflexivity].
    - apply Step_refl. }
  assert (Hne2 : st_z st2 <> []).
  { rewrite (step_z _ _ _ _ _ _ Hs12). cbn. discriminate. }
  assert (Hs23 : Step st2 st3 cs bo (map NDecl (name_decls ps (po + 1))) []).
  { apply Step_add_name_decls; [exact Hne2|unfold bo; lia|unfold bo; lia]. }
  set (ds := self_decls self ++ name_decls ps (po + 1)).
  assert (Hs13 : Step st1 st3 cs bo (map NDecl ds) []).
  { unfold ds. rewrite map_app. change (@nil (N * resolution)) with (@nil (N * resolution) ++ []).
    eapply (Step_seq st1 st2 st3 cs cs cs bo); [exact Hs12|exact Hs23|lia|lia|unfold bo; lia]. }
  assert (HI3 : Inv st3 bo pend).
  { apply (Inv_step st1 st3 cs bo bo (map NDecl ds) [] pend HI1 Hs13); [unfold bo; lia|lia|].
    cbn. discriminate. }
  assert (Hz3 : st_z st3 = mkFrame KClosure cs ce (map NDecl ds) :: st_z st).
  { rewrite (step_z _ _ _ _ _ _ Hs13). reflexivity. }
  set (r_in := bind_names ps (po + 1) (self_env self r)).
  assert (HR3 : R (st_z st3) r_in).
  { rewrite Hz3. destruct (st_z st) as [|f z] eqn:Ez; [congruence|].
    assert (Hsil : repeat_silent f).
    { pose proof (inv_sil _ _ _ HI) as H. rewrite Ez in H. inversion H; assumption. }
    assert (Hv : vis_entry (mkFrame KClosure cs ce (map NDecl ds) :: f :: z) = rev ds ++ vis_entry (f :: z)).
    { cbn [vis_entry f_kind f_children]. rewrite all_contrib_decls. f_equal.
      rewrite vis_up_push by exact Hsil. cbn [f_kind kind_eqb negb]. rewrite andb_false_r. reflexivity. }
    assert (Henv : r_in = env_of (rev ds) ++ r).
    { unfold r_in, ds. rewrite bind_names_env, rev_app_distr. unfold env_of at 2. rewrite map_app, <- app_assoc.
      f_equal. destruct self; reflexivity. }
    rewrite Henv. apply (R_extend (f :: z)); [exact HR| |exact Hv].
    apply Forall_rev. unfold ds. apply Forall_app. split; [|apply name_decls_local].
    destruct self; cbn [self_decls]; [constructor; [cbn; discriminate|constructor]|constructor]. }
  assert (Hbody : bo + 1 + len_block b <= ce) by (unfold bo; lia).
  destruct (sim_body b IHb bo st3 r_in pend HI3) as (cs_blk & Hs34 & _ & _).
  - eapply pend_out_sub; [exact Hpend|unfold bo; lia|exact Hbody].
  - rewrite Hz3. cbn [top_end f_end]. exact Hbody.
  - rewrite Hz3. apply (R_same (mkFrame KClosure cs ce (map NDecl ds) :: st_z st)); [rewrite <- Hz3; exact HR3|].
    apply vis_push_normal; [intros E; discriminate|cbn; discriminate].
  - exists (NScope KClosure cs ce (map NDecl ds ++ cs_blk)). split; [|do 3 eexists; reflexivity].
    replace (po + (1 + len_names ps + 1) + 1) with (bo + 1) by (unfold bo; lia).
    fold r_in.
    assert (Hs14 : Step st1 (walk_body (walk_block b) (len_block b) (has_items b) bo st3) cs (bo + 1 + len_block b)
                        (map NDecl ds ++ cs_blk) ([] ++ fst (ref_block r_in b (bo + 1)))).
    { eapply (Step_seq st1 st3 _ cs bo bo); [exact Hs13|exact Hs34|lia|unfold bo; lia|lia]. }
    cbn [app] in Hs14.
    apply (Step_scope st _ KClosure cs ce cs (bo + 1 + len_block b)); [exact Hne|exact Hs14|lia|lia|exact Hbody].
Qed.

(** * expressions *)

Lemma chain : forall st st1 o e1 cs1 L1 r pend q,
  Inv st o pend -> Step st st1 o e1 cs1 L1 -> Forall closure_node cs1 -> R (st_z st) r -> o <= e1 -> e1 <= q ->
  Inv st1 q pend /\ R (st_z st1) r /\ top_end (st_z st1) = top_end (st_z st) /\ top_kind (st_z st1) = top_kind (st_z st).
Proof.
  intros st st1 o e1 cs1 L1 r pend q HI Hs Hc HR H1 H2. split; [|split; [|split]].
  - eapply Inv_step; [exact HI|exact Hs|exact H1|exact H2|intros _; apply closures_repeat_ok; exact Hc].
  - eapply R_add_closures; eassumption.
  - rewrite (step_z _ _ _ _ _ _ Hs). apply top_end_add.
  - rewrite (step_z _ _ _ _ _ _ Hs). apply top_kind_add.
Qed.

Lemma sim_ENum : forall n, P_expr (ENum n).
Proof.
  intros n o st r pend HI Hp He HR. exists []. split; [|constructor]. cbn [walk_expr ref_expr]. apply Step_refl.
Qed.

Lemma sim_EName : forall x, P_expr (EName x).
Proof.
  intros x o st r pend HI Hp He HR. exists []. split; [|constructor]. cbn [walk_expr ref_expr len_expr] in *.
  pose proof (nlen_pos x). apply (sim_name x o st r pend HI); [|exact He|exact HR].
  eapply pend_out_notin; [exact Hp|lia|lia].
Qed.

Lemma sim_EIdx : forall e f, P_expr e -> P_expr (EIdx e f).
Proof.
  intros e f IHe o st r pend HI Hp He HR. cbn [walk_expr ref_expr len_expr] in *.
  pose proof (nlen_pos f).
  destruct (IHe (o + paren e) st r pend) as (cs & Hs & Hc).
  - eapply Inv_mono; [exact HI|lia].
  - eapply pend_out_sub; [exact Hp|lia|lia].
  - lia.
  - exact HR.
  - exists cs. split; [|exact Hc]. eapply Step_widen; [exact Hs|lia|lia].
Qed.

(** a callee followed by an argument list: [f(args)] *)
Lemma sim_call : forall f args, P_expr f -> P_exprs args ->
  forall o st r pend,
  Inv st o pend -> pend_out pend o (o + (paren f + len_expr f + paren f + 1 + len_exprs args + 1)) ->
  o + (paren f + len_expr f + paren f + 1 + len_exprs args + 1) <= top_end (st_z st) -> R (st_z st) r ->
  exists cs,
    Step st (walk_exprs args (o + paren f + len_expr f + paren f + 1) (walk_expr f (o + paren f) st))
         o (o + (paren f + len_expr f + paren f + 1 + len_exprs args + 1)) cs
         (ref_expr r f (o + paren f) ++ ref_exprs r args (o + paren f + len_expr f + paren f + 1))
    /\ Forall closure_node cs.
Proof.
  intros f args IHf IHa o st r pend HI Hp He HR.
  destruct (IHf (o + paren f) st r pend) as (cs1 & Hs1 & Hc1).
  - eapply Inv_mono; [exact HI|lia].
  - eapply pend_out_sub; [exact Hp|lia|lia].
  - lia.
  - exact HR.
  - set (ao := o + paren f + len_expr f + paren f + 1).
    destruct (chain st _ (o + paren f) (o + paren f + len_expr f) cs1 _ r pend ao
                    ltac:(eapply Inv_mono; [exact HI|lia]) Hs1 Hc1 HR ltac:(lia) ltac:(unfold ao; lia))
      as (HI1 & HR1 & Hte & _).
    destruct (IHa ao _ r pend HI1) as (cs2 & Hs2 & Hc2).
    + eapply pend_out_sub; [exact Hp|unfold ao; lia|unfold ao; lia].
    + rewrite Hte. unfold ao. lia.
    + exact HR1.
    + exists (cs1 ++ cs2). split; [|apply Forall_app; split; assumption].
      eapply Step_widen; [eapply (Step_seq st _ _ (o + paren f) (o + paren f + len_expr f) ao); [exact Hs1|exact Hs2| | | ]| |];
        unfold ao; lia.
Qed.

Lemma sim_ECall : forall f args, P_expr f -> P_exprs args -> P_expr (ECall f args).
Proof.
  intros f args IHf IHa o st r pend HI Hp He HR. cbn [walk_expr ref_expr len_expr] in *.
  apply (sim_call f args IHf IHa o st r pend HI Hp He HR).
Qed.

Lemma sim_EBin : forall a b, P_expr a -> P_expr b -> P_expr (EBin a b).
Proof.
  intros a b IHa IHb o st r pend HI Hp He HR. cbn [walk_expr ref_expr len_expr] in *.
  destruct (IHa o st r pend HI) as (cs1 & Hs1 & Hc1).
  - eapply pend_out_sub; [exact Hp|lia|lia].
  - lia.
  - exact HR.
  - set (bo := o + len_expr a + 3).
    destruct (chain st _ o (o + len_expr a) cs1 _ r pend bo HI Hs1 Hc1 HR ltac:(lia) ltac:(unfold bo; lia))
      as (HI1 & HR1 & Hte & _).
    destruct (IHb bo _ r pend HI1) as (cs2 & Hs2 & Hc2).
    + eapply pend_out_sub; [exact Hp|unfold bo; lia|unfold bo; lia].
    + rewrite Hte. unfold bo. lia.
    + exact HR1.
    + exists (cs1 ++ cs2). split; [|apply Forall_app; split; assumption].
      eapply Step_widen; [eapply (Step_seq st _ _ o (o + len_expr a) bo); [exact Hs1|exact Hs2| | | ]| |];
        unfold bo; lia.
Qed.

Lemma sim_EFun : forall ps b, P_block b -> P_expr (EFun ps b).
Proof.
  intros ps b IHb o st r pend HI Hp He HR. cbn [walk_expr ref_expr len_expr] in *.
  destruct (sim_closure b IHb None ps o (o + (8 + (1 + len_names ps + 1) + (1 + len_block b) + 3)) (o + 8) st r pend HI Hp)
    as (cl & Hs & Hc).
  - lia.
  - lia.
  - exact He.
  - intros c E. discriminate.
  - exact HR.
  - exists [cl]. split; [|constructor; [exact Hc|constructor]].
    cbn [self_env] in Hs. exact Hs.
Qed.

Lemma sim_EStr : forall n, P_expr (EStr n).
Proof.
  intros n o st r pend HI Hp He HR. exists []. split; [|constructor]. cbn [walk_expr ref_expr]. apply Step_refl.
Qed.

Lemma sim_ETable : forall es, P_exprs es -> P_expr (ETable es).
Proof.
  intros es IHes o st r pend HI Hp He HR. cbn [walk_expr ref_expr len_expr] in *.
  destruct (IHes (o + 1) st r pend) as (cs & Hs & Hc).
  - eapply Inv_mono; [exact HI|lia].
  - eapply pend_out_sub; [exact Hp|lia|lia].
  - lia.
  - exact HR.
  - exists cs. split; [|exact Hc]. eapply Step_widen; [exact Hs|lia|lia].
Qed.

(** a receiver followed by an argument list at [ao]: [e:m(args)] *)
Lemma sim_EMeth : forall e m args, P_expr e -> P_exprs args -> P_expr (EMeth e m args).
Proof.
  intros f m args IHf IHa o st r pend HI Hp He HR. cbn [walk_expr ref_expr len_expr] in *.
  pose proof (nlen_pos m) as Hm.
  destruct (IHf (o + paren f) st r pend) as (cs1 & Hs1 & Hc1).
  - eapply Inv_mono; [exact HI|lia].
  - eapply pend_out_sub; [exact Hp|lia|lia].
  - lia.
  - exact HR.
  - set (ao := o + paren f + len_expr f + paren f + 1 + nlen m + 1).
    destruct (chain st _ (o + paren f) (o + paren f + len_expr f) cs1 _ r pend ao
                    ltac:(eapply Inv_mono; [exact HI|lia]) Hs1 Hc1 HR ltac:(lia) ltac:(unfold ao; lia))
      as (HI1 & HR1 & Hte & _).
    destruct (IHa ao _ r pend HI1) as (cs2 & Hs2 & Hc2).
    + eapply pend_out_sub; [exact Hp|unfold ao; lia|unfold ao; lia].
    + rewrite Hte. unfold ao. lia.
    + exact HR1.
    + exists (cs1 ++ cs2). split; [|apply Forall_app; split; assumption].
      eapply Step_widen; [eapply (Step_seq st _ _ (o + paren f) (o + paren f + len_expr f) ao); [exact Hs1|exact Hs2| | | ]| |];
        unfold ao; lia.
Qed.

Lemma sim_ENil : P_exprs ENil.
Proof.
  intros o st r pend HI Hp He HR. exists []. split; [|constructor]. cbn [walk_exprs ref_exprs]. apply Step_refl.
Qed.

Lemma sim_ECons : forall e es, P_expr e -> P_exprs es -> P_exprs (ECons e es).
Proof.
  intros e es IHe IHes o st r pend HI Hp He HR.
  destruct es as [|e2 es2].
  - cbn [walk_exprs ref_exprs len_exprs] in *. rewrite app_nil_r. rewrite N.add_0_r in *.
    apply (IHe o st r pend HI Hp He HR).
  - remember (ECons e2 es2) as es eqn:Ees.
    assert (Hlen : len_exprs (ECons e es) = len_expr e + 2 + len_exprs es) by (subst es; cbn [len_exprs]; lia).
    rewrite Hlen in *. clear Hlen. cbn [walk_exprs ref_exprs].
    destruct (IHe o st r pend HI) as (cs1 & Hs1 & Hc1).
    + eapply pend_out_sub; [exact Hp|lia|lia].
    + lia.
    + exact HR.
    + set (eo := o + len_expr e + 2).
      destruct (chain st _ o (o + len_expr e) cs1 _ r pend eo HI Hs1 Hc1 HR ltac:(lia) ltac:(unfold eo; lia))
        as (HI1 & HR1 & Hte & _).
      destruct (IHes eo _ r pend HI1) as (cs2 & Hs2 & Hc2).
      * eapply pend_out_sub; [exact Hp|unfold eo; lia|unfold eo; lia].
      * rewrite Hte. unfold eo. lia.
      * exact HR1.
      * exists (cs1 ++ cs2). split; [|apply Forall_app; split; assumption].
        eapply Step_widen; [eapply (Step_seq st _ _ o (o + len_expr e) eo); [exact Hs1|exact Hs2| | | ]| |];
          unfold eo; lia.
Qed.

(** * statements (the innermost open scope is a block) *)

Lemma vis_add_normal : forall z cs,
  top_kind z = KNormal -> z <> [] -> vis_entry (add_children z cs) = all_contrib cs ++ vis_entry z.
Proof.
  intros [|f z] cs Hk Hne; [congruence|]. cbn [add_children top_kind] in *. apply vis_entry_add. left. exact Hk.
Qed.

Lemma silent_all : forall cs, Forall silent cs -> all_contrib cs = [].
Proof. exact all_contrib_silent. Qed.

(** the scope [n] opened in a block frame sees what the block sees *)
Lemma vis_push_in_block : forall n z,
  top_kind z = KNormal -> z <> [] -> vis_up n z = vis_entry z.
Proof.
  intros n [|f z] Hk Hne; [congruence|]. cbn [top_kind] in Hk.
  rewrite vis_up_push by (intros E; congruence). rewrite Hk. reflexivity.
Qed.

Lemma R_silent_after : forall z cs r,
  top_kind z = KNormal -> z <> [] -> Forall silent cs -> R z r -> R (add_children z cs) r.
Proof.
  intros z cs r Hk Hne Hs HR. apply (R_same z); [exact HR|].
  rewrite vis_add_normal by assumption. rewrite (all_contrib_silent cs Hs). reflexivity.
Qed.

Lemma sim_SCall : forall f args, P_expr f -> P_exprs args -> P_stat (SCall f args).
Proof.
  intros f args IHf IHa o st r pend HI Hp Hk He HR. cbn [walk_stat ref_stat len_stat fst snd] in *.
  destruct (sim_call f args IHf IHa o st r pend HI Hp He HR) as (cs & Hs & Hc).
  exists cs. split; [exact Hs|].
  rewrite <- (step_z _ _ _ _ _ _ Hs). eapply R_add_closures; eassumption.
Qed.

Lemma sim_SLocal : forall xs es, P_exprs es -> P_stat (SLocal xs es).
Proof.
  intros xs es IHes o st r pend HI Hp Hk He HR.
  pose proof (Inv_nonempty _ _ _ HI) as Hne.
  set (L := len_stat (SLocal xs es)) in *.
  set (ds := name_decls xs (o + 6)).
  set (st1 := create_scope o (o + L) KLocalOrAssign st).
  set (st2 := add_name_decls xs (o + 6) st1).
  assert (HL : L = 6 + len_names xs + match es with ENil => 0 | _ => 3 + len_exprs es end) by reflexivity.
  assert (HI1 : Inv st1 o pend).
  { apply (Inv_create st o o (o + L) KLocalOrAssign o pend HI); [lia|lia|exact He|cbn; discriminate|].
    rewrite Hk. discriminate. }
  assert (Hne1 : st_z st1 <> []) by (cbn; discriminate).
  assert (Hs12 : Step st1 st2 o (o + 6 + len_names xs) (map NDecl ds) []).
  { apply Step_add_name_decls; [exact Hne1|lia|lia]. }
  assert (Hz2 : st_z st2 = mkFrame KLocalOrAssign o (o + L) (map NDecl ds) :: st_z st).
  { rewrite (step_z _ _ _ _ _ _ Hs12). reflexivity. }
  assert (HR2 : R (st_z st2) r).
  { rewrite Hz2. apply (R_same (st_z st)); [exact HR|].
    cbn [vis_entry f_kind]. apply vis_push_in_block; assumption. }
  (* the result for any step of the value expressions *)
  assert (Hfin : forall st3 e3 cs_e Le,
             Step st1 st3 o e3 (map NDecl ds ++ cs_e) Le -> Forall closure_node cs_e -> e3 <= o + L ->
             exists cs, Step st (pop_scope st3) o (o + L) cs Le /\ R (add_children (st_z st) cs) (bind_names xs (o + 6) r)).
  { intros st3 e3 cs_e Le Hs13 Hce He3.
    exists [NScope KLocalOrAssign o (o + L) (map NDecl ds ++ cs_e)]. split.
    - apply (Step_scope st st3 KLocalOrAssign o (o + L) o e3); [exact Hne|exact Hs13|lia|lia|exact He3].
    - rewrite bind_names_env. apply (R_extend (st_z st)); [exact HR|apply Forall_rev, name_decls_local|].
      rewrite vis_add_normal by assumption. f_equal. rewrite all_contrib_one.
      cbn [contrib visit_child_scope node_kind node_children].
      rewrite decls_of_app, decls_of_decls, (decls_of_closures cs_e Hce), app_nil_r. reflexivity. }
  cbn [walk_stat ref_stat fst snd]. fold L. fold st1. fold st2.
  destruct es as [|e1 es1].
  - cbn [walk_exprs ref_exprs].
    apply (Hfin st2 (o + 6 + len_names xs) [] []); [rewrite app_nil_r; exact Hs12|constructor|lia].
  - remember (ECons e1 es1) as es eqn:Ees.
    assert (HL' : L = 6 + len_names xs + 3 + len_exprs es) by (rewrite HL; subst es; lia).
    set (eo := o + 6 + len_names xs + 3).
    assert (HI2 : Inv st2 eo pend).
    { apply (Inv_step st1 st2 o (o + 6 + len_names xs) eo (map NDecl ds) [] pend HI1 Hs12); [lia|unfold eo; lia|].
      cbn. discriminate. }
    destruct (IHes eo st2 r pend HI2) as (cs_e & Hs23 & Hce).
    + eapply pend_out_sub; [exact Hp|unfold eo; lia|unfold eo; fold L; lia].
    + rewrite Hz2. cbn [top_end f_end]. unfold eo. lia.
    + exact HR2.
    + apply (Hfin _ (eo + len_exprs es) cs_e (ref_exprs r es eo)); [|exact Hce|unfold eo; lia].
      change (ref_exprs r es eo) with ([] ++ ref_exprs r es eo).
      eapply (Step_seq st1 st2 _ o (o + 6 + len_names xs) eo); [exact Hs12|exact Hs23|unfold eo; lia|unfold eo; lia|unfold eo; lia].
Qed.

Lemma sim_SLocalAttr : forall x cl es, P_exprs es -> P_stat (SLocalAttr x cl es).
Proof.
  intros x cl es IHes o st r pend HI Hp Hk He HR. pose proof (nlen_pos x) as Hx. set (xs := [x]).
  assert (Hlx : len_names xs = nlen x) by (cbn [xs len_names]; lia).
  pose proof (Inv_nonempty _ _ _ HI) as Hne.
  set (L := len_stat (SLocalAttr x cl es)) in *.
  set (ds := name_decls xs (o + 6)).
  set (st1 := create_scope o (o + L) KLocalOrAssign st).
  set (st2 := add_name_decls xs (o + 6) st1).
  assert (HL : L = 6 + nlen x + 8 + match es with ENil => 0 | _ => 3 + len_exprs es end) by reflexivity.
  assert (HI1 : Inv st1 o pend).
  { apply (Inv_create st o o (o + L) KLocalOrAssign o pend HI); [lia|lia|exact He|cbn; discriminate|].
    rewrite Hk. discriminate. }
  assert (Hne1 : st_z st1 <> []) by (cbn; discriminate).
  assert (Hs12 : Step st1 st2 o (o + 6 + len_names xs) (map NDecl ds) []).
  { apply Step_add_name_decls; [exact Hne1|lia|lia]. }
  assert (Hz2 : st_z st2 = mkFrame KLocalOrAssign o (o + L) (map NDecl ds) :: st_z st).
  { rewrite (step_z _ _ _ _ _ _ Hs12). reflexivity. }
  assert (HR2 : R (st_z st2) r).
  { rewrite Hz2. apply (R_same (st_z st)); [exact HR|].
    cbn [vis_entry f_kind]. apply vis_push_in_block; assumption. }
  (* the result for any step of the value expressions *)
  assert (Hfin : forall st3 e3 cs_e Le,
             Step st1 st3 o e3 (map NDecl ds ++ cs_e) Le -> Forall closure_node cs_e -> e3 <= o + L ->
             exists cs, Step st (pop_scope st3) o (o + L) cs Le /\ R (add_children (st_z st) cs) (bind_names xs (o + 6) r)).
  { intros st3 e3 cs_e Le Hs13 Hce He3.
    exists [NScope KLocalOrAssign o (o + L) (map NDecl ds ++ cs_e)]. split.
    - apply (Step_scope st st3 KLocalOrAssign o (o + L) o e3); [exact Hne|exact Hs13|lia|lia|exact He3].
    - rewrite bind_names_env. apply (R_extend (st_z st)); [exact HR|apply Forall_rev, name_decls_local|].
      rewrite vis_add_normal by assumption. f_equal. rewrite all_contrib_one.
      cbn [contrib visit_child_scope node_kind node_children].
      rewrite decls_of_app, decls_of_decls, (decls_of_closures cs_e Hce), app_nil_r. reflexivity. }
  cbn [walk_stat ref_stat fst snd]. fold L. fold xs. fold st1. fold st2.
  destruct es as [|e1 es1].
  - cbn [walk_exprs ref_exprs].
    apply (Hfin st2 (o + 6 + len_names xs) [] []); [rewrite app_nil_r; exact Hs12|constructor|lia].
  - remember (ECons e1 es1) as es eqn:Ees.
    assert (HL' : L = 6 + nlen x + 8 + 3 + len_exprs es) by (rewrite HL; subst es; lia).
    set (eo := o + 6 + nlen x + 8 + 3).
    assert (HI2 : Inv st2 eo pend).
    { apply (Inv_step st1 st2 o (o + 6 + len_names xs) eo (map NDecl ds) [] pend HI1 Hs12); [lia|unfold eo; lia|].
      cbn. discriminate. }
    destruct (IHes eo st2 r pend HI2) as (cs_e & Hs23 & Hce).
    + eapply pend_out_sub; [exact Hp|unfold eo; lia|unfold eo; fold L; lia].
    + rewrite Hz2. cbn [top_end f_end]. unfold eo. lia.
    + exact HR2.
    + apply (Hfin _ (eo + len_exprs es) cs_e (ref_exprs r es eo)); [|exact Hce|unfold eo; lia].
      change (ref_exprs r es eo) with ([] ++ ref_exprs r es eo).
      eapply (Step_seq st1 st2 _ o (o + 6 + len_names xs) eo); [exact Hs12|exact Hs23|unfold eo; lia|unfold eo; lia|unfold eo; lia].
Qed.

Lemma sim_SLabel : forall l, P_stat (SLabel l).
Proof.
  intros l o st r pend HI Hp Hk He HR. exists []. cbn [walk_stat ref_stat fst snd]. split; [apply Step_refl|].
  rewrite add_children_nil. exact HR.
Qed.

Lemma sim_SGoto : forall l, P_stat (SGoto l).
Proof.
  intros l o st r pend HI Hp Hk He HR. exists []. cbn [walk_stat ref_stat fst snd]. split; [apply Step_refl|].
  rewrite add_children_nil. exact HR.
Qed.

Lemma sim_SLocalFun : forall f ps b, P_block b -> P_stat (SLocalFun f ps b).
Proof.
  intros f ps b IHb o st r pend HI Hp Hk He HR.
  pose proof (Inv_nonempty _ _ _ HI) as Hne. pose proof (nlen_pos f) as Hf.
  set (L := len_stat (SLocalFun f ps b)) in *.
  assert (HL : L = 15 + nlen f + (1 + len_names ps + 1) + (1 + len_block b) + 3) by reflexivity.
  set (d := mkDecl (o + 15) f DLocal).
  set (po := o + 15 + nlen f).
  set (st1 := create_scope o (o + L) KFuncStat st).
  set (st2 := add_decl d st1).
  assert (HI1 : Inv st1 (o + 15) pend).
  { apply (Inv_create st o o (o + L) KFuncStat (o + 15) pend HI); [lia|lia|exact He|intros _; lia|].
    rewrite Hk. discriminate. }
  assert (Hne1 : st_z st1 <> []) by (cbn; discriminate).
  assert (Hs12 : Step st1 st2 (o + 15) po [NDecl d] []).
  { apply Step_add_decl; [exact Hne1|cbn [d_pos d]; unfold po; lia]. }
  assert (Hz2 : st_z st2 = mkFrame KFuncStat o (o + L) [NDecl d] :: st_z st).
  { rewrite (step_z _ _ _ _ _ _ Hs12). reflexivity. }
  assert (HI2 : Inv st2 po pend).
  { apply (Inv_step st1 st2 (o + 15) po po [NDecl d] [] pend HI1 Hs12); [unfold po; lia|lia|]. cbn. discriminate. }
  set (r1 := (f, o + 15) :: r).
  assert (HR2 : R (st_z st2) r1).
  { rewrite Hz2. change r1 with (env_of [d] ++ r).
    apply (R_extend (st_z st)); [exact HR|constructor; [cbn; discriminate|constructor]|].
    cbn [vis_entry f_kind f_children]. rewrite all_contrib_one. cbn [contrib app]. f_equal.
    apply vis_push_in_block; assumption. }
  destruct (sim_closure b IHb None ps po (o + L) po st2 r1 pend HI2) as (cl & Hs23 & Hcl).
  - eapply pend_out_sub; [exact Hp|unfold po; lia|fold L; lia].
  - lia.
  - unfold po. lia.
  - rewrite Hz2. cbn [top_end f_end]. lia.
  - intros c E. discriminate.
  - exact HR2.
  - cbn [walk_stat ref_stat fst snd]. fold L. fold st1. fold d. fold st2. fold po. fold r1.
    cbn [self_env] in Hs23.
    exists [NScope KFuncStat o (o + L) ([NDecl d] ++ [cl])]. split.
    + apply (Step_scope st _ KFuncStat o (o + L) (o + 15) (o + L)); [exact Hne| |lia|lia|lia].
      change (fst (ref_block (bind_names ps (po + 1) r1) b (po + (1 + len_names ps + 1) + 1)))
        with ([] ++ fst (ref_block (bind_names ps (po + 1) r1) b (po + (1 + len_names ps + 1) + 1))).
      eapply (Step_seq st1 st2 _ (o + 15) po po); [exact Hs12|exact Hs23|lia|unfold po; lia|unfold po; lia].
    + change r1 with (env_of [d] ++ r).
      apply (R_extend (st_z st)); [exact HR|constructor; [cbn; discriminate|constructor]|].
      rewrite vis_add_normal by assumption. f_equal. rewrite all_contrib_one.
      destruct Hcl as (s' & e' & cs' & ->). reflexivity.
Qed.

(** a block statement part: its scope node is invisible from the enclosing block *)
Lemma body_silent : forall b cs bo be,
  (has_items b = false -> cs = [] /\ b = BNil) ->
  (has_items b = true -> exists cs_b, cs = [NScope KNormal bo be cs_b] /\ True) ->
  Forall silent cs.
Proof.
  intros b cs bo be H1 H2. destruct (has_items b).
  - destruct (H2 eq_refl) as (cs_b & -> & _). constructor; [reflexivity|constructor].
  - destruct (H1 eq_refl) as (-> & _). constructor.
Qed.

(** a body in a block frame with the environment of the block *)
Lemma sim_body_plain : forall b, P_block b -> forall bo st r pend,
  Inv st bo pend -> pend_out pend bo (bo + 1 + len_block b) -> top_kind (st_z st) = KNormal ->
  bo + 1 + len_block b <= top_end (st_z st) -> R (st_z st) r ->
  exists cs,
    Step st (walk_body (walk_block b) (len_block b) (has_items b) bo st) bo (bo + 1 + len_block b) cs
         (fst (ref_block r b (bo + 1)))
    /\ Forall silent cs.
Proof.
  intros b IHb bo st r pend HI Hp Hk He HR. pose proof (Inv_nonempty _ _ _ HI) as Hne.
  destruct (sim_body b IHb bo st r pend HI Hp He) as (cs & Hs & H1 & H2).
  - apply (R_same (st_z st)); [exact HR|]. cbn [vis_entry f_kind f_children]. rewrite all_contrib_nil. cbn [app].
    apply vis_push_in_block; assumption.
  - exists cs. split; [exact Hs|]. apply (body_silent b cs bo (bo + 1 + len_block b) H1).
    intros E. destruct (H2 E) as (cs_b & Hcs & _). exists cs_b. split; [exact Hcs|exact I].
Qed.

Lemma sim_SDo : forall b, P_block b -> P_stat (SDo b).
Proof.
  intros b IHb o st r pend HI Hp Hk He HR. cbn [walk_stat ref_stat len_stat fst snd] in *.
  pose proof (Inv_nonempty _ _ _ HI) as Hne.
  destruct (sim_body_plain b IHb (o + 2) st r pend) as (cs & Hs & Hsil).
  - eapply Inv_mono; [exact HI|lia].
  - eapply pend_out_sub; [exact Hp|lia|lia].
  - exact Hk.
  - lia.
  - exact HR.
  - exists cs. split.
    + replace (o + 2 + 1) with (o + 2 + 1) by reflexivity.
      eapply Step_widen; [exact Hs|lia|lia].
    + apply R_silent_after; assumption.
Qed.

(** after an expression in a block frame *)
Lemma chain_block : forall st st1 o e1 cs1 L1 r pend q,
  Inv st o pend -> top_kind (st_z st) = KNormal ->
  Step st st1 o e1 cs1 L1 -> Forall silent cs1 -> R (st_z st) r -> o <= e1 -> e1 <= q ->
  Inv st1 q pend /\ R (st_z st1) r /\ top_end (st_z st1) = top_end (st_z st) /\ top_kind (st_z st1) = KNormal.
Proof.
  intros st st1 o e1 cs1 L1 r pend q HI Hk Hs Hc HR H1 H2. pose proof (Inv_nonempty _ _ _ HI) as Hne.
  split; [|split; [|split]].
  - eapply Inv_step; [exact HI|exact Hs|exact H1|exact H2|]. rewrite Hk. discriminate.
  - rewrite (step_z _ _ _ _ _ _ Hs). apply R_silent_after; assumption.
  - rewrite (step_z _ _ _ _ _ _ Hs). apply top_end_add.
  - rewrite (step_z _ _ _ _ _ _ Hs), top_kind_add. exact Hk.
Qed.

Lemma closures_silent : forall cs, Forall closure_node cs -> Forall silent cs.
Proof. intros cs H. eapply Forall_impl; [|exact H]. apply closure_silent. Qed.

Lemma sim_SWhile : forall c b, P_expr c -> P_block b -> P_stat (SWhile c b).
Proof.
  intros c b IHc IHb o st r pend HI Hp Hk He HR. cbn [walk_stat ref_stat len_stat fst snd] in *.
  pose proof (Inv_nonempty _ _ _ HI) as Hne.
  destruct (IHc (o + 6) st r pend) as (cs1 & Hs1 & Hc1).
  - eapply Inv_mono; [exact HI|lia].
  - eapply pend_out_sub; [exact Hp|lia|lia].
  - lia.
  - exact HR.
  - set (bo := o + 6 + len_expr c + 3).
    destruct (chain_block st _ (o + 6) (o + 6 + len_expr c) cs1 _ r pend bo
                ltac:(eapply Inv_mono; [exact HI|lia]) Hk Hs1 (closures_silent _ Hc1) HR ltac:(lia) ltac:(unfold bo; lia))
      as (HI1 & HR1 & Hte & Hk1).
    destruct (sim_body_plain b IHb bo _ r pend HI1) as (cs2 & Hs2 & Hsil2).
    + eapply pend_out_sub; [exact Hp|unfold bo; lia|unfold bo; lia].
    + exact Hk1.
    + rewrite Hte. unfold bo. lia.
    + exact HR1.
    + exists (cs1 ++ cs2). split.
      * replace (o + 6 + len_expr c + 3 + 1) with (bo + 1) by (unfold bo; lia).
        eapply Step_widen; [eapply (Step_seq st _ _ (o + 6) (o + 6 + len_expr c) bo); [exact Hs1|exact Hs2| | | ]| |];
          unfold bo; lia.
      * apply R_silent_after; try assumption. apply Forall_app. split; [apply closures_silent; exact Hc1|exact Hsil2].
Qed.

Lemma sim_ElEnd : P_elifs ElEnd.
Proof.
  intros o st r pend HI Hp Hk He HR. exists []. split; [|constructor]. cbn [walk_elifs ref_elifs]. apply Step_refl.
Qed.

Lemma sim_ElElse : forall b, P_block b -> P_elifs (ElElse b).
Proof.
  intros b IHb o st r pend HI Hp Hk He HR. cbn [walk_elifs ref_elifs len_elifs] in *.
  destruct (sim_body_plain b IHb (o + 4) st r pend) as (cs & Hs & Hsil).
  - eapply Inv_mono; [exact HI|lia].
  - eapply pend_out_sub; [exact Hp|lia|lia].
  - exact Hk.
  - lia.
  - exact HR.
  - exists cs. split; [|exact Hsil]. eapply Step_widen; [exact Hs|lia|lia].
Qed.

(** condition, [then] block, and the rest of an if statement *)
Lemma sim_cond_block : forall c b, P_expr c -> P_block b ->
  forall (kw : N) o st r pend (rest : state -> state) restlen Lrest,
  Inv st o pend -> pend_out pend o (o + (kw + len_expr c + 5 + (1 + len_block b) + restlen)) ->
  top_kind (st_z st) = KNormal ->
  o + (kw + len_expr c + 5 + (1 + len_block b) + restlen) <= top_end (st_z st) -> R (st_z st) r ->
  (forall st1, Inv st1 (o + kw + len_expr c + 5 + (1 + len_block b)) pend -> top_kind (st_z st1) = KNormal ->
               top_end (st_z st1) = top_end (st_z st) -> R (st_z st1) r ->
               exists cs, Step st1 (rest st1) (o + kw + len_expr c + 5 + (1 + len_block b))
                               (o + kw + len_expr c + 5 + (1 + len_block b) + restlen) cs Lrest /\ Forall silent cs) ->
  exists cs,
    Step st (rest (walk_body (walk_block b) (len_block b) (has_items b) (o + kw + len_expr c + 5) (walk_expr c (o + kw) st)))
         o (o + (kw + len_expr c + 5 + (1 + len_block b) + restlen)) cs
         (ref_expr r c (o + kw) ++ fst (ref_block r b (o + kw + len_expr c + 5 + 1)) ++ Lrest)
    /\ Forall silent cs.
Proof.
  intros c b IHc IHb kw o st r pend rest restlen Lrest HI Hp Hk He HR Hrest.
  destruct (IHc (o + kw) st r pend) as (cs1 & Hs1 & Hc1).
  - eapply Inv_mono; [exact HI|lia].
  - eapply pend_out_sub; [exact Hp|lia|lia].
  - lia.
  - exact HR.
  - set (bo := o + kw + len_expr c + 5).
    destruct (chain_block st _ (o + kw) (o + kw + len_expr c) cs1 _ r pend bo
                ltac:(eapply Inv_mono; [exact HI|lia]) Hk Hs1 (closures_silent _ Hc1) HR ltac:(lia) ltac:(unfold bo; lia))
      as (HI1 & HR1 & Hte1 & Hk1).
    destruct (sim_body_plain b IHb bo _ r pend HI1) as (cs2 & Hs2 & Hsil2).
    + eapply pend_out_sub; [exact Hp|unfold bo; lia|unfold bo; lia].
    + exact Hk1.
    + rewrite Hte1. unfold bo. lia.
    + exact HR1.
    + set (ro := bo + (1 + len_block b)).
      destruct (chain_block _ _ bo (bo + 1 + len_block b) cs2 _ r pend ro HI1 Hk1 Hs2 Hsil2 HR1 ltac:(lia) ltac:(unfold ro; lia))
        as (HI2 & HR2 & Hte2 & Hk2).
      destruct (Hrest _ HI2 Hk2 ltac:(rewrite Hte2; exact Hte1) HR2) as (cs3 & Hs3 & Hsil3).
      exists (cs1 ++ cs2 ++ cs3). split.
      * assert (H12 : Step st (walk_body (walk_block b) (len_block b) (has_items b) bo (walk_expr c (o + kw) st))
                           (o + kw) (bo + 1 + len_block b) (cs1 ++ cs2)
                           (ref_expr r c (o + kw) ++ fst (ref_block r b (bo + 1)))).
        { eapply (Step_seq st _ _ (o + kw) (o + kw + len_expr c) bo); [exact Hs1|exact Hs2| | | ]; unfold bo; lia. }
        rewrite !app_assoc.
        eapply Step_widen; [eapply (Step_seq st _ _ (o + kw) (bo + 1 + len_block b) ro); [exact H12|exact Hs3| | | ]| |];
          unfold ro, bo; lia.
      * apply Forall_app. split; [apply closures_silent; exact Hc1|apply Forall_app; split; assumption].
Qed.

Lemma sim_ElIf : forall c b t, P_expr c -> P_block b -> P_elifs t -> P_elifs (ElIf c b t).
Proof.
  intros c b t IHc IHb IHt o st r pend HI Hp Hk He HR. cbn [walk_elifs ref_elifs len_elifs] in *.
  apply (sim_cond_block c b IHc IHb 7 o st r pend (walk_elifs t (o + 7 + len_expr c + 5 + (1 + len_block b)))
                        (len_elifs t) (ref_elifs r t (o + 7 + len_expr c + 5 + (1 + len_block b))) HI Hp Hk He HR).
  intros st1 HI1 Hk1 Hte1 HR1. apply (IHt _ st1 r pend HI1); [|exact Hk1| |exact HR1].
  - eapply pend_out_sub; [exact Hp|lia|lia].
  - rewrite Hte1. lia.
Qed.

Lemma sim_SIf : forall c b els, P_expr c -> P_block b -> P_elifs els -> P_stat (SIf c b els).
Proof.
  intros c b els IHc IHb IHe o st r pend HI Hp Hk He HR. cbn [walk_stat ref_stat len_stat fst snd] in *.
  pose proof (Inv_nonempty _ _ _ HI) as Hne.
  destruct (sim_cond_block c b IHc IHb 3 o st r pend (walk_elifs els (o + 3 + len_expr c + 5 + (1 + len_block b)))
                        (len_elifs els) (ref_elifs r els (o + 3 + len_expr c + 5 + (1 + len_block b))) HI Hp Hk He HR)
    as (cs & Hs & Hsil).
  - intros st1 HI1 Hk1 Hte1 HR1. apply (IHe _ st1 r pend HI1); [|exact Hk1| |exact HR1].
    + eapply pend_out_sub; [exact Hp|lia|lia].
    + rewrite Hte1. lia.
  - exists cs. split; [exact Hs|]. apply R_silent_after; assumption.
Qed.

Lemma sim_SRepeat : forall b c, P_block b -> P_expr c -> P_stat (SRepeat b c).
Proof.
  intros b c IHb IHc o st r pend HI Hp Hk He HR.
  pose proof (Inv_nonempty _ _ _ HI) as Hne.
  set (L := len_stat (SRepeat b c)) in *.
  assert (HL : L = 6 + (1 + len_block b) + 6 + len_expr c) by reflexivity.
  set (st1 := create_scope o (o + L) KRepeat st).
  set (S0 := mkFrame KRepeat o (o + L) []).
  assert (Hz1 : st_z st1 = S0 :: st_z st) by reflexivity.
  assert (HI1 : Inv st1 (o + 6) pend).
  { apply (Inv_create st o o (o + L) KRepeat (o + 6) pend HI); [lia|lia|exact He|cbn; discriminate|].
    rewrite Hk. discriminate. }
  assert (Hv1 : vis_entry (S0 :: st_z st) = vis_entry (st_z st)).
  { cbn [vis_entry S0 f_kind frame_node f_children get_repeat_body node_children]. apply vis_push_in_block; assumption. }
  assert (HR1 : R (st_z st1) r) by (rewrite Hz1; apply (R_same (st_z st)); assumption).
  set (bo := o + 6). set (be := bo + 1 + len_block b).
  destruct (sim_body b IHb bo st1 r pend HI1) as (cs_b & Hs12 & Hno & Hyes).
  - eapply pend_out_sub; [exact Hp|unfold bo; lia|unfold bo; fold L; lia].
  - rewrite Hz1. cbn [top_end S0 f_end]. unfold bo. lia.
  - rewrite Hz1. apply (R_same (S0 :: st_z st)); [rewrite <- Hz1; exact HR1|].
    apply vis_push_normal; [intros _; constructor|cbn; discriminate].
  - set (st2 := walk_body (walk_block b) (len_block b) (has_items b) bo st1) in *.
    set (r1 := snd (ref_block r b (bo + 1))) in *.
    set (co := o + 6 + (1 + len_block b) + 6).
    assert (Hsil_b : Forall silent cs_b /\ repeat_first_ok cs_b).
    { destruct (has_items b).
      - destruct (Hyes eq_refl) as (cs_in & -> & _). split; [constructor; [reflexivity|constructor]|cbn; left; reflexivity].
      - destruct (Hno eq_refl) as (-> & _). split; [constructor|exact I]. }
    assert (HI2 : Inv st2 co pend).
    { apply (Inv_step st1 st2 bo be co cs_b _ pend HI1 Hs12); [unfold be; lia|unfold be, bo, co; lia|].
      intros _. exact Hsil_b. }
    assert (Hz2 : st_z st2 = add_children (st_z st1) cs_b) by (apply (step_z _ _ _ _ _ _ Hs12)).
    assert (HR2 : R (st_z st2) r1).
    { rewrite Hz2, Hz1. destruct (has_items b) eqn:Eh.
      - destruct (Hyes eq_refl) as (cs_in & -> & HRin). fold r1 in HRin. rewrite Hz1 in HRin.
        apply (R_same (mkFrame KNormal bo be cs_in :: S0 :: st_z st)); [exact HRin|].
        cbn [add_children with_children S0 f_kind f_start f_end f_children app].
        change (mkFrame KRepeat o (o + L) [NScope KNormal bo be cs_in]) with (with_children S0 [NScope KNormal bo be cs_in]).
        rewrite vis_entry_repeat_body by reflexivity.
        cbn [vis_entry f_kind f_children]. f_equal.
      - destruct (Hno eq_refl) as (-> & ->). unfold r1. cbn [ref_block snd].
        rewrite add_children_nil. rewrite <- Hz1. exact HR1. }
    destruct (IHc co st2 r1 pend HI2) as (cs_c & Hs23 & Hcc).
    + eapply pend_out_sub; [exact Hp|unfold co; lia|unfold co; fold L; lia].
    + rewrite Hz2, top_end_add, Hz1. cbn [top_end S0 f_end]. unfold co. lia.
    + exact HR2.
    + cbn [walk_stat ref_stat]. fold L. fold st1. fold bo. fold st2. fold co.
      change (o + 6 + 1) with (bo + 1).
      destruct (ref_block r b (bo + 1)) as (l_b, r1') eqn:Erb. cbn [fst snd] in *. subst r1.
      exists [NScope KRepeat o (o + L) (cs_b ++ cs_c)]. split.
      * apply (Step_scope st _ KRepeat o (o + L) bo (co + len_expr c)); [exact Hne| |lia|unfold bo; lia|unfold co; lia].
        eapply (Step_seq st1 st2 _ bo be co); [exact Hs12|exact Hs23|unfold be, bo, co; lia|unfold bo, co; lia|unfold be, co; lia].
      * apply R_silent_after; try assumption. constructor; [reflexivity|constructor].
Qed.

(** numeric and generic for: header expressions in the environment of the statement, the body with the loop variables *)
Lemma sim_for : forall es b, P_exprs es -> P_block b ->
  forall (ds : list decl) (add : state -> state) (hl : N) o st r pend,
  let L := hl + len_exprs es + 3 + (1 + len_block b) + 3 in
  let eo := o + hl in
  let bo := eo + len_exprs es + 3 in
  4 <= hl ->
  Forall (fun d => d_kind d <> DGlobal) ds ->
  (forall st1, st_z st1 <> [] -> Step st1 (add st1) (o + 4) eo (map NDecl ds) []) ->
  Inv st o pend -> pend_out pend o (o + L) -> top_kind (st_z st) = KNormal ->
  o + L <= top_end (st_z st) -> R (st_z st) r ->
  exists cs,
    Step st (pop_scope (walk_body (walk_block b) (len_block b) (has_items b) bo
                          (walk_exprs es eo (add (create_scope o (o + L) KForRange st)))))
         o (o + L) cs (ref_exprs r es eo ++ fst (ref_block (env_of (rev ds) ++ r) b (bo + 1)))
    /\ R (add_children (st_z st) cs) r.
Proof.
  intros es b IHes IHb ds add hl o st r pend L eo bo Hhl Hds Hadd HI Hp Hk He HR.
  pose proof (Inv_nonempty _ _ _ HI) as Hne.
  set (st1 := create_scope o (o + L) KForRange st).
  set (st2 := add st1).
  assert (HI1 : Inv st1 (o + 4) pend).
  { apply (Inv_create st o o (o + L) KForRange (o + 4) pend HI); [lia|lia|exact He|cbn; discriminate|].
    rewrite Hk. discriminate. }
  assert (Hs12 : Step st1 st2 (o + 4) eo (map NDecl ds) []) by (apply Hadd; cbn; discriminate).
  assert (HI2 : Inv st2 eo pend).
  { apply (Inv_step st1 st2 (o + 4) eo eo (map NDecl ds) [] pend HI1 Hs12); [unfold eo; lia|lia|]. cbn. discriminate. }
  assert (Hz2 : st_z st2 = mkFrame KForRange o (o + L) (map NDecl ds) :: st_z st).
  { rewrite (step_z _ _ _ _ _ _ Hs12). reflexivity. }
  assert (HR2 : R (st_z st2) r).
  { rewrite Hz2. apply (R_same (st_z st)); [exact HR|]. cbn [vis_entry f_kind]. apply vis_push_in_block; assumption. }
  destruct (IHes eo st2 r pend HI2) as (cs_e & Hs23 & Hce).
  - eapply pend_out_sub; [exact Hp|unfold eo; lia|unfold eo, L; lia].
  - rewrite Hz2. cbn [top_end f_end]. unfold eo, L. lia.
  - exact HR2.
  - set (st3 := walk_exprs es eo st2) in *.
    destruct (chain st2 st3 eo (eo + len_exprs es) cs_e _ r pend bo HI2 Hs23 Hce HR2 ltac:(lia) ltac:(unfold bo; lia))
      as (HI3 & HR3 & Hte3 & _).
    assert (Hz3 : st_z st3 = mkFrame KForRange o (o + L) (map NDecl ds ++ cs_e) :: st_z st).
    { rewrite (step_z _ _ _ _ _ _ Hs23), Hz2. reflexivity. }
    destruct (sim_body b IHb bo st3 (env_of (rev ds) ++ r) pend HI3) as (cs_b & Hs34 & Hno & Hyes).
    + eapply pend_out_sub; [exact Hp|unfold bo, eo; lia|unfold bo, eo, L; lia].
    + rewrite Hz3. cbn [top_end f_end]. unfold bo, eo, L. lia.
    + rewrite Hz3. apply (R_extend (st_z st)); [exact HR|apply Forall_rev; exact Hds|].
      cbn [vis_entry f_kind f_children]. rewrite all_contrib_nil. cbn [app].
      rewrite vis_up_push by (intros E; discriminate). cbn [f_kind kind_eqb negb andb f_children].
      rewrite all_contrib_app, all_contrib_decls, (all_contrib_closures cs_e Hce). cbn [app]. f_equal.
      cbn [vis_entry f_kind]. apply vis_push_in_block; assumption.
    + exists [NScope KForRange o (o + L) (map NDecl ds ++ cs_e ++ cs_b)]. split.
      * apply (Step_scope st _ KForRange o (o + L) (o + 4) (bo + 1 + len_block b));
          [exact Hne| |unfold L; lia|lia|unfold bo, eo, L; lia].
        assert (H13 : Step st1 st3 (o + 4) (eo + len_exprs es) (map NDecl ds ++ cs_e) ([] ++ ref_exprs r es eo)).
        { eapply (Step_seq st1 st2 st3 (o + 4) eo eo); [exact Hs12|exact Hs23|lia|unfold eo; lia|lia]. }
        cbn [app] in H13. rewrite app_assoc.
        eapply (Step_seq st1 st3 _ (o + 4) (eo + len_exprs es) bo); [exact H13|exact Hs34|unfold bo; lia|unfold bo, eo; lia|unfold bo; lia].
      * apply R_silent_after; try assumption. constructor; [reflexivity|constructor].
Qed.

Lemma sim_SFor : forall x es b, P_exprs es -> P_block b -> P_stat (SFor x es b).
Proof.
  intros x es b IHes IHb o st r pend HI Hp Hk He HR. pose proof (nlen_pos x) as Hx.
  cbn [walk_stat ref_stat len_stat fst snd] in *.
  set (d := mkDecl (o + 4) x DLocal).
  destruct (sim_for es b IHes IHb [d] (add_decl d) (4 + nlen x + 3) o st r pend) as (cs & Hs & HRc).
  - lia.
  - constructor; [cbn; discriminate|constructor].
  - intros st1 Hne1. apply Step_add_decl; [exact Hne1|cbn [d_pos d]; lia].
  - exact HI.
  - eapply pend_out_sub; [exact Hp|lia|lia].
  - exact Hk.
  - lia.
  - exact HR.
  - exists cs. split; [|exact HRc].
    replace (o + (4 + nlen x + 3)) with (o + 4 + nlen x + 3) in Hs by lia.
    replace (4 + nlen x + 3 + len_exprs es + 3 + (1 + len_block b) + 3)
      with (4 + nlen x + 3 + len_exprs es + 3 + (1 + len_block b) + 3) in Hs by reflexivity.
    cbn [rev app env_of map d d_name d_pos] in Hs. exact Hs.
Qed.

Lemma sim_SForIn : forall xs es b, P_exprs es -> P_block b -> P_stat (SForIn xs es b).
Proof.
  intros xs es b IHes IHb o st r pend HI Hp Hk He HR.
  cbn [walk_stat ref_stat len_stat fst snd] in *.
  destruct (sim_for es b IHes IHb (name_decls xs (o + 4)) (add_name_decls xs (o + 4)) (4 + len_names xs + 4) o st r pend)
    as (cs & Hs & HRc).
  - lia.
  - apply name_decls_local.
  - intros st1 Hne1. apply Step_add_name_decls; [exact Hne1|lia|lia].
  - exact HI.
  - eapply pend_out_sub; [exact Hp|lia|lia].
  - exact Hk.
  - lia.
  - exact HR.
  - exists cs. split; [|exact HRc].
    replace (o + (4 + len_names xs + 4)) with (o + 4 + len_names xs + 4) in Hs by lia.
    rewrite <- bind_names_env in Hs. exact Hs.
Qed.

(** * function statements *)

Lemma get_decl_last : forall p d ds,
  d_pos d = p -> Forall (fun d0 => d_pos d0 <> p) ds ->
  find (fun d0 => d_pos d0 =? p) (ds ++ [d]) = Some d.
Proof.
  intros p d ds Hd H. induction H as [|a t Ha Ht IH]; cbn [app find].
  - rewrite Hd, N.eqb_refl. reflexivity.
  - destruct (N.eqb_spec (d_pos a) p); [contradiction|exact IH].
Qed.

(** a plain name that resolves to nothing declares a global and refers to it *)
Lemma Step_marker : forall st p p' x,
  st_z st <> [] -> p < p' ->
  Forall (fun d => d_pos d <> p) (st_decls st) -> Forall (fun rf => fst rf <> p) (st_refs st) ->
  Step st (analyze_name_expr x p (add_decl (mkDecl p x DGlobal) st)) p p' [NDecl (mkDecl p x DGlobal)] [(p, None)].
Proof.
  intros st p p' x Hne Hlt Hd Hr. set (g := mkDecl p x DGlobal).
  destruct (st_z st) as [|f z] eqn:Ez; [congruence|].
  unfold analyze_name_expr, get_decl, add_decl. cbv zeta. rewrite Ez. cbn [st_decls].
  rewrite (get_decl_last p g (st_decls st) eq_refl Hd).
  unfold add_ref. cbn [st_refs st_z st_decls st_cells]. rewrite (lookup_ref_fresh p _ Hr).
  constructor; cbn [st_z st_decls st_refs].
  - rewrite Ez. reflexivity.
  - constructor; [|constructor]. cbn [node_pos node_end node_ok node_children g d_pos]. repeat split; try lia; constructor.
  - exists [g]. split; [reflexivity|]. constructor; [cbn [g d_pos]; lia|constructor].
  - exists [(p, g)]. split; [reflexivity|]. constructor; [cbn [fst]; lia|constructor].
  - constructor; [|constructor]. cbn [fst snd]. split; [lia|]. split; [lia|].
    rewrite (lookup_ref_last p g _ Hr). reflexivity.
Qed.

Lemma sim_SFun : forall root fields meth ps b, P_block b -> P_stat (SFun root fields meth ps b).
Proof.
  intros root fields meth ps b IHb o st r pend HI Hp Hk He HR.
  pose proof (Inv_nonempty _ _ _ HI) as Hne. pose proof (nlen_pos root) as Hroot.
  set (L := len_stat (SFun root fields meth ps b)) in *.
  assert (HL : L = 9 + nlen root + len_fields fields + len_meth meth + (1 + len_names ps + 1) + (1 + len_block b) + 3) by reflexivity.
  set (k := match meth with Some _ => KMethodStat | None => KFuncStat end).
  assert (Hkf : is_func k = true) by (unfold k; destruct meth; reflexivity).
  assert (Hkv : k = KFuncStat \/ k = KMethodStat) by (unfold k; destruct meth; auto).
  set (st1 := create_scope o (o + L) k st).
  set (S0 := mkFrame k o (o + L) []).
  assert (Hz1 : st_z st1 = S0 :: st_z st) by reflexivity.
  assert (HI1 : Inv st1 (o + 9) pend).
  { apply (Inv_create st o o (o + L) k (o + 9) pend HI); [lia|lia|exact He|intros _; lia|].
    rewrite Hk. discriminate. }
  assert (Hv1 : forall ch, vis_entry (mkFrame k o (o + L) ch :: st_z st) = all_contrib ch ++ vis_entry (st_z st)).
  { intros ch. assert (Hu : vis_up (mkFrame k o (o + L) ch) (st_z st) = vis_entry (st_z st)) by (apply vis_push_in_block; assumption).
    cbn [vis_entry f_kind f_children]. destruct Hkv as [-> | ->]; rewrite Hu; reflexivity. }
  assert (HR1 : R (st_z st1) r).
  { rewrite Hz1. apply (R_same (st_z st)); [exact HR|]. unfold S0. rewrite Hv1. reflexivity. }
  set (p := o + 9).
  set (g := mkDecl p root DGlobal).
  set (st2 := match fields, meth with
              | [], None => match find_decl root p st1 with
                            | None => add_decl g st1
                            | Some _ => st1
                            end
              | _, _ => st1
              end).
  set (st3 := analyze_name_expr root p st2).
  assert (Hpn : ~ In p pend) by (eapply pend_out_notin; [exact Hp|unfold p; lia|unfold p; fold L; lia]).
  assert (Hfd : Forall (fun d => d_pos d <> p) (st_decls st1))
    by (eapply Forall_fresh; [apply (inv_decls _ _ _ HI1)|unfold p; lia|exact Hpn]).
  assert (Hfr : Forall (fun rf => fst rf <> p) (st_refs st1))
    by (eapply Forall_fresh; [apply (inv_refs _ _ _ HI1)|unfold p; lia|exact Hpn]).
  assert (Hplain : Step st1 (analyze_name_expr root p st1) p (p + nlen root) [] [(p, lookup root r)]).
  { apply (sim_name root p st1 r pend HI1 Hpn); [|exact HR1]. rewrite Hz1. cbn [top_end S0 f_end]. unfold p. lia. }
  assert (H13 : exists cs3,
             Step st1 st3 p (p + nlen root) cs3 [(p, lookup root r)]
             /\ (cs3 = [] \/ cs3 = [NDecl g] /\ lookup root r = None)).
  { unfold st3, st2. destruct fields as [|f1 fr]; [|exists []; split; [exact Hplain|left; reflexivity]].
    destruct meth as [m|]; [exists []; split; [exact Hplain|left; reflexivity]|].
    destruct (find_decl_R st1 p root r pend HI1 ltac:(rewrite Hz1; cbn [top_end S0 f_end]; unfold p; lia) HR1) as (_ & Hcl & _).
    destruct (find_decl root p st1) as [d0|] eqn:Efd; [exists []; split; [exact Hplain|left; reflexivity]|].
    cbn [classify] in Hcl. exists [NDecl g]. split; [|right; split; [reflexivity|symmetry; exact Hcl]].
    rewrite <- Hcl. apply Step_marker; [cbn; discriminate|lia|exact Hfd|exact Hfr]. }
  destruct H13 as (cs3 & Hs13 & Hcs3).
  set (colon := o + 9 + nlen root + len_fields fields).
  set (po := colon + len_meth meth).
  set (self := match meth with Some _ => Some colon | None => None end).
  assert (HI3 : Inv st3 po pend).
  { apply (Inv_step st1 st3 p (p + nlen root) po cs3 _ pend HI1 Hs13); [lia|unfold po, colon, p; lia|]. cbn. unfold k. destruct meth; discriminate. }
  assert (Hz3 : st_z st3 = mkFrame k o (o + L) cs3 :: st_z st).
  { rewrite (step_z _ _ _ _ _ _ Hs13). reflexivity. }
  assert (Hmark : forall z', vis_entry z' = all_contrib cs3 ++ vis_entry (st_z st) -> R z' r).
  { intros z' Hv. destruct Hcs3 as [-> | (-> & Hnone)].
    - apply (R_same (st_z st)); [exact HR|exact Hv].
    - apply (R_markers (st_z st) z' r [g]); [exact HR|constructor; [split; [reflexivity|exact Hnone]|constructor]|].
      rewrite Hv, all_contrib_one. reflexivity. }
  assert (HR3 : R (st_z st3) r) by (apply Hmark; rewrite Hz3; apply Hv1).
  destruct (sim_closure b IHb self ps po (o + L) po st3 r pend HI3) as (cl & Hs34 & Hcl).
  - eapply pend_out_sub; [exact Hp|unfold po, colon; lia|fold L; lia].
  - lia.
  - unfold po, colon. lia.
  - rewrite Hz3. cbn [top_end f_end]. lia.
  - intros c E. unfold self in E. destruct meth as [m|]; [|discriminate]. injection E as <-.
    unfold po. cbn [len_meth]. pose proof (nlen_pos m). lia.
  - exact HR3.
  - assert (Hfin : exists cs,
               Step st (pop_scope (walk_closure (walk_block b) (len_block b) (has_items b) self ps po (o + L) po st3)) o (o + L) cs
                    ((p, lookup root r) :: fst (ref_block (bind_names ps (po + 1) (self_env self r)) b (po + (1 + len_names ps + 1) + 1)))
               /\ R (add_children (st_z st) cs) r).
    { exists [NScope k o (o + L) (cs3 ++ [cl])]. split.
      + apply (Step_scope st _ k o (o + L) p (o + L)); [exact Hne| |lia|unfold p; lia|lia].
        change ((p, lookup root r) :: fst (ref_block (bind_names ps (po + 1) (self_env self r)) b (po + (1 + len_names ps + 1) + 1)))
          with ([(p, lookup root r)] ++ fst (ref_block (bind_names ps (po + 1) (self_env self r)) b (po + (1 + len_names ps + 1) + 1))).
        eapply (Step_seq st1 st3 _ p (p + nlen root) po); [exact Hs13|exact Hs34|unfold po, colon, p; lia|unfold po, colon, p; lia|unfold po, colon, p; lia].
      + apply Hmark. rewrite vis_add_normal by assumption. f_equal. rewrite all_contrib_one.
        destruct Hcl as (s' & e' & cs' & ->).
        assert (Hd : decls_of (cs3 ++ [NScope KClosure s' e' cs']) = decls_of cs3)
          by (rewrite decls_of_app; cbn [decls_of flat_map app]; apply app_nil_r).
        destruct Hkv as [Hk1 | Hk1]; rewrite Hk1;
          cbn [contrib visit_child_scope node_kind node_children]; rewrite Hd;
          destruct Hcs3 as [-> | (-> & _)]; reflexivity. }
    clear - Hfin. subst self po colon st3 st2 st1 k g p L.
    destruct meth; exact Hfin.
Qed.

(** * assignment statements: analyze_assign_stat handles the plain-name targets before the targets are walked *)

Fixpoint targets (vs : exprs) (o : N) : list (N * name) :=
  match vs with
  | ENil => []
  | ECons v r => match v with EName x => [(o, x)] | _ => [] end ++ targets r (o + len_expr v + 2)
  end.

Lemma len_exprs_cons : forall e es,
  len_exprs (ECons e es) = len_expr e + match es with ENil => 0 | ECons _ _ => 2 + len_exprs es end.
Proof. reflexivity. Qed.


Lemma find_app_gen : forall A (f : A -> bool) a b,
  find f (a ++ b) = match find f a with Some v => Some v | None => find f b end.
Proof.
  intros A f a b. induction a as [|c t IH]; [reflexivity|].
  cbn [app find]. destruct (f c); [reflexivity|exact IH].
Qed.

Lemma find_none_all : forall A (f : A -> bool) l, Forall (fun a => f a = false) l -> find f l = None.
Proof. intros A f l H. induction H as [|a t Ha Ht IH]; [reflexivity|]. cbn [find]. rewrite Ha. exact IH. Qed.

Definition tgt_ok (st : state) (r : env) (px : N * name) : Prop :=
  (get_decl (fst px) st = None /\
   exists d, lookup_ref (fst px) (st_refs st) = Some d /\ classify (Some d) = lookup (snd px) r)
  \/ (exists m, get_decl (fst px) st = Some m /\ d_kind m = DGlobal /\
                lookup_ref (fst px) (st_refs st) = None /\ lookup (snd px) r = None).

Lemma tgt_ok_stable : forall st st' r px ds rs,
  tgt_ok st r px ->
  st_decls st' = st_decls st ++ ds -> Forall (fun d => d_pos d <> fst px) ds ->
  st_refs st' = st_refs st ++ rs -> Forall (fun rf => fst rf <> fst px) rs ->
  tgt_ok st' r px.
Proof.
  intros st st' r px ds rs H Hd Hds Hr Hrs.
  assert (Hfd : find (fun d => d_pos d =? fst px) ds = None).
  { apply find_none_all. eapply Forall_impl; [|exact Hds]. cbv beta. intros a Ha. apply N.eqb_neq. exact Ha. }
  assert (Hg : get_decl (fst px) st' = match get_decl (fst px) st with Some v => Some v | None => None end).
  { unfold get_decl. rewrite Hd, find_app_gen, Hfd. reflexivity. }
  assert (Hl : lookup_ref (fst px) (st_refs st') = lookup_ref (fst px) (st_refs st)).
  { rewrite Hr, lookup_ref_app, (lookup_ref_fresh _ rs Hrs). destruct (lookup_ref (fst px) (st_refs st)); reflexivity. }
  destruct H as [(H1 & d & H2 & H3) | (m & H1 & H2 & H3 & H4)].
  - left. split; [rewrite Hg, H1; reflexivity|]. exists d. split; [rewrite Hl; exact H2|exact H3].
  - right. exists m. split; [rewrite Hg, H1; reflexivity|]. split; [exact H2|]. split; [rewrite Hl; exact H3|exact H4].
Qed.

Lemma Step_have_ref : forall st p p' res,
  p < p' -> classify (lookup_ref p (st_refs st)) = res -> Step st st p p' [] [(p, res)].
Proof.
  intros st p p' res Hlt Hres. constructor.
  - symmetry. apply add_children_nil.
  - constructor.
  - exists []. rewrite app_nil_r. split; [reflexivity|constructor].
  - exists []. rewrite app_nil_r. split; [reflexivity|constructor].
  - constructor; [|constructor]. cbn [fst snd]. split; [lia|]. split; [lia|exact Hres].
Qed.

Lemma Step_add_ref_none : forall st p e p' d res,
  lookup_ref p (st_refs st) = None -> p < p' -> classify (Some d) = res ->
  Step st (add_ref p e d st) p p' [] [(p, res)].
Proof.
  intros st p e p' d res Hn Hlt Hres. unfold add_ref. rewrite Hn.
  constructor; cbn [st_z st_decls st_refs].
  - symmetry. apply add_children_nil.
  - constructor.
  - exists []. rewrite app_nil_r. split; [reflexivity|constructor].
  - exists [(p, d)]. split; [reflexivity|]. constructor; [cbn; lia|constructor].
  - constructor; [|constructor]. cbn [fst snd]. split; [lia|]. split; [lia|].
    rewrite lookup_ref_app, Hn. unfold lookup_ref. cbn [find fst snd]. rewrite N.eqb_refl. exact Hres.
Qed.

Lemma add_ref_noop : forall p e d d' st, lookup_ref p (st_refs st) = Some d' -> add_ref p e d st = st.
Proof. intros p e d d' st H. unfold add_ref. rewrite H. reflexivity. Qed.

Lemma analyze_noop : forall x p st d',
  get_decl p st = None -> lookup_ref p (st_refs st) = Some d' -> analyze_name_expr x p st = st.
Proof.
  intros x p st d' Hg Hl. unfold analyze_name_expr. cbv zeta. rewrite Hg.
  destruct (find_decl x p st) as [d|]; [|reflexivity].
  destruct (is_local d); [apply (add_ref_noop p _ d d' st Hl)|].
  destruct (d_pos d =? p); [reflexivity|apply (add_ref_noop p _ d d' st Hl)].
Qed.

Lemma Step_seq_nil : forall st st1 st2 o o1 o' o2 cs1 cs2 L2,
  Step st st1 o o1 cs1 [] -> Step st1 st2 o' o2 cs2 L2 -> o <= o' -> o1 <= o2 ->
  Step st st2 o o2 (cs1 ++ cs2) L2.
Proof.
  intros st st1 st2 o o1 o' o2 cs1 cs2 L2 [Hz1 Hc1 (ds1 & Hd1 & Hdb1) (rs1 & Hr1 & Hrb1) _]
         [Hz2 Hc2 (ds2 & Hd2 & Hdb2) (rs2 & Hr2 & Hrb2) Hres2] H1 H2.
  constructor.
  - rewrite Hz2, Hz1. apply add_children_app.
  - apply before_app; [eapply before_mono; [exact Hc1|lia]|exact Hc2].
  - exists (ds1 ++ ds2). split; [rewrite Hd2, Hd1, app_assoc; reflexivity|].
    apply Forall_app. split; [|exact Hdb2]. eapply Forall_impl; [|exact Hdb1]. cbv beta. intros; lia.
  - exists (rs1 ++ rs2). split; [rewrite Hr2, Hr1, app_assoc; reflexivity|].
    apply Forall_app. split.
    + eapply Forall_impl; [|exact Hrb1]. cbv beta. intros; lia.
    + eapply Forall_impl; [|exact Hrb2]. cbv beta. intros; lia.
  - eapply Forall_impl; [|exact Hres2]. cbv beta. intros pr (Ha & Hb & Hc). split; [lia|]. split; [lia|exact Hc].
Qed.

Lemma Inv_drop : forall st o a pend, Inv st o (a ++ pend) -> Forall (fun q => q < o) a -> Inv st o pend.
Proof.
  intros st o a pend [Hz Hs Hd Hr] Ha. rewrite Forall_forall in Ha. constructor; try assumption.
  - eapply Forall_impl; [|exact Hd]. cbv beta. intros d [H|H]; [left; exact H|].
    apply in_app_or in H. destruct H as [H|H]; [left; apply Ha; exact H|right; exact H].
  - eapply Forall_impl; [|exact Hr]. cbv beta. intros d [H|H]; [left; exact H|].
    apply in_app_or in H. destruct H as [H|H]; [left; apply Ha; exact H|right; exact H].
Qed.

Lemma targets_bounds : forall vs o, Forall (fun px => o <= fst px /\ fst px < o + len_exprs vs) (targets vs o).
Proof.
  induction vs as [|v r IH]; intros o; [constructor|].
  cbn [targets]. rewrite len_exprs_cons. apply Forall_app. split.
  - destruct v; try constructor; [|constructor]. cbn [fst len_expr]. pose proof (nlen_pos x). split; [lia|destruct r; lia].
  - destruct r as [|v2 r2]; [constructor|].
    eapply Forall_impl; [|apply IH]. cbv beta. intros px (H1 & H2). split; lia.
Qed.

Definition var_step (v : expr) (o : N) (st : state) : state :=
  match v with
  | EName x => match find_decl x o st with
               | Some d => add_ref o (o + nlen x) d st
               | None => add_decl (mkDecl o x DGlobal) st
               end
  | _ => st
  end.

Lemma analyze_assign_vars_cons : forall v r o st,
  analyze_assign_vars (ECons v r) o st = analyze_assign_vars r (o + len_expr v + 2) (var_step v o st).
Proof. intros. destruct v; reflexivity. Qed.

Lemma R_loa_children : forall z cs r,
  top_kind z = KLocalOrAssign -> z <> [] -> R z r -> R (add_children z cs) r.
Proof.
  intros [|f z] cs r Hk Hne HR; [congruence|]. apply (R_same (f :: z)); [exact HR|].
  cbn [add_children top_kind] in *. apply vis_entry_add_skip. left. exact Hk.
Qed.

(** one target in the first pass *)
Lemma pass1_one : forall v o st r pend,
  Inv st o pend -> ~ In o pend -> top_kind (st_z st) = KLocalOrAssign ->
  o + len_expr v <= top_end (st_z st) -> R (st_z st) r ->
  exists ms rs,
    st_z (var_step v o st) = add_children (st_z st) (map NDecl ms) /\
    st_decls (var_step v o st) = st_decls st ++ ms /\
    st_refs (var_step v o st) = st_refs st ++ rs /\
    Forall (fun m => d_pos m = o /\ d_kind m = DGlobal /\ lookup (d_name m) r = None) ms /\
    Forall (fun rf => fst rf = o) rs /\
    (forall x, v = EName x -> tgt_ok (var_step v o st) r (o, x)) /\
    ((exists x, v = EName x) \/ (ms = [] /\ rs = [])).
Proof.
  intros v o st r pend HI Hpn Hk He HR.
  assert (Hnone : forall st0, st0 = st -> exists ms rs,
             st_z st0 = add_children (st_z st) (map NDecl ms) /\ st_decls st0 = st_decls st ++ ms /\
             st_refs st0 = st_refs st ++ rs /\
             Forall (fun m => d_pos m = o /\ d_kind m = DGlobal /\ lookup (d_name m) r = None) ms /\
             Forall (fun rf => fst rf = o) rs /\ ms = [] /\ rs = []).
  { intros st0 ->. exists (@nil decl). exists (@nil (N * decl)). cbn [map]. rewrite add_children_nil, !app_nil_r. repeat split; constructor. }
  destruct v as [n|x|e1 f1|f1 args|a1 b1|ps1 b1|n2|es2|e2 m2 args2]; cbn [var_step];
    try solve [destruct (Hnone st eq_refl) as (ms & rs & H1 & H2 & H3 & H4 & H5 & H6 & H7); exists ms, rs;
               split; [exact H1|]; split; [exact H2|]; split; [exact H3|]; split; [exact H4|]; split; [exact H5|];
               split; [intros ? E; discriminate|right; split; assumption]].
  cbn [var_step len_expr] in *. pose proof (nlen_pos x) as Hx.
  assert (Hfd : Forall (fun d => d_pos d <> o) (st_decls st))
    by (eapply Forall_fresh; [apply (inv_decls _ _ _ HI)|lia|exact Hpn]).
  assert (Hfr : Forall (fun rf => fst rf <> o) (st_refs st))
    by (eapply Forall_fresh; [apply (inv_refs _ _ _ HI)|lia|exact Hpn]).
  destruct (find_decl_R st o x r pend HI ltac:(lia) HR) as (_ & Hcl & _).
  pose proof (Inv_nonempty _ _ _ HI) as Hne.
  destruct (find_decl x o st) as [d|] eqn:Efd.
  - exists (@nil decl). exists [(o, d)]. rewrite add_ref_fresh by exact Hfr. cbn [st_z st_decls st_refs map].
    split; [rewrite add_children_nil; reflexivity|]. split; [rewrite app_nil_r; reflexivity|].
    split; [reflexivity|]. split; [constructor|]. split; [constructor; [reflexivity|constructor]|].
    split; [|left; exists x; reflexivity].
    intros x1 E. injection E as <-. left. cbn [fst snd st_decls st_refs].
    split; [apply get_decl_fresh; exact Hfd|]. exists d. split; [apply lookup_ref_last; exact Hfr|exact Hcl].
  - set (g := mkDecl o x DGlobal). cbn [classify] in Hcl.
    exists [g]. exists (@nil (N * decl)). destruct (st_z st) as [|f z] eqn:Ez; [congruence|].
    unfold add_decl. rewrite Ez. cbn [st_z st_decls st_refs map].
    split; [reflexivity|]. split; [reflexivity|]. split; [rewrite app_nil_r; reflexivity|].
    split; [constructor; [|constructor]; split; [reflexivity|split; [reflexivity|symmetry; exact Hcl]]|].
    split; [constructor|].
    split; [|left; exists x; reflexivity].
    intros x1 E. injection E as <-. right. exists g. cbn [fst snd st_decls st_refs].
    split; [unfold get_decl; cbn [st_decls]; apply get_decl_last; [reflexivity|exact Hfd]|].
    split; [reflexivity|]. split; [apply lookup_ref_fresh; exact Hfr|symmetry; exact Hcl].
Qed.

Lemma len_exprs_cons2 : forall v v2 r2, len_exprs (ECons v (ECons v2 r2)) = len_expr v + 2 + len_exprs (ECons v2 r2).
Proof. intros. cbn [len_exprs]. lia. Qed.

(** the first pass over the targets *)
Lemma pass1 : forall vs o st r pend,
  Inv st o pend -> pend_out pend o (o + len_exprs vs) -> top_kind (st_z st) = KLocalOrAssign ->
  (vs <> ENil -> o + len_exprs vs <= top_end (st_z st)) -> R (st_z st) r ->
  exists ms rs,
    st_z (analyze_assign_vars vs o st) = add_children (st_z st) (map NDecl ms) /\
    st_decls (analyze_assign_vars vs o st) = st_decls st ++ ms /\
    st_refs (analyze_assign_vars vs o st) = st_refs st ++ rs /\
    Forall (fun m => In (d_pos m) (map fst (targets vs o)) /\ d_kind m = DGlobal /\ lookup (d_name m) r = None) ms /\
    Forall (fun rf => In (fst rf) (map fst (targets vs o))) rs /\
    Forall (tgt_ok (analyze_assign_vars vs o st) r) (targets vs o).
Proof.
  induction vs as [|v rest IH]; intros o st r pend HI Hp Hk He HR.
  - exists (@nil decl). exists (@nil (N * decl)). cbn [analyze_assign_vars map targets]. rewrite add_children_nil, !app_nil_r.
    repeat split; constructor.
  - rewrite analyze_assign_vars_cons. pose proof (Inv_nonempty _ _ _ HI) as Hne.
    specialize (He ltac:(discriminate)). rewrite len_exprs_cons in He, Hp.
    assert (Hlv : o + len_expr v <= top_end (st_z st)) by (destruct rest; lia).
    assert (Hpn : forall x, v = EName x -> ~ In o pend).
    { intros x ->. pose proof (nlen_pos x). eapply pend_out_notin; [exact Hp|lia|cbn [len_expr]; destruct rest; lia]. }
    set (st1 := var_step v o st).
    set (o' := o + len_expr v + 2).
    (* the effect of the first target *)
    assert (H1 : exists ms1 rs1,
               st_z st1 = add_children (st_z st) (map NDecl ms1) /\ st_decls st1 = st_decls st ++ ms1 /\
               st_refs st1 = st_refs st ++ rs1 /\
               Forall (fun m => d_pos m = o /\ d_kind m = DGlobal /\ lookup (d_name m) r = None) ms1 /\
               Forall (fun rf => fst rf = o) rs1 /\
               (forall x, v = EName x -> tgt_ok st1 r (o, x)) /\
               ((exists x, v = EName x) \/ (ms1 = [] /\ rs1 = []))).
    { destruct v as [n|x|e1 f1|f1 args|a1 b1|ps1 b1|n2|es2|e2 m2 args2];
        try (exists (@nil decl); exists (@nil (N * decl)); unfold st1; cbn [var_step map];
             rewrite add_children_nil, !app_nil_r;
             split; [reflexivity|]; split; [reflexivity|]; split; [reflexivity|]; split; [constructor|];
             split; [constructor|]; split; [intros ? E; discriminate|right; split; reflexivity]).
      apply (pass1_one (EName x) o st r pend HI (Hpn x eq_refl) Hk Hlv HR). }
    destruct H1 as (ms1 & rs1 & Hz1 & Hd1 & Hr1 & Hm1 & Hrf1 & Htg1 & Hname).
    assert (Hstep1 : Step st st1 o o' (map NDecl ms1) []).
    { constructor.
      - exact Hz1.
      - apply Forall_forall. intros c Hc. apply in_map_iff in Hc. destruct Hc as (m & <- & Hm).
        rewrite Forall_forall in Hm1. destruct (Hm1 m Hm) as (Hpos & _).
        cbn [node_pos node_end node_ok node_children]. rewrite Hpos. unfold o'. repeat split; try lia; constructor.
      - exists ms1. split; [exact Hd1|]. eapply Forall_impl; [|exact Hm1]. cbv beta. intros m (Hpos & _). unfold o'. lia.
      - exists rs1. split; [exact Hr1|]. eapply Forall_impl; [|exact Hrf1]. cbv beta. intros rf Hrf. unfold o'. lia.
      - constructor. }
    assert (HI1 : Inv st1 o' pend).
    { apply (Inv_step st st1 o o' o' (map NDecl ms1) [] pend HI Hstep1); [unfold o'; lia|lia|]. rewrite Hk. discriminate. }
    assert (HR1 : R (st_z st1) r) by (rewrite Hz1; apply R_loa_children; assumption).
    assert (Hk1 : top_kind (st_z st1) = KLocalOrAssign) by (rewrite Hz1, top_kind_add; exact Hk).
    assert (Hte1 : top_end (st_z st1) = top_end (st_z st)) by (rewrite Hz1; apply top_end_add).
    destruct (IH o' st1 r pend HI1) as (ms2 & rs2 & Hz2 & Hd2 & Hr2 & Hm2 & Hrf2 & Htg2).
    + destruct rest as [|v2 r2]; [cbn [len_exprs]; apply Forall_forall; intros q _; lia|].
      eapply pend_out_sub; [exact Hp|unfold o'; lia|unfold o'; lia].
    + exact Hk1.
    + intros Hn. rewrite Hte1. destruct rest as [|v2 r2]; [congruence|]. unfold o'. lia.
    + exact HR1.
    + fold st1. fold o'.
      assert (Hb2 : Forall (fun px => o' <= fst px) (targets rest o')).
      { eapply Forall_impl; [|apply targets_bounds]. cbv beta. intros px (H & _). exact H. }
      assert (Hin2 : forall q, In q (map fst (targets rest o')) -> q <> o).
      { intros q Hq. apply in_map_iff in Hq. destruct Hq as (px & <- & Hpx).
        rewrite Forall_forall in Hb2. specialize (Hb2 px Hpx). unfold o' in Hb2. lia. }
      set (hd := match v with EName x => [(o, x)] | _ => [] end).
      assert (Hin1 : Forall (fun m => In (d_pos m) (map fst hd)) ms1 /\ Forall (fun rf : N * decl => In (fst rf) (map fst hd)) rs1).
      { destruct Hname as [(x & ->)|(-> & ->)]; [|split; constructor]. unfold hd. cbn [map fst]. split.
        - eapply Forall_impl; [|exact Hm1]. cbv beta. intros m (Hpos & _). left. symmetry. exact Hpos.
        - eapply Forall_impl; [|exact Hrf1]. cbv beta. intros rf Hrf. left. symmetry. exact Hrf. }
      destruct Hin1 as (Hin1m & Hin1r).
      exists (ms1 ++ ms2). exists (rs1 ++ rs2).
      split; [rewrite Hz2, Hz1, add_children_app, map_app; reflexivity|].
      split; [rewrite Hd2, Hd1, app_assoc; reflexivity|].
      split; [rewrite Hr2, Hr1, app_assoc; reflexivity|].
      cbn [targets]. fold o'. fold hd. rewrite map_app.
      split; [|split].
      * apply Forall_app. split.
        -- rewrite Forall_forall in Hm1, Hin1m. apply Forall_forall. intros m Hm.
           destruct (Hm1 m Hm) as (_ & Hrest). split; [apply in_or_app; left; apply Hin1m; exact Hm|exact Hrest].
        -- eapply Forall_impl; [|exact Hm2]. cbv beta. intros m (Hin & Hrest). split; [apply in_or_app; right; exact Hin|exact Hrest].
      * apply Forall_app. split.
        -- eapply Forall_impl; [|exact Hin1r]. cbv beta. intros rf Hin. apply in_or_app. left. exact Hin.
        -- eapply Forall_impl; [|exact Hrf2]. cbv beta. intros rf Hin. apply in_or_app. right. exact Hin.
      * apply Forall_app. split; [|exact Htg2]. unfold hd.
        destruct v as [n|x|e1 f1|f1 args|a1 b1|ps1 b1|n2|es2|e2 m2 args2]; try constructor; [|constructor].
        apply (tgt_ok_stable st1 _ r (o, x) ms2 rs2 (Htg1 x eq_refl) Hd2); [|exact Hr2|].
        -- eapply Forall_impl; [|exact Hm2]. cbv beta. intros m (Hin & _). cbn [fst]. apply Hin2. exact Hin.
        -- eapply Forall_impl; [|exact Hrf2]. cbv beta. intros rf Hin. cbn [fst]. apply Hin2. exact Hin.
Qed.

Fixpoint all_exprs (P : expr -> Prop) (es : exprs) : Prop :=
  match es with
  | ENil => True
  | ECons e r => P e /\ all_exprs P r
  end.

(** the second pass: the targets are walked; the plain names were resolved by the first pass *)
Lemma pass2 : forall vs, all_exprs P_expr vs -> forall o st r pend,
  Inv st o pend ->
  Forall (fun q => q < o \/ o + len_exprs vs <= q \/ In q (map fst (targets vs o))) pend ->
  (vs <> ENil -> o + len_exprs vs <= top_end (st_z st)) -> R (st_z st) r ->
  Forall (tgt_ok st r) (targets vs o) ->
  exists cs, Step st (walk_exprs vs o st) o (o + len_exprs vs) cs (ref_exprs r vs o) /\ Forall closure_node cs.
Proof.
  induction vs as [|v rest IH]; intros Hall o st r pend HI Hp He HR Htg.
  - exists []. split; [|constructor]. cbn [walk_exprs ref_exprs]. apply Step_refl.
  - destruct Hall as (IHv & Hall). specialize (He ltac:(discriminate)).
    cbn [walk_exprs ref_exprs targets] in *. rewrite len_exprs_cons in *.
    set (o' := o + len_expr v + 2) in *.
    assert (Hlv : o + len_expr v <= top_end (st_z st)) by (destruct rest; lia).
    apply Forall_app in Htg. destruct Htg as (Htg1 & Htg2).
    (* the first target *)
    assert (H1 : exists cs1, Step st (walk_expr v o st) o (o + len_expr v) cs1 (ref_expr r v o) /\ Forall closure_node cs1).
    { assert (Hother : (forall x, v <> EName x) ->
                       exists cs1, Step st (walk_expr v o st) o (o + len_expr v) cs1 (ref_expr r v o) /\ Forall closure_node cs1).
      { intros Hnn. apply (IHv o st r pend HI); [|exact Hlv|exact HR].
        eapply Forall_impl; [|exact Hp]. cbv beta. intros q [Hq|[Hq|Hq]].
        - left. exact Hq.
        - right. destruct rest; lia.
        - right. destruct v; try (exfalso; eapply Hnn; reflexivity); cbn [app] in Hq;
            apply in_map_iff in Hq; destruct Hq as (px & <- & Hpx);
            pose proof (targets_bounds rest o') as Hb; rewrite Forall_forall in Hb; destruct (Hb px Hpx) as (Hb1 & _);
            unfold o' in Hb1; lia. }
      destruct v as [n|x|e1 f1|f1 args|a1 b1|ps1 b1|n2|es2|e2 m2 args2]; try (apply Hother; intros x0 E; discriminate).
      inversion Htg1 as [|? ? Hok _]; subst. pose proof (nlen_pos x) as Hx. cbn [walk_expr ref_expr len_expr].
      exists []. split; [|constructor].
      destruct Hok as [(Hg & d & Hl & Hc) | (m & Hg & Hkm & Hl & Hn)]; cbn [fst snd] in *.
      - rewrite (analyze_noop x o st d Hg Hl). apply Step_have_ref; [lia|]. rewrite Hl. exact Hc.
      - unfold analyze_name_expr. cbv zeta. rewrite Hg. apply Step_add_ref_none; [exact Hl|lia|].
        cbn [classify]. rewrite Hkm. symmetry. exact Hn. }
    destruct H1 as (cs1 & Hs1 & Hc1).
    destruct rest as [|v2 r2].
    + cbn [walk_exprs ref_exprs]. rewrite app_nil_r, N.add_0_r. exists cs1. split; assumption.
    + remember (ECons v2 r2) as rest eqn:Erest.
      destruct (chain st _ o (o + len_expr v) cs1 _ r pend o' HI Hs1 Hc1 HR ltac:(lia) ltac:(unfold o'; lia))
        as (HI1 & HR1 & Hte & _).
      destruct (IH Hall o' (walk_expr v o st) r pend HI1) as (cs2 & Hs2 & Hc2).
      * eapply Forall_impl; [|exact Hp]. cbv beta. intros q [Hq|[Hq|Hq]].
        -- left. unfold o'. lia.
        -- right. left. unfold o'. lia.
        -- rewrite map_app in Hq. apply in_app_or in Hq. destruct Hq as [Hq|Hq]; [|right; right; exact Hq].
           left. destruct v; cbn [map fst In] in Hq; try contradiction. destruct Hq as [<-|[]]. unfold o'. lia.
      * intros _. rewrite Hte. unfold o'. lia.
      * exact HR1.
      * destruct Hs1 as [_ _ (ds1 & Hd1 & Hdb1) (rs1 & Hr1 & Hrb1) _].
        pose proof (targets_bounds rest o') as Hb. rewrite Forall_forall in Hb.
        apply Forall_forall. intros px Hpx. rewrite Forall_forall in Htg2.
        apply (tgt_ok_stable st _ r px ds1 rs1 (Htg2 px Hpx) Hd1); [|exact Hr1|].
        -- eapply Forall_impl; [|exact Hdb1]. cbv beta. intros d Hd. destruct (Hb px Hpx) as (Hb1 & _). unfold o' in Hb1. lia.
        -- eapply Forall_impl; [|exact Hrb1]. cbv beta. intros rf (_ & Hrf). destruct (Hb px Hpx) as (Hb1 & _). unfold o' in Hb1. lia.
      * exists (cs1 ++ cs2). split; [|apply Forall_app; split; assumption].
        eapply Step_widen; [eapply (Step_seq st _ _ o (o + len_expr v) o'); [exact Hs1|exact Hs2| | | ]| |];
          unfold o'; lia.
Qed.

Lemma Inv_pending : forall st st' o pend T ms rs,
  Inv st o pend -> top_kind (st_z st) = KLocalOrAssign ->
  st_z st' = add_children (st_z st) (map NDecl ms) ->
  st_decls st' = st_decls st ++ ms -> st_refs st' = st_refs st ++ rs ->
  Forall (fun m => In (d_pos m) T) ms -> Forall (fun rf => In (fst rf) T) rs ->
  Inv st' o (T ++ pend).
Proof.
  intros st st' o pend T ms rs [Hz Hsil Hd Hr] Hk Hz' Hd' Hr' Hms Hrs.
  destruct (st_z st) as [|[k s e cs0] z] eqn:Ez; [destruct Hz|].
  cbn [top_kind f_kind] in Hk. subst k.
  destruct Hz as (Hb & Hs & Hf & Hrp & Hsp).
  unfold add_children, with_children in Hz'. cbn [f_kind f_start f_end f_children] in *.
  constructor.
  - rewrite Hz'. cbn [zinv f_kind f_start f_end f_children].
    split; [|split; [exact Hs|split; [intros E; discriminate|split; [intros E; discriminate|]]]].
    + unfold frame_before in *. cbn [f_kind f_children kind_eqb] in *. apply Forall_app. split; [exact Hb|].
      apply Forall_forall. intros c Hc. apply in_map_iff in Hc. destruct Hc as (m & <- & _). exact I.
    + eapply spine_ok_same; [| | |exact Hsp]; reflexivity.
  - rewrite Hz'. inversion Hsil as [|? ? Hsf Hsz]; subst. constructor; [|exact Hsz]. intros E. discriminate.
  - rewrite Hd'. apply Forall_app. split.
    + eapply Forall_impl; [|exact Hd]. cbv beta. intros d [H|H]; [left; exact H|right; apply in_or_app; right; exact H].
    + eapply Forall_impl; [|exact Hms]. cbv beta. intros m H. right. apply in_or_app. left. exact H.
  - rewrite Hr'. apply Forall_app. split.
    + eapply Forall_impl; [|exact Hr]. cbv beta. intros d [H|H]; [left; exact H|right; apply in_or_app; right; exact H].
    + eapply Forall_impl; [|exact Hrs]. cbv beta. intros m H. right. apply in_or_app. left. exact H.
Qed.

Lemma sim_SAssign : forall vs es, all_exprs P_expr vs -> P_exprs es -> P_stat (SAssign vs es).
Proof.
  intros vs es Hall IHes o st r pend HI Hp Hk He HR.
  pose proof (Inv_nonempty _ _ _ HI) as Hne.
  set (L := len_stat (SAssign vs es)) in *.
  assert (HL : L = len_exprs vs + 3 + len_exprs es) by reflexivity.
  set (st1 := create_scope o (o + L) KLocalOrAssign st).
  assert (Hz1 : st_z st1 = mkFrame KLocalOrAssign o (o + L) [] :: st_z st) by reflexivity.
  assert (HI1 : Inv st1 o pend).
  { apply (Inv_create st o o (o + L) KLocalOrAssign o pend HI); [lia|lia|exact He|cbn; discriminate|].
    rewrite Hk. discriminate. }
  assert (HR1 : R (st_z st1) r).
  { rewrite Hz1. apply (R_same (st_z st)); [exact HR|]. cbn [vis_entry f_kind]. apply vis_push_in_block; assumption. }
  assert (Hk1 : top_kind (st_z st1) = KLocalOrAssign) by reflexivity.
  assert (Hte1 : top_end (st_z st1) = o + L) by reflexivity.
  destruct (pass1 vs o st1 r pend HI1) as (ms & rs & Hz2 & Hd2 & Hr2 & Hms & Hrs & Htg).
  { eapply pend_out_sub; [exact Hp|lia|lia]. }
  { exact Hk1. }
  { intros _. rewrite Hte1. lia. }
  { exact HR1. }
  set (st2 := analyze_assign_vars vs o st1) in *.
  set (T := map fst (targets vs o)) in *.
  assert (HT : forall q, In q T -> o <= q /\ q < o + len_exprs vs).
  { intros q Hq. apply in_map_iff in Hq. destruct Hq as (px & <- & Hpx).
    pose proof (targets_bounds vs o) as Hb. rewrite Forall_forall in Hb. apply Hb. exact Hpx. }
  assert (Hs12 : Step st1 st2 o (o + len_exprs vs) (map NDecl ms) []).
  { constructor.
    - exact Hz2.
    - apply Forall_forall. intros c Hc. apply in_map_iff in Hc. destruct Hc as (m & <- & Hm).
      rewrite Forall_forall in Hms. destruct (Hms m Hm) as (Hin & _). destruct (HT _ Hin).
      cbn [node_pos node_end node_ok node_children]. repeat split; try lia; constructor.
    - exists ms. split; [exact Hd2|]. eapply Forall_impl; [|exact Hms]. cbv beta. intros m (Hin & _). destruct (HT _ Hin). lia.
    - exists rs. split; [exact Hr2|]. eapply Forall_impl; [|exact Hrs]. cbv beta. intros rf Hin. destruct (HT _ Hin). lia.
    - constructor. }
  assert (HI2 : Inv st2 o (T ++ pend)).
  { apply (Inv_pending st1 st2 o pend T ms rs HI1 Hk1 Hz2 Hd2 Hr2).
    - eapply Forall_impl; [|exact Hms]. cbv beta. intros m (Hin & _). exact Hin.
    - exact Hrs. }
  assert (HR2 : R (st_z st2) r) by (rewrite Hz2; apply R_loa_children; [exact Hk1|cbn; discriminate|exact HR1]).
  assert (Hte2 : top_end (st_z st2) = o + L) by (rewrite Hz2, top_end_add; exact Hte1).
  destruct (pass2 vs Hall o st2 r (T ++ pend) HI2) as (cs_v & Hs23 & Hcv).
  { apply Forall_app. split.
    - apply Forall_forall. intros q Hq. right. right. exact Hq.
    - eapply Forall_impl; [|exact Hp]. cbv beta. intros q [Hq|Hq]; [left; exact Hq|right; left; fold L in Hq; lia]. }
  { intros _. rewrite Hte2. lia. }
  { exact HR2. }
  { exact Htg. }
  set (st3 := walk_exprs vs o st2) in *.
  set (eo := o + len_exprs vs + 3).
  destruct (chain st2 st3 o (o + len_exprs vs) cs_v _ r (T ++ pend) eo HI2 Hs23 Hcv HR2 ltac:(lia) ltac:(unfold eo; lia))
    as (HI3' & HR3 & Hte3 & _).
  assert (HI3 : Inv st3 eo pend).
  { apply (Inv_drop st3 eo T pend HI3'). apply Forall_forall. intros q Hq. destruct (HT _ Hq). unfold eo. lia. }
  destruct (IHes eo st3 r pend HI3) as (cs_e & Hs34 & Hce).
  { eapply pend_out_sub; [exact Hp|unfold eo; lia|unfold eo; fold L; lia]. }
  { rewrite Hte3, Hte2. unfold eo. lia. }
  { exact HR3. }
  cbn [walk_stat ref_stat fst snd]. fold L. fold st1. fold st2. fold st3. fold eo.
  exists [NScope KLocalOrAssign o (o + L) (map NDecl ms ++ cs_v ++ cs_e)]. split.
  - apply (Step_scope st _ KLocalOrAssign o (o + L) o (eo + len_exprs es)); [exact Hne| |lia|lia|unfold eo; lia].
    assert (H13 : Step st1 st3 o (o + len_exprs vs) (map NDecl ms ++ cs_v) (ref_exprs r vs o)).
    { eapply (Step_seq_nil st1 st2 st3 o (o + len_exprs vs) o); [exact Hs12|exact Hs23|lia|lia]. }
    rewrite app_assoc.
    eapply (Step_seq st1 st3 _ o (o + len_exprs vs) eo); [exact H13|exact Hs34|unfold eo; lia|unfold eo; lia|unfold eo; lia].
  - apply (R_markers (st_z st) _ r (rev ms)); [exact HR| |].
    + apply Forall_rev. eapply Forall_impl; [|exact Hms]. cbv beta. intros m (_ & H). exact H.
    + rewrite vis_add_normal by assumption. f_equal. rewrite all_contrib_one.
      cbn [contrib visit_child_scope node_kind node_children].
      rewrite !decls_of_app, decls_of_decls, (decls_of_closures cs_v Hcv), (decls_of_closures cs_e Hce), !app_nil_r. reflexivity.
Qed.

(** * blocks *)

Lemma sim_BNil : P_block BNil.
Proof.
  intros o st r pend HI Hp Hk He HR. exists []. cbn [walk_block ref_block fst snd]. split; [apply Step_refl|].
  rewrite add_children_nil. exact HR.
Qed.

Lemma sim_BRet : forall es, P_exprs es -> P_block (BRet es).
Proof.
  intros es IHes o st r pend HI Hp Hk He HR. cbn [walk_block ref_block len_block fst snd] in *.
  destruct es as [|e1 es1].
  - exists []. cbn [walk_exprs ref_exprs]. split; [apply Step_refl|]. rewrite add_children_nil. exact HR.
  - remember (ECons e1 es1) as es eqn:Ees.
    destruct (IHes (o + 7) st r pend) as (cs & Hs & Hc).
    + eapply Inv_mono; [exact HI|lia].
    + eapply pend_out_sub; [exact Hp|lia|lia].
    + lia.
    + exact HR.
    + exists cs. split; [eapply Step_widen; [exact Hs|lia|lia]|].
      rewrite <- (step_z _ _ _ _ _ _ Hs). eapply R_add_closures; [eapply Inv_mono; [exact HI|]| | |]; try eassumption. lia.
Qed.

Lemma sim_BCons : forall s b, P_stat s -> P_block b -> P_block (BCons s b).
Proof.
  intros s b IHs IHb o st r pend HI Hp Hk He HR. cbn [walk_block ref_block len_block] in *.
  pose proof (Inv_nonempty _ _ _ HI) as Hne.
  destruct (IHs o st r pend HI) as (cs1 & Hs1 & HR1).
  - eapply pend_out_sub; [exact Hp|lia|lia].
  - exact Hk.
  - lia.
  - exact HR.
  - destruct (ref_stat r s o) as (l1, r1) eqn:Ers. cbn [fst snd] in *.
    set (o' := o + len_stat s + 1).
    set (st1 := walk_stat s o st) in *.
    assert (Hz1 : st_z st1 = add_children (st_z st) cs1) by (apply (step_z _ _ _ _ _ _ Hs1)).
    assert (HI1 : Inv st1 o' pend).
    { apply (Inv_step st st1 o (o + len_stat s) o' cs1 l1 pend HI Hs1); [lia|unfold o'; lia|]. rewrite Hk. discriminate. }
    destruct (IHb o' st1 r1 pend HI1) as (cs2 & Hs2 & HR2).
    + eapply pend_out_sub; [exact Hp|unfold o'; lia|unfold o'; lia].
    + rewrite Hz1, top_kind_add. exact Hk.
    + rewrite Hz1, top_end_add. unfold o'. lia.
    + rewrite Hz1. exact HR1.
    + destruct (ref_block r1 b o') as (l2, r2) eqn:Erb. cbn [fst snd] in *.
      exists (cs1 ++ cs2). split.
      * eapply Step_widen; [eapply (Step_seq st st1 _ o (o + len_stat s) o'); [exact Hs1|exact Hs2| | | ]| |]; unfold o'; lia.
      * rewrite <- add_children_app, <- Hz1. exact HR2.
Qed.

(** * all constructs *)

Theorem sim_all :
  (forall e, P_expr e) /\ (forall es, P_exprs es /\ all_exprs P_expr es) /\ (forall s, P_stat s) /\
  (forall els, P_elifs els) /\ (forall b, P_block b).
Proof.
  apply syntax_mutind.
  - exact sim_ENum.
  - exact sim_EName.
  - intros e IHe f. apply sim_EIdx. exact IHe.
  - intros f IHf args (IHa & _). apply sim_ECall; assumption.
  - intros a IHa b IHb. apply sim_EBin; assumption.
  - intros ps b IHb. apply sim_EFun. exact IHb.
  - exact sim_EStr.
  - intros es (IHes & _). apply sim_ETable. exact IHes.
  - intros e IHe m args (IHa & _). apply sim_EMeth; assumption.
  - split; [exact sim_ENil|exact I].
  - intros e IHe es (IHes & Hall). split; [apply sim_ECons; assumption|split; assumption].
  - intros xs es (IHes & _). apply sim_SLocal. exact IHes.
  - intros vs (_ & Hall) es (IHes & _). apply sim_SAssign; assumption.
  - intros f IHf args (IHa & _). apply sim_SCall; assumption.
  - intros f ps b IHb. apply sim_SLocalFun. exact IHb.
  - intros root fields meth ps b IHb. apply sim_SFun. exact IHb.
  - intros b IHb. apply sim_SDo. exact IHb.
  - intros c IHc b IHb. apply sim_SWhile; assumption.
  - intros b IHb c IHc. apply sim_SRepeat; assumption.
  - intros c IHc b IHb els IHe. apply sim_SIf; assumption.
  - intros x es (IHes & _) b IHb. apply sim_SFor; assumption.
  - intros xs es (IHes & _) b IHb. apply sim_SForIn; assumption.
  - exact sim_SLabel.
  - exact sim_SGoto.
  - intros x cl es (IHes & _). apply sim_SLocalAttr. exact IHes.
  - exact sim_ElEnd.
  - intros b IHb. apply sim_ElElse. exact IHb.
  - intros c IHc b IHb t IHt. apply sim_ElIf; assumption.
  - exact sim_BNil.
  - intros es (IHes & _). apply sim_BRet. exact IHes.
  - intros s IHs b IHb. apply sim_BCons; assumption.
Qed.
