(** C13/Props.v — property theorems only.  Each is closed by [exact] of a lemma of Proofs.v.

    C13 "Names resolve to the declaration Lua's scoping rules select".
    (B) [impl_resolve]: the transcription of the implementation (C13/Model.v: the pre-order declaration walk of
        DeclAnalyzer building LuaDeclarationTree scopes, each name resolved when the walk enters it against the
        partially built tree with find_scope / visit_visible_decls / search_scope_children / visit_child_scope,
        recorded in the reference index) — the answer of the reference index for every name use;
    (A) [ref_resolve]: environment-passing lexical scoping as the Lua manual states it. *)
From EV Require Import C13.Model C13.Corr C13.Proofs.
Local Open Scope N_scope.

(** For every program of the fragment, the implementation's resolution of every name use (in source order, with
    its position) is the reference resolution: a local declaration's position, or the global. *)
Theorem impl_resolver_eq_reference : forall p : program, impl_resolve p = ref_resolve p.
Proof. exact Proofs.impl_resolver_eq_reference. Qed.

(** Use by use: for every name use [u] of the program, what the reference index of the implementation says at [u]
    is what the reference resolver says at [u]. *)
Theorem impl_resolver_eq_reference_at : forall (p : program) (u : N) (x : name),
  In (u, x) (uses_block p 0) ->
  exists res, In (u, res) (ref_resolve p) /\ impl_at (walk_program p) u = res /\ In (u, res) (impl_resolve p).
Proof. exact Proofs.impl_resolver_eq_reference_at. Qed.

(** The byte positions both resolvers compute with are the offsets in the printed text: every length function is
    the length of the corresponding printed piece. *)
Theorem printer_positions_exact :
  (forall e, tlen (pr_expr e) = len_expr e) /\
  (forall es, tlen (pr_exprs es) = len_exprs es) /\
  (forall s, tlen (pr_stat s) = len_stat s) /\
  (forall els, tlen (pr_elifs els) = len_elifs els) /\
  (forall b, tlen (pr_block b) = len_block b).
Proof. exact Proofs.printer_positions_exact. Qed.

(** The model compares names as numbers, the analyzer compares identifiers as texts: the printed names of different
    numbers are different identifiers. *)
Theorem name_text_injective : forall x y : name, name_text x = name_text y -> x = y.
Proof. exact Proofs.name_text_injective. Qed.

(** non-vacuity: one program with a duplicate name in one [local], [local a = a], a numeric for whose header (and a
    closure in it) names the loop variable, repeat-until with an empty body and a closure in the condition, an
    until that sees the body's local, a method with its implicit self, and a global assignment *)
Example resolver_example :
  let p :=
    BCons (SLocal [0; 0] (ECons (ENum 1) (ECons (ENum 2) ENil)))
   (BCons (SLocal [0] (ECons (EName 0) ENil))
   (BCons (SFor 5 (ECons (EName 5) (ECons (ECall (EFun [] (BRet (ECons (EName 5) ENil))) ENil) ENil))
                (BCons (SCall (EName 3) (ECons (EName 5) ENil)) BNil))
   (BCons (SRepeat BNil (ECall (EName 3) (ECons (EFun [0] BNil) (ECons (EName 0) ENil))))
   (BCons (SRepeat (BCons (SLocal [1] ENil) BNil) (EName 1))
   (BCons (SFun 0 [1] (Some 2) [1] (BCons (SAssign (ECons (EIdx (EName 4) 1) ENil) (ECons (EName 1) ENil)) BNil))
   (BCons (SAssign (ECons (EName 2) ENil) (ECons (EName 1) ENil)) BNil)))))) in
  agree p = true
  /\ impl_resolve p =
     [(28, Some 9); (38, None); (60, None); (72, None); (74, Some 34); (94, None); (113, Some 24);
      (137, Some 129); (148, Some 24); (157, Some 151); (166, Some 154); (172, None); (176, None)].
Proof. exact Proofs.resolver_example. Qed.
