(** C13/Tree.v — stage 1 of the proof of C13: on the tree of the moment (a plugged zipper whose closed parts lie
    before the query position) [find_scope] returns the open scopes, and [visit_visible_decls] enumerates a list
    that no longer mentions positions ([real_entry]). *)
From EV Require Import C13.Model.
Local Open Scope N_scope.

(** * Generic list facts *)

Lemma rposition_app_false : forall f cs n,
  f n = false -> rposition f (cs ++ [n]) = rposition f cs.
Proof.
  induction cs as [|c r IH]; intros n Hn; cbn [app rposition].
  - rewrite Hn. reflexivity.
  - rewrite (IH n Hn). reflexivity.
Qed.

Lemma rposition_all : forall f cs,
  Forall (fun c => f c = true) cs -> cs <> [] -> rposition f cs = Some (pred (List.length cs)).
Proof.
  induction cs as [|c r IH]; intros Hall Hne; [congruence|].
  inversion Hall as [|? ? Hc Hr]; subst. cbn [rposition].
  destruct r as [|c' r'].
  - cbn. rewrite Hc. reflexivity.
  - rewrite (IH Hr) by congruence. reflexivity.
Qed.

Definition all_contrib (cs : list node) : list decl := flat_map contrib (rev cs).

Lemma all_contrib_app : forall a b, all_contrib (a ++ b) = all_contrib b ++ all_contrib a.
Proof. intros. unfold all_contrib. rewrite rev_app_distr, flat_map_app. reflexivity. Qed.

Lemma all_contrib_nil : all_contrib [] = [].
Proof. reflexivity. Qed.

Lemma all_contrib_one : forall c, all_contrib [c] = contrib c.
Proof. intros. unfold all_contrib. cbn. apply app_nil_r. Qed.

Lemma decls_of_app : forall a b, decls_of (a ++ b) = decls_of a ++ decls_of b.
Proof. intros. unfold decls_of. apply flat_map_app. Qed.

(** * Position facts about search_scope_children *)

Lemma search_all : forall k s e cs q,
  Forall (fun c => node_pos c < q) cs ->
  search_scope_children (NScope k s e cs) q = all_contrib cs.
Proof.
  intros k s e cs q H. unfold search_scope_children. cbn [node_children].
  destruct cs as [|c r]; [reflexivity|].
  rewrite rposition_all.
  - replace (S (pred (List.length (c :: r)))) with (List.length (c :: r)) by (cbn; lia).
    rewrite firstn_all. reflexivity.
  - eapply Forall_impl; [|exact H]. intros a Ha. cbv beta. apply N.ltb_lt. exact Ha.
  - congruence.
Qed.

Lemma search_last_excluded : forall k s e cs n q,
  Forall (fun c => node_pos c < q) cs -> q <= node_pos n ->
  search_scope_children (NScope k s e (cs ++ [n])) q = all_contrib cs.
Proof.
  intros k s e cs n q H Hn. unfold search_scope_children. cbn [node_children].
  rewrite rposition_app_false by (apply N.ltb_ge; exact Hn).
  destruct cs as [|c r]; [reflexivity|].
  rewrite rposition_all.
  - replace (S (pred (List.length (c :: r)))) with (List.length (c :: r) + 0)%nat by (cbn; lia).
    rewrite firstn_app_2. cbn [firstn]. rewrite app_nil_r. reflexivity.
  - eapply Forall_impl; [|exact H]. intros a Ha. cbv beta. apply N.ltb_lt. exact Ha.
  - congruence.
Qed.

Lemma search_last_included : forall k s e cs n q,
  Forall (fun c => node_pos c < q) cs -> node_pos n < q ->
  search_scope_children (NScope k s e (cs ++ [n])) q = contrib n ++ all_contrib cs.
Proof.
  intros k s e cs n q H Hn. rewrite search_all.
  - rewrite all_contrib_app, all_contrib_one. reflexivity.
  - apply Forall_app. split; [exact H|]. constructor; [exact Hn|constructor].
Qed.

Lemma search_last_silent : forall k s e cs n q,
  Forall (fun c => node_pos c < q) cs -> contrib n = [] ->
  search_scope_children (NScope k s e (cs ++ [n])) q = all_contrib cs.
Proof.
  intros k s e cs n q H Hn.
  destruct (N.lt_ge_cases (node_pos n) q) as [Hlt|Hge].
  - rewrite search_last_included by assumption. rewrite Hn. reflexivity.
  - apply search_last_excluded; assumption.
Qed.

(** * Zippers whose closed parts lie before a position *)

Definition node_end (n : node) : N := match n with NDecl d => d_pos d + 1 | NScope _ _ e _ => e end.

(** the direct children of a scope start and end before its end *)
Definition node_ok (n : node) : Prop :=
  match n with
  | NDecl _ => True
  | NScope _ _ e cs => Forall (fun c => node_pos c < e /\ node_end c <= e) cs
  end.

Definition before (b : N) (cs : list node) : Prop :=
  Forall (fun c => node_pos c < b /\ node_end c <= b /\ node_ok c /\ Forall node_ok (node_children c)) cs.

(** only the scopes among the children: they end before [b] *)
Definition scopes_before (b : N) (cs : list node) : Prop :=
  Forall (fun c => match c with NScope _ _ e _ => e <= b | NDecl _ => True end) cs.

Lemma before_mono : forall b b' cs, before b cs -> b <= b' -> before b' cs.
Proof.
  intros b b' cs H Hle. eapply Forall_impl; [|exact H]. cbv beta. intros a (H1 & H2 & H3).
  split; [lia|]. split; [lia|exact H3].
Qed.

Lemma before_pos : forall b cs, before b cs -> Forall (fun c => node_pos c < b) cs.
Proof. intros b cs H. eapply Forall_impl; [|exact H]. cbv beta. intros a (H1 & _). exact H1. Qed.

Lemma before_app : forall b a c, before b a -> before b c -> before b (a ++ c).
Proof. intros. apply Forall_app. split; assumption. Qed.

Lemma before_scopes : forall b cs, before b cs -> scopes_before b cs.
Proof.
  intros b cs H. eapply Forall_impl; [|exact H]. cbv beta. intros a (_ & H2 & _).
  destruct a; [exact I|exact H2].
Qed.

Lemma scopes_before_mono : forall b b' cs, scopes_before b cs -> b <= b' -> scopes_before b' cs.
Proof.
  intros b b' cs H Hle. eapply Forall_impl; [|exact H]. cbv beta. intros a Ha. destruct a; [exact I|lia].
Qed.

Definition is_func (k : kind) : bool := match k with KFuncStat | KMethodStat => true | _ => false end.

(** the first child of a Repeat scope, when it is a scope that is not a closure, is a block (kind Normal) *)
Definition repeat_first_ok (cs : list node) : Prop :=
  match cs with
  | NScope k _ _ _ :: _ => k = KNormal \/ k = KClosure
  | _ => True
  end.

(** the children of an open scope lie before [b]; the declarations of a local/assignment statement are never
    searched from inside it (its targets may declare globals at later positions), only its closures matter *)
Definition frame_before (b : N) (g : frame) : Prop :=
  if kind_eqb (f_kind g) KLocalOrAssign then scopes_before b (f_children g) else before b (f_children g).

Lemma frame_before_scopes : forall b g, frame_before b g -> scopes_before b (f_children g).
Proof. intros b g H. unfold frame_before in H. destruct (kind_eqb (f_kind g) KLocalOrAssign); [exact H|apply before_scopes; exact H]. Qed.

Lemma frame_before_mono : forall b b' g, frame_before b g -> b <= b' -> frame_before b' g.
Proof.
  intros b b' g H Hle. unfold frame_before in *. destruct (kind_eqb (f_kind g) KLocalOrAssign).
  - eapply scopes_before_mono; eassumption.
  - eapply before_mono; eassumption.
Qed.

(** open frames below [h] (its ancestors): closed children lie before the open child, ranges nest *)
Fixpoint spine_ok (h : frame) (z : list frame) : Prop :=
  match z with
  | [] => True
  | g :: z' =>
      frame_before (f_start h) g /\
      f_start g <= f_start h /\ f_end h <= f_end g /\
      (is_func (f_kind g) = true -> f_start g < f_start h) /\
      (f_kind g = KRepeat ->
         (f_kind h = KNormal \/ f_kind h = KClosure) /\ repeat_first_ok (f_children g)) /\
      spine_ok g z'
  end.

(** the invariant of the zipper at query position [q] *)
Definition zinv (z : list frame) (q : N) : Prop :=
  match z with
  | [] => False
  | f :: z' =>
      frame_before q f /\ f_start f <= q /\
      (is_func (f_kind f) = true -> f_start f < q) /\
      (f_kind f = KRepeat -> repeat_first_ok (f_children f)) /\
      spine_ok f z'
  end.

(** * The tree of the moment as a chain *)

Definition wrap (g : frame) (inner : node) : node :=
  NScope (f_kind g) (f_start g) (f_end g) (f_children g ++ [inner]).

Fixpoint chain_above (inner : node) (z : list frame) : list node :=
  match z with
  | [] => []
  | g :: z' => wrap g inner :: chain_above (wrap g inner) z'
  end.

Lemma plug_into_wrap : forall z inner g, plug_into inner (g :: z) = plug_into (wrap g inner) z.
Proof. reflexivity. Qed.

(** closed children that end before [p] are skipped by the descent of find_scope *)
Lemma fold_skip : forall (F : node -> list node) p acc cs rest,
  scopes_before p cs ->
  fold_right (fun c r => match c with
                         | NScope _ s e _ => if contains s e p then F c else r
                         | NDecl _ => r
                         end) acc (cs ++ rest)
  = fold_right (fun c r => match c with
                           | NScope _ s e _ => if contains s e p then F c else r
                           | NDecl _ => r
                           end) acc rest.
Proof.
  induction cs as [|c r IH]; intros rest H; [reflexivity|].
  inversion H as [|? ? Hc Hr]; subst. cbn [app fold_right]. rewrite (IH rest Hr).
  destruct c as [d|k s e cs']; [reflexivity|].
  unfold contains.
  replace (p <? e) with false by (symmetry; apply N.ltb_ge; exact Hc).
  rewrite andb_false_r. reflexivity.
Qed.

Lemma before_end : forall b cs, before b cs -> Forall (fun c => node_end c <= b) cs.
Proof. intros b cs H. eapply Forall_impl; [|exact H]. cbv beta. intros a (_ & H2 & _). exact H2. Qed.

(** descending through one wrapper *)
Lemma find_scope_wrap : forall g inner p acc,
  scopes_before p (f_children g) ->
  (exists k s e cs, inner = NScope k s e cs /\ contains s e p = true) ->
  find_scope_in (wrap g inner) p acc = find_scope_in inner p (wrap g inner :: acc).
Proof.
  intros g inner p acc Hc (k & s & e & cs & -> & Hin).
  unfold wrap. cbn [find_scope_in].
  rewrite (fold_skip (fun c => find_scope_in c p
             (NScope (f_kind g) (f_start g) (f_end g) (f_children g ++ [NScope k s e cs]) :: acc))) by exact Hc.
  cbn [fold_right]. rewrite Hin. reflexivity.
Qed.

Lemma fold_skip_all : forall (F : node -> list node) p acc cs,
  scopes_before p cs ->
  fold_right (fun c r => match c with
                         | NScope _ s e _ => if contains s e p then F c else r
                         | NDecl _ => r
                         end) acc cs = acc.
Proof.
  intros F p acc cs H. rewrite <- (app_nil_r cs). rewrite fold_skip by exact H. reflexivity.
Qed.

Lemma find_scope_top : forall k s e cs p acc,
  scopes_before p cs ->
  find_scope_in (NScope k s e cs) p acc = NScope k s e cs :: acc.
Proof.
  intros. cbn [find_scope_in].
  apply (fold_skip_all (fun c => find_scope_in c p (NScope k s e cs :: acc))). assumption.
Qed.

(** ranges of the open frames contain the position *)
Fixpoint spine_contains (z : list frame) (p : N) : Prop :=
  match z with
  | [] => True
  | g :: z' => f_start g <= p /\ p < f_end g /\ spine_contains z' p
  end.

Lemma spine_contains_of : forall z h p,
  spine_ok h z -> f_start h <= p -> p < f_end h -> spine_contains z p.
Proof.
  induction z as [|g z' IH]; intros h p Hs H1 H2; cbn [spine_contains]; [exact I|].
  cbn [spine_ok] in Hs. destruct Hs as (_ & Hs1 & Hs2 & _ & _ & Hs').
  split; [lia|]. split; [lia|]. apply (IH g); [exact Hs'|lia|lia].
Qed.

Lemma find_scope_spine : forall z inner p acc h,
  spine_ok h z -> node_pos inner = f_start h -> f_start h <= p -> p < f_end h ->
  (exists k s e cs, inner = NScope k s e cs /\ contains s e p = true) ->
  find_scope_in (plug_into inner z) p acc = find_scope_in inner p (chain_above inner z ++ acc).
Proof.
  induction z as [|g z' IH]; intros inner p acc h Hs Hpos H1 H2 Hin; [reflexivity|].
  cbn [spine_ok] in Hs. destruct Hs as (Hb & Hs1 & Hs2 & Hf & Hr & Hs').
  rewrite plug_into_wrap. cbn [chain_above].
  rewrite (IH (wrap g inner) p acc g); try assumption.
  - rewrite find_scope_wrap.
    + rewrite <- app_comm_cons. reflexivity.
    + apply frame_before_scopes in Hb. eapply scopes_before_mono; [exact Hb|lia].
    + exact Hin.
  - reflexivity.
  - lia.
  - lia.
  - unfold wrap. do 4 eexists. split; [reflexivity|]. unfold contains.
    apply andb_true_intro. split; [apply N.leb_le; lia|apply N.ltb_lt; lia].
Qed.

Definition chain_of (f : frame) (z : list frame) : list node :=
  frame_node f :: chain_above (frame_node f) z.

(** [find_scope] finds the innermost open scope *)
Lemma find_scope_zipper : forall f z p,
  zinv (f :: z) p -> p < f_end f ->
  find_scope_in (plug_into (frame_node f) z) p [] = chain_of f z.
Proof.
  intros f z p (Hb & H1 & _ & _ & Hs) H2.
  rewrite (find_scope_spine z (frame_node f) p [] f); try assumption; try reflexivity.
  - unfold frame_node. rewrite find_scope_top.
    + rewrite app_nil_r. reflexivity.
    + apply frame_before_scopes. exact Hb.
  - unfold frame_node. do 4 eexists. split; [reflexivity|]. unfold contains.
    apply andb_true_intro. split; [apply N.leb_le; lia|apply N.ltb_lt; lia].
Qed.

(** * The enumeration without positions (with the duplicates the real traversal produces) *)

(** what the open child [h] contributes to the search of its parent ([visit_child_scope] of the plugged child):
    only a function statement contributes; a local/assignment statement is always left through its cutoff *)
Definition contrib_open (h : frame) : list decl :=
  if is_func (f_kind h) then decls_of (f_children h) else [].

Definition body_contrib (c : node) : list decl :=
  match c with
  | NScope k _ _ cs => if kind_eqb k KClosure then [] else all_contrib cs
  | NDecl _ => []
  end.

Fixpoint real_up (h : frame) (own_h : list decl) (z : list frame) : list decl :=
  match z with
  | [] => []
  | g :: z' =>
      if kind_eqb (f_kind g) KForRange && kind_eqb (f_kind h) KClosure then real_up g [] z'
      else
        let own_g := contrib_open h ++ all_contrib (f_children g) in
        match f_kind g with
        | KLocalOrAssign => real_up g [] z'
        | KRepeat =>
            match f_children g with
            | [] => if kind_eqb (f_kind h) KClosure then [] else own_h
            | c :: _ => body_contrib c
            end ++ own_g ++ real_up g own_g z'
        | _ => own_g ++ real_up g own_g z'
        end
  end.

Definition real_entry (z : list frame) : list decl :=
  match z with
  | [] => []
  | f :: z' =>
      match f_kind f with
      | KLocalOrAssign | KForRange => real_up f [] z'
      | KRepeat =>
          match get_repeat_body (frame_node f) with
          | Some b =>
              let ob := all_contrib (node_children b) in
              let own := all_contrib (f_children f) in
              ob ++ (ob ++ own ++ real_up f own z')
          | None => real_up f [] z'
          end
      | _ => let own := all_contrib (f_children f) in own ++ real_up f own z'
      end
  end.

Lemma visit_child_scope_wrap : forall g inner,
  (exists k s e cs, inner = NScope k s e cs) ->
  f_kind g <> KLocalOrAssign ->
  visit_child_scope (wrap g inner) = contrib_open g.
Proof.
  intros g inner (k & s & e & cs & ->) Hk. unfold visit_child_scope, wrap, contrib_open. cbn [node_kind node_children].
  rewrite decls_of_app. cbn [decls_of flat_map]. rewrite !app_nil_r.
  destruct (f_kind g); cbn [is_func]; try reflexivity. congruence.
Qed.

Lemma visit_child_scope_frame : forall f,
  f_kind f <> KLocalOrAssign -> visit_child_scope (frame_node f) = contrib_open f.
Proof.
  intros f Hk. unfold visit_child_scope, frame_node, contrib_open. cbn [node_kind node_children].
  destruct (f_kind f); cbn [is_func]; try reflexivity. congruence.
Qed.

Lemma contrib_scope : forall n, (exists k s e cs, n = NScope k s e cs) -> contrib n = visit_child_scope n.
Proof. intros n (k & s & e & cs & ->). reflexivity. Qed.

Lemma kind_eqb_eq : forall a b, kind_eqb a b = true <-> a = b.
Proof. intros a b. destruct a, b; cbn; split; intro H; try reflexivity; try discriminate. Qed.

Lemma kind_eqb_refl : forall a, kind_eqb a a = true.
Proof. destruct a; reflexivity. Qed.

Lemma kind_eqb_neq : forall a b, a <> b -> kind_eqb a b = false.
Proof.
  intros a b H. destruct (kind_eqb a b) eqn:E; [|reflexivity]. apply kind_eqb_eq in E. contradiction.
Qed.

(** body of a Repeat node: its first child, when that is a closed scope lying before [q] *)
Lemma body_search : forall c q,
  node_ok c -> node_end c <= q ->
  match c with
  | NScope k _ _ _ => if kind_eqb k KClosure then [] else search_scope_children c q
  | NDecl _ => []
  end = body_contrib c.
Proof.
  intros c q Hok He. destruct c as [d|k s e cs]; [reflexivity|].
  cbn [body_contrib]. destruct (kind_eqb k KClosure); [reflexivity|].
  apply search_all. cbn [node_ok] in Hok. cbn [node_end] in He.
  eapply Forall_impl; [|exact Hok]. cbv beta. intros a (Ha & _). lia.
Qed.

(** the traversal above an open child *)
Lemma visit_up : forall z h nh q own_h fuel flag,
  spine_ok h z ->
  (exists s e cs, nh = NScope (f_kind h) s e cs) ->
  node_pos nh = f_start h ->
  (f_kind h <> KLocalOrAssign -> visit_child_scope nh = contrib_open h) ->
  (f_kind h = KLocalOrAssign -> q = f_start h) ->
  f_start h <= q ->
  (is_func (f_kind h) = true -> f_start h < q) ->
  (f_kind h = KNormal -> search_scope_children nh q = own_h) ->
  (2 * List.length z + 2 <= fuel)%nat ->
  match z with
  | g :: _ => flag = kind_eqb (f_kind g) KForRange && kind_eqb (f_kind h) KClosure
  | [] => True
  end ->
  visit fuel (chain_above nh z) q flag = real_up h own_h z.
Proof.
  induction z as [|g z' IH]; intros h nh q own_h fuel flag Hs Hnh Hpos Hvc Hcut Hle Hf Hown Hfuel Hflag.
  - cbn [chain_above real_up]. destruct fuel; reflexivity.
  - cbn [spine_ok] in Hs. destruct Hs as (Hb & Hs1 & Hs2 & Hfg & Hr & Hs').
    destruct Hnh as (sh & eh & csh & Hnh).
    assert (Hnhs : exists k s e cs, nh = NScope k s e cs) by (subst nh; do 4 eexists; reflexivity).
    destruct fuel as [|fuel']; [cbn in Hfuel; lia|].
    assert (Hfuel' : (2 * List.length z' + 2 <= fuel')%nat) by (cbn [List.length] in Hfuel; lia).
    set (m := wrap g nh).
    assert (Hm : exists s e cs, m = NScope (f_kind g) s e cs) by (unfold m, wrap; do 3 eexists; reflexivity).
    assert (Hmpos : node_pos m = f_start g) by reflexivity.
    assert (Hmk : node_kind m = f_kind g) by reflexivity.
    assert (Hnk : node_kind nh = f_kind h) by (subst nh; reflexivity).
    (* the search of g's children at q *)
    assert (Hbq0 : f_kind g <> KLocalOrAssign -> before (f_start h) (f_children g)).
    { intros Hk. unfold frame_before in Hb. rewrite (kind_eqb_neq _ _ Hk) in Hb. exact Hb. }
    assert (Hbq1 : f_kind g <> KLocalOrAssign -> Forall (fun c => node_pos c < q) (f_children g)).
    { intros Hk. specialize (Hbq0 Hk). apply before_pos in Hbq0. eapply Forall_impl; [|exact Hbq0]. cbv beta. intros a Ha. lia. }
    assert (Hown_g : f_kind g <> KLocalOrAssign -> f_kind h <> KLocalOrAssign ->
                     search_scope_children m q = contrib_open h ++ all_contrib (f_children g)).
    { intros Hkg Hk. pose proof (Hbq1 Hkg) as Hbq. unfold m, wrap.
      destruct (is_func (f_kind h)) eqn:Ef.
      - rewrite search_last_included; [|exact Hbq|rewrite Hpos; apply Hf; reflexivity].
        rewrite contrib_scope by exact Hnhs. rewrite (Hvc Hk). reflexivity.
      - rewrite search_last_silent; [|exact Hbq|].
        + unfold contrib_open. rewrite Ef. reflexivity.
        + rewrite contrib_scope by exact Hnhs. rewrite (Hvc Hk). unfold contrib_open. rewrite Ef. reflexivity. }
    assert (Hvcm : f_kind g <> KLocalOrAssign -> visit_child_scope m = contrib_open g).
    { intros Hk. apply visit_child_scope_wrap; assumption. }
    cbn [chain_above real_up]. fold m.
    cbn [visit]. rewrite Hmk.
    (* the flag of the parent step from m *)
    assert (Hstep : forall own_g,
               (f_kind g = KNormal -> search_scope_children m q = own_g) ->
               f_kind g <> KLocalOrAssign ->
               match chain_above m z' with
               | [] => []
               | parent :: _ =>
                   visit fuel' (chain_above m z') q
                     (kind_eqb (node_kind parent) KForRange && kind_eqb (f_kind g) KClosure)
               end = real_up g own_g z').
    { intros own_g Hog Hk. destruct z' as [|g' z'']; [reflexivity|].
      cbn [chain_above]. cbn [node_kind wrap].
      change (wrap g' m :: chain_above (wrap g' m) z'') with (chain_above m (g' :: z'')).
      apply (IH g m q own_g fuel');
        [exact Hs'|exact Hm|exact Hmpos|exact Hvcm|intros E; contradiction|lia
        |intros E; specialize (Hfg E); lia|exact Hog|exact Hfuel'|reflexivity]. }
    assert (Hcutoff : match chain_above m z' with
                      | [] => []
                      | _ :: _ => visit fuel' (chain_above m z') (node_pos m) false
                      end = real_up g [] z' \/ f_kind g <> KLocalOrAssign /\ f_kind g <> KForRange).
    { destruct (kind_eqb (f_kind g) KLocalOrAssign) eqn:E1.
      - left. apply kind_eqb_eq in E1. destruct z' as [|g' z'']; [reflexivity|].
        cbn [chain_above]. change (wrap g' m :: chain_above (wrap g' m) z'') with (chain_above m (g' :: z'')).
        apply (IH g m (node_pos m) [] fuel');
          [exact Hs'|exact Hm|exact Hmpos|exact Hvcm|intros _; exact Hmpos|rewrite Hmpos; lia
          |intros E; rewrite E1 in E; discriminate|intros E; rewrite E1 in E; discriminate|exact Hfuel'
          |rewrite E1; cbn [kind_eqb]; symmetry; apply andb_false_r].
      - destruct (kind_eqb (f_kind g) KForRange) eqn:E2.
        + left. apply kind_eqb_eq in E2. destruct z' as [|g' z'']; [reflexivity|].
          cbn [chain_above]. change (wrap g' m :: chain_above (wrap g' m) z'') with (chain_above m (g' :: z'')).
          apply (IH g m (node_pos m) [] fuel');
            [exact Hs'|exact Hm|exact Hmpos|exact Hvcm|intros E; rewrite E2 in E; discriminate|rewrite Hmpos; lia
            |intros E; rewrite E2 in E; discriminate|intros E; rewrite E2 in E; discriminate|exact Hfuel'
            |rewrite E2; cbn [kind_eqb]; symmetry; apply andb_false_r].
        + right. split; intros E; rewrite E in *; discriminate. }
    rewrite Hflag.
    destruct (kind_eqb (f_kind g) KForRange && kind_eqb (f_kind h) KClosure) eqn:Efl.
    + (* entered as in a for header: the loop variables are skipped *)
      apply andb_prop in Efl. destruct Efl as (Eg & Eh). apply kind_eqb_eq in Eg.
      rewrite Eg. destruct z' as [|g' z'']; [reflexivity|].
      cbn [chain_above]. change (wrap g' m :: chain_above (wrap g' m) z'') with (chain_above m (g' :: z'')).
      apply (IH g m q [] fuel');
        [exact Hs'|exact Hm|exact Hmpos|exact Hvcm|intros E; congruence|lia
        |intros E; rewrite Eg in E; discriminate|intros E; congruence|exact Hfuel'
        |rewrite Eg; cbn [kind_eqb]; symmetry; apply andb_false_r].
    + destruct (f_kind g) eqn:Ekg.
      * (* Normal *)
        assert (Hk : f_kind h <> KLocalOrAssign \/ f_kind h = KLocalOrAssign) by (destruct (f_kind h); auto; left; congruence).
        destruct Hk as [Hk|Hk].
        -- rewrite (Hown_g ltac:(discriminate) Hk). f_equal. apply Hstep; [|congruence].
           intros _. apply Hown_g; [discriminate|exact Hk].
        -- (* arrived through the cutoff of a local/assignment statement: the statement itself is excluded *)
           assert (Hq : q = f_start h) by (apply Hcut; exact Hk).
           assert (Hsm : search_scope_children m q = all_contrib (f_children g)).
           { unfold m, wrap. apply search_last_excluded; [apply Hbq1; discriminate|]. rewrite Hpos. lia. }
           rewrite Hsm. unfold contrib_open. rewrite Hk. cbn [is_func app].
           f_equal. apply Hstep; [|congruence].
           intros _. exact Hsm.
      * (* Repeat *)
        destruct Hr as (Hhk & Hfirst); [reflexivity|].
        assert (Hk : f_kind h <> KLocalOrAssign) by (destruct Hhk as [E|E]; rewrite E; congruence).
        rewrite (Hown_g ltac:(discriminate) Hk).
        assert (Hbody : match get_repeat_body m with
                        | Some body => search_scope_children body q
                        | None => []
                        end = match f_children g with
                              | [] => if kind_eqb (f_kind h) KClosure then [] else own_h
                              | c :: _ => body_contrib c
                              end).
        { unfold get_repeat_body, m, wrap. cbn [node_children].
          destruct (f_children g) as [|c r] eqn:Ec.
          - cbn [app]. rewrite Hnh. destruct (kind_eqb (f_kind h) KClosure) eqn:Eh; [reflexivity|].
            rewrite <- Hnh. apply Hown. destruct Hhk as [E|E]; [exact E|]. rewrite E in Eh. discriminate.
          - cbn [app]. pose proof (Hbq0 ltac:(discriminate)) as Hb'. try rewrite Ec in Hb'.
            inversion Hb' as [|? ? (Hc1 & Hc2 & Hc3 & _) Hrest]; subst.
            rewrite <- (body_search c q Hc3) by lia.
            destruct c as [d|k s e cs]; [reflexivity|].
            destruct (kind_eqb k KClosure); reflexivity. }
        rewrite Hbody. f_equal. f_equal. apply Hstep; [|congruence].
        intros E. congruence.
      * (* LocalOrAssign *)
        destruct Hcutoff as [Hc|(Hc & _)]; [|congruence]. exact Hc.
      * (* ForRange, not from a header closure *)
        assert (Hk : f_kind h <> KLocalOrAssign \/ f_kind h = KLocalOrAssign) by (destruct (f_kind h); auto; left; congruence).
        destruct Hk as [Hk|Hk].
        -- rewrite (Hown_g ltac:(discriminate) Hk). f_equal. apply Hstep; [|congruence]. intros E. congruence.
        -- assert (Hq : q = f_start h) by (apply Hcut; exact Hk).
           assert (Hsm : search_scope_children m q = all_contrib (f_children g)).
           { unfold m, wrap. apply search_last_excluded; [apply Hbq1; discriminate|]. rewrite Hpos. lia. }
           rewrite Hsm. unfold contrib_open. rewrite Hk. cbn [is_func app].
           f_equal. apply Hstep; [|congruence]. intros E. congruence.
      * (* FuncStat *)
        assert (Hk : f_kind h <> KLocalOrAssign \/ f_kind h = KLocalOrAssign) by (destruct (f_kind h); auto; left; congruence).
        destruct Hk as [Hk|Hk].
        -- rewrite (Hown_g ltac:(discriminate) Hk). f_equal. apply Hstep; [|congruence]. intros E. congruence.
        -- assert (Hq : q = f_start h) by (apply Hcut; exact Hk).
           assert (Hsm : search_scope_children m q = all_contrib (f_children g)).
           { unfold m, wrap. apply search_last_excluded; [apply Hbq1; discriminate|]. rewrite Hpos. lia. }
           rewrite Hsm. unfold contrib_open. rewrite Hk. cbn [is_func app].
           f_equal. apply Hstep; [|congruence]. intros E. congruence.
      * (* MethodStat *)
        assert (Hk : f_kind h <> KLocalOrAssign \/ f_kind h = KLocalOrAssign) by (destruct (f_kind h); auto; left; congruence).
        destruct Hk as [Hk|Hk].
        -- rewrite (Hown_g ltac:(discriminate) Hk). f_equal. apply Hstep; [|congruence]. intros E. congruence.
        -- assert (Hq : q = f_start h) by (apply Hcut; exact Hk).
           assert (Hsm : search_scope_children m q = all_contrib (f_children g)).
           { unfold m, wrap. apply search_last_excluded; [apply Hbq1; discriminate|]. rewrite Hpos. lia. }
           rewrite Hsm. unfold contrib_open. rewrite Hk. cbn [is_func app].
           f_equal. apply Hstep; [|congruence]. intros E. congruence.
      * (* Closure *)
        assert (Hk : f_kind h <> KLocalOrAssign \/ f_kind h = KLocalOrAssign) by (destruct (f_kind h); auto; left; congruence).
        destruct Hk as [Hk|Hk].
        -- rewrite (Hown_g ltac:(discriminate) Hk). f_equal. apply Hstep; [|congruence]. intros E. congruence.
        -- assert (Hq : q = f_start h) by (apply Hcut; exact Hk).
           assert (Hsm : search_scope_children m q = all_contrib (f_children g)).
           { unfold m, wrap. apply search_last_excluded; [apply Hbq1; discriminate|]. rewrite Hpos. lia. }
           rewrite Hsm. unfold contrib_open. rewrite Hk. cbn [is_func app].
           f_equal. apply Hstep; [|congruence]. intros E. congruence.
Qed.

Lemma chain_above_length : forall z inner, List.length (chain_above inner z) = List.length z.
Proof. induction z as [|g z' IH]; intros inner; [reflexivity|]. cbn [chain_above List.length]. rewrite IH. reflexivity. Qed.

(** the traversal from the innermost open scope *)
Lemma visit_entry : forall f z p fuel,
  zinv (f :: z) p ->
  (2 * List.length z + 6 <= fuel)%nat ->
  visit fuel (chain_of f z) p true = real_entry (f :: z).
Proof.
  intros f z p fuel (Hb & H1 & Hf & Hrep & Hs) Hfuel.
  unfold chain_of.
  destruct fuel as [|fuel']; [lia|].
  assert (Hfn : exists s e cs, frame_node f = NScope (f_kind f) s e cs) by (unfold frame_node; do 3 eexists; reflexivity).
  assert (Hpos : node_pos (frame_node f) = f_start f) by reflexivity.
  assert (Hvc : f_kind f <> KLocalOrAssign -> visit_child_scope (frame_node f) = contrib_open f)
    by (apply visit_child_scope_frame).
  assert (Hb0 : f_kind f <> KLocalOrAssign -> before p (f_children f)).
  { intros Hk. unfold frame_before in Hb. rewrite (kind_eqb_neq _ _ Hk) in Hb. exact Hb. }
  assert (Hown : f_kind f <> KLocalOrAssign -> search_scope_children (frame_node f) p = all_contrib (f_children f)).
  { intros Hk. unfold frame_node. apply search_all. apply before_pos. apply Hb0. exact Hk. }
  (* the parent step from the top frame *)
  assert (Hstep : forall own fl, (2 * List.length z + 2 <= fl)%nat ->
             (f_kind f = KNormal -> own = all_contrib (f_children f)) ->
             f_kind f <> KLocalOrAssign ->
             match chain_above (frame_node f) z with
             | [] => []
             | parent :: _ =>
                 visit fl (chain_above (frame_node f) z) p
                   (kind_eqb (node_kind parent) KForRange && kind_eqb (f_kind f) KClosure)
             end = real_up f own z).
  { intros own fl Hfl Ho Hk. destruct z as [|g z']; [reflexivity|].
    cbn [chain_above node_kind wrap].
    change (wrap g (frame_node f) :: chain_above (wrap g (frame_node f)) z') with (chain_above (frame_node f) (g :: z')).
    apply (visit_up (g :: z') f (frame_node f) p own fl);
      [exact Hs|exact Hfn|exact Hpos|exact Hvc|intros E; contradiction|exact H1|exact Hf
      |intros E; rewrite (Ho E); apply Hown; exact Hk|exact Hfl|reflexivity]. }
  cbn [visit]. change (node_kind (frame_node f)) with (f_kind f).
  destruct (f_kind f) eqn:Ek; cbn [real_entry]; rewrite Ek.
  - (* Normal *)
    rewrite Hown by discriminate. f_equal. apply Hstep; [lia|reflexivity|congruence].
  - (* Repeat *)
    specialize (Hrep eq_refl).
    destruct (get_repeat_body (frame_node f)) as [b|] eqn:Eb.
    + (* the body block: a closed child *)
      assert (Hbody : exists s e cs, b = NScope KNormal s e cs /\ f_children f = b :: tl (f_children f)).
      { unfold get_repeat_body, frame_node in Eb. cbn [node_children] in Eb.
        destruct (f_children f) as [|c r]; [discriminate|].
        destruct c as [d|k s e cs]; [discriminate|].
        cbn [repeat_first_ok] in Hrep.
        destruct (kind_eqb k KClosure) eqn:Ec; [discriminate|].
        injection Eb as <-. destruct Hrep as [->| ->]; [|discriminate].
        do 3 eexists. split; reflexivity. }
      destruct Hbody as (sb & eb & csb & -> & Hch).
      assert (Hbb : node_ok (NScope KNormal sb eb csb) /\ eb <= p).
      { pose proof (Hb0 ltac:(discriminate)) as Hb'. rewrite Hch in Hb'.
        inversion Hb' as [|? ? (Hc1 & Hc2 & Hc3 & _) Hrest]; subst. split; [exact Hc3|exact Hc2]. }
      destruct Hbb as (Hbok & Hbe).
      assert (Hsb : search_scope_children (NScope KNormal sb eb csb) p = all_contrib csb).
      { apply search_all. cbn [node_ok] in Hbok. eapply Forall_impl; [|exact Hbok]. cbv beta. intros a (Ha & _). lia. }
      destruct fuel' as [|fuel'']; [lia|]. cbn [visit node_kind]. rewrite Hsb. cbn [node_children].
      f_equal.
      destruct fuel'' as [|fuel3]; [lia|]. cbn [visit]. change (node_kind (frame_node f)) with (f_kind f).
      rewrite Ek. cbn [kind_eqb andb]. rewrite Eb. rewrite Hsb, Hown by discriminate. f_equal. f_equal.
      apply Hstep; [lia|intros E; congruence|congruence].
    + apply Hstep; [lia|intros E; congruence|congruence].
  - (* LocalOrAssign: through the cutoff *)
    destruct z as [|g z']; [reflexivity|].
    cbn [chain_above].
    change (wrap g (frame_node f) :: chain_above (wrap g (frame_node f)) z') with (chain_above (frame_node f) (g :: z')).
    apply (visit_up (g :: z') f (frame_node f) (node_pos (frame_node f)) [] fuel');
      [exact Hs|rewrite Ek; exact Hfn|exact Hpos|rewrite Ek; exact Hvc|intros _; exact Hpos|rewrite Hpos; lia
      |intros E; rewrite Ek in E; discriminate|intros E; congruence|cbn [List.length] in *; lia
      |rewrite Ek; cbn [kind_eqb]; symmetry; apply andb_false_r].
  - (* ForRange: the loop variables are skipped *)
    destruct z as [|g z']; [reflexivity|].
    cbn [chain_above].
    change (wrap g (frame_node f) :: chain_above (wrap g (frame_node f)) z') with (chain_above (frame_node f) (g :: z')).
    apply (visit_up (g :: z') f (frame_node f) p [] fuel');
      [exact Hs|rewrite Ek; exact Hfn|exact Hpos|rewrite Ek; exact Hvc|intros E; congruence|exact H1
      |rewrite Ek; exact Hf|intros E; congruence|cbn [List.length] in *; lia
      |rewrite Ek; cbn [kind_eqb]; symmetry; apply andb_false_r].
  - rewrite Hown by discriminate. f_equal. apply Hstep; [lia|intros E; congruence|congruence].
  - rewrite Hown by discriminate. f_equal. apply Hstep; [lia|intros E; congruence|congruence].
  - rewrite Hown by discriminate. f_equal. apply Hstep; [lia|intros E; congruence|congruence].
Qed.

Definition find_name (x : name) (l : list decl) : option decl := find (fun d => d_name d =? x) l.

Definition top_end (z : list frame) : N := match z with f :: _ => f_end f | [] => 0 end.

(** Stage 1: [find_local_decl] on the tree of the moment *)
Theorem find_local_decl_zipper : forall z x p,
  zinv z p -> p < top_end z ->
  find_local_decl (plug z) x p = find_name x (real_entry z).
Proof.
  intros z x p Hz Hp. destruct z as [|f z']; [destruct Hz|].
  cbn [plug top_end] in *. unfold find_local_decl.
  rewrite (find_scope_zipper f z' p Hz Hp).
  rewrite visit_entry; [reflexivity|exact Hz|].
  unfold visit_fuel, chain_of. cbn [List.length]. rewrite chain_above_length. lia.
Qed.
