(** C30/Corr.v — the MODEL is run on the observed history (a deterministic schedule of C30/Model.v's own
    steps, proved to be model steps: [sched_sound]) to quiescence; the final analysed text and last published
    set it predicts per uri are compared with what the real server showed.  By [published_converge] the
    prediction does not depend on the schedule.  Published sets are abstract: [diag t = Some t] ("the
    diagnosis of text t"), [empty = None]; the harness reports, per uri, whether the last publishDiagnostics
    equals a fresh diagnosis of the text the analysis holds. *)
From Coq Require Import List Arith Bool PeanoNat NArith.
From EV Require Import C30.Model.
Import ListNotations.

Definition dsT := option nat.
Definition diagT (t : text) : dsT := Some t.
Definition emptyT : dsT := None.
Notation stT := (st dsT).

(** one step of a fixed schedule: finish the running handler, else start the next notification, else let the
    first task fire / run (a cancelled task does not publish) *)
Definition sched_step (s : stT) : option stT :=
  match mid s with
  | Some (EEdit u t) =>
      Some (mkSt (an s) (pub s) (upd (tokens s) u (Some (next s)))
                 (mkTask (next s) u false false :: cancel_id (tokens s u) (tasks s)) (S (next s)) (queue s) None)
  | Some (ERemove u) => Some (rm_step2 dsT emptyT true s u)
  | None =>
      match queue s with
      | EEdit u t :: q => Some (mkSt (upd (an s) u (Some t)) (pub s) (tokens s) (tasks s) (next s) q (Some (EEdit u t)))
      | ERemove u :: q => Some (rm_step1 dsT emptyT true s u q)
      | [] =>
          match tasks s with
          | [] => None
          | k :: l2 =>
              if tk_fired k then
                match an s (tk_uri k), tk_cancelled k with
                | Some t, false =>
                    Some (mkSt (an s) (upd (pub s) (tk_uri k) (Some (diagT t))) (upd (tokens s) (tk_uri k) None)
                               l2 (next s) (queue s) (mid s))
                | _, _ => Some (mkSt (an s) (pub s) (upd (tokens s) (tk_uri k) None) l2 (next s) (queue s) (mid s))
                end
              else Some (mkSt (an s) (pub s) (tokens s) (mkTask (tk_id k) (tk_uri k) (tk_cancelled k) true :: l2)
                              (next s) (queue s) (mid s))
          end
      end
  end.

Lemma sched_sound : forall s s', sched_step s = Some s' -> step dsT diagT emptyT true s s'.
Proof.
  intros s s' H. unfold sched_step in H.
  destruct (mid s) as [[u t | u]|] eqn:Hmid.
  - injection H as <-. eapply e_b_edit. exact Hmid.
  - injection H as <-. exact (e_b_remove dsT diagT emptyT true s u Hmid).
  - destruct (queue s) as [|[u t | u] q] eqn:Hq.
    + destruct (tasks s) as [|k l2] eqn:Ht; [discriminate|].
      destruct (tk_fired k) eqn:Hf.
      * destruct (an s (tk_uri k)) as [t|] eqn:Ha.
        -- destruct (tk_cancelled k) eqn:Hc; injection H as <-.
           ++ pose proof (t_run_skip dsT diagT emptyT true s [] k l2 Ht Hf (or_introl Hc)) as Hx. rewrite Hmid, Hq in Hx. exact Hx.
           ++ pose proof (t_run_pub dsT diagT emptyT true s [] k l2 t Ht Hf Ha) as Hx. rewrite Hmid, Hq in Hx. exact Hx.
        -- injection H as <-. pose proof (t_run_skip dsT diagT emptyT true s [] k l2 Ht Hf (or_intror Ha)) as Hx. rewrite Hmid, Hq in Hx. exact Hx.
      * injection H as <-. pose proof (t_fire dsT diagT emptyT true s [] k l2 Ht Hf) as Hx. rewrite Hmid, Hq in Hx. exact Hx.
    + injection H as <-. eapply e_a_edit; [exact Hq | exact Hmid].
    + injection H as <-. exact (e_a_remove dsT diagT emptyT true s u q Hq Hmid).
Qed.

Fixpoint run_model (fuel : nat) (s : stT) : stT :=
  match fuel with
  | 0 => s
  | S f => match sched_step s with Some s' => run_model f s' | None => s end
  end.

Lemma run_model_reach : forall fuel s0 s, reach dsT diagT emptyT true s0 s ->
  reach dsT diagT emptyT true s0 (run_model fuel s).
Proof.
  induction fuel as [|f IH]; intros s0 s Hr; cbn [run_model]; [assumption|].
  destruct (sched_step s) as [s'|] eqn:Hs; [|assumption].
  apply IH. eapply reachS; [eassumption | apply sched_sound; assumption].
Qed.

(** what the harness observed for one uri at quiescence *)
Record obs := {
  o_uri : N;
  o_known : bool;        (* the analysis holds the file *)
  o_text : N;            (* id of the analysed text (when known) *)
  o_pub : N;             (* last publishDiagnostics: 0 never, 1 empty, 2 = fresh diagnosis of the analysed text, 3 other *)
  o_fresh_empty : bool   (* the fresh diagnosis of the analysed text is empty *)
}.

Record case := {
  c_disk : list N;                       (* uris on disk (text 0), analysed and diagnosed at start-up *)
  c_events : list (bool * N * N);        (* (true, u, t) analysis text of u becomes t ; (false, u, _) u is removed *)
  c_obs : list obs
}.

Definition in_disk (l : list N) (u : uri) : bool := existsb (fun x => Nat.eqb (N.to_nat x) u) l.

Definition start_of (c : case) : stT :=
  mkSt (fun u => if in_disk (c_disk c) u then Some 0 else None)
       (fun u => if in_disk (c_disk c) u then Some (diagT 0) else None)
       (fun _ => None) [] 0
       (map (fun e => match e with
                      | (true, u, t) => EEdit (N.to_nat u) (N.to_nat t)
                      | (false, u, _) => ERemove (N.to_nat u)
                      end) (c_events c))
       None.

Definition quiescentb (s : stT) : bool :=
  match queue s, mid s, tasks s with [], None, [] => true | _, _, _ => false end.

Definition check_obs (s : stT) (o : obs) : bool :=
  let u := N.to_nat (o_uri o) in
  match an s u with
  | Some t =>
      o_known o && Nat.eqb (N.to_nat (o_text o)) t
      && match pub s u with
         | Some (Some t') => Nat.eqb t' t && (N.eqb (o_pub o) 2 || (N.eqb (o_pub o) 0 && o_fresh_empty o)
                                              || (N.eqb (o_pub o) 1 && o_fresh_empty o))
         | _ => false
         end
  | None =>
      negb (o_known o)
      && match pub s u with
         | None | Some None => N.eqb (o_pub o) 0 || N.eqb (o_pub o) 1
         | Some (Some _) => false
         end
  end.

Definition check_case (c : case) : bool :=
  let s := run_model (10 * List.length (c_events c) + 10) (start_of c) in
  quiescentb s && forallb (check_obs s) (c_obs c).
