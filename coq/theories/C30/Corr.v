(** C30/Corr.v — executable comparison of the real server's quiescent observations with what
    [published_converge] predicts: a file the analysis holds has "last published = fresh diagnosis",
    a file the analysis does not hold has an empty (or no) last published set. *)
From Coq Require Import List Arith Bool PeanoNat NArith.
Import ListNotations.

Record obs := {
  o_known : bool;            (* the analysis holds the file *)
  o_open_is_current : bool;  (* the analysed text is the editor's latest text (otherwise C27/C29, not C30) *)
  o_published : option N;  (* number of items of the last publishDiagnostics, None = never published *)
  o_fresh : option N;      (* number of items of a fresh diagnosis *)
  o_same : bool              (* last published = fresh diagnosis, item by item *)
}.

Definition case := list obs.

Definition check_obs (o : obs) : bool :=
  if o_known o then
    negb (o_open_is_current o) ||
    match o_published o with
    | Some _ => o_same o
    | None => match o_fresh o with Some 0%N => true | None => true | Some _ => false end
    end
  else
    match o_published o with None => true | Some 0%N => true | Some _ => false end.

Definition check_case (c : case) : bool := forallb check_obs c.
