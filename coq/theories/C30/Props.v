(** C30/Props.v — property theorems only *)
From Coq Require Import List Arith Bool PeanoNat.
From EV Require Import C30.Model C30.Proofs.
Import ListNotations.

(** For every diagnosis function, every history of edits and removals and EVERY interleaving of the inline
    handlers' sections with the debounced tasks (timer, cancellation, run under the read lock, the
    unconditional token removal) and with workspace-diagnostic publishes: at quiescence the last published
    set of every file the analysis holds is the diagnosis of its current text, and a removed file ends
    with an empty (or no) published set. *)
Theorem published_converge : forall (ds : Type) (diag : text -> ds) (empty : ds) (s0 s : st ds),
  start ds diag empty s0 -> reach ds diag empty true s0 s -> quiescent ds s ->
  forall u, good ds diag empty s u.
Proof. exact Proofs.published_converge. Qed.

(** The invariant behind it: stale => the running handler or an uncancelled task of that file is pending. *)
Theorem stale_has_pending_task : forall (ds : Type) (diag : text -> ds) (empty : ds) (s0 s : st ds),
  start ds diag empty s0 -> reach ds diag empty true s0 s ->
  forall u, stale_ok ds diag empty s u.
Proof. intros ds diag empty s0 s H0 Hr. exact (proj2 (proj2 (Proofs.inv_reach ds diag empty s0 s H0 Hr))). Qed.

(** Every step other than a workspace-diagnostic publish consumes a natural-number measure, and before
    quiescence such a step exists: every fair execution (timers fire, tasks get the read lock -- C28) of a
    finite history reaches quiescence. *)
Theorem published_terminates : forall (ds : Type) (diag : text -> ds) (empty : ds) (s s' : st ds),
  step ds diag empty true s s' ->
  mu ds s' < mu ds s \/ (queue s' = queue s /\ mid s' = mid s /\ tasks s' = tasks s).
Proof. exact Proofs.step_decreases. Qed.

Theorem published_progress : forall (ds : Type) (diag : text -> ds) (empty : ds) (s : st ds),
  ~ quiescent ds s -> exists s', step ds diag empty true s s' /\ mu ds s' < mu ds s.
Proof. exact Proofs.progress. Qed.

(** The unconditional `tokens.remove` does delete a newer task's token in a reachable state (so a later
    edit would not cancel that task) -- which [published_converge] shows to be harmless for convergence. *)
Theorem token_removal_race_reachable :
  start nat (fun t => t) 0 race_start /\
  exists s, reach nat (fun t => t) 0 true race_start s /\ tokens s 0 = None /\
            exists k, In k (tasks s) /\ tk_uri k = 0 /\ tk_cancelled k = false /\ tk_fired k = false.
Proof. exact Proofs.token_removal_race_reachable. Qed.

(** The theorems above are about [clear_last = true]: the empty publish for a removed file comes after the
    removal.  If it came before it, a diagnosis of that file still in flight publishes after the clear and
    the removed file ends with a non-empty published set. *)
Theorem clear_first_refuted :
  start nat (fun t => t) 0 clear_first_start /\
  exists s, reach nat (fun t => t) 0 false clear_first_start s /\ quiescent nat s /\ an s 0 = None /\ pub s 0 = Some 1.
Proof. exact Proofs.clear_first_refuted. Qed.

Example converge_example :
  exists s, reach nat (fun t => t) 0 true race_start s /\ quiescent nat s /\ an s 0 = Some 2 /\ pub s 0 = Some 2.
Proof. exact Proofs.converge_example. Qed.
