(** C30/Model.v — labelled transition system of the per-file diagnostic tasks.  Definitions only.

    Transcribed from crates/emmylua_ls/src/context/file_diagnostic.rs and the handlers that call it:
    - [add_diagnostic_task(file, interval)]: under the [diagnostic_tokens] mutex cancel the token stored for
      the file (if any), store a fresh token; spawn a task: select { sleep(interval) => { under
      analysis.read(): if the file is known, diagnose it WITH THE TEXT THE ANALYSIS HOLDS NOW (a cancelled
      token makes the diagnosis return nothing) and publish the result; then -- still under the read lock --
      remove the file's token from the map UNCONDITIONALLY (even if it is a newer task's token) },
      cancelled => {} };  select! may take the timer branch although the token is cancelled as well;
    - didOpen / didChange (inline on the main loop): analysis.write(): new text; then add_diagnostic_task;
    - didClose of a file that is not on disk / watched-file delete: analysis.write(): remove; then publish []
      (in that order when [clear_last] = true, which Gen/C30_Order.v re-reads from the source);
    - workspace diagnostics (push_workspace_diagnostic and friends): publish diag(current text) of any file
      under analysis.read(), at any time.
    A publish happens while the read lock is held, so it is atomic with reading the text; [diag] is abstract. *)
From Coq Require Import List Arith Bool PeanoNat.
Import ListNotations.

Definition uri := nat.
Definition text := nat.
Definition tid := nat.

Inductive event := EEdit (u : uri) (t : text) | ERemove (u : uri).

Record task := mkTask { tk_id : tid; tk_uri : uri; tk_cancelled : bool; tk_fired : bool }.

Section Sys.
  Variable ds : Type.               (* a published set of diagnostics *)
  Variable diag : text -> ds.       (* diagnosis of a text *)
  Variable empty : ds.
  (** is the empty publish for a removed file sent AFTER the removal from the analysis (true: what convergence
      needs -- every diagnosis still in flight has published by then), or before it (false)?  Read off the
      statement order in the source on every run: Gen/C30_Order.v *)
  Variable clear_last : bool.

  Record st := mkSt {
    an : uri -> option text;        (* text held by the analysis *)
    pub : uri -> option ds;         (* last publishDiagnostics per uri *)
    tokens : uri -> option tid;     (* FileDiagnostic.diagnostic_tokens *)
    tasks : list task;
    next : tid;
    queue : list event;             (* notifications not yet handled *)
    mid : option event              (* the inline handler is between its two sections *)
  }.

  Definition upd {A} (f : uri -> A) (u : uri) (v : A) : uri -> A :=
    fun x => if Nat.eqb x u then v else f x.

  Definition ev_uri (e : event) : uri := match e with EEdit u _ => u | ERemove u => u end.

  Definition cancel_id (i : option tid) (l : list task) : list task :=
    match i with
    | None => l
    | Some i => map (fun k => if Nat.eqb (tk_id k) i then mkTask (tk_id k) (tk_uri k) true (tk_fired k) else k) l
    end.

  Definition rm_step1 (s : st) (u : uri) (q : list event) : st :=
    if clear_last
    then mkSt (upd (an s) u None) (pub s) (tokens s) (tasks s) (next s) q (Some (ERemove u))
    else mkSt (an s) (upd (pub s) u (Some empty)) (tokens s) (tasks s) (next s) q (Some (ERemove u)).

  Definition rm_step2 (s : st) (u : uri) : st :=
    if clear_last
    then mkSt (an s) (upd (pub s) u (Some empty)) (tokens s) (tasks s) (next s) (queue s) None
    else mkSt (upd (an s) u None) (pub s) (tokens s) (tasks s) (next s) (queue s) None.

  Inductive step : st -> st -> Prop :=
  (* section 1 of a handler: the analysis write *)
  | e_a_edit : forall s u t q, queue s = EEdit u t :: q -> mid s = None ->
      step s (mkSt (upd (an s) u (Some t)) (pub s) (tokens s) (tasks s) (next s) q (Some (EEdit u t)))
  | e_a_remove : forall s u q, queue s = ERemove u :: q -> mid s = None ->
      step s (rm_step1 s u q)
  (* section 2 *)
  | e_b_edit : forall s u t, mid s = Some (EEdit u t) ->
      step s (mkSt (an s) (pub s) (upd (tokens s) u (Some (next s)))
                   (mkTask (next s) u false false :: cancel_id (tokens s u) (tasks s))
                   (S (next s)) (queue s) None)
  | e_b_remove : forall s u, mid s = Some (ERemove u) ->
      step s (rm_step2 s u)
  (* a diagnostic task *)
  | t_fire : forall s l1 k l2, tasks s = l1 ++ k :: l2 -> tk_fired k = false ->
      step s (mkSt (an s) (pub s) (tokens s) (l1 ++ mkTask (tk_id k) (tk_uri k) (tk_cancelled k) true :: l2)
                   (next s) (queue s) (mid s))
  | t_exit : forall s l1 k l2, tasks s = l1 ++ k :: l2 -> tk_fired k = false -> tk_cancelled k = true ->
      step s (mkSt (an s) (pub s) (tokens s) (l1 ++ l2) (next s) (queue s) (mid s))
  | t_run_pub : forall s l1 k l2 t, tasks s = l1 ++ k :: l2 -> tk_fired k = true ->
      an s (tk_uri k) = Some t ->
      step s (mkSt (an s) (upd (pub s) (tk_uri k) (Some (diag t))) (upd (tokens s) (tk_uri k) None)
                   (l1 ++ l2) (next s) (queue s) (mid s))
  | t_run_skip : forall s l1 k l2, tasks s = l1 ++ k :: l2 -> tk_fired k = true ->
      (tk_cancelled k = true \/ an s (tk_uri k) = None) ->
      step s (mkSt (an s) (pub s) (upd (tokens s) (tk_uri k) None) (l1 ++ l2) (next s) (queue s) (mid s))
  (* workspace diagnostics *)
  | w_pub : forall s u t, an s u = Some t ->
      step s (mkSt (an s) (upd (pub s) u (Some (diag t))) (tokens s) (tasks s) (next s) (queue s) (mid s)).

  Inductive reach (s0 : st) : st -> Prop :=
  | reach0 : reach s0 s0
  | reachS : forall s s', reach s0 s -> step s s' -> reach s0 s'.

  (** what the last publishDiagnostics of [u] should be *)
  Definition good (s : st) (u : uri) : Prop :=
    match an s u with
    | Some t => pub s u = Some (diag t)
    | None => pub s u = None \/ pub s u = Some empty
    end.

  Definition start (s : st) : Prop :=
    mid s = None /\ tasks s = [] /\ (forall u, tokens s u = None) /\ forall u, good s u.

  Definition quiescent (s : st) : Prop := queue s = [] /\ mid s = None /\ tasks s = [].
End Sys.

Arguments an {ds}. Arguments pub {ds}. Arguments tokens {ds}. Arguments tasks {ds}. Arguments next {ds}.
Arguments queue {ds}. Arguments mid {ds}. Arguments mkSt {ds}.
