(** C30/Proofs.v *)
From Coq Require Import List Arith Bool PeanoNat Lia.
From EV Require Import C30.Model.
Import ListNotations.

Section P.
  Variable ds : Type.
  Variable diag : text -> ds.
  Variable empty : ds.
  Notation st := (st ds).
  Notation step := (step ds diag empty true).
  Notation good := (good ds diag empty).

  Lemma upd_eq : forall A (f : uri -> A) u v, upd f u v u = v.
  Proof. intros. unfold upd. rewrite Nat.eqb_refl. reflexivity. Qed.

  Lemma upd_neq : forall A (f : uri -> A) u v x, x <> u -> upd f u v x = f x.
  Proof. intros A f u v x H. unfold upd. apply Nat.eqb_neq in H. rewrite H. reflexivity. Qed.

  Definition midu (s : st) (u : uri) : Prop := exists e, mid s = Some e /\ ev_uri e = u.

  (** an uncancelled task of [u] is still to run: it will publish the text the analysis holds then *)
  Definition live (s : st) (u : uri) : Prop :=
    exists k, In k (tasks s) /\ tk_uri k = u /\ tk_cancelled k = false.

  Definition stale_ok (s : st) (u : uri) : Prop :=
    match an s u with
    | Some t => pub s u = Some (diag t) \/ midu s u \/ live s u
    | None => pub s u = None \/ pub s u = Some empty \/ midu s u
    end.

  Definition mid_ok (s : st) : Prop :=
    match mid s with
    | Some (EEdit u t) => an s u = Some t
    | Some (ERemove u) => an s u = None
    | None => True
    end.

  (** ids are fresh, and a stored token names only tasks of its own file *)
  Definition ids_ok (s : st) : Prop :=
    (forall k, In k (tasks s) -> tk_id k < next s) /\
    (forall u i, tokens s u = Some i -> i < next s) /\
    (forall u i k, tokens s u = Some i -> In k (tasks s) -> tk_id k = i -> tk_uri k = u).

  Definition inv (s : st) : Prop := mid_ok s /\ ids_ok s /\ forall u, stale_ok s u.

  Lemma inv_start : forall s, start ds diag empty s -> inv s.
  Proof.
    intros s [Hm [Ht [Hk Hg]]]. split; [|split].
    - unfold mid_ok. rewrite Hm. exact I.
    - unfold ids_ok. rewrite Ht. split; [intros k []|]. split; [intros u i H; rewrite Hk in H; discriminate|].
      intros u i k H; rewrite Hk in H; discriminate.
    - intros u. specialize (Hg u). unfold Model.good in Hg. unfold stale_ok. destruct (an s u).
      + left. assumption.
      + destruct Hg; [left | right; left]; assumption.
  Qed.

  Lemma in_cancel : forall i l k, In k (cancel_id i l) ->
    exists k0, In k0 l /\ tk_id k = tk_id k0 /\ tk_uri k = tk_uri k0 /\
               (k = k0 \/ (i = Some (tk_id k0) /\ tk_cancelled k = true)).
  Proof.
    intros i l k H. destruct i as [i|]; cbn [cancel_id] in H.
    - apply in_map_iff in H. destruct H as [k0 [He Hin]]. exists k0. split; [assumption|].
      destruct (Nat.eqb_spec (tk_id k0) i) as [Hi | Hi]; subst k; cbn.
      + repeat split; try reflexivity. right. split; [subst; reflexivity | reflexivity].
      + repeat split; try reflexivity. left. reflexivity.
    - exists k. repeat split; try assumption; try reflexivity. left. reflexivity.
  Qed.

  Lemma cancel_keeps : forall i l k, In k l -> i <> Some (tk_id k) -> In k (cancel_id i l).
  Proof.
    intros i l k Hin Hne. destruct i as [i|]; cbn [cancel_id]; [|assumption].
    apply in_map_iff. exists k. split; [|assumption].
    destruct (Nat.eqb_spec (tk_id k) i) as [He | He]; [exfalso; apply Hne; congruence | reflexivity].
  Qed.

  Lemma in_remove_mid : forall (l1 l2 : list task) k x, In x (l1 ++ l2) -> In x (l1 ++ k :: l2).
  Proof.
    intros l1 l2 k x H. apply in_app_or in H. apply in_or_app. destruct H; [left | right; right]; assumption.
  Qed.

  Lemma in_mid_cases : forall (l1 l2 : list task) k x, In x (l1 ++ k :: l2) -> x = k \/ In x (l1 ++ l2).
  Proof.
    intros l1 l2 k x H. apply in_app_or in H. destruct H as [H | [H | H]].
    - right. apply in_or_app. left. assumption.
    - left. symmetry. assumption.
    - right. apply in_or_app. right. assumption.
  Qed.

  (** removing a task keeps everybody else's justification *)
  Lemma live_remove : forall (s s' : st) l1 k l2 u,
    tasks s = l1 ++ k :: l2 -> tasks s' = l1 ++ l2 -> live s u ->
    (tk_uri k = u /\ tk_cancelled k = false) \/ live s' u.
  Proof.
    intros s s' l1 k l2 u Ht Ht' [x [Hin [Hu Hc]]]. rewrite Ht in Hin.
    destruct (in_mid_cases _ _ _ _ Hin) as [-> | Hin'].
    - left. split; assumption.
    - right. exists x. rewrite Ht'. repeat split; assumption.
  Qed.

  Lemma ids_remove : forall (s s' : st) l1 k l2,
    tasks s = l1 ++ k :: l2 -> tasks s' = l1 ++ l2 -> next s' = next s ->
    (forall u i, tokens s' u = Some i -> tokens s u = Some i) -> ids_ok s -> ids_ok s'.
  Proof.
    intros s s' l1 k l2 Ht Ht' Hn Htok [H1 [H2 H3]]. split; [|split].
    - intros x Hx. rewrite Hn. apply H1. rewrite Ht. rewrite Ht' in Hx. apply in_remove_mid. assumption.
    - intros u i Hi. rewrite Hn. eapply H2. apply Htok. eassumption.
    - intros u i x Hi Hx He. eapply H3; [apply Htok; eassumption | | eassumption].
      rewrite Ht. rewrite Ht' in Hx. apply in_remove_mid. assumption.
  Qed.

  Lemma inv_step : forall s s', inv s -> step s s' -> inv s'.
  Proof.
    intros s s' [Hm [Hid Hi]] Hst.
    destruct Hst as [s u t q Hq Hmid | s u q Hq Hmid | s u t Hmid | s u Hmid
                    | s l1 k l2 Ht Hf | s l1 k l2 Ht Hf Hc | s l1 k l2 t Ht Hf Ha | s l1 k l2 Ht Hf Hc | s u t Ha].
    - (* edit, section 1 *)
      split; [|split].
      + unfold mid_ok. cbn [mid an]. apply upd_eq.
      + exact Hid.
      + intros x. unfold stale_ok. cbn [an pub mid tasks]. destruct (Nat.eq_dec x u) as [-> | Hne].
        * rewrite upd_eq. right. left. exists (EEdit u t). split; reflexivity.
        * rewrite upd_neq by assumption. specialize (Hi x). unfold stale_ok in Hi.
          destruct (an s x).
          -- destruct Hi as [Hi | [[e [He _]] | Hi]]; [left; assumption | congruence | right; right; assumption].
          -- destruct Hi as [Hi | [Hi | [e [He _]]]]; [left; assumption | right; left; assumption | congruence].
    - (* remove, section 1 *)
      change (rm_step1 ds empty true s u q) with (mkSt (upd (an s) u None) (pub s) (tokens s) (tasks s) (next s) q (Some (ERemove u))).
      split; [|split].
      + unfold mid_ok. cbn [mid an]. apply upd_eq.
      + exact Hid.
      + intros x. unfold stale_ok. cbn [an pub mid tasks]. destruct (Nat.eq_dec x u) as [-> | Hne].
        * rewrite upd_eq. right. right. exists (ERemove u). split; reflexivity.
        * rewrite upd_neq by assumption. specialize (Hi x). unfold stale_ok in Hi.
          destruct (an s x).
          -- destruct Hi as [Hi | [[e [He _]] | Hi]]; [left; assumption | congruence | right; right; assumption].
          -- destruct Hi as [Hi | [Hi | [e [He _]]]]; [left; assumption | right; left; assumption | congruence].
    - (* edit, section 2: add_diagnostic_task *)
      destruct Hid as [H1 [H2 H3]]. split; [|split].
      + unfold mid_ok. cbn [mid]. exact I.
      + split; [|split]; cbn [tasks next tokens].
        * intros x [<- | Hx]; [cbn; lia|]. apply in_cancel in Hx. destruct Hx as [k0 [Hin [Hid0 _]]].
          rewrite Hid0. specialize (H1 k0 Hin). lia.
        * intros x i Hx. destruct (Nat.eq_dec x u) as [-> | Hne].
          -- rewrite upd_eq in Hx. inversion Hx. lia.
          -- rewrite upd_neq in Hx by assumption. specialize (H2 x i Hx). lia.
        * intros x i y Hx [<- | Hy] He.
          -- cbn in *. destruct (Nat.eq_dec x u) as [-> | Hne]; [reflexivity|].
             rewrite upd_neq in Hx by assumption. specialize (H2 x i Hx). lia.
          -- apply in_cancel in Hy. destruct Hy as [k0 [Hin [Hid0 [Hu0 _]]]].
             destruct (Nat.eq_dec x u) as [-> | Hne].
             ++ rewrite upd_eq in Hx. inversion Hx. specialize (H1 k0 Hin). lia.
             ++ rewrite upd_neq in Hx by assumption. rewrite Hu0. eapply H3; [eassumption | eassumption | congruence].
      + intros x. unfold stale_ok. cbn [an pub mid tasks].
        destruct (Nat.eq_dec x u) as [-> | Hne].
        * unfold mid_ok in Hm. rewrite Hmid in Hm. rewrite Hm. right. right.
          exists (mkTask (next s) u false false). split; [left; reflexivity | split; reflexivity].
        * specialize (Hi x). unfold stale_ok in Hi. destruct (an s x).
          -- destruct Hi as [Hi | [[e [He Hu]] | [k [Hin [Hu Hc]]]]]; [left; assumption | |].
             ++ rewrite Hmid in He. inversion He; subst. cbn in Hne. contradiction.
             ++ right. right. exists k. split; [|split; assumption]. right. apply cancel_keeps; [assumption|].
                intros Htok. apply Hne. rewrite <- Hu. eapply H3; [exact Htok | exact Hin | reflexivity].
          -- destruct Hi as [Hi | [Hi | [e [He Hu]]]]; [left; assumption | right; left; assumption|].
             rewrite Hmid in He. inversion He; subst. cbn in Hne. contradiction.
    - (* remove, section 2: publish [] *)
      change (rm_step2 ds empty true s u) with (mkSt (an s) (upd (pub s) u (Some empty)) (tokens s) (tasks s) (next s) (queue s) None).
      split; [|split].
      + unfold mid_ok. cbn [mid]. exact I.
      + exact Hid.
      + intros x. unfold stale_ok. cbn [an pub mid tasks]. destruct (Nat.eq_dec x u) as [-> | Hne].
        * unfold mid_ok in Hm. rewrite Hmid in Hm. rewrite Hm. rewrite upd_eq. right. left. reflexivity.
        * rewrite upd_neq by assumption. specialize (Hi x). unfold stale_ok in Hi. destruct (an s x).
          -- destruct Hi as [Hi | [[e [He Hu]] | Hi]]; [left; assumption | | right; right; assumption].
             rewrite Hmid in He. inversion He; subst. cbn in Hne. contradiction.
          -- destruct Hi as [Hi | [Hi | [e [He Hu]]]]; [left; assumption | right; left; assumption|].
             rewrite Hmid in He. inversion He; subst. cbn in Hne. contradiction.
    - (* the timer fires *)
      split; [exact Hm | split].
      + destruct Hid as [H1 [H2 H3]]. split; [|split]; cbn [tasks next tokens].
        * intros x Hx. destruct (in_mid_cases _ _ _ _ Hx) as [-> | Hx']; cbn.
          -- apply H1. rewrite Ht. apply in_or_app. right. left. reflexivity.
          -- apply H1. rewrite Ht. apply in_remove_mid. assumption.
        * exact H2.
        * intros x i y Hx Hy He. destruct (in_mid_cases _ _ _ _ Hy) as [-> | Hy']; cbn in *.
          -- eapply (H3 x i k); [eassumption | rewrite Ht; apply in_or_app; right; left; reflexivity | assumption].
          -- eapply H3; [eassumption | rewrite Ht; apply in_remove_mid; eassumption | assumption].
      + intros x. specialize (Hi x). unfold stale_ok in *. cbn [an pub mid tasks].
        destruct (an s x); [|exact Hi].
        destruct Hi as [Hi | [Hi | [y [Hin [Hu Hc]]]]]; [left; assumption | right; left; exact Hi | right; right].
        rewrite Ht in Hin. destruct (in_mid_cases _ _ _ _ Hin) as [-> | Hin'].
        * exists (mkTask (tk_id k) (tk_uri k) (tk_cancelled k) true). split; [apply in_or_app; right; left; reflexivity|].
          split; assumption.
        * exists y. split; [apply in_remove_mid; assumption | split; assumption].
    - (* a cancelled task leaves *)
      split; [exact Hm | split].
      + eapply (ids_remove s); try eassumption; try reflexivity. intros; assumption.
      + intros x. specialize (Hi x). unfold stale_ok in *. cbn [an pub mid tasks].
        destruct (an s x); [|exact Hi].
        destruct Hi as [Hi | [Hi | Hl]]; [left; assumption | right; left; exact Hi | right; right].
        destruct (live_remove s (mkSt (an s) (pub s) (tokens s) (l1 ++ l2) (next s) (queue s) (mid s)) l1 k l2 x Ht eq_refl Hl)
          as [[_ Hc'] | Hl']; [congruence | exact Hl'].
    - (* a task runs and publishes the text the analysis holds now *)
      split; [exact Hm | split].
      + eapply (ids_remove s); try eassumption; try reflexivity.
        intros x i Hx. cbn [tokens] in Hx. destruct (Nat.eq_dec x (tk_uri k)) as [-> | Hne].
        * rewrite upd_eq in Hx. discriminate.
        * rewrite upd_neq in Hx by assumption. assumption.
      + intros x. unfold stale_ok. cbn [an pub mid tasks]. destruct (Nat.eq_dec x (tk_uri k)) as [-> | Hne].
        * rewrite Ha. rewrite upd_eq. left. reflexivity.
        * rewrite upd_neq by assumption. specialize (Hi x). unfold stale_ok in Hi. destruct (an s x); [|exact Hi].
          destruct Hi as [Hi | [Hi | Hl]]; [left; assumption | right; left; exact Hi | right; right].
          destruct (live_remove s (mkSt (an s) (upd (pub s) (tk_uri k) (Some (diag t))) (upd (tokens s) (tk_uri k) None)
                                       (l1 ++ l2) (next s) (queue s) (mid s)) l1 k l2 x Ht eq_refl Hl)
            as [[Hu' _] | Hl']; [congruence | exact Hl'].
    - (* a task runs without publishing: cancelled, or the file is gone *)
      split; [exact Hm | split].
      + eapply (ids_remove s); try eassumption; try reflexivity.
        intros x i Hx. cbn [tokens] in Hx. destruct (Nat.eq_dec x (tk_uri k)) as [-> | Hne].
        * rewrite upd_eq in Hx. discriminate.
        * rewrite upd_neq in Hx by assumption. assumption.
      + intros x. specialize (Hi x). unfold stale_ok in *. cbn [an pub mid tasks].
        destruct (an s x) eqn:Hax; [|exact Hi].
        destruct Hi as [Hi | [Hi | Hl]]; [left; assumption | right; left; exact Hi | right; right].
        destruct (live_remove s (mkSt (an s) (pub s) (upd (tokens s) (tk_uri k) None)
                                     (l1 ++ l2) (next s) (queue s) (mid s)) l1 k l2 x Ht eq_refl Hl)
          as [[Hu' Hc'] | Hl']; [|exact Hl'].
        destruct Hc as [Hc | Hc]; [congruence | rewrite Hu' in Hc; congruence].
    - (* workspace diagnostics *)
      split; [exact Hm | split; [exact Hid|]].
      intros x. unfold stale_ok. cbn [an pub mid tasks]. destruct (Nat.eq_dec x u) as [-> | Hne].
      + rewrite Ha. rewrite upd_eq. left. reflexivity.
      + rewrite upd_neq by assumption. apply Hi.
  Qed.

  Lemma inv_reach : forall s0 s, start ds diag empty s0 -> reach ds diag empty true s0 s -> inv s.
  Proof.
    intros s0 s H0 Hr. induction Hr; [apply inv_start; assumption | eapply inv_step; eassumption].
  Qed.

  Theorem published_converge : forall s0 s, start ds diag empty s0 -> reach ds diag empty true s0 s ->
    quiescent ds s -> forall u, good s u.
  Proof.
    intros s0 s H0 Hr [Hq [Hmid Ht]] u. destruct (inv_reach _ _ H0 Hr) as [_ [_ Hi]].
    specialize (Hi u). unfold stale_ok in Hi. unfold Model.good. destruct (an s u).
    - destruct Hi as [Hi | [[e [He _]] | [k [Hin _]]]]; [assumption | congruence | rewrite Ht in Hin; destruct Hin].
    - destruct Hi as [Hi | [Hi | [e [He _]]]]; [left; assumption | right; assumption | congruence].
  Qed.
End P.

(** * the unconditional token removal: real in the model, harmless for convergence *)
Section Race.
  Notation stN := (st nat).
  Notation stepN := (step nat (fun t => t) 0 true).
  Notation reachN := (reach nat (fun t => t) 0 true).

  Lemma reach_front : forall (s0 s1 s : stN), stepN s0 s1 -> reachN s1 s -> reachN s0 s.
  Proof.
    intros s0 s1 s H Hr. induction Hr.
    - eapply reachS; [apply reach0 | assumption].
    - eapply reachS; eassumption.
  Qed.

  Definition race_start : stN :=
    mkSt (fun _ => None) (fun _ => None) (fun _ => None) [] 0 [EEdit 0 1; EEdit 0 2] None.

  (** the older task (cancelled after its timer fired) deletes the NEWER task's token; the newer task is
      still alive and uncancelled, and a third edit would not cancel it *)
  Lemma token_removal_race_reachable :
    start nat (fun t => t) 0 race_start /\
    exists s, reachN race_start s /\ tokens s 0 = None /\
              exists k, In k (tasks s) /\ tk_uri k = 0 /\ tk_cancelled k = false /\ tk_fired k = false.
  Proof.
    split.
    - repeat split; try reflexivity. intros u. left. reflexivity.
    - eexists. split.
      + eapply reach_front; [eapply e_a_edit; reflexivity|]. cbn [an pub tokens tasks next queue mid].
        eapply reach_front; [eapply e_b_edit; reflexivity|]. cbn [an pub tokens tasks next queue mid].
        eapply reach_front; [eapply (t_fire _ _ _ _ _ [] _ []); reflexivity|]. cbn [an pub tokens tasks next queue mid app tk_id tk_uri tk_cancelled].
        eapply reach_front; [eapply e_a_edit; reflexivity|]. cbn [an pub tokens tasks next queue mid].
        eapply reach_front; [eapply e_b_edit; reflexivity|]. cbn [an pub tokens tasks next queue mid].
        eapply reach_front.
        { eapply (t_run_skip _ _ _ _ _ [_] _ []); [vm_compute; reflexivity | reflexivity | left; reflexivity]. }
        apply reach0.
      + split; [vm_compute; reflexivity|]. eexists. split; [left; reflexivity|]. vm_compute. repeat split; reflexivity.
  Qed.

  (** non-vacuity: the same history runs to quiescence and the last published set is the diagnosis of the last text *)
  Lemma converge_example :
    exists s, reachN race_start s /\ quiescent nat s /\ an s 0 = Some 2 /\ pub s 0 = Some 2.
  Proof.
    eexists. split.
    - eapply reach_front; [eapply e_a_edit; reflexivity|]. cbn [an pub tokens tasks next queue mid].
      eapply reach_front; [eapply e_b_edit; reflexivity|]. cbn [an pub tokens tasks next queue mid].
      eapply reach_front; [eapply (t_fire _ _ _ _ _ [] _ []); reflexivity|]. cbn [an pub tokens tasks next queue mid app tk_id tk_uri tk_cancelled].
      eapply reach_front; [eapply e_a_edit; reflexivity|]. cbn [an pub tokens tasks next queue mid].
      eapply reach_front; [eapply e_b_edit; reflexivity|]. cbn [an pub tokens tasks next queue mid].
      eapply reach_front.
      { eapply (t_run_skip _ _ _ _ _ [_] _ []); [vm_compute; reflexivity | reflexivity | left; reflexivity]. }
      cbn [an pub tokens tasks next queue mid app tk_id tk_uri tk_cancelled].
      eapply reach_front; [eapply (t_fire _ _ _ _ _ [] _ []); reflexivity|]. cbn [an pub tokens tasks next queue mid app tk_id tk_uri tk_cancelled].
      eapply reach_front.
      { eapply (t_run_pub _ _ _ _ _ [] _ [] 2); [reflexivity | reflexivity | vm_compute; reflexivity]. }
      apply reach0.
    - vm_compute. repeat split; reflexivity.
  Qed.
End Race.

(** * if the empty publish came BEFORE the removal, a diagnosis still in flight would publish after it *)
Section ClearFirst.
  Notation stepF := (step nat (fun t => t) 0 false).
  Notation reachF := (reach nat (fun t => t) 0 false).

  Lemma reach_frontF : forall (s0 s1 s : st nat), stepF s0 s1 -> reachF s1 s -> reachF s0 s.
  Proof.
    intros s0 s1 s H Hr. induction Hr.
    - eapply reachS; [apply reach0 | assumption].
    - eapply reachS; eassumption.
  Qed.

  Definition clear_first_start : st nat :=
    mkSt (fun _ => None) (fun _ => None) (fun _ => None) [] 0 [EEdit 0 1; ERemove 0] None.

  Lemma clear_first_refuted :
    start nat (fun t => t) 0 clear_first_start /\
    exists s, reachF clear_first_start s /\ quiescent nat s /\ an s 0 = None /\ pub s 0 = Some 1.
  Proof.
    split.
    - repeat split; try reflexivity. intros u. left. reflexivity.
    - eexists. split.
      + eapply reach_frontF; [eapply e_a_edit; reflexivity|]. cbn [an pub tokens tasks next queue mid].
        eapply reach_frontF; [eapply e_b_edit; reflexivity|]. cbn [an pub tokens tasks next queue mid].
        eapply reach_frontF; [eapply (t_fire _ _ _ _ _ [] _ []); reflexivity|]. cbn [an pub tokens tasks next queue mid app tk_id tk_uri tk_cancelled].
        eapply reach_frontF; [eapply e_a_remove; reflexivity|]. unfold rm_step1. cbn [an pub tokens tasks next queue mid].
        eapply reach_frontF.
        { eapply (t_run_pub _ _ _ _ _ [] _ [] 1); [reflexivity | reflexivity | vm_compute; reflexivity]. }
        cbn [an pub tokens tasks next queue mid app tk_id tk_uri tk_cancelled].
        eapply reach_frontF; [eapply e_b_remove; reflexivity|]. unfold rm_step2. cbn [an pub tokens tasks next queue mid].
        apply reach0.
      + vm_compute. repeat split; reflexivity.
  Qed.
End ClearFirst.

(** * progress and termination: every fair execution reaches quiescence *)
Section Term.
  Variable ds : Type.
  Variable diag : text -> ds.
  Variable empty : ds.
  Notation st := (st ds).
  Notation step := (step ds diag empty true).

  Definition tw (k : task) : nat := if tk_fired k then 1 else 2.
  Definition tsum (l : list task) : nat := list_sum (map tw l).

  (** six per queued notification, three for a handler between its sections, two per sleeping task, one per fired task *)
  Definition mu (s : st) : nat :=
    6 * List.length (queue s) + (match mid s with Some _ => 3 | None => 0 end) + tsum (tasks s).

  Lemma tsum_app : forall l1 l2, tsum (l1 ++ l2) = tsum l1 + tsum l2.
  Proof. intros. unfold tsum. rewrite map_app. apply list_sum_app. Qed.

  Lemma tsum_mid : forall l1 k l2, tsum (l1 ++ k :: l2) = tsum l1 + tw k + tsum l2.
  Proof. intros. unfold tsum. rewrite map_app, list_sum_app. cbn [map]. change (list_sum (tw k :: map tw l2)) with (tw k + list_sum (map tw l2)). lia. Qed.

  Lemma tsum_cancel : forall i l, tsum (cancel_id i l) = tsum l.
  Proof.
    intros [i|] l; cbn [cancel_id]; [|reflexivity]. unfold tsum. rewrite map_map. f_equal.
    apply map_ext. intros k. destruct (Nat.eqb (tk_id k) i); reflexivity.
  Qed.

  (** every step other than a workspace-diagnostic publish consumes *)
  Lemma step_decreases : forall s s', step s s' ->
    mu s' < mu s \/ (queue s' = queue s /\ mid s' = mid s /\ tasks s' = tasks s).
  Proof.
    intros s s' Hst.
    destruct Hst as [s u t q Hq Hmid | s u q Hq Hmid | s u t Hmid | s u Hmid
                    | s l1 k l2 Ht Hf | s l1 k l2 Ht Hf Hc | s l1 k l2 t Ht Hf Ha | s l1 k l2 Ht Hf Hc | s u t Ha].
    - left. unfold mu. cbn [queue mid tasks]. rewrite Hq, Hmid. cbn [List.length]. lia.
    - left. unfold mu, rm_step1. cbn [queue mid tasks]. rewrite Hq, Hmid. cbn [List.length]. lia.
    - left. unfold mu. cbn [queue mid tasks]. rewrite Hmid.
      assert (He : tsum (mkTask (next s) u false false :: cancel_id (tokens s u) (tasks s)) = 2 + tsum (tasks s)).
      { pose proof (tsum_cancel (tokens s u) (tasks s)) as Hc. unfold tsum in *. cbn [map]. change (list_sum (?a :: ?b)) with (a + list_sum b). rewrite Hc. reflexivity. }
      rewrite He. lia.
    - left. unfold mu, rm_step2. cbn [queue mid tasks]. rewrite Hmid. lia.
    - left. unfold mu. cbn [queue mid tasks]. rewrite Ht. rewrite !tsum_mid. unfold tw. cbn [tk_fired]. rewrite Hf. lia.
    - left. unfold mu. cbn [queue mid tasks]. rewrite Ht. rewrite tsum_mid, tsum_app. unfold tw. rewrite Hf. lia.
    - left. unfold mu. cbn [queue mid tasks]. rewrite Ht. rewrite tsum_mid, tsum_app. unfold tw. rewrite Hf. lia.
    - left. unfold mu. cbn [queue mid tasks]. rewrite Ht. rewrite tsum_mid, tsum_app. unfold tw. rewrite Hf. lia.
    - right. cbn. repeat split; reflexivity.
  Qed.

  (** before quiescence some handler section or task can move *)
  Lemma progress : forall s, ~ quiescent ds s -> exists s', step s s' /\ mu s' < mu s.
  Proof.
    intros s Hnq.
    assert (Hex : exists s', step s s' /\ ~ (queue s' = queue s /\ mid s' = mid s /\ tasks s' = tasks s)).
    { destruct (mid s) as [[u t | u]|] eqn:Hmid.
      - eexists. split; [eapply e_b_edit; eassumption|]. cbn [queue mid tasks]. intros [_ [H _]]. discriminate.
      - eexists. split; [eapply e_b_remove; eassumption|]. unfold rm_step2. cbn [queue mid tasks]. intros [_ [H _]]. discriminate.
      - destruct (queue s) as [|[u t | u] q] eqn:Hq.
        + destruct (tasks s) as [|k l2] eqn:Ht.
          * exfalso. apply Hnq. repeat split; assumption.
          * destruct (tk_fired k) eqn:Hf.
            -- destruct (an s (tk_uri k)) as [t|] eqn:Ha.
               ++ eexists. split; [eapply (t_run_pub _ _ _ _ s [] k l2 t); [exact Ht | exact Hf | exact Ha]|].
                  cbn [queue mid tasks app]. intros [_ [_ H]]. apply (f_equal (@List.length task)) in H. cbn in H. lia.
               ++ eexists. split; [eapply (t_run_skip _ _ _ _ s [] k l2); [exact Ht | exact Hf | right; exact Ha]|].
                  cbn [queue mid tasks app]. intros [_ [_ H]]. apply (f_equal (@List.length task)) in H. cbn in H. lia.
            -- eexists. split; [eapply (t_fire _ _ _ _ s [] k l2); [exact Ht | exact Hf]|].
               cbn [queue mid tasks app]. intros [_ [_ H]]. inversion H as [Hk]. apply (f_equal tk_fired) in Hk. cbn in Hk. congruence.
        + eexists. split; [eapply e_a_edit; [eassumption | assumption]|]. cbn [queue mid tasks]. intros [_ [H _]]. discriminate.
        + eexists. split; [eapply e_a_remove; [eassumption | assumption]|]. unfold rm_step1. cbn [queue mid tasks]. intros [_ [H _]]. discriminate. }
    destruct Hex as [s' [Hst Hne]]. exists s'. split; [assumption|].
    destruct (step_decreases s s' Hst) as [H | H]; [assumption | contradiction].
  Qed.
End Term.
