(** C30/Today.v — obligations over the facts regenerated from today's source (Gen/C30_Order.v, written by
    lib/c29_c30_anchors.py on every run): C30/Model.v is the model of TODAY's code only if they hold. *)
From Coq Require Import List Bool.
From EV Require Import C30.Model C30.Proofs Gen.C30_Order.

(** every clear_push_file_diagnostics call comes after the removal from the analysis and no removal follows it *)
Theorem today_clear_after_remove : clear_after_remove = true.
Proof. reflexivity. Qed.

(** the diagnostic task publishes while it holds analysis.read(), and removes its token afterwards *)
Theorem today_publish_under_read_lock : publish_under_read_lock = true /\ token_removed_after_publish = true.
Proof. split; reflexivity. Qed.

Theorem today_published_converge : forall (ds : Type) (diag : text -> ds) (empty : ds) (s0 s : st ds),
  start ds diag empty s0 -> reach ds diag empty clear_after_remove s0 s -> quiescent ds s ->
  forall u, good ds diag empty s u.
Proof.
  intros ds diag empty s0 s H0 Hr. rewrite today_clear_after_remove in Hr.
  exact (Proofs.published_converge ds diag empty s0 s H0 Hr).
Qed.
