(** C01/Props.v — property theorems only.  Each is closed by [exact] of a lemma of the proof files. *)
From Coq Require Import ZArith.
From EV Require Import Base.Reader Base.ReaderFacts C01.Model C01.LexModel C01.LuaLexer C01.Pump C01.Proofs C01.LexProofs C01.LuaLexerProofs C01.PumpProofs C01.MainProofs C01.DocPump C01.DocPumpProofs.
Local Open Scope N_scope.

(** (d) LuaTreeBuilder::build + LuaGreenNodeBuilder (after the repair of [finish]):
    for EVERY event list — well-bracketed or not, whatever the parent links — if the builder does not panic,
    the leaves of the tree it returns are exactly the event list's tokens, in order (kinds and ranges). *)
Theorem builder_yield : forall (evs : list event) (t : tree),
  run evs = Some t -> leaves t = tokens_of evs.
Proof. exact Proofs.builder_yield. Qed.

(** and the root is a Chunk *)
Theorem builder_root_chunk : forall (evs : list event) (t : tree),
  run evs = Some t -> is_chunk t = true.
Proof. exact Proofs.builder_root_chunk. Qed.

(** the ORIGINAL [finish] (root = first top-level element only) lost text on unbalanced event lists:
    witness = the event shape of ["{,then"]. *)
Theorem builder_yield_orig_refuted : exists evs t, run_orig evs = Some t /\ leaves t <> tokens_of evs.
Proof. exact Proofs.builder_yield_orig_refuted. Qed.

(** (a)+(b) the tokenize loop over the (repaired) Reader, for EVERY lexer step that obeys the step contract
    (whenever the reader is not exhausted: forget the previous token first, then move >= 1 character, do not
    report TkEof, and report a kind satisfying [Pk]): the loop ends by exhaustion, the emitted ranges tile [0, |text|) in order and their slices
    concatenate to the text. *)
Theorem lex_tiles : forall (S : Type) (step : S -> reader -> tkind * S * reader) (Inv : S -> reader -> Prop) (Pk : tkind -> Prop),
  step_contract S step Inv Pk ->
  forall (t : text) (normal : bool) (st0 : S),
    (forall r cs, moved (reader_new t) r cs -> is_eof r = false -> Inv st0 r) -> Pk TK_TkShebang ->
    let '(toks, r', exhausted) := tokenize S step normal st0 t in
    exhausted = true /\ tiles toks 0 (bytes t) /\ concat_slices t toks = Some t /\ Forall (fun x => Pk (fst x)) toks.
Proof. exact LexProofs.lex_tiles. Qed.

(** the transcription of lua_lexer.rs satisfies the step contract — for EVERY feature set (language level +
    non-standard symbols) and every classification of non-ASCII characters as alphabetic/alphanumeric — with the
    invariant "the lexer state is Normal whenever the reader is not exhausted", and only reports kinds the parser
    does not drop *)
Theorem lua_lexer_contract : forall (feats : list N) (uni_alpha uni_alnum : cp -> bool),
  step_contract lstate (lua_step feats uni_alpha uni_alnum) lua_inv alive_kind.
Proof. exact LuaLexerProofs.lua_lexer_contract. Qed.

(** hence its token list tiles every text (NUL, BOM and unterminated strings/comments included), spells it, and
    contains no token of a kind that [bump] would drop *)
Theorem lua_lex_tiles : forall (feats : list N) (uni_alpha uni_alnum : cp -> bool) (t : text),
  let toks := lua_tokenize feats uni_alpha uni_alnum t in
  tiles toks 0 (bytes t) /\ concat_slices t toks = Some t /\ Forall (fun x => dead_kind (fst x) = false) toks.
Proof. exact LuaLexerProofs.lua_lex_tiles. Qed.

(** (c) the token pump + marker API as a state machine, for EVERY sequence of client operations (mark / set_kind /
    complete / undo / precede / push_node_end / init / bump / set_current_token_kind) and EVERY behaviour of the
    doc-comment parser (its operations are carried by the bumps):

    mark_level_exact — if every operation respected the client discipline ([p_disc]: kinds are never None; set_kind,
    undo and complete address a start that has not been erased; init once and first; no retag to None/TkEof), the
    parser's [mark_level] equals the bracket depth of the event list (non-erased starts minus ends).  This is the
    accounting that error recovery relies on ([for _ in 0..(current_level - level) { push_node_end }]); it was false
    before the repair of [Marker::undo] / empty [complete]. *)
Theorem mark_level_exact : forall (toks : list leaf) (doc : bool) (ops : list op) (st : pst),
  exec_ops false (pst_new toks doc) ops = Some st -> p_disc st = true ->
  snd (p_m st) = depth (fst (p_m st)).
Proof. exact PumpProofs.mark_level_exact. Qed.

(** markers_balanced — for such a client, at every moment: no prefix of the event list contains more NodeEnds than
    non-erased NodeStarts (so the event list is well-bracketed once the None starts are erased, as soon as the mark
    level is back to 0), and the mark level is the number of nodes still open.  The discipline [p_disc] includes:
    a NodeEnd is pushed (by complete or by error recovery) only while the mark level is positive, and a node that is
    undone has not been closed by a later NodeEnd ([unclosed]); both are evaluated on every recorded real trace. *)
Theorem markers_balanced : forall (toks : list leaf) (doc : bool) (ops : list op) (st : pst),
  exec_ops false (pst_new toks doc) ops = Some st -> p_disc st = true ->
  prefix_ok (fst (p_m st)) 0 = true /\ snd (p_m st) = depth (fst (p_m st)).
Proof. exact PumpProofs.markers_balanced. Qed.

(** pump_emits_all — if the lexer's tokens tile [0,total), none has a kind the pump drops (None, TkEof), the client
    respected the discipline and every doc-parser run re-emitted a tiling of the range it was handed ([p_doc_ok], the
    obligation of the un-modelled LuaDocParser), then at every moment the EatToken events tile exactly the range of
    the tokens before the current one; once the current token is Eof they tile [0,total). *)
Theorem pump_emits_all : forall (toks : list leaf) (total : N) (doc : bool) (ops : list op) (st : pst),
  tiles toks 0 total -> alive toks ->
  exec_ops false (pst_new toks doc) ops = Some st -> p_disc st = true -> p_doc_ok st = true ->
  exists a, tiles (firstn (p_index st) (p_tokens st)) 0 a /\ tiles (tokens_of (fst (p_m st))) 0 a /\
            (p_inited st = true -> p_current st = TK_TkEof -> a = total).
Proof. exact PumpProofs.pump_emits_all. Qed.

(** (c') the token pump of LuaDocParser (init / bump / calc_next_current_token / eat_current_and_lex_next / lex_token /
    re_calc_detail / re_calc_cast_type / bump_to_end / set_current_token_kind) over an ABSTRACT doc lexer:

    doc_pump_tiles — for every comment group whose tokens are non-empty and tile [G0,G1), every sequence of pump
    primitives and marker operations, and every stream of doc-lexer results: if the results respected the Reader
    discipline ([d_lex_ok]: each token has length >= 1, stays inside the comment token being re-lexed, and its kind
    is not None/TkEof), the client respected the discipline ([d_disc]: re_calc_* only right after a token was lexed
    from a live reader, retagging only a pending token to a valid kind, bump_to_end only on a pending token), and
    the run ended with current = TkEof (the only way parse_docs leaves its loop), then the tokens the doc parser
    pushed tile [G0,G1) in order. *)
Theorem doc_pump_tiles : forall (G1 G0 : N) (toks : list leaf) (answers : list (tkind * N)) (ops : list pop) (st : dst),
  nonempty_toks toks -> tiles toks G0 G1 ->
  doc_run toks answers ops = Some st ->
  d_disc st = true -> d_lex_ok st = true -> d_cur st = TK_TkEof ->
  tiles (deats (d_out st)) G0 G1.
Proof. exact DocPumpProofs.doc_pump_tiles. Qed.

(** hence the obligation [p_doc_ok] of pump_emits_all / C01_main (each doc-parser run re-emits a tiling of the range it
    was handed) is met by every run of the modelled doc pump: the conjunct that [parse_comments] accumulates is true.
    What remains checked on traces only: that the real doc parser's run IS such a run (replay), and the three
    hypotheses above for the real doc lexer and the real doc grammar. *)
Theorem doc_obligation_from_pump : forall (group prefix trailing : list leaf) (answers : list (tkind * N)) (ops : list pop) (st : dst) (a0 a1 : N),
  split_trailing group = (prefix, trailing) -> prefix <> [] -> tiles group a0 a1 -> nonempty_toks prefix ->
  doc_run prefix answers ops = Some st -> d_disc st = true -> d_lex_ok st = true -> d_cur st = TK_TkEof ->
  tilesb (deats (d_out st)) (fst (doc_range group prefix)) (snd (doc_range group prefix)) = true.
Proof.
  intros group prefix trailing answers ops st a0 a1 Hs Hne Ht Hn Hr Hd Hk Hc.
  pose proof (split_trailing_app _ _ _ Hs) as Hg. rewrite Hg in Ht.
  destruct (tiles_app_inv _ _ _ _ Ht) as (m & Hp & _).
  apply LexProofs.tilesb_tiles. unfold doc_range. cbn [fst snd].
  destruct prefix as [|p0 pr]; [congruence|].
  assert (Hstart : group_start group = a0).
  { rewrite Hg. cbn [app]. eapply tiles_start. cbn [app] in Ht. exact Ht. }
  rewrite Hstart, (tiles_end (p0 :: pr) a0 m ltac:(discriminate) Hp).
  eapply DocPumpProofs.doc_pump_tiles; eauto.
Qed.

(** C01_main — the composition: any contract-respecting lexer step, any disciplined client that stops at Eof with
    the doc obligation met, any run of the builder that does not panic: the leaves of the tree tile the input and,
    if every token's text slice exists, the tree's text is the input. *)
Theorem C01_main :
  forall (S : Type) (step : S -> reader -> tkind * S * reader) (Inv : S -> reader -> Prop),
    step_contract S step Inv (fun k => dead_kind k = false) ->
    forall (t : text) (normal : bool) (st0 : S),
      (forall r cs, moved (reader_new t) r cs -> is_eof r = false -> Inv st0 r) ->
      let toks := fst (fst (tokenize S step normal st0 t)) in
      forall (doc : bool) (ops : list op) (st : pst) (tr : tree),
        exec_ops false (pst_new toks doc) ops = Some st ->
        p_disc st = true -> p_doc_ok st = true -> p_inited st = true -> p_current st = TK_TkEof ->
        run (fst (p_m st)) = Some tr ->
        tiles (leaves tr) 0 (bytes t) /\
        (forall x, tree_text t tr = Some x -> x = t).
Proof. exact MainProofs.C01_main. Qed.

(** C01_lua — C01_main with the transcribed Lua lexer plugged in: no hypothesis on the lexer is left *)
Theorem C01_lua : forall (feats : list N) (uni_alpha uni_alnum : cp -> bool) (t : text)
                         (doc : bool) (ops : list op) (st : pst) (tr : tree),
  exec_ops false (pst_new (lua_tokenize feats uni_alpha uni_alnum t) doc) ops = Some st ->
  p_disc st = true -> p_doc_ok st = true -> p_inited st = true -> p_current st = TK_TkEof ->
  run (fst (p_m st)) = Some tr ->
  tiles (leaves tr) 0 (bytes t) /\ (forall x, tree_text t tr = Some x -> x = t).
Proof.
  intros feats ua un t doc ops st tr.
  apply (MainProofs.C01_main lstate (lua_step feats ua un) lua_inv (LuaLexerProofs.lua_lexer_contract feats ua un) t true LNormal).
  intros; reflexivity.
Qed.

(** non-vacuity of the lexer theorems: a NUL in the middle of the text is an ordinary (unknown) character and the
    tokens after it are still produced; ["--[=[x"] is an unterminated long comment that runs to the end *)
Example lexer_example :
  lua_tokenize (level_features L_Lua54) (fun _ => false) (fun _ => false) [97; 0; 98; 10; 45; 45; 91; 61; 91; 120]
  = [(TK_TkName, (0, 1)); (TK_TkUnknown, (1, 1)); (TK_TkName, (2, 1)); (TK_TkEndOfLine, (3, 1)); (TK_TkLongComment, (4, 6))].
Proof. vm_compute. reflexivity. Qed.

(** non-vacuity of the doc pump theorem: the run of the doc parser on ["---@type string"] (one comment token 0..15):
    init bump, then the bumps of parse_tag_type with the real lexer answers; re_calc_detail on a second run *)
Example doc_pump_example :
  match doc_run [(TK_TkShortComment, (0, 15))]
                [(TK_TkDocStart, 4); (TK_TkTagType, 4); (TK_TkWhitespace, 1); (TK_TkName, 6)]
                [PMarker (DMark SK_Comment); PBump 3; PMarker (DMark SK_DocTagType); PBump 0; PBump 0] with
  | Some st => d_disc st = true /\ d_lex_ok st = true /\ d_cur st = TK_TkEof /\
               deats (d_out st) = [(TK_TkDocStart, (0, 4)); (TK_TkTagType, (4, 4)); (TK_TkWhitespace, (8, 1)); (TK_TkName, (9, 6))]
  | None => False
  end
  /\ match doc_run [(TK_TkShortComment, (0, 9))]
                  [(TK_TkNormalStart, 3); (TK_TkName, 2); (TK_TkDocDetail, 6)]
                  [PBump 3; PRecalcDetail; PBump 3; PBump 3] with
     | Some st => d_disc st = true /\ d_lex_ok st = true /\ d_cur st = TK_TkEof /\
                  deats (d_out st) = [(TK_TkNormalStart, (0, 3)); (TK_TkDocDetail, (3, 6))]
     | None => False
     end.
Proof. vm_compute. repeat split. Qed.

(** non-vacuity of the pump theorems: the operation sequence of [parse_chunk] on the tokens of ["a -- c\nb"]
    (doc off): init, mark, bumps; the hypotheses hold and the events tile [0,8). *)
Example pump_example :
  let toks := [(TK_TkName, (0, 1)); (TK_TkWhitespace, (1, 1)); (TK_TkShortComment, (2, 4)); (TK_TkEndOfLine, (6, 1)); (TK_TkName, (7, 1))] in
  match exec_ops false (pst_new toks false) [OMark SK_Block; OInit []; OMark SK_NameExpr; OBump []; OComplete 1%nat; OBump []; OComplete 0%nat] with
  | Some st => p_disc st = true /\ p_doc_ok st = true /\ p_current st = TK_TkEof /\ snd (p_m st) = 0%Z /\
               tokens_of (fst (p_m st)) = toks /\ prefix_ok (fst (p_m st)) 0 = true
  | None => False
  end.
Proof. vm_compute. repeat split. Qed.

(** non-vacuity: an unbalanced event list (the Chunk is closed early, two tokens follow) builds a tree with
    all three tokens; a balanced one with a [precede] link builds the expected nesting. *)
Example builder_example :
  run orig_witness = Some (Node SK_Chunk [Node SK_Block [Tok TK_TkLeftBrace 0 1]; Tok TK_TkComma 1 1; Tok TK_TkThen 2 4])
  /\ run [NodeStart SK_Block 0; NodeStart SK_NameExpr 4; EatToken TK_TkName 0 1; NodeEnd; NodeStart SK_CallExpr 0; Trivia;
          EatToken TK_TkLeftParen 1 1; NodeEnd; NodeEnd]
     = Some (Node SK_Chunk [Node SK_Block [Node SK_CallExpr [Node SK_NameExpr [Tok TK_TkName 0 1]; Tok TK_TkLeftParen 1 1]]]).
Proof. split; vm_compute; reflexivity. Qed.
