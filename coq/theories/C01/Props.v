(** C01/Props.v — property theorems only.  Each is closed by [exact] of a lemma of the proof files. *)
From EV Require Import Base.Reader Base.ReaderFacts C01.Model C01.LexModel C01.Proofs C01.LexProofs.
Local Open Scope N_scope.

(** (d) LuaTreeBuilder::build + LuaGreenNodeBuilder (after the repair of [finish]):
    for EVERY event list — well-bracketed or not, whatever the parent links — if the builder does not panic,
    the leaves of the tree it returns are exactly the event list's tokens, in order (kinds and ranges). *)
Theorem builder_yield : forall (evs : list event) (t : tree),
  run evs = Some t -> leaves t = tokens_of evs.
Proof. exact Proofs.builder_yield. Qed.

(** and the root is a Chunk *)
Theorem builder_root_chunk : forall (evs : list event) (t : tree),
  run evs = Some t -> is_chunk t = true.
Proof. exact Proofs.builder_root_chunk. Qed.

(** the ORIGINAL [finish] (root = first top-level element only) lost text on unbalanced event lists:
    witness = the event shape of ["{,then"]. *)
Theorem builder_yield_orig_refuted : exists evs t, run_orig evs = Some t /\ leaves t <> tokens_of evs.
Proof. exact Proofs.builder_yield_orig_refuted. Qed.

(** (a)+(b) the tokenize loop over the (repaired) Reader, for EVERY lexer step that obeys the step contract
    (forget the previous token first, then move >= 1 character unless the reader is exhausted, report TkEof
    only when exhausted): the loop ends by exhaustion, the emitted ranges tile [0, |text|) in order and
    their slices concatenate to the text. *)
Theorem lex_tiles : forall (S : Type) (step : S -> reader -> tkind * S * reader) (Inv : S -> reader -> Prop),
  step_contract S step Inv ->
  forall (t : text) (normal : bool) (st0 : S),
    (forall r cs, moved (reader_new t) r cs -> is_eof r = false -> Inv st0 r) ->
    let '(toks, r', exhausted) := tokenize S step normal st0 t in
    exhausted = true /\ tiles toks 0 (bytes t) /\ concat_slices t toks = Some t.
Proof. exact LexProofs.lex_tiles. Qed.

(** non-vacuity: an unbalanced event list (the Chunk is closed early, two tokens follow) builds a tree with
    all three tokens; a balanced one with a [precede] link builds the expected nesting. *)
Example builder_example :
  run orig_witness = Some (Node SK_Chunk [Node SK_Block [Tok TK_TkLeftBrace 0 1]; Tok TK_TkComma 1 1; Tok TK_TkThen 2 4])
  /\ run [NodeStart SK_Block 0; NodeStart SK_NameExpr 4; EatToken TK_TkName 0 1; NodeEnd; NodeStart SK_CallExpr 0; Trivia;
          EatToken TK_TkLeftParen 1 1; NodeEnd; NodeEnd]
     = Some (Node SK_Chunk [Node SK_Block [Node SK_CallExpr [Node SK_NameExpr [Tok TK_TkName 0 1]; Tok TK_TkLeftParen 1 1]]]).
Proof. split; vm_compute; reflexivity. Qed.
