(** C01/MainProofs.v — composition of the four layers. *)
From Coq Require Import PeanoNat.
From EV Require Import Base.TextFacts Base.Reader Base.ReaderFacts C01.Model C01.LexModel C01.Pump
                       C01.Proofs C01.LexProofs C01.PumpProofs.
Local Open Scope N_scope.

Lemma drop_bytes_spec : forall t n r, drop_bytes t n = Some r -> exists p, t = p ++ r /\ bytes p = n.
Proof.
  induction t as [|c t IH]; intros n r H; cbn [drop_bytes] in H.
  - destruct (N.eqb_spec n 0) as [E|E]; [|discriminate]. inversion H; subst. exists []. split; reflexivity.
  - destruct (N.eqb_spec n 0) as [E|E].
    + inversion H; subst. exists []. split; reflexivity.
    + destruct (N.ltb_spec n (blen c)) as [L|L]; [discriminate|].
      destruct (IH _ _ H) as (p & E1 & E2). exists (c :: p). split; [cbn [app]; f_equal; exact E1|]. cbn [bytes]. lia.
Qed.

Lemma slice_spec : forall t a b w, slice t a b = Some w ->
  exists p r, t = p ++ w ++ r /\ bytes p = a /\ bytes w = b - a.
Proof.
  intros t a b w H. unfold slice in H. destruct (N.ltb_spec b a) as [|Hab]; [discriminate|].
  destruct (drop_bytes t a) as [r0|] eqn:Hd; [|discriminate].
  destruct (drop_bytes_spec _ _ _ Hd) as (p & E1 & E2).
  destruct (take_bytes_spec _ _ _ H) as (r & E3 & E4).
  exists p, r. subst. repeat split; auto.
Qed.

Lemma same_prefix : forall (p p' r r' : text), p ++ r = p' ++ r' -> bytes p = bytes p' -> p = p' /\ r = r'.
Proof.
  induction p as [|c p IH]; intros [|c' p'] r r' H Hb; cbn [app bytes] in *.
  - auto.
  - pose proof (blen_pos c'). lia.
  - pose proof (blen_pos c). lia.
  - inversion H; subst. destruct (IH p' r r' H2) as [A B]; [lia|]. subst. auto.
Qed.

(** if the ranges tile [a, |t|) and every slice exists (no panic), the slices spell the rest of the text *)
Lemma tiles_concat_from : forall t ls p rest x,
  t = p ++ rest -> tiles ls (bytes p) (bytes t) -> concat_slices t ls = Some x -> x = rest.
Proof.
  intros t. induction ls as [|[k [s l]] ls IH]; intros p rest x Ht Hti Hc; cbn [tiles concat_slices] in *.
  - inversion Hc; subst x. rewrite Ht, bytes_app in Hti.
    destruct rest as [|c rest]; [reflexivity|]. cbn [bytes] in Hti. pose proof (blen_pos c). lia.
  - destruct Hti as [Hs Hti]. subst s.
    destruct (slice t (bytes p) (bytes p + l)) as [w|] eqn:Hsl; [|discriminate].
    destruct (concat_slices t ls) as [x'|] eqn:Hx; [|discriminate]. inversion Hc; subst x.
    destruct (slice_spec _ _ _ _ Hsl) as (p' & r' & E1 & E2 & E3).
    rewrite Ht in E1. destruct (same_prefix _ _ _ _ E1 (eq_sym E2)) as [Ep Er]. subst p' rest.
    f_equal. eapply (IH (p ++ w) r'); [rewrite Ht, app_assoc; reflexivity| |reflexivity].
    rewrite bytes_app. replace (bytes w) with l by lia. exact Hti.
Qed.

Lemma tiles_concat : forall t ls x, tiles ls 0 (bytes t) -> concat_slices t ls = Some x -> x = t.
Proof. intros t ls x H Hc. eapply (tiles_concat_from t ls [] t x); eauto. Qed.

(** C01_main: lexer (any contract-respecting step) -> pump (any disciplined client that stops at Eof, doc parser
    obligation met) -> builder (any event list): the leaves of the tree tile the text, and its text is the input. *)
Lemma C01_main :
  forall (S : Type) (step : S -> reader -> tkind * S * reader) (Inv : S -> reader -> Prop),
    step_contract S step Inv (fun k => dead_kind k = false) ->
    forall (t : text) (normal : bool) (st0 : S),
      (forall r cs, moved (reader_new t) r cs -> is_eof r = false -> Inv st0 r) ->
      let toks := fst (fst (tokenize S step normal st0 t)) in
      forall (doc : bool) (ops : list op) (st : pst) (tr : tree),
        exec_ops false (pst_new toks doc) ops = Some st ->
        p_disc st = true -> p_doc_ok st = true -> p_inited st = true -> p_current st = TK_TkEof ->
        run (fst (p_m st)) = Some tr ->
        tiles (leaves tr) 0 (bytes t) /\
        (forall x, tree_text t tr = Some x -> x = t).
Proof.
  intros S step Inv Hc t normal st0 Hinit toks doc ops st tr Hex Hd Hk Hi Hcur Hrun.
  pose proof (lex_tiles S step Inv _ Hc t normal st0 Hinit eq_refl) as Hlex.
  destruct (tokenize S step normal st0 t) as [[toks0 r'] ex] eqn:Etok. cbn [fst] in toks. subst toks.
  destruct Hlex as (_ & Hti & _ & Halive).
  destruct (pump_emits_all toks0 (bytes t) doc ops st Hti Halive Hex Hd Hk) as (a & _ & F2 & F3).
  specialize (F3 Hi Hcur). subst a.
  assert (Hleaves : tiles (leaves tr) 0 (bytes t)) by (rewrite (builder_yield _ _ Hrun); exact F2).
  split; [exact Hleaves|]. intros x Hx. unfold tree_text in Hx. eapply tiles_concat; eauto.
Qed.
