(** C01/LexProofs.v — the tokenize loop tiles the text, for every contract-respecting lexer step. *)
From Coq Require Import PeanoNat.
From EV Require Import Base.TextFacts Base.Reader Base.ReaderFacts C01.Model C01.Proofs C01.LexModel.
Local Open Scope N_scope.

Lemma tiles_snoc : forall acc a b k l, tiles acc a b -> tiles (acc ++ [(k, (b, l))]) a (b + l).
Proof.
  induction acc as [|[k0 [s0 l0]] acc IH]; intros a b k l H; cbn [tiles app] in *.
  - subst. split; reflexivity.
  - destruct H as [H1 H2]. split; [exact H1|]. apply IH. exact H2.
Qed.

Lemma tilesb_tiles : forall ls a b, tilesb ls a b = true <-> tiles ls a b.
Proof.
  induction ls as [|[k [s l]] ls IH]; intros a b; cbn [tilesb tiles].
  - apply N.eqb_eq.
  - rewrite andb_true_iff, N.eqb_eq, IH. reflexivity.
Qed.

Section Contract.
  Variable S : Type.
  Variable step : S -> reader -> tkind * S * reader.
  (** what is known about (state, reader) whenever the loop calls the step *)
  Variable Inv : S -> reader -> Prop.
  (** a property of the kinds the step reports (e.g. "not a kind the parser drops") *)
  Variable Pk : tkind -> Prop.

  (** The step contract, for the calls the loop makes (reader not exhausted): the step first forgets the previous
      token ([reset_buff]), then moves at least one character [cs] of the unread text into the buffer, and does not
      report [TkEof]. *)
  Definition step_contract : Prop :=
    forall st r, reader_wf r -> is_eof r = false -> Inv st r ->
      let '(k, st', r') := step st r in
      exists cs, moved (reset_buff r) r' cs /\ cs <> [] /\ k <> TK_TkEof /\ Pk k /\ (is_eof r' = false -> Inv st' r').

  Hypothesis Hstep : step_contract.

  (** loop invariant: the text is [done ++ cur ++ unread]; the emitted ranges tile [0, |done ++ cur|) and
      spell [done ++ cur] *)
  Definition covers (t : text) (r : reader) (acc : list leaf) : Prop :=
    exists done cur, t = done ++ cur ++ r_rest r /\ bytes done = r_pos r /\ bytes cur = r_len r /\
                     r_start r = 0 /\ reader_wf r /\
                     tiles acc 0 (r_pos r + r_len r) /\ concat_slices t acc = Some (done ++ cur).

  Lemma tok_loop_spec : forall fuel t st r acc,
    (length (r_rest r) < fuel)%nat -> covers t r acc -> (is_eof r = false -> Inv st r) ->
    Forall (fun x => Pk (fst x)) acc ->
    let '(toks, r', ex) := tok_loop S step fuel st r acc in
    ex = true /\ tiles toks 0 (bytes t) /\ concat_slices t toks = Some t /\ Forall (fun x => Pk (fst x)) toks.
  Proof.
    induction fuel as [|f IH]; intros t st r acc Hf Hc Hinv Hacc; [lia|].
    cbn [tok_loop]. destruct (is_eof r) eqn:Heof.
    - destruct Hc as (done & cur & Ht & Hd & Hcu & Hs & Hwf & Hti & Hco).
      apply (wf_eof_iff r Hwf) in Heof. rewrite Heof in Ht. rewrite app_nil_r in Ht.
      split; [reflexivity|]. split.
      + replace (bytes t) with (r_pos r + r_len r) by (rewrite Ht, bytes_app; lia). exact Hti.
      + split; [rewrite <- Ht in Hco; exact Hco|exact Hacc].
    - destruct Hc as (done & cur & Ht & Hd & Hcu & Hs & Hwf & Hti & Hco).
      specialize (Hstep st r Hwf Heof (Hinv eq_refl)).
      destruct (step st r) as [[k st'] r'].
      destruct Hstep as (cs & Hmv & Hprog & Hkeof & Hpk & Hinv').
      destruct (N.eqb_spec k TK_TkEof) as [Ek|Ek]; [congruence|].
      destruct Hmv as (M1 & M2 & M3 & M4 & M5 & M6). cbn [reset_buff r_rest r_len r_pos r_total r_start] in *.
      apply IH.
      + rewrite M1, app_length in Hf. destruct cs; [congruence|cbn in Hf; lia].
      + exists (done ++ cur), cs. unfold current_range.
        repeat split.
        * rewrite Ht, M1, <- app_assoc. reflexivity.
        * rewrite bytes_app. lia.
        * lia.
        * congruence.
        * exact M6.
        * rewrite M5, Hs, M3. cbn [N.add]. replace (0 + (r_pos r + r_len r)) with (r_pos r + r_len r) by lia.
          apply tiles_snoc. exact Hti.
        * apply concat_slices_app; [exact Hco|]. cbn [concat_slices].
          rewrite M5, Hs, M3. replace (0 + (r_pos r + r_len r)) with (bytes (done ++ cur)) by (rewrite bytes_app; lia).
          replace (r_len r') with (bytes cs) by lia.
          rewrite Ht, M1. rewrite app_assoc.
          rewrite (slice_app (done ++ cur) cs (r_rest r') _ _ eq_refl eq_refl). rewrite app_nil_r. reflexivity.
      + exact Hinv'.
      + apply Forall_app. split; [exact Hacc|]. constructor; [exact Hpk|constructor].
  Qed.

  (** lex_tiles *)
  Lemma lex_tiles : forall t normal st0,
    (forall r cs, moved (reader_new t) r cs -> is_eof r = false -> Inv st0 r) -> Pk TK_TkShebang ->
    let '(toks, r', ex) := tokenize S step normal st0 t in
    ex = true /\ tiles toks 0 (bytes t) /\ concat_slices t toks = Some t /\ Forall (fun x => Pk (fst x)) toks.
  Proof.
    intros t normal st0 Hinit Hsheb. unfold tokenize, tokenize_from.
    pose proof (reader_new_wf t 0) as Hwf0. fold (reader_new t) in Hwf0.
    destruct (normal && (current_char (reader_new t) =? 35)).
    - destruct (eat_while_moved not_newline (reader_new t) Hwf0) as (cs & Hmv).
      set (r1 := fst (eat_while not_newline (reader_new t))) in *.
      pose proof Hmv as (M1 & M2 & M3 & M4 & M5 & M6). cbn [reader_new reader_new_at r_rest r_len r_pos r_total r_start] in *.
      apply tok_loop_spec.
      + rewrite M1, app_length. lia.
      + exists [], cs. unfold current_range. rewrite M3, M5, M2. cbn [app bytes].
        split; [exact M1|]. split; [reflexivity|]. split; [lia|]. split; [reflexivity|]. split; [exact M6|].
        split.
        * cbn [tiles]. split; [reflexivity|]. lia.
        * cbn [concat_slices].
          assert (Hsl : slice t (0 + 0) (0 + 0 + (0 + bytes cs)) = Some cs).
          { rewrite M1 at 1. change (cs ++ r_rest r1) with ([] ++ cs ++ r_rest r1).
            apply slice_app; cbn [bytes]; lia. }
          rewrite Hsl, app_nil_r. reflexivity.
      + intros He. eapply Hinit; eauto.
      + constructor; [exact Hsheb|constructor].
    - apply tok_loop_spec.
      + cbn. lia.
      + exists [], []. cbn. repeat split; reflexivity.
      + intros He. eapply Hinit; [apply moved_refl; exact Hwf0|exact He].
      + constructor.
  Qed.
End Contract.
