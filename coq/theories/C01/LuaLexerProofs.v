(** C01/LuaLexerProofs.v — the transcribed Lua lexer satisfies the step contract, for every feature set and every
    classification of non-ASCII characters. *)
From Coq Require Import PeanoNat.
From EV Require Import Base.TextFacts Base.Reader Base.ReaderFacts C01.Model C01.LexModel C01.LuaLexer C01.Pump C01.LexProofs.
Local Open Scope N_scope.

(** [R a x]: [x] is [a] after moving some characters into the buffer; [Rp]: at least one *)
Definition R (a x : reader) : Prop := exists cs, moved a x cs.
Definition Rp (a x : reader) : Prop := exists cs, moved a x cs /\ cs <> [].

Lemma R_wf : forall a x, R a x -> reader_wf x.
Proof. intros a x [cs H]. apply H. Qed.

Lemma R_refl : forall a, reader_wf a -> R a a.
Proof. intros a H. exists []. apply moved_refl. exact H. Qed.

Lemma R_trans : forall a x y, R a x -> (reader_wf x -> R x y) -> R a y.
Proof. intros a x y [c1 H1] H2. destruct (H2 (R_wf _ _ (ex_intro _ c1 H1))) as [c2 H2']. exists (c1 ++ c2). eapply moved_trans; eauto. Qed.

Lemma Rp_R : forall a x, Rp a x -> R a x.
Proof. intros a x (cs & H & _). exists cs. exact H. Qed.

Lemma Rp_step : forall a x y, Rp a x -> (reader_wf x -> R x y) -> Rp a y.
Proof.
  intros a x y (c1 & H1 & N1) H2. assert (W : reader_wf x) by apply H1. destruct (H2 W) as [c2 H2'].
  exists (c1 ++ c2). split; [eapply moved_trans; eauto|]. destruct c1; [congruence|discriminate].
Qed.

Lemma mono_bump : forall x, reader_wf x -> R x (bump x).
Proof. intros x H. destruct (bump_moved x H) as (cs & M & _). exists cs. exact M. Qed.

Lemma prog_bump : forall a, reader_wf a -> is_eof a = false -> Rp a (bump a).
Proof. intros a H E. destruct (bump_moved a H) as (cs & M & P). exists cs. split; [exact M|apply P; exact E]. Qed.

Lemma mono_eat : forall p x, reader_wf x -> R x (fst (eat_while p x)).
Proof. intros p x H. destruct (eat_while_moved p x H) as (cs & M). exists cs. exact M. Qed.

Lemma mono_eat_when : forall c x, reader_wf x -> R x (fst (eat_when c x)).
Proof. intros. apply mono_eat. assumption. Qed.

Lemma wf_rest_nonempty : forall a, reader_wf a -> is_eof a = false -> exists c rest, r_rest a = c :: rest.
Proof.
  intros a H E. destruct (r_rest a) as [|c rest] eqn:Hr; [|eauto].
  assert (is_eof a = true) by (apply wf_eof_iff; assumption). congruence.
Qed.

Lemma prog_eat : forall p a, reader_wf a -> is_eof a = false -> p (current_char a) = true -> Rp a (fst (eat_while p a)).
Proof.
  intros p a H E Hp. destruct (wf_rest_nonempty a H E) as (c & rest & Hr).
  unfold eat_while. rewrite Hr. cbn [eat_while_go]. rewrite E, Hp. cbn [negb andb].
  eapply Rp_step; [apply prog_bump; assumption|]. intros W.
  destruct (eat_while_go_moved p rest (bump a) (0 + 1) W) as (cs & M). exists cs. exact M.
Qed.

Ltac ifs := repeat match goal with |- context [if ?b then _ else _] => destruct b eqn:? end.

Lemma mono_new_line : forall x, reader_wf x -> R x (lex_new_line x).
Proof.
  intros x H. unfold lex_new_line. ifs; try (apply R_refl; assumption);
    try (apply mono_bump; assumption);
    (eapply R_trans; [apply mono_bump; assumption|intros; apply mono_bump; assumption]).
Qed.

Lemma prog_new_line : forall a, reader_wf a -> is_eof a = false -> (cur_is a 10 || cur_is a 13) = true -> Rp a (lex_new_line a).
Proof.
  intros a H E C. unfold lex_new_line. destruct (cur_is a 10) eqn:C1.
  - destruct (cur_is (bump a) 13); [eapply Rp_step; [apply prog_bump; assumption|intros; apply mono_bump; assumption]|apply prog_bump; assumption].
  - cbn [orb] in C. rewrite C.
    destruct (cur_is (bump a) 10); [eapply Rp_step; [apply prog_bump; assumption|intros; apply mono_bump; assumption]|apply prog_bump; assumption].
Qed.

Section Lexer.
  Variable feats : list N.
  Variable uni_alpha uni_alnum : cp -> bool.
  Notation lex := (lex feats uni_alpha uni_alnum).
  Notation lua_step := (lua_step feats uni_alpha uni_alnum).
  Notation lex_number := (lex_number feats).
  Notation number_loop := (number_loop feats).
  Notation number_prefix_loop := (number_prefix_loop feats).

  Lemma mono_string_loop : forall fuel q x, reader_wf x -> R x (lex_string_loop fuel q x).
  Proof.
    induction fuel as [|f fuel IH]; intros q x H; cbn [lex_string_loop]; [apply R_refl; assumption|].
    ifs; try (apply R_refl; assumption).
    - eapply R_trans; [apply mono_bump; assumption|intros; apply IH; assumption].
    - eapply R_trans; [apply mono_bump; assumption|intros W1].
      eapply R_trans; [apply mono_bump; assumption|intros W2].
      eapply R_trans; [apply mono_eat; assumption|intros; apply IH; assumption].
    - eapply R_trans; [apply mono_bump; assumption|intros W1].
      eapply R_trans; [apply mono_new_line; assumption|intros; apply IH; assumption].
    - eapply R_trans; [apply mono_bump; assumption|intros W1].
      eapply R_trans; [apply mono_bump; assumption|intros; apply IH; assumption].
  Qed.

  (** what a step has to deliver, relative to the reader [a] it started from (after reset_buff) *)
  Definition good (a : reader) (res : tkind * lstate * reader) : Prop :=
    let '(k, st', r') := res in
    Rp a r' /\ (k <> TK_TkEof /\ dead_kind k = false) /\ (is_eof r' = false -> st' = LNormal).
  (** the same without the progress requirement (used for the non-Normal states, which continue a token) *)
  Definition okay (a : reader) (res : tkind * lstate * reader) : Prop :=
    let '(k, st', r') := res in
    R a r' /\ (k <> TK_TkEof /\ dead_kind k = false) /\ (is_eof r' = false -> st' = LNormal).

  Lemma kind_ne : forall k, (k =? TK_TkEof) = false -> k <> TK_TkEof.
  Proof. intros k H. apply N.eqb_neq. exact H. Qed.

  Lemma kind_ok : forall k, (k =? TK_TkEof) = false -> dead_kind k = false -> k <> TK_TkEof /\ dead_kind k = false.
  Proof. intros k H D. split; [apply kind_ne; exact H|exact D]. Qed.

  Lemma eof_bump_false : forall x, is_eof (bump x) = false -> is_eof x = false.
  Proof. intros x H. unfold bump in H. destruct (is_eof x) eqn:E; [congruence|reflexivity]. Qed.

  Lemma lex_string_okay : forall q st a x, R a x -> okay a (lex_string q st x).
  Proof.
    intros q st a x Hx. unfold lex_string.
    set (y := lex_string_loop (r_rest x) q x).
    assert (Hy : R a y) by (eapply R_trans; [exact Hx|intros; apply mono_string_loop; assumption]).
    destruct (cur_is y q) eqn:Cq; cbn [negb orb].
    - split; [eapply R_trans; [exact Hy|intros; apply mono_bump; assumption]|]. split; [apply kind_ok; reflexivity|reflexivity].
    - split; [exact Hy|]. split; [apply kind_ok; reflexivity|]. intros E. rewrite E. reflexivity.
  Qed.

  Lemma lex_string_good : forall q st a x, Rp a x -> good a (lex_string q st x).
  Proof.
    intros q st a x Hx. pose proof (lex_string_okay q st x x (R_refl _ (R_wf _ _ (Rp_R _ _ Hx)))) as H.
    unfold good, okay in *. destruct (lex_string q st x) as [[k st'] r']. destruct H as (H1 & H2 & H3).
    split; [eapply Rp_step; [exact Hx|intros; exact H1]|auto].
  Qed.

  Lemma mono_long_loop : forall fuel sep x, reader_wf x -> R x (snd (lex_long_loop fuel sep x)).
  Proof.
    induction fuel as [|f fuel IH]; intros sep x H; cbn [lex_long_loop]; [apply R_refl; assumption|].
    destruct (is_eof x); [apply R_refl; assumption|].
    destruct (cur_is x 93).
    - destruct (eat_when 61 (bump x)) as [r1 count] eqn:Ee.
      assert (R1 : R x r1).
      { eapply R_trans; [apply mono_bump; assumption|intros W]. replace r1 with (fst (eat_when 61 (bump x))) by (rewrite Ee; reflexivity).
        apply mono_eat_when. exact W. }
      destruct ((count =? sep) && cur_is r1 93); cbn [snd].
      + eapply R_trans; [exact R1|intros; apply mono_bump; assumption].
      + eapply R_trans; [exact R1|intros; apply IH; assumption].
    - eapply R_trans; [apply mono_bump; assumption|intros; apply IH; assumption].
  Qed.

  Lemma lex_long_string_okay : forall sep st a x, R a x -> okay a (lex_long_string sep st x).
  Proof.
    intros sep st a x Hx. unfold lex_long_string.
    pose proof (mono_long_loop (r_rest x) sep x (R_wf _ _ Hx)) as Hm.
    destruct (lex_long_loop (r_rest x) sep x) as [ended y]. cbn [snd] in Hm.
    split; [eapply R_trans; [exact Hx|intros; exact Hm]|]. split; [apply kind_ok; reflexivity|].
    intros E. rewrite E. rewrite orb_true_r. reflexivity.
  Qed.

  Lemma okay_good : forall a x res, Rp a x -> okay x res -> good a res.
  Proof.
    intros a x [[k st'] r'] Hx (H1 & H2 & H3). split; [eapply Rp_step; [exact Hx|intros; exact H1]|auto].
  Qed.

  (** numbers *)
  Lemma mono_sign_next : forall x, reader_wf x -> R x (sign_next x).
  Proof. intros x H. unfold sign_next. ifs; [apply mono_bump|apply R_refl]; assumption. Qed.

  Lemma mono_number_prefix : forall fuel x, reader_wf x -> R x (snd (number_prefix_loop fuel x)).
  Proof.
    induction fuel as [|f fuel IH]; intros x H; cbn [LuaLexer.number_prefix_loop]; [apply R_refl; assumption|].
    ifs; cbn [snd]; try (apply mono_bump; assumption); try (apply R_refl; assumption).
    eapply R_trans; [apply mono_bump; assumption|intros; apply IH; assumption].
  Qed.

  Lemma mono_number_loop : forall fuel ns x, reader_wf x -> R x (snd (number_loop fuel ns x)).
  Proof.
    induction fuel as [|f fuel IH]; intros ns x H; cbn [LuaLexer.number_loop]; [apply R_refl; assumption|].
    destruct (is_eof x); [apply R_refl; assumption|].
    destruct (sup feats F_UnderscoreNumber && (current_char x =? 95)).
    { eapply R_trans; [apply mono_bump; assumption|intros; apply IH; assumption]. }
    destruct ns; repeat (ifs; cbn beta iota zeta delta [snd fst]);
      first [ apply R_refl; assumption
            | apply mono_sign_next; assumption
            | eapply R_trans; [apply mono_bump; assumption|intros; apply IH; assumption]
            | eapply R_trans; [apply mono_sign_next; assumption|intros W; eapply R_trans; [apply mono_bump; assumption|intros; apply IH; assumption]] ].
  Qed.

  Lemma lex_number_good : forall a, reader_wf a -> is_eof a = false ->
    good a (let '(k, r) := lex_number a in (k, LNormal, r)).
  Proof.
    intros a H E. unfold LuaLexer.lex_number.
    set (r1 := bump a). assert (P1 : Rp a r1) by (apply prog_bump; assumption).
    destruct (if current_char a =? 48 then number_prefix_loop (r_rest a) r1
              else if current_char a =? 46 then (NFloat, r1) else (NInt, r1)) as [ns r2] eqn:E1.
    assert (P2 : Rp a r2).
    { destruct (current_char a =? 48).
      - replace r2 with (snd (number_prefix_loop (r_rest a) r1)) by (rewrite E1; reflexivity).
        eapply Rp_step; [exact P1|intros; apply mono_number_prefix; assumption].
      - destruct (current_char a =? 46); inversion E1; subst; exact P1. }
    destruct (number_loop (r_rest a) ns r2) as [ns' r3] eqn:E2.
    assert (P3 : Rp a r3).
    { replace r3 with (snd (number_loop (r_rest a) ns r2)) by (rewrite E2; reflexivity).
      eapply Rp_step; [exact P2|intros; apply mono_number_loop; assumption]. }
    ifs; unfold good.
    - split; [eapply Rp_step; [exact P3|intros; apply mono_bump; assumption]|]. split; [apply kind_ok; reflexivity|reflexivity].
    - split; [eapply Rp_step; [exact P3|intros; apply mono_eat; assumption]|]. split; [apply kind_ok; reflexivity|reflexivity].
    - split; [exact P3|]. split; [destruct ns'; apply kind_ok; reflexivity|reflexivity].
  Qed.

  Lemma mono_slash_star : forall fuel x, reader_wf x -> R x (slash_star_loop fuel x).
  Proof.
    induction fuel as [|f fuel IH]; intros x H; cbn [slash_star_loop]; [apply R_refl; assumption|].
    ifs; try (apply R_refl; assumption).
    - eapply R_trans; [apply mono_bump; assumption|intros; apply mono_bump; assumption].
    - eapply R_trans; [apply mono_bump; assumption|intros; apply IH; assumption].
    - eapply R_trans; [apply mono_bump; assumption|intros; apply IH; assumption].
  Qed.

  Lemma is_eof_reset : forall r, is_eof (reset_buff r) = is_eof r.
  Proof. intros r. unfold is_eof, reset_buff. cbn. rewrite N.add_0_r. reflexivity. Qed.

  (** progress chains: [Rp a (f1 (f2 (… (bump a))))] *)
  Ltac rp :=
    lazymatch goal with
    | |- Rp ?a (bump ?a) => apply prog_bump; assumption
    | |- Rp ?a (bump ?x) => eapply (Rp_step a x); [rp|intros; apply mono_bump; assumption]
    | |- Rp ?a (fst (eat_while ?p ?x)) => eapply (Rp_step a x); [rp|intros; apply mono_eat; assumption]
    | |- Rp ?a (fst (eat_when ?c ?x)) => eapply (Rp_step a x); [rp|intros; apply mono_eat_when; assumption]
    | |- Rp ?a (slash_star_loop ?f ?x) => eapply (Rp_step a x); [rp|intros; apply mono_slash_star; assumption]
    | |- Rp ?a (lex_new_line ?x) => eapply (Rp_step a x); [rp|intros; apply mono_new_line; assumption]
    end.

  Ltac pairs :=
    repeat match goal with
           | |- context [match eat_when ?c ?x with pair _ _ => _ end] =>
               let r := fresh "r" in let n := fresh "n" in let E := fresh "E" in
               destruct (eat_when c x) as [r n] eqn:E;
               assert (r = fst (eat_when c x)) by (rewrite E; reflexivity); subst r; clear E
           end.

  Ltac leaf :=
    lazymatch goal with
    | |- good ?a (?k, LNormal, ?x) => split; [rp|split; [apply kind_ok; reflexivity|reflexivity]]
    end.

  Lemma keyword_kinds_ok : forallb (fun e => negb (snd (fst e) =? TK_TkEof) && negb (dead_kind (snd (fst e)))) keyword_table = true.
  Proof. vm_compute. reflexivity. Qed.

  Lemma name_to_kind_ok : forall name, name_to_kind feats name <> TK_TkEof /\ dead_kind (name_to_kind feats name) = false.
  Proof.
    intros name. unfold name_to_kind. pose proof keyword_kinds_ok as Hk.
    induction keyword_table as [|[[w k] f] tbl IH]; cbn [kw_lookup].
    - apply kind_ok; reflexivity.
    - cbn [forallb fst snd] in Hk. apply andb_true_iff in Hk. destruct Hk as [Hk1 Hk2].
      destruct (text_eqb w name); [|apply IH; exact Hk2].
      destruct ((f =? 0) || sup feats f); [|apply kind_ok; reflexivity].
      apply andb_true_iff in Hk1. destruct Hk1 as [A B].
      apply kind_ok; [destruct (k =? TK_TkEof); [discriminate|reflexivity]|destruct (dead_kind k); [discriminate|reflexivity]].
  Qed.

  Lemma lex_good : forall r0, reader_wf r0 -> is_eof r0 = false -> good (reset_buff r0) (lex LNormal r0).
  Proof.
    intros r0 H0 E0. unfold LuaLexer.lex.
    set (a := reset_buff r0).
    assert (H : reader_wf a) by (apply reset_buff_wf; exact H0).
    assert (E : is_eof a = false) by (unfold a; rewrite is_eof_reset; exact E0).
    clearbody a. clear H0 E0 r0. cbv zeta.
    (* newline, whitespace *)
    destruct ((current_char a =? 10) || (current_char a =? 13)) eqn:C1.
    { split; [apply prog_new_line; assumption|split; [apply kind_ok; reflexivity|reflexivity]]. }
    destruct ((current_char a =? 32) || (current_char a =? 9)) eqn:C2.
    { split; [apply prog_eat; assumption|split; [apply kind_ok; reflexivity|reflexivity]]. }
    (* '-' *)
    destruct (current_char a =? 45).
    { ifs; try leaf.
      (* "--[" : probe for a long comment *)
      destruct (eat_when 61 (bump (bump (bump a)))) as [r1 sep] eqn:Ee.
      assert (r1 = fst (eat_when 61 (bump (bump (bump a))))) by (rewrite Ee; reflexivity). subst r1.
      destruct (cur_is (fst (eat_when 61 (bump (bump (bump a))))) 91); cbn beta iota delta [fst snd]; [|leaf].
      match goal with |- context [lex_long_string ?sp ?st ?x] =>
        assert (Px : Rp a x) by rp;
        pose proof (lex_long_string_okay sp st x x (R_refl _ (R_wf _ _ (Rp_R _ _ Px)))) as Hk;
        destruct (lex_long_string sp st x) as [[k st'] r3] end.
      destruct Hk as (K1 & K2 & K3).
      split; [eapply Rp_step; [exact Px|intros; exact K1]|]. split; [apply kind_ok; reflexivity|exact K3]. }
    (* '[' *)
    destruct (current_char a =? 91).
    { destruct (eat_when 61 (bump a)) as [r1 sep] eqn:Ee.
      assert (r1 = fst (eat_when 61 (bump a))) by (rewrite Ee; reflexivity). subst r1.
      ifs; try leaf.
      eapply okay_good; [|apply lex_long_string_okay; apply R_refl].
      - rp.
      - apply (R_wf a). apply Rp_R. rp. }
    (* everything else: one top-level branch at a time *)
    rewrite E.
    repeat (match goal with |- good _ (if ?b then _ else _) => destruct b eqn:? end;
            [ solve [ ifs; first [ leaf
                                 | apply lex_number_good; assumption
                                 | apply lex_string_good; rp
                                 | split; [rp|split; [apply name_to_kind_ok|reflexivity]] ] ] | ]).
    leaf.
  Qed.

  (** in [LuaParser::parse] the lexer starts in [LexerState::Normal] and leaves it only when the reader is exhausted *)
  Definition lua_inv (st : lstate) (r : reader) : Prop := st = LNormal.

  Definition alive_kind (k : tkind) : Prop := dead_kind k = false.

  Lemma lua_lexer_contract : step_contract lstate lua_step lua_inv alive_kind.
  Proof.
    intros st r Hwf Heof Hinv. unfold lua_inv in Hinv. subst st. cbn [LuaLexer.lua_step].
    pose proof (lex_good r Hwf Heof) as G. destruct (lex LNormal r) as [[k st'] r']. destruct G as ((cs & M & P) & (K & D) & S).
    exists cs. repeat split; try apply M; auto.
  Qed.

  (** the transcribed lexer tiles every text *)
  Lemma lua_lex_tiles : forall t,
    let toks := lua_tokenize feats uni_alpha uni_alnum t in
    tiles toks 0 (bytes t) /\ concat_slices t toks = Some t /\ Forall (fun x => dead_kind (fst x) = false) toks.
  Proof.
    intros t. unfold lua_tokenize.
    pose proof (lex_tiles lstate lua_step lua_inv alive_kind lua_lexer_contract t true LNormal) as H.
    destruct (tokenize lstate lua_step true LNormal t) as [[toks r'] ex]. cbn [fst].
    destruct H as (_ & A & B & C); [intros; reflexivity|reflexivity|]. auto.
  Qed.
End Lexer.
