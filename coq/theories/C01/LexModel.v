(** C01/LexModel.v — layer (b): [LuaLexer::tokenize] (lexer/lua_lexer.rs) as a loop over an arbitrary lexer
    step.  Definitions only.  The step is a parameter: [S] is the lexer's own state ([LexerState], config, …),
    [step st r] is one call of [lex] / [lex_string] / [lex_long_string] returning the token kind. *)
From EV Require Export Base.Reader C01.Model.
Local Open Scope N_scope.

Definition not_newline (c : cp) : bool := negb ((c =? 10) || (c =? 13)).

Section Tokenize.
  Variable S : Type.
  Variable step : S -> reader -> tkind * S * reader.

  (** while !self.reader.is_eof() { let kind = …; if kind == TkEof { break; } tokens.push((kind, current_range)) }
      result: tokens, final reader, "left the loop because the reader was exhausted" *)
  Fixpoint tok_loop (fuel : nat) (st : S) (r : reader) (acc : list leaf) : list leaf * reader * bool :=
    match fuel with
    | O => (acc, r, false)
    | Datatypes.S f =>
        if is_eof r then (acc, r, true)
        else let '(k, st', r') := step st r in
             if k =? TK_TkEof then (acc, r', false)
             else tok_loop f st' r' (acc ++ [(k, current_range r')])
    end.

  (** [fn tokenize]: the shebang prefix (only in [LexerState::Normal]), then the loop.
      fuel: one iteration per unread character suffices for a step that makes progress *)
  Definition tokenize_from (normal : bool) (st : S) (r : reader) : list leaf * reader * bool :=
    let '(r1, acc) :=
      if normal && (current_char r =? 35 (* '#' *))
      then let r1 := fst (eat_while not_newline r) in (r1, [(TK_TkShebang, current_range r1)])
      else (r, []) in
    tok_loop (Datatypes.S (length (r_rest r))) st r1 acc.

  Definition tokenize (normal : bool) (st : S) (t : text) : list leaf * reader * bool :=
    tokenize_from normal st (reader_new t).
End Tokenize.
