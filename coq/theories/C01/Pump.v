(** C01/Pump.v — layer (c): the token pump of [LuaParser] (parser/lua_parser.rs: init, bump, skip_trivia,
    parse_trivia_tokens, parse_comments, set_current_token_kind) and the marker/event API (parser/marker.rs: mark,
    set_kind, complete, undo, precede, push_node_end — after the repair of the mark-level accounting) as a state
    machine over ARBITRARY client operation sequences.  Definitions only.

    The doc-comment parser ([LuaDocParser], lua_doc_parser.rs + lexer/lua_doc_lexer.rs) is ABSTRACT: a [bump] carries,
    for every comment group that [parse_comments] hands to it, the list of operations it performed on the shared
    event list (marker operations and the tokens it ate).  [None] = a Rust panic. *)
From Coq Require Export ZArith.
From EV Require Export C01.Model.
Local Open Scope N_scope.

(** operations of the doc parser on the shared event list *)
Inductive dop : Type :=
| DMark (k : skind)
| DSetKind (p : nat) (k : skind)
| DComplete (p : nat)
| DUndo (p : nat)
| DPrecede (start : nat) (k : skind)
| DRawEnd
| DEat (k : tkind) (s l : N).

(** operations of the grammar (the client) *)
Inductive op : Type :=
| OInit (docs : list (list dop))   (* [init]; the doc-parser runs of the bump it performs when the first token is trivia *)
| OBump (docs : list (list dop))
| OSetTokKind (k : tkind)
| OMark (k : skind)
| OSetKind (p : nat) (k : skind)
| OComplete (p : nat)
| OUndo (p : nat)
| OPrecede (start : nat) (k : skind)
| ORawEnd.

(** ** marker API on (events, mark_level) *)
Definition mst := (list event * Z)%type.

(** [fn mark] *)
Definition m_mark (m : mst) (k : skind) : mst := (fst m ++ [NodeStart k 0], (snd m + 1)%Z).

(** [fn push_node_end] *)
Definition m_raw_end (m : mst) : mst := (fst m ++ [NodeEnd], (snd m - 1)%Z).

(** [match &mut events[position] { NodeStart { kind: k, .. } => *k = kind, _ => unreachable!() }] *)
Definition set_start_kind (evs : list event) (p : nat) (k : skind) : option (list event) :=
  match nth_error evs p with
  | Some (NodeStart _ par) => Some (set_nth evs p (NodeStart k par))
  | _ => None
  end.

(** [Marker::set_kind] *)
Definition m_set_kind (m : mst) (p : nat) (k : skind) : option mst :=
  match set_start_kind (fst m) p k with Some evs => Some (evs, snd m) | None => None end.

(** ** bracket depth of an event list: non-erased starts minus ends *)
Fixpoint depth (evs : list event) : Z :=
  match evs with
  | [] => 0%Z
  | NodeStart k _ :: r => ((if N.eqb k SK_None then 0 else 1) + depth r)%Z
  | NodeEnd :: r => (depth r - 1)%Z
  | _ :: r => depth r
  end.

(** every prefix has at least as many live starts as ends *)
Fixpoint prefix_ok (evs : list event) (d : Z) : bool :=
  match evs with
  | [] => true
  | NodeStart k _ :: r => prefix_ok r (if N.eqb k SK_None then d else d + 1)%Z
  | NodeEnd :: r => (1 <=? d)%Z && prefix_ok r (d - 1)%Z
  | _ :: r => prefix_ok r d
  end.


(** the start at [p] is not closed by any later NodeEnd: the events after it never need it *)
Definition unclosed (evs : list event) (p : nat) : bool := prefix_ok (skipn (S p) evs) 0.

(** the discipline the Rust type system enforces on the client (a [Marker] is a linear value: it is consumed by
    exactly one complete/undo and can be retagged only before that; kinds passed by the grammar are never
    [None]; a NodeEnd is pushed only while a node is open; a node that is undone has not been closed), stated as
    a decidable test of one operation against the current state *)
Definition live_start (evs : list event) (p : nat) : bool :=
  match nth_error evs p with
  | Some (NodeStart k _) => negb (k =? SK_None)
  | _ => false
  end.

Definition mop_ok (m : mst) (d : dop) : bool :=
  match d with
  | DMark k => negb (k =? SK_None)
  | DSetKind p k => negb (k =? SK_None) && live_start (fst m) p
  | DComplete p => live_start (fst m) p && (0 <? snd m)%Z
  | DUndo p => live_start (fst m) p && unclosed (fst m) p
  | DPrecede _ k => negb (k =? SK_None)
  | DRawEnd => (0 <? snd m)%Z
  | DEat _ _ _ => true
  end.


(** the marker fragment of the client operations, as doc ops *)
Definition op_as_dop (o : op) : option dop :=
  match o with
  | OMark k => Some (DMark k)
  | OSetKind p k => Some (DSetKind p k)
  | OComplete p => Some (DComplete p)
  | OUndo p => Some (DUndo p)
  | OPrecede s k => Some (DPrecede s k)
  | ORawEnd => Some DRawEnd
  | _ => None
  end.

(** a token kind that the pump would silently drop: invalid but not trivia (None, TkEof) *)


Section Raw.
(** [raw = false]: the API as the theorems see it.  [raw = true] is used only to replay a RECORDED trace, in which the
    [push_node_end] that a non-empty [complete] performs appears as a record of its own: there [complete] stops
    before that call (so that [DComplete p; DRawEnd] replays a non-empty complete and [DComplete p] an empty one). *)
Variable raw : bool.

(** [Marker::complete] (with the repair: an erased empty node releases its mark level) *)
Definition m_complete (m : mst) (p : nat) : option mst :=
  match nth_error (fst m) p with
  | Some (NodeStart _ _) =>
      if Nat.eqb (length (fst m)) (S p)
      then match set_start_kind (fst m) p SK_None with
           | Some evs => Some (evs, (snd m - 1)%Z)
           | None => None
           end
      else if raw then Some m else Some (m_raw_end m)
  | _ => None
  end.

(** [Marker::undo] (with the repair) *)
Definition m_undo (m : mst) (p : nat) : option mst :=
  match set_start_kind (fst m) p SK_None with
  | Some evs => Some (evs, (snd m - 1)%Z)
  | None => None
  end.

(** [CompleteMarker::precede] *)
Definition m_precede (m : mst) (start : nat) (k : skind) : option mst :=
  let pos := length (fst m) in
  let m1 := m_mark m k in
  match nth_error (fst m1) start with
  | Some (NodeStart k0 _) => Some (set_nth (fst m1) start (NodeStart k0 pos) ++ [Trivia], snd m1)
  | _ => None
  end.

Definition exec_dop (m : mst) (d : dop) : option mst :=
  match d with
  | DMark k => Some (m_mark m k)
  | DSetKind p k => m_set_kind m p k
  | DComplete p => m_complete m p
  | DUndo p => m_undo m p
  | DPrecede s k => m_precede m s k
  | DRawEnd => Some (m_raw_end m)
  | DEat k s l => Some (fst m ++ [EatToken k s l], snd m)
  end.

Fixpoint exec_dops (m : mst) (ds : list dop) : option mst :=
  match ds with
  | [] => Some m
  | d :: r => match exec_dop m d with Some m' => exec_dops m' r | None => None end
  end.

Fixpoint mops_ok (m : mst) (ds : list dop) : bool :=
  match ds with
  | [] => true
  | d :: r => mop_ok m d && match exec_dop m d with Some m' => mops_ok m' r | None => true end
  end.


(** the tokens a doc-parser run ate *)
Fixpoint deats (ds : list dop) : list leaf :=
  match ds with
  | [] => []
  | DEat k s l :: r => (k, (s, l)) :: deats r
  | _ :: r => deats r
  end.

(** ** the token pump *)
Record pst : Type := {
  p_tokens : list leaf;
  p_index : nat;
  p_current : tkind;
  p_m : mst;            (* events, mark_level *)
  p_doc : bool;         (* parse_config.support_emmylua_doc() *)
  p_inited : bool;      (* ghost: [init] has run *)
  p_doc_ok : bool;      (* ghost: every doc-parser run so far re-emitted a tiling of the range it was handed *)
  p_disc : bool         (* ghost: every operation so far respected the client discipline ([op_ok]) *)
}.

Definition pst_new (toks : list leaf) (doc : bool) : pst :=
  {| p_tokens := toks; p_index := 0; p_current := TK_None; p_m := ([], 0%Z); p_doc := doc;
     p_inited := false; p_doc_ok := true; p_disc := true |}.

Definition is_trivia_kind (k : tkind) : bool := mem k pump_trivia_kinds.
Definition is_invalid_kind (k : tkind) : bool := mem k pump_invalid_kinds.
(** a token kind that the pump would silently drop: invalid but not trivia (None, TkEof) *)
Definition dead_kind (k : tkind) : bool := is_invalid_kind k && negb (is_trivia_kind k).

Definition eat (t : leaf) : event := EatToken (fst t) (fst (snd t)) (snd (snd t)).
Definition emit (m : mst) (t : leaf) : mst := (fst m ++ [eat t], snd m).
Definition emit_all (m : mst) (ts : list leaf) : mst := (fst m ++ map eat ts, snd m).

(** [fn skip_trivia] *)
Fixpoint skip_trivia_go (l : list leaf) (i : nat) : nat :=
  match l with
  | [] => i
  | t :: r => if is_trivia_kind (fst t) then skip_trivia_go r (S i) else i
  end.
Definition skip_trivia (toks : list leaf) (i : nat) : nat := skip_trivia_go (skipn i toks) i.

(** the backwards scan that decides whether a comment is an inline comment: examines indices j, j-1, …, 0 *)
Fixpoint inline_scan (toks : list leaf) (j : nat) : bool :=
  match nth_error toks j with
  | None => false
  | Some t =>
      if fst t =? TK_TkEndOfLine then false
      else if fst t =? TK_TkWhitespace then match j with O => false | S j' => inline_scan toks j' end
      else true
  end.

(** trailing run of whitespace / end-of-line tokens of a comment group ([parse_comments]) *)
Fixpoint split_trailing (l : list leaf) : list leaf * list leaf :=
  match l with
  | [] => ([], [])
  | t :: r => let '(a, b) := split_trailing r in
              match a with
              | [] => if mem (fst t) pc_trim_kinds then ([], t :: b) else ([t], b)
              | _ => (t :: a, b)
              end
  end.

Definition group_start (g : list leaf) : N := match g with t :: _ => fst (snd t) | [] => 0 end.
Definition group_end (g : list leaf) : N := let t := last g (0, (0, 0)) in fst (snd t) + snd (snd t).
(** the range handed to the doc parser: from the start of the group to the end of its non-trailing part *)
Definition doc_range (group prefix : list leaf) : N * N :=
  (group_start group, match prefix with [] => group_start group | _ => group_end prefix end).

(** state of the trivia loop *)
Record tst : Type := { t_m : mst; t_docs : list (list dop); t_ok : bool; t_disc : bool }.

(** [fn parse_comments] *)
Definition parse_comments (doc : bool) (s : tst) (group : list leaf) : option tst :=
  if negb doc then Some {| t_m := emit_all (t_m s) group; t_docs := t_docs s; t_ok := t_ok s; t_disc := t_disc s |}
  else
    let '(prefix, trailing) := split_trailing group in
    match t_docs s with
    | [] => None   (* the trace carries no doc-parser run for this group: not a run of the model *)
    | ds :: rest =>
        match exec_dops (t_m s) ds with
        | None => None
        | Some m' =>
            Some {| t_m := emit_all m' trailing; t_docs := rest;
                    t_ok := t_ok s && tilesb (deats ds) (fst (doc_range group prefix)) (snd (doc_range group prefix));
                    t_disc := t_disc s && mops_ok (t_m s) ds |}
        end
    end.

(** [fn parse_trivia_tokens]: the loop [for i in start..next_index] over [fuel] = the tokens still to visit *)
Fixpoint trivia_loop (toks : list leaf) (doc : bool) (fuel : list leaf) (i : nat)
         (line_count : nat) (pending : list leaf) (s : tst) : option (list leaf * tst) :=
  match fuel with
  | [] => Some (pending, s)
  | t :: rest =>
      let k := fst t in
      if mem k pt_comment_kinds then
        trivia_loop toks doc rest (S i) 0 (pending ++ [t]) s
      else if mem k pt_eol_kinds then
        let line_count := S line_count in
        let '(pending1, s1) :=
          match pending with
          | [] => ([], {| t_m := emit (t_m s) t; t_docs := t_docs s; t_ok := t_ok s; t_disc := t_disc s |})
          | _ => (pending ++ [t], s)
          end in
        if Nat.ltb 1 line_count && negb (Nat.eqb (length pending1) 0) then
          match parse_comments doc s1 pending1 with
          | None => None
          | Some s2 => trivia_loop toks doc rest (S i) line_count [] s2
          end
        else if Nat.eqb (length pending1) 2 && Nat.leb 2 i then
          if inline_scan toks (i - 2) then
            match parse_comments doc s1 pending1 with
            | None => None
            | Some s2 => trivia_loop toks doc rest (S i) line_count [] s2
            end
          else trivia_loop toks doc rest (S i) line_count pending1 s1
        else trivia_loop toks doc rest (S i) line_count pending1 s1
      else if mem k pt_ws_kinds then
        match pending with
        | [] => trivia_loop toks doc rest (S i) line_count [] {| t_m := emit (t_m s) t; t_docs := t_docs s; t_ok := t_ok s; t_disc := t_disc s |}
        | _ => trivia_loop toks doc rest (S i) line_count (pending ++ [t]) s
        end
      else
        match pending with
        | [] => trivia_loop toks doc rest (S i) line_count [] s
        | _ => match parse_comments doc s pending with
               | None => None
               | Some s2 => trivia_loop toks doc rest (S i) line_count [] s2
               end
        end
  end.

Definition parse_trivia_tokens (toks : list leaf) (doc : bool) (start next : nat) (s : tst) : option tst :=
  (* tokens[i] for i in start..next: index out of bounds panics *)
  if Nat.ltb (length toks) next then None
  else
    match trivia_loop toks doc (firstn (next - start) (skipn start toks)) start 0 [] s with
    | None => None
    | Some ([], s') => Some s'
    | Some (pending, s') => parse_comments doc s' pending
    end.

Definition kind_at (toks : list leaf) (i : nat) : tkind :=
  match nth_error toks i with Some t => fst t | None => TK_TkEof end.

(** [fn bump] *)
Definition p_bump (st : pst) (docs : list (list dop)) : option pst :=
  let toks := p_tokens st in
  let m1 := if negb (is_invalid_kind (p_current st)) && Nat.ltb (p_index st) (length toks)
            then match nth_error toks (p_index st) with Some t => emit (p_m st) t | None => p_m st end
            else p_m st in
  let next := skip_trivia toks (S (p_index st)) in
  match parse_trivia_tokens toks (p_doc st) (p_index st) next {| t_m := m1; t_docs := docs; t_ok := p_doc_ok st; t_disc := p_disc st |} with
  | None => None
  | Some s =>
      match t_docs s with
      | _ :: _ => None   (* the trace carries more doc-parser runs than this bump performed *)
      | [] =>
          Some {| p_tokens := toks; p_index := next; p_current := kind_at toks next; p_m := t_m s;
                  p_doc := p_doc st; p_inited := p_inited st; p_doc_ok := t_ok s; p_disc := t_disc s |}
      end
  end.

(** [fn init]; the doc-parser runs of the bump it may perform are [docs] *)
Definition p_init (st : pst) (docs : list (list dop)) : option pst :=
  let cur := match p_tokens st with [] => TK_TkEof | t :: _ => fst t end in
  let st1 := {| p_tokens := p_tokens st; p_index := p_index st; p_current := cur; p_m := p_m st; p_doc := p_doc st;
                p_inited := true; p_doc_ok := p_doc_ok st; p_disc := p_disc st |} in
  if is_trivia_kind cur then p_bump st1 docs
  else match docs with [] => Some st1 | _ => None end.

(** [fn set_current_token_kind] *)
Definition p_set_tok_kind (st : pst) (k : tkind) : pst :=
  if Nat.ltb (p_index st) (length (p_tokens st))
  then {| p_tokens := match nth_error (p_tokens st) (p_index st) with
                      | Some t => set_nth (p_tokens st) (p_index st) (k, snd t)
                      | None => p_tokens st
                      end;
          p_index := p_index st; p_current := k; p_m := p_m st; p_doc := p_doc st;
          p_inited := p_inited st; p_doc_ok := p_doc_ok st; p_disc := p_disc st |}
  else st.

Definition with_m (st : pst) (m : mst) : pst :=
  {| p_tokens := p_tokens st; p_index := p_index st; p_current := p_current st; p_m := m; p_doc := p_doc st;
     p_inited := p_inited st; p_doc_ok := p_doc_ok st; p_disc := p_disc st |}.

Definition lift (st : pst) (r : option mst) : option pst :=
  match r with Some m => Some (with_m st m) | None => None end.

(** the discipline on the pump operations: [init] once and first; bump / retag only after it; never retag to a
    kind the pump drops *)
Definition op_ok (st : pst) (o : op) : bool :=
  match o with
  | OInit _ => negb (p_inited st)
  | OBump _ => p_inited st
  | OSetTokKind k => p_inited st && negb (dead_kind k)
  | _ => match op_as_dop o with Some d => mop_ok (p_m st) d | None => true end
  end.

Definition with_disc (st : pst) (b : bool) : pst :=
  {| p_tokens := p_tokens st; p_index := p_index st; p_current := p_current st; p_m := p_m st; p_doc := p_doc st;
     p_inited := p_inited st; p_doc_ok := p_doc_ok st; p_disc := p_disc st && b |}.

(** one client operation (the discipline verdict is accumulated in the ghost field first) *)
Definition exec_op (st0 : pst) (o : op) : option pst :=
  let st := with_disc st0 (op_ok st0 o) in
  match o with
  | OInit docs => p_init st docs
  | OBump docs => p_bump st docs
  | OSetTokKind k => Some (p_set_tok_kind st k)
  | OMark k => Some (with_m st (m_mark (p_m st) k))
  | OSetKind p k => lift st (m_set_kind (p_m st) p k)
  | OComplete p => lift st (m_complete (p_m st) p)
  | OUndo p => lift st (m_undo (p_m st) p)
  | OPrecede s k => lift st (m_precede (p_m st) s k)
  | ORawEnd => Some (with_m st (m_raw_end (p_m st)))
  end.

Fixpoint exec_ops (st : pst) (ops : list op) : option pst :=
  match ops with
  | [] => Some st
  | o :: r => match exec_op st o with Some st' => exec_ops st' r | None => None end
  end.

End Raw.

