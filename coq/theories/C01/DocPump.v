(** C01/DocPump.v — layer (c'): the token pump of [LuaDocParser] (parser/lua_doc_parser.rs: init, bump,
    calc_next_current_token, eat_current_and_lex_next, lex_token, re_calc_detail, re_calc_cast_type, bump_to_end,
    set_current_token_kind) over an ABSTRACT doc lexer.  Definitions only.

    The doc lexer ([LuaDocLexer], 15 states) is an oracle: [reset] puts a reader on a token's range, every [lex]
    call that finds the reader not exhausted consumes one answer [(kind, length)] of the oracle stream; the "Reader
    discipline" (1 <= length, the token stays inside the range, the kind is not None/TkEof) is checked as the
    answers are consumed ([d_lex_ok]).  The lexer's own state only matters to the pump through the set of kinds that
    [calc_next_current_token] eats by itself; that set is a parameter of each bump.

    Operations are the PRIMITIVE steps, in the order the Rust code performs them (a Rust function such as
    [bump_to_end] is a sequence of them); the theorems quantify over arbitrary sequences of primitives. *)
From EV Require Export C01.Pump.
Local Open Scope N_scope.

Inductive pop : Type :=
| PBump (skip : N)        (* bump(); skip: 0 = DocContinue/EndOfLine/Whitespace, 1 = Whitespace, 2 = EndOfLine/Whitespace, else none *)
| PEatLex                 (* the eat_current_and_lex_next of bump_to_end *)
| PRecalcDetail           (* re_calc_detail past its guard: current := None; lexer.reset(current token start .. origin token end) *)
| PRecalcCast             (* re_calc_cast_type past its guard: the same reset, then the current token is lexed again *)
| PSetKind (k : tkind)    (* current_token := k *)
| PMarker (d : dop).      (* mark / complete / … on the shared event list (never a DEat) *)

Record dst : Type := {
  d_toks : list leaf;          (* the comment group handed to the doc parser *)
  d_oidx : nat;                (* origin_token_index *)
  d_cur : tkind;               (* current_token *)
  d_crange : N * N;            (* current_token_range (start, length) *)
  d_lx : option (N * N);       (* the doc lexer's reader: (position of the next character, end of its range); None = no reader *)
  d_answers : list (tkind * N);(* oracle: results of the lex calls still to come *)
  d_out : list dop;            (* what the run did to the shared event list, in order *)
  d_lex_ok : bool;             (* ghost: every answer consumed so far respected the Reader discipline *)
  d_disc : bool                (* ghost: every primitive so far respected the client discipline *)
}.

Definition doc_invalid (k : tkind) : bool := mem k doc_invalid_kinds.

(** [LuaDocLexer::is_invalid] *)
Definition lx_invalid (lx : option (N * N)) : bool :=
  match lx with None => true | Some (pos, e) => e <=? pos end.

Definition whole_kind (k : tkind) : bool := (k =? TK_TkEndOfLine) || (k =? TK_TkWhitespace) || (k =? TK_TkShebang).

Definition set_lex (st : dst) oidx lx answers ok : dst :=
  {| d_toks := d_toks st; d_oidx := oidx; d_cur := d_cur st; d_crange := d_crange st; d_lx := lx; d_answers := answers;
     d_out := d_out st; d_lex_ok := ok; d_disc := d_disc st |}.

(** [fn lex_token]; [None] = the oracle stream is exhausted (not a run of the model).
    One iteration per origin token at most, plus one. *)
Fixpoint lex_token (fuel : nat) (st : dst) : option (dst * (tkind * (N * N))) :=
  match fuel with
  | O => None
  | S fuel' =>
      let next_round (st1 : dst) (pos e : N) :=
        (* kind = self.lexer.lex(): reset_buff; if reader.is_eof() { TkEof } else { state function } *)
        if e <=? pos then lex_token fuel' st1
        else match d_answers st1 with
             | [] => None
             | (k, n) :: rest =>
                 let ok := d_lex_ok st1 && (1 <=? n) && (pos + n <=? e) && negb (doc_invalid k) in
                 Some (set_lex st1 (d_oidx st1) (Some (pos + n, e)) rest ok, (k, (pos, n)))
             end in
      if lx_invalid (d_lx st) then
        let next := if Nat.eqb (d_oidx st) 0 && (d_cur st =? TK_None) then O else S (d_oidx st) in
        match nth_error (d_toks st) next with
        | None => Some (st, (TK_TkEof, (fst (d_crange st) + snd (d_crange st), 0)))
        | Some t =>
            if whole_kind (fst t) then Some (set_lex st next (d_lx st) (d_answers st) (d_lex_ok st), t)
            else let s := fst (snd t) in let l := snd (snd t) in
                 next_round (set_lex st next (Some (s, s + l)) (d_answers st) (d_lex_ok st)) s (s + l)
        end
      else match d_lx st with
           | Some (pos, e) => next_round st pos e
           | None => None
           end
  end.

Definition lex_fuel (st : dst) : nat := S (S (length (d_toks st))).

Definition with_cur (st : dst) (k : tkind) (r : N * N) : dst :=
  {| d_toks := d_toks st; d_oidx := d_oidx st; d_cur := k; d_crange := r; d_lx := d_lx st; d_answers := d_answers st;
     d_out := d_out st; d_lex_ok := d_lex_ok st; d_disc := d_disc st |}.

Definition emit_cur (st : dst) : dst :=
  {| d_toks := d_toks st; d_oidx := d_oidx st; d_cur := d_cur st; d_crange := d_crange st; d_lx := d_lx st;
     d_answers := d_answers st; d_out := d_out st ++ [DEat (d_cur st) (fst (d_crange st)) (snd (d_crange st))];
     d_lex_ok := d_lex_ok st; d_disc := d_disc st |}.

Definition with_ddisc (st : dst) (b : bool) : dst :=
  {| d_toks := d_toks st; d_oidx := d_oidx st; d_cur := d_cur st; d_crange := d_crange st; d_lx := d_lx st;
     d_answers := d_answers st; d_out := d_out st; d_lex_ok := d_lex_ok st; d_disc := d_disc st && b |}.

(** [fn eat_current_and_lex_next] *)
Definition eat_lex (st : dst) : option dst :=
  let st := emit_cur st in
  match lex_token (lex_fuel st) st with
  | None => None
  | Some (st', (k, r)) => Some (with_cur st' k (if snd r =? 0 then d_crange st' else r))
  end.

Definition in_skip (skip : N) (k : tkind) : bool :=
  if skip =? 0 then (k =? TK_TkDocContinue) || (k =? TK_TkEndOfLine) || (k =? TK_TkWhitespace)
  else if skip =? 1 then k =? TK_TkWhitespace
  else if skip =? 2 then (k =? TK_TkEndOfLine) || (k =? TK_TkWhitespace)
  else false.

(** the [while matches!(self.current_token, …) { self.eat_current_and_lex_next(); }] loops *)
Fixpoint skip_loop (fuel : nat) (skip : N) (st : dst) : option dst :=
  match fuel with
  | O => None
  | S fuel' => if in_skip skip (d_cur st)
               then match eat_lex st with Some st' => skip_loop fuel' skip st' | None => None end
               else Some st
  end.

(** [fn bump] = emit the current token unless it is None/TkEof, then [calc_next_current_token] *)
Definition d_bump (skip : N) (st : dst) : option dst :=
  let st := if doc_invalid (d_cur st) then st else emit_cur st in
  match lex_token (lex_fuel st) st with
  | None => None
  | Some (st', (k, r)) =>
      let st' := with_cur st' k r in
      if k =? TK_TkEof then Some st'
      else skip_loop (S (length (d_answers st') + length (d_toks st'))) skip st'
  end.

(** [lexer.reset(origin kind, read_range.start .. origin_range.end)]; usize underflow / bad slice = panic *)
Definition reset_to_current (st : dst) : option dst :=
  match nth_error (d_toks st) (d_oidx st) with
  | None => None
  | Some t =>
      let oe := fst (snd t) + snd (snd t) in
      let rs := fst (d_crange st) in
      if oe <? rs then None
      else Some (set_lex st (d_oidx st) (Some (rs, oe)) (d_answers st) (d_lex_ok st))
  end.

Definition exec_pop (st0 : dst) (o : pop) : option dst :=
  match o with
  | PBump skip => d_bump skip st0
  | PEatLex => eat_lex (with_ddisc st0 (negb (doc_invalid (d_cur st0))))
  | PRecalcDetail =>
      (* Rust reaches this only with a valid lexer, i.e. right after lexing the current token from it *)
      let st := with_ddisc st0 (negb (lx_invalid (d_lx st0)) && negb (doc_invalid (d_cur st0))) in
      reset_to_current (with_cur st TK_None (d_crange st))
  | PRecalcCast =>
      let st := with_ddisc st0 (negb (lx_invalid (d_lx st0)) && negb (doc_invalid (d_cur st0))) in
      match reset_to_current st with
      | None => None
      | Some st1 =>
          match lex_token (lex_fuel st1) st1 with
          | None => None
          | Some (st2, (k, r)) => Some (with_cur st2 k (if snd r =? 0 then d_crange st2 else r))
          end
      end
  | PSetKind k => Some (with_cur (with_ddisc st0 (negb (doc_invalid (d_cur st0)) && negb (doc_invalid k))) k (d_crange st0))
  | PMarker d =>
      Some {| d_toks := d_toks st0; d_oidx := d_oidx st0; d_cur := d_cur st0; d_crange := d_crange st0; d_lx := d_lx st0;
              d_answers := d_answers st0; d_out := d_out st0 ++ [d];
              d_lex_ok := d_lex_ok st0; d_disc := d_disc st0 && match d with DEat _ _ _ => false | _ => true end |}
  end.

Fixpoint exec_pops (st : dst) (ops : list pop) : option dst :=
  match ops with
  | [] => Some st
  | o :: r => match exec_pop st o with Some st' => exec_pops st' r | None => None end
  end.

(** [LuaDocParser::parse]: new parser, [init] (a bump in lexer state Init unless there are no tokens) *)
Definition dst_new (toks : list leaf) (answers : list (tkind * N)) : dst :=
  {| d_toks := toks; d_oidx := 0; d_cur := TK_None; d_crange := (0, 0); d_lx := None; d_answers := answers; d_out := [];
     d_lex_ok := true; d_disc := true |}.

Definition doc_run (toks : list leaf) (answers : list (tkind * N)) (ops : list pop) : option dst :=
  match toks with
  | [] => exec_pops (dst_new toks answers) ops
  | _ => match d_bump 2 (dst_new toks answers) with
         | Some st => exec_pops st ops
         | None => None
         end
  end.
